import PyxModel.Sql.LexRx
import Proofs.Regex
import Proofs.SqlLexer

set_option linter.unusedSimpArgs false

/-!
  THE HAND MATCHERS ARE THE SOURCE REGEXES.  For every `t_*` rule of xtuml/load.py the hand-written matcher of
  PyxModel/Sql/Lexer.lean returns exactly what the generic regex engine (Python semantics: ordered alternation, greedy /
  lazy repetition with backtracking) returns on the parse tree of the rule's regex as generated from the source
  (`Gen.SqlLex.Rule.rx`) -- for every input and every continuation that cannot fail, in particular for `re.match`.
  Includes the two places where backtracking matters: t_STRING (greedy repetition of an alternation, backing off into
  the last doubled quote) and t_GUID (lazy repetition).
-/
namespace Pyx.Sql
open Gen.SqlLex (Rule)
open Pyx.Regex
open Pyx.Regex.Regex

/-! ### character classes of the generated trees -/

theorem mem_ch (x c : Char) : CSet.mem { neg := false, items := [.ch x] } c = (c == x) := by
  simp [CSet.mem, CItem.mem]

theorem mem_nch (x c : Char) : CSet.mem { neg := true, items := [.ch x] } c = !(c == x) := by
  simp [CSet.mem, CItem.mem]

theorem mem_nch2 (x y c : Char) : CSet.mem { neg := true, items := [.ch x, .ch y] } c = (!(c == x) && !(c == y)) := by
  simp [CSet.mem, CItem.mem]

theorem mem_09 (c : Char) : CSet.mem { neg := false, items := [.range '0' '9'] } c = isAsciiDigit c := by
  have h0 : ('0' : Char).toNat = 48 := rfl
  have h9 : ('9' : Char).toNat = 57 := rfl
  rw [Bool.eq_iff_iff]
  simp only [CSet.mem, CItem.mem, List.any_cons, List.any_nil, isAsciiDigit, h0, h9, Bool.or_false, bne_iff_ne, ne_eq,
    Bool.and_eq_true, decide_eq_true_eq, Bool.not_eq_false]

theorem isDigit_py (u : UC) (hu : u.PyTables) (c : Char) : u.isDigit c = Pyx.Regex.isDigit c := by
  by_cases h : c.toNat < 128
  · rw [Bool.eq_iff_iff]
    simp only [UC.isDigit, Pyx.Regex.isDigit, h, if_true, isAsciiDigit, Bool.and_eq_true, decide_eq_true_eq]
  · have := (hu c (by omega)).1
    simp only [UC.isDigit, h, if_false]; exact this

theorem mem_digit (u : UC) (hu : u.PyTables) (c : Char) :
    CSet.mem { neg := false, items := [.cat .digit] } c = u.isDigit c := by
  rw [isDigit_py u hu]; simp [CSet.mem, CItem.mem, Cat.mem]

theorem mem_word (u : UC) (hu : u.PyTables) (c : Char) :
    CSet.mem { neg := false, items := [.cat .word, .ch '_'] } c = u.isWord c := by
  have hus : c = '_' ↔ c.toNat = 95 := ⟨fun h => by rw [h]; rfl, fun h => Char.toNat_inj.mp (by rw [h]; rfl)⟩
  by_cases h : c.toNat < 128
  · rw [Bool.eq_iff_iff]
    simp only [CSet.mem, CItem.mem, Cat.mem, isWordU, UC.isWord, h, if_true, List.any_cons, List.any_nil, Bool.or_false,
      bne_iff_ne, ne_eq, Bool.not_eq_false, isAsciiWord, isAsciiAlpha, isAsciiUpper, isAsciiLower, isAsciiDigit,
      Bool.or_eq_true, Bool.and_eq_true, decide_eq_true_eq, beq_iff_eq, hus]
    omega
  · have hw := (hu c (by omega)).2
    have hne : (c == '_') = false := by
      rw [beq_eq_false_iff_ne]; intro e; rw [hus] at e; omega
    simp only [CSet.mem, CItem.mem, Cat.mem, List.any_cons, List.any_nil, Bool.or_false, hne, UC.isWord, h, if_false, hw]
    cases isWordU c <;> rfl

theorem mem_idStart (c : Char) :
    CSet.mem { neg := false, items := [.range 'A' 'Z', .range 'a' 'z', .ch '_'] } c = isIdStart c := by
  have ha : ('a' : Char).toNat = 97 := rfl
  have hz : ('z' : Char).toNat = 122 := rfl
  have hA : ('A' : Char).toNat = 65 := rfl
  have hZ : ('Z' : Char).toNat = 90 := rfl
  rw [Bool.eq_iff_iff]
  simp only [CSet.mem, CItem.mem, List.any_cons, List.any_nil, isIdStart, isAsciiAlpha, isAsciiUpper, isAsciiLower, ha, hz,
    hA, hZ, Bool.or_false, bne_iff_ne, ne_eq, Bool.or_eq_true, Bool.and_eq_true, decide_eq_true_eq,
    Bool.not_eq_false, beq_iff_eq]
  exact ⟨fun h => by rcases h with h | h | h; exact Or.inl (Or.inl h); exact Or.inl (Or.inr h); exact Or.inr h, fun h => by rcases h with (h | h) | h; exact Or.inl h; exact Or.inr (Or.inl h); exact Or.inr (Or.inr h)⟩

/-! ### runs of a class -/

theorem drop_runLen (p : Char → Bool) : ∀ (cs : List Char), cs.drop (runLen p cs) = cs.dropWhile p := by
  intro cs
  induction cs with
  | nil => rfl
  | cons c cs ih =>
    by_cases h : p c = true
    · simp [runLen, h, List.dropWhile_cons, ih]
    · have h' : p c = false := by simpa using h
      simp [runLen, h', List.dropWhile_cons]

/-- a continuation that always succeeds (`re.match`'s final continuation is one) -/
def NeverFails (k : List Char → Option Nat) : Prop := ∀ cs, (k cs).isSome = true

/-- the greedy repetition of a class before a continuation that always succeeds takes the whole run -/
theorem star_cls_nf (s : CSet) (p : Char → Bool) (hp : ∀ c, s.mem c = p c) (cs : List Char) (k : List Char → Option Nat)
    (hk : NeverFails k) : matchK (.star true (.cls s)) cs k = k (cs.dropWhile p) := by
  rw [matchK_star, starLoop_cls s k cs _ (Nat.lt_succ_self _) (Or.inl (hk _)), drop_runLen]
  congr 1
  have : s.mem = p := funext hp
  rw [this]

/-- … and before a continuation that rejects every character of the class -/
theorem star_cls_rej (s : CSet) (p : Char → Bool) (hp : ∀ c, s.mem c = p c) (cs : List Char) (k : List Char → Option Nat)
    (hk : ∀ x rest, p x = true → k (x :: rest) = none) : matchK (.star true (.cls s)) cs k = k (cs.dropWhile p) := by
  rw [matchK_star, starLoop_cls s k cs _ (Nat.lt_succ_self _) (Or.inr (fun x rest hx => hk x rest (by rw [← hp]; exact hx))),
    drop_runLen]
  congr 1
  have : s.mem = p := funext hp
  rw [this]

/-- what "the hand matcher is the regex" means for one rule and one continuation -/
def Agrees (u : UC) (r : Rule) : Prop :=
  ∀ (cs : List Char) (k : List Char → Option Nat), NeverFails k →
    matchK r.rx cs k = (matchRule u r cs).bind (fun p => k p.2)

/-! ### the one-character rules, CARDINALITY -/

theorem agrees_char (u : UC) (r : Rule) (x : Char) (hrx : r.rx = .cls { neg := false, items := [.ch x] })
    (hm : matchRule u r = mChar x) : Agrees u r := by
  intro cs k _
  rw [hrx, hm]
  cases cs with
  | nil => simp [matchK, mChar]
  | cons c rest =>
    rw [matchK_cls_cons, mem_ch]
    simp only [mChar, beq_iff_eq]
    by_cases h : c = x <;> simp [h]

theorem agrees_COMMA (u : UC) : Agrees u .COMMA := agrees_char u _ ',' rfl rfl
theorem agrees_LPAREN (u : UC) : Agrees u .LPAREN := agrees_char u _ '(' rfl rfl
theorem agrees_MINUS (u : UC) : Agrees u .MINUS := agrees_char u _ '-' rfl rfl
theorem agrees_RPAREN (u : UC) : Agrees u .RPAREN := agrees_char u _ ')' rfl rfl
theorem agrees_SEMICOLON (u : UC) : Agrees u .SEMICOLON := agrees_char u _ ';' rfl rfl

theorem agrees_CARDINALITY (u : UC) : Agrees u .CARDINALITY := by
  intro cs k _
  show matchK (.group (.seq (.cls { neg := false, items := [.ch '1'] }) (.cls { neg := false, items := [.ch 'C'] }))) cs k = _
  rw [matchK_group, matchK_seq]
  simp only [matchRule]
  cases cs with
  | nil => simp [matchK, mCardinality]
  | cons c rest =>
    rw [matchK_cls_cons, mem_ch]
    by_cases h : c = '1'
    · subst h
      cases rest with
      | nil => simp [matchK, mCardinality]
      | cons d rest' =>
        simp only [beq_self_eq_true, if_true, matchK_cls_cons, mem_ch, mCardinality, beq_iff_eq]
        by_cases h2 : d = 'C' <;> simp [h2]
    · simp [mCardinality, h]

/-! ### a class, then the greedy run of a class: NUMBER, newline, RELID, ID -/

theorem takeWhile_cons_true {p : Char → Bool} {c : Char} {r : List Char} (h : p c = true) :
    (c :: r).takeWhile p = c :: r.takeWhile p ∧ (c :: r).dropWhile p = r.dropWhile p := by
  simp [List.takeWhile_cons, List.dropWhile_cons, h]

theorem takeWhile_cons_false {p : Char → Bool} {c : Char} {r : List Char} (h : p c = false) :
    (c :: r).takeWhile p = [] := by simp [List.takeWhile_cons, h]

theorem agrees_NUMBER (u : UC) : Agrees u .NUMBER := by
  intro cs k hk
  show matchK (.seq (.cls { neg := false, items := [.range '0' '9'] })
    (.star true (.cls { neg := false, items := [.range '0' '9'] }))) cs k = _
  rw [matchK_seq]
  simp only [matchRule, mNumber]
  cases cs with
  | nil => simp [matchK]
  | cons c r =>
    rw [matchK_cls_cons, mem_09]
    by_cases h : isAsciiDigit c = true
    · obtain ⟨h1, h2⟩ := takeWhile_cons_true (p := isAsciiDigit) (r := r) h
      simp only [h, if_true, star_cls_nf _ isAsciiDigit mem_09 r k hk, h1, h2, List.isEmpty_cons, Bool.false_eq_true,
        if_false, Option.bind_some]
    · have h' : isAsciiDigit c = false := by simpa using h
      simp [h', takeWhile_cons_false h']

theorem agrees_newline (u : UC) : Agrees u .newline := by
  intro cs k hk
  show matchK (.seq (.cls { neg := false, items := [.ch '\n'] }) (.star true (.cls { neg := false, items := [.ch '\n'] }))) cs k = _
  rw [matchK_seq]
  simp only [matchRule, mNewline]
  cases cs with
  | nil => simp [matchK]
  | cons c r =>
    rw [matchK_cls_cons, mem_ch]
    by_cases h : (c == '\n') = true
    · obtain ⟨h1, h2⟩ := takeWhile_cons_true (p := fun c => c == '\n') (r := r) h
      simp only [h, if_true, star_cls_nf _ (fun c => c == '\n') (mem_ch '\n') r k hk, h1, h2, List.isEmpty_cons,
        Bool.false_eq_true, if_false, Option.bind_some]
    · have h' : (c == '\n') = false := by simpa using h
      simp [h', takeWhile_cons_false (p := fun c => c == '\n') h']

theorem agrees_RELID (u : UC) : Agrees u .RELID := by
  intro cs k hk
  show matchK (.seq (.cls { neg := false, items := [.ch 'R'] }) (.seq (.cls { neg := false, items := [.range '0' '9'] })
    (.star true (.cls { neg := false, items := [.range '0' '9'] })))) cs k = _
  rw [matchK_seq]
  simp only [matchRule]
  cases cs with
  | nil => simp [matchK, mRelid]
  | cons c r =>
    rw [matchK_cls_cons, mem_ch]
    by_cases hc : c = 'R'
    · subst hc
      simp only [beq_self_eq_true, if_true, matchK_seq, mRelid]
      cases r with
      | nil => simp [matchK]
      | cons d r' =>
        rw [matchK_cls_cons, mem_09]
        by_cases h : isAsciiDigit d = true
        · obtain ⟨h1, h2⟩ := takeWhile_cons_true (p := isAsciiDigit) (r := r') h
          simp only [h, if_true, star_cls_nf _ isAsciiDigit mem_09 r' k hk, h1, h2, List.isEmpty_cons, Bool.false_eq_true,
            if_false, Option.bind_some]
        · have h' : isAsciiDigit d = false := by simpa using h
          simp [h', takeWhile_cons_false h']
    · simp [mRelid, hc]

theorem agrees_ID (u : UC) (hu : u.PyTables) : Agrees u .ID := by
  intro cs k hk
  show matchK (.seq (.cls { neg := false, items := [.range 'A' 'Z', .range 'a' 'z', .ch '_'] })
    (.star true (.cls { neg := false, items := [.cat .word, .ch '_'] }))) cs k = _
  rw [matchK_seq]
  simp only [matchRule]
  cases cs with
  | nil => simp [matchK, mId]
  | cons c r =>
    rw [matchK_cls_cons, mem_idStart]
    by_cases h : isIdStart c = true
    · simp only [h, if_true, star_cls_nf _ u.isWord (mem_word u hu) r k hk, mId, Option.bind_some]
    · have h' : isIdStart c = false := by simpa using h
      simp [mId, h']

/-! ### FRACTION: the first run of digits cannot give digits back (what follows must begin with the point) -/

theorem digit_ne_dot (u : UC) (x : Char) (h : u.isDigit x = true) : (x == '.') = false := by
  rw [beq_eq_false_iff_ne]; intro e; subst e
  have : u.isDigit '.' = false := by simp [UC.isDigit, isAsciiDigit]
  rw [this] at h; cases h

theorem agrees_FRACTION (u : UC) (hu : u.PyTables) : Agrees u .FRACTION := by
  intro cs k hk
  show matchK (.seq (.group (.seq (.cls { neg := false, items := [.cat .digit] }) (.star true (.cls { neg := false, items := [.cat .digit] }))))
    (.group (.seq (.cls { neg := false, items := [.ch '.'] }) (.seq (.cls { neg := false, items := [.cat .digit] })
      (.star true (.cls { neg := false, items := [.cat .digit] })))))) cs k = _
  rw [matchK_seq, matchK_group, matchK_seq]
  simp only [matchRule, mFraction]
  -- the continuation of the first run: the point, a digit, the second run
  have hK : ∀ (cs' : List Char),
      matchK (.group (.seq (.cls { neg := false, items := [.ch '.'] }) (.seq (.cls { neg := false, items := [.cat .digit] })
        (.star true (.cls { neg := false, items := [.cat .digit] }))))) cs' k =
      match cs' with
      | [] => none
      | e :: r => if e = '.' then (if (r.takeWhile u.isDigit).isEmpty then none else k (r.dropWhile u.isDigit)) else none := by
    intro cs'
    rw [matchK_group, matchK_seq]
    cases cs' with
    | nil => simp [matchK]
    | cons e r =>
      rw [matchK_cls_cons, mem_ch]
      by_cases he : e = '.'
      · subst he
        simp only [beq_self_eq_true, if_true, matchK_seq]
        cases r with
        | nil => simp [matchK]
        | cons d r' =>
          rw [matchK_cls_cons, mem_digit u hu]
          by_cases hd : u.isDigit d = true
          · obtain ⟨h1, h2⟩ := takeWhile_cons_true (p := u.isDigit) (r := r') hd
            simp only [hd, if_true, star_cls_nf _ u.isDigit (mem_digit u hu) r' k hk, h1, h2, List.isEmpty_cons,
              Bool.false_eq_true, if_false]
          · have hd' : u.isDigit d = false := by simpa using hd
            simp [hd', takeWhile_cons_false hd']
      · simp [he]
  cases cs with
  | nil => simp [matchK]
  | cons c r =>
    rw [matchK_cls_cons, mem_digit u hu]
    by_cases hc : u.isDigit c = true
    · obtain ⟨h1, h2⟩ := takeWhile_cons_true (p := u.isDigit) (r := r) hc
      simp only [hc, if_true, h1, h2, List.isEmpty_cons, Bool.false_eq_true, if_false]
      rw [star_cls_rej _ u.isDigit (mem_digit u hu) r _ (by
        intro x rest hx
        rw [hK]
        have := digit_ne_dot u x hx
        simp only [beq_eq_false_iff_ne, ne_eq] at this
        simp [this])]
      rw [hK]
      cases r.dropWhile u.isDigit with
      | nil => rfl
      | cons e r2 =>
        simp only
        by_cases he : e = '.'
        · simp only [he, if_true]
          by_cases hem : (r2.takeWhile u.isDigit).isEmpty = true
          · simp [hem]
          · simp [hem]
        · simp [he]
    · have hc' : u.isDigit c = false := by simpa using hc
      simp [hc', takeWhile_cons_false hc']

/-! ### comment: two dashes, the run up to the newline, the newline if there is one -/

theorem agrees_comment (u : UC) : Agrees u .comment := by
  intro cs k hk
  show matchK (.seq (.cls { neg := false, items := [.ch '-'] }) (.seq (.cls { neg := false, items := [.ch '-'] })
    (.group (.seq (.star true (.cls { neg := true, items := [.ch '\n'] }))
      (.alt (.cls { neg := false, items := [.ch '\n'] }) .eps))))) cs k = _
  rw [matchK_seq]
  simp only [matchRule]
  have hK : NeverFails (fun cs' => matchK (.alt (.cls { neg := false, items := [.ch '\n'] }) .eps) cs' k) := by
    intro cs'
    simp only [matchK_alt, matchK_eps]
    cases matchK (.cls { neg := false, items := [.ch '\n'] }) cs' k with
    | some v => rfl
    | none => exact hk cs'
  cases cs with
  | nil => simp [matchK, mComment]
  | cons c r =>
    rw [matchK_cls_cons, mem_ch]
    by_cases hc : c = '-'
    · subst hc
      simp only [beq_self_eq_true, if_true, matchK_seq, mComment]
      cases r with
      | nil => simp [matchK]
      | cons d r' =>
        rw [matchK_cls_cons, mem_ch]
        by_cases hd : d = '-'
        · subst hd
          simp only [beq_self_eq_true, if_true, matchK_group, matchK_seq]
          rw [star_cls_nf _ (fun c => c != '\n') (by intro c; rw [mem_nch]; rfl) r' _ hK]
          cases hdw : r'.dropWhile (fun c => c != '\n') with
          | nil => simp [matchK_alt, matchK_eps, matchK]
          | cons e r2 =>
            simp only [matchK_alt, matchK_eps, matchK_cls_cons, mem_ch, beq_iff_eq]
            by_cases he : e = '\n'
            · have := hk r2
              cases hv : k r2 with
              | none => rw [hv] at this; cases this
              | some v => simp [he, hv]
            · simp [he]
        · simp [hd]
    · simp [mComment, hc]

/-! ### STRING: a greedy repetition of an alternation; the engine backs off into the last doubled quote exactly as `scanStr` -/

theorem orElse_some {α : Type} (x y : Option α) (h : x.isSome = true) :
    (match x with | some v => some v | none => y) = x := by
  cases x with
  | some v => rfl
  | none => cases h

def strBody : Regex :=
  .group (.alt (.group (.seq (.cls { neg := false, items := [.ch '\''] }) (.cls { neg := false, items := [.ch '\''] })))
    (.cls { neg := true, items := [.ch '\''] }))

def afterScan (k : List Char → Option Nat) (o : Option (Text × Text)) : Option Nat :=
  match o with
  | some p => k p.2
  | none => none

theorem afterScan_isSome (k : List Char → Option Nat) (hk : NeverFails k) (b r : Text) :
    (afterScan k (some (b, r))).isSome = true := hk r

theorem opt_id {α : Type} (x : Option α) : (match x with | some v => some v | none => none) = x := by
  cases x <;> rfl

/-- one iteration of the body of t_STRING: a doubled quote, or one character that is no quote -/
theorem strBody_step (cs : List Char) (kk : List Char → Option Nat) :
    matchK strBody cs kk = match cs with
      | [] => none
      | c :: rest =>
        if c = '\'' then (match rest with
          | d :: rest' => if d = '\'' then kk rest' else none
          | [] => none)
        else kk rest := by
  cases cs with
  | nil => simp [strBody, matchK]
  | cons c rest =>
    simp only [strBody, matchK_group, matchK_alt, matchK_seq, matchK_cls_cons, mem_ch, mem_nch, beq_iff_eq]
    by_cases hc : c = '\''
    · subst hc
      simp only [if_true, beq_self_eq_true, Bool.not_true, Bool.false_eq_true, if_false]
      cases rest with
      | nil => simp [matchK]
      | cons d rest' =>
        simp only [matchK_cls_cons, mem_ch, beq_iff_eq]
        by_cases hd : d = '\''
        · simp only [hd, if_true]; cases kk rest' <;> rfl
        · simp [hd]
    · simp [hc]

theorem string_loop (k : List Char → Option Nat) (hk : NeverFails k) :
    ∀ (fuel : Nat) (cs : List Char), cs.length < fuel →
      starLoop (matchK strBody) true fuel cs (fun cs' => matchK (.cls { neg := false, items := [.ch '\''] }) cs' k) =
        afterScan k (scanStr cs) := by
  intro fuel
  induction fuel with
  | zero => intro cs h; simp at h
  | succ f ih =>
    intro cs hlen
    rw [starLoop_greedy_succ, strBody_step]
    cases cs with
    | nil => simp [matchK, scanStr, afterScan]
    | cons c rest =>
      simp only [List.length_cons, Nat.add_lt_add_iff_right] at hlen
      simp only [matchK_cls_cons, mem_ch, beq_iff_eq]
      rw [scanStr.eq_def]
      by_cases hc : c = '\''
      · subst hc
        simp only [if_true]
        cases rest with
        | nil => simp [afterScan]
        | cons d rest' =>
          by_cases hd : d = '\''
          · subst hd
            simp only [if_true]
            rw [ih rest' (by simp only [List.length_cons] at hlen; omega)]
            cases hs : scanStr rest' with
            | some p => obtain ⟨b, r2⟩ := p; simp only [afterScan]; have h := hk r2; cases hv : k r2 with
              | none => rw [hv] at h; cases h
              | some v => rfl
            | none => simp [afterScan]
          · simp [hd, afterScan]
      · simp only [hc, if_false]
        rw [ih rest (by omega)]
        cases hs : scanStr rest with
        | some p => obtain ⟨b, r2⟩ := p; simp only [afterScan]; cases k r2 <;> rfl
        | none => simp [afterScan]

theorem agrees_STRING (u : UC) : Agrees u .STRING := by
  intro cs k hk
  show matchK (.seq (.cls { neg := false, items := [.ch '\''] }) (.seq (.star true strBody)
    (.cls { neg := false, items := [.ch '\''] }))) cs k = _
  rw [matchK_seq]
  simp only [matchRule]
  cases cs with
  | nil => simp [matchK, mString]
  | cons c r =>
    rw [matchK_cls_cons, mem_ch]
    by_cases hc : c = '\''
    · subst hc
      simp only [beq_self_eq_true, if_true, matchK_seq, matchK_star, mString]
      rw [string_loop k hk _ r (Nat.lt_succ_self _)]
      cases scanStr r with
      | some p => rfl
      | none => rfl
    · simp [mString, hc]

/-! ### GUID: a lazy repetition: the closing quote is tried before every iteration -/

def guidBodyRx : Regex :=
  .group (.alt (.cls { neg := true, items := [.ch '\\', .ch '\n'] })
    (.group (.seq (.cls { neg := false, items := [.ch '\\'] }) (.cls { neg := true, items := [.ch '\n'] }))))

/-- one iteration of the body of t_GUID: a character other than backslash and newline, or a backslash pair -/
theorem guidBody_step (cs : List Char) (kk : List Char → Option Nat) :
    matchK guidBodyRx cs kk = match cs with
      | [] => none
      | c :: rest =>
        if c = '\\' then (match rest with
          | d :: rest' => if d = '\n' then none else kk rest'
          | [] => none)
        else if c = '\n' then none else kk rest := by
  cases cs with
  | nil => simp [guidBodyRx, matchK]
  | cons c rest =>
    simp only [guidBodyRx, matchK_group, matchK_alt, matchK_seq, matchK_cls_cons, mem_ch, mem_nch, mem_nch2, beq_iff_eq]
    by_cases hb : c = '\\'
    · subst hb
      simp only [if_true, decide_true, Bool.not_true, Bool.false_and, Bool.false_eq_true, if_false]
      cases rest with
      | nil => simp [matchK]
      | cons d rest' =>
        simp only [matchK_cls_cons, mem_nch, beq_iff_eq]
        by_cases hd : d = '\n' <;> simp [hd]
    · by_cases hn : c = '\n'
      · subst hn; simp
      · have hb' : (c == '\\') = false := by simpa using hb
        have hn' : (c == '\n') = false := by simpa using hn
        simp only [hb, hn, hb', hn', if_false, Bool.not_false, Bool.and_self, if_true]; cases kk rest <;> rfl

theorem guid_loop (k : List Char → Option Nat) (hk : NeverFails k) :
    ∀ (fuel : Nat) (cs : List Char), cs.length < fuel →
      starLoop (matchK guidBodyRx) false fuel cs (fun cs' => matchK (.cls { neg := false, items := [.ch '"'] }) cs' k) =
        afterScan k (scanGuid cs) := by
  intro fuel
  induction fuel with
  | zero => intro cs h; simp at h
  | succ f ih =>
    intro cs hlen
    rw [starLoop_lazy_succ, guidBody_step]
    cases cs with
    | nil => simp [matchK, scanGuid, afterScan]
    | cons c rest =>
      simp only [List.length_cons, Nat.add_lt_add_iff_right] at hlen
      simp only [matchK_cls_cons, mem_ch, beq_iff_eq]
      rw [scanGuid.eq_def]
      by_cases hq : c = '"'
      · subst hq
        simp only [if_true, afterScan]
        have h := hk rest
        cases hv : k rest with
        | none => rw [hv] at h; cases h
        | some v => rfl
      · simp only [hq, if_false]
        by_cases hn : c = '\n'
        · subst hn; simp [afterScan]
        · by_cases hb : c = '\\'
          · subst hb
            simp only [hn, if_false, if_true]
            cases rest with
            | nil => simp [afterScan]
            | cons d rest' =>
              by_cases hd : d = '\n'
              · simp [hd, afterScan]
              · simp only [hd, if_false]
                rw [ih rest' (by simp only [List.length_cons] at hlen; omega)]
                cases scanGuid rest' with
                | some p => rfl
                | none => rfl
          · simp only [hn, hb, if_false]
            rw [ih rest (by omega)]
            cases hs : scanGuid rest with
            | some p => rfl
            | none => rfl

theorem agrees_GUID (u : UC) : Agrees u .GUID := by
  intro cs k hk
  show matchK (.seq (.cls { neg := false, items := [.ch '"'] }) (.seq (.star false guidBodyRx)
    (.cls { neg := false, items := [.ch '"'] }))) cs k = _
  rw [matchK_seq]
  simp only [matchRule]
  cases cs with
  | nil => simp [matchK, mGuid]
  | cons c r =>
    rw [matchK_cls_cons, mem_ch]
    by_cases hc : c = '"'
    · subst hc
      simp only [beq_self_eq_true, if_true, matchK_seq, matchK_star, mGuid]
      rw [guid_loop k hk _ r (Nat.lt_succ_self _)]
      cases scanGuid r with
      | some p => rfl
      | none => rfl
    · simp [mGuid, hc]

/-! ### every rule, `re.match`, and the whole lexer -/

/-- EVERY `t_*` rule: the hand matcher is the engine on the parse tree of the source regex -/
theorem agrees_all (u : UC) (hu : u.PyTables) (r : Rule) : Agrees u r := by
  cases r with
  | comment => exact agrees_comment u
  | COMMA => exact agrees_COMMA u
  | FRACTION => exact agrees_FRACTION u hu
  | RELID => exact agrees_RELID u
  | CARDINALITY => exact agrees_CARDINALITY u
  | ID => exact agrees_ID u hu
  | LPAREN => exact agrees_LPAREN u
  | MINUS => exact agrees_MINUS u
  | NUMBER => exact agrees_NUMBER u
  | RPAREN => exact agrees_RPAREN u
  | SEMICOLON => exact agrees_SEMICOLON u
  | STRING => exact agrees_STRING u
  | GUID => exact agrees_GUID u
  | newline => exact agrees_newline u

/-- `re.match(regex, text)`: length of the match = length of the lexeme of the hand matcher -/
theorem matchPrefix_rule (u : UC) (r : Rule) (h : Agrees u r) (cs : List Char) :
    matchPrefix r.rx cs = (matchRule u r cs).map (fun p => p.1.length) := by
  unfold matchPrefix
  rw [h cs _ (fun _ => rfl)]
  cases hm : matchRule u r cs with
  | none => rfl
  | some p =>
    obtain ⟨l, rest⟩ := p
    obtain ⟨hsplit, _⟩ := matchRule_split u r cs l rest hm
    simp only [Option.bind_some, Option.map_some, hsplit, List.length_append]
    congr 1; omega

/-- … and the matcher of the regex-driven lexer (the engine with the continuation "length of the rest") returns the lexeme
    and the rest of the hand matcher -/
theorem matchRuleRx_eq (u : UC) (r : Rule) (h : Agrees u r) (cs : List Char) : matchRuleRx r cs = matchRule u r cs := by
  unfold matchRuleRx
  rw [h cs _ (fun _ => rfl)]
  cases hm : matchRule u r cs with
  | none => rfl
  | some p =>
    obtain ⟨l, rest⟩ := p
    obtain ⟨hsplit, hne⟩ := matchRule_split u r cs l rest hm
    have hl : 0 < l.length := by
      cases l with
      | nil => exact absurd rfl hne
      | cons _ _ => simp
    subst hsplit
    simp only [Option.bind_some, List.length_append]
    have h1 : rest.length < l.length + rest.length := by omega
    have h2 : l.length + rest.length - rest.length = l.length := by omega
    simp [h1, h2]

theorem firstMatchWith_hand (u : UC) (cs : Text) : firstMatchWith (matchRule u) cs = firstMatch u cs := rfl

theorem stepWith_hand (u : UC) (cs : Text) : stepWith u (matchRule u) cs = step u cs := by
  cases cs with
  | nil => rfl
  | cons c r =>
    simp only [stepWith, step, firstMatchWith_hand]
    split
    · rfl
    · cases firstMatch u (c :: r) with
      | none => rfl
      | some x => obtain ⟨a, b, d⟩ := x; rfl

theorem lexFuelWith_hand (u : UC) : ∀ (n : Nat) (cs : Text), lexFuelWith u (matchRule u) n cs = lexFuel u n cs := by
  intro n
  induction n with
  | zero => intro cs; rfl
  | succ n ih =>
    intro cs
    simp only [lexFuelWith, lexFuel, stepWith_hand]
    cases step u cs with
    | eof => rfl
    | skip rest => exact ih rest
    | emit t rest => simp only [ih rest]
    | illegal => rfl

/-- THE SQL LEXER IS ITS SOURCE REGEXES: the token stream of the hand scanners is the token stream obtained with the regex
    engine on the parse trees of the `t_*` regexes, for every text (and Python's tables for `\d`, `\w`) -/
theorem lexRx_eq_lex (u : UC) (hu : u.PyTables) (cs : Text) : lexRx u cs = lex u cs := by
  unfold lexRx lex
  have hM : matchRuleRx = matchRule u := by
    funext r cs'; exact matchRuleRx_eq u r (agrees_all u hu r) cs'
  rw [hM]; exact lexFuelWith_hand u _ cs

end Pyx.Sql
