import Proofs.SqlCodec
import PyxModel.Sql.Printer

set_option linter.unusedSimpArgs false

/-! the parser of PyxModel/Sql/Parser.lean on the token lists the writers produce -/
namespace Pyx.Sql
open Gen.SqlLex (Rule Kw)
open Gen.Persist (Ty)

/-! ### token images -/

def tk (k : Kind) (t : Text) : Tok := ⟨k, t⟩
def commaTok : Tok := ⟨.COMMA, [',']⟩
def lparenTok : Tok := ⟨.LPAREN, ['(']⟩
def rparenTok : Tok := ⟨.RPAREN, [')']⟩
def semiTok : Tok := ⟨.SEMICOLON, [';']⟩
/-- a reserved word printed in upper case -/
def kwTok (k : Kw) : Tok := ⟨.kw k, k.chars⟩
/-- the token the lexer makes of an identifier -/
def wordTok (u : UC) (w : Text) : Tok := mkTok u .ID w

/-- `a , b , c` -/
def sepToks : List (List Tok) → List Tok
  | [] => []
  | [a] => a
  | a :: b :: r => a ++ commaTok :: sepToks (b :: r)

/-- every reserved word is an alternative of `p_identifier` (generated table) -/
theorem identifierKws_all (k : Kw) : Gen.SqlLex.identifierKws.contains k = true := by
  cases k <;> decide

theorem isIdentTok_wordTok (u : UC) (w : Text) : isIdentTok (wordTok u w) = true := by
  unfold wordTok isIdentTok
  rcases mkTok_ID_kind u w with h | ⟨k, h⟩
  · rw [h]; rfl
  · rw [h]; exact identifierKws_all k

theorem wordTok_text (u : UC) (w : Text) : (wordTok u w).text = w := mkTok_ID_text u w

theorem identAt_word (u : UC) (w : Text) (r : List Tok) : identAt (wordTok u w :: r) = some (w, r) := by
  simp [identAt, isIdentTok_wordTok, wordTok_text]

theorem expectK_kw (k : Kw) (r : List Tok) : expectK (.kw k) (kwTok k :: r) = some r := by
  simp [expectK, kwTok]

theorem expectK_lparen (r : List Tok) : expectK .LPAREN (lparenTok :: r) = some r := by simp [expectK, lparenTok]
theorem expectK_rparen (r : List Tok) : expectK .RPAREN (rparenTok :: r) = some r := by simp [expectK, rparenTok]
theorem expectK_semi (r : List Tok) : expectK .SEMICOLON (semiTok :: r) = some r := by simp [expectK, semiTok]

/-! ### sequences -/

theorem seqTail_rparen {α : Type} (elem : List Tok → Option (α × List Tok)) (fuel : Nat) (rest : List Tok) :
    seqTail elem fuel (rparenTok :: rest) = some ([], rparenTok :: rest) := by
  rw [seqTail.eq_def]; simp [rparenTok]

theorem seqTail_roundtrip {α : Type} (elem : List Tok → Option (α × List Tok)) (enc : α → List Tok)
    (helem : ∀ x r, elem (enc x ++ r) = some (x, r)) :
    ∀ (xs : List α) (fuel : Nat) (rest : List Tok), xs.length ≤ fuel →
      seqTail elem fuel ((xs.flatMap fun x => commaTok :: enc x) ++ rparenTok :: rest) = some (xs, rparenTok :: rest) := by
  intro xs
  induction xs with
  | nil => intro fuel rest _; exact seqTail_rparen elem fuel rest
  | cons x xs ih =>
    intro fuel rest hf
    cases fuel with
    | zero => simp at hf
    | succ f =>
      simp only [List.flatMap_cons, List.cons_append, List.append_assoc]
      rw [seqTail.eq_def]
      simp only [show commaTok.kind = Kind.COMMA from rfl, if_true, helem x, ih f rest (by simpa using hf)]

theorem sepToks_cons {α : Type} (enc : α → List Tok) (x : α) (xs : List α) :
    sepToks ((x :: xs).map enc) = enc x ++ (xs.flatMap fun y => commaTok :: enc y) := by
  induction xs generalizing x with
  | nil => simp [sepToks]
  | cons y ys ih =>
    simp only [List.map_cons, sepToks, List.flatMap_cons]
    have := ih y
    simp only [List.map_cons] at this
    rw [this]; simp

theorem length_flatMap_ge {α : Type} (enc : α → List Tok) (xs : List α) (tail : List Tok) :
    xs.length ≤ ((xs.flatMap fun x => commaTok :: enc x) ++ tail).length := by
  induction xs with
  | nil => simp
  | cons x xs ih => simp only [List.flatMap_cons, List.cons_append, List.append_assoc, List.length_cons, List.length_append] at ih ⊢; omega

/-- `[x] (COMMA x)*` reads back a printed sequence that is followed by `)` -/
theorem seqP_roundtrip {α : Type} (elem : List Tok → Option (α × List Tok)) (enc : α → List Tok)
    (helem : ∀ x r, elem (enc x ++ r) = some (x, r)) (hrp : ∀ r, elem (rparenTok :: r) = none)
    (xs : List α) (rest : List Tok) :
    seqP elem (sepToks (xs.map enc) ++ rparenTok :: rest) = some (xs, rparenTok :: rest) := by
  cases xs with
  | nil =>
    simp only [List.map_nil, sepToks, List.nil_append, seqP, hrp]
    exact seqTail_rparen elem _ rest
  | cons x xs =>
    rw [sepToks_cons, List.append_assoc, seqP, helem]
    simp only [seqTail_roundtrip elem enc helem xs _ rest (length_flatMap_ge enc xs _)]

theorem identAt_rparen (r : List Tok) : identAt (rparenTok :: r) = none := by
  simp [identAt, isIdentTok, rparenTok]

theorem attrAt_rparen (r : List Tok) : attrAt (rparenTok :: r) = none := by
  cases r with
  | nil => simp [attrAt]
  | cons b r => simp [attrAt, isIdentTok, rparenTok]

theorem valueAt_rparen (r : List Tok) : valueAt (rparenTok :: r) = none := by
  simp [valueAt, isPlainValueTok, rparenTok]

theorem identSeq_roundtrip (u : UC) (names : List Name) (rest : List Tok) :
    seqP identAt (sepToks (names.map fun n => [wordTok u n]) ++ rparenTok :: rest) = some (names, rparenTok :: rest) :=
  seqP_roundtrip identAt (fun n => [wordTok u n]) (fun x r => by simp [identAt_word]) identAt_rparen names rest

theorem attrSeq_roundtrip (u : UC) (attrs : List (Name × Name)) (rest : List Tok) :
    seqP attrAt (sepToks (attrs.map fun a => [wordTok u a.1, wordTok u a.2]) ++ rparenTok :: rest) =
      some (attrs, rparenTok :: rest) :=
  seqP_roundtrip attrAt (fun a => [wordTok u a.1, wordTok u a.2])
    (fun x r => by simp [attrAt, isIdentTok_wordTok, wordTok_text]) attrAt_rparen attrs rest

/-! ### values -/

/-- the tokens of a printed value -/
def valueToks : Ty → Val → Option (List Tok)
  | .BOOLEAN, .bool b => some [⟨.NUMBER, natText (if b then 1 else 0)⟩]
  | .INTEGER, .int z => some (intToks z)
  | .REAL, .real neg micro => some (realToks neg micro)
  | .STRING, .str s => some [⟨.STRING, strText s⟩]
  | .UNIQUE_ID, .id n => if n < 2 ^ 128 then some [⟨.GUID, guidText n⟩] else none
  | _, _ => none

theorem valueToks_of_fmt (t : Ty) (v : Val) (txt : Text) (h : fmtValue t v = some txt) :
    ∃ ts, valueToks t v = some ts ∧ ∀ r, valueAt (ts ++ r) = some (txt, r) := by
  cases t <;> cases v <;> simp only [fmtValue] at h <;> (first | (exfalso; simp at h; done) | skip)
  · rename_i b
    simp only [Option.some.injEq] at h; subst h
    exact ⟨_, rfl, fun r => by simp [valueAt, isPlainValueTok]⟩
  · rename_i z
    simp only [Option.some.injEq] at h; subst h
    exact ⟨_, rfl, fun r => valueAt_intToks z r⟩
  · rename_i neg micro
    simp only [Option.some.injEq] at h; subst h
    exact ⟨_, rfl, fun r => valueAt_realToks neg micro r⟩
  · rename_i s'
    simp only [Option.some.injEq] at h; subst h
    exact ⟨_, rfl, fun r => by simp [valueAt, isPlainValueTok]⟩
  · rename_i n
    split at h
    · rename_i hn
      simp only [Option.some.injEq] at h; subst h
      exact ⟨[⟨.GUID, guidText n⟩], by simp [valueToks, hn], fun r => by simp [valueAt, isPlainValueTok]⟩
    · simp at h

/-- the value an attribute cell is printed from: an unset cell takes the null value of the (generated) table -/
def resolveVal (t : Ty) : Option Val → Option Val
  | some v => some v
  | none => nullOf t

theorem printValue_eq (t : Ty) (v : Option Val) : printValue t v = (resolveVal t v).bind (fmtValue t) := by
  cases v <;> rfl

/-- text and tokens of one printed cell -/
def cellToks (u : UC) (ty : Name) (v : Option Val) : Option (Text × List Tok) :=
  match tyOfName u ty with
  | none => none
  | some t =>
    match resolveVal t v with
    | none => none
    | some x =>
      match fmtValue t x, valueToks t x with
      | some txt, some ts => some (txt, ts)
      | _, _ => none

theorem cellToks_valueAt (u : UC) (ty : Name) (v : Option Val) (txt : Text) (ts : List Tok)
    (h : cellToks u ty v = some (txt, ts)) (r : List Tok) : valueAt (ts ++ r) = some (txt, r) := by
  unfold cellToks at h
  split at h
  · simp at h
  · rename_i t ht
    split at h
    · simp at h
    · rename_i x hx
      split at h
      · rename_i txt' ts' hf hv
        simp only [Option.some.injEq, Prod.mk.injEq] at h
        obtain ⟨rfl, rfl⟩ := h
        obtain ⟨ts'', h1, h2⟩ := valueToks_of_fmt t x txt' hf
        rw [hv] at h1; simp only [Option.some.injEq] at h1; subst h1
        exact h2 r
      · simp at h

end Pyx.Sql
