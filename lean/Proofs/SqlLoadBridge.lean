import Proofs.SqlLinks
import Proofs.SqlTextFixed
import Proofs.LoadPerm

set_option linter.unusedSimpArgs false

/-!
  BRIDGE between the two loader models.

  C01 states its link clause on the SPEC join `linksOfAssoc` (PyxModel/Sql/Links.lean: a nested loop over the rows of the
  metamodel the writers see, `Pyx.Sql.MM`).  That `populate_connections` computes that join is C03's subject, proved on
  builder-C's statement-level model of the loader (`Pyx.Load`, PyxModel/Load.lean: `build` = the five phases with the
  hashed index, the index cache and `connect`).  This file maps a metamodel of the first model to the statement list of
  the second (`toLoad`) and proves that the links the LOADER MODEL builds from it are exactly the links the spec join
  denotes (`links_agree`), using C's `buildCore_assocs` / `mem_nestedJoin_*` (hash join = nested join) as the loader side.
-/
namespace Pyx.Sql
open Gen.Persist (Ty)

/-! ### the translation -/

def lstr (t : Text) : String := String.ofList t

theorem lstr_inj {a b : Text} : lstr a = lstr b ↔ a = b := String.ofList_inj

def toLTy : Ty → Load.Ty
  | .BOOLEAN => .boolean
  | .INTEGER => .integer
  | .REAL => .real
  | .STRING => .string
  | .UNIQUE_ID => .uniqueId

/-- a value as the loader model holds it (`real`: the signed number of millionths; unset = `None`) -/
def toLVal : Option Val → Load.Val
  | none => .none
  | some (.bool b) => .bool b
  | some (.int z) => .int z
  | some (.real neg micro) => .real (if neg then - (Int.ofNat micro) else Int.ofNat micro)
  | some (.str s) => .str (lstr s)
  | some (.id n) => .id n

def toLAttrs (u : UC) (attrs : List (Name × Name)) : List (String × Load.Ty) :=
  attrs.map (fun a => (lstr a.1, match tyOfName u a.2 with
    | some t => toLTy t
    | none => .string))

def toLAssoc (a : AssocM) : Load.AssocStmt :=
  ⟨lstr a.relId, lstr a.src.kind, a.src.many, a.src.cond, a.src.keys.map lstr, lstr a.src.phrase,
   lstr a.tgt.kind, a.tgt.many, a.tgt.cond, a.tgt.keys.map lstr, lstr a.tgt.phrase⟩

/-- the instance of the loader model for a row: `__dict__` entries in attribute order -/
def toLRow (u : UC) (c : ClassM) (r : List (Option Val)) : Load.Row :=
  Load.mkRow (toLAttrs u c.attrs) none (r.map toLVal)

/-- the statements of a metamodel: CREATE TABLE per class, CREATE ROP per association, one positional INSERT per row -/
def toLoad (u : UC) (m : MM) : List Load.Stmt :=
  m.classes.map (fun c => Load.Stmt.cls (lstr c.kind) (toLAttrs u c.attrs)) ++
  m.assocs.map (fun a => Load.Stmt.assoc (toLAssoc a)) ++
  m.classes.flatMap (fun c => c.rows.map (fun r => Load.Stmt.insert (lstr c.kind) none (r.map toLVal)))

/-! ### values: the two null rules and the two equalities agree on well-typed cells -/

/-- a cell holds nothing or a value of its column's type (what `printItems … = some _` demands of every cell) -/
def typedB : Ty → Option Val → Bool
  | _, none => true
  | .BOOLEAN, some (.bool _) => true
  | .INTEGER, some (.int _) => true
  | .REAL, some (.real _ _) => true
  | .STRING, some (.str _) => true
  | .UNIQUE_ID, some (.id _) => true
  | _, _ => false

theorem typedB_of_fmt (t : Ty) (x : Val) (txt : Text) (h : fmtValue t x = some txt) : typedB t (some x) = true := by
  cases t <;> cases x <;> simp [fmtValue] at h <;> rfl

theorem int_of_sign_abs {a b : Int} (h1 : decide (a < 0) = decide (b < 0)) (h2 : a.natAbs = b.natAbs) : a = b := by
  have := Int.natAbs_eq_natAbs_iff.mp h2
  rcases this with h | h
  · exact h
  · simp only [decide_eq_decide] at h1
    omega

theorem real_signed_eq (n1 n2 : Bool) (m1 m2 : Nat) :
    ((n1 && m1 != 0, m1) = (n2 && m2 != 0, m2)) ↔
      ((if n1 then - (Int.ofNat m1) else Int.ofNat m1) = (if n2 then - (Int.ofNat m2) else Int.ofNat m2)) := by
  cases n1 <;> cases n2 <;> simp only [Bool.false_and, Bool.true_and, Prod.mk.injEq, Bool.false_eq_true, if_false, if_true, true_and, Int.ofNat_eq_natCast]
  · omega
  · constructor
    · intro ⟨h1, h2⟩
      have : m2 = 0 := by simpa using h1.symm
      omega
    · intro h
      have h0 : m2 = 0 := by omega
      subst h0
      exact ⟨by simp, by omega⟩
  · constructor
    · intro ⟨h1, h2⟩
      have : m1 = 0 := by simpa using h1
      omega
    · intro h
      have h0 : m1 = 0 := by omega
      subst h0
      exact ⟨by simp, by omega⟩
  · constructor
    · intro ⟨_, h2⟩; omega
    · intro h
      have : m1 = m2 := by omega
      subst this; exact ⟨rfl, rfl⟩

/-- on two cells of one core type: "both not null and equal" of the spec join (`_is_null` by column type, Python's `==`)
    is "the first not null, and equal" of the loader model (`isNull` by value, structural equality) -/
theorem cellMatch_iff (t : Ty) (x y : Option Val) (hx : typedB t x = true) (hy : typedB t y = true) :
    cellMatch (some t, x) (some t, y) = true ↔ (Load.isNull (toLVal x) = false ∧ toLVal x = toLVal y) := by
  cases x with
  | none => simp [cellMatch, isNullL, toLVal, Load.isNull]
  | some vx =>
    cases y with
    | none =>
      cases t <;> cases vx <;> simp [typedB] at hx <;> simp [cellMatch, isNullL, toLVal]
    | some vy =>
      cases t <;> cases vx <;> simp [typedB] at hx <;> cases vy <;> simp [typedB] at hy
      · -- BOOLEAN
        rename_i a b
        cases a <;> cases b <;> simp [cellMatch, isNullL, valKeyEq, pyNum, toLVal, Load.isNull]
      · -- INTEGER
        rename_i a b
        simp only [cellMatch, isNullL, valKeyEq, pyNum, toLVal, Load.isNull, Bool.not_false, Bool.true_and, beq_iff_eq,
          Option.some.injEq, Prod.mk.injEq, true_and, Load.Val.int.injEq]
        constructor
        · intro ⟨h1, h2⟩
          exact int_of_sign_abs h1 (Nat.eq_of_mul_eq_mul_right (by decide) h2)
        · intro h; subst h; exact ⟨rfl, rfl⟩
      · -- REAL
        rename_i n1 m1 n2 m2
        simp only [cellMatch, isNullL, valKeyEq, pyNum, toLVal, Load.isNull, Bool.not_false, Bool.true_and, beq_iff_eq,
          Option.some.injEq, true_and, Load.Val.real.injEq]
        exact real_signed_eq n1 n2 m1 m2
      · -- STRING
        rename_i s1 s2
        simp only [cellMatch, isNullL, valKeyEq, toLVal, Load.isNull, beq_self_eq_true, Bool.true_and, Bool.and_eq_true,
          Bool.not_eq_true', beq_iff_eq, Load.Val.str.injEq, lstr_inj, beq_eq_false_iff_ne, ne_eq]
        constructor
        · intro ⟨⟨h1, _⟩, h3⟩
          refine ⟨?_, h3⟩
          intro he
          have : s1 = [] := String.ofList_eq_empty_iff.mp he
          subst this; simp at h1
        · intro ⟨h1, h2⟩
          subst h2
          have hne : s1 ≠ [] := fun e => h1 (by subst e; rfl)
          refine ⟨⟨?_, ?_⟩, rfl⟩ <;> (cases s1 <;> simp_all)
      · -- UNIQUE_ID
        rename_i a b
        simp only [cellMatch, isNullL, valKeyEq, pyNum, toLVal, Load.isNull, beq_self_eq_true, Bool.true_and, Bool.and_eq_true,
          Bool.not_eq_true', beq_iff_eq, Option.some.injEq, Prod.mk.injEq, true_and, Load.Val.id.injEq, beq_eq_false_iff_ne, ne_eq]
        constructor
        · intro ⟨⟨h1, _⟩, h3⟩
          exact ⟨h1, Nat.eq_of_mul_eq_mul_right (by decide) h3⟩
        · intro ⟨h1, h2⟩
          subst h2; exact ⟨⟨h1, h1⟩, rfl⟩

/-! ### rows: reading an attribute by name in the loader model is reading the column in the spec model -/

/-- the cell of a row in the first column whose name is `k` (exactly) -/
def cellAt (attrs : List (Name × Name)) (vals : List (Option Val)) (k : Name) : Option Val :=
  match colExact attrs k with
  | some i => (vals[i]?).join
  | none => none

theorem cellAt_cons (a : Name × Name) (as : List (Name × Name)) (v : Option Val) (vs : List (Option Val)) (k : Name) :
    cellAt (a :: as) (v :: vs) k = if a.1 = k then v else cellAt as vs k := by
  unfold cellAt colExact
  rw [List.findIdx?_cons]
  by_cases h : a.1 = k
  · simp [h]
  · have : (a.1 == k) = false := by simpa using h
    simp only [this, Bool.false_eq_true, if_false, h]
    cases List.findIdx? (fun a => a.1 == k) as <;> simp

theorem get_mkRow (u : UC) : ∀ (attrs : List (Name × Name)) (vals : List (Option Val)) (k : Name),
    Load.Row.get (Load.mkRow (toLAttrs u attrs) none (vals.map toLVal)) (lstr k) = toLVal (cellAt attrs vals k) := by
  intro attrs
  induction attrs with
  | nil => intro vals k; simp [Load.mkRow, Load.Row.get, toLAttrs, cellAt, colExact, toLVal]
  | cons a as ih =>
    intro vals k
    cases vals with
    | nil =>
      have : cellAt (a :: as) [] k = none := by
        unfold cellAt; cases colExact (a :: as) k <;> simp
      simp [Load.mkRow, Load.Row.get, this, toLVal]
    | cons v vs =>
      rw [cellAt_cons]
      have ih' := ih vs k
      simp only [Load.mkRow, toLAttrs, List.map_cons, List.zip_cons_cons, Load.Row.get, List.lookup_cons] at ih' ⊢
      by_cases h : a.1 = k
      · subst h; simp
      · have : (lstr k == lstr a.1) = false := by
          simp only [beq_eq_false_iff_ne, ne_eq, lstr_inj]; exact fun e => h e.symm
        simp only [this, h, if_false]
        exact ih'

theorem keyCell_exact (u : UC) (c : ClassM) (row : List (Option Val)) (k : Name) :
    (keyCell u c row (colExact c.attrs k)).2 = cellAt c.attrs row k := by
  unfold keyCell cellAt
  cases colExact c.attrs k <;> rfl

/-- an attribute that the class declares under exactly this name is found by the exact lookup, so the case-insensitive
    fall-back of `Class.__getattr__` is not needed -/
theorem colCI_of_mem (u : UC) (attrs : List (Name × Name)) (k : Name) (h : k ∈ attrs.map (fun a => a.1)) :
    colCI u attrs k = colExact attrs k := by
  unfold colCI
  cases hc : colExact attrs k with
  | some i => rfl
  | none =>
    exfalso
    unfold colExact at hc
    rw [List.findIdx?_eq_none_iff] at hc
    obtain ⟨a, ha, rfl⟩ := List.mem_map.mp h
    have := hc a ha
    simp at this

/-! ### the domain of the bridge -/

/-- the metamodels on which the two models are compared: closed (C01's `MM.Closed`); association ends spell their key
    attributes exactly as the classes declare them (the loader model compares names exactly: its documented limitation
    "no case folding of kinds / attribute names"); no attribute twice in a key list (`KeysOk` of C03); corresponding key
    attributes have the same declared type (C03's domain: Python's cross-type `1 == 1.0 == True` is not in the loader
    model); every cell holds nothing or a value of its column's type (what printing demands anyway). -/
structure LoadDom (u : UC) (m : MM) : Prop where
  closed : m.Closed u
  srcKeys : ∀ a ∈ m.assocs, ∀ c ∈ m.classes, c.kind = a.src.kind → ∀ k ∈ a.src.keys, k ∈ c.attrs.map (fun x => x.1)
  tgtKeys : ∀ a ∈ m.assocs, ∀ c ∈ m.classes, c.kind = a.tgt.kind → ∀ k ∈ a.tgt.keys, k ∈ c.attrs.map (fun x => x.1)
  keysNodup : ∀ a ∈ m.assocs, a.src.keys.Nodup ∧ a.tgt.keys.Nodup
  sameTypes : ∀ a ∈ m.assocs, ∀ sc ∈ m.classes, ∀ tc ∈ m.classes, sc.kind = a.src.kind → tc.kind = a.tgt.kind →
    ∀ kk ∈ a.src.keys.zip a.tgt.keys, colType u sc (colExact sc.attrs kk.1) = colType u tc (colExact tc.attrs kk.2)
  typed : ∀ c ∈ m.classes, ∀ r ∈ c.rows, ∀ (i : Nat) (a : Name × Name) (t : Ty), c.attrs[i]? = some a → tyOfName u a.2 = some t → typedB t ((r[i]?).join) = true

/-- a decidable form of the `typed` clause, for concrete metamodels -/
def rowTypedM (u : UC) : List (Name × Name) → List (Option Val) → Bool
  | a :: as, v :: vs => (match tyOfName u a.2 with
      | some t => typedB t v
      | none => true) && rowTypedM u as vs
  | _, _ => true

theorem typed_of_rowTypedM (u : UC) : ∀ (attrs : List (Name × Name)) (r : List (Option Val)), rowTypedM u attrs r = true →
    ∀ (i : Nat) (a : Name × Name) (t : Ty), attrs[i]? = some a → tyOfName u a.2 = some t → typedB t ((r[i]?).join) = true := by
  intro attrs
  induction attrs with
  | nil => intro r _ i a t ha; simp at ha
  | cons a0 as ih =>
    intro r h i a t ha ht
    cases r with
    | nil => cases t <;> rfl
    | cons v vs =>
      simp only [rowTypedM, Bool.and_eq_true] at h
      cases i with
      | zero =>
        simp only [List.getElem?_cons_zero, Option.some.injEq] at ha; subst ha
        have h1 := h.1
        rw [ht] at h1
        simpa using h1
      | succ i =>
        simp only [List.getElem?_cons_succ] at ha ⊢
        exact ih vs h.2 i a t ha ht

/-! ### what the statement list holds -/

theorem filterMap_none {α β : Type} (f : α → Option β) (l : List α) (h : ∀ x ∈ l, f x = none) : l.filterMap f = [] := by
  rw [List.filterMap_eq_nil_iff]; exact h

theorem filterMap_all_some {α β : Type} (f : α → Option β) (g : α → β) : ∀ (l : List α), (∀ x ∈ l, f x = some (g x)) →
    l.filterMap f = l.map g := by
  intro l
  induction l with
  | nil => intro _; rfl
  | cons x xs ih =>
    intro h
    rw [List.filterMap_cons, h x (by simp), List.map_cons, ih (fun y hy => h y (by simp [hy]))]

theorem mem_rowStmts {m : MM} {s : Load.Stmt}
    (hs : s ∈ m.classes.flatMap (fun c => c.rows.map (fun r => Load.Stmt.insert (lstr c.kind) none (r.map toLVal)))) :
    ∃ c ∈ m.classes, ∃ r ∈ c.rows, s = Load.Stmt.insert (lstr c.kind) none (r.map toLVal) := by
  simp only [List.mem_flatMap, List.mem_map] at hs
  obtain ⟨c, hc, r, hr, rfl⟩ := hs
  exact ⟨c, hc, r, hr, rfl⟩

theorem popClasses_toLoad (u : UC) (m : MM) :
    Load.popClasses (toLoad u m) = m.classes.map (fun c => (⟨lstr c.kind, toLAttrs u c.attrs, [], []⟩ : Load.Cls)) := by
  unfold Load.popClasses toLoad
  rw [List.filterMap_append, List.filterMap_append]
  rw [filterMap_none _ (m.assocs.map _) (by intro x hx; obtain ⟨a, _, rfl⟩ := List.mem_map.mp hx; rfl)]
  rw [filterMap_none _ (m.classes.flatMap _) (by intro x hx; obtain ⟨c, _, r, _, rfl⟩ := mem_rowStmts hx; rfl)]
  rw [List.append_nil, List.append_nil]
  rw [filterMap_all_some _ (fun s => match s with
      | .cls k as => (⟨k, as, [], []⟩ : Load.Cls)
      | _ => default) _ (by intro x hx; obtain ⟨c, _, rfl⟩ := List.mem_map.mp hx; rfl)]
  rw [List.map_map]; rfl

theorem popAssocs_toLoad (u : UC) (m : MM) : Load.popAssocs (toLoad u m) = m.assocs.map toLAssoc := by
  unfold Load.popAssocs toLoad
  rw [List.filterMap_append, List.filterMap_append]
  rw [filterMap_none _ (m.classes.map _) (by intro x hx; obtain ⟨c, _, rfl⟩ := List.mem_map.mp hx; rfl)]
  rw [filterMap_none _ (m.classes.flatMap _) (by intro x hx; obtain ⟨c, _, r, _, rfl⟩ := mem_rowStmts hx; rfl)]
  rw [List.nil_append, List.append_nil]
  rw [filterMap_all_some _ (fun s => match s with
      | .assoc a => a
      | _ => default) _ (by intro x hx; obtain ⟨a, _, rfl⟩ := List.mem_map.mp hx; rfl)]
  rw [List.map_map]; rfl

/-- exact kinds are distinct when they are distinct after upper-casing -/
theorem kinds_exact_nodup (u : UC) (m : MM) (hm : m.Closed u) : (m.classes.map (fun c => lstr c.kind)).Nodup := by
  have h := hm.distinct
  have : ∀ (cs : List ClassM), (cs.map (fun c => u.upper c.kind)).Nodup → (cs.map (fun c => lstr c.kind)).Nodup := by
    intro cs
    induction cs with
    | nil => intro _; simp
    | cons c cs ih =>
      intro hn
      simp only [List.map_cons, List.nodup_cons, List.mem_map, not_exists, not_and] at hn ⊢
      refine ⟨?_, ih hn.2⟩
      intro d hd he
      exact hn.1 d hd (by rw [lstr_inj.mp he])
  exact this _ h

theorem class_of_kind (u : UC) (m : MM) (hm : m.Closed u) {c d : ClassM} (hc : c ∈ m.classes) (hd : d ∈ m.classes)
    (h : c.kind = d.kind) : c = d :=
  eq_of_nodup_map (fun c : ClassM => u.upper c.kind) m.classes hm.distinct c hc d hd (by simp only [h])

theorem insOf_toLoad (u : UC) (m : MM) (hm : m.Closed u) (c : ClassM) (hc : c ∈ m.classes) :
    Load.insOf (toLoad u m) (lstr c.kind) = c.rows.map (fun r => (none, r.map toLVal)) := by
  unfold Load.insOf toLoad
  rw [List.filterMap_append, List.filterMap_append]
  rw [filterMap_none _ (m.classes.map _) (by intro x hx; obtain ⟨d, _, rfl⟩ := List.mem_map.mp hx; rfl)]
  rw [filterMap_none _ (m.assocs.map _) (by intro x hx; obtain ⟨a, _, rfl⟩ := List.mem_map.mp hx; rfl)]
  rw [List.nil_append, List.nil_append]
  -- only the rows of `c` survive
  have key : ∀ (cs : List ClassM), (∀ d ∈ cs, d ∈ m.classes) → (cs.map (fun d => u.upper d.kind)).Nodup →
      (cs.flatMap (fun d => d.rows.map (fun r => Load.Stmt.insert (lstr d.kind) none (r.map toLVal)))).filterMap
        (fun s => match s with
          | .insert k' ns vs => if k' = lstr c.kind then some (ns, vs) else none
          | _ => none) =
      if c ∈ cs then c.rows.map (fun r => (none, r.map toLVal)) else [] := by
    intro cs
    induction cs with
    | nil => intro _ _; simp
    | cons d ds ih =>
      intro hmem hn
      simp only [List.map_cons, List.nodup_cons, List.mem_map, not_exists, not_and] at hn
      rw [List.flatMap_cons, List.filterMap_append, ih (fun x hx => hmem x (by simp [hx])) hn.2]
      by_cases hdc : d = c
      · subst hdc
        have hnot : d ∉ ds := fun hx => hn.1 d hx rfl
        simp only [List.mem_cons, true_or, if_true, hnot, if_false, List.append_nil]
        rw [filterMap_all_some _ (fun s => match s with
            | .insert _ ns vs => (ns, vs)
            | _ => default) _ (by intro x hx; obtain ⟨r, _, rfl⟩ := List.mem_map.mp hx; simp)]
        rw [List.map_map]; rfl
      · have hk : lstr d.kind ≠ lstr c.kind := by
          intro e
          exact hdc (class_of_kind u m hm (hmem d (by simp)) hc (lstr_inj.mp e))
        rw [filterMap_none _ (d.rows.map _) (by intro x hx; obtain ⟨r, _, rfl⟩ := List.mem_map.mp hx; simp [hk]), List.nil_append]
        have : (c ∈ d :: ds) ↔ c ∈ ds := by
          simp only [List.mem_cons]
          constructor
          · rintro (h | h)
            · exact absurd h.symm hdc
            · exact h
          · exact Or.inr
        simp only [this]
  have := key m.classes (fun _ h => h) hm.distinct
  simp only [hc, if_true] at this
  exact this

theorem findCls_popClasses (u : UC) (m : MM) (hm : m.Closed u) (c : ClassM) (hc : c ∈ m.classes) :
    Load.findCls (Load.popClasses (toLoad u m)) (lstr c.kind) = some ⟨lstr c.kind, toLAttrs u c.attrs, [], []⟩ := by
  rw [popClasses_toLoad]
  unfold Load.findCls
  have key : ∀ (cs : List ClassM), (∀ d ∈ cs, d ∈ m.classes) → c ∈ cs →
      (cs.map (fun d => (⟨lstr d.kind, toLAttrs u d.attrs, [], []⟩ : Load.Cls))).find? (fun e => decide (e.kind = lstr c.kind)) =
        some ⟨lstr c.kind, toLAttrs u c.attrs, [], []⟩ := by
    intro cs
    induction cs with
    | nil => intro _ h; simp at h
    | cons d ds ih =>
      intro hmem hcm
      simp only [List.map_cons, List.find?_cons]
      by_cases hk : lstr d.kind = lstr c.kind
      · have : d = c := class_of_kind u m hm (hmem d (by simp)) hc (lstr_inj.mp hk)
        subst this; simp
      · simp only [hk, decide_false, Bool.false_eq_true]
        have : c ∈ ds := by
          simp only [List.mem_cons] at hcm
          rcases hcm with rfl | h
          · exact absurd rfl hk
          · exact h
        exact ih (fun x hx => hmem x (by simp [hx])) this
  exact key m.classes (fun _ h => h) hc

/-! ### the loader model accepts the statements and holds the rows -/

theorem nodup_lstr_of_upper (u : UC) : ∀ (l : List Name), (l.map u.upper).Nodup → (l.map lstr).Nodup := by
  intro l
  induction l with
  | nil => intro _; simp
  | cons x xs ih =>
    intro hn
    simp only [List.map_cons, List.nodup_cons, List.mem_map, not_exists, not_and] at hn ⊢
    refine ⟨?_, ih hn.2⟩
    intro y hy he
    exact hn.1 y hy (by rw [lstr_inj.mp he])

theorem attrNames_lstr_nodup (u : UC) (m : MM) (hm : m.Closed u) (c : ClassM) (hc : c ∈ m.classes) :
    ((toLAttrs u c.attrs).map (fun x => x.1)).Nodup := by
  have h := ((attrNamesOk_iff u c.attrs).mp (hm.attrNames c hc)).1
  have e1 : c.attrs.map (fun a => u.upper a.1) = (c.attrs.map (fun a => a.1)).map u.upper := by rw [List.map_map]; rfl
  have e2 : (toLAttrs u c.attrs).map (fun x => x.1) = (c.attrs.map (fun a => a.1)).map lstr := by
    simp only [toLAttrs, List.map_map]; rfl
  rw [e2]; rw [e1] at h
  exact nodup_lstr_of_upper u _ h

theorem attrNames_toLoad (u : UC) (m : MM) (hm : m.Closed u) (c : ClassM) (hc : c ∈ m.classes) :
    Load.attrNames (Load.popClasses (toLoad u m)) (lstr c.kind) = c.attrs.map (fun a => lstr a.1) := by
  unfold Load.attrNames
  rw [findCls_popClasses u m hm c hc]
  simp only [toLAttrs, List.map_map]; rfl

theorem accepted_toLoad (u : UC) (m : MM) (h : LoadDom u m) : Load.accepted (toLoad u m) = true := by
  have hm := h.closed
  unfold Load.accepted
  simp only [Bool.and_eq_true, decide_eq_true_eq, List.all_eq_true]
  have hkinds : (Load.popClasses (toLoad u m)).map (fun c => c.kind) = m.classes.map (fun c => lstr c.kind) := by
    rw [popClasses_toLoad, List.map_map]; rfl
  refine ⟨by rw [hkinds]; exact kinds_exact_nodup u m hm, ?_⟩
  intro s hs
  unfold toLoad at hs
  simp only [List.mem_append] at hs
  rcases hs with (hs | hs) | hs
  · obtain ⟨c, hc, rfl⟩ := List.mem_map.mp hs
    simp only [decide_eq_true_eq]
    exact attrNames_lstr_nodup u m hm c hc
  · obtain ⟨a, ha, rfl⟩ := List.mem_map.mp hs
    obtain ⟨⟨sc, hsc, hsk⟩, hlen, tc, htc, htk, _⟩ := hm.ends a ha
    simp only [Bool.and_eq_true, List.contains_iff_mem, List.all_eq_true, beq_iff_eq, toLAssoc, List.length_map]
    rw [hkinds]
    refine ⟨⟨⟨?_, ?_⟩, ?_⟩, hlen⟩
    · exact List.mem_map.mpr ⟨sc, hsc, by rw [hsk]⟩
    · exact List.mem_map.mpr ⟨tc, htc, by rw [htk]⟩
    · intro n hn
      obtain ⟨k, hk, rfl⟩ := List.mem_map.mp hn
      rw [← htk, attrNames_toLoad u m hm tc htc]
      have := h.tgtKeys a ha tc htc htk k hk
      obtain ⟨x, hx, rfl⟩ := List.mem_map.mp this
      exact List.mem_map.mpr ⟨x, hx, rfl⟩
  · obtain ⟨c, _, r, _, rfl⟩ := mem_rowStmts hs
    rfl

theorem rowsOf_toLoad (u : UC) (m : MM) (hm : m.Closed u) (c : ClassM) (hc : c ∈ m.classes) :
    Load.rowsOf (Load.buildCore (toLoad u m)).classes (lstr c.kind) = c.rows.map (toLRow u c) := by
  unfold Load.rowsOf
  rw [Load.findCls_buildCore]
  unfold Load.clsSpec
  rw [findCls_popClasses u m hm c hc, insOf_toLoad u m hm c hc]
  simp only [List.map_map]
  rfl

/-! ### membership in the spec join -/

theorem mem_partnersOf (p : List (Option Val) → Bool) : ∀ (T : List (List (Option Val))) (j0 j : Nat),
    j ∈ partnersOf p j0 T ↔ ∃ t, j0 ≤ j ∧ T[j - j0]? = some t ∧ p t = true := by
  intro T
  induction T with
  | nil => intro j0 j; simp [partnersOf]
  | cons t ts ih =>
    intro j0 j
    have step : (∃ t', j0 + 1 ≤ j ∧ ts[j - (j0 + 1)]? = some t' ∧ p t' = true) ↔
        (∃ t', j0 ≤ j ∧ j ≠ j0 ∧ (t :: ts)[j - j0]? = some t' ∧ p t' = true) := by
      constructor
      · intro ⟨t', h1, h2, h3⟩
        refine ⟨t', by omega, by omega, ?_, h3⟩
        have : j - j0 = (j - (j0 + 1)) + 1 := by omega
        rw [this, List.getElem?_cons_succ]; exact h2
      · intro ⟨t', h1, hne, h2, h3⟩
        refine ⟨t', by omega, ?_, h3⟩
        have : j - j0 = (j - (j0 + 1)) + 1 := by omega
        rw [this, List.getElem?_cons_succ] at h2; exact h2
    simp only [partnersOf]
    by_cases hp : p t = true
    · simp only [hp, if_true, List.mem_cons, ih, step]
      constructor
      · rintro (rfl | ⟨t', h1, _, h2, h3⟩)
        · exact ⟨t, Nat.le_refl _, by simp, hp⟩
        · exact ⟨t', h1, h2, h3⟩
      · intro ⟨t', h1, h2, h3⟩
        by_cases he : j = j0
        · exact Or.inl he
        · exact Or.inr ⟨t', h1, he, h2, h3⟩
    · simp only [hp, Bool.false_eq_true, if_false, ih, step]
      constructor
      · intro ⟨t', h1, _, h2, h3⟩; exact ⟨t', h1, h2, h3⟩
      · intro ⟨t', h1, h2, h3⟩
        refine ⟨t', h1, ?_, h2, h3⟩
        intro he; subst he
        simp only [Nat.sub_self, List.getElem?_cons_zero, Option.some.injEq] at h2
        subst h2; exact hp h3

theorem mem_joinRows (f : List (Option Val) → List (Option Val) → Bool) (T : List (List (Option Val))) :
    ∀ (S : List (List (Option Val))) (i0 i j : Nat),
    (i, j) ∈ joinRows f T i0 S ↔ ∃ s t, i0 ≤ i ∧ S[i - i0]? = some s ∧ T[j]? = some t ∧ f s t = true := by
  intro S
  induction S with
  | nil => intro i0 i j; simp [joinRows]
  | cons s ss ih =>
    intro i0 i j
    simp only [joinRows, List.mem_append, List.mem_map, Prod.mk.injEq, ih]
    constructor
    · rintro (⟨j', hj', rfl, rfl⟩ | ⟨s', t, h1, h2, h3, h4⟩)
      · obtain ⟨t, _, ht, hp⟩ := (mem_partnersOf (f s) T 0 j').mp hj'
        exact ⟨s, t, Nat.le_refl _, by simp, by simpa using ht, hp⟩
      · refine ⟨s', t, by omega, ?_, h3, h4⟩
        have : i - i0 = (i - (i0 + 1)) + 1 := by omega
        rw [this, List.getElem?_cons_succ]; exact h2
    · intro ⟨s', t, h1, h2, h3, h4⟩
      by_cases he : i = i0
      · subst he
        simp only [Nat.sub_self, List.getElem?_cons_zero, Option.some.injEq] at h2
        subst h2
        exact Or.inl ⟨j, (mem_partnersOf (f s) T 0 j).mpr ⟨t, Nat.zero_le _, by simpa using h3, h4⟩, rfl, rfl⟩
      · refine Or.inr ⟨s', t, by omega, ?_, h3, h4⟩
        have : i - i0 = (i - (i0 + 1)) + 1 := by omega
        rw [this, List.getElem?_cons_succ] at h2; exact h2

theorem findClass_of_mem (u : UC) (m : MM) (hm : m.Closed u) {c : ClassM} (hc : c ∈ m.classes) :
    m.findClass u c.kind = some c := by
  unfold MM.findClass
  cases hf : m.classes.find? (fun d => u.upper d.kind == u.upper c.kind) with
  | none =>
    rw [List.find?_eq_none] at hf
    have := hf c hc
    simp at this
  | some d =>
    have hd : d ∈ m.classes := List.mem_of_find?_eq_some hf
    have hk : u.upper d.kind = u.upper c.kind := by have := List.find?_some hf; simpa using this
    rw [eq_of_nodup_map (fun c : ClassM => u.upper c.kind) m.classes hm.distinct d hd c hc hk]

/-! ### the two key predicates agree -/

theorem colExact_of_mem (attrs : List (Name × Name)) (k : Name) (h : k ∈ attrs.map (fun a => a.1)) :
    ∃ i a, colExact attrs k = some i ∧ attrs[i]? = some a := by
  unfold colExact
  cases hf : attrs.findIdx? (fun a => a.1 == k) with
  | none =>
    rw [List.findIdx?_eq_none_iff] at hf
    obtain ⟨a, ha, rfl⟩ := List.mem_map.mp h
    have := hf a ha
    simp at this
  | some i =>
    have hlt := (List.findIdx?_eq_some_iff_getElem.mp hf).1
    exact ⟨i, attrs[i], rfl, by simp [hlt]⟩

/-- a key column of a closed class has a core type, and the cells of the column are typed -/
theorem keyCell_typed (u : UC) (m : MM) (h : LoadDom u m) (c : ClassM) (hc : c ∈ m.classes) (r : List (Option Val))
    (hr : r ∈ c.rows) (k : Name) (hk : k ∈ c.attrs.map (fun a => a.1)) :
    ∃ t, keyCell u c r (colExact c.attrs k) = (some t, cellAt c.attrs r k) ∧ typedB t (cellAt c.attrs r k) = true := by
  obtain ⟨i, a, hi, ha⟩ := colExact_of_mem c.attrs k hk
  have hcore := h.closed.types c hc a (List.mem_of_getElem? ha)
  obtain ⟨t, ht⟩ := Option.isSome_iff_exists.mp hcore
  refine ⟨t, ?_, ?_⟩
  · have h1 : (keyCell u c r (colExact c.attrs k)).1 = some t := by
      rw [keyCell_fst, hi]; simp [colType, ha, ht]
    have h2 := keyCell_exact u c r k
    exact Prod.ext h1 h2
  · have : cellAt c.attrs r k = (r[i]?).join := by unfold cellAt; rw [hi]
    rw [this]
    exact h.typed c hc r hr i a t ha ht

theorem rowsMatch_iff (u : UC) (m : MM) (h : LoadDom u m) (a : AssocM) (ha : a ∈ m.assocs) (sc tc : ClassM)
    (hsc : sc ∈ m.classes) (htc : tc ∈ m.classes) (hsk : sc.kind = a.src.kind) (htk : tc.kind = a.tgt.kind)
    (s t : List (Option Val)) (hs : s ∈ sc.rows) (ht : t ∈ tc.rows) :
    rowsMatch u a sc tc s t = true ↔ Load.matchesB (toLAssoc a) (toLRow u sc s) (toLRow u tc t) = true := by
  rw [Load.matchesB_iff]
  unfold rowsMatch Load.keyPairs
  simp only [List.all_eq_true, toLAssoc]
  have hzip : (a.src.keys.map lstr).zip (a.tgt.keys.map lstr) = (a.src.keys.zip a.tgt.keys).map (fun kk => (lstr kk.1, lstr kk.2)) := by
    rw [List.zip_map]; rfl
  rw [hzip]
  have hcell : ∀ kk ∈ a.src.keys.zip a.tgt.keys,
      (cellMatch (keyCell u sc s (colExact sc.attrs kk.1)) (keyCell u tc t (colCI u tc.attrs kk.2)) = true ↔
        (Load.isNull ((toLRow u sc s).get (lstr kk.1)) = false ∧
          (toLRow u sc s).get (lstr kk.1) = (toLRow u tc t).get (lstr kk.2))) := by
    intro kk hkk
    have hk1 : kk.1 ∈ a.src.keys := (List.of_mem_zip hkk).1
    have hk2 : kk.2 ∈ a.tgt.keys := (List.of_mem_zip hkk).2
    have hm1 := h.srcKeys a ha sc hsc hsk kk.1 hk1
    have hm2 := h.tgtKeys a ha tc htc htk kk.2 hk2
    obtain ⟨t1, e1, ty1⟩ := keyCell_typed u m h sc hsc s hs kk.1 hm1
    obtain ⟨t2, e2, ty2⟩ := keyCell_typed u m h tc htc t ht kk.2 hm2
    have hsame := h.sameTypes a ha sc hsc tc htc hsk htk kk hkk
    rw [← keyCell_fst u sc s, ← keyCell_fst u tc t, e1, e2] at hsame
    simp only [Option.some.injEq] at hsame
    subst hsame
    rw [colCI_of_mem u tc.attrs kk.2 hm2, e1, e2, cellMatch_iff t1 _ _ ty1 ty2]
    unfold toLRow
    rw [get_mkRow, get_mkRow]
  constructor
  · intro hall p hp
    obtain ⟨kk, hkk, rfl⟩ := List.mem_map.mp hp
    exact (hcell kk hkk).mp (hall kk hkk)
  · intro hall kk hkk
    exact (hcell kk hkk).mpr (hall (lstr kk.1, lstr kk.2) (List.mem_map.mpr ⟨kk, hkk, rfl⟩))

/-! ### the bridge -/

theorem keysOk_toLAssoc (a : AssocM) (h : a.src.keys.Nodup ∧ a.tgt.keys.Nodup) : Load.KeysOk (toLAssoc a) := by
  have inj : ∀ (l : List Name), l.Nodup → (l.map lstr).Nodup := by
    intro l hl
    induction l with
    | nil => simp
    | cons x xs ih =>
      simp only [List.nodup_cons] at hl
      simp only [List.map_cons, List.nodup_cons, List.mem_map, not_exists, not_and]
      exact ⟨fun y hy he => hl.1 (by rw [← lstr_inj.mp he]; exact hy), ih hl.2⟩
  exact ⟨inj _ h.1, inj _ h.2⟩

/-- LINKS AGREE: for every metamodel in the bridge domain, the loader model (C03's `Pyx.Load.build`: the five phases, the
    hashed index with its cache, `connect` in both directions) ACCEPTS the statements of the metamodel, keeps its
    associations in order, and the links it builds for an association -- both directed links -- are exactly the pairs of
    the spec join `linksOfAssoc` (row indices within the classes' storage) -/
theorem links_agree (u : UC) (m : MM) (h : LoadDom u m) :
    ∃ lm, Load.build (toLoad u m) = some lm ∧ lm.assocs.map (fun x => x.1) = m.assocs.map toLAssoc ∧
      ∀ a ∈ m.assocs, ∀ L, (toLAssoc a, L) ∈ lm.assocs → ∀ i j,
        ((i, j) ∈ linksOfAssoc u m a ↔ j ∈ L.tgt i) ∧ ((i, j) ∈ linksOfAssoc u m a ↔ i ∈ L.src j) := by
  have hm := h.closed
  have hacc := accepted_toLoad u m h
  have hk : ∀ a' ∈ Load.popAssocs (toLoad u m), Load.KeysOk a' := by
    intro a' ha'
    rw [popAssocs_toLoad] at ha'
    obtain ⟨a, ha, rfl⟩ := List.mem_map.mp ha'
    exact keysOk_toLAssoc a (h.keysNodup a ha)
  have hassocs := Load.buildCore_assocs (toLoad u m) hk
  refine ⟨Load.buildCore (toLoad u m), by simp [Load.build, hacc], ?_, ?_⟩
  · rw [hassocs, List.map_map, popAssocs_toLoad]
    simp [Function.comp]
  · intro a ha L hL i j
    rw [hassocs] at hL
    obtain ⟨a', _, he⟩ := List.mem_map.mp hL
    simp only [Prod.mk.injEq] at he
    obtain ⟨rfl, rfl⟩ := he
    obtain ⟨⟨sc, hsc, hsk⟩, _, tc, htc, htk, _⟩ := hm.ends a ha
    have hS : Load.rowsOf (Load.buildCore (toLoad u m)).classes (toLAssoc a).srcKind = sc.rows.map (toLRow u sc) := by
      show Load.rowsOf _ (lstr a.src.kind) = _
      rw [← hsk]; exact rowsOf_toLoad u m hm sc hsc
    have hT : Load.rowsOf (Load.buildCore (toLoad u m)).classes (toLAssoc a).tgtKind = tc.rows.map (toLRow u tc) := by
      show Load.rowsOf _ (lstr a.tgt.kind) = _
      rw [← htk]; exact rowsOf_toLoad u m hm tc htc
    rw [hS, hT]
    have hlinks : (i, j) ∈ linksOfAssoc u m a ↔
        ∃ s t, sc.rows[i]? = some s ∧ tc.rows[j]? = some t ∧ rowsMatch u a sc tc s t = true := by
      unfold linksOfAssoc
      rw [← hsk, ← htk, findClass_of_mem u m hm hsc, findClass_of_mem u m hm htc]
      simp only [hsk, htk]
      rw [mem_joinRows]
      constructor
      · intro ⟨s, t, _, h2, h3, h4⟩; exact ⟨s, t, by simpa using h2, h3, h4⟩
      · intro ⟨s, t, h2, h3, h4⟩; exact ⟨s, t, Nat.zero_le _, by simpa using h2, h3, h4⟩
    have hspec : (∃ s t, sc.rows[i]? = some s ∧ tc.rows[j]? = some t ∧ rowsMatch u a sc tc s t = true) ↔
        ∃ s' t', (sc.rows.map (toLRow u sc))[i]? = some s' ∧ (tc.rows.map (toLRow u tc))[j]? = some t' ∧
          Load.matchesB (toLAssoc a) s' t' = true := by
      constructor
      · intro ⟨s, t, h1, h2, h3⟩
        refine ⟨toLRow u sc s, toLRow u tc t, by simp [h1], by simp [h2], ?_⟩
        exact (rowsMatch_iff u m h a ha sc tc hsc htc hsk htk s t (List.mem_of_getElem? h1) (List.mem_of_getElem? h2)).mp h3
      · intro ⟨s', t', h1, h2, h3⟩
        simp only [List.getElem?_map, Option.map_eq_some_iff] at h1 h2
        obtain ⟨s, hs, rfl⟩ := h1
        obtain ⟨t, ht, rfl⟩ := h2
        exact ⟨s, t, hs, ht,
          (rowsMatch_iff u m h a ha sc tc hsc htc hsk htk s t (List.mem_of_getElem? hs) (List.mem_of_getElem? ht)).mpr h3⟩
    rw [hlinks, hspec, Load.mem_nestedJoin_tgt, Load.mem_nestedJoin_src]
    exact ⟨Iff.rfl, Iff.rfl⟩

/-! ### the links of the loader model, as a relation -/

/-- `(i, j)` is linked across `a` in the metamodel the LOADER MODEL builds from the statements of `m`: both directed links
    hold the pair (`i`, `j`: positions in the storage of the source / target class) -/
def LoaderLinked (u : UC) (m : MM) (a : AssocM) (i j : Nat) : Prop :=
  ∃ lm L, Load.build (toLoad u m) = some lm ∧ (toLAssoc a, L) ∈ lm.assocs ∧ j ∈ L.tgt i ∧ i ∈ L.src j

theorem loaderLinked_iff (u : UC) (m : MM) (h : LoadDom u m) (a : AssocM) (ha : a ∈ m.assocs) (i j : Nat) :
    LoaderLinked u m a i j ↔ (i, j) ∈ linksOfAssoc u m a := by
  obtain ⟨lm, hb, has, hl⟩ := links_agree u m h
  constructor
  · intro ⟨lm', L, hb', hL, h1, _⟩
    rw [hb] at hb'; simp only [Option.some.injEq] at hb'; subst hb'
    exact ((hl a ha L hL i j).1).mpr h1
  · intro hp
    have hmem : toLAssoc a ∈ lm.assocs.map (fun x => x.1) := by rw [has]; exact List.mem_map.mpr ⟨a, ha, rfl⟩
    obtain ⟨x, hx, hxe⟩ := List.mem_map.mp hmem
    obtain ⟨a', L⟩ := x
    simp only at hxe; subst hxe
    exact ⟨lm, L, hb, hx, ((hl a ha L hx i j).1).mp hp, ((hl a ha L hx i j).2).mp hp⟩

/-! ### the reloaded metamodel is in the bridge domain again -/

theorem typedB_resolve (t : Ty) (v : Option Val) (h : typedB t v = true) : typedB t (resolveVal t v) = true := by
  cases v with
  | some x => exact h
  | none => cases t <;> rfl

theorem colType_canon (u : UC) (c : ClassM) (htypes : ∀ a ∈ c.attrs, (tyOfName u a.2).isSome = true) (col : Option Nat) :
    colType u (canonClass u c) col = colType u c col := by
  cases col with
  | none => rfl
  | some i =>
    simp only [colType, canonClass, upAttrs, List.getElem?_map]
    cases ha : c.attrs[i]? with
    | none => rfl
    | some a =>
      obtain ⟨t, ht⟩ := Option.isSome_iff_exists.mp (htypes a (List.mem_of_getElem? ha))
      simp [ht, tyOfName_upper_of_some u a.2 t ht]

theorem loadDom_reloaded (u : UC) (m : MM) (h : LoadDom u m) (A : List AssocM) (hA : ∀ a ∈ A, a ∈ m.assocs) :
    LoadDom u (m.reloaded u A) := by
  have hm := h.closed
  have hperm : (m.sortedClasses u).Perm m.classes := sortBy_perm _ _
  have hcls : ∀ c' ∈ (m.reloaded u A).classes, ∃ c ∈ m.classes, c' = canonClass u c := by
    intro c' hc'
    obtain ⟨c, hc, rfl⟩ := List.mem_map.mp hc'
    exact ⟨c, hperm.mem_iff.mp hc, rfl⟩
  have hnames : ∀ c : ClassM, (canonClass u c).attrs.map (fun x => x.1) = c.attrs.map (fun x => x.1) := by
    intro c; simp only [canonClass, upAttrs, List.map_map]; rfl
  refine ⟨closed_reloaded u m hm A hA, ?_, ?_, ?_, ?_, ?_⟩
  · intro a ha c' hc' hk k hkm
    obtain ⟨c, hc, rfl⟩ := hcls c' hc'
    rw [hnames]; exact h.srcKeys a (hA a ha) c hc hk k hkm
  · intro a ha c' hc' hk k hkm
    obtain ⟨c, hc, rfl⟩ := hcls c' hc'
    rw [hnames]; exact h.tgtKeys a (hA a ha) c hc hk k hkm
  · intro a ha; exact h.keysNodup a (hA a ha)
  · intro a ha sc' hsc' tc' htc' hsk htk kk hkk
    obtain ⟨sc, hsc, rfl⟩ := hcls sc' hsc'
    obtain ⟨tc, htc, rfl⟩ := hcls tc' htc'
    rw [colType_canon u sc (hm.types sc hsc), colType_canon u tc (hm.types tc htc)]
    show colType u sc (colExact (upAttrs u sc.attrs) kk.1) = colType u tc (colExact (upAttrs u tc.attrs) kk.2)
    rw [colExact_up, colExact_up]
    exact h.sameTypes a (hA a ha) sc hsc tc htc hsk htk kk hkk
  · intro c' hc' r' hr' i a' t ha' ht'
    obtain ⟨c, hc, rfl⟩ := hcls c' hc'
    simp only [canonClass, List.mem_map] at hr'
    obtain ⟨r, hr, rfl⟩ := hr'
    simp only [canonClass, upAttrs, List.getElem?_map, Option.map_eq_some_iff] at ha'
    obtain ⟨a, ha, rfl⟩ := ha'
    obtain ⟨t0, ht0⟩ := Option.isSome_iff_exists.mp (hm.types c hc a (List.mem_of_getElem? ha))
    have : t = t0 := by
      have := tyOfName_upper_of_some u a.2 t0 ht0
      simp only at ht'
      rw [this] at ht'; exact (Option.some.inj ht').symm
    subst this
    rw [canonVals_get u c.attrs r i (hm.rows c hc r hr), ha]
    simp only [Option.bind_some]
    cases hv : r[i]? with
    | none => rfl
    | some v =>
      simp only [Option.map_some, Option.join_some, canonVal, ht0]
      apply typedB_resolve
      have := h.typed c hc r hr i a t ha ht0
      rw [hv] at this; exact this

/-- THE LINK CLAUSE ON THE LOADER MODEL: for a metamodel in the bridge domain whose unset numeric key cells meet no type
    default (`UnsetSafe`, the guard against the open finding), the loader model builds from the statements of the RELOADED
    metamodel exactly the links it builds from the statements of the original -/
theorem loader_links_reloaded (u : UC) (m : MM) (h : LoadDom u m) (hsafe : UnsetSafe u m) (A : List AssocM)
    (hA : ∀ a ∈ A, a ∈ m.assocs) (a : AssocM) (ha : a ∈ A) (i j : Nat) :
    LoaderLinked u (m.reloaded u A) a i j ↔ LoaderLinked u m a i j := by
  rw [loaderLinked_iff u _ (loadDom_reloaded u m h A hA) a ha, loaderLinked_iff u m h a (hA a ha),
    linksOfAssoc_reloaded u m h.closed hsafe A a (hA a ha)]

end Pyx.Sql
