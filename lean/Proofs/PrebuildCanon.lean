import PyxModel.Prebuild.Gen

/-
  C05 helper lemmas: `canon` is idempotent; the generator prints list-like nodes element by element in
  source order.
-/
namespace Pyx.Prebuild
open Tok Kw Pn

theorem toLower_idem (c : Char) : c.toLower.toLower = c.toLower := by
  unfold Char.toLower
  split
  · rename_i h
    split
    · rename_i h2
      exfalso
      obtain ⟨_, h2b⟩ := h2
      obtain ⟨ha, hb⟩ := h
      have e1 : ('A'.val).toNat = 65 := by decide
      have e2 : ('Z'.val).toNat = 90 := by decide
      have e3 : ('a'.val - 'A'.val).toNat = 32 := by decide
      have ha' := UInt32.le_iff_toNat_le.mp ha
      have hb' := UInt32.le_iff_toNat_le.mp hb
      have h2b' := UInt32.le_iff_toNat_le.mp h2b
      rw [UInt32.toNat_add, e3, e2] at h2b'
      rw [e2] at hb'; rw [e1] at ha'
      omega
    · rfl
  · rfl

theorem lowerStr_idem (s : String) : lowerStr (lowerStr s) = lowerStr s := by
  unfold lowerStr
  rw [String.toList_ofList, List.map_map]
  congr 1
  apply List.map_congr_left
  intro c _
  exact toLower_idem c

theorem canonName_idem (n : String) : canonName (canonName n) = canonName n := by
  unfold canonName
  split
  · have : lowerStr "self" = "self" := by decide
    simp [this]
  · simp

theorem stripZeros_idem : ∀ l, stripZeros (stripZeros l) = stripZeros l := by
  intro l
  fun_induction stripZeros l with
  | case1 d ds ih => exact ih
  | case2 ds h =>
    unfold stripZeros
    split
    · rename_i d ds'; exact absurd rfl (h d ds')
    · rfl

theorem stripZeros_all (p : Char → Bool) : ∀ l, l.all p = true → (stripZeros l).all p = true := by
  intro l
  fun_induction stripZeros l with
  | case1 d ds ih => intro h; apply ih; simp [List.all_cons] at h ⊢; exact h.2
  | case2 ds h => intro h'; exact h'

theorem stripZeros_cons : ∀ d ds, ∃ e es, stripZeros (d :: ds) = e :: es := by
  intro d ds
  induction ds generalizing d with
  | nil => exact ⟨d, [], by unfold stripZeros; split <;> simp_all⟩
  | cons x xs ih =>
    unfold stripZeros
    split
    · rename_i d' ds' heq; cases heq; exact ih x
    · exact ⟨_, _, rfl⟩

theorem canonRelL_fix (l l' : List Char) (h : canonRelL l = some l') : canonRelL l' = some l' := by
  unfold canonRelL at h
  split at h
  · rename_i c d ds
    split at h
    · rename_i hc
      simp only [Bool.and_eq_true] at hc
      cases h
      obtain ⟨e, es, he⟩ := stripZeros_cons d ds
      have hall := stripZeros_all Char.isDigit (d :: ds) hc.2
      have hid := stripZeros_idem (d :: ds)
      rw [he] at hall hid ⊢
      unfold canonRelL
      have h1 : isRelHead 'R' = true := by decide
      simp only [h1, hall, Bool.and_self, ↓reduceIte, hid]
    · cases h
  · cases h

theorem canonRel_idem (s : String) : canonRel (canonRel s) = canonRel s := by
  unfold canonRel
  cases h : canonRelL s.toList with
  | none => simp only [h]
  | some l => simp only [String.toList_ofList, canonRelL_fix _ _ h]

theorem canonStep_idem (s : Step) : canonStep (canonStep s) = canonStep s := by
  simp [canonStep, canonRel_idem]

theorem canonChain_idem (ch : List Step) : (ch.map canonStep).map canonStep = ch.map canonStep := by
  rw [List.map_map]; apply List.map_congr_left; intro s _; exact canonStep_idem s

theorem canonMeaning_idem (ctx : Ctx) (l : String) (m : Option String) :
    canonMeaning ctx l (canonMeaning ctx l m) = canonMeaning ctx l m := by
  unfold canonMeaning
  cases ctx.events.lookup l <;> rfl

theorem canonKind_idem (ctx : Ctx) (k : CallKind) (nsp : String) :
    canonKind ctx (canonKind ctx k nsp) nsp = canonKind ctx k nsp := by
  cases k <;> simp only [canonKind]
  unfold resolve
  split
  · rfl
  · split <;> rfl

mutual
  theorem canonExpr_idem (ctx : Ctx) : ∀ e : Expr, canonExpr ctx (canonExpr ctx e) = canonExpr ctx e
    | .int _ => by simp [canonExpr]
    | .real _ => by simp [canonExpr]
    | .str _ => by simp [canonExpr]
    | .bool v => by simp [canonExpr, lowerStr_idem]
    | .enum _ _ => by simp [canonExpr]
    | .var _ => by simp [canonExpr]
    | .self => by simp [canonExpr]
    | .selected => by simp [canonExpr]
    | .param _ => by simp [canonExpr]
    | .field h _ => by simp [canonExpr, canonExpr_idem ctx h]
    | .index h i => by simp [canonExpr, canonExpr_idem ctx h, canonExpr_idem ctx i]
    | .un _ e => by simp [canonExpr, lowerStr_idem, canonExpr_idem ctx e]
    | .bin l _ r => by simp [canonExpr, lowerStr_idem, canonExpr_idem ctx l, canonExpr_idem ctx r]
    | .call k nsp _ ps => by simp [canonExpr, canonKind_idem, canonParams_idem ctx ps]
    | .icall h _ ps => by simp [canonExpr, canonExpr_idem ctx h, canonParams_idem ctx ps]
  theorem canonParams_idem (ctx : Ctx) : ∀ ps : Params, canonParams ctx (canonParams ctx ps) = canonParams ctx ps
    | .nil => by simp [canonParams]
    | .cons _ e rest => by simp [canonParams, canonExpr_idem ctx e, canonParams_idem ctx rest]
end

theorem canonTo_idem (ctx : Ctx) (t : EvtTo) : canonTo ctx (canonTo ctx t) = canonTo ctx t := by
  cases t <;> simp [canonTo, canonExpr_idem]

mutual
  theorem canonStmt_idem (ctx : Ctx) : ∀ s : Stmt, canonStmt ctx (canonStmt ctx s) = canonStmt ctx s
    | .assign l r => by simp [canonStmt, canonExpr_idem]
    | .ret none => by simp [canonStmt]
    | .ret (some e) => by simp [canonStmt, canonExpr_idem]
    | .brk => by simp [canonStmt]
    | .cont => by simp [canonStmt]
    | .ctl => by simp [canonStmt]
    | .create _ _ => by simp [canonStmt]
    | .createNV _ => by simp [canonStmt]
    | .delete _ => by simp [canonStmt, canonName_idem]
    | .relate _ _ _ _ => by simp [canonStmt, canonName_idem, canonRel_idem]
    | .relateU _ _ _ _ _ => by simp [canonStmt, canonName_idem, canonRel_idem]
    | .unrelate _ _ _ _ => by simp [canonStmt, canonName_idem, canonRel_idem]
    | .unrelateU _ _ _ _ _ => by simp [canonStmt, canonName_idem, canonRel_idem]
    | .selFrom _ _ _ => by simp [canonStmt, lowerStr_idem]
    | .selFromW _ _ _ _ => by simp [canonStmt, lowerStr_idem, canonExpr_idem]
    | .selRel _ _ _ _ => by simp only [canonStmt, lowerStr_idem, canonExpr_idem, canonChain_idem]
    | .selRelW _ _ _ _ _ => by simp only [canonStmt, lowerStr_idem, canonExpr_idem, canonChain_idem]
    | .forEach _ _ b => by simp [canonStmt, canonBlock_idem ctx b]
    | .while_ _ b => by simp [canonStmt, canonExpr_idem, canonBlock_idem ctx b]
    | .if_ _ b el els => by
        simp [canonStmt, canonExpr_idem, canonBlock_idem ctx b, canonElifs_idem ctx el, canonElse_idem ctx els]
    | .invoke _ => by simp [canonStmt, canonExpr_idem]
    | .genEvt _ _ _ _ => by simp [canonStmt, canonParams_idem, canonTo_idem, canonMeaning_idem]
    | .createEvt _ _ _ _ _ => by simp [canonStmt, canonParams_idem, canonTo_idem, canonMeaning_idem]
    | .genPre _ => by simp [canonStmt, canonExpr_idem]
  theorem canonBlock_idem (ctx : Ctx) : ∀ b : Block, canonBlock ctx (canonBlock ctx b) = canonBlock ctx b
    | .nil => by simp [canonBlock]
    | .cons s rest => by simp [canonBlock, canonStmt_idem ctx s, canonBlock_idem ctx rest]
  theorem canonElifs_idem (ctx : Ctx) : ∀ el : Elifs, canonElifs ctx (canonElifs ctx el) = canonElifs ctx el
    | .nil => by simp [canonElifs]
    | .cons _ b rest => by simp [canonElifs, canonExpr_idem, canonBlock_idem ctx b, canonElifs_idem ctx rest]
  theorem canonElse_idem (ctx : Ctx) : ∀ els : Else, canonElse ctx (canonElse ctx els) = canonElse ctx els
    | .none => by simp [canonElse]
    | .some b => by simp [canonElse, canonBlock_idem ctx b]
end

/-! ### list views of the list-like nodes, in source order -/

def Block.toList : Block → List Stmt
  | .nil => []
  | .cons s rest => s :: rest.toList

def Params.toList : Params → List (String × Expr)
  | .nil => []
  | .cons n e rest => (n, e) :: rest.toList

def Elifs.toList : Elifs → List (Expr × Block)
  | .nil => []
  | .cons e b rest => (e, b) :: rest.toList

theorem canonBlock_toList (ctx : Ctx) : ∀ b : Block, (canonBlock ctx b).toList = b.toList.map (canonStmt ctx)
  | .nil => by simp [canonBlock, Block.toList]
  | .cons s rest => by simp [canonBlock, Block.toList, canonBlock_toList ctx rest]

theorem canonParams_toList (ctx : Ctx) : ∀ ps : Params,
    (canonParams ctx ps).toList = ps.toList.map (fun x => (x.1, canonExpr ctx x.2))
  | .nil => by simp [canonParams, Params.toList]
  | .cons n e rest => by simp [canonParams, Params.toList, canonParams_toList ctx rest]

theorem canonElifs_toList (ctx : Ctx) : ∀ el : Elifs,
    (canonElifs ctx el).toList = el.toList.map (fun x => (canonExpr ctx x.1, canonBlock ctx x.2))
  | .nil => by simp [canonElifs, Elifs.toList]
  | .cons e b rest => by simp [canonElifs, Elifs.toList, canonElifs_toList ctx rest]

theorem genBlock_flat : ∀ b : Block, genBlock b = (b.toList.map (fun s => genStmt s ++ [p semi])).flatten
  | .nil => by simp [genBlock, Block.toList]
  | .cons s rest => by simp [genBlock, Block.toList, genBlock_flat rest]

theorem genChain_flat : ∀ ch : List Step, genChain ch = (ch.map genStep).flatten
  | [] => by simp [genChain]
  | s :: rest => by simp [genChain, genChain_flat rest]

theorem genElifs_flat : ∀ el : Elifs,
    genElifs el = (el.toList.map (fun x => [kw elif_] ++ genExpr x.1 ++ genBlock x.2)).flatten
  | .nil => by simp [genElifs, Elifs.toList]
  | .cons e b rest => by simp [genElifs, Elifs.toList, genElifs_flat rest]

/-- parameters are printed `name : value` in source order, separated by commas -/
theorem genParams_inter : ∀ ps : Params,
    genParams ps = ([p comma] : List Tok).intercalate (ps.toList.map (fun x => [ident x.1, p colon] ++ genExpr x.2))
  | .nil => by simp [genParams, Params.toList, List.intercalate]
  | .cons n e .nil => by simp [genParams, Params.toList, List.intercalate]
  | .cons n e (.cons n2 e2 r2) => by
      have ih := genParams_inter (.cons n2 e2 r2)
      have hgen : genParams (.cons n e (.cons n2 e2 r2)) =
          [ident n, p colon] ++ genExpr e ++ [p comma] ++ genParams (.cons n2 e2 r2) := by
        rw [genParams]; intro h; cases h
      rw [hgen, ih]
      simp [Params.toList, List.intercalate]

end Pyx.Prebuild
