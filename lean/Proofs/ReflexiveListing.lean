import Proofs.Reflexive

/-!
  C16 helper: a listing of the chains in the set-order of their heads EXISTS for every duplicate-free set made up
  of whole chains (the hypothesis `hheads` of `sort_chains` can always be met by permuting the given chains).
-/
namespace Pyx.Reflexive
open Pyx.Meta

/-- a list that is a permutation of the `f`-images of `cs` is the image list of some permutation of `cs` -/
theorem exists_perm_filterMap_eq {α β : Type} [DecidableEq α] (f : α → Option β) :
    ∀ (hs : List β) (cs : List α), hs.Perm (cs.filterMap f) → ∃ cs' : List α, cs'.Perm cs ∧ cs'.filterMap f = hs
  | [], cs, h => ⟨cs, List.Perm.refl _, (List.perm_nil.mp h.symm)⟩
  | b :: hs, cs, h => by
    have hb : b ∈ cs.filterMap f := h.subset (by simp)
    obtain ⟨c, hc, hfc⟩ := List.mem_filterMap.mp hb
    have hp : cs.Perm (c :: cs.erase c) := List.perm_cons_erase hc
    have hp2 : (b :: hs).Perm (b :: (cs.erase c).filterMap f) := by
      have := h.trans (hp.filterMap f)
      simpa [List.filterMap_cons, hfc] using this
    obtain ⟨cs', hperm, heq⟩ := exists_perm_filterMap_eq f hs (cs.erase c) hp2.cons_inv
    refine ⟨c :: cs', (hperm.cons c).trans hp.symm, ?_⟩
    simp [hfc, heq]

/-- every member of a linked run but the first has a partner across the phrase -/
theorem adj_tail_across {across back : Inst → Option Inst} : ∀ (c : List Inst), Adj (Succ across back) c →
    ∀ x ∈ c.tail, (across x).isSome
  | [], _, x, hx => by simp at hx
  | [_], _, x, hx => by simp at hx
  | a :: b :: rest, hadj, x, hx => by
    simp only [List.tail_cons, List.mem_cons] at hx
    rcases hx with rfl | hx
    · simp [hadj.1.2]
    · exact adj_tail_across (b :: rest) hadj.2 x (by simpa using hx)

/-- in a chain the head is the only member without partner across the phrase -/
theorem IsChain.none_iff_head {across back : Inst → Option Inst} {c : List Inst} (h : IsChain across back c)
    {x : Inst} (hx : x ∈ c) : across x = none ↔ c.head? = some x := by
  constructor
  · intro hn
    cases c with
    | nil => simp at hx
    | cons a l =>
      rcases List.mem_cons.mp hx with rfl | hl
      · rfl
      · have := adj_tail_across (a :: l) h.adj x (by simpa using hl)
        simp [hn] at this
  · exact h.head x

theorem heads_sublist_flatten : ∀ (cs : List (List Inst)), (cs.filterMap List.head?).Sublist cs.flatten
  | [] => by simp
  | [] :: cs => by
    simp only [List.filterMap_cons, List.head?_nil, List.flatten_cons, List.nil_append]
    exact heads_sublist_flatten cs
  | (a :: l) :: cs => by
    simp only [List.filterMap_cons, List.head?_cons, List.flatten_cons, List.cons_append]
    exact List.Sublist.cons_cons a ((heads_sublist_flatten cs).trans (List.sublist_append_right l _))

/-- for a duplicate-free set made up of whole chains, its members without partner across the phrase are — up to order —
    the heads of the chains -/
theorem firsts_perm_heads (across back : Inst → Option Inst) (set : List Inst) (chains : List (List Inst))
    (hset : set.Nodup) (hch : ∀ c ∈ chains, IsChain across back c) (hnd : chains.flatten.Nodup)
    (hmem : ∀ x, x ∈ set ↔ x ∈ chains.flatten) :
    (set.filter (fun x => (across x).isNone)).Perm (chains.filterMap List.head?) := by
  refine (List.perm_ext_iff_of_nodup (List.filter_sublist.nodup hset)
    ((heads_sublist_flatten chains).nodup hnd)).mpr ?_
  intro x
  simp only [List.mem_filter, List.mem_filterMap, Option.isNone_iff_eq_none]
  constructor
  · rintro ⟨hx, hn⟩
    obtain ⟨c, hc, hxc⟩ := List.mem_flatten.mp ((hmem x).1 hx)
    exact ⟨c, hc, ((hch c hc).none_iff_head hxc).1 hn⟩
  · rintro ⟨c, hc, hh⟩
    have hxc : x ∈ c := List.mem_of_mem_head? hh
    exact ⟨(hmem x).2 (List.mem_flatten.mpr ⟨c, hc, hxc⟩), (hch c hc).head x hh⟩

/-- the listing `sort_chains` asks for exists: some permutation of the given chains lists them in the set-order of
    their heads -/
theorem chains_listing_exists (across back : Inst → Option Inst) (set : List Inst) (chains : List (List Inst))
    (hset : set.Nodup) (hch : ∀ c ∈ chains, IsChain across back c) (hnd : chains.flatten.Nodup)
    (hmem : ∀ x, x ∈ set ↔ x ∈ chains.flatten) :
    ∃ chains' : List (List Inst), chains'.Perm chains ∧
      set.filter (fun x => (across x).isNone) = chains'.filterMap List.head? := by
  obtain ⟨cs', hp, he⟩ := exists_perm_filterMap_eq List.head? _ chains
    (firsts_perm_heads across back set chains hset hch hnd hmem)
  exact ⟨cs', hp, he.symm⟩

end Pyx.Reflexive
