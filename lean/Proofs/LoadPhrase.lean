import Proofs.LoadApi

/-! C03: for which associations the batch relate of `MetaClass.new` resolves its link to the association itself
    (the open finding `api-phrased-direction`, as a statement about `_find_link`). -/

namespace Pyx.Load

/-- no two links are filed under the same key of a class's `links` dict -/
def LinkKeysOk (as : List AssocStmt) : Prop := (as.flatMap linkKeys).Nodup

theorem flatMap_nodup_disjoint {α β : Type} (f : α → List β) (l : List α) (h : (l.flatMap f).Nodup)
    (m n : Nat) (a b : α) (hm : l[m]? = some b) (hn : l[n]? = some a) (hlt : m < n) :
    ∀ x ∈ f b, x ∉ f a := by
  induction l generalizing m n with
  | nil => simp at hm
  | cons y ys ih =>
    simp only [List.flatMap_cons] at h
    have hnd := List.nodup_append.mp h
    cases m with
    | zero =>
      simp only [List.getElem?_cons_zero, Option.some.injEq] at hm
      subst hm
      cases n with
      | zero => omega
      | succ n =>
        simp only [List.getElem?_cons_succ] at hn
        intro x hx hxa
        have : x ∈ ys.flatMap f := List.mem_flatMap.mpr ⟨a, List.mem_of_getElem? hn, hxa⟩
        exact hnd.2.2 x hx x this rfl
    | succ m =>
      cases n with
      | zero => omega
      | succ n =>
        simp only [List.getElem?_cons_succ] at hm hn
        exact ih hnd.2.1 m n hm hn (by omega)

theorem flatMap_nodup_self {α β : Type} (f : α → List β) (l : List α) (h : (l.flatMap f).Nodup)
    (n : Nat) (a : α) (hn : l[n]? = some a) : (f a).Nodup := by
  induction l generalizing n with
  | nil => simp at hn
  | cons y ys ih =>
    simp only [List.flatMap_cons] at h
    have hnd := List.nodup_append.mp h
    cases n with
    | zero =>
      simp only [List.getElem?_cons_zero, Option.some.injEq] at hn
      subst hn; exact hnd.1
    | succ n =>
      simp only [List.getElem?_cons_succ] at hn
      exact ih hnd.2.1 n hn

/-- what an answer of `_find_link` says about the association it names -/
theorem findLinkFrom_some (k1 k2 rel phrase : String) (l : List AssocStmt) :
    ∀ (off m : Nat) (sw : Bool), findLinkFrom k1 k2 rel phrase off l = some (m, sw) →
      ∃ b, off ≤ m ∧ l[m - off]? = some b ∧ b.rel = rel ∧
        (sw = false → b.tgtKind = k1 ∧ b.srcKind = k2 ∧ b.tgtPhrase = phrase) ∧
        (sw = true → b.srcKind = k1 ∧ b.tgtKind = k2 ∧ b.srcPhrase = phrase) := by
  induction l with
  | nil => intro off m sw h; simp [findLinkFrom] at h
  | cons b rest ih =>
    intro off m sw h
    have step : findLinkFrom k1 k2 rel phrase (off + 1) rest = some (m, sw) →
        ∃ c, off ≤ m ∧ (b :: rest)[m - off]? = some c ∧ c.rel = rel ∧
          (sw = false → c.tgtKind = k1 ∧ c.srcKind = k2 ∧ c.tgtPhrase = phrase) ∧
          (sw = true → c.srcKind = k1 ∧ c.tgtKind = k2 ∧ c.srcPhrase = phrase) := by
      intro h'
      obtain ⟨c, hle, hc, hrest⟩ := ih (off + 1) m sw h'
      refine ⟨c, by omega, ?_, hrest⟩
      have : m - off = (m - (off + 1)) + 1 := by omega
      rw [this, List.getElem?_cons_succ]; exact hc
    unfold findLinkFrom at h
    by_cases hr : b.rel ≠ rel
    · rw [if_pos hr] at h; exact step h
    · have hr' : b.rel = rel := Classical.not_not.mp hr
      rw [if_neg hr] at h
      by_cases h1 : b.tgtKind = k1 ∧ b.srcKind = k2 ∧ b.tgtPhrase = phrase
      · rw [if_pos h1] at h
        simp only [Option.some.injEq, Prod.mk.injEq] at h
        obtain ⟨hm, hsw⟩ := h
        subst hm; subst hsw
        refine ⟨b, Nat.le_refl _, by simp, hr', fun _ => h1, fun hh => ?_⟩
        cases hh
      · rw [if_neg h1] at h
        by_cases h2 : b.srcKind = k1 ∧ b.tgtKind = k2 ∧ b.srcPhrase = phrase
        · rw [if_pos h2] at h
          simp only [Option.some.injEq, Prod.mk.injEq] at h
          obtain ⟨hm, hsw⟩ := h
          subst hm; subst hsw
          refine ⟨b, Nat.le_refl _, by simp, hr', fun hh => ?_, fun _ => h2⟩
          cases hh
        · rw [if_neg h2] at h; exact step h

/-- `_find_link` scans the associations in order: the first one with the relationship number that passes one of
    the two tests decides -/
theorem findLinkFrom_first (k1 k2 rel phrase : String) (l : List AssocStmt) (n : Nat) (a : AssocStmt)
    (hn : l[n]? = some a) (hrel : a.rel = rel)
    (hbefore : ∀ m b, m < n → l[m]? = some b → b.rel = rel →
      ¬ (b.tgtKind = k1 ∧ b.srcKind = k2 ∧ b.tgtPhrase = phrase) ∧ ¬ (b.srcKind = k1 ∧ b.tgtKind = k2 ∧ b.srcPhrase = phrase)) :
    ∀ off, findLinkFrom k1 k2 rel phrase off l =
      if a.tgtKind = k1 ∧ a.srcKind = k2 ∧ a.tgtPhrase = phrase then some (off + n, false)
      else if a.srcKind = k1 ∧ a.tgtKind = k2 ∧ a.srcPhrase = phrase then some (off + n, true)
      else findLinkFrom k1 k2 rel phrase (off + n + 1) (l.drop (n + 1)) := by
  induction l generalizing n with
  | nil => simp at hn
  | cons b rest ih =>
    intro off
    cases n with
    | zero =>
      simp only [List.getElem?_cons_zero, Option.some.injEq] at hn
      subst hn
      have : ¬ b.rel ≠ rel := fun h => h hrel
      rw [findLinkFrom, if_neg this]
      simp only [Nat.add_zero, List.drop_succ_cons, List.drop_zero]
    | succ n =>
      simp only [List.getElem?_cons_succ] at hn
      have hb := hbefore 0 b (by omega) rfl
      have hrec := ih n hn (fun m c hm hc => hbefore (m + 1) c (by omega) (by simpa using hc)) (off + 1)
      have e1 : off + 1 + n = off + (n + 1) := by omega
      rw [e1] at hrec
      rw [findLinkFrom, List.drop_succ_cons]
      by_cases hr : b.rel ≠ rel
      · rw [if_pos hr]; exact hrec
      · have hr' : b.rel = rel := Classical.not_not.mp hr
        obtain ⟨hb1, hb2⟩ := hb hr'
        rw [if_neg hr, if_neg hb1, if_neg hb2]
        exact hrec

/-- **the finding, exactly**: with link keys that do not clash, the link `new` asks `_find_link` for — the referred
    instance first, the new instance second, the phrase of the link that starts at the NEW instance's class — is
    resolved to the association itself in the right orientation if and only if the association's two ends carry
    the same phrase. -/
theorem resolves_iff_same_phrase (as : List AssocStmt) (hk : LinkKeysOk as) (n : Nat) (a : AssocStmt)
    (hn : as[n]? = some a) : ResolvesAt as n a ↔ a.srcPhrase = a.tgtPhrase := by
  constructor
  · intro h
    unfold ResolvesAt findLink at h
    obtain ⟨b, _, hb, _, h1, _⟩ := findLinkFrom_some _ _ _ _ as 0 n false h
    simp only [Nat.sub_zero] at hb
    rw [hn] at hb
    cases hb
    exact ((h1 rfl).2.2).symm
  · intro hph
    unfold ResolvesAt findLink
    rw [findLinkFrom_first a.tgtKind a.srcKind a.rel a.srcPhrase as n a hn rfl ?_ 0]
    · simp [hph]
    · -- an earlier association passing one of the tests would be filed under one of `a`'s link keys
      intro m b hm hb hrel
      have hdis := flatMap_nodup_disjoint linkKeys as hk m n a b hb hn hm
      constructor
      · rintro ⟨h1, h2, h3⟩
        apply hdis (b.tgtKind, b.srcKind, b.rel, b.tgtPhrase) (by simp [linkKeys])
        simp [linkKeys, h1, h2, h3, hrel, hph]
      · rintro ⟨h1, h2, h3⟩
        apply hdis (b.srcKind, b.tgtKind, b.rel, b.srcPhrase) (by simp [linkKeys])
        simp [linkKeys, h1, h2, h3, hrel, hph]

/-- a reflexive association never resolves (its two ends must carry different phrases) ... -/
theorem reflexive_not_resolved (as : List AssocStmt) (hk : LinkKeysOk as) (n : Nat) (a : AssocStmt)
    (hn : as[n]? = some a) (hrefl : a.srcKind = a.tgtKind) : ¬ ResolvesAt as n a := by
  rw [resolves_iff_same_phrase as hk n a hn]
  intro hph
  have := flatMap_nodup_self linkKeys as hk n a hn
  simp [linkKeys, hrefl, hph] at this

/-- ... and, when it is the only association with its relationship number, `_find_link` answers with the association
    SWAPPED: the new (referring) row is connected as the referred one — the link is made in the reverse direction -/
theorem reflexive_reversed (as : List AssocStmt) (hk : LinkKeysOk as) (n : Nat) (a : AssocStmt)
    (hn : as[n]? = some a) (hrefl : a.srcKind = a.tgtKind)
    (honly : ∀ m b, as[m]? = some b → b.rel = a.rel → m = n) :
    findLink as a.tgtKind a.srcKind a.rel a.srcPhrase = some (n, true) := by
  have hne : a.srcPhrase ≠ a.tgtPhrase := by
    intro hph
    exact reflexive_not_resolved as hk n a hn hrefl ((resolves_iff_same_phrase as hk n a hn).mpr hph)
  unfold findLink
  rw [findLinkFrom_first a.tgtKind a.srcKind a.rel a.srcPhrase as n a hn rfl ?_ 0]
  · have h1 : ¬ (a.tgtKind = a.tgtKind ∧ a.srcKind = a.srcKind ∧ a.tgtPhrase = a.srcPhrase) := fun h => hne h.2.2.symm
    rw [if_neg h1, if_pos ⟨hrefl, hrefl.symm, rfl⟩]
    simp
  · intro m b hm hb hrel
    have := honly m b hb hrel
    omega

/-- a non-reflexive association whose ends carry different phrases, alone with its relationship number: `_find_link`
    finds nothing — `new` raises UnknownLinkException as soon as a referred row matches -/
theorem phrased_unknown (as : List AssocStmt) (n : Nat) (a : AssocStmt)
    (hn : as[n]? = some a) (hnr : a.srcKind ≠ a.tgtKind) (hph : a.srcPhrase ≠ a.tgtPhrase)
    (honly : ∀ m b, as[m]? = some b → b.rel = a.rel → m = n) :
    findLink as a.tgtKind a.srcKind a.rel a.srcPhrase = none := by
  cases h : findLink as a.tgtKind a.srcKind a.rel a.srcPhrase with
  | none => rfl
  | some r =>
    obtain ⟨m, sw⟩ := r
    unfold findLink at h
    obtain ⟨b, _, hb, hrel, h1, h2⟩ := findLinkFrom_some _ _ _ _ as 0 m sw h
    simp only [Nat.sub_zero] at hb
    have hm := honly m b hb hrel
    subst hm
    rw [hn] at hb
    cases hb
    cases sw with
    | false => exact absurd ((h1 rfl).2.2).symm hph
    | true => exact absurd (h2 rfl).1 hnr

/-- all associations resolve exactly when every association carries the same phrase on both ends -/
theorem resolves_all_iff (as : List AssocStmt) (hk : LinkKeysOk as) :
    (∀ n a, as[n]? = some a → ResolvesAt as n a) ↔ ∀ a ∈ as, a.srcPhrase = a.tgtPhrase := by
  constructor
  · intro h a ha
    obtain ⟨n, hn⟩ := List.getElem?_of_mem ha
    exact (resolves_iff_same_phrase as hk n a hn).mp (h n a hn)
  · intro h n a hn
    exact (resolves_iff_same_phrase as hk n a hn).mpr (h a (List.mem_of_getElem? hn))

theorem linkKeysOk_of_inDomain (ss : List Stmt) (h : inDomain ss = true) : LinkKeysOk (popAssocs ss) := by
  unfold inDomain at h
  simp only [Bool.and_eq_true, decide_eq_true_eq] at h
  exact h.1.1.2

/-- the call `relate(referred j, new i, rel, phrase)` that `new` makes for a reflexive association (alone with its
    relationship number) connects the two instances the wrong way round: `j` as the referring, `i` as the referred -/
theorem relate_reflexive_reversed (m : Model) (hk : LinkKeysOk (m.assocs.map (·.1))) (n : Nat) (a : AssocStmt)
    (L : Links) (hn : m.assocs[n]? = some (a, L)) (hrefl : a.srcKind = a.tgtKind)
    (honly : ∀ k b, (m.assocs.map (·.1))[k]? = some b → b.rel = a.rel → k = n) (j i : Nat) :
    relate m a.tgtKind j a.srcKind i a.rel a.srcPhrase =
      ({ m with assocs := updateAt m.assocs n (fun p => (p.1, (relateAt a L i j).1)) },
       if (relateAt a L i j).2 then .ok else .relateError) := by
  have hn' : (m.assocs.map (·.1))[n]? = some a := by simp [hn]
  unfold relate
  rw [reflexive_reversed _ hk n a hn' hrefl honly]
  simp only [hn, if_true]

/-- ... and for a non-reflexive association with different phrases (alone with its relationship number) it raises
    UnknownLinkException, whatever the instances -/
theorem relate_phrased_unknown (m : Model) (n : Nat) (a : AssocStmt)
    (hn : (m.assocs.map (·.1))[n]? = some a) (hnr : a.srcKind ≠ a.tgtKind) (hph : a.srcPhrase ≠ a.tgtPhrase)
    (honly : ∀ k b, (m.assocs.map (·.1))[k]? = some b → b.rel = a.rel → k = n) (j i : Nat) :
    relate m a.tgtKind j a.srcKind i a.rel a.srcPhrase = (m, .unknownLink) := by
  unfold relate
  rw [phrased_unknown _ n a hn hnr hph honly]

end Pyx.Load
