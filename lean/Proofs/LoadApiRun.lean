import Proofs.LoadChain

/-! Helper lemmas for C03, part 6: a whole population created through `new`, referred rows first. -/

namespace Pyx.Load

/-- declared attributes of a kind -/
def attrsOf (ss : List Stmt) (k : String) : List (String × Ty) :=
  match findCls (popClasses ss) k with
  | some c => c.attrs
  | none => []

/-- the row a positional INSERT (or `new` with the same arguments) denotes -/
def rawRow (ss : List Stmt) (o : String × List Val) : Row := mkRow (attrsOf ss o.1) none o.2

/-- the rows of one kind among the rows created so far, in creation order -/
def rawRows (ss : List Stmt) (order : List (String × List Val)) (k : String) : List Row :=
  (order.filter (fun o => o.1 = k)).map (rawRow ss)

/-- the INSERT statements with the values of the rows -/
def insertsOf (order : List (String × List Val)) : List Stmt := order.map (fun o => Stmt.insert o.1 none o.2)

/-- the metamodel the loader builds from the schema statements followed by the INSERTs of the rows -/
def loaded (ss : List Stmt) (order : List (String × List Val)) : Model := buildCore (ss ++ insertsOf order)

theorem rawRows_snoc (ss : List Stmt) (pre : List (String × List Val)) (o : String × List Val) (k : String) :
    rawRows ss (pre ++ [o]) k = rawRows ss pre k ++ (if o.1 = k then [rawRow ss o] else []) := by
  unfold rawRows
  by_cases h : o.1 = k <;> simp [List.filter_append, h]

theorem rawRows_append (ss : List Stmt) (l1 l2 : List (String × List Val)) (k : String) :
    rawRows ss (l1 ++ l2) k = rawRows ss l1 k ++ rawRows ss l2 k := by
  unfold rawRows
  simp [List.filter_append]

theorem rawRows_nil_of_not_mem (ss : List Stmt) (l : List (String × List Val)) (k : String)
    (h : ∀ o ∈ l, o.1 ≠ k) : rawRows ss l k = [] := by
  unfold rawRows
  have : l.filter (fun o => o.1 = k) = [] := by
    rw [List.filter_eq_nil_iff]
    intro o ho
    simpa using h o ho
  rw [this]; rfl

theorem rowsOf_addRow (cs : List Cls) (k : String) (r : Row) (k' : String) :
    rowsOf (addRow cs k r) k' =
      if k' = k then (match findCls cs k with | some c => c.rows ++ [r] | none => []) else rowsOf cs k' := by
  unfold rowsOf
  rw [findCls_addRow]
  by_cases h : k' = k
  · subst h
    cases findCls cs k' <;> simp
  · simp only [h, if_false]
    cases findCls cs k' <;> simp

theorem selectIdx_append {α : Type} (n : Nat) (l1 l2 : List α) (c : α → Bool) :
    selectIdx n (l1 ++ l2) c = selectIdx n l1 c ++ selectIdx (n + l1.length) l2 c := by
  unfold selectIdx
  rw [enumFrom_append, List.filterMap_append]

/-- one step per attribute of a class, plus one per class -/
def attrSum (cs : List Cls) : Nat := (cs.map (fun c => c.attrs.length + 1)).sum

/-- the depth the guards about reads speak of: the number of (class, attribute) pairs of the schema plus the number
    of classes (every intermediate state of the API route gives a read more fuel than this: `attrSum_lt_fuelOf`) -/
def readBound (ss : List Stmt) : Nat := attrSum (popClasses ss)

theorem attrSum_map_rows (cs : List Cls) (f : Cls → Cls) (h : ∀ c, (f c).attrs = c.attrs) :
    attrSum (cs.map f) = attrSum cs := by
  unfold attrSum
  rw [List.map_map]
  congr 1
  apply List.map_congr_left
  intro c _
  simp [h c]

theorem attrSum_addRow (cs : List Cls) (k : String) (r : Row) : attrSum (addRow cs k r) = attrSum cs := by
  unfold addRow
  apply attrSum_map_rows
  intro c; by_cases h : c.kind = k <;> simp [h]

theorem attrSum_append (l1 l2 : List Cls) : attrSum (l1 ++ l2) = attrSum l1 + attrSum l2 := by
  simp [attrSum]

theorem attrSum_lt_fuelOf (m : Model) : attrSum m.classes + 1 ≤ fuelOf m := by
  unfold fuelOf attrSum
  have : ∀ cs : List Cls, (cs.map (fun c => c.attrs.length + 1)).sum ≤
      (cs.map (fun c => (c.rows.length + 1) * (c.attrs.length + 1))).sum := by
    intro cs
    induction cs with
    | nil => simp
    | cons c cs ih =>
      simp only [List.map_cons, List.sum_cons]
      have : c.attrs.length + 1 ≤ (c.rows.length + 1) * (c.attrs.length + 1) := Nat.le_mul_of_pos_left _ (by omega)
      omega
  have := this m.classes
  omega

/-- the guards of `api_equiv` -/
structure ApiGuards (ss : List Stmt) (order : List (String × List Val)) : Prop where
  /-- the statements are the schema; the rows come through `new` -/
  schemaOnly : ∀ s ∈ ss, ∀ k ns vs, s ≠ .insert k ns vs
  accepted : accepted ss = true
  /-- key lists without repeats, of equal non-zero length; no reflexive association -/
  keys : ∀ a ∈ popAssocs ss, KeysOk a ∧ a.srcKeys.length = a.tgtKeys.length ∧ a.srcKeys ≠ [] ∧ a.srcKind ≠ a.tgtKind
  /-- chained keys (an identifying attribute that is itself referential in its class is read through the chain of
      referential properties): on the loaded metamodel every attribute read ends within `readBound ss` steps — the
      number of (class, attribute) pairs plus the number of classes; a SUFFICIENT condition for "no cyclic chain of
      key attributes" that depends on the schema only (`fuelOf_sufficient`: a read that ends at all ends within
      `fuelOf`, the bound the model runs with) ... -/
  readsTerminate : ∀ k i x, i < (rawRows ss order k).length →
    (readAttr (loaded ss order) (readBound ss) k i x).isSome = true
  /-- ... and the identifying values of a referred row that some row refers to can be read back (the referred row's
      own references are not dangling) -/
  resolved : ∀ a ∈ popAssocs ss, ∀ (i j : Nat) s t, (rawRows ss order a.srcKind)[i]? = some s →
    (rawRows ss order a.tgtKind)[j]? = some t → matchesB a s t = true →
    ∀ tk ∈ a.tgtKeys, readAttr (loaded ss order) (readBound ss) a.tgtKind j tk = some (t.get tk)
  /-- referential attributes are declared attributes of the referring class -/
  srcDeclared : ∀ a ∈ popAssocs ss, ∀ k ∈ a.srcKeys, k ∈ (attrsOf ss a.srcKind).map (·.1)
  /-- `_find_link(referred, referring, rel, link.phrase)` answers with the association itself, unswapped -/
  resolves : ∀ n a, (popAssocs ss)[n]? = some a → ResolvesAt (popAssocs ss) n a
  /-- every row is of a declared class and carries one value per attribute -/
  declared : ∀ o ∈ order, (findCls (popClasses ss) o.1).isSome = true ∧ o.2.length = (attrsOf ss o.1).length
  /-- referred rows first: when a row of a referred class is created, no row created before it refers to it
      (every referred ROW is created before the rows referring to it — a topological order of the rows) -/
  referredFirst : ∀ a ∈ popAssocs ss, ∀ pre o suf, order = pre ++ o :: suf → o.1 = a.tgtKind →
    ∀ s ∈ rawRows ss pre a.srcKind, matchesB a s (rawRow ss o) = false
  /-- no cardinality-violating duplicates -/
  cardSrc : ∀ a ∈ popAssocs ss, a.srcMany = false → ∀ t ∈ rawRows ss order a.tgtKind,
    (selectIdx 0 (rawRows ss order a.srcKind) (fun s => matchesB a s t)).length ≤ 1
  cardTgt : ∀ a ∈ popAssocs ss, a.tgtMany = false → ∀ s ∈ rawRows ss order a.srcKind,
    (selectIdx 0 (rawRows ss order a.tgtKind) (fun t => matchesB a s t)).length ≤ 1

/-- the state after the rows `pre` have been created -/
structure ApiInv (ss : List Stmt) (pre : List (String × List Val)) (m : Model) : Prop where
  attrs : ∀ k, (findCls m.classes k).map (·.attrs) = (findCls (popClasses ss) k).map (·.attrs)
  rows : ∀ k, rowsOf m.classes k = (rawRows ss pre k).map (stripRow (referential (popAssocs ss) k))
  assocs : m.assocs = (popAssocs ss).map (fun a =>
    (a, nestedJoin a (rawRows ss pre a.srcKind) (rawRows ss pre a.tgtKind)))
  ncls : m.classes.length = (popClasses ss).length
  asum : attrSum m.classes = readBound ss

theorem map_fst_assocs (ss : List Stmt) (f : AssocStmt → Links) :
    ((popAssocs ss).map (fun a => (a, f a))).map (·.1) = popAssocs ss := by
  simp [List.map_map, Function.comp_def]

theorem names_mkRow_none (attrs : List (String × Ty)) (vs : List Val) (h : vs.length = attrs.length) :
    (mkRow attrs none vs).map (·.1) = attrs.map (·.1) := by
  simp only [mkRow, List.map_map]
  induction attrs generalizing vs with
  | nil => simp
  | cons x xs ih =>
    cases vs with
    | nil => simp at h
    | cons v vs =>
      simp only [List.length_cons, Nat.add_right_cancel_iff] at h
      simp [ih vs h]

/-- a new referred row that no existing referring row matches changes no link -/
theorem nestedJoin_snoc_tgt_nomatch (a : AssocStmt) (S T : List Row) (t : Row)
    (h : ∀ s ∈ S, matchesB a s t = false) : nestedJoin a S (T ++ [t]) = nestedJoin a S T := by
  apply Links.ext'
  · intro j
    simp only [nestedJoin]
    by_cases hlt : j < T.length
    · rw [List.getElem?_append_left hlt]
    · by_cases hj : j = T.length
      · subst hj
        have h2 : T[T.length]? = none := by simp
        have hsel := selectIdx_congr 0 S (fun s => matchesB a s t) (fun _ => false) h
        rw [selectIdx_false] at hsel
        unfold selectIdx at hsel
        simp [h2, hsel]
      · have h1 : (T ++ [t])[j]? = none := by
          rw [List.getElem?_eq_none_iff]; simp; omega
        have h2 : T[j]? = none := by
          rw [List.getElem?_eq_none_iff]; omega
        simp [h1, h2]
  · intro i
    simp only [nestedJoin]
    cases hs : S[i]? with
    | none => rfl
    | some s =>
      simp only
      have hsel := selectIdx_append_singleton 0 T t (fun x => matchesB a s x)
      unfold selectIdx at hsel
      rw [hsel, h s (List.mem_of_getElem? hs)]
      simp

theorem nestedJoin_tgt_out (a : AssocStmt) (S T : List Row) : (nestedJoin a S T).tgt S.length = [] := by
  simp [nestedJoin]

theorem mem_nestedJoin_src_lt (a : AssocStmt) (S T : List Row) (j i : Nat) (h : i ∈ (nestedJoin a S T).src j) :
    i < S.length := by
  obtain ⟨s, _, hs, _, _⟩ := (mem_nestedJoin_src a S T i j).mp h
  exact (List.getElem?_eq_some_iff.mp hs).1

end Pyx.Load

namespace Pyx.Load

/-- the arguments of `new` paired with the attribute names -/
def newGiven (c : Cls) (vs : List Val) : Row := (c.attrs.zip vs).map (fun p => (p.1.1, p.2))

def withRow (m : Model) (kind : String) (r : Row) : Model := { m with classes := addRow m.classes kind r }

/-- `MetaClass.new` in one formula, given what `relateLinks` needs to know about every association -/
theorem apiNew_eq (m : Model) (kind : String) (vs : List Val) (c : Cls) (hc : findCls m.classes kind = some c)
    (rowsRaw : String → List Row)
    (hready : ∀ q p, m.assocs[q]? = some p →
      LinkReady (m.assocs.map (·.1)) kind (newGiven c vs) c.rows.length
        (withRow m kind (stripRow (referential (m.assocs.map (·.1)) kind) (newGiven c vs))) rowsRaw q p.1 p.2) :
    apiNew m kind vs =
      (⟨addRow m.classes kind (stripRow (referential (m.assocs.map (·.1)) kind) (newGiven c vs)),
        m.assocs.map (stepAssoc kind (newGiven c vs) c.rows.length rowsRaw)⟩, .ok) := by
  unfold apiNew
  simp only [hc]
  show (if ((newGiven c vs).filter (fun p => (referential (m.assocs.map (·.1)) kind).contains p.1)).isEmpty = true then _ else _) = _
  by_cases hemp : ((newGiven c vs).filter (fun p => (referential (m.assocs.map (·.1)) kind).contains p.1)).isEmpty
  · simp only [hemp, if_true]
    -- no association has the new row's class as its referring class
    have hid : ∀ p ∈ m.assocs, stepAssoc kind (newGiven c vs) c.rows.length rowsRaw p = p := by
      intro p hp
      unfold stepAssoc
      by_cases hk : p.1.srcKind = kind
      · exfalso
        obtain ⟨q, hq⟩ := List.getElem?_of_mem hp
        have hr := hready q p hq
        cases hs : p.1.srcKeys with
        | nil => exact hr.ne hs
        | cons sk rest =>
          have hsk : sk ∈ p.1.srcKeys := by rw [hs]; exact List.mem_cons_self
          have h1 := hr.given hk sk hsk
          have h2 : sk ∈ referential (m.assocs.map (·.1)) kind := by
            rw [← hk]; exact mem_referential hr.mem hsk
          obtain ⟨x, hx, hxk⟩ := List.mem_map.mp h1
          have : x ∈ (newGiven c vs).filter (fun p => (referential (m.assocs.map (·.1)) kind).contains p.1) := by
            rw [List.mem_filter]
            exact ⟨hx, by simpa [hxk] using h2⟩
          rw [List.isEmpty_iff] at hemp
          rw [hemp] at this
          cases this
      · simp [hk]
    have hmap : m.assocs.map (stepAssoc kind (newGiven c vs) c.rows.length rowsRaw) = m.assocs := by
      rw [List.map_congr_left hid, List.map_id']
    rw [hmap]
    rfl
  · simp only [hemp, Bool.false_eq_true, if_false]
    have := relateLinks_spec kind (newGiven c vs) c.rows.length rowsRaw
      (m.assocs.map (·.1)) (withRow m kind (stripRow (referential (m.assocs.map (·.1)) kind) (newGiven c vs)))
      m.assocs []
      (withRow m kind (stripRow (referential (m.assocs.map (·.1)) kind) (newGiven c vs)))
      (by simp [withRow]) (by simp) (Agrees.refl _ _ _) (by intro q p hq; simpa using hready q p hq)
    refine Eq.trans this ?_
    simp [withRow]

end Pyx.Load

namespace Pyx.Load

/-! ### the same rows loaded from INSERT statements -/


theorem popClasses_inserts (order : List (String × List Val)) : popClasses (insertsOf order) = [] := by
  unfold popClasses insertsOf
  induction order with
  | nil => rfl
  | cons o os ih => simpa [List.filterMap_cons] using ih

theorem popAssocs_inserts (order : List (String × List Val)) : popAssocs (insertsOf order) = [] := by
  unfold popAssocs insertsOf
  induction order with
  | nil => rfl
  | cons o os ih => simpa [List.filterMap_cons] using ih

theorem uniqOf_inserts (order : List (String × List Val)) (k : String) : uniqOf (insertsOf order) k = [] := by
  unfold uniqOf insertsOf
  induction order with
  | nil => rfl
  | cons o os ih => simpa [List.filterMap_cons] using ih

theorem insOf_inserts (order : List (String × List Val)) (k : String) :
    insOf (insertsOf order) k = (order.filter (fun o => o.1 = k)).map (fun o => (none, o.2)) := by
  unfold insOf insertsOf
  induction order with
  | nil => rfl
  | cons o os ih =>
    by_cases h : o.1 = k
    · simp [List.filterMap_cons, List.filter_cons, h]
      simpa using ih
    · simp [List.filterMap_cons, List.filter_cons, h]
      simpa using ih

theorem insOf_schema (ss : List Stmt) (h : ∀ s ∈ ss, ∀ k ns vs, s ≠ .insert k ns vs) (k : String) : insOf ss k = [] := by
  unfold insOf
  rw [List.filterMap_eq_nil_iff]
  intro s hs
  cases s with
  | insert k' ns vs => exact absurd rfl (h _ hs k' ns vs)
  | cls _ _ => rfl
  | assoc _ => rfl
  | uniq _ _ _ => rfl

theorem popClasses_append (s1 s2 : List Stmt) : popClasses (s1 ++ s2) = popClasses s1 ++ popClasses s2 := by
  unfold popClasses; rw [List.filterMap_append]

theorem popAssocs_append (s1 s2 : List Stmt) : popAssocs (s1 ++ s2) = popAssocs s1 ++ popAssocs s2 := by
  unfold popAssocs; rw [List.filterMap_append]

theorem insOf_append (s1 s2 : List Stmt) (k : String) : insOf (s1 ++ s2) k = insOf s1 k ++ insOf s2 k := by
  unfold insOf; rw [List.filterMap_append]

/-- the loader's raw rows for schema + INSERTs are the rows the API route is given -/
theorem rowsOf_loaded (ss : List Stmt) (order : List (String × List Val)) (g : ApiGuards ss order) (k : String) :
    rowsOf (buildCore (ss ++ insertsOf order)).classes k = rawRows ss order k := by
  rw [rowsOf_buildCore]
  unfold clsSpec
  rw [popClasses_append, popClasses_inserts, List.append_nil, insOf_append, insOf_schema ss g.schemaOnly,
    List.nil_append, insOf_inserts]
  cases hc : findCls (popClasses ss) k with
  | some c =>
    simp only [rawRows, List.map_map]
    apply List.map_congr_left
    intro o ho
    have hk : o.1 = k := by simpa using (List.mem_filter.mp ho).2
    simp [rawRow, attrsOf, hk, hc]
  | none =>
    simp only
    have hnil : order.filter (fun o => o.1 = k) = [] := by
      rw [List.filter_eq_nil_iff]
      intro o ho hk
      have := (g.declared o ho).1
      simp only [decide_eq_true_eq] at hk
      rw [hk, hc] at this
      cases this
    simp [rawRows, hnil]


end Pyx.Load

namespace Pyx.Load

/-! ### facts about the loaded metamodel, and reads of existing rows in the API states -/

theorem attrNames_eq (ss : List Stmt) (k : String) : attrNames (popClasses ss) k = (attrsOf ss k).map (·.1) := by
  unfold attrNames attrsOf
  cases findCls (popClasses ss) k <;> rfl

theorem tgtKeys_declared (ss : List Stmt) (hacc : accepted ss = true) (a : AssocStmt) (ha : a ∈ popAssocs ss) :
    ∀ tk ∈ a.tgtKeys, tk ∈ (attrsOf ss a.tgtKind).map (·.1) := by
  have hs : Stmt.assoc a ∈ ss := by
    unfold popAssocs at ha
    obtain ⟨s, hs, hsa⟩ := List.mem_filterMap.mp ha
    cases s with
    | assoc b => simp only [Option.some.injEq] at hsa; subst hsa; exact hs
    | cls _ _ => simp at hsa
    | uniq _ _ _ => simp at hsa
    | insert _ _ _ => simp at hsa
  unfold accepted at hacc
  simp only [Bool.and_eq_true, List.all_eq_true] at hacc
  have := hacc.2 _ hs
  simp only [Bool.and_eq_true, List.all_eq_true, List.contains_iff_mem] at this
  intro tk htk
  rw [← attrNames_eq]
  exact this.1.2 tk htk

/-- the loader's rows for schema + INSERTs, from the basic guards only -/
theorem loaded_rows' (ss : List Stmt) (order : List (String × List Val))
    (hschema : ∀ s ∈ ss, ∀ k ns vs, s ≠ .insert k ns vs)
    (hdecl : ∀ o ∈ order, (findCls (popClasses ss) o.1).isSome = true ∧ o.2.length = (attrsOf ss o.1).length)
    (k : String) : rowsOf (loaded ss order).classes k = rawRows ss order k := by
  unfold loaded
  rw [rowsOf_buildCore]
  unfold clsSpec
  rw [popClasses_append, popClasses_inserts, List.append_nil, insOf_append, insOf_schema ss hschema,
    List.nil_append, insOf_inserts]
  cases hc : findCls (popClasses ss) k with
  | some c =>
    simp only [rawRows, List.map_map]
    apply List.map_congr_left
    intro o ho
    have hk : o.1 = k := by simpa using (List.mem_filter.mp ho).2
    simp [rawRow, attrsOf, hk, hc]
  | none =>
    simp only
    have hnil : order.filter (fun o => o.1 = k) = [] := by
      rw [List.filter_eq_nil_iff]
      intro o ho hk
      have := (hdecl o ho).1
      simp only [decide_eq_true_eq] at hk
      rw [hk, hc] at this
      cases this
    simp [rawRows, hnil]

theorem loaded_assocs' (ss : List Stmt) (order : List (String × List Val))
    (hschema : ∀ s ∈ ss, ∀ k ns vs, s ≠ .insert k ns vs)
    (hkeys : ∀ a ∈ popAssocs ss, KeysOk a)
    (hdecl : ∀ o ∈ order, (findCls (popClasses ss) o.1).isSome = true ∧ o.2.length = (attrsOf ss o.1).length) :
    (loaded ss order).assocs = (popAssocs ss).map (fun a =>
      (a, nestedJoin a (rawRows ss order a.srcKind) (rawRows ss order a.tgtKind))) := by
  have hk : ∀ a ∈ popAssocs (ss ++ insertsOf order), KeysOk a := by
    intro a ha
    rw [popAssocs_append, popAssocs_inserts, List.append_nil] at ha
    exact hkeys a ha
  have hr := loaded_rows' ss order hschema hdecl
  unfold loaded at hr ⊢
  rw [buildCore_assocs _ hk, popAssocs_append, popAssocs_inserts, List.append_nil]
  simp only [hr]

section loadedFacts
variable (ss : List Stmt) (order : List (String × List Val)) (g : ApiGuards ss order)
include g

theorem loaded_assocs :
    (loaded ss order).assocs = (popAssocs ss).map (fun a =>
      (a, nestedJoin a (rawRows ss order a.srcKind) (rawRows ss order a.tgtKind))) := by
  have hk : ∀ a ∈ popAssocs (ss ++ insertsOf order), KeysOk a := by
    intro a ha
    rw [popAssocs_append, popAssocs_inserts, List.append_nil] at ha
    exact (g.keys a ha).1
  unfold loaded
  rw [buildCore_assocs _ hk, popAssocs_append, popAssocs_inserts, List.append_nil]
  simp only [rowsOf_loaded ss order g]

theorem loaded_assocs_fst : (loaded ss order).assocs.map (·.1) = popAssocs ss := by
  rw [loaded_assocs ss order g]; exact map_fst_assocs ss _

theorem loaded_rows (k : String) : rowsOf (loaded ss order).classes k = rawRows ss order k :=
  rowsOf_loaded ss order g k

/-- on the loaded metamodel a read that ends gives the value the INSERT wrote, or `None` -/
theorem readAttr_loaded_value : ∀ (f : Nat) (k : String) (u : Nat) (x : String) (r : Row) (v : Val),
    (rawRows ss order k)[u]? = some r → readAttr (loaded ss order) f k u x = some v → v = r.get x ∨ v = .none := by
  intro f
  induction f with
  | zero => intro k u x r v _ h; simp [readAttr] at h
  | succ f ih =>
    intro k u x r v hr h
    simp only [readAttr] at h
    by_cases hx : (referential ((loaded ss order).assocs.map (·.1)) k).contains x
    · simp only [hx, if_true] at h
      rcases readChain_cases (readAttr (loaded ss order) f) k u x (loaded ss order).assocs.reverse with
        ⟨h1, _⟩ | ⟨p, hp, hk, tk, j, hmem, hhead, hval⟩
      · rw [h1] at h; cases h; exact Or.inr rfl
      · rw [List.mem_reverse, loaded_assocs ss order g] at hp
        obtain ⟨a, ha, rfl⟩ := List.mem_map.mp hp
        simp only at hk hmem hhead hval
        have hj : j ∈ (nestedJoin a (rawRows ss order a.srcKind) (rawRows ss order a.tgtKind)).tgt u :=
          List.mem_of_mem_head? hhead
        obtain ⟨s, t, hs, ht, hm⟩ := (mem_nestedJoin_tgt a _ _ u j).mp hj
        rw [hk, hr] at hs
        cases hs
        rw [hval] at h
        have heq := ((matchesB_iff a r t).mp hm (x, tk) hmem).2
        simp only at heq
        rcases ih a.tgtKind j tk t v ht h with hv | hv
        · exact Or.inl (by rw [hv, heq])
        · exact Or.inr hv
    · simp only [hx, Bool.false_eq_true, if_false, Option.some.injEq] at h
      rw [loaded_rows ss order g, hr] at h
      exact Or.inl h.symm

/-- a referred row created later is not matched by a referring row that existed before it -/
theorem later_nomatch (pre suf : List (String × List Val)) (horder : order = pre ++ suf) (a : AssocStmt)
    (ha : a ∈ popAssocs ss) (s t : Row) (hs : s ∈ rawRows ss pre a.srcKind) (ht : t ∈ rawRows ss suf a.tgtKind) :
    matchesB a s t = false := by
  unfold rawRows at ht
  obtain ⟨r, hr, rfl⟩ := List.mem_map.mp ht
  obtain ⟨hrm, hrk⟩ := List.mem_filter.mp hr
  obtain ⟨s1, s2, hsplit⟩ := List.append_of_mem hrm
  have hord : order = (pre ++ s1) ++ r :: s2 := by rw [horder, hsplit]; simp
  apply g.referredFirst a ha (pre ++ s1) r s2 hord (by simpa using hrk)
  rw [rawRows_append]
  exact List.mem_append_left _ hs

/-- the referred rows of an existing referring row are the ones that existed when it was created -/
theorem final_tgt_eq (pre suf : List (String × List Val)) (horder : order = pre ++ suf) (a : AssocStmt)
    (ha : a ∈ popAssocs ss) (u : Nat) (hu : u < (rawRows ss pre a.srcKind).length) :
    (nestedJoin a (rawRows ss order a.srcKind) (rawRows ss order a.tgtKind)).tgt u =
      (nestedJoin a (rawRows ss pre a.srcKind) (rawRows ss pre a.tgtKind)).tgt u := by
  have hS : (rawRows ss order a.srcKind)[u]? = some (rawRows ss pre a.srcKind)[u] := by
    have e : rawRows ss order a.srcKind = rawRows ss pre a.srcKind ++ rawRows ss suf a.srcKind := by
      rw [horder, rawRows_append]
    rw [e, List.getElem?_append_left hu]
    exact List.getElem?_eq_getElem hu
  have hSp : (rawRows ss pre a.srcKind)[u]? = some (rawRows ss pre a.srcKind)[u] := List.getElem?_eq_getElem hu
  have eT : rawRows ss order a.tgtKind = rawRows ss pre a.tgtKind ++ rawRows ss suf a.tgtKind := by
    rw [horder, rawRows_append]
  simp only [nestedJoin, hS, hSp]
  rw [eT]
  have hsel := selectIdx_append 0 (rawRows ss pre a.tgtKind) (rawRows ss suf a.tgtKind)
    (fun t => matchesB a (rawRows ss pre a.srcKind)[u] t)
  unfold selectIdx at hsel
  rw [hsel]
  have hnil : selectIdx (0 + (rawRows ss pre a.tgtKind).length) (rawRows ss suf a.tgtKind)
      (fun t => matchesB a (rawRows ss pre a.srcKind)[u] t) = [] := by
    rw [selectIdx_congr _ _ _ (fun _ => false), selectIdx_false]
    intro t ht
    exact later_nomatch ss order g pre suf horder a ha _ t (List.getElem_mem hu) ht
  unfold selectIdx at hnil
  rw [hnil, List.append_nil]

theorem final_tgt_below (pre suf : List (String × List Val)) (horder : order = pre ++ suf) (a : AssocStmt)
    (ha : a ∈ popAssocs ss) (u : Nat) (hu : u < (rawRows ss pre a.srcKind).length) (j : Nat)
    (hj : j ∈ (nestedJoin a (rawRows ss order a.srcKind) (rawRows ss order a.tgtKind)).tgt u) :
    j < (rawRows ss pre a.tgtKind).length := by
  rw [final_tgt_eq ss order g pre suf horder a ha u hu] at hj
  obtain ⟨_, t, _, ht, _⟩ := (mem_nestedJoin_tgt a _ _ u j).mp hj
  exact (List.getElem?_eq_some_iff.mp ht).1

/-- a state of the API route in which the rows `pre` exist: same association statements as the schema, the
    stored rows of `pre`, and for every existing row the referred rows it has on the loaded metamodel -/
structure ConsBelow (pre : List (String × List Val)) (m' : Model) : Prop where
  stmts : m'.assocs.map (·.1) = popAssocs ss
  rows : ∀ k (u : Nat) r, (rawRows ss pre k)[u]? = some r →
    (rowsOf m'.classes k)[u]? = some (stripRow (referential (popAssocs ss) k) r)
  tgt : ∀ p' ∈ m'.assocs, ∀ u, u < (rawRows ss pre p'.1.srcKind).length →
    p'.2.tgt u = (nestedJoin p'.1 (rawRows ss order p'.1.srcKind) (rawRows ss order p'.1.tgtKind)).tgt u

/-- in such a state an existing row reads as on the loaded metamodel -/
theorem readAttr_cons (pre suf : List (String × List Val)) (horder : order = pre ++ suf) (m' : Model)
    (hc : ConsBelow ss order pre m') : ∀ (f : Nat) (k : String) (u : Nat) (x : String),
    u < (rawRows ss pre k).length → readAttr m' f k u x = readAttr (loaded ss order) f k u x := by
  intro f
  induction f with
  | zero => intro _ _ _ _; rfl
  | succ f ih =>
    intro k u x hu
    simp only [readAttr, hc.stmts, loaded_assocs_fst ss order g]
    by_cases hx : (referential (popAssocs ss) k).contains x
    · simp only [hx, if_true]
      apply readChain_congr
      · rw [List.map_reverse, List.map_reverse, hc.stmts, loaded_assocs_fst ss order g]
      · intro q p p' hq hq' hk
        have hp : p ∈ (loaded ss order).assocs := List.mem_reverse.mp (List.mem_of_getElem? hq)
        have hp' : p' ∈ m'.assocs := List.mem_reverse.mp (List.mem_of_getElem? hq')
        have hfst : p'.1 = p.1 := by
          have h1 : (m'.assocs.reverse.map (·.1))[q]? = ((loaded ss order).assocs.reverse.map (·.1))[q]? := by
            rw [List.map_reverse, List.map_reverse, hc.stmts, loaded_assocs_fst ss order g]
          simp only [List.getElem?_map, hq, hq', Option.map_some, Option.some.injEq] at h1
          exact h1
        rw [loaded_assocs ss order g] at hp
        obtain ⟨a, _, rfl⟩ := List.mem_map.mp hp
        simp only at hk hfst ⊢
        have := hc.tgt p' hp' u (by rw [hfst, hk]; exact hu)
        rw [this, hfst]
      · intro q p j tk hq hk hhead
        have hp : p ∈ (loaded ss order).assocs := List.mem_reverse.mp (List.mem_of_getElem? hq)
        rw [loaded_assocs ss order g] at hp
        obtain ⟨a, ha, rfl⟩ := List.mem_map.mp hp
        simp only at hk hhead ⊢
        apply ih
        exact final_tgt_below ss order g pre suf horder a ha u (by rw [hk]; exact hu) j (List.mem_of_mem_head? hhead)
    · simp only [hx, Bool.false_eq_true, if_false, Option.some.injEq]
      have hr : (rawRows ss pre k)[u]? = some (rawRows ss pre k)[u] := List.getElem?_eq_getElem hu
      rw [hc.rows k u _ hr, loaded_rows ss order g]
      have hro : (rawRows ss order k)[u]? = some (rawRows ss pre k)[u] := by
        have e : rawRows ss order k = rawRows ss pre k ++ rawRows ss suf k := by rw [horder, rawRows_append]
        rw [e, List.getElem?_append_left hu]
        exact hr
      rw [hro]
      simp only [Option.getD_some]
      exact get_stripRow _ _ _ (by simpa using hx)

end loadedFacts

end Pyx.Load

namespace Pyx.Load

theorem relatedTo_eq_addSource (L : Links) (i : Nat) (hs : List Nat) (h : L.tgt i = []) :
    relatedTo L i hs = addSource L i hs := by
  apply Links.ext'
  · intro z; rfl
  · intro z
    simp only [relatedTo, addSource]
    by_cases hz : z = i
    · simp [hz, h]
    · simp [hz]

section step
variable (ss : List Stmt) (order pre suf : List (String × List Val)) (o : String × List Val)
variable (g : ApiGuards ss order) (horder : order = pre ++ o :: suf)
include g horder

/-- the rows of the referred class that exist when a referring row is created are among the final ones -/
theorem tgt_prefix (a : AssocStmt) :
    rawRows ss order a.tgtKind = rawRows ss pre a.tgtKind ++ rawRows ss (o :: suf) a.tgtKind := by
  rw [horder, rawRows_append]

theorem src_final (a : AssocStmt) (hk : a.srcKind = o.1) :
    rawRows ss order a.srcKind = rawRows ss pre a.srcKind ++ rawRow ss o :: rawRows ss suf a.srcKind := by
  rw [horder, rawRows_append]
  congr 1
  have : o :: suf = [o] ++ suf := rfl
  rw [this, rawRows_append]
  simp [rawRows, hk]

end step

theorem sum_ge_length (l : List Nat) (h : ∀ x ∈ l, 1 ≤ x) : l.length ≤ l.sum := by
  induction l with
  | nil => simp
  | cons x xs ih =>
    have := h x List.mem_cons_self
    have := ih (fun y hy => h y (List.mem_cons_of_mem _ hy))
    simp only [List.length_cons, List.sum_cons]
    omega

theorem fuelOf_ge (m : Model) : m.classes.length + 1 ≤ fuelOf m := by
  unfold fuelOf
  have := sum_ge_length (m.classes.map (fun c => (c.rows.length + 1) * (c.attrs.length + 1)))
    (by
      intro x hx
      obtain ⟨c, _, rfl⟩ := List.mem_map.mp hx
      exact Nat.mul_pos (by omega) (by omega))
  simp only [List.length_map] at this
  omega

section oracles
variable (ss : List Stmt) (order pre suf : List (String × List Val)) (o : String × List Val)
variable (g : ApiGuards ss order) (horder : order = pre ++ o :: suf) (m : Model) (inv : ApiInv ss pre m)
include g horder inv

/-- every state the batch relate of the new row passes through reads the existing rows as the loaded metamodel does -/
theorem consBelow_of_agrees (r : Row) (m' : Model) (hag : Agrees (withRow m o.1 r) m' o.1 (rawRows ss pre o.1).length) :
    ConsBelow ss order pre m' := by
  have hall : m.assocs.map (·.1) = popAssocs ss := by rw [inv.assocs]; exact map_fst_assocs ss _
  refine ⟨?_, ?_, ?_⟩
  · rw [hag.stmts]; exact hall
  · intro k u r' hr'
    rw [hag.classes]
    simp only [withRow, rowsOf_addRow]
    have hu : u < (rawRows ss pre k).length := (List.getElem?_eq_some_iff.mp hr').1
    by_cases hk : k = o.1
    · subst hk
      simp only [if_true]
      have hrk := inv.rows o.1
      unfold rowsOf at hrk
      cases hc : findCls m.classes o.1 with
      | none =>
        rw [hc] at hrk
        have : (rawRows ss pre o.1).length = 0 := by
          have := congrArg List.length hrk; simpa using this.symm
        omega
      | some c =>
        rw [hc] at hrk
        simp only at hrk ⊢
        rw [hrk, List.getElem?_append_left (by simpa using hu), List.getElem?_map, hr']
        rfl
    · simp only [hk, if_false]
      rw [inv.rows k, List.getElem?_map, hr']
      rfl
  · intro p' hp' u hu
    obtain ⟨q, hq⟩ := List.getElem?_of_mem hp'
    have hlen : m'.assocs.length = m.assocs.length := by
      have := congrArg List.length hag.stmts
      simpa [withRow] using this
    have hqlt : q < m.assocs.length := by
      have := (List.getElem?_eq_some_iff.mp hq).1; omega
    obtain ⟨p0, hp0q⟩ : ∃ p0, m.assocs[q]? = some p0 := ⟨_, List.getElem?_eq_getElem hqlt⟩
    have hp0 : (withRow m o.1 r).assocs[q]? = some p0 := hp0q
    have hfst : p'.1 = p0.1 := by
      have h1 := congrArg (fun l => l[q]?) hag.stmts
      simp only [List.getElem?_map, hq, hp0, Option.map_some, Option.some.injEq] at h1
      exact h1
    have htgt := hag.tgt q _ p' hp0 hq u (by
      by_cases hk : p0.1.srcKind = o.1
      · right
        rw [hfst, hk] at hu
        omega
      · exact Or.inl hk)
    rw [htgt]
    have hmem : p0 ∈ m.assocs := List.mem_of_getElem? hp0q
    rw [inv.assocs] at hmem
    obtain ⟨a, ha, hae⟩ := List.mem_map.mp hmem
    rw [← hae] at hfst ⊢
    simp only at hfst ⊢
    rw [hfst] at hu ⊢
    rw [final_tgt_eq ss order g pre (o :: suf) horder a ha u hu]

/-- the query's test on an existing referred row answers the key predicate, chained keys included -/
theorem reads_oracle (a : AssocStmt) (ha : a ∈ popAssocs ss) (hk : a.srcKind = o.1)
    (hnn : ∀ p ∈ keyPairs a, isNull ((rawRow ss o).get p.1) = false)
    (r : Row) (m' : Model) (hag : Agrees (withRow m o.1 r) m' o.1 (rawRows ss pre o.1).length)
    (j : Nat) (t : Row) (htj : (rawRows ss pre a.tgtKind)[j]? = some t) :
    rowMatches m' (fuelOf (withRow m o.1 r)) a.tgtKind j (kwargsOf a (rawRow ss o)) = some (matchesB a (rawRow ss o) t) := by
  have hc := consBelow_of_agrees ss order pre suf o g horder m inv r m' hag
  have hjlt : j < (rawRows ss pre a.tgtKind).length := (List.getElem?_eq_some_iff.mp htj).1
  have hD : readBound ss ≤ fuelOf (withRow m o.1 r) := by
    have := attrSum_lt_fuelOf (withRow m o.1 r)
    have hl : attrSum (withRow m o.1 r).classes = readBound ss := by
      simp only [withRow]; rw [attrSum_addRow]; exact inv.asum
    omega
  have htfin : (rawRows ss order a.tgtKind)[j]? = some t := by
    rw [tgt_prefix ss order pre suf o g horder a, List.getElem?_append_left hjlt]
    exact htj
  have hjfin : j < (rawRows ss order a.tgtKind).length := (List.getElem?_eq_some_iff.mp htfin).1
  -- what each identifying attribute of the referred row reads
  have hread : ∀ tk, ∃ v, readAttr m' (fuelOf (withRow m o.1 r)) a.tgtKind j tk = some v ∧ (v = t.get tk ∨ v = .none) ∧
      readAttr (loaded ss order) (fuelOf (withRow m o.1 r)) a.tgtKind j tk = some v := by
    intro tk
    have hterm := g.readsTerminate a.tgtKind j tk hjfin
    obtain ⟨v, hv⟩ := Option.isSome_iff_exists.mp hterm
    have hvF := readAttr_mono (loaded ss order) hD a.tgtKind j tk v hv
    refine ⟨v, ?_, readAttr_loaded_value ss order g _ _ _ _ t v htfin hvF, hvF⟩
    rw [readAttr_cons ss order g pre (o :: suf) horder m' hc _ _ _ _ hjlt]
    exact hvF
  rw [rowMatches_of_reads m' _ a.tgtKind j (kwargsOf a (rawRow ss o))
    (fun tk => (readAttr m' (fuelOf (withRow m o.1 r)) a.tgtKind j tk).getD .none)
    (by
      intro kv _
      obtain ⟨v, hv, _, _⟩ := hread kv.1
      rw [hv]; rfl)]
  congr 1
  rw [Bool.eq_iff_iff]
  unfold kwargsOf
  rw [List.all_map, all_zip_swap a.srcKeys a.tgtKeys, matchesB_iff]
  simp only [List.all_eq_true, Function.comp, beq_iff_eq]
  have hsfin : (rawRows ss order a.srcKind)[(rawRows ss pre a.srcKind).length]? = some (rawRow ss o) := by
    rw [src_final ss order pre suf o g horder a hk]
    simp
  constructor
  · intro h p hp
    obtain ⟨v, hv, hor, _⟩ := hread p.2
    have := h p hp
    rw [hv] at this
    simp only [Option.getD_some] at this
    refine ⟨hnn p hp, ?_⟩
    rcases hor with hvr | hvn
    · rw [← this, hvr]
    · rw [hvn] at this
      have hn := hnn p hp
      rw [← this] at hn
      simp [isNull] at hn
  · intro h p hp
    have hm : matchesB a (rawRow ss o) t = true := (matchesB_iff a _ t).mpr h
    have hres := g.resolved a ha _ j _ t hsfin htfin hm p.2 (List.of_mem_zip hp).2
    have hresF := readAttr_mono (loaded ss order) hD a.tgtKind j p.2 _ hres
    obtain ⟨v, hv, _, hvM⟩ := hread p.2
    rw [hvM] at hresF
    cases hresF
    rw [hv]
    simp only [Option.getD_some]
    exact ((h p hp).2).symm

/-- the new row as a REFERRED row of `a` (all its identifying attributes for `a` being referential attributes it was
    given): the query over the referring class tests the existing referring rows — none of them reads the new row's
    key, because none of them matches it -/
theorem srcSkip_oracle (a : AssocStmt) (ha : a ∈ popAssocs ss) (hk : a.tgtKind = o.1)
    (r : Row) (m' : Model) (hag : Agrees (withRow m o.1 r) m' o.1 (rawRows ss pre o.1).length) :
    relateLink (refsOf (popAssocs ss) o.1 (rawRow ss o)) (keyMap a) a.srcKind o.1 (rawRows ss pre o.1).length
      a.rel a.tgtPhrase m' = (m', .ok) := by
  obtain ⟨hk1, _, _, hk4⟩ := g.keys a ha
  have hc := consBelow_of_agrees ss order pre suf o g horder m inv r m' hag
  unfold relateLink
  rw [keyMap_eq a hk1.src]
  by_cases hgiven : (keyPairs a).all (fun p => ((refsOf (popAssocs ss) o.1 (rawRow ss o)).map (·.1)).contains p.2)
  · simp only [hgiven, Bool.not_true, Bool.false_eq_true, if_false]
    by_cases hnull : (keyPairs a).any (fun p => isNull (((refsOf (popAssocs ss) o.1 (rawRow ss o)).lookup p.2).getD .none))
    · simp [hnull]
    · simp only [hnull, Bool.false_eq_true, if_false]
      by_cases hemp : (keyPairs a).isEmpty
      · simp [hemp]
      · simp only [hemp, Bool.false_eq_true, if_false]
        apply relateQuery_none
        intro j hj
        have hne : ¬ a.srcKind = o.1 := fun h => hk4 (h.trans hk.symm)
        have hrowsEq : rowsOf m'.classes a.srcKind = (rawRows ss pre a.srcKind).map (stripRow (referential (popAssocs ss) a.srcKind)) := by
          rw [hag.classes]
          simp only [withRow, rowsOf_addRow, hne, if_false]
          exact inv.rows a.srcKind
        have hjlt : j < (rawRows ss pre a.srcKind).length := by
          have := List.mem_range.mp hj
          rw [hrowsEq] at this
          simpa using this
        have hD : readBound ss ≤ fuelOf m' := by
          have := attrSum_lt_fuelOf m'
          have hl : attrSum m'.classes = readBound ss := by
            rw [hag.classes]; simp only [withRow]; rw [attrSum_addRow]; exact inv.asum
          omega
        have hsfin : (rawRows ss order a.srcKind)[j]? = some (rawRows ss pre a.srcKind)[j] := by
          have e : rawRows ss order a.srcKind = rawRows ss pre a.srcKind ++ rawRows ss (o :: suf) a.srcKind := by
            rw [horder, rawRows_append]
          rw [e, List.getElem?_append_left hjlt]
          exact List.getElem?_eq_getElem hjlt
        have hjfin : j < (rawRows ss order a.srcKind).length := (List.getElem?_eq_some_iff.mp hsfin).1
        have hread : ∀ sk, ∃ v, readAttr m' (fuelOf m') a.srcKind j sk = some v ∧
            (v = (rawRows ss pre a.srcKind)[j].get sk ∨ v = .none) := by
          intro sk
          obtain ⟨v, hv⟩ := Option.isSome_iff_exists.mp (g.readsTerminate a.srcKind j sk hjfin)
          have hvF := readAttr_mono (loaded ss order) hD a.srcKind j sk v hv
          refine ⟨v, ?_, readAttr_loaded_value ss order g _ _ _ _ _ v hsfin hvF⟩
          rw [readAttr_cons ss order g pre (o :: suf) horder m' hc _ _ _ _ hjlt]
          exact hvF
        rw [rowMatches_of_reads m' _ a.srcKind j _
          (fun sk => (readAttr m' (fuelOf m') a.srcKind j sk).getD .none)
          (by
            intro kv _
            obtain ⟨v, hv, _⟩ := hread kv.1
            rw [hv]; rfl)]
        congr 1
        rw [Bool.eq_false_iff]
        intro hall
        -- then the existing referring row would match the new row
        have hm : matchesB a (rawRows ss pre a.srcKind)[j] (rawRow ss o) = true := by
          rw [matchesB_iff]
          intro p hp
          rw [List.all_map] at hall
          simp only [List.all_eq_true, Function.comp, beq_iff_eq] at hall
          have hp' := hall p hp
          obtain ⟨v, hv, hor⟩ := hread p.1
          rw [hv] at hp'
          simp only [Option.getD_some] at hp'
          have hnn : isNull (((refsOf (popAssocs ss) o.1 (rawRow ss o)).lookup p.2).getD .none) = false := by
            cases hq : isNull (((refsOf (popAssocs ss) o.1 (rawRow ss o)).lookup p.2).getD .none) with
            | false => rfl
            | true =>
              exfalso; apply hnull
              simp only [List.any_eq_true]
              exact ⟨p, hp, hq⟩
          have hval : ((refsOf (popAssocs ss) o.1 (rawRow ss o)).lookup p.2).getD .none = (rawRow ss o).get p.2 := by
            simp only [List.all_eq_true, List.contains_iff_mem] at hgiven
            have hin := hgiven p hp
            unfold refsOf at hin ⊢
            obtain ⟨e, he, hek⟩ := List.mem_map.mp hin
            have hq := (List.mem_filter.mp he).2
            rw [lookup_filter_fst (rawRow ss o) (fun x => (referential (popAssocs ss) o.1).contains x) p.2]
            rw [hek] at hq
            simp only [hq, if_true]
            exact (get_eq_lookup_getD _ _).symm
          rcases hor with hvr | hvn
          · have e : (rawRows ss pre a.srcKind)[j].get p.1 = (rawRow ss o).get p.2 := by
              rw [← hvr, hp', hval]
            exact ⟨by rw [e, ← hval]; exact hnn, e⟩
          · rw [hvn] at hp'
            rw [← hp'] at hnn
            simp [isNull] at hnn
        have := g.referredFirst a ha pre o suf horder hk.symm _ (List.getElem_mem hjlt)
        rw [hm] at this
        cases this
  · have hg' : ((keyPairs a).all (fun p => ((refsOf (popAssocs ss) o.1 (rawRow ss o)).map (·.1)).contains p.2)) = false := by
      simpa using hgiven
    simp only [hg', Bool.not_false, if_true]

end oracles

theorem apiNew_step (ss : List Stmt) (order pre suf : List (String × List Val)) (o : String × List Val)
    (g : ApiGuards ss order) (horder : order = pre ++ o :: suf) (m : Model) (inv : ApiInv ss pre m) :
    ∃ m', apiNew m o.1 o.2 = (m', .ok) ∧ ApiInv ss (pre ++ [o]) m' := by
  have ho : o ∈ order := by rw [horder]; simp
  obtain ⟨hdecl, hlen⟩ := g.declared o ho
  obtain ⟨c0, hc0⟩ := Option.isSome_iff_exists.mp hdecl
  have hattrsOf : attrsOf ss o.1 = c0.attrs := by simp [attrsOf, hc0]
  have hcm := inv.attrs o.1
  rw [hc0] at hcm
  obtain ⟨c, hc, hca⟩ : ∃ c, findCls m.classes o.1 = some c ∧ c.attrs = c0.attrs := by
    cases h : findCls m.classes o.1 with
    | none => simp [h] at hcm
    | some c => exact ⟨c, rfl, by simpa [h] using hcm⟩
  have hall : m.assocs.map (·.1) = popAssocs ss := by rw [inv.assocs]; exact map_fst_assocs ss _
  have hs : newGiven c o.2 = rawRow ss o := by simp [newGiven, rawRow, mkRow, hattrsOf, hca]
  have hrows : c.rows = (rawRows ss pre o.1).map (stripRow (referential (popAssocs ss) o.1)) := by
    have := inv.rows o.1
    simpa [rowsOf, hc] using this
  have hi : c.rows.length = (rawRows ss pre o.1).length := by rw [hrows]; simp
  have hnames : (rawRow ss o).map (·.1) = (attrsOf ss o.1).map (·.1) := names_mkRow_none _ _ hlen
  -- what `relateLinks` needs to know
  have hready : ∀ q p, m.assocs[q]? = some p →
      LinkReady (m.assocs.map (·.1)) o.1 (newGiven c o.2) c.rows.length
        (withRow m o.1 (stripRow (referential (m.assocs.map (·.1)) o.1) (newGiven c o.2))) (rawRows ss pre) q p.1 p.2 := by
    intro q p hq
    rw [inv.assocs, List.getElem?_map] at hq
    cases haq : (popAssocs ss)[q]? with
    | none => simp [haq] at hq
    | some a =>
      simp only [haq, Option.map_some, Option.some.injEq] at hq
      subst hq
      have ha : a ∈ popAssocs ss := List.mem_of_getElem? haq
      obtain ⟨hk1, hk2, hk3, hk4⟩ := g.keys a ha
      rw [hall, hs]
      refine ⟨hk1, hk2, hk3, hk4, ha, fun _ => g.resolves q a haq, ?_, ?_, ?_, ?_, ?_, ?_⟩
      · intro hk sk hsk
        rw [hnames, ← hk]
        exact g.srcDeclared a ha sk hsk
      · intro hk
        have hne : ¬ a.tgtKind = o.1 := fun h => hk4 (hk.trans h.symm)
        simp only [withRow, rowsOf_addRow, hne, if_false]
        rw [inv.rows a.tgtKind]; simp
      · -- the query's test answers the key predicate (identifying attributes may be read through chains)
        intro hk hnn m' hag j t htj
        rw [hi] at hag
        exact reads_oracle ss order pre suf o g horder m inv a ha hk hnn _ m' hag j t htj
      · -- as a referred row the new row is matched by no existing referring row: nothing to relate
        intro hk m' hag
        rw [hi] at hag ⊢
        exact srcSkip_oracle ss order pre suf o g horder m inv a ha hk _ m' hag
      · intro hk j hj
        simp only
        refine ⟨?_, ?_, ?_⟩
        · intro hmem
          have := mem_nestedJoin_src_lt a _ _ j _ hmem
          rw [hi, ← hk] at this
          exact Nat.lt_irrefl _ this
        · intro hsm
          -- the referred row `j` may have at most one referring row: none so far, since the new one matches
          obtain ⟨t, htj, hmt⟩ := (mem_selectIdx_zero _ _ j).mp hj
          have htm : t ∈ rawRows ss order a.tgtKind := by
            rw [tgt_prefix ss order pre suf o g horder a]
            exact List.mem_append_left _ (List.mem_of_getElem? htj)
          have hcard := g.cardSrc a ha hsm t htm
          rw [src_final ss order pre suf o g horder a hk, selectIdx_append] at hcard
          have hone : (selectIdx (0 + (rawRows ss pre a.srcKind).length) (rawRow ss o :: rawRows ss suf a.srcKind)
              (fun s => matchesB a s t)).length ≥ 1 := by
            simp only [selectIdx, enumFrom, List.filterMap_cons, hmt, if_true, List.length_cons]
            omega
          have hzero : (selectIdx 0 (rawRows ss pre a.srcKind) (fun s => matchesB a s t)).length = 0 := by
            simp only [List.length_append] at hcard
            omega
          have hnil := List.length_eq_zero_iff.mp hzero
          simp only [nestedJoin, htj]
          exact hnil
        · rw [hi, ← hk]
          rw [nestedJoin_tgt_out]
          exact List.not_mem_nil
      · intro hk htm hne
        simp only
        refine ⟨by rw [hi, ← hk]; exact nestedJoin_tgt_out a _ _, ?_⟩
        have hsm : rawRow ss o ∈ rawRows ss order a.srcKind := by
          rw [src_final ss order pre suf o g horder a hk]; simp
        have := g.cardTgt a ha htm (rawRow ss o) hsm
        rw [tgt_prefix ss order pre suf o g horder a, selectIdx_append, List.length_append] at this
        omega
  refine ⟨_, apiNew_eq m o.1 o.2 c hc (rawRows ss pre) hready, ?_⟩
  rw [hall, hs]
  refine ⟨?_, ?_, ?_, by simp only [addRow, List.length_map]; exact inv.ncls, by rw [attrSum_addRow]; exact inv.asum⟩
  · intro k
    simp only [findCls_addRow]
    rw [← inv.attrs k]
    cases findCls m.classes k with
    | none => rfl
    | some d => by_cases hk : k = o.1 <;> simp [hk]
  · intro k
    simp only [rowsOf_addRow, rawRows_snoc, hc]
    by_cases hk : k = o.1
    · subst hk
      simp [hrows]
    · have : ¬ o.1 = k := fun e => hk e.symm
      simp only [hk, this, if_false, List.append_nil]
      exact inv.rows k
  · simp only
    rw [inv.assocs, List.map_map]
    apply List.map_congr_left
    intro a ha
    obtain ⟨hk1, hk2, hk3, hk4⟩ := g.keys a ha
    simp only [Function.comp, stepAssoc, rawRows_snoc]
    by_cases hk : a.srcKind = o.1
    · have hne : ¬ o.1 = a.tgtKind := fun h => hk4 (hk.trans h)
      rw [if_pos hk, if_pos hk.symm, if_neg hne, List.append_nil]
      rw [relatedTo_eq_addSource _ _ _ (by rw [hi, ← hk]; exact nestedJoin_tgt_out a _ _)]
      rw [hi, ← hk, nestedJoin_snoc_src]
    · have hne' : ¬ o.1 = a.srcKind := fun e => hk e.symm
      rw [if_neg hk, if_neg hne', List.append_nil]
      by_cases ht : o.1 = a.tgtKind
      · rw [if_pos ht]
        rw [nestedJoin_snoc_tgt_nomatch a _ _ _ (g.referredFirst a ha pre o suf horder ht)]
      · rw [if_neg ht, List.append_nil]

end Pyx.Load

namespace Pyx.Load

theorem apiRun_spec (ss : List Stmt) (order : List (String × List Val)) (g : ApiGuards ss order)
    (suf : List (String × List Val)) :
    ∀ (pre : List (String × List Val)) (m : Model), order = pre ++ suf → ApiInv ss pre m →
      ∃ m', apiRun suf m = (m', suf.map (fun _ => Outcome.ok)) ∧ ApiInv ss order m' := by
  induction suf with
  | nil =>
    intro pre m horder inv
    refine ⟨m, rfl, ?_⟩
    rw [horder, List.append_nil]
    exact inv
  | cons o suf ih =>
    intro pre m horder inv
    obtain ⟨m1, h1, inv1⟩ := apiNew_step ss order pre suf o g horder m inv
    obtain ⟨m', h2, inv'⟩ := ih (pre ++ [o]) m1 (by rw [horder]; simp) inv1
    refine ⟨m', ?_, inv'⟩
    simp only [apiRun, h1, h2, List.map_cons]

theorem length_popUniques (ss : List Stmt) (cs : List Cls) : (popUniques ss cs).length = cs.length := by
  unfold popUniques
  induction ss generalizing cs with
  | nil => rfl
  | cons s ss ih =>
    simp only [List.foldl_cons]
    rw [ih]
    cases s with
    | uniq k n as =>
      simp only [defineUnique]
      by_cases h : as.isEmpty <;> simp [h]
    | cls _ _ => rfl
    | assoc _ => rfl
    | insert _ _ _ => rfl

theorem attrSum_popUniques (ss : List Stmt) (cs : List Cls) : attrSum (popUniques ss cs) = attrSum cs := by
  unfold popUniques
  induction ss generalizing cs with
  | nil => rfl
  | cons s ss ih =>
    simp only [List.foldl_cons]
    rw [ih]
    cases s with
    | uniq k n as =>
      simp only [defineUnique]
      by_cases h : as.isEmpty
      · simp [h]
      · simp only [h, Bool.false_eq_true, if_false]
        apply attrSum_map_rows
        intro c; by_cases hc : c.kind = k <;> simp [hc]
    | cls _ _ => rfl
    | assoc _ => rfl
    | insert _ _ _ => rfl

theorem apiInv_init (ss : List Stmt) : ApiInv ss [] (schemaModel ss) := by
  refine ⟨?_, ?_, ?_, length_popUniques ss _, attrSum_popUniques ss _⟩
  · intro k
    simp only [schemaModel, findCls_popUniques]
    cases findCls (popClasses ss) k <;> simp [applyUniqs]
  · intro k
    simp only [schemaModel, rowsOf, findCls_popUniques, rawRows, List.filter_nil, List.map_nil]
    cases h : findCls (popClasses ss) k with
    | none => rfl
    | some c =>
      have := (popClasses_rows_nil ss c (List.mem_of_find?_eq_some h)).1
      simp [applyUniqs, this]
  · simp only [schemaModel]
    apply List.map_congr_left
    intro a _
    simp [rawRows, nestedJoin_nil_src]

end Pyx.Load

namespace Pyx.Load

/-! ### without chained keys the two guards about reads hold -/

theorem length_ge_two_of_mem {α : Type} {l : List α} {x y : α} (hx : x ∈ l) (hy : y ∈ l) (hne : x ≠ y) : 2 ≤ l.length := by
  match l, hx, hy with
  | [], hx, _ => cases hx
  | [z], hx, hy =>
    simp only [List.mem_singleton] at hx hy
    exact absurd (hx.trans hy.symm) hne
  | _ :: _ :: _, _, _ => simp

theorem kind_declared_of_accepted (ss : List Stmt) (hacc : accepted ss = true) (a : AssocStmt) (ha : a ∈ popAssocs ss) :
    a.srcKind ∈ (popClasses ss).map (·.kind) ∧ a.tgtKind ∈ (popClasses ss).map (·.kind) := by
  have hs : Stmt.assoc a ∈ ss := by
    unfold popAssocs at ha
    obtain ⟨s, hs, hsa⟩ := List.mem_filterMap.mp ha
    cases s with
    | assoc b => simp only [Option.some.injEq] at hsa; subst hsa; exact hs
    | cls _ _ => simp at hsa
    | uniq _ _ _ => simp at hsa
    | insert _ _ _ => simp at hsa
  unfold accepted at hacc
  simp only [Bool.and_eq_true, List.all_eq_true] at hacc
  have := hacc.2 _ hs
  simp only [Bool.and_eq_true, List.contains_iff_mem] at this
  exact ⟨this.1.1.1, this.1.1.2⟩

/-- the guards `readsTerminate` and `resolved` for a schema without chained keys (every identifying attribute used
    as a key is stored, none is referential in its own class): reads end after at most two steps -/
theorem reads_of_noChain_len (ss : List Stmt) (order : List (String × List Val))
    (hschema : ∀ s ∈ ss, ∀ k ns vs, s ≠ .insert k ns vs) (hacc : accepted ss = true)
    (hkeys : ∀ a ∈ popAssocs ss, KeysOk a ∧ a.srcKeys.length = a.tgtKeys.length ∧ a.srcKeys ≠ [] ∧ a.srcKind ≠ a.tgtKind)
    (hdecl : ∀ o ∈ order, (findCls (popClasses ss) o.1).isSome = true ∧ o.2.length = (attrsOf ss o.1).length)
    (hnc : ∀ a ∈ popAssocs ss, ∀ t ∈ a.tgtKeys, t ∉ referential (popAssocs ss) a.tgtKind) :
    (∀ k i x, i < (rawRows ss order k).length →
      (readAttr (loaded ss order) (popClasses ss).length k i x).isSome = true) ∧
    (∀ a ∈ popAssocs ss, ∀ (i j : Nat) s t, (rawRows ss order a.srcKind)[i]? = some s →
      (rawRows ss order a.tgtKind)[j]? = some t → matchesB a s t = true →
      ∀ tk ∈ a.tgtKeys, readAttr (loaded ss order) (popClasses ss).length a.tgtKind j tk = some (t.get tk)) := by
  -- facts about the loaded metamodel that need only these guards
  have hk : ∀ a ∈ popAssocs (ss ++ insertsOf order), KeysOk a := by
    intro a ha
    rw [popAssocs_append, popAssocs_inserts, List.append_nil] at ha
    exact (hkeys a ha).1
  have hrowsM : ∀ k, rowsOf (loaded ss order).classes k = rawRows ss order k := by
    intro k
    unfold loaded
    rw [rowsOf_buildCore]
    unfold clsSpec
    rw [popClasses_append, popClasses_inserts, List.append_nil, insOf_append, insOf_schema ss hschema,
      List.nil_append, insOf_inserts]
    cases hc : findCls (popClasses ss) k with
    | some c =>
      simp only [rawRows, List.map_map]
      apply List.map_congr_left
      intro o ho
      have hk : o.1 = k := by simpa using (List.mem_filter.mp ho).2
      simp [rawRow, attrsOf, hk, hc]
    | none =>
      simp only
      have hnil : order.filter (fun o => o.1 = k) = [] := by
        rw [List.filter_eq_nil_iff]
        intro o ho hk
        have := (hdecl o ho).1
        simp only [decide_eq_true_eq] at hk
        rw [hk, hc] at this
        cases this
      simp [rawRows, hnil]
  have hassM : (loaded ss order).assocs = (popAssocs ss).map (fun a =>
      (a, nestedJoin a (rawRows ss order a.srcKind) (rawRows ss order a.tgtKind))) := by
    unfold loaded
    rw [buildCore_assocs _ hk, popAssocs_append, popAssocs_inserts, List.append_nil]
    have : ∀ k, rowsOf (buildCore (ss ++ insertsOf order)).classes k = rawRows ss order k := hrowsM
    simp only [this]
  have hfstM : (loaded ss order).assocs.map (·.1) = popAssocs ss := by rw [hassM]; exact map_fst_assocs ss _
  have hkinds : ((popClasses ss).map (·.kind)).Nodup := kinds_nodup_of_accepted hacc
  -- a kind with rows is declared
  have hdeclK : ∀ k, 0 < (rawRows ss order k).length → k ∈ (popClasses ss).map (·.kind) := by
    intro k hpos
    have hne : rawRows ss order k ≠ [] := by
      intro h; rw [h] at hpos; simp at hpos
    obtain ⟨r, hr⟩ := List.exists_mem_of_ne_nil _ hne
    unfold rawRows at hr
    obtain ⟨o, ho, _⟩ := List.mem_map.mp hr
    obtain ⟨hom, hok⟩ := List.mem_filter.mp ho
    have hk' : o.1 = k := by simpa using hok
    obtain ⟨c, hc⟩ := Option.isSome_iff_exists.mp (hdecl o hom).1
    rw [hk'] at hc
    exact List.mem_map.mpr ⟨c, List.mem_of_find?_eq_some hc, findCls_some_kind hc⟩
  have hstored : ∀ (d : Nat) (a : AssocStmt), a ∈ popAssocs ss → ∀ (j : Nat) (t : Row),
      (rawRows ss order a.tgtKind)[j]? = some t → ∀ tk ∈ a.tgtKeys,
      readAttr (loaded ss order) (d + 1) a.tgtKind j tk = some (t.get tk) := by
    intro d a ha j t ht tk htk
    rw [readAttr_stored _ d _ _ _ (by rw [hfstM]; exact hnc a ha tk htk), hrowsM, ht]
    rfl
  constructor
  · intro k i x hi
    have hkm := hdeclK k (by omega)
    cases hD : (popClasses ss).length with
    | zero =>
      have : (popClasses ss).map (·.kind) = [] := by
        rw [List.length_eq_zero_iff] at hD; rw [hD]; rfl
      rw [this] at hkm; cases hkm
    | succ d =>
      simp only [readAttr, hfstM]
      by_cases hx : (referential (popAssocs ss) k).contains x
      · simp only [hx, if_true]
        rcases readChain_cases (readAttr (loaded ss order) d) k i x (loaded ss order).assocs.reverse with
          ⟨h1, _⟩ | ⟨p, hp, hpk, tk, j, hmem, hhead, hval⟩
        · rw [h1]; rfl
        · rw [List.mem_reverse, hassM] at hp
          obtain ⟨a, ha, rfl⟩ := List.mem_map.mp hp
          simp only at hpk hmem hhead hval
          rw [hval]
          have hj : j ∈ (nestedJoin a (rawRows ss order a.srcKind) (rawRows ss order a.tgtKind)).tgt i :=
            List.mem_of_mem_head? hhead
          obtain ⟨_, t, _, ht, _⟩ := (mem_nestedJoin_tgt a _ _ i j).mp hj
          -- two distinct declared classes: the depth is at least two
          obtain ⟨hsk, htk⟩ := kind_declared_of_accepted ss hacc a ha
          have h2 : 2 ≤ ((popClasses ss).map (·.kind)).length :=
            length_ge_two_of_mem hsk htk (hkeys a ha).2.2.2
          simp only [List.length_map] at h2
          obtain ⟨d', hd'⟩ : ∃ d', d = d' + 1 := ⟨d - 1, by omega⟩
          rw [hd', hstored d' a ha j t ht tk (List.of_mem_zip hmem).2]
          rfl
      · simp only [hx, Bool.false_eq_true, if_false]
        rfl
  · intro a ha i j s t _ ht _ tk htk
    have hjlt : 0 < (rawRows ss order a.tgtKind).length := by
      have := (List.getElem?_eq_some_iff.mp ht).1; omega
    have hkm := hdeclK a.tgtKind hjlt
    cases hD : (popClasses ss).length with
    | zero =>
      have : (popClasses ss).map (·.kind) = [] := by
        rw [List.length_eq_zero_iff] at hD; rw [hD]; rfl
      rw [this] at hkm; cases hkm
    | succ d => exact hstored d a ha j t ht tk htk

theorem length_le_readBound (ss : List Stmt) : (popClasses ss).length ≤ readBound ss := by
  unfold readBound attrSum
  have := sum_ge_length ((popClasses ss).map (fun c => c.attrs.length + 1))
    (by intro x hx; obtain ⟨c, _, rfl⟩ := List.mem_map.mp hx; omega)
  simpa using this

theorem reads_of_noChain (ss : List Stmt) (order : List (String × List Val))
    (hschema : ∀ s ∈ ss, ∀ k ns vs, s ≠ .insert k ns vs) (hacc : accepted ss = true)
    (hkeys : ∀ a ∈ popAssocs ss, KeysOk a ∧ a.srcKeys.length = a.tgtKeys.length ∧ a.srcKeys ≠ [] ∧ a.srcKind ≠ a.tgtKind)
    (hdecl : ∀ o ∈ order, (findCls (popClasses ss) o.1).isSome = true ∧ o.2.length = (attrsOf ss o.1).length)
    (hnc : ∀ a ∈ popAssocs ss, ∀ t ∈ a.tgtKeys, t ∉ referential (popAssocs ss) a.tgtKind) :
    (∀ k i x, i < (rawRows ss order k).length →
      (readAttr (loaded ss order) (readBound ss) k i x).isSome = true) ∧
    (∀ a ∈ popAssocs ss, ∀ (i j : Nat) s t, (rawRows ss order a.srcKind)[i]? = some s →
      (rawRows ss order a.tgtKind)[j]? = some t → matchesB a s t = true →
      ∀ tk ∈ a.tgtKeys, readAttr (loaded ss order) (readBound ss) a.tgtKind j tk = some (t.get tk)) := by
  obtain ⟨h1, h2⟩ := reads_of_noChain_len ss order hschema hacc hkeys hdecl hnc
  constructor
  · intro k i x hi
    obtain ⟨v, hv⟩ := Option.isSome_iff_exists.mp (h1 k i x hi)
    rw [readAttr_mono _ (length_le_readBound ss) k i x v hv]; rfl
  · intro a ha i j s t hs ht hm tk htk
    exact readAttr_mono _ (length_le_readBound ss) _ _ _ _ (h2 a ha i j s t hs ht hm tk htk)

end Pyx.Load
