import Proofs.LoadApi

/-! Helper lemmas for C03, part 6: a whole population created through `new`, referred rows first. -/

namespace Pyx.Load

/-- declared attributes of a kind -/
def attrsOf (ss : List Stmt) (k : String) : List (String × Ty) :=
  match findCls (popClasses ss) k with
  | some c => c.attrs
  | none => []

/-- the row a positional INSERT (or `new` with the same arguments) denotes -/
def rawRow (ss : List Stmt) (o : String × List Val) : Row := mkRow (attrsOf ss o.1) none o.2

/-- the rows of one kind among the rows created so far, in creation order -/
def rawRows (ss : List Stmt) (order : List (String × List Val)) (k : String) : List Row :=
  (order.filter (fun o => o.1 = k)).map (rawRow ss)

theorem rawRows_snoc (ss : List Stmt) (pre : List (String × List Val)) (o : String × List Val) (k : String) :
    rawRows ss (pre ++ [o]) k = rawRows ss pre k ++ (if o.1 = k then [rawRow ss o] else []) := by
  unfold rawRows
  by_cases h : o.1 = k <;> simp [List.filter_append, h]

theorem rawRows_append (ss : List Stmt) (l1 l2 : List (String × List Val)) (k : String) :
    rawRows ss (l1 ++ l2) k = rawRows ss l1 k ++ rawRows ss l2 k := by
  unfold rawRows
  simp [List.filter_append]

theorem rawRows_nil_of_not_mem (ss : List Stmt) (l : List (String × List Val)) (k : String)
    (h : ∀ o ∈ l, o.1 ≠ k) : rawRows ss l k = [] := by
  unfold rawRows
  have : l.filter (fun o => o.1 = k) = [] := by
    rw [List.filter_eq_nil_iff]
    intro o ho
    simpa using h o ho
  rw [this]; rfl

theorem rowsOf_addRow (cs : List Cls) (k : String) (r : Row) (k' : String) :
    rowsOf (addRow cs k r) k' =
      if k' = k then (match findCls cs k with | some c => c.rows ++ [r] | none => []) else rowsOf cs k' := by
  unfold rowsOf
  rw [findCls_addRow]
  by_cases h : k' = k
  · subst h
    cases findCls cs k' <;> simp
  · simp only [h, if_false]
    cases findCls cs k' <;> simp

theorem selectIdx_append {α : Type} (n : Nat) (l1 l2 : List α) (c : α → Bool) :
    selectIdx n (l1 ++ l2) c = selectIdx n l1 c ++ selectIdx (n + l1.length) l2 c := by
  unfold selectIdx
  rw [enumFrom_append, List.filterMap_append]

/-- the guards of `api_equiv` -/
structure ApiGuards (ss : List Stmt) (order : List (String × List Val)) : Prop where
  /-- the statements are the schema; the rows come through `new` -/
  schemaOnly : ∀ s ∈ ss, ∀ k ns vs, s ≠ .insert k ns vs
  accepted : accepted ss = true
  /-- key lists without repeats, of equal non-zero length; no reflexive association -/
  keys : ∀ a ∈ popAssocs ss, KeysOk a ∧ a.srcKeys.length = a.tgtKeys.length ∧ a.srcKeys ≠ [] ∧ a.srcKind ≠ a.tgtKind
  /-- identifying attributes are stored, not read through a link of their own -/
  noChain : ∀ a ∈ popAssocs ss, ∀ t ∈ a.tgtKeys, t ∉ referential (popAssocs ss) a.tgtKind
  /-- referential attributes are declared attributes of the referring class -/
  srcDeclared : ∀ a ∈ popAssocs ss, ∀ k ∈ a.srcKeys, k ∈ (attrsOf ss a.srcKind).map (·.1)
  /-- `_find_link(referred, referring, rel, link.phrase)` answers with the association itself, unswapped -/
  resolves : ∀ n a, (popAssocs ss)[n]? = some a → ResolvesAt (popAssocs ss) n a
  /-- every row is of a declared class and carries one value per attribute -/
  declared : ∀ o ∈ order, (findCls (popClasses ss) o.1).isSome = true ∧ o.2.length = (attrsOf ss o.1).length
  /-- referred rows first: when a row of a referred class is created, no row created before it refers to it
      (every referred ROW is created before the rows referring to it — a topological order of the rows) -/
  referredFirst : ∀ a ∈ popAssocs ss, ∀ pre o suf, order = pre ++ o :: suf → o.1 = a.tgtKind →
    ∀ s ∈ rawRows ss pre a.srcKind, matchesB a s (rawRow ss o) = false
  /-- no cardinality-violating duplicates -/
  cardSrc : ∀ a ∈ popAssocs ss, a.srcMany = false → ∀ t ∈ rawRows ss order a.tgtKind,
    (selectIdx 0 (rawRows ss order a.srcKind) (fun s => matchesB a s t)).length ≤ 1
  cardTgt : ∀ a ∈ popAssocs ss, a.tgtMany = false → ∀ s ∈ rawRows ss order a.srcKind,
    (selectIdx 0 (rawRows ss order a.tgtKind) (fun t => matchesB a s t)).length ≤ 1

/-- the state after the rows `pre` have been created -/
structure ApiInv (ss : List Stmt) (pre : List (String × List Val)) (m : Model) : Prop where
  attrs : ∀ k, (findCls m.classes k).map (·.attrs) = (findCls (popClasses ss) k).map (·.attrs)
  rows : ∀ k, rowsOf m.classes k = (rawRows ss pre k).map (stripRow (referential (popAssocs ss) k))
  assocs : m.assocs = (popAssocs ss).map (fun a =>
    (a, nestedJoin a (rawRows ss pre a.srcKind) (rawRows ss pre a.tgtKind)))

theorem map_fst_assocs (ss : List Stmt) (f : AssocStmt → Links) :
    ((popAssocs ss).map (fun a => (a, f a))).map (·.1) = popAssocs ss := by
  simp [List.map_map, Function.comp_def]

theorem names_mkRow_none (attrs : List (String × Ty)) (vs : List Val) (h : vs.length = attrs.length) :
    (mkRow attrs none vs).map (·.1) = attrs.map (·.1) := by
  simp only [mkRow, List.map_map]
  induction attrs generalizing vs with
  | nil => simp
  | cons x xs ih =>
    cases vs with
    | nil => simp at h
    | cons v vs =>
      simp only [List.length_cons, Nat.add_right_cancel_iff] at h
      simp [ih vs h]

/-- a new referred row that no existing referring row matches changes no link -/
theorem nestedJoin_snoc_tgt_nomatch (a : AssocStmt) (S T : List Row) (t : Row)
    (h : ∀ s ∈ S, matchesB a s t = false) : nestedJoin a S (T ++ [t]) = nestedJoin a S T := by
  apply Links.ext'
  · intro j
    simp only [nestedJoin]
    by_cases hlt : j < T.length
    · rw [List.getElem?_append_left hlt]
    · by_cases hj : j = T.length
      · subst hj
        have h2 : T[T.length]? = none := by simp
        have hsel := selectIdx_congr 0 S (fun s => matchesB a s t) (fun _ => false) h
        rw [selectIdx_false] at hsel
        unfold selectIdx at hsel
        simp [h2, hsel]
      · have h1 : (T ++ [t])[j]? = none := by
          rw [List.getElem?_eq_none_iff]; simp; omega
        have h2 : T[j]? = none := by
          rw [List.getElem?_eq_none_iff]; omega
        simp [h1, h2]
  · intro i
    simp only [nestedJoin]
    cases hs : S[i]? with
    | none => rfl
    | some s =>
      simp only
      have hsel := selectIdx_append_singleton 0 T t (fun x => matchesB a s x)
      unfold selectIdx at hsel
      rw [hsel, h s (List.mem_of_getElem? hs)]
      simp

theorem nestedJoin_tgt_out (a : AssocStmt) (S T : List Row) : (nestedJoin a S T).tgt S.length = [] := by
  simp [nestedJoin]

theorem mem_nestedJoin_src_lt (a : AssocStmt) (S T : List Row) (j i : Nat) (h : i ∈ (nestedJoin a S T).src j) :
    i < S.length := by
  obtain ⟨s, _, hs, _, _⟩ := (mem_nestedJoin_src a S T i j).mp h
  exact (List.getElem?_eq_some_iff.mp hs).1

end Pyx.Load

namespace Pyx.Load

/-- the arguments of `new` paired with the attribute names -/
def newGiven (c : Cls) (vs : List Val) : Row := (c.attrs.zip vs).map (fun p => (p.1.1, p.2))

def withRow (m : Model) (kind : String) (r : Row) : Model := { m with classes := addRow m.classes kind r }

/-- `MetaClass.new` in one formula, given what `relateLinks` needs to know about every association -/
theorem apiNew_eq (m : Model) (kind : String) (vs : List Val) (c : Cls) (hc : findCls m.classes kind = some c)
    (rowsRaw : String → List Row)
    (hready : ∀ q p, m.assocs[q]? = some p →
      LinkReady (m.assocs.map (·.1)) kind (newGiven c vs) c.rows.length
        (withRow m kind (stripRow (referential (m.assocs.map (·.1)) kind) (newGiven c vs))) rowsRaw q p.1 p.2) :
    apiNew m kind vs =
      (⟨addRow m.classes kind (stripRow (referential (m.assocs.map (·.1)) kind) (newGiven c vs)),
        m.assocs.map (stepAssoc kind (newGiven c vs) c.rows.length rowsRaw)⟩, .ok) := by
  unfold apiNew
  simp only [hc]
  show (if ((newGiven c vs).filter (fun p => (referential (m.assocs.map (·.1)) kind).contains p.1)).isEmpty = true then _ else _) = _
  by_cases hemp : ((newGiven c vs).filter (fun p => (referential (m.assocs.map (·.1)) kind).contains p.1)).isEmpty
  · simp only [hemp, if_true]
    -- no association has the new row's class as its referring class
    have hid : ∀ p ∈ m.assocs, stepAssoc kind (newGiven c vs) c.rows.length rowsRaw p = p := by
      intro p hp
      unfold stepAssoc
      by_cases hk : p.1.srcKind = kind
      · exfalso
        obtain ⟨q, hq⟩ := List.getElem?_of_mem hp
        have hr := hready q p hq
        cases hs : p.1.srcKeys with
        | nil => exact hr.ne hs
        | cons sk rest =>
          have hsk : sk ∈ p.1.srcKeys := by rw [hs]; exact List.mem_cons_self
          have h1 := hr.given hk sk hsk
          have h2 : sk ∈ referential (m.assocs.map (·.1)) kind := by
            rw [← hk]; exact mem_referential hr.mem hsk
          obtain ⟨x, hx, hxk⟩ := List.mem_map.mp h1
          have : x ∈ (newGiven c vs).filter (fun p => (referential (m.assocs.map (·.1)) kind).contains p.1) := by
            rw [List.mem_filter]
            exact ⟨hx, by simpa [hxk] using h2⟩
          rw [List.isEmpty_iff] at hemp
          rw [hemp] at this
          cases this
      · simp [hk]
    have hmap : m.assocs.map (stepAssoc kind (newGiven c vs) c.rows.length rowsRaw) = m.assocs := by
      rw [List.map_congr_left hid, List.map_id']
    rw [hmap]
    rfl
  · simp only [hemp, Bool.false_eq_true, if_false]
    have := relateLinks_spec kind (newGiven c vs) c.rows.length rowsRaw
      (m.assocs.map (·.1)) (withRow m kind (stripRow (referential (m.assocs.map (·.1)) kind) (newGiven c vs)))
      m.assocs []
      (withRow m kind (stripRow (referential (m.assocs.map (·.1)) kind) (newGiven c vs)))
      (by simp [withRow]) (by simp) (Agrees.refl _ _ _) (by intro q p hq; simpa using hready q p hq)
    refine Eq.trans this ?_
    simp [withRow]

end Pyx.Load

namespace Pyx.Load

theorem relatedTo_eq_addSource (L : Links) (i : Nat) (hs : List Nat) (h : L.tgt i = []) :
    relatedTo L i hs = addSource L i hs := by
  apply Links.ext'
  · intro z; rfl
  · intro z
    simp only [relatedTo, addSource]
    by_cases hz : z = i
    · simp [hz, h]
    · simp [hz]

section step
variable (ss : List Stmt) (order pre suf : List (String × List Val)) (o : String × List Val)
variable (g : ApiGuards ss order) (horder : order = pre ++ o :: suf)
include g horder

/-- the rows of the referred class that exist when a referring row is created are among the final ones -/
theorem tgt_prefix (a : AssocStmt) :
    rawRows ss order a.tgtKind = rawRows ss pre a.tgtKind ++ rawRows ss (o :: suf) a.tgtKind := by
  rw [horder, rawRows_append]

theorem src_final (a : AssocStmt) (hk : a.srcKind = o.1) :
    rawRows ss order a.srcKind = rawRows ss pre a.srcKind ++ rawRow ss o :: rawRows ss suf a.srcKind := by
  rw [horder, rawRows_append]
  congr 1
  have : o :: suf = [o] ++ suf := rfl
  rw [this, rawRows_append]
  simp [rawRows, hk]

end step

theorem apiNew_step (ss : List Stmt) (order pre suf : List (String × List Val)) (o : String × List Val)
    (g : ApiGuards ss order) (horder : order = pre ++ o :: suf) (m : Model) (inv : ApiInv ss pre m) :
    ∃ m', apiNew m o.1 o.2 = (m', .ok) ∧ ApiInv ss (pre ++ [o]) m' := by
  have ho : o ∈ order := by rw [horder]; simp
  obtain ⟨hdecl, hlen⟩ := g.declared o ho
  obtain ⟨c0, hc0⟩ := Option.isSome_iff_exists.mp hdecl
  have hattrsOf : attrsOf ss o.1 = c0.attrs := by simp [attrsOf, hc0]
  have hcm := inv.attrs o.1
  rw [hc0] at hcm
  obtain ⟨c, hc, hca⟩ : ∃ c, findCls m.classes o.1 = some c ∧ c.attrs = c0.attrs := by
    cases h : findCls m.classes o.1 with
    | none => simp [h] at hcm
    | some c => exact ⟨c, rfl, by simpa [h] using hcm⟩
  have hall : m.assocs.map (·.1) = popAssocs ss := by rw [inv.assocs]; exact map_fst_assocs ss _
  have hs : newGiven c o.2 = rawRow ss o := by simp [newGiven, rawRow, mkRow, hattrsOf, hca]
  have hrows : c.rows = (rawRows ss pre o.1).map (stripRow (referential (popAssocs ss) o.1)) := by
    have := inv.rows o.1
    simpa [rowsOf, hc] using this
  have hi : c.rows.length = (rawRows ss pre o.1).length := by rw [hrows]; simp
  have hnames : (rawRow ss o).map (·.1) = (attrsOf ss o.1).map (·.1) := names_mkRow_none _ _ hlen
  -- what `relateLinks` needs to know
  have hready : ∀ q p, m.assocs[q]? = some p →
      LinkReady (m.assocs.map (·.1)) o.1 (newGiven c o.2) c.rows.length
        (withRow m o.1 (stripRow (referential (m.assocs.map (·.1)) o.1) (newGiven c o.2))) (rawRows ss pre) q p.1 p.2 := by
    intro q p hq
    rw [inv.assocs, List.getElem?_map] at hq
    cases haq : (popAssocs ss)[q]? with
    | none => simp [haq] at hq
    | some a =>
      simp only [haq, Option.map_some, Option.some.injEq] at hq
      subst hq
      have ha : a ∈ popAssocs ss := List.mem_of_getElem? haq
      obtain ⟨hk1, hk2, hk3, hk4⟩ := g.keys a ha
      rw [hall, hs]
      refine ⟨hk1, hk2, hk3, hk4, ha, fun _ => g.resolves q a haq, ?_, ?_, ?_, ?_, ?_, ?_⟩
      · intro hk sk hsk
        rw [hnames, ← hk]
        exact g.srcDeclared a ha sk hsk
      · intro hk
        have hne : ¬ a.tgtKind = o.1 := fun h => hk4 (hk.trans h.symm)
        simp only [withRow, rowsOf_addRow, hne, if_false]
        rw [inv.rows a.tgtKind]; simp
      · -- the query's test reads stored identifying values
        intro hk hnn m' hag j t htj
        have hne : ¬ a.tgtKind = o.1 := fun h => hk4 (hk.trans h.symm)
        have hst' : m'.assocs.map (·.1) = popAssocs ss := by
          rw [hag.stmts]; exact hall
        obtain ⟨f, hf⟩ := fuelOf_pos (withRow m o.1 (stripRow (referential (popAssocs ss) o.1) (rawRow ss o)))
        rw [hf]
        apply rowMatches_nochain a m' f _ t j (by rw [hst']; exact g.noChain a ha) _ hnn
        rw [hst', hag.classes]
        simp only [withRow, rowsOf_addRow, hne, if_false]
        rw [inv.rows a.tgtKind, List.getElem?_map, htj]
        rfl
      · -- as a referred row the new row has a stored (non-referential) identifying attribute: nothing to relate
        intro hk m' _
        have := relateLink_source_skip a m' (refsOf (popAssocs ss) o.1 (rawRow ss o)) (popAssocs ss) c.rows.length
          hk1 hk2 hk3
          (by
            intro x hx
            obtain ⟨p, hp, rfl⟩ := List.mem_map.mp hx
            have := (List.mem_filter.mp hp).2
            rw [hk]
            simpa using this)
          (g.noChain a ha)
        rw [hk] at this
        exact this
      · intro hk j hj
        simp only
        refine ⟨?_, ?_, ?_⟩
        · intro hmem
          have := mem_nestedJoin_src_lt a _ _ j _ hmem
          rw [hi, ← hk] at this
          exact Nat.lt_irrefl _ this
        · intro hsm
          -- the referred row `j` may have at most one referring row: none so far, since the new one matches
          obtain ⟨t, htj, hmt⟩ := (mem_selectIdx_zero _ _ j).mp hj
          have htm : t ∈ rawRows ss order a.tgtKind := by
            rw [tgt_prefix ss order pre suf o g horder a]
            exact List.mem_append_left _ (List.mem_of_getElem? htj)
          have hcard := g.cardSrc a ha hsm t htm
          rw [src_final ss order pre suf o g horder a hk, selectIdx_append] at hcard
          have hone : (selectIdx (0 + (rawRows ss pre a.srcKind).length) (rawRow ss o :: rawRows ss suf a.srcKind)
              (fun s => matchesB a s t)).length ≥ 1 := by
            simp only [selectIdx, enumFrom, List.filterMap_cons, hmt, if_true, List.length_cons]
            omega
          have hzero : (selectIdx 0 (rawRows ss pre a.srcKind) (fun s => matchesB a s t)).length = 0 := by
            simp only [List.length_append] at hcard
            omega
          have hnil := List.length_eq_zero_iff.mp hzero
          simp only [nestedJoin, htj]
          exact hnil
        · rw [hi, ← hk]
          rw [nestedJoin_tgt_out]
          exact List.not_mem_nil
      · intro hk htm hne
        simp only
        refine ⟨by rw [hi, ← hk]; exact nestedJoin_tgt_out a _ _, ?_⟩
        have hsm : rawRow ss o ∈ rawRows ss order a.srcKind := by
          rw [src_final ss order pre suf o g horder a hk]; simp
        have := g.cardTgt a ha htm (rawRow ss o) hsm
        rw [tgt_prefix ss order pre suf o g horder a, selectIdx_append, List.length_append] at this
        omega
  refine ⟨_, apiNew_eq m o.1 o.2 c hc (rawRows ss pre) hready, ?_⟩
  rw [hall, hs]
  refine ⟨?_, ?_, ?_⟩
  · intro k
    simp only [findCls_addRow]
    rw [← inv.attrs k]
    cases findCls m.classes k with
    | none => rfl
    | some d => by_cases hk : k = o.1 <;> simp [hk]
  · intro k
    simp only [rowsOf_addRow, rawRows_snoc, hc]
    by_cases hk : k = o.1
    · subst hk
      simp [hrows]
    · have : ¬ o.1 = k := fun e => hk e.symm
      simp only [hk, this, if_false, List.append_nil]
      exact inv.rows k
  · simp only
    rw [inv.assocs, List.map_map]
    apply List.map_congr_left
    intro a ha
    obtain ⟨hk1, hk2, hk3, hk4⟩ := g.keys a ha
    simp only [Function.comp, stepAssoc, rawRows_snoc]
    by_cases hk : a.srcKind = o.1
    · have hne : ¬ o.1 = a.tgtKind := fun h => hk4 (hk.trans h)
      rw [if_pos hk, if_pos hk.symm, if_neg hne, List.append_nil]
      rw [relatedTo_eq_addSource _ _ _ (by rw [hi, ← hk]; exact nestedJoin_tgt_out a _ _)]
      rw [hi, ← hk, nestedJoin_snoc_src]
    · have hne' : ¬ o.1 = a.srcKind := fun e => hk e.symm
      rw [if_neg hk, if_neg hne', List.append_nil]
      by_cases ht : o.1 = a.tgtKind
      · rw [if_pos ht]
        rw [nestedJoin_snoc_tgt_nomatch a _ _ _ (g.referredFirst a ha pre o suf horder ht)]
      · rw [if_neg ht, List.append_nil]

end Pyx.Load

namespace Pyx.Load

theorem apiRun_spec (ss : List Stmt) (order : List (String × List Val)) (g : ApiGuards ss order)
    (suf : List (String × List Val)) :
    ∀ (pre : List (String × List Val)) (m : Model), order = pre ++ suf → ApiInv ss pre m →
      ∃ m', apiRun suf m = (m', suf.map (fun _ => Outcome.ok)) ∧ ApiInv ss order m' := by
  induction suf with
  | nil =>
    intro pre m horder inv
    refine ⟨m, rfl, ?_⟩
    rw [horder, List.append_nil]
    exact inv
  | cons o suf ih =>
    intro pre m horder inv
    obtain ⟨m1, h1, inv1⟩ := apiNew_step ss order pre suf o g horder m inv
    obtain ⟨m', h2, inv'⟩ := ih (pre ++ [o]) m1 (by rw [horder]; simp) inv1
    refine ⟨m', ?_, inv'⟩
    simp only [apiRun, h1, h2, List.map_cons]

theorem apiInv_init (ss : List Stmt) : ApiInv ss [] (schemaModel ss) := by
  refine ⟨?_, ?_, ?_⟩
  · intro k
    simp only [schemaModel, findCls_popUniques]
    cases findCls (popClasses ss) k <;> simp [applyUniqs]
  · intro k
    simp only [schemaModel, rowsOf, findCls_popUniques, rawRows, List.filter_nil, List.map_nil]
    cases h : findCls (popClasses ss) k with
    | none => rfl
    | some c =>
      have := (popClasses_rows_nil ss c (List.mem_of_find?_eq_some h)).1
      simp [applyUniqs, this]
  · simp only [schemaModel]
    apply List.map_congr_left
    intro a _
    simp [rawRows, nestedJoin_nil_src]

/-! ### the same rows loaded from INSERT statements -/

/-- the INSERT statements with the values of the rows -/
def insertsOf (order : List (String × List Val)) : List Stmt := order.map (fun o => Stmt.insert o.1 none o.2)

theorem popClasses_inserts (order : List (String × List Val)) : popClasses (insertsOf order) = [] := by
  unfold popClasses insertsOf
  induction order with
  | nil => rfl
  | cons o os ih => simpa [List.filterMap_cons] using ih

theorem popAssocs_inserts (order : List (String × List Val)) : popAssocs (insertsOf order) = [] := by
  unfold popAssocs insertsOf
  induction order with
  | nil => rfl
  | cons o os ih => simpa [List.filterMap_cons] using ih

theorem uniqOf_inserts (order : List (String × List Val)) (k : String) : uniqOf (insertsOf order) k = [] := by
  unfold uniqOf insertsOf
  induction order with
  | nil => rfl
  | cons o os ih => simpa [List.filterMap_cons] using ih

theorem insOf_inserts (order : List (String × List Val)) (k : String) :
    insOf (insertsOf order) k = (order.filter (fun o => o.1 = k)).map (fun o => (none, o.2)) := by
  unfold insOf insertsOf
  induction order with
  | nil => rfl
  | cons o os ih =>
    by_cases h : o.1 = k
    · simp [List.filterMap_cons, List.filter_cons, h]
      simpa using ih
    · simp [List.filterMap_cons, List.filter_cons, h]
      simpa using ih

theorem insOf_schema (ss : List Stmt) (h : ∀ s ∈ ss, ∀ k ns vs, s ≠ .insert k ns vs) (k : String) : insOf ss k = [] := by
  unfold insOf
  rw [List.filterMap_eq_nil_iff]
  intro s hs
  cases s with
  | insert k' ns vs => exact absurd rfl (h _ hs k' ns vs)
  | cls _ _ => rfl
  | assoc _ => rfl
  | uniq _ _ _ => rfl

theorem popClasses_append (s1 s2 : List Stmt) : popClasses (s1 ++ s2) = popClasses s1 ++ popClasses s2 := by
  unfold popClasses; rw [List.filterMap_append]

theorem popAssocs_append (s1 s2 : List Stmt) : popAssocs (s1 ++ s2) = popAssocs s1 ++ popAssocs s2 := by
  unfold popAssocs; rw [List.filterMap_append]

theorem insOf_append (s1 s2 : List Stmt) (k : String) : insOf (s1 ++ s2) k = insOf s1 k ++ insOf s2 k := by
  unfold insOf; rw [List.filterMap_append]

/-- the loader's raw rows for schema + INSERTs are the rows the API route is given -/
theorem rowsOf_loaded (ss : List Stmt) (order : List (String × List Val)) (g : ApiGuards ss order) (k : String) :
    rowsOf (buildCore (ss ++ insertsOf order)).classes k = rawRows ss order k := by
  rw [rowsOf_buildCore]
  unfold clsSpec
  rw [popClasses_append, popClasses_inserts, List.append_nil, insOf_append, insOf_schema ss g.schemaOnly,
    List.nil_append, insOf_inserts]
  cases hc : findCls (popClasses ss) k with
  | some c =>
    simp only [rawRows, List.map_map]
    apply List.map_congr_left
    intro o ho
    have hk : o.1 = k := by simpa using (List.mem_filter.mp ho).2
    simp [rawRow, attrsOf, hk, hc]
  | none =>
    simp only
    have hnil : order.filter (fun o => o.1 = k) = [] := by
      rw [List.filter_eq_nil_iff]
      intro o ho hk
      have := (g.declared o ho).1
      simp only [decide_eq_true_eq] at hk
      rw [hk, hc] at this
      cases this
    simp [rawRows, hnil]

end Pyx.Load
