import Proofs.PrebuildExpr

/-
  C05 helper lemmas: the expression round trip `parseExpr (genExpr e ++ rest) = (e, rest)`.
-/
namespace Pyx.Prebuild
open Tok Kw Pn

theorem parsePostfix_stop (ctx : Ctx) (f : Nat) (acc : Expr) (rest : List Tok) (h : Stops rest) :
    parsePostfix ctx (f+1) acc rest = some (acc, rest) := by
  rw [parsePostfix.eq_def]
  simp only
  split
  · have := h _ _ rfl; simp [stopTok] at this
  · have := h _ _ rfl; simp [stopTok] at this
  · rfl

theorem parsePostfix_field (ctx : Ctx) (f : Nat) (acc : Expr) (n : String) (rest : List Tok)
    (h : ∀ r, rest ≠ p lpar :: r) :
    parsePostfix ctx (f+1) acc (p dot :: ident n :: rest) = parsePostfix ctx f (.field acc n) rest := by
  rw [parsePostfix.eq_def]
  simp only

theorem Stops.not_lpar {rest : List Tok} (h : Stops rest) : ∀ r, rest ≠ p lpar :: r := by
  intro r e; have := h _ _ e; simp [stopTok] at this

theorem parsePostfix_index (ctx : Ctx) (f : Nat) (acc i : Expr) (ts rest : List Tok)
    (h : parseExpr ctx f ts = some (i, p rsq :: rest)) :
    parsePostfix ctx (f+1) acc (p lsq :: ts) = parsePostfix ctx f (.index acc i) rest := by
  rw [parsePostfix.eq_def]
  simp only [h]

theorem parsePostfix_icall (ctx : Ctx) (f : Nat) (acc : Expr) (n : String) (ps : Params) (ts rest : List Tok)
    (h : parseParams ctx f ts = some (ps, p rpar :: rest)) :
    parsePostfix ctx (f+1) acc (p dot :: ident n :: p lpar :: ts) = some (.icall acc n ps, rest) := by
  rw [parsePostfix.eq_def]
  simp only [h]

/-- fuel written as a successor -/
theorem succ_of_le {a f : Nat} (h : a + 1 ≤ f) : ∃ g, f = g + 1 ∧ a ≤ g := ⟨f - 1, by omega, by omega⟩

/-! ### one-step unfoldings of `parseExpr` / `parseParams` -/

theorem parseExpr_num (ctx : Ctx) (f : Nat) (v : String) (r : List Tok) :
    parseExpr ctx (f+1) (num v :: r) = some (.int v, r) := by rw [parseExpr.eq_def]
theorem parseExpr_frac (ctx : Ctx) (f : Nat) (v : String) (r : List Tok) :
    parseExpr ctx (f+1) (frac v :: r) = some (.real v, r) := by rw [parseExpr.eq_def]
theorem parseExpr_str (ctx : Ctx) (f : Nat) (v : String) (r : List Tok) :
    parseExpr ctx (f+1) (str v :: r) = some (.str v, r) := by rw [parseExpr.eq_def]
theorem parseExpr_true (ctx : Ctx) (f : Nat) (r : List Tok) :
    parseExpr ctx (f+1) (kw true_ :: r) = some (.bool "true", r) := by rw [parseExpr.eq_def]
theorem parseExpr_false (ctx : Ctx) (f : Nat) (r : List Tok) :
    parseExpr ctx (f+1) (kw false_ :: r) = some (.bool "false", r) := by rw [parseExpr.eq_def]
theorem parseExpr_var (ctx : Ctx) (f : Nat) (n : String) (r : List Tok) :
    parseExpr ctx (f+1) (ident n :: r) = parsePostfix ctx f (.var n) r := by rw [parseExpr.eq_def]
theorem parseExpr_self (ctx : Ctx) (f : Nat) (r : List Tok) :
    parseExpr ctx (f+1) (kw self_ :: r) = parsePostfix ctx f .self r := by rw [parseExpr.eq_def]
theorem parseExpr_selected (ctx : Ctx) (f : Nat) (r : List Tok) :
    parseExpr ctx (f+1) (kw selected :: r) = parsePostfix ctx f .selected r := by rw [parseExpr.eq_def]
theorem parseExpr_param (ctx : Ctx) (f : Nat) (n : String) (r : List Tok) :
    parseExpr ctx (f+1) (kw param :: p dot :: ident n :: r) = parsePostfix ctx f (.param n) r := by
  rw [parseExpr.eq_def]

theorem parseExpr_un (ctx : Ctx) (f : Nat) (t : Tok) (op : String) (e : Expr) (r r' : List Tok)
    (h1 : nameOf unOps t = some op) (h2 : parseExpr ctx f r = some (e, p rpar :: r')) :
    parseExpr ctx (f+1) (p lpar :: t :: r) = some (.un op e, r') := by
  rw [parseExpr.eq_def]; simp only [h1, h2]

theorem parseExpr_bin (ctx : Ctx) (f : Nat) (t t2 : Tok) (op : String) (l rr : Expr) (r r2 r3 : List Tok)
    (h1 : nameOf unOps t = none) (h2 : parseExpr ctx f (t :: r) = some (l, t2 :: r2))
    (h3 : nameOf binOps t2 = some op) (h4 : parseExpr ctx f r2 = some (rr, p rpar :: r3)) :
    parseExpr ctx (f+1) (p lpar :: t :: r) = some (.bin l op rr, r3) := by
  rw [parseExpr.eq_def]; simp only [h1, h2, h3, h4]

theorem parseExpr_enum (ctx : Ctx) (f : Nat) (nsp n : String) (r : List Tok) (h : ∀ r1, r ≠ p lpar :: r1) :
    parseExpr ctx (f+1) (ns nsp :: p dcolon :: ident n :: r) = some (.enum nsp n, r) := by
  rw [parseExpr.eq_def]; simp only

theorem parseExpr_call (ctx : Ctx) (f : Nat) (nsp n : String) (ps : Params) (r1 r2 : List Tok)
    (h : parseParams ctx f r1 = some (ps, p rpar :: r2)) :
    parseExpr ctx (f+1) (ns nsp :: p dcolon :: ident n :: p lpar :: r1) =
      some (.call (resolve ctx nsp) nsp n ps, r2) := by
  rw [parseExpr.eq_def]; simp only [h]

theorem parseExpr_func (ctx : Ctx) (f : Nat) (n : String) (ps : Params) (r1 r2 : List Tok)
    (h : parseParams ctx f r1 = some (ps, p rpar :: r2)) :
    parseExpr ctx (f+1) (p dcolon :: ident n :: p lpar :: r1) = some (.call .func "" n ps, r2) := by
  rw [parseExpr.eq_def]; simp only [h]

theorem parseParams_nil (ctx : Ctx) (f : Nat) (r : List Tok) :
    parseParams ctx (f+1) (p rpar :: r) = some (.nil, p rpar :: r) := by rw [parseParams.eq_def]

theorem parseParams_last (ctx : Ctx) (f : Nat) (n : String) (e : Expr) (ts r : List Tok)
    (h : parseExpr ctx f ts = some (e, p rpar :: r)) :
    parseParams ctx (f+1) (ident n :: p colon :: ts) = some (.cons n e .nil, p rpar :: r) := by
  rw [parseParams.eq_def]; simp only [h]

theorem parseParams_more (ctx : Ctx) (f : Nat) (n : String) (e : Expr) (rest : Params) (ts r1 r2 : List Tok)
    (h1 : parseExpr ctx f ts = some (e, p comma :: r1)) (h2 : parseParams ctx f r1 = some (rest, r2)) :
    parseParams ctx (f+1) (ident n :: p colon :: ts) = some (.cons n e rest, r2) := by
  rw [parseParams.eq_def]; simp only [h1, h2]

/-! ### the round trip -/

theorem access_A (ctx : Ctx) (e : Expr) (hacc : isAccess e = true)
    (B : ∀ rest f, (∀ r, rest ≠ p lpar :: r) → szE e ≤ f →
        parseExpr ctx f (genExpr e ++ rest) = parsePostfix ctx (f - cE e) e rest) :
    ∀ rest f, Stops rest → szE e ≤ f → parseExpr ctx f (genExpr e ++ rest) = some (e, rest) := by
  intro rest f hs hf
  rw [B rest f hs.not_lpar hf]
  have := cE_lt_szE e hacc
  obtain ⟨g, hg⟩ : ∃ g, f - cE e = g + 1 := ⟨f - cE e - 1, by omega⟩
  rw [hg]; exact parsePostfix_stop ctx g e rest hs

/-- statement A: a printed expression followed by a stopping token reads back;
    statement B (access paths only): reading the printed path arrives at the postfix loop with the path as accumulator -/
def RT (ctx : Ctx) (e : Expr) : Prop :=
  (∀ rest f, Stops rest → szE e ≤ f → parseExpr ctx f (genExpr e ++ rest) = some (e, rest)) ∧
  (isAccess e = true → ∀ rest f, (∀ r, rest ≠ p lpar :: r) → szE e ≤ f →
      parseExpr ctx f (genExpr e ++ rest) = parsePostfix ctx (f - cE e) e rest)

theorem RT_of_B (ctx : Ctx) (e : Expr) (hacc : isAccess e = true)
    (B : ∀ rest f, (∀ r, rest ≠ p lpar :: r) → szE e ≤ f →
        parseExpr ctx f (genExpr e ++ rest) = parsePostfix ctx (f - cE e) e rest) : RT ctx e :=
  ⟨access_A ctx e hacc B, fun _ => B⟩

theorem RT_of_A (ctx : Ctx) (e : Expr) (hacc : isAccess e = false)
    (A : ∀ rest f, Stops rest → szE e ≤ f → parseExpr ctx f (genExpr e ++ rest) = some (e, rest)) : RT ctx e :=
  ⟨A, fun h => by rw [hacc] at h; cases h⟩

mutual
  theorem exprRT (ctx : Ctx) : ∀ (e : Expr), wfExpr ctx e = true → RT ctx e
    | .int v, _ => RT_of_A ctx _ rfl (fun rest f _ hf => by
        obtain ⟨g, rfl, _⟩ := succ_of_le (a := 0) (by simpa [szE] using hf)
        simp only [genExpr, List.cons_append, List.nil_append, parseExpr_num])
    | .real v, _ => RT_of_A ctx _ rfl (fun rest f _ hf => by
        obtain ⟨g, rfl, _⟩ := succ_of_le (a := 0) (by simpa [szE] using hf)
        simp only [genExpr, List.cons_append, List.nil_append, parseExpr_frac])
    | .str v, hw => RT_of_A ctx _ rfl (fun rest f _ hf => by
        obtain ⟨g, rfl, _⟩ := succ_of_le (a := 0) (by simpa [szE] using hf)
        have hv : requote v = v := by simpa [wfExpr] using hw
        simp only [genExpr, List.cons_append, List.nil_append, parseExpr_str, hv])
    | .bool v, hw => RT_of_A ctx _ rfl (fun rest f _ hf => by
        obtain ⟨g, rfl, _⟩ := succ_of_le (a := 0) (by simpa [szE] using hf)
        have hv : v = "true" ∨ v = "false" := by simpa [wfExpr] using hw
        rcases hv with rfl | rfl
        · have : boolTok "true" = kw true_ := by decide
          simp only [genExpr, List.cons_append, List.nil_append, this, parseExpr_true]
        · have : boolTok "false" = kw false_ := by decide
          simp only [genExpr, List.cons_append, List.nil_append, this, parseExpr_false])
    | .enum a b, _ => RT_of_A ctx _ rfl (fun rest f hs hf => by
        obtain ⟨g, rfl, _⟩ := succ_of_le (a := 0) (by simpa [szE] using hf)
        simp only [genExpr, List.cons_append, List.nil_append]
        exact parseExpr_enum ctx g a b rest hs.not_lpar)
    | .var n, _ => RT_of_B ctx _ rfl (fun rest f _ hf => by
        obtain ⟨g, rfl, _⟩ := succ_of_le (a := 1) (by simpa [szE] using hf)
        simp only [genExpr, List.cons_append, List.nil_append, parseExpr_var, cE, Nat.add_sub_cancel])
    | .self, _ => RT_of_B ctx _ rfl (fun rest f _ hf => by
        obtain ⟨g, rfl, _⟩ := succ_of_le (a := 1) (by simpa [szE] using hf)
        simp only [genExpr, List.cons_append, List.nil_append, parseExpr_self, cE, Nat.add_sub_cancel])
    | .selected, _ => RT_of_B ctx _ rfl (fun rest f _ hf => by
        obtain ⟨g, rfl, _⟩ := succ_of_le (a := 1) (by simpa [szE] using hf)
        simp only [genExpr, List.cons_append, List.nil_append, parseExpr_selected, cE, Nat.add_sub_cancel])
    | .param n, _ => RT_of_B ctx _ rfl (fun rest f _ hf => by
        obtain ⟨g, rfl, _⟩ := succ_of_le (a := 1) (by simpa [szE] using hf)
        simp only [genExpr, List.cons_append, List.nil_append, parseExpr_param, cE, Nat.add_sub_cancel])
    | .field h n, hw => by
        have hw' : isAccess h = true ∧ wfExpr ctx h = true := by simpa [wfExpr] using hw
        have ih := (exprRT ctx h hw'.2).2 hw'.1
        have hc := cE_lt_szE h hw'.1
        refine RT_of_B ctx _ rfl (fun rest f hr hf => ?_)
        simp only [szE] at hf
        simp only [genExpr, List.append_assoc, List.cons_append, List.nil_append]
        rw [ih _ f (by intro r e; cases e) (by omega)]
        obtain ⟨g, hg⟩ : ∃ g, f - cE h = g + 1 := ⟨f - cE h - 1, by omega⟩
        rw [hg, parsePostfix_field ctx g h n rest hr]
        congr 1; simp only [cE]; omega
    | .index h i, hw => by
        have hw' : (isAccess h = true ∧ wfExpr ctx h = true) ∧ wfExpr ctx i = true := by simpa [wfExpr] using hw
        have ih := (exprRT ctx h hw'.1.2).2 hw'.1.1
        have ii := (exprRT ctx i hw'.2).1
        have hc := cE_lt_szE h hw'.1.1
        refine RT_of_B ctx _ rfl (fun rest f hr hf => ?_)
        simp only [szE] at hf
        simp only [genExpr, List.append_assoc, List.cons_append, List.nil_append]
        rw [ih _ f (by intro r e; cases e) (by omega)]
        obtain ⟨g, hg⟩ : ∃ g, f - cE h = g + 1 := ⟨f - cE h - 1, by omega⟩
        rw [hg, parsePostfix_index ctx g h i _ rest (ii _ g (Stops.cons rfl) (by omega))]
        congr 1; simp only [cE]; omega
    | .un op e, hw => by
        have hw' : inTable unOps op = true ∧ wfExpr ctx e = true := by simpa [wfExpr] using hw
        have ie := (exprRT ctx e hw'.2).1
        refine RT_of_A ctx _ rfl (fun rest f _ hf => ?_)
        obtain ⟨g, rfl, hg⟩ := succ_of_le (a := szE e) (by simpa [szE] using hf)
        simp only [genExpr, List.append_assoc, List.cons_append, List.nil_append]
        exact parseExpr_un ctx g _ op e _ rest (tokOf_back unOps_back hw'.1) (ie _ g (Stops.cons rfl) hg)
    | .bin l op r, hw => by
        have hw' : (inTable binOps op = true ∧ wfExpr ctx l = true) ∧ wfExpr ctx r = true := by
          simpa [wfExpr] using hw
        have il := (exprRT ctx l hw'.1.2).1
        have ir := (exprRT ctx r hw'.2).1
        refine RT_of_A ctx _ rfl (fun rest f _ hf => ?_)
        obtain ⟨g, rfl, hg⟩ := succ_of_le (a := szE l + szE r) (by simpa [szE] using hf)
        obtain ⟨t, tl, htl, hst⟩ := genExpr_head l
        simp only [genExpr, List.append_assoc, List.cons_append, List.nil_append]
        have h2 := il (tokOf binOps op :: (genExpr r ++ p rpar :: rest)) g (Stops.cons (tokOf_binStop hw'.1.1))
          (by omega)
        rw [htl] at h2 ⊢
        exact parseExpr_bin ctx g t _ op l r _ _ rest (exprStart_not_unop t hst) h2
          (tokOf_back binOps_back hw'.1.1) (ir _ g (Stops.cons rfl) (by omega))
    | .call .func nsp name ps, hw => by
        have hw' : nsp = "" ∧ wfParams ctx ps = true := by simpa [wfExpr] using hw
        have ip := paramsRT ctx ps hw'.2
        refine RT_of_A ctx _ rfl (fun rest f _ hf => ?_)
        obtain ⟨g, rfl, hg⟩ := succ_of_le (a := szP ps) (by simpa [szE] using hf)
        simp only [genExpr, List.append_assoc, List.cons_append, List.nil_append]
        rw [parseExpr_func ctx g name ps _ rest (ip rest g hg), hw'.1]
    | .call .bridge nsp name ps, hw => by
        have hw' : resolve ctx nsp = .bridge ∧ wfParams ctx ps = true := by simpa [wfExpr] using hw
        have ip := paramsRT ctx ps hw'.2
        refine RT_of_A ctx _ rfl (fun rest f _ hf => ?_)
        obtain ⟨g, rfl, hg⟩ := succ_of_le (a := szP ps) (by simpa [szE] using hf)
        simp only [genExpr, List.append_assoc, List.cons_append, List.nil_append]
        rw [parseExpr_call ctx g nsp name ps _ rest (ip rest g hg), hw'.1]
    | .call .classop nsp name ps, hw => by
        have hw' : resolve ctx nsp = .classop ∧ wfParams ctx ps = true := by simpa [wfExpr] using hw
        have ip := paramsRT ctx ps hw'.2
        refine RT_of_A ctx _ rfl (fun rest f _ hf => ?_)
        obtain ⟨g, rfl, hg⟩ := succ_of_le (a := szP ps) (by simpa [szE] using hf)
        simp only [genExpr, List.append_assoc, List.cons_append, List.nil_append]
        rw [parseExpr_call ctx g nsp name ps _ rest (ip rest g hg), hw'.1]
    | .call .implicit _ _ _, hw => by simp [wfExpr] at hw
    | .call .port _ _ _, hw => by simp [wfExpr] at hw
    | .icall h name ps, hw => by
        have hw' : isVarOrSelf h = true ∧ wfParams ctx ps = true := by simpa [wfExpr] using hw
        have ip := paramsRT ctx ps hw'.2
        refine RT_of_A ctx _ rfl (fun rest f _ hf => ?_)
        simp only [szE] at hf
        cases h with
        | var v =>
          obtain ⟨g, rfl, hg⟩ := succ_of_le (a := szP ps + 2) (f := f) (by simp only [szE] at hf; omega)
          obtain ⟨g', rfl, hg'⟩ := succ_of_le (a := szP ps + 1) hg
          simp only [genExpr, List.append_assoc, List.cons_append, List.nil_append, parseExpr_var]
          exact parsePostfix_icall ctx g' _ name ps _ rest (ip rest g' (by omega))
        | self =>
          obtain ⟨g, rfl, hg⟩ := succ_of_le (a := szP ps + 2) (f := f) (by simp only [szE] at hf; omega)
          obtain ⟨g', rfl, hg'⟩ := succ_of_le (a := szP ps + 1) hg
          simp only [genExpr, List.append_assoc, List.cons_append, List.nil_append, parseExpr_self]
          exact parsePostfix_icall ctx g' _ name ps _ rest (ip rest g' (by omega))
        | _ => simp [isVarOrSelf] at hw'
  theorem paramsRT (ctx : Ctx) : ∀ (ps : Params), wfParams ctx ps = true → ∀ rest f, szP ps ≤ f →
      parseParams ctx f (genParams ps ++ p rpar :: rest) = some (ps, p rpar :: rest)
    | .nil, _ => fun rest f hf => by
        obtain ⟨g, rfl, _⟩ := succ_of_le (a := 0) (by simpa [szP] using hf)
        simp only [genParams, List.nil_append, parseParams_nil]
    | .cons n e .nil, hw => fun rest f hf => by
        have hw' : wfExpr ctx e = true := by simpa [wfParams] using hw
        have ie := (exprRT ctx e hw').1
        obtain ⟨g, rfl, hg⟩ := succ_of_le (a := szE e + 1) (by simpa [szP] using hf)
        simp only [genParams, List.cons_append, List.nil_append]
        exact parseParams_last ctx g n e _ rest (ie _ g (Stops.cons rfl) (by omega))
    | .cons n e (.cons n2 e2 r2), hw => fun rest f hf => by
        have hw' : wfExpr ctx e = true ∧ wfParams ctx (.cons n2 e2 r2) = true := by
          simpa [wfParams] using hw
        have ie := (exprRT ctx e hw'.1).1
        have ir := paramsRT ctx (.cons n2 e2 r2) hw'.2
        simp only [szP] at hf
        obtain ⟨g, rfl, hg⟩ := succ_of_le (a := szE e + (szE e2 + szP r2 + 1)) (by omega)
        have hgen : genParams (.cons n e (.cons n2 e2 r2)) =
            [ident n, p colon] ++ genExpr e ++ [p comma] ++ genParams (.cons n2 e2 r2) := by
          rw [genParams]; intro h; cases h
        rw [hgen]
        simp only [List.append_assoc, List.cons_append, List.nil_append]
        exact parseParams_more ctx g n e _ _ _ _ (ie _ g (Stops.cons rfl) (by omega))
          (ir rest g (by simp only [szP]; omega))
end

end Pyx.Prebuild
