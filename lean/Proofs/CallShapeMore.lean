import Proofs.CallShape

/-!
  C15 source tie, round 2 (continues Proofs/CallShape.lean): the NOT-FOUND side of the invocation forms with the untyped
  dictionary and the class fall-back of `Domain.find_symbol` as the source has them, where `Spec` and the source resolve a
  name differently (characterised, with witnesses in Props/C15.lean), attribute access (both accept_FieldAccessNode handlers: the
  return_value register of a derived attribute), accept_InvocationStatementNode, the two dictionaries of Domain.add_symbol for
  every registration order, and mk_external_entity.
-/
set_option linter.unusedSimpArgs false
set_option linter.unusedVariables false
namespace Pyx.CShape
open Pyx.Interp Pyx.Interp.M Pyx.Gen.CallShape
open Pyx.IShape (bind_run pure_run fail_run bnd_ok noMsg)

/-! ### the untyped dictionary as mk_component fills it -/

/-- `Domain.symbols`: mk_component registers the functions, then the enumerations, then the constants, then the external
    entities (`registrations`), each under its bare name: the LAST registration of a name is what the dictionary holds -/
def untypedOf (C : Ctx) (n : String) : Option Sym :=
  if hasBridges C n then some (.ee n)
  else match C.consts.lookup n with
    | some v => some (.const v)
    | none =>
      match C.enums.find? (fun d => d.name = n) with
      | some d => some (.enum d)
      | none => (findCallable C (fun f => f.kind = .function ∧ f.name = n)).map Sym.fn

/-- the domain exactly as the source builds it from the model elements of `C` -/
def srcDom (C : Ctx) : Dom := domOf C (untypedOf C)

theorem iFind_nil (D : Dom) (name : String) :
    iFind domain D name [] = (match D.untyped name with | some s => some s | none => D.findClass name) := by
  simp only [iFind, domain, List.flatMap_nil, List.findSome?_nil, List.findSome?_cons, probe]
  cases D.untyped name <;> simp
  cases D.findClass name <;> rfl

theorem noMsg_bind_fail {α β : Type} (m : M α) (a b : String) (c : Cfg) :
    noMsg ((m >>= fun _ => (M.fail a : M β)) c) = noMsg ((m >>= fun _ => (M.fail b : M β)) c) := by
  simp only [bind_run]
  cases m c with
  | none => rfl
  | some r => cases r with
    | error e => rfl
    | ok p => rfl

/-! ### `::f()` without the found hypothesis -/

/-- `::name(args)` for EVERY model: found, or not found — the source then falls back to the untyped dictionary (a constant,
    an enumeration or an external entity of that name: not callable, TypeError) and to the classes; the only case left out is a
    CLASS named like the missing function, which Python instantiates (`function_named_like_class_witness` in Props/C15.lean).
    Up to the text of the error. -/
theorem function_call_total (C : Ctx) (rec : Oracle) (name : String) (args : List (String × Expr)) (c : Cfg)
    (hcls : (findClass C name).isSome = false) :
    noMsg (evalStep C rec (.call .function name args) c) =
      noMsg (handlerE C gen (srcDom C) rec (invNode C gen (srcDom C) rec [("action_name", name)] none args)
        accept_FunctionInvocationNode c) := by
  cases hf : findCallable C (fun f => f.kind = .function ∧ f.name = name) with
  | some f => rw [srcDom, function_call_eq C (untypedOf C) rec name args f hf]
  | none =>
    have hby : (srcDom C).byKind "function" name = none := by simp only [srcDom, domOf, ↓reduceIte, hf, Option.map_none]
    have hfind : iFind gen.domain (srcDom C) name ["function"] =
        (match untypedOf C name with | some s => some s | none => none) := by
      show iFind domain _ _ _ = _
      rw [iFind_skip _ _ _ _ hby (.inl (by decide)), iFind_nil]
      simp only [srcDom, domOf, hcls, Bool.false_eq_true, ↓reduceIte]
    have hun : untypedOf C name = none ∨ (∃ ns, untypedOf C name = some (.ee ns)) ∨ (∃ v, untypedOf C name = some (.const v)) ∨
        (∃ d, untypedOf C name = some (.enum d)) := by
      unfold untypedOf
      cases hasBridges C name
      · simp only [Bool.false_eq_true, ↓reduceIte]
        cases C.consts.lookup name with
        | some v => exact .inr (.inr (.inl ⟨v, rfl⟩))
        | none =>
          cases C.enums.find? (fun d => d.name = name) with
          | some d => exact .inr (.inr (.inr ⟨d, rfl⟩))
          | none => simp only [hf, Option.map_none]; exact .inl trivial
      · exact .inr (.inl ⟨name, by simp⟩)
    simp only [invNode]
    rw [← paramList_eq C gen (srcDom C) rec args]
    rcases hun with hu | ⟨ns, hu⟩ | ⟨v, hu⟩ | ⟨d, hu⟩ <;>
    · rw [hu] at hfind
      cshape [accept_FunctionInvocationNode, hfind, hf]
      exact noMsg_bind_fail _ _ _ c

/-! ### where `Spec` and the source resolve `transform KL::op()` / `bridge EE::f()` differently -/

/-- why `Spec`'s clause for `transform KL::op()` must not use `resolveNs` (it did until round 2 of this tie: a bridge of an
    external entity KL first): the source asks for the class only, and `resolveNs` picks the same callable exactly when no bridge
    `op` of an external entity with the class's key letters exists -/
theorem transform_resolution_iff (C : Ctx) (ns name : String) (f : Callable)
    (hc : findCallable C (fun f => f.kind = .classOp ns ∧ f.name = name) = some f) :
    resolveNs C ns name = findCallable C (fun f => f.kind = .classOp ns ∧ f.name = name) ↔
      findCallable C (fun f => f.kind = .bridge ns ∧ f.name = name) = none := by
  constructor
  · intro h
    cases hb : findCallable C (fun f => f.kind = .bridge ns ∧ f.name = name) with
    | none => rfl
    | some g =>
      exfalso
      simp only [resolveNs, hb, hc, Option.some.injEq] at h
      have hk := (hasBridges_of_found hb).2
      rw [h, classOp_kind hc] at hk
      cases hk
  · intro h
    simp only [resolveNs, h]

/-- `bridge NS::op()` where NS names no external entity and nothing else in the untyped dictionary: the source falls back to the
    CLASS NS (find_class) and runs its class-based operation — as `Spec` does -/
theorem bridge_falls_back_to_class_eq (C : Ctx) (rec : Oracle) (ns name : String) (args : List (String × Expr)) (f : Callable)
    (hne : hasBridges C ns = false) (hu : untypedOf C ns = none) (hcls : (findClass C ns).isSome = true)
    (hc : findCallable C (fun f => f.kind = .classOp ns ∧ f.name = name) = some f) :
    evalStep C rec (.call (.bridge ns) name args) =
      handlerE C gen (srcDom C) rec (invNode C gen (srcDom C) rec [("namespace", ns), ("action_name", name)] none args)
        accept_BridgeInvocationNode := by
  have hfind : iFind gen.domain (srcDom C) ns ["external entity"] = some (.cls ns) := by
    show iFind domain _ _ _ = _
    rw [iFind_skip _ _ _ _ (by simp [srcDom, domOf, hne]) (.inl (by decide)), iFind_nil]
    simp only [srcDom, domOf, hu, hcls, ↓reduceIte]
  have hfn : gen.opCls = mk_operation_class_based := rfl
  have hk := classOp_kind hc
  cshape [accept_BridgeInvocationNode, invNode, hfind, resolveNs, no_bridge_of_none hne, hc, hk, hfn, call_opCls_eq, getattrSym,
    classAttr]
  rw [paramList_eq C gen (srcDom C) rec args]; simp only [handlerK, bind_assoc]; rfl

/-- `transform KL::op()` not found (no class-based and no instance-based operation `op`): the source fails at the look-up,
    BEFORE the parameters are evaluated — and so does `Spec`; up to the error text -/
theorem class_call_not_found_eq (C : Ctx) (rec : Oracle) (ns name : String) (args : List (String × Expr)) (c : Cfg)
    (hcls : (findClass C ns).isSome = true)
    (hc : findCallable C (fun f => f.kind = .classOp ns ∧ f.name = name) = none)
    (hi : findCallable C (fun f => f.kind = .instOp ns ∧ f.name = name) = none) :
    noMsg (evalStep C rec (.call (.classOp ns) name args) c) =
      noMsg (handlerE C gen (srcDom C) rec (invNode C gen (srcDom C) rec [("key_letter", ns), ("action_name", name)] none args)
        accept_ClassInvocationNode c) := by
  have hfind : iFind gen.domain (srcDom C) ns ["class"] = some (.cls ns) :=
    iFind_class _ _ _ _ (by simp [srcDom, domOf]) (by simp [srcDom, domOf, hcls]) (by simp [srcDom, domOf, hcls])
  cshape [accept_ClassInvocationNode, invNode, hfind, hc, hi, getattrSym, classAttr]
  rfl

/-! ### attribute access: both accept_FieldAccessNode handlers -/

/-- a handler that returns a property: the property itself -/
def sigP : Sig → M PV
  | .ret v => pure v
  | .next => fail "the handler returned nothing"

def handlerP (C : Ctx) (P : Parts) (D : Dom) (rec : Oracle) (nd : CNode) (body : List CStmt) : M PV := do
  let r ← iStmts C P D rec nd body []
  sigP r.2

/-- `getattr(inst, name)`: the property mk_derived_attribute put on the class (its getter receives the instance), else the
    stored / referential attribute -/
def attrGet (C : Ctx) (P : Parts) (rec : Oracle) (i : Inst) (name : String) : M Val :=
  match findDerived C i.cls name with
  | some f => callCallee P rec ⟨P.derived, f, some i.cls⟩ [.val (.inst i)] none
  | none => querySt (getAttr C i name)

/-- `setattr(inst, name, value)`: a property without a setter cannot be assigned -/
def attrSet (C : Ctx) (i : Inst) (name : String) (v : Val) : M Unit :=
  match findDerived C i.cls name with
  | some _ => fail ("derived attribute " ++ name ++ " cannot be assigned")
  | none => modifySt (setAttr C i name v)

/-- `<property>.fget()` -/
def fgetP (C : Ctx) (P : Parts) (rec : Oracle) : PV → M Val
  | .lval i n => attrGet C P rec i n
  | .reg => do
    let fr ← getFr
    pure fr.ret
  | .val v => pure v
  | _ => fail "fget of something that is not a property"

/-- `<property>.fset(value)` -/
def fsetP (C : Ctx) : PV → Val → M Unit
  | .lval i n, v => attrSet C i n v
  | .reg, v => setRet v
  | _, _ => fail "fset of something that has no setter"

def fieldNode (rec : Oracle) (h : Expr) (name : String) : CNode :=
  { str := fun f => if f = "name" then name else ""
    acceptE := fun f => if f = "handle" then some (rec.eval h) else none }

theorem findDerived_name {C : Ctx} {cls name : String} {f : Callable} (h : findDerived C cls name = some f) : f.name = name := by
  have := (findCallable_some h).1
  simp only [decide_eq_true_eq] at this
  exact this.2

theorem regHit_not_derived {fr : Frame} (hk : ∀ si a, fr.kind ≠ .derived si a) (i : Inst) (name : String) :
    regHit fr i name = false := by
  unfold regHit
  cases h : fr.kind <;> first | rfl | exact absurd h (hk _ _)

/-- `h.name` read outside derived attributes: ActionWalker.accept_FieldAccessNode, then the property's getter (`hfr`: evaluating
    the handle leaves the frame alone — `call_isolated` for every `run C n`) -/
theorem field_read_eq (C : Ctx) (D : Dom) (rec : Oracle) (h : Expr) (name : String) (c : Cfg)
    (hk : ∀ si a, c.fr.kind ≠ .derived si a) (hfr : ∀ v c1, rec.eval h c = some (.ok (v, c1)) → c1.fr = c.fr) :
    evalStep C rec (.field h name) c =
      (do let l ← handlerP C gen D rec (fieldNode rec h name) accept_FieldAccessNode
          fgetP C gen rec l) c := by
  cshape [handlerP, sigP, accept_FieldAccessNode, fieldNode]
  simp only [bind_run]
  cases hr : rec.eval h c with
  | none => rfl
  | some r => cases r with
    | error e => rfl
    | ok p =>
      obtain ⟨hv, c1⟩ := p
      have hc1 := hfr _ _ hr
      cases hv with
      | inst i =>
        have hreg : regHit c1.fr i name = false := regHit_not_derived (by rw [hc1]; exact hk) i name
        simp only [asInst, pure_run, fgetP, attrGet, readField, bind_run, show getFr c1 = some (.ok (c1.fr, c1)) from rfl, hreg,
          Bool.false_eq_true, ↓reduceIte]
        cases hd : findDerived C i.cls name with
        | none => rfl
        | some f =>
          have hg : gen.derived = mk_derived_attribute := rfl
          simp only [hg, call_derived_eq, findDerived_name hd]
      | _ => rfl

/-- `h.name` read INSIDE the derived attribute `a` of the instance `si`: DerivedAttributeWalker.accept_FieldAccessNode — the
    access `self.a` (same instance, same name) is the walker's return_value register, every other access the attribute -/
theorem field_read_derived_eq (C : Ctx) (D : Dom) (rec : Oracle) (h : Expr) (name : String) (c : Cfg) (si : Inst) (a : String)
    (hk : c.fr.kind = .derived si a) (hs : c.fr.self = .inst si)
    (hfr : ∀ v c1, rec.eval h c = some (.ok (v, c1)) → c1.fr = c.fr) :
    evalStep C rec (.field h name) c =
      (do let l ← handlerP C gen D rec (fieldNode rec h name) DerivedAttributeWalker_accept_FieldAccessNode
          fgetP C gen rec l) c := by
  cshape [handlerP, sigP, DerivedAttributeWalker_accept_FieldAccessNode, fieldNode]
  simp only [bind_run]
  cases hr : rec.eval h c with
  | none => rfl
  | some r => cases r with
    | error e => rfl
    | ok p =>
      obtain ⟨hv, c1⟩ := p
      have hc1 := hfr _ _ hr
      have hk1 : c1.fr.kind = .derived si a := by rw [hc1]; exact hk
      have hs1 : c1.fr.self = .inst si := by rw [hc1]; exact hs
      simp only [bind_run, show getFr c1 = some (.ok (c1.fr, c1)) from rfl, pure_run, iCond, hk1, hs1, Locals.get, List.lookup,
        String.reduceBEq, Option.getD_some, Bool.true_and, BEq.rfl]
      cases hv with
      | inst i =>
        by_cases hreg : name = a ∧ i = si
        · obtain ⟨rfl, rfl⟩ := hreg
          simp [asInst, pure_run, fgetP, readField, regHit, hk1, bind_run, show getFr c1 = some (.ok (c1.fr, c1)) from rfl,
            ]
        · have hreg' : regHit c1.fr i name = false := by simp [regHit, hk1, hreg]
          have hcond : ((name == a) && decide (i = si)) = false := by
            by_cases h1 : name = a <;> by_cases h2 : i = si <;> simp_all
          simp only [decide_true, Bool.true_and, ite_true, Val.inst.injEq, hcond, Bool.false_eq_true, ↓reduceIte, asInst, pure_run,
            bind_run, fgetP, attrGet, readField, show getFr c1 = some (.ok (c1.fr, c1)) from rfl, hreg']
          cases hd : findDerived C i.cls name with
          | none => rfl
          | some f =>
            have hg : gen.derived = mk_derived_attribute := rfl
            simp only [hg, call_derived_eq, findDerived_name hd]
      | _ => simp [asInst, bind_run, fail_run, pure_run]

/-- `h.name = v` outside derived attributes: the same property, its setter -/
theorem field_write_eq (C : Ctx) (D : Dom) (rec : Oracle) (h : Expr) (name : String) (v : Val) (c : Cfg)
    (hk : ∀ si a, c.fr.kind ≠ .derived si a) (hfr : ∀ v c1, rec.eval h c = some (.ok (v, c1)) → c1.fr = c.fr) :
    (do let hv ← rec.eval h
        let i ← asInst hv
        writeField C i name v) c =
      (do let l ← handlerP C gen D rec (fieldNode rec h name) accept_FieldAccessNode
          fsetP C l v) c := by
  cshape [handlerP, sigP, accept_FieldAccessNode, fieldNode]
  simp only [bind_run]
  cases hr : rec.eval h c with
  | none => rfl
  | some r => cases r with
    | error e => rfl
    | ok p =>
      obtain ⟨hv, c1⟩ := p
      have hc1 := hfr _ _ hr
      cases hv with
      | inst i =>
        have hreg : regHit c1.fr i name = false := regHit_not_derived (by rw [hc1]; exact hk) i name
        simp only [asInst, pure_run, fsetP, attrSet, writeField, bind_run, show getFr c1 = some (.ok (c1.fr, c1)) from rfl, hreg,
          Bool.false_eq_true, ↓reduceIte]
        cases findDerived C i.cls name <;> rfl
      | _ => rfl

/-- `h.name = v` inside the derived attribute `a` of `si`: `self.a = v` writes the return_value register -/
theorem field_write_derived_eq (C : Ctx) (D : Dom) (rec : Oracle) (h : Expr) (name : String) (v : Val) (c : Cfg) (si : Inst)
    (a : String) (hk : c.fr.kind = .derived si a) (hs : c.fr.self = .inst si)
    (hfr : ∀ v c1, rec.eval h c = some (.ok (v, c1)) → c1.fr = c.fr) :
    (do let hv ← rec.eval h
        let i ← asInst hv
        writeField C i name v) c =
      (do let l ← handlerP C gen D rec (fieldNode rec h name) DerivedAttributeWalker_accept_FieldAccessNode
          fsetP C l v) c := by
  cshape [handlerP, sigP, DerivedAttributeWalker_accept_FieldAccessNode, fieldNode]
  simp only [bind_run]
  cases hr : rec.eval h c with
  | none => rfl
  | some r => cases r with
    | error e => rfl
    | ok p =>
      obtain ⟨hv, c1⟩ := p
      have hc1 := hfr _ _ hr
      have hk1 : c1.fr.kind = .derived si a := by rw [hc1]; exact hk
      have hs1 : c1.fr.self = .inst si := by rw [hc1]; exact hs
      simp only [bind_run, show getFr c1 = some (.ok (c1.fr, c1)) from rfl, pure_run, iCond, hk1, hs1, Locals.get, List.lookup,
        String.reduceBEq, Option.getD_some, Bool.true_and, BEq.rfl]
      cases hv with
      | inst i =>
        by_cases hreg : name = a ∧ i = si
        · obtain ⟨rfl, rfl⟩ := hreg
          simp [asInst, pure_run, fsetP, writeField, regHit, hk1, bind_run, show getFr c1 = some (.ok (c1.fr, c1)) from rfl]
        · have hreg' : regHit c1.fr i name = false := by simp [regHit, hk1, hreg]
          have hcond : ((name == a) && decide (i = si)) = false := by
            by_cases h1 : name = a <;> by_cases h2 : i = si <;> simp_all
          simp only [decide_true, Bool.true_and, ite_true, Val.inst.injEq, hcond, Bool.false_eq_true, ↓reduceIte, asInst, pure_run,
            bind_run, fsetP, attrSet, writeField, show getFr c1 = some (.ok (c1.fr, c1)) from rfl, hreg']
          cases findDerived C i.cls name <;> rfl
      | _ => simp [asInst, bind_run, fail_run, pure_run]

/-- accept_InvocationStatementNode hands the invocation's property on; the statement list drops it -/
theorem invocation_statement_eq (C : Ctx) (P : Parts) (D : Dom) (rec : Oracle) (e : Expr) :
    execStep C rec (.invoke e) = (do
      let _ ← handlerE C P D rec { acceptE := fun f => if f = "invocation" then some (rec.eval e) else none }
        accept_InvocationStatementNode
      pure .normal) := by
  cshape [accept_InvocationStatementNode, execStep]

/-! ### `Domain.add_symbol` / `find_symbol`: the two dictionaries, for every registration order -/

structure Reg where
  name : String
  sym : Sym
  kind : Option String

/-- `add_symbol(name, handle, kind)` on the two dictionaries -/
def addSymbol (sh : DomainShape) (D : Dom) (r : Reg) : Dom :=
  { D with
    untyped := if sh.addUntyped then (fun n => if n = r.name then some r.sym else D.untyped n) else D.untyped
    byKind := match r.kind with
      | some k => if sh.addByKindIfKind then (fun k' n => if k' = k ∧ n = r.name then some r.sym else D.byKind k' n) else D.byKind
      | none => D.byKind }

def emptyDom : Dom := { byKind := fun _ _ => none, untyped := fun _ => none, isMetaclass := fun _ => false, findClass := fun _ => none }

def regAll (sh : DomainShape) (regs : List Reg) : Dom := regs.foldl (addSymbol sh) emptyDom

theorem foldl_byKind (k name : String) : ∀ (regs : List Reg) (D : Dom),
    (regs.foldl (addSymbol domain) D).byKind k name =
      (match regs.reverse.find? (fun r => decide (r.kind = some k ∧ r.name = name)) with
       | some r => some r.sym
       | none => D.byKind k name)
  | [], D => rfl
  | r :: rest, D => by
    rw [List.foldl_cons, foldl_byKind k name rest, List.reverse_cons, List.find?_append]
    cases rest.reverse.find? (fun r => decide (r.kind = some k ∧ r.name = name)) with
    | some r' => rfl
    | none =>
      simp only [Option.none_or, List.find?_cons, List.find?_nil]
      cases hk : r.kind with
      | none => simp [addSymbol, domain, hk]
      | some k0 =>
        by_cases h : k0 = k ∧ r.name = name
        · obtain ⟨rfl, rfl⟩ := h
          simp [addSymbol, domain, hk]
        · have h' : ¬ (k = k0 ∧ name = r.name) := fun ⟨a, b⟩ => h ⟨a.symm, b.symm⟩
          simp [addSymbol, domain, hk, h, h']

theorem regAll_byKind (regs : List Reg) (k name : String) :
    (regAll domain regs).byKind k name =
      ((regs.reverse.find? (fun r => decide (r.kind = some k ∧ r.name = name))).map Reg.sym) := by
  rw [regAll, foldl_byKind]
  cases regs.reverse.find? (fun r => decide (r.kind = some k ∧ r.name = name)) <;> rfl

/-- the kind-qualified dictionary: whatever is registered, in whatever order, under OTHER kinds (or without a kind) with the
    same name, `find_symbol(name, k)` delivers the symbol registered LAST under (k, name) -/
theorem find_symbol_by_kind (regs : List Reg) (k name : String) (r : Reg)
    (h : regs.reverse.find? (fun r => decide (r.kind = some k ∧ r.name = name)) = some r) (ks : List String) :
    ∃ s, iFind domain (regAll domain regs) name (k :: ks) = some s ∧ (regAll domain regs).byKind k name = some s := by
  have hb := regAll_byKind regs k name
  rw [h] at hb
  exact ⟨r.sym, iFind_hit _ _ _ _ _ hb, hb⟩

/-! ### mk_external_entity -/

/-- `EE = namedtuple(key letters, names); EE(*funcs)` then `getattr(ee, name)`: the value at the position of the field -/
def eeGetattr (sh : ExternalEntityShape) (brgs : List Callable) (name : String) : Option Callee :=
  if sh.namesFrom = sh.funcsFrom ∧ sh.nameOf = "Name" ∧ sh.maker = "mk_bridge" ∧ sh.fields = "names" ∧ sh.values = "funcs" then
    ((brgs.map Callable.name).zip (brgs.map (fun f => (⟨mk_bridge, f, none⟩ : Callee)))).lookup name
  else none

theorem zip_lookup (brgs : List Callable) (g : Callable → Callee) (name : String) :
    ((brgs.map Callable.name).zip (brgs.map g)).lookup name = (brgs.find? (fun f => f.name = name)).map g := by
  induction brgs with
  | nil => rfl
  | cons f rest ih =>
    simp only [List.map, List.zip_cons_cons, List.lookup, List.find?_cons]
    by_cases h : name = f.name
    · simp [h]
    · have h' : ¬ f.name = name := fun e => h e.symm
      have hb : (name == f.name) = false := by simp [h]
      simp [hb, h', ih]

/-- the bridges of the external entity `ns`, in the order of `many(s_ee).S_BRG[19]()` -/
def bridgesOf (C : Ctx) (ns : String) : List Callable := C.callables.filter (fun f => decide (f.kind = .bridge ns))

theorem ee_getattr_eq (C : Ctx) (ns name : String) :
    eeGetattr mk_external_entity (bridgesOf C ns) name =
      (findCallable C (fun f => f.kind = .bridge ns ∧ f.name = name)).map (fun f => (⟨mk_bridge, f, none⟩ : Callee)) := by
  simp only [eeGetattr, mk_external_entity, and_self, ↓reduceIte, zip_lookup, bridgesOf, findCallable, List.find?_filter]
  congr 2
  funext f
  simp [Bool.and_comm]

end Pyx.CShape
