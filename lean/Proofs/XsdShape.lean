import PyxModel.Extract.Xsd
import Gen.XsdShape
import Proofs.ExtractFuel

/-!
  C20 source tie, statement structure of bridgepoint/gen_xsd_schema.py: a GENERIC interpreter of the first-order IR that
  translator/gen_xsdshape.py extracts (`Pyx.Gen.XsdShape`), over class diagrams (`Pyx.Extract.ClassDiagram`), producing the
  model's XML tree type, and the lemmas showing that the hand-written model functions of PyxModel/Extract/Xsd.lean equal that
  interpretation of the IR generated from the current source.

  The interpreter (`evalG`, `iStmt`, `iStmts`, `run`) is defined once, for ANY IR value; only the `…_eq` lemmas mention the
  generated constants.  What it fixes, once, is the meaning of the ATOMS (the hand-modelled environment):

    an instance of the population     = `Ent`: a row of the diagram (S_DT and its R17 subtype row, the i-th S_ENUM of an
                                        enumeration, O_OBJ, O_ATTR and its R106 / R107 subtype rows, C_C)
    `.<KL>[<rel>, '<phrase>']`        = `navStep`: R17, R18, R27, R56 (both phrases), R102, R106, R107, R113, R114 read off
                                        the diagram; any other (class, number, phrase) reaches NOTHING (so a changed
                                        association number or phrase changes the result)
    navigate_any / navigate_one       = the first instance reached (after the filter), or None; navigating from None
                                        reaches nothing
    navigate_many, select_many        = the instances in MODELED order (`d.dts`, `d.classes`, for R102: the attributes off
                                        the R103 chain, then the chain) — the real QuerySets are ordered by row order,
                                        which the harness canonicalises; a `for` runs in that order
    `<x>.<attr>`                      = `fieldOf` (name, key_lett, core_typ)
    Python truthiness                 = `truthy`: None, '', 0, empty set are false; an ELEMENT has no truth value here
                                        (ElementTree's is "has children": a test `if datatype:` would be stuck)
    ET.Element / SubElement / append / set = one tree under construction per function; a local holds the PATH of its
                                        element in it; what a callee returned is a finished tree
    a call of a function of the module / of ooaofooa.is_global, is_contained_in
                                      = `oracle`: what the MODEL says that function returns (`xtypeOf`, `xclassAll`,
                                        `isGlobal`, `containedIn`, …).  Each `…_eq` lemma shows that the body of a function,
                                        with its callees read that way, returns what the oracle says for the function
                                        itself: the usual modular (partial-correctness) argument; the one recursive
                                        function (get_refered_attribute) satisfies its own equation.
    while                             = `whileLoop` with fuel (one unit per test of the condition); exhaustion = stuck
-/
set_option linter.unusedSimpArgs false
set_option linter.unusedVariables false
namespace Pyx.XShape
open Pyx.Extract Pyx.Gen.XsdShape

/-! ### values -/

inductive Ent where
  | sdt (t : DataType)            -- S_DT
  | cdt (t : DataType)            -- the S_CDT row of t (exists iff t.kind = core _)
  | edt (t : DataType)            -- S_EDT
  | udt (t : DataType)            -- S_UDT
  | senum (t : DataType) (i : Nat)   -- the i-th S_ENUM (R56 order) of the enumeration t
  | obj (c : Class)               -- O_OBJ
  | attr (a : Attr)               -- O_ATTR
  | rattr (a : Attr)              -- its O_RATTR row (kind = ref)
  | battr (a : Attr)              -- its O_BATTR row (kind = base / derived)
  | dbattr (a : Attr)             -- its O_DBATTR row (kind = derived)
  | cc (k : Container)            -- C_C

inductive V where
  | none
  | str (s : String)
  | nat (n : Nat)
  | bool (b : Bool)
  | ent (e : Ent)
  | ents (l : List Ent)
  | elem (path : List Nat)        -- an element of the tree under construction
  | tree (t : XmlTree)            -- a finished tree (returned by a callee)
  | lam (param : String) (body : Expr)
  | model                         -- the metamodel `m`

abbrev Locals := List (String × V)

def truthy : V → Option Bool
  | .none => some false
  | .str s => some (s != "")
  | .nat n => some (n != 0)
  | .bool b => some b
  | .ent _ => some true
  | .ents l => some (!l.isEmpty)
  | _ => none

def optStr : Option String → V
  | some s => .str s
  | none => .none

def optTree : Option XmlTree → V
  | some t => .tree t
  | none => .none

/-! ### atoms: the population of a diagram -/

def enumsOf (t : DataType) : List String :=
  match t.kind with
  | .enum es => es
  | _ => []

def fieldOf (e : Ent) (f : String) : Option V :=
  match e with
  | .sdt t => if f = "name" then some (.str t.name) else none
  | .cdt t => if f = "core_typ" then (match t.kind with | .core n => some (.nat n) | _ => none) else none
  | .senum t i => if f = "name" then (enumsOf t)[i]?.map V.str else none
  | .obj c => if f = "key_lett" then some (.str c.kl) else none
  | .attr a => if f = "name" then some (.str a.name) else none
  | .cc k => if f = "name" then some (.str k.name) else none
  | _ => none

def dtEnt (d : ClassDiagram) (id : Nat) : List Ent := (findDt d.dts id).toList.map Ent.sdt

/-- `.<cls>[<rel>, '<phrase>']` from one instance -/
def navStep (d : ClassDiagram) (e : Ent) (s : Step) : List Ent :=
  match e with
  | .sdt t =>
    if s = ⟨"S_CDT", 17, ""⟩ then (match t.kind with | .core _ => [.cdt t] | _ => [])
    else if s = ⟨"S_EDT", 17, ""⟩ then (match t.kind with | .enum _ => [.edt t] | _ => [])
    else if s = ⟨"S_UDT", 17, ""⟩ then (match t.kind with | .user _ => [.udt t] | _ => [])
    else []
  | .cdt t => if s = ⟨"S_DT", 17, ""⟩ then [.sdt t] else []
  | .edt t =>
    if s = ⟨"S_DT", 17, ""⟩ then [.sdt t]
    else if s = ⟨"S_ENUM", 27, ""⟩ then (List.range (enumsOf t).length).map (Ent.senum t)
    else []
  | .udt t =>
    if s = ⟨"S_DT", 17, ""⟩ then [.sdt t]
    else if s = ⟨"S_DT", 18, ""⟩ then (match t.kind with | .user b => dtEnt d b | _ => [])
    else []
  | .senum t i =>
    -- X 'succeeds' Y: Y is the one before X; X 'precedes' Y: Y is the one after X
    if s = ⟨"S_ENUM", 56, "succeeds"⟩ then (match i with | 0 => [] | j + 1 => [.senum t j])
    else if s = ⟨"S_ENUM", 56, "precedes"⟩ then (if i + 1 < (enumsOf t).length then [.senum t (i + 1)] else [])
    else []
  | .obj c => if s = ⟨"O_ATTR", 102, ""⟩ then (looseOf d c.id ++ c.attrs).map Ent.attr else []
  | .attr a =>
    if s = ⟨"O_RATTR", 106, ""⟩ then (match a.kind with | .ref _ _ => [.rattr a] | _ => [])
    else if s = ⟨"O_BATTR", 106, ""⟩ then (match a.kind with | .ref _ _ => [] | _ => [.battr a])
    else if s = ⟨"S_DT", 114, ""⟩ then
      -- the own type of a referential attribute is same_as<Base_Attribute> (core type 7): the model has no row for it
      (match a.kind with | .base dt => dtEnt d dt | .derived dt => dtEnt d dt | .ref _ _ => [])
    else []
  | .rattr a =>
    if s = ⟨"O_BATTR", 113, ""⟩ then
      (match a.kind with
       | .ref c b =>
         (match (findClass d c).bind (fun k => k.findAttr b) with
          | some ba => (match ba.kind with | .ref _ _ => [] | _ => [.battr ba])
          | none => [])
       | _ => [])
    else []
  | .battr a =>
    if s = ⟨"O_ATTR", 106, ""⟩ then [.attr a]
    else if s = ⟨"O_DBATTR", 107, ""⟩ then (match a.kind with | .derived _ => [.dbattr a] | _ => [])
    else []
  | .dbattr _ => []
  | .cc _ => []

def navSteps (d : ClassDiagram) : List Ent → List Step → List Ent
  | l, [] => l
  | l, s :: rest => navSteps d (l.flatMap (fun e => navStep d e s)) rest

def navResult (k : NavKind) (l : List Ent) : V :=
  match k with
  | .many => .ents l
  | _ => match l with
    | [] => .none
    | e :: _ => .ent e

def poolOf (d : ClassDiagram) (cls : String) : Option (List Ent) :=
  if cls = "S_DT" then some (d.dts.map Ent.sdt)
  else if cls = "O_OBJ" then some (d.classes.map Ent.obj)
  else none

def parentOf : Ent → Option Parent
  | .sdt t => some t.parent
  | .obj c => some c.parent
  | _ => none

def filterOpt (p : Ent → Option Bool) : List Ent → Option (List Ent)
  | [] => some []
  | e :: rest =>
    match p e, filterOpt p rest with
    | some b, some r => some (if b then e :: r else r)
    | _, _ => none

theorem filterOpt_eq (p : Ent → Option Bool) (q : Ent → Bool) : ∀ (l : List Ent), (∀ e ∈ l, p e = some (q e)) →
    filterOpt p l = some (l.filter q)
  | [], _ => rfl
  | e :: rest, h => by
    have ih := filterOpt_eq p q rest (fun x hx => h x (List.mem_cons_of_mem _ hx))
    simp only [filterOpt, h e (List.mem_cons_self ..), ih, List.filter_cons]

/-! ### expressions -/

def startOf : V → Option (List Ent)
  | .none => some []
  | .ent e => some [e]
  | .ents l => some l
  | _ => none

def lookupAll (L : Locals) : List String → Option (List V)
  | [] => some []
  | x :: rest =>
    match L.lookup x, lookupAll L rest with
    | some v, some vs => some (v :: vs)
    | _, _ => none

/-- filter of a navigation / selection: none, or a local holding a lambda -/
def filterBy (app : Locals → String → Expr → V → Option V) (L : Locals) (flt : Option String) (l : List Ent) :
    Option (List Ent) :=
  match flt with
  | none => some l
  | some f =>
    match L.lookup f with
    | some (.lam p body) => filterOpt (fun e => (app L p body (.ent e)).bind truthy) l
    | _ => none

def evalG (d : ClassDiagram) (calls : String → List V → Option V) (app : Locals → String → Expr → V → Option V)
    (L : Locals) : Expr → Option V
  | .var x => L.lookup x
  | .none => some .none
  | .str s => some (.str s)
  | .field x f =>
    match L.lookup x with
    | some (.ent e) => fieldOf e f
    | _ => none
  | .nav k start steps flt =>
    match (L.lookup start).bind startOf with
    | some cands =>
      match filterBy app L flt (navSteps d cands steps) with
      | some kept => some (navResult k kept)
      | none => none
    | none => none
  | .selectMany m cls flt =>
    match L.lookup m, poolOf d cls with
    | some .model, some pool =>
      match filterBy app L flt pool with
      | some kept => some (.ents kept)
      | none => none
    | _, _ => none
  | .call fn args =>
    match lookupAll L args with
    | some vs => calls fn vs
    | none => none
  | .inRange e lo hi =>
    match evalG d calls app L e with
    | some (.nat n) => some (.bool (decide (lo ≤ n) && decide (n < hi)))
    | _ => none
  | .eqStr e s =>
    match evalG d calls app L e with
    | some (.str t) => some (.bool (t == s))
    | _ => none
  | .and_ a b =>
    match evalG d calls app L a with
    | some va =>
      match truthy va with
      | some true => evalG d calls app L b
      | some false => some va
      | none => none
    | none => none
  | .not_ a =>
    match (evalG d calls app L a).bind truthy with
    | some t => some (.bool (!t))
    | none => none
  | .isNotNone e =>
    match evalG d calls app L e with
    | some .none => some (.bool false)
    | some _ => some (.bool true)
    | none => none

/-- the body of a lambda: no filter inside (a lambda of the source never applies another one) -/
def eval0 (d : ClassDiagram) (calls : String → List V → Option V) (L : Locals) (e : Expr) : Option V :=
  evalG d calls (fun _ _ _ _ => none) L e

def eval (d : ClassDiagram) (calls : String → List V → Option V) (L : Locals) (e : Expr) : Option V :=
  evalG d calls (fun L p body v => eval0 d calls ((p, v) :: L) body) L e

/-! ### the tree under construction -/

def modifyAt (f : XmlTree → XmlTree) : XmlTree → List Nat → Option XmlTree
  | t, [] => some (f t)
  | .node tg a ch, i :: p =>
    match ch[i]? with
    | some c =>
      match modifyAt f c p with
      | some c' => some (.node tg a (ch.set i c'))
      | none => none
    | none => none

def nodeAt : XmlTree → List Nat → Option XmlTree
  | t, [] => some t
  | .node _ _ ch, i :: p =>
    match ch[i]? with
    | some c => nodeAt c p
    | none => none

def addChild (x : XmlTree) : XmlTree → XmlTree
  | .node tg a ch => .node tg a (ch ++ [x])

/-- `Element.set(key, value)`: a dict assignment -/
def setKey (key value : String) : XmlTree → XmlTree
  | .node tg a ch =>
    .node tg (if a.any (fun p => p.1 == key) then a.map (fun p => if p.1 == key then (key, value) else p) else a ++ [(key, value)]) ch

def evalAttrs (ev : Expr → Option V) : List (String × Expr) → Option (List (String × String))
  | [] => some []
  | (k, e) :: rest =>
    match ev e, evalAttrs ev rest with
    | some (.str s), some r => some ((k, s) :: r)
    | _, _ => none

structure St where
  L : Locals
  root : Option XmlTree

inductive Sig where
  | next
  | ret (v : V)

def whileLoop (cond : St → Option Bool) (body : St → Option (St × Sig)) : Nat → St → Option (St × Sig)
  | 0, _ => none
  | n + 1, st =>
    match cond st with
    | some true =>
      match body st with
      | some (st', .next) => whileLoop cond body n st'
      | some (st', .ret v) => some (st', .ret v)
      | none => none
    | some false => some (st, .next)
    | none => none

def forLoop (body : Ent → St → Option (St × Sig)) : List Ent → St → Option (St × Sig)
  | [], st => some (st, .next)
  | e :: rest, st =>
    match body e st with
    | some (st', .next) => forLoop body rest st'
    | some (st', .ret v) => some (st', .ret v)
    | none => none

/-- `return <v>`: the element under construction is returned as the finished tree -/
def retVal (st : St) : V → Option V
  | .elem [] => st.root.map V.tree
  | .elem _ => none
  | v => some v

mutual
  def iStmt (d : ClassDiagram) (calls : String → List V → Option V) (fuel : Nat) (st : St) : Stmt → Option (St × Sig)
    | .assign dst e =>
      match eval d calls st.L e with
      | some v => some ({ st with L := (dst, v) :: st.L }, .next)
      | none => none
    | .lambda dst p body => some ({ st with L := (dst, .lam p body) :: st.L }, .next)
    | .element dst tag attrs =>
      match st.root, evalAttrs (eval d calls st.L) attrs with
      | none, some as => some ({ L := (dst, .elem []) :: st.L, root := some (.node tag as []) }, .next)
      | _, _ => none
    | .subElement dst parent tag attrs =>
      match st.L.lookup parent, st.root, evalAttrs (eval d calls st.L) attrs with
      | some (.elem p), some r, some as =>
        match nodeAt r p, modifyAt (addChild (.node tag as [])) r p with
        | some n, some r' =>
          some ({ L := (match dst with | some x => (x, .elem (p ++ [n.children.length])) :: st.L | none => st.L),
                  root := some r' }, .next)
        | _, _ => none
      | _, _, _ => none
    | .append parent e =>
      match st.L.lookup parent, st.root, eval d calls st.L e with
      | some (.elem p), some r, some (.tree t) =>
        match modifyAt (addChild t) r p with
        | some r' => some ({ st with root := some r' }, .next)
        | none => none
      | _, _, _ => none
    | .setAttr x key e =>
      match st.L.lookup x, st.root, eval d calls st.L e with
      | some (.elem p), some r, some (.str s) =>
        match modifyAt (setKey key s) r p with
        | some r' => some ({ st with root := some r' }, .next)
        | none => none
      | _, _, _ => none
    | .log _ => some (st, .next)
    | .ifThen c thn els =>
      match (eval d calls st.L c).bind truthy with
      | some true => iStmts d calls fuel st thn
      | some false => iStmts d calls fuel st els
      | none => none
    | .whileDo c body =>
      whileLoop (fun s => (eval d calls s.L c).bind truthy) (fun s => iStmts d calls fuel s body) fuel st
    | .forIn v e body =>
      match eval d calls st.L e with
      | some (.ents l) => forLoop (fun x s => iStmts d calls fuel { s with L := (v, .ent x) :: s.L } body) l st
      | _ => none
    | .ret e =>
      match (eval d calls st.L e).bind (retVal st) with
      | some v => some (st, .ret v)
      | none => none
  def iStmts (d : ClassDiagram) (calls : String → List V → Option V) (fuel : Nat) (st : St) : List Stmt → Option (St × Sig)
    | [] => some (st, .next)
    | s :: rest =>
      match iStmt d calls fuel st s with
      | some (st', .next) => iStmts d calls fuel st' rest
      | some (st', .ret v) => some (st', .ret v)
      | none => none
end

def bindParams : List String → List V → Option Locals
  | [], [] => some []
  | p :: ps, v :: vs => (bindParams ps vs).map (fun L => (p, v) :: L)
  | _, _ => none

/-- a call of `f` with the argument values `args`; falling off the end returns None -/
def run (d : ClassDiagram) (calls : String → List V → Option V) (fuel : Nat) (f : Fn) (args : List V) : Option V :=
  match bindParams f.params args with
  | some L =>
    match iStmts d calls fuel { L := L, root := none } f.body with
    | some (_, .ret v) => some v
    | some (_, .next) => some .none
    | none => none
  | none => none

/-! ### what the model says each function returns -/

/-- `get_type_name` on a row: what the code RETURNS (an empty name included; the callers test it for truthiness) -/
def rawTypeName (t : DataType) : Option String :=
  match t.kind with
  | .core n => if 1 ≤ n ∧ n ≤ 5 then some t.name else none
  | .enum _ => some t.name
  | .user _ => some t.name
  | .other => none

/-- `get_refered_attribute`: the base attribute a referential attribute refers to over R113 (itself when there is none) -/
def referred (d : ClassDiagram) (a : Attr) : Attr :=
  match a.kind with
  | .ref c b =>
    match (findClass d c).bind (fun k => k.findAttr b) with
    | some ba => (match ba.kind with | .ref _ _ => a | _ => ba)
    | none => a
  | _ => a

def classesOf (d : ClassDiagram) (comp : Nat) : List XClass :=
  (d.classes.filter (fun c => containedIn d.containers d.pkgrefs comp c.parent)).map (xclassAll d)

def typesOf (d : ClassDiagram) (comp : Nat) : List XType :=
  (d.dts.filter (fun t => isGlobal d.containers t.parent)).filterMap (xtypeOf d.dts) ++
  (d.dts.filter (fun t => containedIn d.containers d.pkgrefs comp t.parent && !isGlobal d.containers t.parent)).filterMap (xtypeOf d.dts)

def oracle (d : ClassDiagram) (fn : String) (args : List V) : Option V :=
  if fn = "get_type_name" then
    (match args with
     | [.ent (.sdt t)] => some (optStr (rawTypeName t))
     | [.none] => some .none
     | _ => none)
  else if fn = "get_refered_attribute" then
    (match args with
     | [.ent (.attr a)] => some (.ent (.attr (referred d a)))
     | _ => none)
  else if fn = "build_core_type" then
    (match args with
     | [.ent (.cdt t)] => some (optTree ((coreXs t.name).map (fun b => renderType (.restriction t.name b))))
     | _ => none)
  else if fn = "build_enum_type" then
    (match args with
     | [.ent (.edt t)] => some (.tree (renderType (.enumeration t.name (enumsOf t))))
     | _ => none)
  else if fn = "build_user_type" then
    (match args with
     | [.ent (.udt t)] =>
       (match t.kind with
        | .user b => some (optTree ((typeNameOf d.dts b).map (fun bn => renderType (.restriction t.name bn))))
        | _ => none)
     | _ => none)
  else if fn = "build_type" then
    (match args with
     | [.ent (.sdt t)] => some (optTree ((xtypeOf d.dts t).map renderType))
     | _ => none)
  else if fn = "build_class" then
    (match args with
     | [.ent (.obj c)] => some (.tree (renderClass (xclassAll d c)))
     | _ => none)
  else if fn = "build_component" then
    (match args with
     | [.model, .ent (.cc k)] => some (.tree (renderComp k.name (classesOf d k.id)))
     | _ => none)
  else if fn = "build_schema" then
    (match args with
     | [.model, .ent (.cc k)] => some (.tree (render { types := typesOf d k.id, comp := k.name, classes := classesOf d k.id }))
     | _ => none)
  else if fn = "ooaofooa.is_global" then
    (match args with
     | [.ent e] => (parentOf e).map (fun p => .bool (isGlobal d.containers p))
     | _ => none)
  else if fn = "ooaofooa.is_contained_in" then
    (match args with
     | [.ent e, .ent (.cc k)] => (parentOf e).map (fun p => .bool (containedIn d.containers d.pkgrefs k.id p))
     | _ => none)
  else none

/-- the interpretation of a function of the module, callees read by the model -/
def interp (d : ClassDiagram) (fuel : Nat) (f : Fn) (args : List V) : Option V := run d (oracle d) fuel f args

/-! ### the lemmas: one per function -/

macro "xshape" "[" ts:Lean.Parser.Tactic.simpLemma,* "]" : tactic =>
  `(tactic| simp only [interp, run, bindParams, iStmts, iStmt, eval, eval0, evalG, filterBy, lookupAll, startOf, navSteps, navStep,
      navResult, retVal, truthy, fieldOf, evalAttrs, nodeAt, modifyAt, addChild, setKey, XmlTree.children, oracle, optStr, optTree,
      List.lookup, List.flatMap_cons, List.flatMap_nil, List.append_nil, List.nil_append, List.cons_append,
      Option.map_some, Option.map_none, Option.bind_some, Option.bind_none,
      ↓reduceIte, String.reduceEq, String.reduceBEq, String.reduceBNe, Step.mk.injEq, Nat.reduceEqDiff, reduceCtorEq, and_true, true_and, and_false,
      false_and, and_self, Option.some.injEq, bne_self_eq_false, Bool.not_true, Bool.not_false, Bool.false_eq_true,
      List.getElem?_cons_zero, List.set_cons_zero, List.length_nil, List.length_cons, $ts,*])

theorem get_type_name_eq (d : ClassDiagram) (fuel : Nat) (t : DataType) :
    interp d fuel get_type_name [.ent (.sdt t)] = some (optStr (rawTypeName t)) := by
  cases hk : t.kind with
  | core n =>
    xshape [get_type_name, rawTypeName, hk]
    by_cases h : 1 ≤ n ∧ n ≤ 5
    · have h1 : decide (1 ≤ n) = true := by simp [h.1]
      have h2 : decide (n < 6) = true := by simp; omega
      simp [h1, h2, h, iStmts, iStmt, eval, evalG, fieldOf, retVal, List.lookup, optStr]
    · have h2 : (decide (1 ≤ n) && decide (n < 6)) = false := by
        cases h' : (decide (1 ≤ n) && decide (n < 6)) with
        | false => rfl
        | true => simp at h'; exact absurd ⟨h'.1, by omega⟩ h
      simp [h2, h, iStmts, iStmt, eval, evalG, fieldOf, retVal, List.lookup, optStr, navSteps, navStep, navResult, startOf, filterBy, hk, truthy]
  | enum es => xshape [get_type_name, rawTypeName, hk]
  | user b => xshape [get_type_name, rawTypeName, hk]
  | other => xshape [get_type_name, rawTypeName, hk]

theorem get_type_name_none_eq (d : ClassDiagram) (fuel : Nat) :
    interp d fuel get_type_name [.none] = some .none := by
  xshape [get_type_name]

theorem referred_fix (d : ClassDiagram) (a : Attr) (h : ∀ c b, a.kind ≠ .ref c b) : referred d a = a := by
  unfold referred
  cases hk : a.kind with
  | ref c b => exact absurd hk (h c b)
  | base dt => rfl
  | derived dt => rfl

/-- the recursive call is read by the oracle: `referred` satisfies the equation the source states -/
theorem get_refered_attribute_eq (d : ClassDiagram) (fuel : Nat) (a : Attr) :
    interp d fuel get_refered_attribute [.ent (.attr a)] = some (.ent (.attr (referred d a))) := by
  cases hk : a.kind with
  | base dt => xshape [get_refered_attribute, referred, hk]
  | derived dt => xshape [get_refered_attribute, referred, hk]
  | ref c b =>
    cases hl : (findClass d c).bind (fun k => k.findAttr b) with
    | none => xshape [get_refered_attribute, referred, hk, hl]
    | some ba =>
      cases hb : ba.kind with
      | ref c' b' => xshape [get_refered_attribute, referred, hk, hl, hb]
      | base dt =>
        have hf : referred d ba = ba := referred_fix d ba (by intro c b h; rw [hb] at h; cases h)
        xshape [get_refered_attribute, referred, hk, hl, hb, hf]
      | derived dt =>
        have hf : referred d ba = ba := referred_fix d ba (by intro c b h; rw [hb] at h; cases h)
        xshape [get_refered_attribute, referred, hk, hl, hb, hf]

theorem build_core_type_eq (d : ClassDiagram) (fuel : Nat) (t : DataType) :
    interp d fuel build_core_type [.ent (.cdt t)] =
      some (optTree ((coreXs t.name).map (fun b => renderType (.restriction t.name b)))) := by
  have c1 : coreXs "void" = none := by decide
  have c2 : coreXs "boolean" = some "xs:boolean" := by decide
  have c3 : coreXs "integer" = some "xs:integer" := by decide
  have c4 : coreXs "real" = some "xs:decimal" := by decide
  have c5 : coreXs "string" = some "xs:string" := by decide
  have c6 : coreXs "unique_id" = some "xs:integer" := by decide
  generalize hnm : t.name = nm
  by_cases h1 : nm = "void"
  · xshape [build_core_type, hnm, h1, c1]
  by_cases h2 : nm = "boolean"
  · xshape [build_core_type, hnm, h2, c2, renderType, leaf]
  by_cases h3 : nm = "integer"
  · xshape [build_core_type, hnm, h3, c3, renderType, leaf]
  by_cases h4 : nm = "real"
  · xshape [build_core_type, hnm, h4, c4, renderType, leaf]
  by_cases h5 : nm = "string"
  · xshape [build_core_type, hnm, h5, c5, renderType, leaf]
  by_cases h6 : nm = "unique_id"
  · xshape [build_core_type, hnm, h6, c6, renderType, leaf]
  have e1 : (nm == "void") = false := by simp [h1]
  have e2 : (nm == "boolean") = false := by simp [h2]
  have e3 : (nm == "integer") = false := by simp [h3]
  have e4 : (nm == "real") = false := by simp [h4]
  have e5 : (nm == "string") = false := by simp [h5]
  have e6 : (nm == "unique_id") = false := by simp [h6]
  have hc : coreXs nm = none := by
    unfold coreXs
    have : Gen.XsdCore.table.find? (fun p => p.1 == nm) = none := by
      apply List.find?_eq_none.mpr
      intro p hp
      simp only [Gen.XsdCore.table, List.mem_cons, List.not_mem_nil, or_false] at hp
      rcases hp with rfl | rfl | rfl | rfl | rfl | rfl <;> simp [Ne.symm h1, Ne.symm h2, Ne.symm h3, Ne.symm h4, Ne.symm h5, Ne.symm h6]
    rw [this]
  xshape [build_core_type, hnm, e1, e2, e3, e4, e5, e6, hc]

/-- the model's `typeNameOf` is the returned name tested for truthiness (what every caller does) -/
theorem typeNameOf_raw (dts : List DataType) (b : Nat) :
    typeNameOf dts b = ((findDt dts b).bind rawTypeName).filter (fun s => s != "") := by
  unfold typeNameOf
  cases hf : findDt dts b with
  | none => rfl
  | some tb =>
    simp only [Option.bind_some, rawTypeName]
    cases hkb : tb.kind with
    | core n => by_cases h : 1 ≤ n ∧ n ≤ 5 <;> by_cases hn : tb.name = "" <;> simp [h, hn, Option.filter]
    | enum es => by_cases hn : tb.name = "" <;> simp [hn, Option.filter]
    | user b' => by_cases hn : tb.name = "" <;> simp [hn, Option.filter]
    | other => by_cases hn : tb.name = "" <;> simp [hn, Option.filter]

theorem build_user_type_eq (d : ClassDiagram) (fuel : Nat) (t : DataType) (b : Nat) (hk : t.kind = .user b) :
    interp d fuel build_user_type [.ent (.udt t)] =
      some (optTree ((typeNameOf d.dts b).map (fun bn => renderType (.restriction t.name bn)))) := by
  rw [typeNameOf_raw]
  cases hf : findDt d.dts b with
  | none => xshape [build_user_type, hk, dtEnt, hf, Option.toList, List.map_nil, Option.filter]
  | some tb =>
    cases ho : rawTypeName tb with
    | none => xshape [build_user_type, hk, dtEnt, hf, Option.toList, List.map_cons, List.map_nil, ho, Option.filter]
    | some s =>
      by_cases hs : s = ""
      · subst hs
        xshape [build_user_type, hk, dtEnt, hf, Option.toList, List.map_cons, List.map_nil, ho, Option.filter]
      · have hne : (s != "") = true := by simp [hs]
        xshape [build_user_type, hk, dtEnt, hf, Option.toList, List.map_cons, List.map_nil, ho, Option.filter, hne, renderType, leaf]

theorem build_type_eq (d : ClassDiagram) (fuel : Nat) (t : DataType) :
    interp d fuel build_type [.ent (.sdt t)] = some (optTree ((xtypeOf d.dts t).map renderType)) := by
  cases hk : t.kind with
  | core n => xshape [build_type, xtypeOf, hk]; cases coreXs t.name <;> rfl
  | enum es => xshape [build_type, xtypeOf, hk, enumsOf]
  | user b => xshape [build_type, xtypeOf, hk]; cases typeNameOf d.dts b <;> rfl
  | other => xshape [build_type, xtypeOf, hk]

/-! ### build_class -/

def curV : Option DataType → V
  | some t => .ent (.sdt t)
  | none => .none

/-- `while S_UDT[17]: s_dt = S_UDT[17].S_DT[18]` on rows: where the walk ends (outer none = fuel exhausted) -/
def walkFuel (dts : List DataType) : Nat → Option DataType → Option (Option DataType)
  | 0, _ => none
  | _ + 1, none => some none
  | f + 1, some t =>
    match t.kind with
    | .user b => walkFuel dts f (findDt dts b)
    | _ => some (some t)

def nameOK (t : DataType) : Option String := (rawTypeName t).filter (fun s => s != "")

theorem baseTypeFuel_walk (dts : List DataType) : ∀ (f id : Nat),
    baseTypeFuel dts f id = (walkFuel dts f (findDt dts id)).bind (fun r => r.bind nameOK)
  | 0, id => by simp [baseTypeFuel, walkFuel]
  | f + 1, id => by
    unfold baseTypeFuel
    cases hf : findDt dts id with
    | none => simp [walkFuel]
    | some t =>
      cases hk : t.kind with
      | user b => simp only [walkFuel, hk]; exact baseTypeFuel_walk dts f b
      | core n =>
        simp only [walkFuel, hk, Option.bind_some, nameOK, rawTypeName]
        by_cases h : 1 ≤ n ∧ n ≤ 5 <;> by_cases hn : t.name = "" <;> simp [h, hn, Option.filter]
        all_goals (intro h1 h2; exact absurd ⟨h1, h2⟩ h)
      | enum es =>
        simp only [walkFuel, hk, Option.bind_some, nameOK, rawTypeName]
        by_cases hn : t.name = "" <;> simp [hn, Option.filter]
      | other => simp [walkFuel, hk, nameOK, rawTypeName, Option.filter]

theorem walk_total {dts : List DataType} (depth : Nat → Nat)
    (hdec : ∀ t ∈ dts, ∀ b, t.kind = .user b → depth b < depth t.id) :
    ∀ (f id : Nat), depth id < f → ∃ r, walkFuel dts f (findDt dts id) = some r
  | 0, id, h => by omega
  | f + 1, id, h => by
    cases hf : findDt dts id with
    | none => exact ⟨none, rfl⟩
    | some t =>
      have hm := findDt_mem' hf
      cases hk : t.kind with
      | user b =>
        have := hdec t hm.1 b hk
        simp only [walkFuel, hk]
        exact walk_total depth hdec f b (by rw [hm.2] at this; omega)
      | core n => exact ⟨some t, by simp [walkFuel, hk]⟩
      | enum es => exact ⟨some t, by simp [walkFuel, hk]⟩
      | other => exact ⟨some t, by simp [walkFuel, hk]⟩

def walkSt (d : ClassDiagram) : Nat → Option DataType → St → St
  | 0, _, st => st
  | _ + 1, none, st => st
  | n + 1, some t, st =>
    match t.kind with
    | .user b => walkSt d n (findDt d.dts b) { st with L := ("s_dt", curV (findDt d.dts b)) :: st.L }
    | _ => st

theorem walkSt_root (d : ClassDiagram) : ∀ n cur st, (walkSt d n cur st).root = st.root
  | 0, _, _ => rfl
  | _ + 1, none, _ => rfl
  | n + 1, some t, st => by
    unfold walkSt
    split
    · rw [walkSt_root d n]
    · rfl

theorem walkSt_other (d : ClassDiagram) (x : String) (hx : (x == "s_dt") = false) :
    ∀ n cur st, (walkSt d n cur st).L.lookup x = st.L.lookup x
  | 0, _, _ => rfl
  | _ + 1, none, _ => rfl
  | n + 1, some t, st => by
    unfold walkSt
    split
    · rw [walkSt_other d x hx n]; simp only [List.lookup, hx]
    · rfl

theorem walkSt_sdt (d : ClassDiagram) : ∀ n cur st r, st.L.lookup "s_dt" = some (curV cur) → walkFuel d.dts n cur = some r →
    (walkSt d n cur st).L.lookup "s_dt" = some (curV r)
  | 0, _, _, _, _, h => by simp [walkFuel] at h
  | _ + 1, none, st, r, hl, h => by simp [walkFuel] at h; subst h; exact hl
  | n + 1, some t, st, r, hl, h => by
    unfold walkSt
    cases hk : t.kind with
    | user b =>
      simp only [walkFuel, hk] at h
      exact walkSt_sdt d n _ _ r (by simp [List.lookup]) h
    | core k => simp [walkFuel, hk] at h; subst h; exact hl
    | enum es => simp [walkFuel, hk] at h; subst h; exact hl
    | other => simp [walkFuel, hk] at h; subst h; exact hl

def isUser : Option DataType → Bool
  | some t => (match t.kind with | .user _ => true | _ => false)
  | none => false

theorem while_walk (d : ClassDiagram) (C : St → Option Bool) (B : St → Option (St × Sig))
    (hC : ∀ s cur, s.L.lookup "s_dt" = some (curV cur) → C s = some (isUser cur))
    (hB : ∀ s t b, s.L.lookup "s_dt" = some (curV (some t)) → t.kind = .user b →
      B s = some ({ s with L := ("s_dt", curV (findDt d.dts b)) :: s.L }, .next)) :
    ∀ n cur st r, st.L.lookup "s_dt" = some (curV cur) → walkFuel d.dts n cur = some r →
      whileLoop C B n st = some (walkSt d n cur st, .next)
  | 0, _, _, _, _, h => by simp [walkFuel] at h
  | _ + 1, none, st, r, hl, h => by simp [whileLoop, hC st none hl, isUser, walkSt]
  | n + 1, some t, st, r, hl, h => by
    cases hk : t.kind with
    | user b =>
      simp only [walkFuel, hk] at h
      simp only [whileLoop, hC st _ hl, isUser, hk, hB st t b hl hk, walkSt]
      exact while_walk d C B hC hB n _ _ r (by simp [List.lookup]) h
    | core k => simp [whileLoop, hC st _ hl, isUser, hk, walkSt]
    | enum es => simp [whileLoop, hC st _ hl, isUser, hk, walkSt]
    | other => simp [whileLoop, hC st _ hl, isUser, hk, walkSt]

def dtOfAttr (d : ClassDiagram) (a : Attr) : Option DataType :=
  match a.kind with
  | .base dt => findDt d.dts dt
  | .derived dt => findDt d.dts dt
  | .ref _ _ => none

theorem cur0_eq (d : ClassDiagram) (a : Attr) : (attrDt d a).bind (findDt d.dts) = dtOfAttr d (referred d a) := by
  unfold attrDt referred dtOfAttr
  cases hk : a.kind with
  | base dt => simp [hk]
  | derived dt => simp [hk]
  | ref c b =>
    simp only
    cases hl : (findClass d c).bind (fun k => k.findAttr b) with
    | none => simp [hk]
    | some ba => cases hb : ba.kind <;> simp [hk, hb]

theorem navResult_dtEnt (d : ClassDiagram) (b : Nat) : navResult .any (dtEnt d b) = curV (findDt d.dts b) := by
  unfold dtEnt
  cases findDt d.dts b <;> rfl

theorem forLoop_inv {α : Type} (Inv : List α → St → Prop) (f : Ent → List α) (body : Ent → St → Option (St × Sig)) :
    ∀ (l : List Ent), (∀ e ∈ l, ∀ acc st, Inv acc st → ∃ st', body e st = some (st', .next) ∧ Inv (acc ++ f e) st') →
    ∀ acc st, Inv acc st → ∃ st', forLoop body l st = some (st', .next) ∧ Inv (acc ++ l.flatMap f) st'
  | [], _, acc, st, hi => ⟨st, rfl, by simpa using hi⟩
  | e :: rest, h, acc, st, hi => by
    obtain ⟨st1, h1, hi1⟩ := h e (List.mem_cons_self ..) acc st hi
    obtain ⟨st2, h2, hi2⟩ := forLoop_inv Inv f body rest (fun x hx => h x (List.mem_cons_of_mem _ hx)) _ st1 hi1
    refine ⟨st2, ?_, ?_⟩
    · simp only [forLoop, h1, h2]
    · simpa [List.flatMap_cons, List.append_assoc] using hi2

structure ClsInv (c : Class) (acc : List XAttr) (st : St) : Prop where
  attrs : st.L.lookup "attributes" = some (.elem [0])
  cls : st.L.lookup "cls" = some (.elem [])
  root : st.root = some (.node "xs:element" [("name", c.kl), ("minOccurs", "0"), ("maxOccurs", "unbounded")]
    [.node "xs:complexType" [] (acc.map renderAttr)])

macro "xeval" "[" ts:Lean.Parser.Tactic.simpLemma,* "]" : tactic =>
  `(tactic| simp only [eval, eval0, evalG, filterBy, lookupAll, startOf, navSteps, navStep, oracle,
      List.lookup, List.flatMap_cons, List.flatMap_nil, List.append_nil, List.nil_append, List.cons_append,
      Option.map_some, Option.map_none, Option.bind_some, Option.bind_none,
      ↓reduceIte, String.reduceEq, String.reduceBEq, String.reduceBNe, Step.mk.injEq, Nat.reduceEqDiff, reduceCtorEq, and_true, true_and, and_false,
      false_and, and_self, $ts,*])

theorem eval_referred (d : ClassDiagram) (L : Locals) (a : Attr) (hl : L.lookup "o_attr" = some (.ent (.attr a))) :
    eval d (oracle d) L (.call "get_refered_attribute" ["o_attr"]) = some (.ent (.attr (referred d a))) := by
  xeval [hl]

theorem eval_attr_dt (d : ClassDiagram) (L : Locals) (a' : Attr) (hl : L.lookup "o_attr_ref" = some (.ent (.attr a'))) :
    eval d (oracle d) L (.nav .any "o_attr_ref" [⟨"S_DT", 114, ""⟩] none) = some (curV (dtOfAttr d a')) := by
  xeval [hl]
  unfold dtOfAttr
  cases a'.kind <;> simp only [navResult_dtEnt] <;> rfl

theorem eval_is_user (d : ClassDiagram) (L : Locals) (cur : Option DataType) (hl : L.lookup "s_dt" = some (curV cur)) :
    (eval d (oracle d) L (.nav .any "s_dt" [⟨"S_UDT", 17, ""⟩] none)).bind truthy = some (isUser cur) := by
  cases cur with
  | none => xeval [hl, curV]; rfl
  | some t => xeval [hl, curV]; cases hk : t.kind <;> simp [isUser, hk, navResult, truthy]

theorem step_base (d : ClassDiagram) (fuel : Nat) (s : St) (t : DataType) (b : Nat)
    (hl : s.L.lookup "s_dt" = some (curV (some t))) (hk : t.kind = .user b) :
    iStmts d (oracle d) fuel s [.assign "s_dt" (.nav .any "s_dt" [⟨"S_UDT", 17, ""⟩, ⟨"S_DT", 18, ""⟩] none)] =
      some ({ s with L := ("s_dt", curV (findDt d.dts b)) :: s.L }, .next) := by
  simp only [iStmts, iStmt]
  xeval [hl, curV, hk, navResult_dtEnt]

theorem eval_type_name (d : ClassDiagram) (L : Locals) (r : Option DataType) (hl : L.lookup "s_dt" = some (curV r)) :
    eval d (oracle d) L (.call "get_type_name" ["s_dt"]) = some (optStr (r.bind rawTypeName)) := by
  cases r with
  | none => xeval [hl, curV]; rfl
  | some t => xeval [hl, curV]

theorem eval_declared (d : ClassDiagram) (L : Locals) (o : Option String) (a : Attr)
    (h1 : L.lookup "type_name" = some (optStr o)) (h2 : L.lookup "o_attr" = some (.ent (.attr a))) :
    (eval d (oracle d) L (.and_ (.var "type_name")
      (.not_ (.nav .any "o_attr" [⟨"O_BATTR", 106, ""⟩, ⟨"O_DBATTR", 107, ""⟩] none)))).bind truthy =
      some ((o.filter (fun s => s != "")).isSome && !a.isDerived) := by
  cases o with
  | none => xeval [h1, h2, optStr, truthy]; rfl
  | some s =>
    by_cases hs : s = ""
    · subst hs; xeval [h1, h2, optStr, truthy]; rfl
    · have hne : (s != "") = true := by simp [hs]
      xeval [h1, h2, optStr, truthy, hne]
      cases hk : a.kind <;> simp [Attr.isDerived, hk, navResult, truthy, Option.filter, hne]

theorem iStmts_assign {d : ClassDiagram} {calls : String → List V → Option V} {fuel : Nat} {st : St} {x : String} {e : Expr}
    {v : V} {rest : List Stmt} (h : eval d calls st.L e = some v) :
    iStmts d calls fuel st (.assign x e :: rest) = iStmts d calls fuel { st with L := (x, v) :: st.L } rest := by
  simp only [iStmts, iStmt, h]

theorem iStmts_while {d : ClassDiagram} {calls : String → List V → Option V} {fuel : Nat} {st st' : St} {c : Expr}
    {body rest : List Stmt}
    (h : whileLoop (fun s => (eval d calls s.L c).bind truthy) (fun s => iStmts d calls fuel s body) fuel st = some (st', .next)) :
    iStmts d calls fuel st (.whileDo c body :: rest) = iStmts d calls fuel st' rest := by
  simp only [iStmts, iStmt, h]

theorem iStmts_if {d : ClassDiagram} {calls : String → List V → Option V} {fuel : Nat} {st : St} {c : Expr} {b : Bool}
    {thn els : List Stmt} (h : (eval d calls st.L c).bind truthy = some b) :
    iStmts d calls fuel st [.ifThen c thn els] =
      (match iStmts d calls fuel st (if b then thn else els) with
       | some (st', .next) => some (st', .next)
       | some (st', .ret v) => some (st', .ret v)
       | none => none) := by
  cases b <;> simp only [iStmts, iStmt, h] <;> rfl

theorem nameOK_bind (r : Option DataType) : r.bind nameOK = (r.bind rawTypeName).filter (fun s => s != "") := by
  cases r <;> rfl

/-- the body of the attribute loop of build_class, as generated -/
def classBody : List Stmt :=
  match build_class.body with
  | [_, _, .forIn _ _ b, _] => b
  | _ => []

theorem class_body (d : ClassDiagram) (chain : DtChainOk d.dts) (c : Class) (a : Attr) (acc : List XAttr) (st : St)
    (hi : ClsInv c acc st) :
    ∃ st', iStmts d (oracle d) (d.dts.length + 1) { st with L := ("o_attr", .ent (.attr a)) :: st.L } classBody = some (st', .next) ∧
      ClsInv c (acc ++ (xattr d a).toList) st' := by
  obtain ⟨depth, hdec, hb⟩ := chain.ex
  obtain ⟨r, hr⟩ : ∃ r, walkFuel d.dts (d.dts.length + 1) (dtOfAttr d (referred d a)) = some r := by
    unfold dtOfAttr
    cases (referred d a).kind with
    | base dt => exact walk_total depth hdec _ dt (by have := hb dt; omega)
    | derived dt => exact walk_total depth hdec _ dt (by have := hb dt; omega)
    | ref _ _ => exact ⟨none, rfl⟩
  have hx : xattr d a = if a.isDerived then none else (r.bind nameOK).map (fun n => { name := a.name, ty := n }) := by
    unfold xattr baseTypeName
    cases hd : attrDt d a with
    | none =>
      have := cur0_eq d a
      rw [hd] at this
      simp only [Option.bind_none] at this
      rw [← this] at hr
      simp [walkFuel] at hr
      subst hr
      simp
    | some dt =>
      have := cur0_eq d a
      rw [hd] at this
      simp only [Option.bind_some] at this
      rw [← this] at hr
      simp only [Option.bind_some, baseTypeFuel_walk, hr]
  have hnav : navResult .any (match (referred d a).kind with
      | .base dt => dtEnt d dt | .derived dt => dtEnt d dt | .ref _ _ => []) = curV (dtOfAttr d (referred d a)) := by
    unfold dtOfAttr
    cases (referred d a).kind <;> simp only [navResult_dtEnt] <;> rfl
  simp only [classBody, build_class]
  rw [iStmts_assign (eval_referred d _ a (by simp [List.lookup]))]
  rw [iStmts_assign (eval_attr_dt d _ (referred d a) (by simp [List.lookup]))]
  have hw := while_walk d _ _ (fun s cur h => eval_is_user d s.L cur h)
    (fun s t b h hk => step_base d (d.dts.length + 1) s t b h hk) (d.dts.length + 1) (dtOfAttr d (referred d a))
    { L := ("s_dt", curV (dtOfAttr d (referred d a))) :: ("o_attr_ref", V.ent (Ent.attr (referred d a))) ::
        ("o_attr", V.ent (Ent.attr a)) :: st.L, root := st.root } r (by simp [List.lookup]) hr
  rw [iStmts_while hw]
  have hsdt := walkSt_sdt d (d.dts.length + 1) (dtOfAttr d (referred d a))
    { L := ("s_dt", curV (dtOfAttr d (referred d a))) :: ("o_attr_ref", V.ent (Ent.attr (referred d a))) ::
        ("o_attr", V.ent (Ent.attr a)) :: st.L, root := st.root } r (by simp [List.lookup]) hr
  rw [iStmts_assign (eval_type_name d _ r hsdt)]
  have hoa : ∀ x, (x == "s_dt") = false → (x == "o_attr_ref") = false → List.lookup x (walkSt d (d.dts.length + 1) (dtOfAttr d (referred d a))
      { L := ("s_dt", curV (dtOfAttr d (referred d a))) :: ("o_attr_ref", V.ent (Ent.attr (referred d a))) ::
        ("o_attr", V.ent (Ent.attr a)) :: st.L, root := st.root }).L = List.lookup x (("o_attr", V.ent (Ent.attr a)) :: st.L) := by
    intro x h1 h2
    rw [walkSt_other d x h1]
    simp only [List.lookup, h1, h2]
  rw [nameOK_bind] at hx
  have hcond := eval_declared d (("type_name", optStr (r.bind rawTypeName)) :: (walkSt d (d.dts.length + 1) (dtOfAttr d (referred d a))
      { L := ("s_dt", curV (dtOfAttr d (referred d a))) :: ("o_attr_ref", V.ent (Ent.attr (referred d a))) ::
        ("o_attr", V.ent (Ent.attr a)) :: st.L, root := st.root }).L) (r.bind rawTypeName) a (by simp [List.lookup])
      (by simp only [List.lookup, String.reduceBEq]; rw [hoa _ (by decide) (by decide)]; simp [List.lookup])
  rw [iStmts_if hcond]
  generalize hoe : r.bind rawTypeName = o at *
  generalize hW : walkSt d (d.dts.length + 1) (dtOfAttr d (referred d a))
      { L := ("s_dt", curV (dtOfAttr d (referred d a))) :: ("o_attr_ref", V.ent (Ent.attr (referred d a))) ::
        ("o_attr", V.ent (Ent.attr a)) :: st.L, root := st.root } = W at *
  have hroot : W.root = st.root := by rw [← hW, walkSt_root]
  have hA : List.lookup "attributes" (("type_name", optStr o) :: W.L) = some (.elem [0]) := by
    simp only [List.lookup, String.reduceBEq]; rw [hoa _ (by decide) (by decide)]
    simp only [List.lookup, String.reduceBEq]; exact hi.attrs
  have hC : List.lookup "cls" (("type_name", optStr o) :: W.L) = some (.elem []) := by
    simp only [List.lookup, String.reduceBEq]; rw [hoa _ (by decide) (by decide)]
    simp only [List.lookup, String.reduceBEq]; exact hi.cls
  have hO : List.lookup "o_attr" (("type_name", optStr o) :: W.L) = some (.ent (.attr a)) := by
    simp only [List.lookup, String.reduceBEq]; rw [hoa _ (by decide) (by decide)]
    simp only [List.lookup, String.reduceBEq]
  cases hf : o.filter (fun s => s != "") with
  | none =>
    simp only [hf, Option.isSome_none, Bool.false_and, Bool.false_eq_true, ↓reduceIte, iStmts, iStmt]
    refine ⟨_, rfl, ?_⟩
    rw [hx]; simp only [hf, Option.map_none, ite_self, Option.toList_none, List.append_nil]
    exact ⟨hA, hC, by rw [hroot]; exact hi.root⟩
  | some s =>
    cases hd : a.isDerived with
    | true =>
      simp only [hf, Bool.not_true, Bool.and_false, Bool.false_eq_true, ↓reduceIte, iStmts, iStmt]
      refine ⟨_, rfl, ?_⟩
      rw [hx]; simp only [hd, ↓reduceIte, Option.toList_none, List.append_nil]
      exact ⟨hA, hC, by rw [hroot]; exact hi.root⟩
    | false =>
      have ho : o = some s := by
        cases o with
        | none => simp [Option.filter] at hf
        | some s' => simp only [Option.filter] at hf; split at hf <;> simp at hf; rw [hf]
      subst ho
      have hA' : List.lookup "attributes" W.L = some (.elem [0]) := by simpa only [List.lookup, String.reduceBEq] using hA
      have hO' : List.lookup "o_attr" W.L = some (.ent (.attr a)) := by simpa only [List.lookup, String.reduceBEq] using hO
      simp only [hf, Option.isSome_some, Bool.not_false, Bool.and_self, ↓reduceIte, iStmts, iStmt, hA', hroot, hi.root,
        evalAttrs, eval, evalG, hO', fieldOf, String.reduceEq, List.lookup, optStr, String.reduceBEq, nodeAt, modifyAt, addChild,
        List.getElem?_cons_zero, List.set_cons_zero, XmlTree.children]
      refine ⟨_, rfl, ?_⟩
      rw [hx]; simp only [hd, hf, Bool.false_eq_true, ↓reduceIte, Option.map_some, Option.toList_some]
      refine ⟨?_, ?_, ?_⟩
      · exact hA
      · exact hC
      · simp [renderAttr, leaf]

theorem iStmts_step {d : ClassDiagram} {calls : String → List V → Option V} {fuel : Nat} {st st' : St} {s : Stmt}
    {rest : List Stmt} (h : iStmt d calls fuel st s = some (st', .next)) :
    iStmts d calls fuel st (s :: rest) = iStmts d calls fuel st' rest := by
  simp only [iStmts, h]

theorem iStmts_for {d : ClassDiagram} {calls : String → List V → Option V} {fuel : Nat} {st st' : St} {v : String} {e : Expr}
    {l : List Ent} {body rest : List Stmt} (he : eval d calls st.L e = some (.ents l))
    (h : forLoop (fun x s => iStmts d calls fuel { s with L := (v, .ent x) :: s.L } body) l st = some (st', .next)) :
    iStmts d calls fuel st (.forIn v e body :: rest) = iStmts d calls fuel st' rest := by
  simp only [iStmts, iStmt, he, h]

def attrOut (d : ClassDiagram) : Ent → List XAttr
  | .attr a => (xattr d a).toList
  | _ => []

theorem flatMap_attrOut (d : ClassDiagram) : ∀ (l : List Attr), (l.map Ent.attr).flatMap (attrOut d) = l.filterMap (xattr d)
  | [] => rfl
  | a :: rest => by
    simp only [List.map_cons, List.flatMap_cons, attrOut, List.filterMap_cons, flatMap_attrOut d rest]
    cases xattr d a <;> rfl

/-- build_class: element, complexType, one xs:attribute per attribute related across R102 that is not derived and whose
    (referred) base type has a truthy name -/
theorem build_class_eq (d : ClassDiagram) (chain : DtChainOk d.dts) (c : Class) :
    interp d (d.dts.length + 1) build_class [.ent (.obj c)] = some (.tree (renderClass (xclassAll d c))) := by
  obtain ⟨st', hrun, hinv⟩ := forLoop_inv (ClsInv c) (attrOut d)
    (fun x s => iStmts d (oracle d) (d.dts.length + 1) { s with L := ("o_attr", .ent x) :: s.L } classBody)
    ((looseOf d c.id ++ c.attrs).map Ent.attr)
    (by
      intro e he acc st hi
      obtain ⟨a, _, rfl⟩ := List.mem_map.mp he
      exact class_body d chain c a acc st hi)
    [] { L := [("attributes", .elem [0]), ("cls", .elem []), ("o_obj", .ent (.obj c))],
         root := some (.node "xs:element" [("name", c.kl), ("minOccurs", "0"), ("maxOccurs", "unbounded")]
           [.node "xs:complexType" [] []]) }
    ⟨by simp [List.lookup], by simp [List.lookup], rfl⟩
  simp only [classBody, build_class] at hrun
  simp only [interp, run, build_class, bindParams, Option.map_some]
  rw [iStmts_step (st' := ⟨[("cls", .elem []), ("o_obj", .ent (.obj c))],
      some (.node "xs:element" [("name", c.kl), ("minOccurs", "0"), ("maxOccurs", "unbounded")] [])⟩)
    (by simp only [iStmt, evalAttrs, eval, evalG, List.lookup, fieldOf, String.reduceBEq, String.reduceEq, ↓reduceIte])]
  rw [iStmts_step (st' := ⟨[("attributes", .elem [0]), ("cls", .elem []), ("o_obj", .ent (.obj c))],
      some (.node "xs:element" [("name", c.kl), ("minOccurs", "0"), ("maxOccurs", "unbounded")]
        [.node "xs:complexType" [] []])⟩)
    (by simp only [iStmt, evalAttrs, List.lookup, String.reduceBEq, nodeAt, modifyAt, addChild, XmlTree.children,
      List.length_nil, List.nil_append])]
  rw [iStmts_for (l := (looseOf d c.id ++ c.attrs).map Ent.attr)
    (by simp only [eval, evalG, List.lookup, String.reduceBEq, Option.bind_some, startOf, navSteps, navStep, filterBy, navResult,
      List.flatMap_cons, List.flatMap_nil, List.append_nil, ↓reduceIte]) hrun]
  simp only [iStmts, iStmt, eval, evalG, hinv.cls, retVal, hinv.root, Option.bind_some, Option.map_some]
  simp only [List.nil_append, flatMap_attrOut, renderClass, xclassAll, xclassOf, List.filterMap_append]

/-! ### build_component / build_schema -/

theorem eval_select_global (d : ClassDiagram) (L : Locals) (hm : L.lookup "m" = some .model)
    (hf : L.lookup "global_filter" = some (.lam "selected" (.call "ooaofooa.is_global" ["selected"]))) :
    eval d (oracle d) L (.selectMany "m" "S_DT" (some "global_filter")) =
      some (.ents ((d.dts.filter (fun t => isGlobal d.containers t.parent)).map Ent.sdt)) := by
  xeval [hm, hf, poolOf]
  rw [filterOpt_eq _ (fun e => match parentOf e with | some p => isGlobal d.containers p | none => false)]
  · simp only [List.filter_map]; rfl
  · intro e he
    obtain ⟨t, _, rfl⟩ := List.mem_map.mp he
    xeval [parentOf, truthy]

theorem eval_select_scope_dt (d : ClassDiagram) (L : Locals) (k : Container) (hm : L.lookup "m" = some .model)
    (hc : L.lookup "c_c" = some (.ent (.cc k)))
    (hf : L.lookup "scope_filter" = some (.lam "selected" (.and_ (.call "ooaofooa.is_contained_in" ["selected", "c_c"])
      (.not_ (.call "ooaofooa.is_global" ["selected"]))))) :
    eval d (oracle d) L (.selectMany "m" "S_DT" (some "scope_filter")) =
      some (.ents ((d.dts.filter (fun t => containedIn d.containers d.pkgrefs k.id t.parent && !isGlobal d.containers t.parent)).map Ent.sdt)) := by
  xeval [hm, hf, poolOf]
  rw [filterOpt_eq _ (fun e => match parentOf e with
    | some p => containedIn d.containers d.pkgrefs k.id p && !isGlobal d.containers p | none => false)]
  · simp only [List.filter_map]; rfl
  · intro e he
    obtain ⟨t, _, rfl⟩ := List.mem_map.mp he
    have hne : ("c_c" == "selected") = false := by decide
    xeval [parentOf, truthy, hc, hne]
    cases containedIn d.containers d.pkgrefs k.id t.parent <;> simp [truthy]

theorem eval_select_scope_obj (d : ClassDiagram) (L : Locals) (k : Container) (hm : L.lookup "m" = some .model)
    (hc : L.lookup "c_c" = some (.ent (.cc k)))
    (hf : L.lookup "scope_filter" = some (.lam "selected" (.call "ooaofooa.is_contained_in" ["selected", "c_c"]))) :
    eval d (oracle d) L (.selectMany "m" "O_OBJ" (some "scope_filter")) =
      some (.ents ((d.classes.filter (fun c => containedIn d.containers d.pkgrefs k.id c.parent)).map Ent.obj)) := by
  xeval [hm, hf, poolOf]
  rw [filterOpt_eq _ (fun e => match parentOf e with
    | some p => containedIn d.containers d.pkgrefs k.id p | none => false)]
  · simp only [List.filter_map]; rfl
  · intro e he
    obtain ⟨c, _, rfl⟩ := List.mem_map.mp he
    have hne : ("c_c" == "selected") = false := by decide
    xeval [parentOf, truthy, hc, hne]

structure CompInv (k : Container) (acc : List XClass) (st : St) : Prop where
  classes : st.L.lookup "classes" = some (.elem [0, 0])
  component : st.L.lookup "component" = some (.elem [])
  root : st.root = some (.node "xs:element" [("name", k.name)]
    [.node "xs:complexType" [] [.node "xs:sequence" [] (acc.map renderClass)]])

def compBody : List Stmt :=
  match build_component.body with
  | [_, _, _, _, .forIn _ _ b, _] => b
  | _ => []

def objOut (d : ClassDiagram) : Ent → List XClass
  | .obj c => [xclassAll d c]
  | _ => []

theorem comp_body (d : ClassDiagram) (fuel : Nat) (k : Container) (c : Class) (acc : List XClass) (st : St) (hi : CompInv k acc st) :
    ∃ st', iStmts d (oracle d) fuel { st with L := ("o_obj", .ent (.obj c)) :: st.L } compBody = some (st', .next) ∧
      CompInv k (acc ++ [xclassAll d c]) st' := by
  simp only [compBody, build_component]
  simp only [iStmts, iStmt, eval, evalG, lookupAll, List.lookup, String.reduceBEq, oracle, String.reduceEq, ↓reduceIte,
    hi.classes, hi.root, modifyAt, List.getElem?_cons_zero, List.set_cons_zero, addChild]
  refine ⟨_, rfl, ?_, ?_, ?_⟩
  · simp only [List.lookup, String.reduceBEq]; exact hi.classes
  · simp only [List.lookup, String.reduceBEq]; exact hi.component
  · simp

theorem build_component_eq (d : ClassDiagram) (fuel : Nat) (k : Container) :
    interp d fuel build_component [.model, .ent (.cc k)] = some (.tree (renderComp k.name (classesOf d k.id))) := by
  obtain ⟨st', hrun, hinv⟩ := forLoop_inv (CompInv k) (objOut d)
    (fun x s => iStmts d (oracle d) fuel { s with L := ("o_obj", .ent x) :: s.L } compBody)
    ((d.classes.filter (fun c => containedIn d.containers d.pkgrefs k.id c.parent)).map Ent.obj)
    (by
      intro e he acc st hi
      obtain ⟨c, _, rfl⟩ := List.mem_map.mp he
      exact comp_body d fuel k c acc st hi)
    [] ⟨[("scope_filter", .lam "selected" (.call "ooaofooa.is_contained_in" ["selected", "c_c"])), ("classes", .elem [0, 0]),
         ("classes", .elem [0]), ("component", .elem []), ("m", .model), ("c_c", .ent (.cc k))],
        some (.node "xs:element" [("name", k.name)] [.node "xs:complexType" [] [.node "xs:sequence" [] []]])⟩
    ⟨by simp [List.lookup], by simp [List.lookup], rfl⟩
  simp only [compBody, build_component] at hrun
  simp only [interp, run, build_component, bindParams, Option.map_some]
  rw [iStmts_step (st' := ⟨[("component", .elem []), ("m", .model), ("c_c", .ent (.cc k))],
      some (.node "xs:element" [("name", k.name)] [])⟩)
    (by simp only [iStmt, evalAttrs, eval, evalG, List.lookup, fieldOf, String.reduceBEq, String.reduceEq, ↓reduceIte])]
  rw [iStmts_step (st' := ⟨[("classes", .elem [0]), ("component", .elem []), ("m", .model), ("c_c", .ent (.cc k))],
      some (.node "xs:element" [("name", k.name)] [.node "xs:complexType" [] []])⟩)
    (by simp only [iStmt, evalAttrs, List.lookup, String.reduceBEq, nodeAt, modifyAt, addChild, XmlTree.children,
      List.length_nil, List.nil_append])]
  rw [iStmts_step (st' := ⟨[("classes", .elem [0, 0]), ("classes", .elem [0]), ("component", .elem []), ("m", .model), ("c_c", .ent (.cc k))],
      some (.node "xs:element" [("name", k.name)] [.node "xs:complexType" [] [.node "xs:sequence" [] []]])⟩)
    (by simp only [iStmt, evalAttrs, List.lookup, String.reduceBEq, nodeAt, modifyAt, addChild, XmlTree.children,
      List.length_nil, List.nil_append, List.getElem?_cons_zero, List.set_cons_zero, List.cons_append])]
  rw [iStmts_step (st' := ⟨[("scope_filter", .lam "selected" (.call "ooaofooa.is_contained_in" ["selected", "c_c"])), ("classes", .elem [0, 0]),
         ("classes", .elem [0]), ("component", .elem []), ("m", .model), ("c_c", .ent (.cc k))],
        some (.node "xs:element" [("name", k.name)] [.node "xs:complexType" [] [.node "xs:sequence" [] []]])⟩)
    (by simp only [iStmt])]
  rw [iStmts_for (eval_select_scope_obj d _ k (by simp [List.lookup]) (by simp [List.lookup]) (by simp [List.lookup])) hrun]
  simp only [iStmts, iStmt, eval, evalG, hinv.component, retVal, hinv.root, Option.bind_some, Option.map_some]
  have : List.flatMap (objOut d) (List.map Ent.obj (d.classes.filter (fun c => containedIn d.containers d.pkgrefs k.id c.parent))) = classesOf d k.id := by
    unfold classesOf
    induction (d.classes.filter (fun c => containedIn d.containers d.pkgrefs k.id c.parent)) with
    | nil => rfl
    | cons c rest ih => simp only [List.map_cons, List.flatMap_cons, objOut, ih, List.cons_append, List.nil_append]
  simp only [List.nil_append, this, renderComp]

structure SchemaInv (k : Container) (acc : List XType) (st : St) : Prop where
  schema : st.L.lookup "schema" = some (.elem [])
  m : st.L.lookup "m" = some .model
  cc : st.L.lookup "c_c" = some (.ent (.cc k))
  root : st.root = some (.node "xs:schema" [("xmlns:xs", "http://www.w3.org/2001/XMLSchema")] (acc.map renderType))

/-- the bodies of the two data-type loops of build_schema, as generated -/
def typeBody1 : List Stmt :=
  match build_schema.body with
  | [_, _, _, .forIn _ _ b, _, _, _, _, _] => b
  | _ => []

def typeBody2 : List Stmt :=
  match build_schema.body with
  | [_, _, _, _, _, .forIn _ _ b, _, _, _] => b
  | _ => []

def dtOut (d : ClassDiagram) : Ent → List XType
  | .sdt t => (xtypeOf d.dts t).toList
  | _ => []

theorem type_body1 (d : ClassDiagram) (fuel : Nat) (k : Container) (t : DataType) (acc : List XType) (st : St)
    (hi : SchemaInv k acc st) :
    ∃ st', iStmts d (oracle d) fuel { st with L := ("s_dt", .ent (.sdt t)) :: st.L } typeBody1 = some (st', .next) ∧
      SchemaInv k (acc ++ (xtypeOf d.dts t).toList) st' := by
  simp only [typeBody1, build_schema]
  cases hx : xtypeOf d.dts t with
  | none =>
    simp only [iStmts, iStmt, eval, evalG, lookupAll, List.lookup, String.reduceBEq, oracle, String.reduceEq, ↓reduceIte, hx,
      Option.map_none, optTree, Option.bind_some, truthy]
    refine ⟨_, rfl, ?_, ?_, ?_, ?_⟩
    · simp only [List.lookup, String.reduceBEq]; exact hi.schema
    · simp only [List.lookup, String.reduceBEq]; exact hi.m
    · simp only [List.lookup, String.reduceBEq]; exact hi.cc
    · simpa using hi.root
  | some x =>
    simp only [iStmts, iStmt, eval, evalG, lookupAll, List.lookup, String.reduceBEq, oracle, String.reduceEq, ↓reduceIte, hx,
      Option.map_some, optTree, Option.bind_some, truthy, hi.schema, hi.root, modifyAt, addChild]
    refine ⟨_, rfl, ?_, ?_, ?_, ?_⟩
    · simp only [List.lookup, String.reduceBEq]; exact hi.schema
    · simp only [List.lookup, String.reduceBEq]; exact hi.m
    · simp only [List.lookup, String.reduceBEq]; exact hi.cc
    · simp

theorem type_body2 (d : ClassDiagram) (fuel : Nat) (k : Container) (t : DataType) (acc : List XType) (st : St)
    (hi : SchemaInv k acc st) :
    ∃ st', iStmts d (oracle d) fuel { st with L := ("s_dt", .ent (.sdt t)) :: st.L } typeBody2 = some (st', .next) ∧
      SchemaInv k (acc ++ (xtypeOf d.dts t).toList) st' := by
  have h : typeBody2 = typeBody1 := rfl
  rw [h]; exact type_body1 d fuel k t acc st hi

theorem flatMap_dtOut (d : ClassDiagram) : ∀ (l : List DataType), (l.map Ent.sdt).flatMap (dtOut d) = l.filterMap (xtypeOf d.dts)
  | [] => rfl
  | t :: rest => by
    simp only [List.map_cons, List.flatMap_cons, dtOut, List.filterMap_cons, flatMap_dtOut d rest]
    cases xtypeOf d.dts t <;> rfl

/-- build_schema: xs:schema with its namespace attribute; the global data types; then the data types contained in the
    component AND NOT global; then the component element -/
theorem build_schema_eq (d : ClassDiagram) (fuel : Nat) (k : Container) :
    interp d fuel build_schema [.model, .ent (.cc k)] =
      some (.tree (render { types := typesOf d k.id, comp := k.name, classes := classesOf d k.id })) := by
  obtain ⟨st1, hrun1, hinv1⟩ := forLoop_inv (SchemaInv k) (dtOut d)
    (fun x s => iStmts d (oracle d) fuel { s with L := ("s_dt", .ent x) :: s.L } typeBody1)
    ((d.dts.filter (fun t => isGlobal d.containers t.parent)).map Ent.sdt)
    (by
      intro e he acc st hi
      obtain ⟨t, _, rfl⟩ := List.mem_map.mp he
      exact type_body1 d fuel k t acc st hi)
    [] ⟨[("global_filter", .lam "selected" (.call "ooaofooa.is_global" ["selected"])), ("schema", .elem []), ("m", .model),
         ("c_c", .ent (.cc k))],
        some (.node "xs:schema" [("xmlns:xs", "http://www.w3.org/2001/XMLSchema")] [])⟩
    ⟨by simp [List.lookup], by simp [List.lookup], by simp [List.lookup], rfl⟩
  obtain ⟨st2, hrun2, hinv2⟩ := forLoop_inv (SchemaInv k) (dtOut d)
    (fun x s => iStmts d (oracle d) fuel { s with L := ("s_dt", .ent x) :: s.L } typeBody2)
    ((d.dts.filter (fun t => containedIn d.containers d.pkgrefs k.id t.parent && !isGlobal d.containers t.parent)).map Ent.sdt)
    (by
      intro e he acc st hi
      obtain ⟨t, _, rfl⟩ := List.mem_map.mp he
      exact type_body2 d fuel k t acc st hi)
    _ ⟨("scope_filter", .lam "selected" (.and_ (.call "ooaofooa.is_contained_in" ["selected", "c_c"])
          (.not_ (.call "ooaofooa.is_global" ["selected"])))) :: st1.L, st1.root⟩
    ⟨by simp only [List.lookup, String.reduceBEq]; exact hinv1.schema, by simp only [List.lookup, String.reduceBEq]; exact hinv1.m,
     by simp only [List.lookup, String.reduceBEq]; exact hinv1.cc, hinv1.root⟩
  simp only [typeBody1, build_schema] at hrun1
  simp only [typeBody2, build_schema] at hrun2
  simp only [interp, run, build_schema, bindParams, Option.map_some]
  rw [iStmts_step (st' := ⟨[("schema", .elem []), ("m", .model), ("c_c", .ent (.cc k))], some (.node "xs:schema" [] [])⟩)
    (by simp only [iStmt, evalAttrs])]
  rw [iStmts_step (st' := ⟨[("schema", .elem []), ("m", .model), ("c_c", .ent (.cc k))],
      some (.node "xs:schema" [("xmlns:xs", "http://www.w3.org/2001/XMLSchema")] [])⟩)
    (by simp [iStmt, eval, evalG, List.lookup, modifyAt, setKey])]
  rw [iStmts_step (st' := ⟨[("global_filter", .lam "selected" (.call "ooaofooa.is_global" ["selected"])), ("schema", .elem []),
      ("m", .model), ("c_c", .ent (.cc k))], some (.node "xs:schema" [("xmlns:xs", "http://www.w3.org/2001/XMLSchema")] [])⟩)
    (by simp only [iStmt])]
  rw [iStmts_for (eval_select_global d _ (by simp [List.lookup]) (by simp [List.lookup])) hrun1]
  rw [iStmts_step (st' := ⟨("scope_filter", .lam "selected" (.and_ (.call "ooaofooa.is_contained_in" ["selected", "c_c"])
          (.not_ (.call "ooaofooa.is_global" ["selected"])))) :: st1.L, st1.root⟩) (by simp only [iStmt])]
  rw [iStmts_for (eval_select_scope_dt d _ k (by simp only [List.lookup, String.reduceBEq]; exact hinv1.m)
    (by simp only [List.lookup, String.reduceBEq]; exact hinv1.cc) (by simp [List.lookup])) hrun2]
  simp only [iStmts, iStmt, eval, evalG, lookupAll, List.lookup, String.reduceBEq, hinv2.m, hinv2.cc, oracle, String.reduceEq, ↓reduceIte,
    hinv2.schema, hinv2.root, modifyAt, addChild, retVal, Option.bind_some, Option.map_some]
  simp only [List.nil_append, flatMap_dtOut, render, typesOf, List.map_append]

/-! ### build_enum_type -/

theorem whileLoop_inv (Inv : Nat → St → Prop) (n : Nat) (C : St → Option Bool) (B : St → Option (St × Sig))
    (hC : ∀ i st, Inv i st → C st = some (decide (i < n)))
    (hB : ∀ i st, Inv i st → i < n → ∃ st', B st = some (st', .next) ∧ Inv (i + 1) st') :
    ∀ (fuel i : Nat) (st : St), i ≤ n → n - i < fuel → Inv i st → ∃ st', whileLoop C B fuel st = some (st', .next) ∧ Inv n st'
  | 0, i, st, _, hf, _ => by omega
  | fuel + 1, i, st, hle, hf, hi => by
    by_cases h : i < n
    · obtain ⟨st1, h1, hi1⟩ := hB i st hi h
      obtain ⟨st2, h2, hi2⟩ := whileLoop_inv Inv n C B hC hB fuel (i + 1) st1 (by omega) (by omega) hi1
      exact ⟨st2, by simp only [whileLoop, hC i st hi, h, decide_true, h1, h2], hi2⟩
    · have : i = n := by omega
      subst this
      exact ⟨st, by simp only [whileLoop, hC i st hi, h, decide_false], hi⟩

def enumV (t : DataType) (i : Nat) : V := if i < (enumsOf t).length then .ent (.senum t i) else .none

structure EnumInv (t : DataType) (i : Nat) (st : St) : Prop where
  cur : st.L.lookup "s_enum" = some (enumV t i)
  list : st.L.lookup "enum_list" = some (.elem [0])
  enum : st.L.lookup "enum" = some (.elem [])
  root : st.root = some (.node "xs:simpleType" [("name", t.name)]
    [.node "xs:restriction" [("base", "xs:string")] (((enumsOf t).take i).map (fun v => leaf "xs:enumeration" [("value", v)]))])

def enumBody : List Stmt :=
  match build_enum_type.body with
  | [_, _, _, _, _, .whileDo _ b, _] => b
  | _ => []

theorem enum_body (d : ClassDiagram) (fuel : Nat) (t : DataType) (i : Nat) (st : St) (hi : EnumInv t i st)
    (h : i < (enumsOf t).length) :
    ∃ st', iStmts d (oracle d) fuel st enumBody = some (st', .next) ∧ EnumInv t (i + 1) st' := by
  have hcur : st.L.lookup "s_enum" = some (.ent (.senum t i)) := by rw [hi.cur, enumV, if_pos h]
  have hget : (enumsOf t)[i]? = some ((enumsOf t)[i]) := List.getElem?_eq_getElem h
  simp only [enumBody, build_enum_type]
  simp only [iStmts, iStmt, evalAttrs, eval, evalG, hcur, hi.list, hi.root, fieldOf, hget, Option.map_some, ↓reduceIte,
    nodeAt, modifyAt, addChild, List.getElem?_cons_zero, List.set_cons_zero, Option.bind_some, startOf, navSteps, navStep,
    filterBy, List.flatMap_cons, List.flatMap_nil, List.append_nil, Step.mk.injEq, String.reduceEq, and_true, true_and,
    and_false, false_and, and_self, reduceCtorEq, Nat.reduceEqDiff]
  refine ⟨_, rfl, ?_, ?_, ?_, ?_⟩
  · simp only [List.lookup, beq_self_eq_true, enumV]
    by_cases h2 : i + 1 < (enumsOf t).length <;> simp [h2, navResult]
  · simp only [List.lookup, String.reduceBEq]; exact hi.list
  · simp only [List.lookup, String.reduceBEq]; exact hi.enum
  · simp only [List.take_add_one, hget, Option.toList_some, List.map_append, List.map_cons, List.map_nil, leaf]

theorem first_enum (t : DataType) :
    navResult .any (((List.range (enumsOf t).length).map (Ent.senum t)).filter
      (fun e => match e with | .senum _ 0 => true | _ => false)) = enumV t 0 := by
  unfold enumV
  cases h : (enumsOf t).length with
  | zero => rfl
  | succ n => simp [List.range_succ_eq_map, navResult]

/-- build_enum_type: the enumerators from the first (the one that succeeds none) along R56 'precedes', `value` = their name -/
theorem build_enum_type_eq (d : ClassDiagram) (fuel : Nat) (t : DataType) (hfuel : (enumsOf t).length < fuel) :
    interp d fuel build_enum_type [.ent (.edt t)] = some (.tree (renderType (.enumeration t.name (enumsOf t)))) := by
  simp only [interp, run, build_enum_type, bindParams, Option.map_some]
  rw [iStmts_assign (v := .ent (.sdt t)) (by xeval [navResult])]
  rw [iStmts_step (st' := ⟨[("enum", .elem []), ("s_dt", .ent (.sdt t)), ("s_edt", .ent (.edt t))],
      some (.node "xs:simpleType" [("name", t.name)] [])⟩)
    (by simp only [iStmt, evalAttrs, eval, evalG, List.lookup, fieldOf, String.reduceBEq, String.reduceEq, ↓reduceIte])]
  rw [iStmts_step (st' := ⟨[("enum_list", .elem [0]), ("enum", .elem []), ("s_dt", .ent (.sdt t)), ("s_edt", .ent (.edt t))],
      some (.node "xs:simpleType" [("name", t.name)] [.node "xs:restriction" [("base", "xs:string")] []])⟩)
    (by simp only [iStmt, evalAttrs, eval, evalG, List.lookup, String.reduceBEq, nodeAt, modifyAt, addChild, XmlTree.children,
      List.length_nil, List.nil_append])]
  rw [iStmts_step (st' := ⟨[("first_filter", .lam "selected" (.not_ (.nav .any "selected" [⟨"S_ENUM", 56, "succeeds"⟩] none))),
      ("enum_list", .elem [0]), ("enum", .elem []), ("s_dt", .ent (.sdt t)), ("s_edt", .ent (.edt t))],
      some (.node "xs:simpleType" [("name", t.name)] [.node "xs:restriction" [("base", "xs:string")] []])⟩)
    (by simp only [iStmt])]
  rw [iStmts_assign (v := enumV t 0) (by
    xeval []
    rw [filterOpt_eq _ (fun e => match e with | .senum _ 0 => true | _ => false)]
    · simp only [first_enum]
    · intro e he
      obtain ⟨i, _, rfl⟩ := List.mem_map.mp he
      cases i <;> xeval [navResult, truthy] <;> rfl)]
  obtain ⟨st', hrun, hinv⟩ := whileLoop_inv (EnumInv t) (enumsOf t).length
    (fun s => (eval d (oracle d) s.L (.var "s_enum")).bind truthy) (fun s => iStmts d (oracle d) fuel s enumBody)
    (by
      intro i st hi
      simp only [eval, evalG, hi.cur, Option.bind_some, enumV]
      by_cases h : i < (enumsOf t).length <;> simp [h, truthy])
    (fun i st hi h => enum_body d fuel t i st hi h)
    fuel 0 ⟨[("s_enum", enumV t 0), ("first_filter", .lam "selected" (.not_ (.nav .any "selected" [⟨"S_ENUM", 56, "succeeds"⟩] none))),
      ("enum_list", .elem [0]), ("enum", .elem []), ("s_dt", .ent (.sdt t)), ("s_edt", .ent (.edt t))],
      some (.node "xs:simpleType" [("name", t.name)] [.node "xs:restriction" [("base", "xs:string")] []])⟩
    (Nat.zero_le _) (by omega) ⟨by simp [List.lookup], by simp [List.lookup], by simp [List.lookup], by simp⟩
  simp only [enumBody, build_enum_type] at hrun
  rw [iStmts_while hrun]
  simp only [iStmts, iStmt, eval, evalG, hinv.enum, retVal, hinv.root, Option.bind_some, Option.map_some, List.take_length,
    renderType, leaf]

end Pyx.XShape
