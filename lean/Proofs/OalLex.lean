import PyxModel.Oal.Lex

/-!
  Helper lemmas for the OAL lexer model (Props/C13.lean, Props/C08.lean).
-/
namespace Pyx.OalLex

/-! ## positions -/

theorem rfindNlGo_noNl (cs : List Char) (i : Nat) (best : Int) (h : '\n' ∉ cs) :
    rfindNlGo cs i best = best := by
  induction cs generalizing i best with
  | nil => rfl
  | cons c cs ih =>
    have hc : c ≠ '\n' := fun e => h (by simp [e])
    have hcs : '\n' ∉ cs := fun e => h (by simp [e])
    simp only [rfindNlGo, if_neg hc]
    exact ih _ _ hcs

theorem rfindNlGo_append (pre line : List Char) (i : Nat) (best : Int) (h : '\n' ∉ line) :
    rfindNlGo (pre ++ '\n' :: line) i best = ((i + pre.length : Nat) : Int) := by
  induction pre generalizing i best with
  | nil =>
    simp only [List.nil_append, rfindNlGo, if_true, List.length_nil, Nat.add_zero]
    exact rfindNlGo_noNl _ _ _ h
  | cons c pre ih =>
    simp only [List.cons_append, rfindNlGo, List.length_cons]
    rw [ih]
    congr 1
    omega

theorem countNl_append (a b : List Char) : countNl (a ++ b) = countNl a + countNl b := by
  simp [countNl, List.count_append]

theorem countNl_eq_zero {cs : List Char} (h : ∀ x ∈ cs, x ≠ '\n') : countNl cs = 0 := by
  unfold countNl
  rw [List.count_eq_zero]
  intro hm
  exact h _ hm rfl

theorem countNl_singleton (c : Char) : countNl [c] = if c = '\n' then 1 else 0 := by
  unfold countNl
  by_cases h : c = '\n'
  · simp [h]
  · simp [h]

theorem slice_append_left (pre cs : List Char) (k : Nat) :
    slice (pre ++ cs) pre.length (pre.length + k) = cs.take k := by
  unfold slice
  rw [List.drop_left]
  congr 1
  omega

theorem colAfter_append (a b : List Char) (k : Nat) : colAfter (a ++ b) k = colAfter b (colAfter a k) := by
  induction a generalizing k with
  | nil => rfl
  | cons c a ih => simp only [List.cons_append, colAfter, ih]

/-- `pos - rfind('\n', 0, pos)` is the column a writing cursor is in -/
theorem rfind_cursor (l : List Char) (i k : Nat) (best : Int) (hk : (k : Int) = (i : Int) - best) :
    ((i + l.length : Nat) : Int) - rfindNlGo l i best = (colAfter l k : Int) := by
  induction l generalizing i k best with
  | nil => simp only [List.length_nil, Nat.add_zero, rfindNlGo, colAfter]; omega
  | cons c l ih =>
    simp only [List.length_cons, rfindNlGo, colAfter]
    by_cases hc : c = '\n'
    · simp only [hc, if_true]
      have := ih (i + 1) 1 (i : Int) (by omega)
      rw [← this]; congr 2; omega
    · simp only [hc, if_false]
      have := ih (i + 1) (k + 1) best (by omega)
      rw [← this]; congr 2; omega

theorem findColumn_eq_colOf (text : List Char) (off : Nat) (h : off ≤ text.length) :
    findColumn text off = (colOf text off : Int) := by
  unfold findColumn rfindNl colOf
  have hl : (text.take off).length = off := by rw [List.length_take]; omega
  have := rfind_cursor (text.take off) 0 1 (-1) (by omega)
  rw [hl] at this
  rw [← this]; simp

/-- the prefix up to `b` is the prefix up to `b-1` plus the character at `b-1` -/
theorem take_pred (text : List Char) (b : Nat) (hb : 0 < b) (hlen : b ≤ text.length) :
    text.take b = text.take (b - 1) ++ [text[b - 1]'(by omega)] := by
  have : b = (b - 1) + 1 := by omega
  conv => lhs; rw [this]
  rw [List.take_succ_eq_append_getElem]

theorem slice_getLast (text : List Char) (a b : Nat) (hab : a < b) (hlen : b ≤ text.length) :
    (slice text a b).getLast? = some (text[b - 1]'(by omega)) := by
  unfold slice
  have h1 : b - a = (b - 1 - a) + 1 := by omega
  have h2 : b - 1 - a < (text.drop a).length := by rw [List.length_drop]; omega
  rw [h1, List.take_succ_eq_append_getElem h2, List.getLast?_append]
  simp only [List.getLast?_singleton, Option.some_or, List.getElem_drop]
  congr 2; omega

/-! ## characters -/

theorem toNat_ofNat_small (n : Nat) (h : n < 55296) : (Char.ofNat n).toNat = n := by
  have hv : n.isValidChar := Or.inl h
  simp [Char.ofNat, hv, Char.ofNatAux, Char.toNat]

theorem toNat_lower (c : Char) :
    (lowerAscii c).toNat = if isUpperA c then c.toNat + 32 else c.toNat := by
  unfold lowerAscii
  split
  · next h =>
    simp only [isUpperA, Bool.and_eq_true, decide_eq_true_eq] at h
    rw [toNat_ofNat_small _ (by omega)]
  · rfl

theorem toNat_upper (c : Char) :
    (upperAscii c).toNat = if isLowerA c then c.toNat - 32 else c.toNat := by
  unfold upperAscii
  split
  · next h =>
    simp only [isLowerA, Bool.and_eq_true, decide_eq_true_eq] at h
    rw [toNat_ofNat_small _ (by omega)]
  · rfl

/-- facts about the code point of `lowerAscii c`, in a form `omega` can use -/
theorem lower_cases (c : Char) :
    ((65 ≤ c.toNat ∧ c.toNat ≤ 90) ∧ (lowerAscii c).toNat = c.toNat + 32) ∨
    (¬(65 ≤ c.toNat ∧ c.toNat ≤ 90) ∧ lowerAscii c = c) := by
  by_cases h : isUpperA c = true
  · left
    have := toNat_lower c
    rw [if_pos h] at this
    simp only [isUpperA, Bool.and_eq_true, decide_eq_true_eq] at h
    exact ⟨h, this⟩
  · right
    have h' : ¬(65 ≤ c.toNat ∧ c.toNat ≤ 90) := by
      simpa only [isUpperA, Bool.and_eq_true, decide_eq_true_eq] using h
    refine ⟨h', ?_⟩
    unfold lowerAscii
    simp only [Bool.not_eq_true] at h
    simp [h]

theorem lower_idem (c : Char) : lowerAscii (lowerAscii c) = lowerAscii c := by
  rcases lower_cases c with ⟨h, e⟩ | ⟨_, e⟩
  · rcases lower_cases (lowerAscii c) with ⟨h2, _⟩ | ⟨_, e2⟩
    · omega
    · exact e2
  · rw [e, e]

theorem upper_lower (c : Char) : upperAscii (lowerAscii c) = upperAscii c := by
  apply Char.toNat_inj.mp
  rw [toNat_upper, toNat_upper]
  rcases lower_cases c with ⟨h, e⟩ | ⟨_, e⟩
  · have h1 : isLowerA (lowerAscii c) = true := by
      simp only [isLowerA, Bool.and_eq_true, decide_eq_true_eq]; omega
    have h2 : isLowerA c = false := by
      simp only [isLowerA, Bool.and_eq_false_iff, decide_eq_false_iff_not]; omega
    rw [h1, h2]; simp only [if_true]; simp; omega
  · rw [e]

/-- a character test that does not see the letter case -/
def CaseBlind (p : Char → Bool) : Prop := ∀ c, p (lowerAscii c) = p c

theorem caseBlind_eq_nonLetter (x : Char) (hx : isLetterA x = false) : CaseBlind (fun c => c == x) := by
  intro c
  rcases lower_cases c with ⟨h, e⟩ | ⟨_, e⟩
  · have hx' : ¬(65 ≤ x.toNat ∧ x.toNat ≤ 90) ∧ ¬(97 ≤ x.toNat ∧ x.toNat ≤ 122) := by
      simp only [isLetterA, isUpperA, isLowerA, Bool.or_eq_false_iff, Bool.and_eq_false_iff,
        decide_eq_false_iff_not] at hx
      omega
    have h1 : (lowerAscii c == x) = false := by
      rw [beq_eq_false_iff_ne]; intro e1; rw [e1] at e; omega
    have h2 : (c == x) = false := by
      rw [beq_eq_false_iff_ne]; intro e1; rw [e1] at h; omega
    simp only [h1, h2]
  · simp only [e]

theorem caseBlind_ci (x : Char) : CaseBlind (fun c => lowerAscii c == x) := by
  intro c; simp only [lower_idem]

theorem caseBlind_not {p : Char → Bool} (h : CaseBlind p) : CaseBlind (fun c => !(p c)) := by
  intro c; simp only [h c]

theorem caseBlind_and {p q : Char → Bool} (hp : CaseBlind p) (hq : CaseBlind q) :
    CaseBlind (fun c => p c && q c) := by
  intro c; simp only [hp c, hq c]

theorem caseBlind_or {p q : Char → Bool} (hp : CaseBlind p) (hq : CaseBlind q) :
    CaseBlind (fun c => p c || q c) := by
  intro c; simp only [hp c, hq c]

theorem caseBlind_isLetterA : CaseBlind isLetterA := by
  intro c
  rcases lower_cases c with ⟨h, e⟩ | ⟨_, e⟩
  · have h1 : isLetterA (lowerAscii c) = true := by
      simp only [isLetterA, isUpperA, isLowerA, Bool.or_eq_true, Bool.and_eq_true, decide_eq_true_eq]; omega
    have h2 : isLetterA c = true := by
      simp only [isLetterA, isUpperA, isLowerA, Bool.or_eq_true, Bool.and_eq_true, decide_eq_true_eq]; omega
    rw [h1, h2]
  · rw [e]

theorem caseBlind_toNat (f : Nat → Bool) (hf : ∀ n, 65 ≤ n → n ≤ 90 → f (n + 32) = f n) :
    CaseBlind (fun c => f c.toNat) := by
  intro c
  rcases lower_cases c with ⟨h, e⟩ | ⟨_, e⟩
  · simp only [e]; exact hf _ h.1 h.2
  · simp only [e]

theorem caseBlind_isWord : CaseBlind isWord := by
  intro c
  have hl := caseBlind_isLetterA c
  rcases lower_cases c with ⟨h, e⟩ | ⟨_, e⟩
  · simp only [isWord, hl, e]
    have h2 : isLetterA c = true := by
      simp only [isLetterA, isUpperA, isLowerA, Bool.or_eq_true, Bool.and_eq_true, decide_eq_true_eq]; omega
    simp [h2]
  · rw [e]

theorem caseBlind_isIdStart : CaseBlind isIdStart := by
  intro c
  have hl := caseBlind_isLetterA c
  rcases lower_cases c with ⟨h, e⟩ | ⟨_, e⟩
  · simp only [isIdStart, hl, e]
    have h2 : isLetterA c = true := by
      simp only [isLetterA, isUpperA, isLowerA, Bool.or_eq_true, Bool.and_eq_true, decide_eq_true_eq]; omega
    simp [h2]
  · rw [e]

theorem caseBlind_isDigit : CaseBlind isDigit := by
  intro c
  rcases lower_cases c with ⟨h, e⟩ | ⟨_, e⟩
  · have h1 : isDigit (lowerAscii c) = false := by
      unfold isDigit; rw [if_pos (by omega)]
      simp only [Bool.and_eq_false_iff, decide_eq_false_iff_not]; omega
    have h2 : isDigit c = false := by
      unfold isDigit; rw [if_pos (by omega)]
      simp only [Bool.and_eq_false_iff, decide_eq_false_iff_not]; omega
    rw [h1, h2]
  · rw [e]

theorem caseBlind_isSpace : CaseBlind isSpace := by
  intro c
  rcases lower_cases c with ⟨h, e⟩ | ⟨_, e⟩
  · have h1 : isSpace (lowerAscii c) = false := by
      unfold isSpace; rw [if_pos (by omega)]
      simp only [Bool.or_eq_false_iff, Bool.and_eq_false_iff, decide_eq_false_iff_not]; omega
    have h2 : isSpace c = false := by
      unfold isSpace; rw [if_pos (by omega)]
      simp only [Bool.or_eq_false_iff, Bool.and_eq_false_iff, decide_eq_false_iff_not]; omega
    rw [h1, h2]
  · rw [e]


/-! ## greedy class runs and prefixes -/

theorem spanLen_le (p : Char → Bool) (cs : List Char) : spanLen p cs ≤ cs.length := by
  induction cs with
  | nil => simp [spanLen]
  | cons c cs ih => simp only [spanLen]; split <;> simp <;> omega

theorem spanLen_take (p : Char → Bool) (cs : List Char) : ∀ x ∈ cs.take (spanLen p cs), p x = true := by
  induction cs with
  | nil => simp [spanLen]
  | cons c cs ih =>
    simp only [spanLen]
    split
    · next h =>
      intro x hx
      simp only [List.take_succ_cons, List.mem_cons] at hx
      rcases hx with rfl | hx
      · exact h
      · exact ih x hx
    · simp

theorem spanLen_map_lower (p : Char → Bool) (hp : CaseBlind p) (cs : List Char) :
    spanLen p (cs.map lowerAscii) = spanLen p cs := by
  induction cs with
  | nil => rfl
  | cons c cs ih => simp only [List.map_cons, spanLen, hp c, ih]

theorem hasPrefix_map_lower (s : List Char) (hs : ∀ x ∈ s, isLetterA x = false) (cs : List Char) :
    hasPrefix s (cs.map lowerAscii) = hasPrefix s cs := by
  induction s generalizing cs with
  | nil => simp [hasPrefix]
  | cons x s ih =>
    cases cs with
    | nil => simp [hasPrefix]
    | cons c cs =>
      simp only [List.map_cons, hasPrefix]
      have h1 := caseBlind_eq_nonLetter x (hs x (by simp)) c
      simp only at h1
      rw [h1, ih (fun y hy => hs y (by simp [hy]))]

theorem hasPrefix_take (s cs : List Char) (h : hasPrefix s cs = true) : cs.take s.length = s := by
  induction s generalizing cs with
  | nil => simp
  | cons x s ih =>
    cases cs with
    | nil => simp [hasPrefix] at h
    | cons c cs =>
      simp only [hasPrefix, Bool.and_eq_true, beq_iff_eq] at h
      simp only [List.length_cons, List.take_succ_cons, h.1, ih cs h.2]

/-! ## deterministic patterns -/

namespace Pat

/-- every character class of the pattern lies inside `q` -/
def ClassesIn (q : Char → Prop) : Pat → Prop
  | eps => True
  | ch p => ∀ c, p c = true → q c
  | many p => ∀ c, p c = true → q c
  | seq a b => ClassesIn q a ∧ ClassesIn q b
  | alt a b => ClassesIn q a ∧ ClassesIn q b
  | look _ => True

/-- no character class of the pattern sees the letter case; look-ahead literals have no letters -/
def Blind : Pat → Prop
  | eps => True
  | ch p => CaseBlind p
  | many p => CaseBlind p
  | seq a b => Blind a ∧ Blind b
  | alt a b => Blind a ∧ Blind b
  | look s => ∀ x ∈ s, isLetterA x = false

/-- the pattern ends with one character of a class inside `q` -/
def EndsIn (q : Char → Prop) : Pat → Prop
  | ch p => ∀ c, p c = true → q c
  | seq _ b => EndsIn q b
  | _ => False

theorem run_le (p : Pat) : ∀ (cs : List Char) (n : Nat), run p cs = some n → n ≤ cs.length := by
  induction p with
  | eps => intro cs n h; simp only [run, Option.some.injEq] at h; omega
  | ch f =>
    intro cs n h
    cases cs with
    | nil => simp [run] at h
    | cons c cs =>
      simp only [run] at h
      split at h
      · simp only [Option.some.injEq] at h; simp; omega
      · simp at h
  | many f => intro cs n h; simp only [run, Option.some.injEq] at h; subst h; exact spanLen_le _ _
  | seq a b iha ihb =>
    intro cs n h
    simp only [run] at h
    cases ha : run a cs with
    | none => simp [ha] at h
    | some na =>
      simp only [ha, Option.map_eq_some_iff] at h
      obtain ⟨nb, hb, rfl⟩ := h
      have h1 := iha cs na ha
      have h2 := ihb _ nb hb
      simp only [List.length_drop] at h2
      omega
  | alt a b iha ihb =>
    intro cs n h
    simp only [run] at h
    cases ha : run a cs with
    | none => simp only [ha] at h; exact ihb cs n h
    | some na => simp only [ha, Option.some.injEq] at h; subst h; exact iha cs na ha
  | look s =>
    intro cs n h
    simp only [run] at h
    split at h
    · simp only [Option.some.injEq] at h; omega
    · simp at h

theorem run_classes (q : Char → Prop) (p : Pat) :
    ∀ (cs : List Char) (n : Nat), run p cs = some n → ClassesIn q p → ∀ x ∈ cs.take n, q x := by
  induction p with
  | eps => intro cs n h _ x hx; simp only [run, Option.some.injEq] at h; subst h; simp at hx
  | ch f =>
    intro cs n h hq x hx
    cases cs with
    | nil => simp [run] at h
    | cons c cs =>
      simp only [run] at h
      split at h
      · next hf =>
        simp only [Option.some.injEq] at h; subst h
        simp only [List.take_succ_cons, List.take_zero, List.mem_cons, List.not_mem_nil, or_false] at hx
        subst hx; exact hq _ hf
      · simp at h
  | many f =>
    intro cs n h hq x hx
    simp only [run, Option.some.injEq] at h; subst h
    exact hq _ (spanLen_take f cs x hx)
  | seq a b iha ihb =>
    intro cs n h hq x hx
    simp only [run] at h
    cases ha : run a cs with
    | none => simp [ha] at h
    | some na =>
      simp only [ha, Option.map_eq_some_iff] at h
      obtain ⟨nb, hb, rfl⟩ := h
      rw [List.take_add, List.mem_append] at hx
      rcases hx with hx | hx
      · exact iha cs na ha hq.1 x hx
      · exact ihb _ nb hb hq.2 x hx
  | alt a b iha ihb =>
    intro cs n h hq x hx
    simp only [run] at h
    cases ha : run a cs with
    | none => simp only [ha] at h; exact ihb cs n h hq.2 x hx
    | some na => simp only [ha, Option.some.injEq] at h; subst h; exact iha cs na ha hq.1 x hx
  | look s =>
    intro cs n h _ x hx
    simp only [run] at h
    split at h
    · simp only [Option.some.injEq] at h; subst h; simp at hx
    · simp at h

theorem run_map_lower (p : Pat) : ∀ (cs : List Char), Blind p → run p (cs.map lowerAscii) = run p cs := by
  induction p with
  | eps => intro cs _; rfl
  | ch f =>
    intro cs hb
    cases cs with
    | nil => rfl
    | cons c cs => simp only [List.map_cons, run, hb c]
  | many f => intro cs hb; simp only [run, spanLen_map_lower f hb]
  | seq a b iha ihb =>
    intro cs hb
    simp only [run, iha cs hb.1]
    cases run a cs with
    | none => rfl
    | some na => simp only [← List.map_drop, ihb _ hb.2]
  | alt a b iha ihb =>
    intro cs hb
    simp only [run, iha cs hb.1, ihb cs hb.2]
  | look s => intro cs hb; simp only [run, hasPrefix_map_lower s hb]

theorem run_ends (q : Char → Prop) (p : Pat) :
    ∀ (cs : List Char) (n : Nat), run p cs = some n → EndsIn q p →
      ∃ x, (cs.take n).getLast? = some x ∧ q x := by
  induction p with
  | eps => intro cs n _ he; exact absurd he (by simp [EndsIn])
  | ch f =>
    intro cs n h he
    cases cs with
    | nil => simp [run] at h
    | cons c cs =>
      simp only [run] at h
      split at h
      · next hf =>
        simp only [Option.some.injEq] at h; subst h
        exact ⟨c, by simp, he _ hf⟩
      · simp at h
  | many f => intro cs n _ he; exact absurd he (by simp [EndsIn])
  | seq a b _ ihb =>
    intro cs n h he
    simp only [run] at h
    cases ha : run a cs with
    | none => simp [ha] at h
    | some na =>
      simp only [ha, Option.map_eq_some_iff] at h
      obtain ⟨nb, hb, rfl⟩ := h
      obtain ⟨x, hx, hq⟩ := ihb _ nb hb he
      refine ⟨x, ?_, hq⟩
      rw [List.take_add, List.getLast?_append, hx]
      rfl
  | alt a b _ _ => intro cs n _ he; exact absurd he (by simp [EndsIn])
  | look s => intro cs n _ he; exact absurd he (by simp [EndsIn])

end Pat


/-! ## the modelled rule regexes -/

def NotNl (c : Char) : Prop := c ≠ '\n'

macro "not_nl" : tactic => `(tactic| (intro c h e; subst e; revert h; decide))

syntax "case_blind" : tactic
macro_rules
  | `(tactic| case_blind) => `(tactic| first
      | with_reducible exact caseBlind_isDigit
      | with_reducible exact caseBlind_isWord
      | with_reducible exact caseBlind_isIdStart
      | with_reducible exact caseBlind_isSpace
      | with_reducible exact caseBlind_ci _
      | with_reducible exact caseBlind_eq_nonLetter _ (by decide)
      | (with_reducible apply caseBlind_not; case_blind)
      | (with_reducible apply caseBlind_and <;> case_blind)
      | (with_reducible apply caseBlind_or <;> case_blind))

open Pat in
/-- a match of a modelled regex that "cannot match a newline" contains none -/
theorem scanById_noNl (rid : RegexId) (h : idMayNl rid = false) (cs : List Char) (n : Nat)
    (hs : scanById rid cs = some n) : ∀ x ∈ cs.take n, x ≠ '\n' := by
  cases rid <;> simp only [idMayNl, Bool.true_eq_false] at h <;> simp only [scanById] at hs
  · refine run_classes NotNl _ cs n hs ?_
    simp only [patString, seqs, lit, ClassesIn]
    refine ⟨?_, ?_, ?_⟩ <;> not_nl
  · refine run_classes NotNl _ cs n hs ?_
    simp only [patNamespace, many1, ClassesIn]
    refine ⟨⟨?_, ?_⟩, trivial⟩ <;> not_nl
  · refine run_classes NotNl _ cs n hs ?_
    simp only [patId, ClassesIn]
    refine ⟨?_, ?_⟩ <;> not_nl
  · refine run_classes NotNl _ cs n hs ?_
    simp only [patFraction, patExp, seqs, many1, opt, lit, ci, ClassesIn]
    refine ⟨⟨⟨?_, ?_, ?_, ?_⟩, ⟨⟨?_, ?_⟩, ?_, ⟨?_, ⟨?_, ?_, ?_⟩, ?_, ?_⟩, trivial⟩, ⟨?_, ?_⟩, ?_, ⟨?_, ?_, ?_⟩, ?_, ?_⟩,
      ?_, trivial⟩ <;> not_nl
  · refine run_classes NotNl _ cs n hs ?_
    simp only [patNumber, many1, ClassesIn]
    refine ⟨?_, ?_⟩ <;> not_nl
  · simp at hs

open Pat in
/-- a match of TICKED_PHRASE / END_FOR / END_IF / END_WHILE does not end with a newline -/
theorem scanById_ends (rid : RegexId) (h : idEndsNonNl rid = true) (cs : List Char) (n : Nat)
    (hs : scanById rid cs = some n) : (cs.take n).getLast? ≠ some '\n' := by
  have key : ∀ p : Pat, run p cs = some n → EndsIn NotNl p → (cs.take n).getLast? ≠ some '\n' := by
    intro p hp he
    obtain ⟨x, hx, hq⟩ := run_ends NotNl p cs n hp he
    rw [hx]; intro e; exact hq (Option.some.inj e)
  cases rid <;> simp only [idEndsNonNl, Bool.false_eq_true] at h <;> simp only [scanById] at hs
  · refine key _ hs ?_
    simp only [patTicked, seqs, lit, EndsIn]; not_nl
  · refine key _ hs ?_
    simp only [patEnd, List.map, List.cons_append, List.nil_append, seqs, ci, EndsIn]; not_nl
  · refine key _ hs ?_
    simp only [patEnd, List.map, List.cons_append, List.nil_append, seqs, ci, EndsIn]; not_nl
  · refine key _ hs ?_
    simp only [patEnd, List.map, List.cons_append, List.nil_append, seqs, ci, EndsIn]; not_nl

theorem commentBody_map_lower (cs : List Char) (star : Bool) :
    commentBody (cs.map lowerAscii) star = commentBody cs star := by
  induction cs generalizing star with
  | nil => rfl
  | cons c cs ih =>
    have h1 := caseBlind_eq_nonLetter '*' (by decide) c
    have h2 := caseBlind_eq_nonLetter '/' (by decide) c
    simp only at h1 h2
    simp only [List.map_cons, commentBody, h1, h2, ih]

theorem scanComment_map_lower (cs : List Char) : scanComment (cs.map lowerAscii) = scanComment cs := by
  match cs with
  | [] => rfl
  | [_] => rfl
  | c1 :: c2 :: r =>
    have h1 := caseBlind_eq_nonLetter '/' (by decide) c1
    have h2 := caseBlind_eq_nonLetter '*' (by decide) c2
    simp only at h1 h2
    simp only [List.map_cons, scanComment, h1, h2, commentBody_map_lower]

open Pat in
/-- the match length of every modelled regex is independent of the letter case of the input -/
theorem scanById_map_lower (rid : RegexId) (cs : List Char) :
    scanById rid (cs.map lowerAscii) = scanById rid cs := by
  cases rid <;> simp only [scanById]
  · exact scanComment_map_lower cs
  · refine run_map_lower _ cs ?_
    simp only [patSlString, seqs, lit, Blind]
    refine ⟨?_, ?_, ?_, ?_⟩ <;> case_blind
  · refine run_map_lower _ cs ?_
    simp only [patTicked, seqs, lit, Blind]
    refine ⟨?_, ?_, ?_⟩ <;> case_blind
  · refine run_map_lower _ cs ?_
    simp only [patString, seqs, lit, Blind]
    refine ⟨?_, ?_, ?_⟩ <;> case_blind
  · refine run_map_lower _ cs ?_
    simp only [patEnd, List.map, List.cons_append, List.nil_append, seqs, ci, many1, Blind]
    refine ⟨?_, ?_, ?_, ⟨?_, ?_⟩, ?_, ?_, ?_⟩ <;> case_blind
  · refine run_map_lower _ cs ?_
    simp only [patEnd, List.map, List.cons_append, List.nil_append, seqs, ci, many1, Blind]
    refine ⟨?_, ?_, ?_, ⟨?_, ?_⟩, ?_, ?_⟩ <;> case_blind
  · refine run_map_lower _ cs ?_
    simp only [patEnd, List.map, List.cons_append, List.nil_append, seqs, ci, many1, Blind]
    refine ⟨?_, ?_, ?_, ⟨?_, ?_⟩, ?_, ?_, ?_, ?_, ?_⟩ <;> case_blind
  · refine run_map_lower _ cs ?_
    simp only [patNamespace, many1, Blind]
    refine ⟨⟨?_, ?_⟩, ?_⟩
    · case_blind
    · case_blind
    · intro x hx; simp only [List.mem_cons, List.not_mem_nil, or_false] at hx; rcases hx with rfl | rfl <;> decide
  · refine run_map_lower _ cs ?_
    simp only [patId, Blind]
    refine ⟨?_, ?_⟩ <;> case_blind
  · refine run_map_lower _ cs ?_
    simp only [patFraction, patExp, seqs, many1, opt, lit, ci, Blind]
    refine ⟨⟨⟨?_, ?_, ?_, ?_⟩, ⟨⟨?_, ?_⟩, ?_, ⟨?_, ⟨?_, ?_, ?_⟩, ?_, ?_⟩, trivial⟩, ⟨?_, ?_⟩, ?_, ⟨?_, ?_, ?_⟩, ?_, ?_⟩,
      ?_, trivial⟩ <;> case_blind
  · refine run_map_lower _ cs ?_
    simp only [patNumber, many1, Blind]
    refine ⟨?_, ?_⟩ <;> case_blind
  · refine run_map_lower _ cs ?_
    simp only [patNewline, many1, Blind]
    refine ⟨?_, ?_⟩ <;> case_blind

theorem scanLit_take (s cs : List Char) (n : Nat) (h : scanLit s cs = some n) : cs.take n = s := by
  unfold scanLit at h
  split at h
  · simp at h
  · split at h
    · next hp => simp only [Option.some.injEq] at h; subst h; exact hasPrefix_take s cs hp
    · simp at h

theorem scanLit_map_lower (s : List Char) (hs : ∀ x ∈ s, isLetterA x = false) (cs : List Char) :
    scanLit s (cs.map lowerAscii) = scanLit s cs := by
  simp only [scanLit, hasPrefix_map_lower s hs]


/-! ## the master alternation -/

theorem firstMatch_some {rules : List Rule} {cs : List Char} {r : Rule} {n : Nat}
    (h : firstMatch rules cs = some (r, n)) : r ∈ rules ∧ scanOf r cs = some n ∧ n ≠ 0 := by
  induction rules with
  | nil => simp [firstMatch] at h
  | cons r0 rs ih =>
    simp only [firstMatch] at h
    cases hs : scanOf r0 cs with
    | none =>
      simp only [hs] at h
      obtain ⟨h1, h2⟩ := ih h
      exact ⟨List.mem_cons_of_mem _ h1, h2⟩
    | some m =>
      simp only [hs] at h
      by_cases hm : m = 0
      · simp only [hm, beq_self_eq_true, if_true] at h
        obtain ⟨h1, h2⟩ := ih h
        exact ⟨List.mem_cons_of_mem _ h1, h2⟩
      · have : (m == 0) = false := by simp [hm]
        simp only [this, Bool.false_eq_true, if_false, Option.some.injEq, Prod.mk.injEq] at h
        obtain ⟨rfl, rfl⟩ := h
        exact ⟨by simp, hs, hm⟩

theorem firstMatch_none {rules : List Rule} {cs : List Char} (h : firstMatch rules cs = none) :
    ∀ r ∈ rules, ∀ n, scanOf r cs = some n → n = 0 := by
  induction rules with
  | nil => intro r hr; simp at hr
  | cons r0 rs ih =>
    simp only [firstMatch] at h
    intro r hr n hn
    cases hs : scanOf r0 cs with
    | none =>
      simp only [hs] at h
      rcases List.mem_cons.mp hr with rfl | hr
      · rw [hs] at hn; simp at hn
      · exact ih h r hr n hn
    | some m =>
      simp only [hs] at h
      by_cases hm : m = 0
      · simp only [hm, beq_self_eq_true, if_true] at h
        rcases List.mem_cons.mp hr with rfl | hr
        · rw [hs] at hn; simp only [Option.some.injEq] at hn; omega
        · exact ih h r hr n hn
      · have : (m == 0) = false := by simp [hm]
        simp [this] at h

theorem firstMatch_congr {rules : List Rule} {cs cs' : List Char}
    (h : ∀ r ∈ rules, scanOf r cs' = scanOf r cs) : firstMatch rules cs' = firstMatch rules cs := by
  induction rules with
  | nil => rfl
  | cons r0 rs ih =>
    simp only [firstMatch, h r0 (by simp)]
    rw [ih (fun r hr => h r (List.mem_cons_of_mem _ hr))]

/-! ## consequences of the table obligations -/

theorem contains_false_iff {l : List Char} {x : Char} : l.contains x = false ↔ x ∉ l := by
  rw [← Bool.not_eq_true, List.contains_iff_mem]

theorem scanOf_noNl (r : Rule) (h : ruleMayNl r = false) (cs : List Char) (n : Nat)
    (hs : scanOf r cs = some n) : ∀ x ∈ cs.take n, x ≠ '\n' := by
  unfold scanOf at hs
  unfold ruleMayNl at h
  cases hl : r.lit with
  | some s =>
    simp only [hl] at hs h
    rw [scanLit_take s cs n hs]
    intro x hx e
    subst e
    exact (contains_false_iff.mp h) hx
  | none =>
    simp only [hl] at hs h
    exact scanById_noNl _ h cs n hs

theorem scanOf_ends (r : Rule) (hl : r.lit = none) (h : idEndsNonNl (regexId r.regex) = true)
    (cs : List Char) (n : Nat) (hs : scanOf r cs = some n) : (cs.take n).getLast? ≠ some '\n' := by
  unfold scanOf at hs
  simp only [hl] at hs
  exact scanById_ends _ h cs n hs

structure RuleOk (r : Rule) : Prop where
  counts : ruleMayNl r = true → r.countsNl = true
  endLine : r.returnsTok = true → ruleMayNl r = true →
    r.setsEndLine = true ∧ r.lit = none ∧ idEndsNonNl (regexId r.regex) = true
  endPos : r.returnsTok = true → r.setsEndPos = true

theorem linesOk_rule {cfg : LexCfg} (h : linesOk cfg = true) {r : Rule} (hr : r ∈ cfg.rules) : RuleOk r := by
  unfold linesOk at h
  simp only [Bool.and_eq_true, List.all_eq_true] at h
  have hr' := h.1.1 r hr
  simp only [Bool.and_eq_true, Bool.or_eq_true, Bool.not_eq_true', Bool.or_eq_false_iff,
    Bool.and_eq_false_iff, Option.isNone_iff_eq_none] at hr'
  obtain ⟨⟨h1, h2⟩, h3⟩ := hr'
  refine ⟨?_, ?_, ?_⟩
  · intro hm
    rcases h1 with h1 | h1
    · rw [hm] at h1; simp at h1
    · exact h1
  · intro hret hm
    rcases h2 with h2 | h2
    · rcases h2 with h2 | h2
      · rw [hret] at h2; simp at h2
      · rw [hm] at h2; simp at h2
    · exact ⟨h2.1.1, h2.1.2, h2.2⟩
  · intro hret
    rcases h3 with h3 | h3
    · rw [hret] at h3; simp at h3
    · exact h3

theorem linesOk_ignore {cfg : LexCfg} (h : linesOk cfg = true) : '\n' ∉ cfg.ignore := by
  unfold linesOk at h
  simp only [Bool.and_eq_true, Bool.not_eq_true'] at h
  exact contains_false_iff.mp h.2

theorem scanNewline_head (cs : List Char) : ∃ k, Pat.run patNewline ('\n' :: cs) = some (k + 1) := by
  refine ⟨spanLen (fun c => c == '\n') cs, ?_⟩
  simp only [patNewline, Pat.many1, Pat.run, beq_self_eq_true, if_true, List.drop_succ_cons, List.drop_zero,
    Option.map_some]
  congr 1; omega

/-- with a sound table a newline is never skipped by `t_error` -/
theorem linesOk_newline_matches {cfg : LexCfg} (h : linesOk cfg = true) (cs : List Char) :
    firstMatch cfg.rules ('\n' :: cs) ≠ none := by
  unfold linesOk at h
  simp only [Bool.and_eq_true, List.any_eq_true, Option.isNone_iff_eq_none, beq_iff_eq] at h
  obtain ⟨r, hr, hl, hid⟩ := h.1.2
  intro hn
  obtain ⟨k, hk⟩ := scanNewline_head cs
  have := firstMatch_none hn r hr (k + 1) (by simp only [scanOf, hl, hid, scanById]; exact hk)
  omega

/-! ## the lexer run: every returned token records exactly where it is -/

/-- what is recorded in a token agrees with the text it was cut from -/
structure TokOk (text : List Char) (t : Tok) : Prop where
  nonempty : t.start < t.stop
  bound : t.stop ≤ text.length
  lexeme : t.lexeme = slice text t.start t.stop
  line : t.line = lineOf text t.start
  endLine : t.endLine = lineOf text t.stop
  lastNotNl : t.lexeme.getLast? ≠ some '\n'

theorem lexRun_ok (cfg : LexCfg) (hok : linesOk cfg = true) :
    ∀ (fuel : Nat) (pre cs : List Char),
      ∀ t ∈ (lexRun cfg fuel cs pre.length (1 + countNl pre)).1, TokOk (pre ++ cs) t ∧ pre.length ≤ t.start := by
  intro fuel
  induction fuel with
  | zero => intro pre cs t ht; simp [lexRun] at ht
  | succ fuel ih =>
    intro pre cs t ht
    cases cs with
    | nil => simp [lexRun] at ht
    | cons c cs =>
      simp only [lexRun] at ht
      -- one skipped non-newline character
      have skip : c ≠ '\n' → t ∈ (lexRun cfg fuel cs (pre.length + 1) (1 + countNl pre)).1 →
          TokOk (pre ++ c :: cs) t ∧ pre.length ≤ t.start := by
        intro hc ht'
        have h1 : (pre ++ [c]).length = pre.length + 1 := by simp
        have h2 : 1 + countNl (pre ++ [c]) = 1 + countNl pre := by
          rw [countNl_append, countNl_singleton, if_neg hc]; omega
        have := ih (pre ++ [c]) cs t (by rw [h1, h2]; exact ht')
        rw [List.append_assoc, List.singleton_append, h1] at this
        exact ⟨this.1, by omega⟩
      split at ht
      · next hig =>
        have hc : c ≠ '\n' := by
          intro e; subst e
          exact linesOk_ignore hok (List.contains_iff_mem.mp hig)
        exact skip hc ht
      · split at ht
        · next r n hfm =>
          obtain ⟨hr, hs, hn⟩ := firstMatch_some hfm
          have rok := linesOk_rule hok hr
          -- the lexeme and the state after it
          generalize hlex : (c :: cs).take n = lexeme at ht
          have hsplit : (pre ++ lexeme) ++ (c :: cs).drop n = pre ++ c :: cs := by
            rw [← hlex, List.append_assoc, List.take_append_drop]
          have hlexne : lexeme ≠ [] := by
            rw [← hlex]; cases n with
            | zero => exact absurd rfl hn
            | succ m => simp
          have hnl : r.countsNl = false → countNl lexeme = 0 := by
            intro hc
            have hm : ruleMayNl r = false := by
              cases hm : ruleMayNl r with
              | false => rfl
              | true => rw [rok.counts hm] at hc; simp at hc
            rw [← hlex]
            exact countNl_eq_zero (scanOf_noNl r hm _ n hs)
          have hline : (if r.countsNl = true then 1 + countNl pre + countNl lexeme else 1 + countNl pre)
              = 1 + countNl (pre ++ lexeme) := by
            rw [countNl_append]
            cases hc : r.countsNl with
            | true => simp only [if_true]; omega
            | false => simp only [Bool.false_eq_true, if_false, hnl hc]; omega
          have hrest : ∀ t ∈ (lexRun cfg fuel ((c :: cs).drop n) (pre.length + lexeme.length)
              (if r.countsNl = true then 1 + countNl pre + countNl lexeme else 1 + countNl pre)).1,
              TokOk (pre ++ c :: cs) t ∧ pre.length ≤ t.start := by
            intro t' ht'
            have h1 : (pre ++ lexeme).length = pre.length + lexeme.length := by simp
            have := ih (pre ++ lexeme) ((c :: cs).drop n) t' (by rw [h1, ← hline]; exact ht')
            rw [hsplit, h1] at this
            exact ⟨this.1, by omega⟩
          split at ht
          · next hret =>
            simp only [List.mem_cons] at ht
            rcases ht with rfl | ht
            · -- the token returned at this step
              have hpos := rok.endPos hret
              have hlen : lexeme.length ≤ (c :: cs).length := by
                rw [← hlex, List.length_take]; omega
              have hlexeq : lexeme = (c :: cs).take lexeme.length := by
                rw [← hlex, List.length_take]
                exact List.take_eq_take_min
              have hlast : lexeme.getLast? ≠ some '\n' := by
                cases hm : ruleMayNl r with
                | false =>
                  intro e
                  have hx : '\n' ∈ lexeme := List.mem_of_getLast? e
                  rw [← hlex] at hx
                  exact scanOf_noNl r hm _ n hs _ hx rfl
                | true =>
                  obtain ⟨_, hl, he⟩ := rok.endLine hret hm
                  rw [← hlex]
                  exact scanOf_ends r hl he _ n hs
              refine ⟨⟨?_, ?_, ?_, ?_, ?_, ?_⟩, ?_⟩
              · simp only [mkTok, hpos, if_true]
                have : 0 < lexeme.length := List.length_pos_iff.mpr hlexne
                omega
              · simp only [mkTok, hpos, if_true, List.length_append]; omega
              · simp only [mkTok, hpos, if_true]
                rw [slice_append_left]; exact hlexeq
              · simp only [mkTok, lineOf, List.take_left']
              · simp only [mkTok, hpos, if_true, lineOf]
                have htake : (pre ++ c :: cs).take (pre.length + lexeme.length) = pre ++ lexeme := by
                  rw [List.take_append]
                  simp only [Nat.add_sub_cancel_left]
                  rw [List.take_of_length_le (by omega), ← hlexeq]
                rw [htake, ← hline]
                cases hsl : r.setsEndLine with
                | true =>
                  cases hc : r.countsNl with
                  | true => simp
                  | false => simp
                | false =>
                  simp only [Bool.false_eq_true, if_false]
                  have hm : ruleMayNl r = false := by
                    cases hm : ruleMayNl r with
                    | false => rfl
                    | true => rw [(rok.endLine hret hm).1] at hsl; simp at hsl
                  have h0 : countNl lexeme = 0 := by
                    rw [← hlex]; exact countNl_eq_zero (scanOf_noNl r hm _ n hs)
                  cases hc : r.countsNl <;> simp [h0]
              · simp only [mkTok]; exact hlast
              · simp only [mkTok]; omega
            · exact hrest t ht
          · exact hrest t ht
        · next hfm =>
          have hc : c ≠ '\n' := by
            intro e; subst e
            exact linesOk_newline_matches hok cs hfm
          exact skip hc ht


/-- the returned tokens are in text order and do not overlap: each token ends before the next one starts -/
theorem lexRun_sorted (cfg : LexCfg) (hok : linesOk cfg = true) :
    ∀ (fuel : Nat) (pre cs : List Char),
      (lexRun cfg fuel cs pre.length (1 + countNl pre)).1.Pairwise (fun a b => a.stop ≤ b.start) := by
  intro fuel
  induction fuel with
  | zero => intro pre cs; simp [lexRun]
  | succ fuel ih =>
    intro pre cs
    cases cs with
    | nil => simp [lexRun]
    | cons c cs =>
      have skip : c ≠ '\n' →
          (lexRun cfg fuel cs (pre.length + 1) (1 + countNl pre)).1.Pairwise (fun a b => a.stop ≤ b.start) := by
        intro hc
        have h1 : (pre ++ [c]).length = pre.length + 1 := by simp
        have h2 : 1 + countNl (pre ++ [c]) = 1 + countNl pre := by
          rw [countNl_append, countNl_singleton, if_neg hc]; omega
        have := ih (pre ++ [c]) cs
        rwa [h1, h2] at this
      simp only [lexRun]
      split
      · next hig =>
        exact skip (by intro e; subst e; exact linesOk_ignore hok (List.contains_iff_mem.mp hig))
      · split
        · next r n hfm =>
          obtain ⟨hr, hs, hn⟩ := firstMatch_some hfm
          have rok := linesOk_rule hok hr
          generalize hlex : (c :: cs).take n = lexeme
          have hsplit : (pre ++ lexeme) ++ (c :: cs).drop n = pre ++ c :: cs := by
            rw [← hlex, List.append_assoc, List.take_append_drop]
          have hnl : r.countsNl = false → countNl lexeme = 0 := by
            intro hc
            have hm : ruleMayNl r = false := by
              cases hm : ruleMayNl r with
              | false => rfl
              | true => rw [rok.counts hm] at hc; simp at hc
            rw [← hlex]
            exact countNl_eq_zero (scanOf_noNl r hm _ n hs)
          have hline : (if r.countsNl = true then 1 + countNl pre + countNl lexeme else 1 + countNl pre)
              = 1 + countNl (pre ++ lexeme) := by
            rw [countNl_append]
            cases hc : r.countsNl with
            | true => simp only [if_true]; omega
            | false => simp only [Bool.false_eq_true, if_false, hnl hc]; omega
          have h1 : (pre ++ lexeme).length = pre.length + lexeme.length := by simp
          have hrest := ih (pre ++ lexeme) ((c :: cs).drop n)
          rw [h1, ← hline] at hrest
          split
          · next hret =>
            refine List.Pairwise.cons ?_ hrest
            intro b hb
            have hb' := (lexRun_ok cfg hok fuel (pre ++ lexeme) ((c :: cs).drop n) b (by rw [h1, ← hline]; exact hb)).2
            simp only [mkTok, rok.endPos hret, if_true]
            omega
          · exact hrest
        · next hfm =>
          exact skip (by intro e; subst e; exact linesOk_newline_matches hok cs hfm)

/-! ## totality: fuel = length of the input consumes the whole input -/

theorem lexRun_rest (cfg : LexCfg) :
    ∀ (fuel : Nat) (cs : List Char) (off line : Nat), cs.length ≤ fuel → (lexRun cfg fuel cs off line).2 = [] := by
  intro fuel
  induction fuel with
  | zero =>
    intro cs off line h
    have : cs = [] := List.length_eq_zero_iff.mp (by omega)
    subst this; rfl
  | succ fuel ih =>
    intro cs off line h
    cases cs with
    | nil => rfl
    | cons c cs =>
      simp only [List.length_cons] at h
      simp only [lexRun]
      split
      · exact ih cs _ _ (by omega)
      · split
        · next r n hfm =>
          obtain ⟨_, _, hn⟩ := firstMatch_some hfm
          have hlen : ((c :: cs).drop n).length ≤ fuel := by
            simp only [List.length_drop, List.length_cons]; omega
          split
          · exact ih _ _ _ hlen
          · exact ih _ _ _ hlen
        · exact ih cs _ _ (by omega)

/-! ## letter case -/

/-- forget the letter case of a token's lexeme -/
def lowTok (t : Tok) : Tok := { t with lexeme := t.lexeme.map lowerAscii }

theorem countNl_map_lower (cs : List Char) : countNl (cs.map lowerAscii) = countNl cs := by
  induction cs with
  | nil => rfl
  | cons c cs ih =>
    have h := caseBlind_eq_nonLetter '\n' (by decide) c
    simp only at h
    unfold countNl at ih ⊢
    simp only [List.map_cons, List.count_cons, ih, h]

theorem contains_lower (l : List Char) (hl : ∀ x ∈ l, isLetterA x = false) (c : Char) :
    l.contains (lowerAscii c) = l.contains c := by
  induction l with
  | nil => rfl
  | cons x l ih =>
    have h := caseBlind_eq_nonLetter x (hl x (by simp)) c
    simp only at h
    simp only [List.contains_cons, h, ih (fun y hy => hl y (by simp [hy]))]

structure CaseOk (cfg : LexCfg) : Prop where
  idUpper : cfg.idUpper = true
  lits : ∀ r ∈ cfg.rules, ∀ s, r.lit = some s → ∀ x ∈ s, isLetterA x = false
  ignore : ∀ x ∈ cfg.ignore, isLetterA x = false

theorem caseOk_spec {cfg : LexCfg} (h : caseOk cfg = true) : CaseOk cfg := by
  unfold caseOk at h
  simp only [Bool.and_eq_true, List.all_eq_true, Bool.not_eq_true'] at h
  refine ⟨h.1.1, ?_, h.2⟩
  intro r hr s hs x hx
  have := h.1.2 r hr
  simp only [hs, List.all_eq_true, Bool.not_eq_true'] at this
  exact this x hx

theorem scanOf_map_lower (r : Rule) (hl : ∀ s, r.lit = some s → ∀ x ∈ s, isLetterA x = false)
    (cs : List Char) : scanOf r (cs.map lowerAscii) = scanOf r cs := by
  unfold scanOf
  cases h : r.lit with
  | some s => exact scanLit_map_lower s (hl s h) cs
  | none => exact scanById_map_lower _ cs

theorem kindOf_map_lower (cfg : LexCfg) (hu : cfg.idUpper = true) (r : Rule) (lexeme : List Char) :
    kindOf cfg r (lexeme.map lowerAscii) = kindOf cfg r lexeme := by
  unfold kindOf
  have : (lexeme.map lowerAscii).map upperAscii = lexeme.map upperAscii := by
    rw [List.map_map]
    apply List.map_congr_left
    intro c _
    exact upper_lower c
  simp only [hu, if_true, this]

/-- lexing the lower-cased text gives the same tokens with lower-cased lexemes: same rules, same spans,
    same lines, same kinds -/
theorem lexRun_map_lower (cfg : LexCfg) (hc : CaseOk cfg) :
    ∀ (fuel : Nat) (cs : List Char) (off line : Nat),
      lexRun cfg fuel (cs.map lowerAscii) off line =
        ((lexRun cfg fuel cs off line).1.map lowTok, (lexRun cfg fuel cs off line).2.map lowerAscii) := by
  intro fuel
  induction fuel with
  | zero => intro cs off line; simp [lexRun]
  | succ fuel ih =>
    intro cs off line
    cases cs with
    | nil => simp [lexRun]
    | cons c cs =>
      have hfm : firstMatch cfg.rules (lowerAscii c :: cs.map lowerAscii) = firstMatch cfg.rules (c :: cs) := by
        rw [← List.map_cons]
        exact firstMatch_congr (fun r hr => scanOf_map_lower r (hc.lits r hr) _)
      simp only [List.map_cons, lexRun, contains_lower _ hc.ignore, hfm]
      split
      · exact ih cs _ _
      · split
        · next r n _ =>
          have h1 : (lowerAscii c :: cs.map lowerAscii).take n = ((c :: cs).take n).map lowerAscii := by
            rw [← List.map_cons, List.map_take]
          have h2 : (lowerAscii c :: cs.map lowerAscii).drop n = ((c :: cs).drop n).map lowerAscii := by
            rw [← List.map_cons, List.map_drop]
          rw [h1, h2, countNl_map_lower, List.length_map, ih]
          split
          · simp only [List.map_cons, Prod.mk.injEq, List.cons.injEq, and_true]
            simp only [mkTok, lowTok, kindOf_map_lower cfg hc.idUpper, List.length_map]
          · rfl
        · exact ih cs _ _

theorem lexWith_map_lower (cfg : LexCfg) (hc : CaseOk cfg) (text : List Char) :
    lexWith cfg (text.map lowerAscii) = (lexWith cfg text).map lowTok := by
  unfold lexWith
  rw [List.length_map, lexRun_map_lower cfg hc]

/-- pointwise transfer between two token lists that agree up to the case of the lexemes -/
theorem map_normTok_eq (cfg : LexCfg) :
    ∀ (l l' : List Tok), l'.map lowTok = l.map lowTok →
      (∀ t ∈ l, ∀ t' ∈ l', lowTok t' = lowTok t → isKwKind cfg t.kind = false → t'.lexeme = t.lexeme) →
      l'.map (normTok cfg) = l.map (normTok cfg) := by
  intro l
  induction l with
  | nil =>
    intro l' h _
    cases l' with
    | nil => rfl
    | cons _ _ => simp at h
  | cons t l ih =>
    intro l' h hq
    cases l' with
    | nil => simp at h
    | cons t' l' =>
      simp only [List.map_cons, List.cons.injEq] at h ⊢
      refine ⟨?_, ih l' h.2 (fun u hu u' hu' => hq u (by simp [hu]) u' (by simp [hu']))⟩
      have hlow := h.1
      have hk : t'.kind = t.kind := by
        have := congrArg Tok.kind hlow; simpa [lowTok] using this
      unfold normTok
      rw [hk]
      cases hkw : isKwKind cfg t.kind with
      | true =>
        simp only [if_true]
        cases t; cases t'
        simp only [lowTok, Tok.mk.injEq] at hlow ⊢
        simp only at hk
        refine ⟨?_, hlow.2⟩
        first | trivial | exact hk
      | false =>
        simp only [Bool.false_eq_true, if_false]
        have hlex := hq t (by simp) t' (by simp) hlow hkw
        cases t; cases t'
        simp only [lowTok, Tok.mk.injEq] at hlow hlex ⊢
        exact ⟨hlow.1, hlex, hlow.2.2⟩

theorem slice_map (f : Char → Char) (text : List Char) (a b : Nat) :
    (slice text a b).map f = slice (text.map f) a b := by
  unfold slice
  rw [List.map_take, List.map_drop]

end Pyx.OalLex
