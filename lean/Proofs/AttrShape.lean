import Proofs.Attr
import Gen.AttrShape

/-!
  C10 source tie: a GENERIC interpreter of the IR that translator/gen_attrshape.py extracts from
  `Class.__getattr__ / __setattr__ / __delattr__`, `MetaClass.attribute_type` and the class table of `MetaModel`,
  and the lemmas showing that PyxModel/Attr.lean equals that interpretation of the IR generated from the source.

  What is NOT read from the source but is Python itself: `object.__getattribute__` (a data descriptor on the type —
  the property of a referential attribute — first, then the instance `__dict__` under the exact name, else
  AttributeError), `object.__setattr__` (the property's setter refuses, else the `__dict__` is written), and the
  fact that `__getattr__` is consulted only after the normal lookup failed.
-/
namespace Pyx.AShape
open Pyx.Attr Pyx.Gen.AttrShape

def namesMatch : MatchForm → Name → Name → Bool
  | .upperBoth, a, b => decide (fold a = fold b)
  | .exact, a, b => decide (a = b)

/-- the loop over the declared attributes: the first one that matches the given name -/
def findDeclared (mf : MatchForm) (c : Cls) (sp : Name) : Option Name := c.names.find? (fun a => namesMatch mf a sp)

def pick (declared given : Name) : Target → Name
  | .declared => declared
  | .given => given

/-- `object.__getattribute__(self, t)` -/
def objectGet (c : Cls) (d : Dict) (t : Name) : Read :=
  if t ∈ c.refs then .prop t
  else match dget d t with
    | some v => .val v
    | none => .attrError

/-- `object.__setattr__(self, t, value)` -/
def objectSet (c : Cls) (d : Dict) (t : Name) (v : Val) : Dict × SetRes :=
  if t ∈ c.refs then (d, .metaExc) else (dset d t v, .ok)

/-- `none` = KeyError: `self.__dict__[t]` on a key that is not there - an outcome `getattr` does not have (the model's
    `Read` knows values, the property and AttributeError), so a shape that can reach it is not the model's function -/
def doGet (c : Cls) (d : Dict) (declared given : Name) : GetAct → Option Read
  | .dictValue t => (dget d (pick declared given t)).map .val
  | .objectGet t => some (objectGet c d (pick declared given t))

/-- the statement after the loop: only the name the caller gave is in scope (the loop variable is not bound to a match) -/
def doGetFall (c : Cls) (d : Dict) (given : Name) : GetFall → Option Read
  | .dictValueGiven => (dget d given).map .val
  | .objectGetGiven => some (objectGet c d given)

/-- `Class.__getattr__(name)` -/
def iGetHook (g : GetShape) (c : Cls) (d : Dict) (sp : Name) : Option Read :=
  match findDeclared g.matchForm c sp with
  | some a => if (dget d (pick a sp g.tested)).isSome then doGet c d a sp g.inDict else doGet c d a sp g.notInDict
  | none => doGetFall c d sp g.noMatch

/-- `getattr(inst, name)`: the normal lookup, then the hook; `none` = KeyError -/
def iGetattr (g : GetShape) (c : Cls) (d : Dict) (sp : Name) : Option Read :=
  match objectGet c d sp with
  | .attrError => iGetHook g c d sp
  | r => some r

def doSet (c : Cls) (d : Dict) (declared given : Name) (v : Val) : SetAct → Dict × SetRes
  | .dictStore t => (dset d (pick declared given t) v, .ok)
  | .objectSet t => objectSet c d (pick declared given t) v

/-- the statement after the loop: only the name the caller gave is in scope -/
def doSetFall (c : Cls) (d : Dict) (given : Name) (v : Val) : SetFall → Dict × SetRes
  | .dictStoreGiven => (dset d given v, .ok)
  | .objectSetGiven => objectSet c d given v

/-- `Class.__setattr__(name, value)` (it is always consulted) -/
def iSetattr (s : SetShape) (c : Cls) (d : Dict) (sp : Name) (v : Val) : Dict × SetRes :=
  match findDeclared s.matchForm c sp with
  | some a => if (dget d (pick a sp s.tested)).isSome then doSet c d a sp v s.inDict else doSet c d a sp v s.notInDict
  | none => doSetFall c d sp v s.noMatch

/-- `Class.__delattr__(name)` -/
def iDelattr (mf : MatchForm) (d : Dict) (sp : Name) : Dict × DelRes :=
  match d.find? (fun kv => namesMatch mf kv.1 sp) with
  | some kv => (ddel d kv.1, .ok)
  | none => (d, .attrError)

def iAttrType (mf : MatchForm) (c : Cls) (sp : Name) : Option Name :=
  (c.attrs.find? (fun a => namesMatch mf a.1 sp)).map (·.2)

def keyOf : KeyForm → Name → Name
  | .upper, k => fold k
  | .asGiven, k => k

def iFind (test read : KeyForm) (cs : Classes) (kind : Name) : Option Cls :=
  match clsGet cs (keyOf test kind) with
  | some _ => clsGet cs (keyOf read kind)
  | none => none

/-- two names of the list match (the loop with the `unames` set: a name is rejected when an earlier one matches) -/
def dupWith (mf : MatchForm) : List Name → Bool
  | [] => false
  | n :: r => r.any (fun m => namesMatch mf m n) || dupWith mf r

/-- the test `_is_reserved` makes: longer than `minLen`, starts with `pre`, ends with `suf` -/
def iReserved (rf : ReservedForm) (n : Name) : Bool :=
  decide (n.length > rf.minLen) && rf.pre.isPrefixOf n && rf.suf.isSuffixOf n

def iDefine (test stored store : KeyForm) (collision : Option MatchForm) (reserved : Option ReservedForm)
    (cs : Classes) (kind : Name) (attrs : List (Name × Name)) : Option Classes :=
  match clsGet cs (keyOf test kind) with
  | some _ => none
  | none =>
    -- the attribute loop raises MetaModelException at the first name that is reserved or matches an earlier one
    let refused : Bool := match reserved with
      | some rf => (attrs.map fun a => a.1).any (iReserved rf)
      | none => false
    let collides : Bool := match collision with
      | some mf => dupWith mf (attrs.map fun a => a.1)
      | none => false
    if refused || collides then none
    else some (cs ++ [(keyOf store kind, ({ kind := keyOf stored kind, attrs := attrs, refs := [] } : Cls))])

/-! ### equalities -/

theorem findDeclared_eq (c : Cls) (sp : Name) : findDeclared .upperBoth c sp = declMatch c sp := rfl

theorem getattr_eq (c : Cls) (d : Dict) (sp : Name) : iGetattr getShape c d sp = some (getattr c d sp) := by
  unfold getattr iGetattr objectGet
  by_cases h1 : sp ∈ c.refs
  · simp [h1]
  · simp only [h1, ↓reduceIte]
    cases h2 : dget d sp with
    | some v => rfl
    | none =>
      simp only [iGetHook, getShape, findDeclared_eq]
      cases h3 : declMatch c sp with
      | none => simp [doGetFall, objectGet, h1, h2]
      | some a =>
        simp only [pick, doGet, objectGet]
        by_cases h5 : a ∈ c.refs
        · simp [h5]
        · simp only [h5, ↓reduceIte]
          cases dget d a <;> rfl

theorem setattr_eq (c : Cls) (d : Dict) (sp : Name) (v : Val) : setattr c d sp v = iSetattr setShape c d sp v := by
  unfold setattr iSetattr
  simp only [setShape, findDeclared_eq]
  cases h3 : declMatch c sp with
  | none => rfl
  | some a =>
    simp only [pick, doSet, objectSet]
    by_cases hs : (dget d a).isSome = true <;> by_cases h5 : a ∈ c.refs <;> simp [hs, h5]

theorem delattr_eq (d : Dict) (sp : Name) : delattr d sp = iDelattr delMatch d sp := rfl

theorem attrType_eq (c : Cls) (sp : Name) : attrType c sp = iAttrType attributeTypeMatch c sp := rfl

theorem findMetaclass_eq (cs : Classes) (kind : Name) :
    findMetaclass cs kind = iFind findTestKey findReadKey cs kind := by
  unfold findMetaclass iFind
  simp only [findTestKey, findReadKey, keyOf]
  cases clsGet cs (fold kind) <;> rfl

theorem dupFold_eq : ∀ (l : List Name), dupFold l = dupWith .upperBoth l
  | [] => rfl
  | n :: r => by simp only [dupFold, dupWith, namesMatch, dupFold_eq r]

theorem defineClass_eq (cs : Classes) (kind : Name) (attrs : List (Name × Name)) :
    defineClass cs kind attrs =
      iDefine defineTestKey defineStoredKind defineStoreKey defineAttrCollision defineReserved cs kind attrs := by
  unfold defineClass iDefine badNames
  simp only [defineTestKey, defineStoredKind, defineStoreKey, defineAttrCollision, defineReserved, keyOf, dupFold_eq]
  rfl

end Pyx.AShape
