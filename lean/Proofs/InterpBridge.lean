import Proofs.InterpAttr
import Proofs.InterpEffects

/-!
  Program execution meets the mechanism.

  `Proofs/InterpEffects.lean`: the final state of a program run is reached by a history of successful state
  operations on named instances.  `Proofs/InterpAttr.lean` (`attr_refines`): histories of mechanism operations
  (new / relate / unrelate / delete / setattr on global instance indices) keep the mechanism state (`Pyx.Meta.State` +
  the attribute dicts) and the Spec state in correspondence.  Here the two are joined: every successful Spec operation
  on a state that corresponds to a mechanism state IS (the Spec image of) a mechanism operation of the refinement's
  domain — the instances it names are named by the correspondence — so the final state of a program run corresponds
  to the mechanism state after that history of mechanism operations.

  A write to a class's own identifying attribute corresponds too (`write_id`: the mechanism model keeps ids in
  `idOf : Inst → Nat`), for NON-NEGATIVE integers; the conclusion is stated under the condition that the history
  assigns only such values to id attributes (`IdWritesNonneg`), and unconditionally for models without id attributes.
-/
set_option linter.unusedSectionVars false
set_option linter.unusedVariables false
namespace Pyx.Interp

/-- instances live only in classes the context knows -/
def Closed (kname : Nat → String) (kinds : List Nat) (st : State) : Prop :=
  ∀ c, st.live c ≠ [] → ∃ k ∈ kinds, c = kname k

/-- where the history assigns a class's own identifying attribute, the value is a non-negative integer (the mechanism
    model keeps ids in `idOf : Inst → Nat`) -/
def IdWritesNonneg (kname : Nat → String) (at_ : Pyx.Meta.Attrs) : Eff → Prop
  | .set X name v => ∀ k, X.cls = kname k → at_.idName k = some name → ∃ i : Int, v = .int i ∧ 0 ≤ i
  | _ => True

theorem relate_live {C : Ctx} {x y : Inst} {r p : String} {st st' : State} (h : relate C x y r p st = .ok st') :
    st'.live = st.live ∧ st.isLive x = true ∧ st.isLive y = true := by
  unfold relate at h
  split at h
  · rename_i hl
    simp only [Bool.and_eq_true] at hl
    split at h
    · cases h
    · simp only at h
      split at h
      · cases h; exact ⟨rfl, hl⟩
      · split at h
        · cases h
        · cases h; exact ⟨rfl, hl⟩
  · cases h

theorem unrelate_live {C : Ctx} {x y : Inst} {r p : String} {st st' : State} (h : unrelate C x y r p st = .ok st') :
    st'.live = st.live ∧ st.isLive x = true ∧ st.isLive y = true := by
  unfold unrelate at h
  split at h
  · rename_i hl
    simp only [Bool.and_eq_true] at hl
    split at h
    · cases h
    · simp only at h
      split at h
      · cases h; exact ⟨rfl, hl⟩
      · cases h
  · cases h

theorem setAttr_inv {C : Ctx} {i : Inst} {name : String} {v : Val} {st st' : State} (h : setAttr C i name v st = .ok st') :
    st'.live = st.live ∧ st.isLive i = true ∧
    ∃ a, findAttr C i.cls name = some a ∧ a.referential = false ∧ tyMatches a.ty v = true := by
  unfold setAttr at h
  split at h
  · rename_i hl
    split at h
    · rename_i a ha
      split at h
      · cases h
      · rename_i hr
        split at h
        · rename_i ht
          cases h
          exact ⟨rfl, hl, a, ha, by simpa using hr, ht⟩
        · cases h
    · cases h
  · cases h

theorem deleteInst_inv {i : Inst} {st st' : State} (h : deleteInst i st = .ok st') :
    st.isLive i = true ∧ ∀ c, st'.live c ≠ [] → st.live c ≠ [] := by
  unfold deleteInst at h
  split at h
  · rename_i hl
    cases h
    refine ⟨hl, ?_⟩
    intro c hc hnil
    apply hc
    show upd st.live i.cls ((st.live i.cls).erase i.idx) c = []
    unfold upd
    split
    · rename_i e; rw [← e, hnil]; rfl
    · exact hnil
  · cases h

theorem findClass_ctxOfA_some {kname : Nat → String} {decl : Nat → List AttrDecl} {kinds : List Nat} {sch : MSchema}
    {cls : String} {c : ClassDecl} (h : findClass (ctxOfA kname decl kinds sch) cls = some c) :
    ∃ k ∈ kinds, cls = kname k := by
  unfold findClass ctxOfA at h
  have hm := List.mem_of_find?_eq_some h
  have hp := List.find?_some h
  obtain ⟨k, hk, rfl⟩ := List.mem_map.1 hm
  exact ⟨k, hk, (by simpa using hp : kname k = cls).symm⟩

theorem newInst_inv {kname : Nat → String} {decl : Nat → List AttrDecl} {kinds : List Nat} {sch : MSchema}
    {cls : String} {st st' : State} {i : Inst} (h : newInst (ctxOfA kname decl kinds sch) cls st = .ok (i, st')) :
    (∃ k ∈ kinds, cls = kname k) ∧ ∀ c, st'.live c ≠ [] → c = cls ∨ st.live c ≠ [] := by
  unfold newInst at h
  split at h
  · cases h
  · rename_i c hc
    simp only at h
    cases h
    refine ⟨findClass_ctxOfA_some hc, ?_⟩
    intro c' hc'
    by_cases e : c' = cls
    · exact Or.inl e
    · right
      intro hnil
      apply hc'
      show upd st.live cls _ c' = []
      unfold upd
      rw [if_neg e]; exact hnil

section
variable {kname : Nat → String} {decl : Nat → List AttrDecl} {at_ : Pyx.Meta.Attrs} {sch : MSchema}
variable {ι : Nat → Inst} {s : MState} {d : MDict} {st : State}

/-- a live Spec instance of a closed state is named by the correspondence -/
theorem named {kinds : List Nat} (R : Refines kname ι s st) (hp : Pyx.Meta.PoolInv s) (hc : Closed kname kinds st)
    {X : Inst} (hl : st.isLive X = true) :
    ∃ x, Pyx.Meta.live s x ∧ ι x = X ∧ s.kindOf x ∈ kinds := by
  rw [State.isLive, decide_eq_true_eq] at hl
  obtain ⟨k, hkin, hk⟩ := hc X.cls (fun e => by rw [e] at hl; cases hl)
  rw [hk, R.pool k] at hl
  obtain ⟨z, hz, hzi⟩ := List.mem_map.1 hl
  have hz' := (hp k).2 z hz
  have hcls := R.cls z hz'.1
  rw [hz'.2] at hcls
  refine ⟨z, ⟨hz'.1, by rw [hz'.2]; exact hz⟩, ?_, by rw [hz'.2]; exact hkin⟩
  cases hX : X with
  | mk c n =>
    cases hι : ι z with
    | mk c' n' =>
      rw [hι] at hcls hzi; rw [hX] at hk hzi
      simp only at hcls hzi hk
      rw [hcls, hzi, hk]

/-- one successful Spec operation on corresponding states is the Spec image of a mechanism operation of the domain -/
theorem eff_step (hk : Function.Injective kname) (kinds : List Nat)
    (hD : ∀ k ∈ kinds, DeclOk decl at_ sch k)
    (R : RefinesA kname decl at_ sch ι s d st) (A : Pyx.Meta.AllInv sch s) (hc : Closed kname kinds st)
    (e : Eff) (st' : State) (h : applyEff (ctxOfA kname decl kinds sch) e st = .ok st') (hno : IdWritesNonneg kname at_ e) :
    ∃ op, OpOkA decl at_ sch kinds s op ∧
      (specStepA kname (ctxOfA kname decl kinds sch) ι s st op).2 = st' ∧ Closed kname kinds st' := by
  cases e with
  | new cls =>
    simp only [applyEff] at h
    cases hn : newInst (ctxOfA kname decl kinds sch) cls st with
    | error err => rw [hn] at h; cases h
    | ok r =>
      obtain ⟨i, st1⟩ := r
      rw [hn] at h
      simp only at h
      cases h
      obtain ⟨⟨k, hkin, rfl⟩, hlive⟩ := newInst_inv hn
      refine ⟨.store (.new k (at_.idName k).isSome), ⟨hkin, hD k hkin, rfl⟩, ?_, ?_⟩
      · simp only [specStepA, specStep, hn]
      · intro c hc'
        rcases hlive c hc' with e | e
        · exact ⟨k, hkin, e⟩
        · exact hc c e
  | delete X =>
    simp only [applyEff] at h
    obtain ⟨hl, hlive⟩ := deleteInst_inv h
    obtain ⟨x, hx, rfl, _⟩ := named R.store A.pool hc hl
    refine ⟨.store (.delete x), hx.1, ?_, fun c hc' => hc c (hlive c hc')⟩
    simp only [specStepA, specStep, h]
  | relate X Y r p =>
    simp only [applyEff] at h
    obtain ⟨hlv, hlx, hly⟩ := relate_live h
    obtain ⟨x, hx, rfl, _⟩ := named R.store A.pool hc hlx
    obtain ⟨y, hy, rfl, _⟩ := named R.store A.pool hc hly
    refine ⟨.store (.relate x y r p), ⟨hx.1, hy.1⟩, ?_, fun c hc' => hc c (by rw [← hlv]; exact hc')⟩
    simp only [specStepA, specStep, h]
  | unrelate X Y r p =>
    simp only [applyEff] at h
    obtain ⟨hlv, hlx, hly⟩ := unrelate_live h
    obtain ⟨x, hx, rfl, _⟩ := named R.store A.pool hc hlx
    obtain ⟨y, hy, rfl, _⟩ := named R.store A.pool hc hly
    refine ⟨.store (.unrelate x y r p), ⟨hx.1, hy.1⟩, ?_, fun c hc' => hc c (by rw [← hlv]; exact hc')⟩
    simp only [specStepA, specStep, h]
  | set X name v =>
    simp only [applyEff] at h
    obtain ⟨hlv, hlx, a, hfa, hnr, hty⟩ := setAttr_inv h
    obtain ⟨x, hx, rfl, hkin⟩ := named R.store A.pool hc hlx
    have hcls := R.store.cls x hx.1
    rw [hcls, findAttr_ctxOfA hk decl sch _ kinds hkin] at hfa
    have hmem : a ∈ decl (s.kindOf x) := List.mem_of_find?_eq_some hfa
    have hname : a.name = name := by simpa using List.find?_some hfa
    have hform : Pyx.Meta.formalFrom (s.kindOf x) name 0 sch = [] := by
      apply Classical.byContradiction
      intro hne
      have := ((hD _ hkin).refs a hmem).2 (by rw [hname]; exact hne)
      rw [hnr] at this; cases this
    by_cases hid : at_.idName (s.kindOf x) = some name
    · obtain ⟨i, hv, hi⟩ := hno _ hcls hid
      refine ⟨.set x name v, ⟨hx, hkin, a, hfa, Or.inr (Or.inr ⟨hnr, hform, hid, hty, i, hv, hi⟩)⟩, ?_,
        fun c hc' => hc c (by rw [← hlv]; exact hc')⟩
      simp only [specStepA, h]
    · refine ⟨.set x name v, ⟨hx, hkin, a, hfa, Or.inr (Or.inl ⟨hnr, ⟨hform, hid⟩, hty⟩)⟩, ?_,
        fun c hc' => hc c (by rw [← hlv]; exact hc')⟩
      simp only [specStepA, h]

/-- **a history of successful Spec operations is the image of a mechanism history of the domain**, and the states
    after both correspond -/
theorem effs_refine (hk : Function.Injective kname) (kinds : List Nat) (hok : Pyx.Meta.SchemaOk sch)
    (hD : ∀ k ∈ kinds, DeclOk decl at_ sch k) :
    ∀ (es : List Eff) (ι : Nat → Inst) (s : MState) (d : MDict) (st st' : State),
      RefinesA kname decl at_ sch ι s d st → Pyx.Meta.AllInv sch s → Closed kname kinds st →
      applyEffs (ctxOfA kname decl kinds sch) es st = .ok st' → (∀ e ∈ es, IdWritesNonneg kname at_ e) →
      ∃ ops, DomA decl at_ sch kinds s d ops ∧
        (specRunA kname decl at_ (ctxOfA kname decl kinds sch) sch ops s d ι st).2 = st' ∧
        RefinesA kname decl at_ sch (specRunA kname decl at_ (ctxOfA kname decl kinds sch) sch ops s d ι st).1
          (mRunA decl at_ sch ops s d).1 (mRunA decl at_ sch ops s d).2 st' ∧
        Closed kname kinds st'
  | [], ι, s, d, st, st', R, A, hc, h, _ => by
    simp [applyEffs] at h; subst h
    exact ⟨[], trivial, rfl, R, hc⟩
  | e :: es, ι, s, d, st, st', R, A, hc, h, hno => by
    simp only [applyEffs] at h
    cases he : applyEff (ctxOfA kname decl kinds sch) e st with
    | error err => rw [he] at h; cases h
    | ok st1 =>
      rw [he] at h
      simp only at h
      obtain ⟨op, hop, hst1, hc1⟩ := eff_step hk kinds hD R A hc e st1 he (hno e List.mem_cons_self)
      have R1 := stepA_refines hk kinds hok R A op hop
      rw [hst1] at R1
      have A1 := allInv_stepA hok kinds A d op hop
      obtain ⟨ops, hdom, hrun, R2, hc2⟩ := effs_refine hk kinds hok hD es _ _ _ st1 st' R1 A1 hc1 h
        (fun e' he' => hno e' (List.mem_cons_of_mem _ he'))
      refine ⟨op :: ops, ⟨hop, hdom⟩, ?_, ?_, hc2⟩
      · simp only [specRunA]; rw [hst1]; exact hrun
      · simp only [specRunA, mRunA]; rw [hst1]; exact R2

/-- **program execution meets the mechanism.**  Let the Spec state `st` correspond to the mechanism state `(s, d)`
    (`RefinesA`, e.g. both initial, or both after any history of the domain — `attr_refines`).  A program run from `st`
    that ends normally in `st'` — any statements, nesting, loops, fuel — reaches `st'` through a history `es` of successful
    state operations, and (if `es` assigns only non-negative integers to identifying id attributes) there is a history `ops` of mechanism operations
    of the refinement's domain such that the mechanism state after `ops` corresponds to `st'`: what the mechanism holds
    (pools in creation order, both directions of every association in link order, attribute values, the id counter) is
    what the program's final Spec state says. -/
theorem program_refines (hk : Function.Injective kname) (kinds : List Nat) (hok : Pyx.Meta.SchemaOk sch)
    (hD : ∀ k ∈ kinds, DeclOk decl at_ sch k)
    (R : RefinesA kname decl at_ sch ι s d st) (A : Pyx.Meta.AllInv sch s) (hc : Closed kname kinds st)
    (fuel : Nat) (body : Block) (kw : List (String × Val)) (v : Val) (st' : State)
    (h : runFunction (ctxOfA kname decl kinds sch) fuel body kw st = some (.ok (v, st'))) :
    ∃ es, applyEffs (ctxOfA kname decl kinds sch) es st = .ok st' ∧
      ((∀ e ∈ es, IdWritesNonneg kname at_ e) →
        ∃ ops ι', DomA decl at_ sch kinds s d ops ∧
          RefinesA kname decl at_ sch ι' (mRunA decl at_ sch ops s d).1 (mRunA decl at_ sch ops s d).2 st') := by
  obtain ⟨es, hes⟩ := runFunction_effects _ fuel body kw st st' v h
  refine ⟨es, hes, fun hno => ?_⟩
  obtain ⟨ops, hdom, _, R', _⟩ := effs_refine hk kinds hok hD es ι s d st st' R A hc hes hno
  exact ⟨ops, _, hdom, R'⟩

/-- **the syntactic form — nothing hidden in the premise**: a program whose attribute assignments (at any depth) never
    name a class's own identifying attribute (`StmtOk`, with `N name := no kind has `name` as its id attribute`), run
    from a Spec state that corresponds to a mechanism state, reaches its final state through a history `es` that IS the
    image of a history `ops` of mechanism operations of the refinement's domain (`specRunA … ops` ends in that very
    state), and the mechanism state after `ops` corresponds to it -/
theorem program_refines_syntactic (hk : Function.Injective kname) (kinds : List Nat) (hok : Pyx.Meta.SchemaOk sch)
    (hD : ∀ k ∈ kinds, DeclOk decl at_ sch k)
    (R : RefinesA kname decl at_ sch ι s d st) (A : Pyx.Meta.AllInv sch s) (hc : Closed kname kinds st)
    (fuel : Nat) (body : Block) (hbody : ∀ s ∈ body, StmtOk (fun name => ∀ k, at_.idName k ≠ some name) s)
    (kw : List (String × Val)) (v : Val) (st' : State)
    (h : runFunction (ctxOfA kname decl kinds sch) fuel body kw st = some (.ok (v, st'))) :
    ∃ es ops, applyEffs (ctxOfA kname decl kinds sch) es st = .ok st' ∧
      DomA decl at_ sch kinds s d ops ∧
      (specRunA kname decl at_ (ctxOfA kname decl kinds sch) sch ops s d ι st).2 = st' ∧
      RefinesA kname decl at_ sch (specRunA kname decl at_ (ctxOfA kname decl kinds sch) sch ops s d ι st).1
        (mRunA decl at_ sch ops s d).1 (mRunA decl at_ sch ops s d).2 st' := by
  obtain ⟨es, hN, hes⟩ := runFunction_effectsN (ctxOfA kname decl kinds sch) _
    (fun f hf => by simp [ctxOfA] at hf) fuel body hbody kw st st' v h
  have hno : ∀ e ∈ es, IdWritesNonneg kname at_ e := by
    intro e he
    have := hN e he
    cases e with
    | set X name w => intro k _ hid; exact absurd hid (this k)
    | _ => trivial
  obtain ⟨ops, hdom, hrun, R', _⟩ := effs_refine hk kinds hok hD es ι s d st st' R A hc hes hno
  exact ⟨es, ops, hes, hdom, hrun, R'⟩

/-- without identifying id attributes in the model the condition is void -/
theorem program_refines_noid (hk : Function.Injective kname) (kinds : List Nat) (hok : Pyx.Meta.SchemaOk sch)
    (hD : ∀ k ∈ kinds, DeclOk decl at_ sch k) (hid : ∀ k, at_.idName k = none)
    (R : RefinesA kname decl at_ sch ι s d st) (A : Pyx.Meta.AllInv sch s) (hc : Closed kname kinds st)
    (fuel : Nat) (body : Block) (kw : List (String × Val)) (v : Val) (st' : State)
    (h : runFunction (ctxOfA kname decl kinds sch) fuel body kw st = some (.ok (v, st'))) :
    ∃ ops ι', DomA decl at_ sch kinds s d ops ∧
      RefinesA kname decl at_ sch ι' (mRunA decl at_ sch ops s d).1 (mRunA decl at_ sch ops s d).2 st' := by
  obtain ⟨es, _, hrest⟩ := program_refines hk kinds hok hD R A hc fuel body kw v st' h
  apply hrest
  intro e _
  cases e <;> first | trivial | (intro k _ hh; rw [hid k] at hh; cases hh)

/-- the initial states: empty, corresponding, closed -/
theorem closed_init (kinds : List Nat) : Closed kname kinds initState := by
  intro c hc; exact absurd rfl hc

end

end Pyx.Interp
