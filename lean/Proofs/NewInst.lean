import PyxModel.NewInst
import Proofs.Attr

/-! helper lemmas for C19: typed defaults, argument order, the integer generator, fresh ids -/
namespace Pyx.NewInst
open Pyx.Attr Pyx.Gen.MetaDefaults

/-! ### the integer generator -/

/-- specification: `n` is the value the next `next` returns; only `next` advances it -/
def specRun : List GOp → Nat → List Int
  | [], _ => []
  | .peek :: r, n => (n : Int) :: specRun r n
  | .next :: r, n => (n : Int) :: specRun r (n + 1)

def countNext : List GOp → Nat
  | [] => 0
  | .peek :: r => countNext r
  | .next :: r => countNext r + 1

theorem intGen_run : ∀ (ops : List GOp) (n : Nat),
    IntGen.run ops { current := (n : Int) } = (specRun ops n, { current := ((n + countNext ops : Nat) : Int) })
  | [], n => by simp [IntGen.run, specRun, countNext]
  | .peek :: r, n => by
    simp only [IntGen.run, intGen_run r n, specRun, countNext, IntGen.peek]
  | .next :: r, n => by
    have h : ({ current := IntGen.readfunc { current := (n : Int) } } : IntGen) = { current := ((n + 1 : Nat) : Int) } := by
      simp [IntGen.readfunc]
    simp only [IntGen.run, IntGen.next, h, intGen_run r (n + 1), specRun, countNext]
    congr 2
    omega

/-- the same for any generator: position `p`, only `next` advances it -/
def specRunS (stream : Nat → Int) : List GOp → Nat → List Int
  | [], _ => []
  | .peek :: r, p => stream p :: specRunS stream r p
  | .next :: r, p => stream p :: specRunS stream r (p + 1)

theorem idGen_run (stream : Nat → Int) : ∀ (ops : List GOp) (p : Nat),
    IdGen.run ops { stream := stream, pos := p } =
      (specRunS stream ops p, { stream := stream, pos := p + countNext ops })
  | [], p => by simp [IdGen.run, specRunS, countNext]
  | .peek :: r, p => by simp only [IdGen.run, idGen_run stream r p, specRunS, countNext, IdGen.peek]
  | .next :: r, p => by
    simp only [IdGen.run, IdGen.next, idGen_run stream r (p + 1), specRunS, countNext]
    congr 2
    omega

theorem specRunS_int : ∀ (ops : List GOp) (p : Nat), specRunS intStream ops p = specRun ops (p + 1)
  | [], _ => rfl
  | .peek :: r, p => by simp [specRunS, specRun, specRunS_int r p, intStream]
  | .next :: r, p => by simp [specRunS, specRun, specRunS_int r (p + 1), intStream]

theorem intStream_inj (i j : Nat) (h : intStream i = intStream j) : i = j := by
  unfold intStream at h; omega

theorem intStream_ne_zero (i : Nat) : intStream i ≠ 0 := by
  unfold intStream; omega

/-! ### argument lists -/

theorem lastGiven_append (u : Name) : ∀ (l1 l2 : List (Name × Val)),
    lastGiven u (l1 ++ l2) = (lastGiven u l2).or (lastGiven u l1)
  | [], l2 => by cases h : lastGiven u l2 <;> simp [lastGiven, h]
  | (n, v) :: r, l2 => by
    simp only [List.cons_append, lastGiven, lastGiven_append u r l2]
    cases h2 : lastGiven u l2 <;> cases h1 : lastGiven u r <;> simp

/-- a history of writes under non-referential spellings: the cell holds the last value given for the name -/
theorem lastValue_writes (c : Cls) (u : Name) : ∀ (l : List (Name × Val)) (cur : Option Val),
    (∀ it ∈ l, isRefSp c it.1 = false) →
    lastValue c u cur (l.map fun it => Op.write it.1 it.2) = (lastGiven u l).or cur
  | [], cur, _ => by simp [lastValue, lastGiven]
  | (n, v) :: r, cur, h => by
    have hn : isRefSp c n = false := h (n, v) (by simp)
    simp only [List.map_cons, lastValue, hn, and_true, lastGiven]
    rw [lastValue_writes c u r _ (fun it hi => h it (by simp [hi]))]
    cases h1 : lastGiven u r with
    | some x => simp
    | none => by_cases hu : fold n = u <;> simp [hu]

theorem plain_not_refSp {c : Cls} (hwf : WF c) {sp : Name} (hp : Plain c sp) : isRefSp c sp = false := by
  obtain ⟨a, ha, hr, hf⟩ := hp
  cases h : isRefSp c sp with
  | false => rfl
  | true => exact absurd ((isRefSp_iff hwf ha hf).mp h) hr

theorem lastGiven_filter_refs {c : Cls} (hwf : WF c) {a : Name} (ha : a ∈ c.names) (hr : a ∉ c.refs) :
    ∀ (l : List (Name × Val)),
      lastGiven (fold a) (l.filter fun it => !(decide (it.1 ∈ c.refs))) = lastGiven (fold a) l
  | [] => rfl
  | (n, v) :: r => by
    by_cases hn : n ∈ c.refs
    · have hne : ¬ fold n = fold a := by
        intro hf
        have := hwf.inj (hwf.2 n hn) ha hf
        exact hr (this ▸ hn)
      simp only [List.filter_cons, hn, decide_true, Bool.not_true, Bool.false_eq_true, ↓reduceIte, lastGiven,
        lastGiven_filter_refs hwf ha hr r, hne]
      cases lastGiven (fold a) r <;> rfl
    · simp only [List.filter_cons, hn, decide_false, Bool.not_false, ↓reduceIte, lastGiven,
        lastGiven_filter_refs hwf ha hr r]

theorem lastGiven_map_resolve (c : Cls) (u : Name) : ∀ (l : List (Name × Val)),
    lastGiven u (l.map (resolveKw c)) = lastGiven u l
  | [] => rfl
  | kw :: r => by
    obtain ⟨n, v⟩ := kw
    have hf := fold_resolveKw c (n, v)
    have hv : (resolveKw c (n, v)).2 = v := rfl
    rw [List.map_cons, show resolveKw c (n, v) = ((resolveKw c (n, v)).1, v) from Prod.ext rfl hv]
    simp only [lastGiven, lastGiven_map_resolve c u r, hf]

/-! ### `computeDefaults` -/

theorem computeDefaults_mem (dflt : DfltFn) (c : Cls) : ∀ (attrs : List (Name × Name)) (pos : Nat) (a : Name) (v : Val),
    (a, v) ∈ (computeDefaults dflt c attrs pos).1 →
    a ∉ c.refs ∧ ∃ ty p p', (a, ty) ∈ attrs ∧ dflt ty p = some (v, p')
  | [], _, _, _, h => by simp [computeDefaults] at h
  | (b, ty) :: r, pos, a, v, h => by
    unfold computeDefaults at h
    by_cases hb : b ∈ c.refs
    · simp only [hb, ↓reduceIte] at h
      obtain ⟨h1, ty', p, p', hm, hd⟩ := computeDefaults_mem dflt c r pos a v h
      exact ⟨h1, ty', p, p', by simp [hm], hd⟩
    · simp only [hb, ↓reduceIte] at h
      cases hd : dflt ty pos with
      | none => simp [hd] at h
      | some vp =>
        obtain ⟨v0, p0⟩ := vp
        simp only [hd, List.mem_cons, Prod.mk.injEq] at h
        rcases h with ⟨rfl, rfl⟩ | h
        · exact ⟨hb, ty, pos, p0, by simp, hd⟩
        · obtain ⟨h1, ty', p, p', hm, hd'⟩ := computeDefaults_mem dflt c r p0 a v h
          exact ⟨h1, ty', p, p', by simp [hm], hd'⟩

/-- when every type is known, there is one default per non-referential attribute, in attribute order -/
theorem computeDefaults_names (dflt : DfltFn) (c : Cls) : ∀ (attrs : List (Name × Name)) (pos : Nat),
    (computeDefaults dflt c attrs pos).2.2 = true →
    (computeDefaults dflt c attrs pos).1.map (·.1) = (attrs.filter fun at' => !(decide (at'.1 ∈ c.refs))).map (·.1)
  | [], _, _ => rfl
  | (b, ty) :: r, pos, h => by
    unfold computeDefaults at h ⊢
    by_cases hb : b ∈ c.refs
    · simp only [hb, ↓reduceIte] at h ⊢
      simp only [List.filter_cons, hb, decide_true, Bool.not_true, Bool.false_eq_true, ↓reduceIte]
      exact computeDefaults_names dflt c r pos h
    · simp only [hb, ↓reduceIte] at h ⊢
      cases hd : dflt ty pos with
      | none => simp [hd] at h
      | some vp =>
        obtain ⟨v0, p0⟩ := vp
        simp only [hd] at h ⊢
        simp only [List.filter_cons, hb, decide_false, Bool.not_false, ↓reduceIte, List.map_cons,
          computeDefaults_names dflt c r p0 h]

theorem lastGiven_of_mem : ∀ (l : List (Name × Val)) (a : Name) (v : Val),
    (l.map fun it => fold it.1).Nodup → (a, v) ∈ l → lastGiven (fold a) l = some v
  | [], _, _, _, h => by simp at h
  | (n, w) :: r, a, v, hn, h => by
    simp only [List.map_cons, List.nodup_cons, List.mem_map, not_exists, not_and] at hn
    simp only [List.mem_cons, Prod.mk.injEq] at h
    rcases h with ⟨rfl, rfl⟩ | h
    · have : lastGiven (fold a) r = none := by
        cases hl : lastGiven (fold a) r with
        | none => rfl
        | some x =>
          exfalso
          exact lastGiven_some_mem r (fold a) x hl |>.elim fun it hi => hn.1 it hi.1 hi.2
      simp [lastGiven, this]
    · simp [lastGiven, lastGiven_of_mem r a v hn.2 h]
where
  lastGiven_some_mem : ∀ (l : List (Name × Val)) (u : Name) (x : Val), lastGiven u l = some x →
      ∃ it, it ∈ l ∧ fold it.1 = u
    | [], _, _, h => by simp [lastGiven] at h
    | (n, w) :: r, u, x, h => by
      simp only [lastGiven] at h
      cases hl : lastGiven u r with
      | some y =>
        obtain ⟨it, hi, hf⟩ := lastGiven_some_mem r u y hl
        exact ⟨it, by simp [hi], hf⟩
      | none =>
        simp only [hl] at h
        by_cases hu : fold n = u
        · exact ⟨(n, w), by simp, hu⟩
        · simp [hu] at h

/-! ### one constructor call -/

/-- after a covered history: the good dictionary, what every spelling reads, and the stored cell itself -/
theorem run_read {c : Cls} (hwf : WF c) (d0 : Dict) (hg : Good c d0) (h : List Op) :
    Good c (run c d0 h) ∧ ∀ a ∈ c.names,
      dget (run c d0 h) a = lastValue c (fold a) (dget d0 a) h ∧
      (a ∉ c.refs → ∀ sp, fold sp = fold a →
        getattr c (run c d0 h) sp = cellRead (lastValue c (fold a) (dget d0 a) h)) := by
  obtain ⟨hg', hs'⟩ := run_sim hwf h d0 (absOf c d0) hg (sim_absOf hwf d0)
  refine ⟨hg', ?_⟩
  intro a ha
  have hcell : dget (run c d0 h) a = lastValue c (fold a) (dget d0 a) h := by
    rw [hs' a ha, absRun_eq_lastValue, ← sim_absOf hwf d0 a ha]
  refine ⟨hcell, ?_⟩
  intro hr sp hf
  rw [getattr_plain hwf hg' ha hr hf, hcell]

/-- defaults, then positional values, then the resolved keywords: the items of one call -/
def callItems (stream : Nat → Int) (call : Call) (pos : Nat) : List (Name × Val) :=
  newItems call.cls (computeDefaults (typedDefault stream) call.cls call.cls.attrs pos).1 call.args call.kwargs

/-- every item name of a call is a declared name in its declared spelling, or no spelling of a declared name -/
theorem items_ok (stream : Nat → Int) (call : Call) (pos : Nat) :
    ∀ it ∈ callItems stream call pos, Resolved call.cls it.1 := by
  intro it hi
  simp only [callItems, newItems, List.mem_append, List.mem_map] at hi
  rcases hi with (hi | hi) | ⟨kw, _, rfl⟩
  · obtain ⟨n, v⟩ := it
    obtain ⟨_, ty, _, _, hm, _⟩ := computeDefaults_mem _ _ _ _ n v hi
    exact Or.inl (List.mem_map.mpr ⟨(n, ty), hm, rfl⟩)
  · exact Or.inl (List.of_mem_zip hi).1
  · exact resolved_resolveKw call.cls kw

theorem defs_nodup {c : Cls} (hwf : WF c) (dflt : DfltFn) (pos : Nat)
    (hok : (computeDefaults dflt c c.attrs pos).2.2 = true) :
    ((computeDefaults dflt c c.attrs pos).1.map fun it => fold it.1).Nodup := by
  have h1 := computeDefaults_names dflt c c.attrs pos hok
  have h2 : ((computeDefaults dflt c c.attrs pos).1.map fun it => fold it.1) =
      ((computeDefaults dflt c c.attrs pos).1.map (·.1)).map fold := by simp [List.map_map, Function.comp_def]
  rw [h2, h1]
  have hs : ((c.attrs.filter fun at' => !(decide (at'.1 ∈ c.refs))).map (·.1)).Sublist c.names :=
    List.Sublist.map _ List.filter_sublist
  exact (List.Sublist.map fold hs).nodup hwf.1

/-- what one constructor call leaves behind (all types known; any keyword names) -/
theorem newOne_spec (stream : Nat → Int) (call : Call) (pos : Nat) (hwf : WF call.cls)
    (hok : (computeDefaults (typedDefault stream) call.cls call.cls.attrs pos).2.2 = true) :
    (newOne stream call pos).1.ok = true ∧
    (newOne stream call pos).1.defs = (computeDefaults (typedDefault stream) call.cls call.cls.attrs pos).1 ∧
    Good call.cls (newOne stream call pos).1.dict ∧
    ∀ a ∈ call.cls.names,
      (a ∉ call.cls.refs → dget (newOne stream call pos).1.dict a =
        (lastGiven (fold a) call.kwargs).or ((lastGiven (fold a) (call.cls.names.zip call.args)).or
          (lastGiven (fold a) (newOne stream call pos).1.defs))) ∧
      (a ∉ call.cls.refs → ∀ sp, fold sp = fold a → getattr call.cls (newOne stream call pos).1.dict sp =
        cellRead ((lastGiven (fold a) call.kwargs).or ((lastGiven (fold a) (call.cls.names.zip call.args)).or
          (lastGiven (fold a) (newOne stream call pos).1.defs)))) := by
  have hitems := items_ok stream call pos
  obtain ⟨rd, hass⟩ := assignAll_resolved hwf _ ⟨[], []⟩ hitems
  have hnr : ∀ it ∈ (callItems stream call pos).filter (fun it => !(decide (it.1 ∈ call.cls.refs))),
      isRefSp call.cls it.1 = false := by
    intro it hi
    simp only [List.mem_filter, Bool.not_eq_true', decide_eq_false_iff_not] at hi
    exact resolved_not_refSp hwf (hitems it hi.1) hi.2
  obtain ⟨hg, hall⟩ := run_read hwf [] (good_nil call.cls) (writesOf call.cls (callItems stream call pos))
  have hnew : (newOne stream call pos).1 =
      { dict := run call.cls [] (writesOf call.cls (callItems stream call pos))
        defs := (computeDefaults (typedDefault stream) call.cls call.cls.attrs pos).1, ok := true } := by
    unfold newOne
    simp only [hok, ↓reduceIte]
    have := hass
    unfold callItems at this
    simp only [this, decide_true]
    rfl
  rw [hnew]
  refine ⟨rfl, rfl, hg, ?_⟩
  intro a ha
  have hval : ∀ (_ : a ∉ call.cls.refs), lastValue call.cls (fold a) (dget [] a)
      (writesOf call.cls (callItems stream call pos)) =
      (lastGiven (fold a) call.kwargs).or ((lastGiven (fold a) (call.cls.names.zip call.args)).or
          (lastGiven (fold a) (computeDefaults (typedDefault stream) call.cls call.cls.attrs pos).1)) := by
    intro hr
    unfold writesOf
    rw [lastValue_writes _ _ _ _ hnr, lastGiven_filter_refs hwf ha hr]
    unfold callItems newItems
    rw [lastGiven_append, lastGiven_append, lastGiven_map_resolve]
    simp [dget]
  obtain ⟨h1, h2⟩ := hall a ha
  refine ⟨fun hr => ?_, fun hr sp hf => ?_⟩
  · rw [h1, hval hr]
  · rw [h2 hr sp hf, hval hr]

/-! ### fresh ids -/

theorem typedDefault_pos (stream : Nat → Int) (ty : Name) (pos : Nat) (v : Val) (p0 : Nat)
    (h : typedDefault stream ty pos = some (v, p0)) :
    (isIdType ty = true → v = .int (stream pos) ∧ p0 = pos + 1) ∧ (isIdType ty = false → p0 = pos) := by
  unfold typedDefault at h
  unfold isIdType
  cases ht : tableGet table (fold ty) with
  | none => simp [ht] at h
  | some d =>
    cases d <;> simp only [ht, Option.some.injEq, Prod.mk.injEq] at h <;> obtain ⟨rfl, rfl⟩ := h <;> simp

theorem lastGiven_cons_ne (u n : Name) (v : Val) (l : List (Name × Val)) (h : fold n ≠ u) :
    lastGiven u ((n, v) :: l) = lastGiven u l := by
  simp only [lastGiven, h, ↓reduceIte]
  cases lastGiven u l <;> rfl

theorem aux_mem (c : Cls) (kw : List (Name × Val)) : ∀ (attrs : List (Name × Name)) (npos : Nat) (a : Name),
    a ∈ defaultedIdAttrsAux c kw attrs npos → a ∈ attrs.map (·.1)
  | [], _, _, h => by simp [defaultedIdAttrsAux] at h
  | (b, ty) :: r, npos, a, h => by
    simp only [defaultedIdAttrsAux, List.mem_append] at h
    rcases h with h | h
    · split at h
      · simp only [List.mem_singleton] at h; simp [h]
      · simp at h
    · simp [aux_mem c kw r (npos - 1) a h]

theorem computeDefaults_pos_le (stream : Nat → Int) (c : Cls) : ∀ (attrs : List (Name × Name)) (pos : Nat),
    pos ≤ (computeDefaults (typedDefault stream) c attrs pos).2.1
  | [], pos => by simp [computeDefaults]
  | (b, ty) :: r, pos => by
    unfold computeDefaults
    by_cases hb : b ∈ c.refs
    · simp only [hb, ↓reduceIte]; exact computeDefaults_pos_le stream c r pos
    · simp only [hb, ↓reduceIte]
      cases hd : typedDefault stream ty pos with
      | none => simp
      | some vp =>
        obtain ⟨v0, p0⟩ := vp
        have hp := typedDefault_pos stream ty pos v0 p0 hd
        have ih := computeDefaults_pos_le stream c r p0
        have hle : pos ≤ p0 := by
          cases hi : isIdType ty with
          | true => have := (hp.1 hi).2; omega
          | false => have := hp.2 hi; omega
        exact Nat.le_trans hle ih

/-- the defaulted ids of one call are, in order, a sub-sequence of the generator values drawn by that call -/
theorem draws_sublist (stream : Nat → Int) (c : Cls) (kw : List (Name × Val)) :
    ∀ (attrs : List (Name × Name)) (pos npos : Nat), ((attrs.map (·.1)).map fold).Nodup →
    (computeDefaults (typedDefault stream) c attrs pos).2.2 = true →
    ((defaultedIdAttrsAux c kw attrs npos).map fun a =>
        lastGiven (fold a) (computeDefaults (typedDefault stream) c attrs pos).1).Sublist
      ((List.range' pos ((computeDefaults (typedDefault stream) c attrs pos).2.1 - pos)).map
        fun p => some (Val.int (stream p)))
  | [], pos, npos, _, _ => by simp [defaultedIdAttrsAux]
  | (b, ty) :: r, pos, npos, hnd, hok => by
    have hnd' : ((r.map (·.1)).map fold).Nodup := by
      simp only [List.map_cons, List.nodup_cons] at hnd; exact hnd.2
    have hbr : ∀ a ∈ r.map (·.1), fold b ≠ fold a := by
      intro a ha hf
      simp only [List.map_cons, List.nodup_cons] at hnd
      exact hnd.1 (hf ▸ List.mem_map.mpr ⟨a, ha, rfl⟩)
    unfold computeDefaults at hok ⊢
    by_cases hb : b ∈ c.refs
    · simp only [hb, ↓reduceIte] at hok ⊢
      simp only [defaultedIdAttrsAux, hb, decide_true, Bool.not_true, Bool.false_and, Bool.false_eq_true,
        ↓reduceIte, List.nil_append]
      exact draws_sublist stream c kw r pos (npos - 1) hnd' hok
    · simp only [hb, ↓reduceIte] at hok ⊢
      cases hd : typedDefault stream ty pos with
      | none => simp [hd] at hok
      | some vp =>
        obtain ⟨v0, p0⟩ := vp
        simp only [hd] at hok ⊢
        have ih := draws_sublist stream c kw r p0 (npos - 1) hnd' hok
        have hle := computeDefaults_pos_le stream c r p0
        have hp := typedDefault_pos stream ty pos v0 p0 hd
        -- the tail elements do not see the head entry
        have htail : ((defaultedIdAttrsAux c kw r (npos - 1)).map fun a =>
              lastGiven (fold a) ((b, v0) :: (computeDefaults (typedDefault stream) c r p0).1)) =
            ((defaultedIdAttrsAux c kw r (npos - 1)).map fun a =>
              lastGiven (fold a) (computeDefaults (typedDefault stream) c r p0).1) := by
          apply List.map_congr_left
          intro a ha
          exact lastGiven_cons_ne _ _ _ _ (hbr a (aux_mem c kw r _ a ha))
        -- the head entry is found under its own name
        have hhead : lastGiven (fold b) ((b, v0) :: (computeDefaults (typedDefault stream) c r p0).1) = some v0 := by
          apply lastGiven_of_mem _ b v0 _ (by simp)
          have h1 := computeDefaults_names (typedDefault stream) c r p0 hok
          have h2 : ((computeDefaults (typedDefault stream) c r p0).1.map fun it => fold it.1) =
              ((computeDefaults (typedDefault stream) c r p0).1.map (·.1)).map fold := by
            simp [List.map_map, Function.comp_def]
          have hs : ((r.filter fun at' => !(decide (at'.1 ∈ c.refs))).map (·.1)).Sublist (r.map (·.1)) :=
            List.Sublist.map _ List.filter_sublist
          simp only [List.map_cons, List.nodup_cons]
          refine ⟨?_, ?_⟩
          · rw [h2, h1]
            intro hm
            obtain ⟨a, ha, hf⟩ := List.mem_map.mp hm
            exact hbr a (hs.subset ha) hf.symm
          · rw [h2, h1]
            exact (List.Sublist.map fold hs).nodup hnd'
        simp only [defaultedIdAttrsAux, List.map_append, htail]
        cases hi : isIdType ty with
        | false =>
          have hp0 : p0 = pos := hp.2 hi
          subst hp0
          simp only [Bool.and_false, Bool.false_and, Bool.false_eq_true, ↓reduceIte, List.map_nil, List.nil_append]
          exact ih
        | true =>
          obtain ⟨hv, hp0⟩ := hp.1 hi
          subst hp0
          subst hv
          have hlen : (computeDefaults (typedDefault stream) c r (pos + 1)).2.1 - pos =
              ((computeDefaults (typedDefault stream) c r (pos + 1)).2.1 - (pos + 1)) + 1 := by omega
          rw [hlen, List.range'_succ, List.map_cons]
          split
          · simp only [List.map_cons, List.map_nil, hhead, List.singleton_append]
            exact List.Sublist.cons_cons _ ih
          · simp only [List.map_nil, List.nil_append]
            exact List.Sublist.cons _ ih

/-- beyond the positional arguments: `zip(attributes, args)` has no entry for a defaulted attribute -/
theorem zip_none_of_defaulted (c : Cls) (kw : List (Name × Val)) :
    ∀ (attrs : List (Name × Name)) (args : List Val) (a : Name), ((attrs.map (·.1)).map fold).Nodup →
    a ∈ defaultedIdAttrsAux c kw attrs args.length → lastGiven (fold a) ((attrs.map (·.1)).zip args) = none
  | [], _, _, _, _ => by simp [lastGiven]
  | (b, ty) :: r, [], a, _, _ => by simp [lastGiven]
  | (b, ty) :: r, x :: args, a, hnd, h => by
    simp only [defaultedIdAttrsAux, List.length_cons, Nat.add_eq_zero_iff, Nat.succ_ne_self, and_false, decide_false,
      Bool.and_false, Bool.false_and, Bool.false_eq_true, ↓reduceIte, List.nil_append, Nat.add_sub_cancel] at h
    have hnd' : ((r.map (·.1)).map fold).Nodup := by
      simp only [List.map_cons, List.nodup_cons] at hnd; exact hnd.2
    have hne : fold b ≠ fold a := by
      intro hf
      simp only [List.map_cons, List.nodup_cons] at hnd
      exact hnd.1 (hf ▸ List.mem_map.mpr ⟨a, aux_mem c kw r _ a h, rfl⟩)
    simp only [List.map_cons, List.zip_cons_cons]
    rw [lastGiven_cons_ne _ _ _ _ hne]
    exact zip_none_of_defaulted c kw r args a hnd' h

theorem aux_props (c : Cls) (kw : List (Name × Val)) : ∀ (attrs : List (Name × Name)) (npos : Nat) (a : Name),
    a ∈ defaultedIdAttrsAux c kw attrs npos → a ∉ c.refs ∧ lastGiven (fold a) kw = none
  | [], _, _, h => by simp [defaultedIdAttrsAux] at h
  | (b, ty) :: r, npos, a, h => by
    simp only [defaultedIdAttrsAux, List.mem_append] at h
    rcases h with h | h
    · split at h
      · rename_i hc
        simp only [List.mem_singleton] at h
        subst h
        simp only [Bool.and_eq_true, Bool.not_eq_true', decide_eq_false_iff_not, decide_eq_true_eq,
          Option.isNone_iff_eq_none] at hc
        exact ⟨hc.1.1.1, hc.2⟩
      · simp at h
    · exact aux_props c kw r (npos - 1) a h

/-- one call: the ids left to their default are a sub-sequence of the values the call drew -/
theorem newOne_ids (stream : Nat → Int) (call : Call) (pos : Nat) (hwf : WF call.cls) :
    pos ≤ (newOne stream call pos).2 ∧
    (defaultedIds call (newOne stream call pos).1).Sublist
      ((List.range' pos ((newOne stream call pos).2 - pos)).map fun p => some (Val.int (stream p))) := by
  have hpos : (newOne stream call pos).2 = (computeDefaults (typedDefault stream) call.cls call.cls.attrs pos).2.1 := by
    unfold newOne
    dsimp only
    split <;> rfl
  refine ⟨hpos ▸ computeDefaults_pos_le stream call.cls call.cls.attrs pos, ?_⟩
  cases hok : (computeDefaults (typedDefault stream) call.cls call.cls.attrs pos).2.2 with
  | false =>
    have : (newOne stream call pos).1.ok = false := by
      unfold newOne; simp [hok]
    simp [defaultedIds, this]
  | true =>
    obtain ⟨hmok, hdefs, _, hall⟩ := newOne_spec stream call pos hwf hok
    have hnd : ((call.cls.attrs.map (·.1)).map fold).Nodup := hwf.1
    unfold defaultedIds
    rw [if_pos hmok, hpos]
    have hcongr : (defaultedIdAttrs call).map (dget (newOne stream call pos).1.dict) =
        (defaultedIdAttrs call).map fun a =>
          lastGiven (fold a) (computeDefaults (typedDefault stream) call.cls call.cls.attrs pos).1 := by
      apply List.map_congr_left
      intro a ha
      unfold defaultedIdAttrs at ha
      have hmem : a ∈ call.cls.names := aux_mem _ _ _ _ a ha
      obtain ⟨hr, hk⟩ := aux_props _ _ _ _ a ha
      have hz := zip_none_of_defaulted _ _ _ _ a hnd ha
      rw [(hall a hmem).1 hr, hk, hdefs]
      unfold Cls.names
      rw [hz]
      simp
    rw [hcongr]
    exact draws_sublist stream call.cls call.kwargs call.cls.attrs pos call.args.length hnd hok

/-- any sequence of calls: all defaulted ids, in creation order, are a sub-sequence of the consecutive
    generator values `stream pos, stream (pos+1), …` -/
theorem newMany_ids (stream : Nat → Int) : ∀ (calls : List Call) (pos : Nat),
    (∀ call ∈ calls, WF call.cls) →
    pos ≤ (newMany stream calls pos).2 ∧
    (allDefaultedIds calls (newMany stream calls pos).1).Sublist
      ((List.range' pos ((newMany stream calls pos).2 - pos)).map fun p => some (Val.int (stream p)))
  | [], pos, _ => by simp [newMany, allDefaultedIds]
  | call :: r, pos, h => by
    have hwf := h call (by simp)
    obtain ⟨h1, s1⟩ := newOne_ids stream call pos hwf
    obtain ⟨h2, s2⟩ := newMany_ids stream r (newOne stream call pos).2 (fun c hc => h c (by simp [hc]))
    simp only [newMany, allDefaultedIds]
    refine ⟨Nat.le_trans h1 h2, ?_⟩
    have hsplit : (newMany stream r (newOne stream call pos).2).2 - pos =
        ((newOne stream call pos).2 - pos) + ((newMany stream r (newOne stream call pos).2).2 - (newOne stream call pos).2) := by
      omega
    have hstart : pos + ((newOne stream call pos).2 - pos) = (newOne stream call pos).2 := by omega
    rw [hsplit, ← List.range'_append_1, List.map_append, hstart]
    exact List.Sublist.append s1 s2

theorem nodup_map_inj {α β : Type} (f : α → β) (hf : ∀ a b, f a = f b → a = b) :
    ∀ (l : List α), l.Nodup → (l.map f).Nodup
  | [], _ => by simp
  | a :: l, h => by
    simp only [List.nodup_cons] at h
    simp only [List.map_cons, List.nodup_cons, List.mem_map, not_exists, not_and]
    exact ⟨fun x hx hfx => h.1 (hf x a hfx ▸ hx), nodup_map_inj f hf l h.2⟩

/-- an attribute whose type `default_value` rejects makes the constructor fail -/
theorem computeDefaults_fail (dflt : DfltFn) (c : Cls) : ∀ (attrs : List (Name × Name)) (pos : Nat) (a ty : Name),
    (a, ty) ∈ attrs → a ∉ c.refs → (∀ p, dflt ty p = none) → (computeDefaults dflt c attrs pos).2.2 = false
  | [], _, _, _, h, _, _ => by simp at h
  | (b, tb) :: r, pos, a, ty, h, hr, hd => by
    unfold computeDefaults
    simp only [List.mem_cons, Prod.mk.injEq] at h
    by_cases hb : b ∈ c.refs
    · simp only [hb, ↓reduceIte]
      rcases h with ⟨rfl, _⟩ | h
      · exact absurd hb hr
      · exact computeDefaults_fail dflt c r pos a ty h hr hd
    · simp only [hb, ↓reduceIte]
      cases hdb : dflt tb pos with
      | none => rfl
      | some vp =>
        obtain ⟨v0, p0⟩ := vp
        rcases h with ⟨rfl, rfl⟩ | h
        · rw [hd pos] at hdb; cases hdb
        · exact computeDefaults_fail dflt c r p0 a ty h hr hd

/-! ### the function the driver runs is the function the theorems are about -/

/-- `newOne` IS the creation part `Attr.newDict` of the world-level `MetaModel.new` (`Attr.newInstWith`) -/
theorem newOne_eq_newDict (stream : Nat → Int) (call : Call) (pos : Nat) :
    newOne stream call pos =
      ({ dict := (newDict (typedDefault stream) call.cls call.args call.kwargs pos).1.dict,
         defs := (newDict (typedDefault stream) call.cls call.args call.kwargs pos).2.1,
         ok := (newDict (typedDefault stream) call.cls call.args call.kwargs pos).2.2.2 },
       (newDict (typedDefault stream) call.cls call.args call.kwargs pos).2.2.1) := by
  unfold newOne newDict
  rcases hcd : computeDefaults (typedDefault stream) call.cls call.cls.attrs pos with ⟨defs, nid, dok⟩
  cases dok <;> simp

theorem relate_frame (w : World) (i j : Nat) :
    (Attr.relate w i j).1.insts = w.insts ∧ (Attr.relate w i j).1.nextId = w.nextId := by
  unfold Attr.relate
  simp only []
  repeat' split
  all_goals exact ⟨rfl, rfl⟩

theorem relateMatches_frame (b : Nat) (tgtKey : Name) (v : Val) : ∀ (l : List Nat) (w : World),
    (relateMatches w b tgtKey v l).1.insts = w.insts ∧ (relateMatches w b tgtKey v l).1.nextId = w.nextId
  | [], _ => ⟨rfl, rfl⟩
  | a :: r, w => by
    unfold relateMatches
    cases readVal w a tgtKey with
    | error e => exact ⟨rfl, rfl⟩
    | ok x =>
      simp only
      by_cases hx : x = v
      · simp only [hx, ↓reduceIte]
        have hf := relate_frame w a b
        cases hr : Attr.relate w a b with
        | mk w' e =>
          rw [hr] at hf
          cases e with
          | none =>
            have ih := relateMatches_frame b tgtKey v r w'
            exact ⟨ih.1.trans hf.1, ih.2.trans hf.2⟩
          | some e' => exact hf
      · simp only [hx, ↓reduceIte]
        exact relateMatches_frame b tgtKey v r w

/-- what the driver's `new` leaves behind, in terms of `newOne`: the instance appended to the storage holds
    `newOne`'s dictionary, the generator is at `newOne`'s position, and a failed `newOne` is a MetaException -/
theorem newInst_is_newOne (stream : Nat → Int) (w : World) (kind : Name) (args : List Val) (kwargs : List (Name × Val))
    (c : Cls) (hc : findMetaclass w.classes kind = some c) :
    (newInst stream w kind args kwargs).1.insts =
      w.insts ++ [{ cls := fold kind, dict := (newOne stream ⟨c, args, kwargs⟩ w.nextId).1.dict }] ∧
    (newInst stream w kind args kwargs).1.nextId = (newOne stream ⟨c, args, kwargs⟩ w.nextId).2 ∧
    ((newOne stream ⟨c, args, kwargs⟩ w.nextId).1.ok = false → (newInst stream w kind args kwargs).2 = some .metaE) := by
  rw [newOne_eq_newDict]
  unfold newInst newInstWith
  simp only [hc]
  cases hok : (newDict (typedDefault stream) c args kwargs w.nextId).2.2.2 with
  | false => simp
  | true =>
    simp only [Bool.not_true, Bool.false_eq_true, ↓reduceIte]
    repeat' split
    all_goals first
      | exact ⟨rfl, rfl, by simp⟩
      | exact ⟨(relateMatches_frame _ _ _ _ _).1, (relateMatches_frame _ _ _ _ _).2, by simp⟩

/-! ### histories with the user's own next() / peek() -/

theorem runHist_ids (stream : Nat → Int) : ∀ (h : List HOp) (pos : Nat),
    (∀ c, HOp.create c ∈ h → WF c.cls) →
    pos ≤ (runHist stream h pos).2 ∧
    (histDefaultedIds (runHist stream h pos).1).Sublist
      ((List.range' pos ((runHist stream h pos).2 - pos)).map fun p => some (Val.int (stream p)))
  | [], pos, _ => by simp [runHist, histDefaultedIds]
  | .create c :: r, pos, hwf => by
    obtain ⟨h1, s1⟩ := newOne_ids stream c pos (hwf c (by simp))
    obtain ⟨h2, s2⟩ := runHist_ids stream r (newOne stream c pos).2 (fun c' hc' => hwf c' (by simp [hc']))
    simp only [runHist, histDefaultedIds, List.flatMap_cons]
    refine ⟨Nat.le_trans h1 h2, ?_⟩
    have hsplit : (runHist stream r (newOne stream c pos).2).2 - pos =
        ((newOne stream c pos).2 - pos) + ((runHist stream r (newOne stream c pos).2).2 - (newOne stream c pos).2) := by
      omega
    have hstart : pos + ((newOne stream c pos).2 - pos) = (newOne stream c pos).2 := by omega
    rw [hsplit, ← List.range'_append_1, List.map_append, hstart]
    exact List.Sublist.append s1 s2
  | .next :: r, pos, hwf => by
    obtain ⟨h2, s2⟩ := runHist_ids stream r (pos + 1) (fun c' hc' => hwf c' (by simp [hc']))
    simp only [runHist]
    refine ⟨by omega, ?_⟩
    have hlen : (runHist stream r (pos + 1)).2 - pos = ((runHist stream r (pos + 1)).2 - (pos + 1)) + 1 := by omega
    rw [hlen, List.range'_succ, List.map_cons]
    exact List.Sublist.cons _ s2
  | .peek :: r, pos, hwf => by
    simp only [runHist]
    exact runHist_ids stream r pos (fun c' hc' => hwf c' (by simp [hc']))

end Pyx.NewInst
