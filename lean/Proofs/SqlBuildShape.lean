import PyxModel.Sql.Build
import Gen.BuildShape

/-! the model's `build` is the generic interpretation of the phase order `ModelLoader.populate` states in the source -/
namespace Pyx.Sql
open Gen.BuildShape (Phase)

/-- the model of each `populate_<phase>` method (`populate_connections` changes neither classes, identifiers,
    associations nor rows; the links it creates are `linksOf`, PyxModel/Sql/Links.lean; the one place where it can raise
    is `connRaises`) -/
def phaseFn (u : UC) (stmts : List Stmt) : Phase → BState → Except BuildErr BState
  | .classes => popClasses u stmts
  | .unique_identifiers => popIdents u stmts
  | .associations => popAssocs u stmts
  | .instances => popInstances u stmts
  | .connections => popConnections u

/-- run phases in a given order; the first exception ends the build -/
def runPhases (u : UC) (stmts : List Stmt) : List Phase → BState → Except BuildErr BState
  | [], s => .ok s
  | p :: ps, s =>
    match phaseFn u stmts p s with
    | .ok s' => runPhases u stmts ps s'
    | .error e => .error e

theorem build_eq_runPhases (u : UC) (stmts : List Stmt) :
    build u stmts = runPhases u stmts Gen.BuildShape.populateOrder BState.empty := by
  unfold build buildPhases buildCore
  simp only [Gen.BuildShape.populateOrder, runPhases, phaseFn]
  cases popClasses u stmts BState.empty with
  | error e => rfl
  | ok s1 =>
    simp only
    cases popIdents u stmts s1 with
    | error e => rfl
    | ok s2 =>
      simp only
      cases popAssocs u stmts s2 with
      | error e => rfl
      | ok s3 =>
        simp only
        cases popInstances u stmts s3 with
        | error e => rfl
        | ok s4 =>
          simp only
          cases popConnections u s4 <;> rfl

end Pyx.Sql
