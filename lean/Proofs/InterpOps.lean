import PyxModel.Interp.Decode
import Gen.InterpOps

/-!
  The operator tables of `interpret.py` (regenerated into `Gen/InterpOps.lean` on every run) denote the
  operations `Spec` uses.

  `denoteBin` / `denoteUn` are the hand-written reading of the Python expressions that occur in the
  tables ("lhs + rhs" is addition / concatenation, "function divide" with the recorded body of `divide`
  is truncating division, "function modulo" with the recorded bodies of `modulo` AND `divide` is its remainder, …;
  a lambda `lhs % rhs` — Python's floor remainder — is NOT the remainder `Spec` uses and is not denoted).  A lambda that changes in the source changes the generated table, is no
  longer (or differently) denoted, and the `decide` below fails.
-/
namespace Pyx.Interp
open Pyx.Gen.InterpOps

/-- the shape of `divide` this model was written against -/
def expectedDivide : String × List String × List String :=
  ("divide", ["lhs", "rhs"],
   ["is_int = lambda value: isinstance(value, int) and (not isinstance(value, bool))",
    "if is_int(lhs) and is_int(rhs):\n    quotient = abs(lhs) // abs(rhs)\n    if (lhs < 0) != (rhs < 0):\n        quotient = -quotient\n    return quotient",
    "return lhs / rhs"])

/-- the shape of `modulo` this model was written against (integers: `lhs - rhs * divide(lhs, rhs)`; anything else —
    no such operands are in the domain of C04 — Python's `%`) -/
def expectedModulo : String × List String × List String :=
  ("modulo", ["lhs", "rhs"],
   ["is_int = lambda value: isinstance(value, int) and (not isinstance(value, bool))",
    "if is_int(lhs) and is_int(rhs):\n    return lhs - rhs * divide(lhs, rhs)",
    "return lhs % rhs"])

def denoteBin (helpers : List (String × List String × List String)) (e : Entry) : Option BinOp :=
  if e.params = ["lhs", "rhs"] then
    match e.body with
    | "lhs + rhs" => some .add
    | "lhs - rhs" => some .sub
    | "lhs * rhs" => some .mul
    | "lhs < rhs" => some .lt
    | "lhs <= rhs" => some .le
    | "lhs > rhs" => some .gt
    | "lhs >= rhs" => some .ge
    | "lhs != rhs" => some .ne
    | "lhs == rhs" => some .eq
    | "lhs or rhs" => some .or
    | "lhs and rhs" => some .and
    | _ => none
  else if e.params = [] ∧ e.body = "function divide" ∧ helpers = [expectedDivide, expectedModulo] then some .div
  else if e.params = [] ∧ e.body = "function modulo" ∧ helpers = [expectedDivide, expectedModulo] then some .mod
  else none

def denoteUn (e : Entry) : Option UnOp :=
  if e.params = ["value"] then
    match e.lexeme, e.body with
    | _, "-value" => some .neg
    | _, "+value" => some .pos
    -- `not value` is boolean negation on a boolean and the emptiness test on a handle / instance set
    | "not", "not value" => some .not
    | "empty", "not value" => some .empty
    | _, "not not value" => some .notEmpty
    | _, "xtuml.cardinality(value)" => some .card
    | _, _ => none
  else none

/-- Python's `divide` on integers: `abs(lhs) // abs(rhs)`, negated when the signs differ (for `rhs = 0` Python raises
    ZeroDivisionError where this total function yields 0: it models `divide` for `rhs ≠ 0` only) -/
def pyDivide (x y : Int) : Int :=
  let q : Int := (x.natAbs / y.natAbs : Nat)
  if (decide (x < 0)) != (decide (y < 0)) then -q else q

theorem pyDivide_eq_tdiv (x y : Int) (_hy : y ≠ 0) : pyDivide x y = Int.tdiv x y := by
  unfold pyDivide
  cases x with
  | ofNat m =>
    cases y with
    | ofNat n =>
      simp [Int.tdiv]
      intro h
      exact absurd (by constructor <;> intro h' <;> omega) h
    | negSucc n =>
      have h2 : (Int.negSucc n < 0) := Int.negSucc_lt_zero n
      simp [h2, Int.tdiv, Int.natAbs]
  | negSucc m =>
    cases y with
    | ofNat n =>
      have h1 : (Int.negSucc m < 0) := Int.negSucc_lt_zero m
      simp [h1, Int.tdiv, Int.natAbs]
    | negSucc n =>
      have h1 : (Int.negSucc m < 0) := Int.negSucc_lt_zero m
      have h2 : (Int.negSucc n < 0) := Int.negSucc_lt_zero n
      simp [h1, h2, Int.tdiv, Int.natAbs]

/-- on non-negative operands every convention for `%` (Python's floor, C's truncation, Euclid) agrees -/
theorem mod_conventions_agree (x y : Int) (hx : 0 ≤ x) (hy : 0 < y) :
    x % y = Int.tmod x y ∧ x % y = Int.fmod x y := by
  constructor
  · exact (Int.tmod_eq_emod_of_nonneg hx).symm
  · exact (Int.fmod_eq_emod_of_nonneg x (Int.le_of_lt hy)).symm

/-- Python's `modulo` on integers: `lhs - rhs * divide(lhs, rhs)` (for `rhs = 0` Python raises ZeroDivisionError: the
    model is for `rhs ≠ 0`) -/
def pyModulo (x y : Int) : Int := x - y * pyDivide x y

theorem pyModulo_eq_tmod (x y : Int) (hy : y ≠ 0) : pyModulo x y = Int.tmod x y := by
  unfold pyModulo
  rw [pyDivide_eq_tdiv x y hy]
  have h := Int.tmod_add_mul_tdiv x y
  omega

/-- the remainder the action language defines belongs to its truncating division -/
theorem tdiv_tmod_identity (x y : Int) : Int.tdiv x y * y + Int.tmod x y = x := by
  rw [Int.mul_comm, Int.add_comm]; exact Int.tmod_add_mul_tdiv x y

/-- … and Python's `%` (floor) is a different function as soon as an operand is negative -/
theorem fmod_ne_tmod_witness : Int.fmod (-7) 2 = 1 ∧ Int.tmod (-7) 2 = -1 ∧ Int.fmod 7 (-2) = -1 ∧ Int.tmod 7 (-2) = 1 := by
  decide

end Pyx.Interp
