import Proofs.ExtractShapeTie

/-!
  C14 — `mk_association` of the generated IR (Gen/ExtractShape.lean) equals `mkAssociation` (PyxModel/Extract/Rows.lean) for
  ALL diagrams and ALL rows of a relationship, every ending included (Proofs/ExtractShapeTie.lean has the interpreter and the
  population `relWorld` a relationship's rows denote).
-/

namespace Pyx.XShape
open Pyx.Extract Pyx.Gen.ExtractShape

/-! ### `_get_related_attributes` as a whole -/

/-- the loop body of `_get_related_attributes` (named, so that symbolic evaluation does not enter it) -/
def relBody : List Stmt :=
  [ .assign "o_attr" (.nav { card := .one, start := "o_ref", hops := [{ cls := "O_RATTR", rel := 108, phrase := "" }, { cls := "O_ATTR", rel := 106, phrase := "" }], filter := .all }),
    .append "l1" (.attr "o_attr" "Name"),
    .assign "o_attr" (.nav { card := .one, start := "o_ref", hops := [{ cls := "O_RTIDA", rel := 111, phrase := "" }, { cls := "O_OIDA", rel := 110, phrase := "" }, { cls := "O_ATTR", rel := 105, phrase := "" }], filter := .all }),
    .append "l2" (.attr "o_attr" "Name") ]

def relNav : Nav :=
  { card := .many, start := "r_rto", hops := [{ cls := "O_RTIDA", rel := 110, phrase := "" }, { cls := "O_REF", rel := 111, phrase := "" }], filter := (.attrEqAttr "OIR_ID" "r_rgo" "OIR_ID") }

/-- the generated `_get_related_attributes` IS this (breaks when the source changes) -/
theorem get_related_attributes_eq : get_related_attributes =
    { params := ["r_rgo", "r_rto"], nested := false,
      body := [.assign "l1" .emptyList, .assign "l2" .emptyList, .forNav "o_ref" relNav relBody, .ret (.pair "l1" "l2")] } := rfl

/-- the O_REF rows of the pair (g, t) all lead to attributes -/
def resolvedAt (d : ClassDiagram) (w : RelRows) (g t : EndId) (refs : List Ref) : Bool :=
  refs.all (fun r => (attrAt d w g r.rattr).isSome && (attrAt d w t r.iattr).isSome)
def namesAt (d : ClassDiagram) (w : RelRows) (e : EndId) (ids : List Nat) : List String :=
  ids.filterMap (fun i => (attrAt d w e i).map (fun a => a.name))

macro "xs0" "[" ts:Lean.Parser.Tactic.simpLemma,* "]" : tactic =>
  `(tactic| simp [iStmts, iStmt, thenStep, eExpr, eCond, eNav, startSet, evalHops, filterE, passes, Loc.set, bindAll, truthy,
        Loc.empty, Except.map, evalArgs, relHop, relAttr, hp, $ts,*])

theorem relStepT (d : ClassDiagram) (numb : Nat) (w : RelRows) (callF : CallF RI) (fuel : Nat) (g t : EndId) (r : Ref)
    (L : Loc RI) (C : Calls RI) (a b : List String) (h1 : L "l1" = .strs a) (h2 : L "l2" = .strs b) :
    iStmts (relWorld d numb w) callF fuel relBody (L.set "o_ref" (.inst (some (RI.ref g t r)))) C =
      match attrAt d w g r.rattr, attrAt d w t r.iattr with
      | some ra, some ia =>
        .ok (((((L.set "o_ref" (.inst (some (RI.ref g t r)))).set "o_attr" (.inst (some (RI.attr ra)))).set "l1" (.strs (a ++ [ra.name]))).set
          "o_attr" (.inst (some (RI.attr ia)))).set "l2" (.strs (b ++ [ia.name])), C, .next)
      | _, _ => .error .attributeError := by
  cases hra : attrAt d w g r.rattr <;> cases hia : attrAt d w t r.iattr <;> xs0 [relBody, hra, hia, h1, h2]

theorem relLoopT (d : ClassDiagram) (numb : Nat) (w : RelRows) (callF : CallF RI) (fuel : Nat) (g t : EndId) :
    ∀ (refs : List Ref) (L : Loc RI) (C : Calls RI) (a b : List String), L "l1" = .strs a → L "l2" = .strs b →
      (resolvedAt d w g t refs = true →
        ∃ L', forLoop (fun x L' C' => iStmts (relWorld d numb w) callF fuel relBody (L'.set "o_ref" (.inst (some x))) C')
            (refs.map (RI.ref g t)) L C = .ok (L', C, .next) ∧
          L' "l1" = .strs (a ++ namesAt d w g (refs.map (·.rattr))) ∧
          L' "l2" = .strs (b ++ namesAt d w t (refs.map (·.iattr)))) ∧
      (resolvedAt d w g t refs = false →
        forLoop (fun x L' C' => iStmts (relWorld d numb w) callF fuel relBody (L'.set "o_ref" (.inst (some x))) C')
            (refs.map (RI.ref g t)) L C = .error .attributeError) := by
  intro refs
  induction refs with
  | nil =>
    intro L C a b h1 h2
    exact ⟨fun _ => ⟨L, rfl, by simp [namesAt, h1], by simp [namesAt, h2]⟩, fun h => by simp [resolvedAt] at h⟩
  | cons r rest ih =>
    intro L C a b h1 h2
    have hstep := relStepT d numb w callF fuel g t r L C a b h1 h2
    simp only [List.map_cons, forLoop, hstep]
    cases hra : attrAt d w g r.rattr with
    | none => simp [resolvedAt, hra]
    | some ra =>
      cases hia : attrAt d w t r.iattr with
      | none => simp [resolvedAt, hia]
      | some ia =>
        obtain ⟨ihT, ihF⟩ := ih
          (((((L.set "o_ref" (.inst (some (RI.ref g t r)))).set "o_attr" (.inst (some (RI.attr ra)))).set "l1" (.strs (a ++ [ra.name]))).set
            "o_attr" (.inst (some (RI.attr ia)))).set "l2" (.strs (b ++ [ia.name]))) C (a ++ [ra.name]) (b ++ [ia.name])
          (by simp [Loc.set]) (by simp [Loc.set])
        have hres : resolvedAt d w g t (r :: rest) =
            resolvedAt d w g t rest := by simp [resolvedAt, hra, hia]
        rw [hres]
        refine ⟨fun h => ?_, fun h => ihF h⟩
        obtain ⟨L', hL, hl1, hl2⟩ := ihT h
        exact ⟨L', hL, by simp [hl1, namesAt, hra], by simp [hl2, namesAt, hia]⟩

/-! the candidates of the navigation `many(r_rto).O_RTIDA[110].O_REF[111](ref_filter)` -/

theorem oirId_inj {a b : EndId} (h : oirId a = oirId b) : a = b := by
  cases a <;> cases b <;> simp [oirId] at h ⊢ <;> omega

/-- the O_REF rows of the pair (g, t): those hanging on t's R_RTO whose OIR_ID is that of g -/
def refsFor (w : RelRows) (g t : EndId) : List Ref := ((refsOn w t).filter (fun p => oirId p.1 == oirId g)).map (·.2)

theorem hops_rel (d : ClassDiagram) (numb : Nat) (w : RelRows) (t : EndId) :
    evalHops (relWorld d numb w) [RI.rto t] relNav.hops = (refsOn w t).map (fun p => RI.ref p.1 t p.2) := by
  simp only [relNav, evalHops, relWorld_hop, List.flatMap_cons, List.flatMap_nil, List.append_nil]
  have h1 : relHop d w (RI.rto t) { cls := "O_RTIDA", rel := 110, phrase := "" } =
      (refsOn w t).map (fun p => RI.rtida p.1 t p.2) := by simp [relHop, hp]
  rw [h1]
  induction refsOn w t with
  | nil => rfl
  | cons p l ih => simp [relHop, hp] at ih ⊢; exact ih

theorem filterE_refs (d : ClassDiagram) (numb : Nat) (w : RelRows) (g t : EndId) (L : Loc RI) (x : RI)
    (hx : relAttr numb w x "OIR_ID" = .nat (oirId g)) (h1 : L "r_rgo" = .inst (some x)) :
    ∀ l : List (EndId × Ref), filterE (passes (relWorld d numb w) L (.attrEqAttr "OIR_ID" "r_rgo" "OIR_ID"))
        (l.map (fun p => RI.ref p.1 t p.2)) =
      .ok (((l.filter (fun p => oirId p.1 == oirId g)).map (·.2)).map (RI.ref g t)) := by
  intro l
  induction l with
  | nil => rfl
  | cons p l ih =>
    have hp' : passes (relWorld d numb w) L (.attrEqAttr "OIR_ID" "r_rgo" "OIR_ID") (RI.ref p.1 t p.2) =
        .ok (oirId p.1 == oirId g) := by
      have hr : relAttr numb w (RI.ref p.1 t p.2) "OIR_ID" = .nat (oirId p.1) := by simp [relAttr]
      simp only [passes, h1, relWorld_attr, hx, hr]
    simp only [List.map_cons, filterE, hp', ih, List.filter_cons]
    by_cases he : oirId p.1 = oirId g
    · have := oirId_inj he
      simp [he, ← this]
    · simp [he]

theorem eNav_rel (d : ClassDiagram) (numb : Nat) (w : RelRows) (g t : EndId) (L : Loc RI) (x : RI)
    (hx : relAttr numb w x "OIR_ID" = .nat (oirId g)) (h1 : L "r_rgo" = .inst (some x))
    (h2 : L "r_rto" = .inst (some (RI.rto t))) :
    eNav (relWorld d numb w) L relNav = .ok (.insts ((refsFor w g t).map (RI.ref g t))) := by
  have hs : startSet (L relNav.start) = some [RI.rto t] := by simp [relNav, h2, startSet]
  have hf : relNav.filter = .attrEqAttr "OIR_ID" "r_rgo" "OIR_ID" := rfl
  have hc : relNav.card = .many := rfl
  simp only [eNav, hs, hops_rel, hf, filterE_refs d numb w g t L x hx h1, hc, refsFor]

theorem eNav_rel_none_rto (d : ClassDiagram) (numb : Nat) (w : RelRows) (L : Loc RI) (h2 : L "r_rto" = .inst none) :
    eNav (relWorld d numb w) L relNav = .ok (.insts []) := by
  simp [eNav, relNav, h2, startSet, evalHops, filterE]

theorem eNav_rel_none_rgo (d : ClassDiagram) (numb : Nat) (w : RelRows) (t : EndId) (L : Loc RI)
    (h1 : L "r_rgo" = .inst none) (h2 : L "r_rto" = .inst (some (RI.rto t))) :
    eNav (relWorld d numb w) L relNav = if (refsOn w t).isEmpty then .ok (.insts []) else .error .attributeError := by
  have hs : startSet (L relNav.start) = some [RI.rto t] := by simp [relNav, h2, startSet]
  have hf : relNav.filter = .attrEqAttr "OIR_ID" "r_rgo" "OIR_ID" := rfl
  simp only [eNav, hs, hops_rel, hf]
  cases refsOn w t with
  | nil => rfl
  | cons p l => simp [filterE, passes, h1]

/-- what a call makes of the run of the body -/
def retOf {I : Type} : Step I → Except Err (Val I × Calls I)
  | .error e => .error e
  | .ok (_, C', .ret v) => .ok (v, C')
  | .ok (_, C', _) => .ok (.inst none, C')

theorem callAt_def {I : Type} [DecidableEq I] (W : World I) (ds : List (String × Def)) (n : Nat) (f : String) (d : Def)
    (args : List (Val I)) (Lc : Loc I) (C : Calls I) (hf : foreign.contains f = false) (hd : ds.lookup f = some d)
    (hl : d.params.length = args.length) :
    callAt W ds (n + 1) f args Lc C =
      retOf (iStmts W (callAt W ds n) n d.body (bindAll (if d.nested then Lc else Loc.empty) d.params args) C) := by
  simp only [callAt, hf, hd, hl]
  simp only [Bool.false_eq_true, ↓reduceIte, ne_eq, not_true_eq_false]
  unfold retOf
  split <;> simp_all

/-- `_get_related_attributes(r_rgo, r_rto)` for the pair (g, t): the two name lists, or AttributeError when an O_REF row of the
    pair does not lead to an attribute -/
theorem relattrs (d : ClassDiagram) (numb : Nat) (w : RelRows) (n : Nat) (g t : EndId) (x : RI)
    (hx : relAttr numb w x "OIR_ID" = .nat (oirId g)) (Lc : Loc RI) (C : Calls RI) :
    callAt (relWorld d numb w) defs (n + 1) "_get_related_attributes" [.inst (some x), .inst (some (RI.rto t))] Lc C =
      if resolvedAt d w g t (refsFor w g t) then
        .ok (.tup (.strs (namesAt d w g ((refsFor w g t).map (·.rattr)))) (.strs (namesAt d w t ((refsFor w g t).map (·.iattr)))), C)
      else .error .attributeError := by
  rw [callAt_def _ _ _ _ _ _ _ _ rfl lookup_get_related_attributes rfl, get_related_attributes_eq]
  simp only [bindAll, Bool.false_eq_true, ↓reduceIte]
  have hnav := eNav_rel d numb w g t
    ((((Loc.empty.set "r_rgo" (.inst (some x))).set "r_rto" (.inst (some (RI.rto t)))).set "l1" (.strs [])).set "l2" (.strs [])) x hx
    (by simp [Loc.set]) (by simp [Loc.set])
  simp only [iStmts, iStmt, eExpr, thenStep, hnav]
  obtain ⟨hT, hF⟩ := relLoopT d numb w (callAt (relWorld d numb w) defs n) n g t (refsFor w g t)
    ((((Loc.empty.set "r_rgo" (.inst (some x))).set "r_rto" (.inst (some (RI.rto t)))).set "l1" (.strs [])).set "l2" (.strs []))
    C [] [] (by simp [Loc.set]) (by simp [Loc.set])
  cases hr : resolvedAt d w g t (refsFor w g t) with
  | false => rw [hF hr]; rfl
  | true =>
    obtain ⟨L', hL, hl1, hl2⟩ := hT hr
    rw [hL]
    simp [retOf, hl1, hl2]

theorem relattrs_none_rto (d : ClassDiagram) (numb : Nat) (w : RelRows) (n : Nat) (xo : Option RI) (Lc : Loc RI) (C : Calls RI) :
    callAt (relWorld d numb w) defs (n + 1) "_get_related_attributes" [.inst xo, .inst none] Lc C =
      .ok (.tup (.strs []) (.strs []), C) := by
  rw [callAt_def _ _ _ _ _ _ _ _ rfl lookup_get_related_attributes rfl, get_related_attributes_eq]
  simp only [bindAll, Bool.false_eq_true, ↓reduceIte]
  have hnav := eNav_rel_none_rto d numb w
    ((((Loc.empty.set "r_rgo" (.inst xo)).set "r_rto" (.inst none)).set "l1" (.strs [])).set "l2" (.strs []))
    (by simp [Loc.set])
  simp only [iStmts, iStmt, eExpr, thenStep, hnav, forLoop]
  simp [retOf, Loc.set]

theorem relattrs_none_rgo (d : ClassDiagram) (numb : Nat) (w : RelRows) (n : Nat) (t : EndId) (Lc : Loc RI) (C : Calls RI) :
    callAt (relWorld d numb w) defs (n + 1) "_get_related_attributes" [.inst none, .inst (some (RI.rto t))] Lc C =
      if (refsOn w t).isEmpty then .ok (.tup (.strs []) (.strs []), C) else .error .attributeError := by
  rw [callAt_def _ _ _ _ _ _ _ _ rfl lookup_get_related_attributes rfl, get_related_attributes_eq]
  simp only [bindAll, Bool.false_eq_true, ↓reduceIte]
  have hnav := eNav_rel_none_rgo d numb w t
    ((((Loc.empty.set "r_rgo" (.inst none)).set "r_rto" (.inst (some (RI.rto t)))).set "l1" (.strs [])).set "l2" (.strs []))
    (by simp [Loc.set]) (by simp [Loc.set])
  simp only [iStmts, iStmt, eExpr, thenStep, hnav]
  cases refsOn w t with
  | nil => simp [retOf, Loc.set, forLoop]
  | cons p l => simp [retOf]

/-! ### the constructors -/

theorem refsFor_tagged (w : RelRows) (g t : EndId) (refs : List Ref) (h : refsOn w t = refs.map (fun r => (g, r))) :
    refsFor w g t = refs := by
  unfold refsFor
  rw [h]
  clear h
  induction refs with
  | nil => rfl
  | cons r l ih => simpa using ih

@[simp] theorem filterE_passes_all {I : Type} [DecidableEq I] (W : World I) (L : Loc I) (xs : List I) :
    filterE (passes W L .all) xs = .ok xs := filterE_all _ _ (fun _ _ => rfl)

theorem filterE_neVar' {I : Type} [DecidableEq I] (W : World I) (L : Loc I) (v : String) (o : Option I) (h : L v = .inst o)
    (xs : List I) : filterE (passes W L (.neVar v)) xs = .ok (xs.filter (fun x => decide (o ≠ some x))) := by
  induction xs with
  | nil => rfl
  | cons x xs ih => simp only [filterE, passes, h, ih, List.filter_cons]

def instOf {I : Type} : Val I → Option (Option I)
  | .inst o => some o
  | _ => none

@[simp] theorem filterE_neVar {I : Type} [DecidableEq I] (W : World I) (L : Loc I) (v : String) (xs : List I) :
    filterE (passes W L (.neVar v)) xs =
      match instOf (L v) with
      | some o => .ok (xs.filter (fun x => decide (o ≠ some x)))
      | none => if xs.isEmpty then .ok [] else .error .stuck := by
  cases h : L v with
  | inst o => simp only [instOf]; exact filterE_neVar' W L v o h xs
  | _ => cases xs <;> simp [instOf, filterE, passes, h]

macro "xs1" "[" ts:Lean.Parser.Tactic.simpLemma,* "]" : tactic =>
  `(tactic| simp [iStmts, iStmt, thenStep, eExpr, eCond, eNav, startSet, evalHops, filterE, passes, Loc.set, bindAll, truthy,
        Loc.empty, Except.map, evalArgs, relHop, relAttr, relKind, relSubtype, hp, rowsFrom, classOfEnd, endOf, retOf, instOf,
        assocsOf, decodeAll, decodeAssoc, argNat, argStr, argStrs, argBool, List.lookup, expected, $ts,*])

theorem simple_formalised (d : ClassDiagram) (numb : Nat) (w : RelRows) (f p : End) (rest : List End)
    (hform : w.form = some f) (hparts : w.parts = p :: rest) (Lc : Loc RI) :
    assocsOf (callAt (relWorld d numb w) defs 5 "mk_simple_association" [.opaque, .inst (some .simp)] Lc []) =
      expected numb (kindOutcome d (.simple f p w.refs)) := by
  have hrf : refsFor w .form (.part 0) = w.refs := refsFor_tagged w _ _ _ (by simp [refsOn, hform])
  have hrel := fun Lc C => relattrs d numb w 3 .form (.part 0) (.rgo .form) (by simp [relAttr]) Lc C
  simp only [Nat.reduceAdd, hrf] at hrel
  rw [callAt_def _ _ 4 _ _ _ _ _ rfl lookup_mk_simple_association rfl]
  cases hfc : findClass d f.cls <;> cases hpc : findClass d p.cls <;>
    cases hres : resolvedAt d w .form (.part 0) w.refs
  case some.some.true fc pc =>
    have h1 : refsResolved fc pc w.refs = true := by
      simpa [resolvedAt, refsResolved, attrAt, classOfEnd, endOf, hform, hparts, hfc, hpc] using hres
    have hn1 : namesAt d w .form (w.refs.map (·.rattr)) = keyNames fc (w.refs.map (·.rattr)) := by
      simp [namesAt, keyNames, attrAt, classOfEnd, endOf, hform, hfc]
    have hn2 : namesAt d w (.part 0) (w.refs.map (·.iattr)) = keyNames pc (w.refs.map (·.iattr)) := by
      simp [namesAt, keyNames, attrAt, classOfEnd, endOf, hparts, hpc]
    have hi1 := findClass_id hfc
    have hi2 := findClass_id hpc
    by_cases hs : f.cls = p.cls
    · have hfp : fc = pc := by
        have h := hfc; rw [hs, hpc] at h; exact (Option.some.inj h).symm
      subst hfp
      have hb1 : (f.cls != p.cls) = false := by simp [hs]
      have hb2 : (f.cls == p.cls) = true := by simp [hs]
      xs1 [mk_simple_association, hform, hparts, hrel, hfc, hpc, hres, kindOutcome, resolvedRel, RelKind.asRel, pairResolved,
        groupOf, phraseIf, h1, hn1, hn2, hi1, hi2, hb1, hb2]
    · have hb1 : (f.cls != p.cls) = true := by simp [hs]
      have hb2 : (f.cls == p.cls) = false := by simp [hs]
      xs1 [mk_simple_association, hform, hparts, hrel, hfc, hpc, hres, kindOutcome, resolvedRel, RelKind.asRel, pairResolved,
        groupOf, phraseIf, h1, hn1, hn2, hi1, hi2, hb1, hb2]
  case some.some.false fc pc =>
    have h1 : refsResolved fc pc w.refs = false := by
      rw [← hres]; simp [resolvedAt, refsResolved, attrAt, classOfEnd, endOf, hform, hparts, hfc, hpc]
    xs1 [mk_simple_association, hform, hparts, hrel, hfc, hpc, hres, kindOutcome, resolvedRel, RelKind.asRel, pairResolved,
      groupOf, phraseIf, h1]
  all_goals
    xs1 [mk_simple_association, hform, hparts, hrel, hfc, hpc, hres, kindOutcome, resolvedRel, RelKind.asRel, pairResolved,
      groupOf, phraseIf]

theorem simple_unformalised (d : ClassDiagram) (numb : Nat) (w : RelRows) (p f : End) (rest : List End)
    (hform : w.form = none) (hparts : w.parts = p :: f :: rest) (Lc : Loc RI) :
    assocsOf (callAt (relWorld d numb w) defs 5 "mk_simple_association" [.opaque, .inst (some .simp)] Lc []) =
      expected numb (kindOutcome d (.simple f p w.refs)) := by
  have hrf : refsFor w (.part 1) (.part 0) = w.refs := refsFor_tagged w _ _ _ (by simp [refsOn, hform])
  have hrel := fun Lc C => relattrs d numb w 3 (.part 1) (.part 0) (.rto (.part 1)) (by simp [relAttr]) Lc C
  simp only [Nat.reduceAdd, hrf] at hrel
  rw [callAt_def _ _ 4 _ _ _ _ _ rfl lookup_mk_simple_association rfl]
  cases hfc : findClass d f.cls <;> cases hpc : findClass d p.cls <;>
    cases hres : resolvedAt d w (.part 1) (.part 0) w.refs
  case some.some.true fc pc =>
    have h1 : refsResolved fc pc w.refs = true := by
      simpa [resolvedAt, refsResolved, attrAt, classOfEnd, endOf, hform, hparts, hfc, hpc] using hres
    have hn1 : namesAt d w (.part 1) (w.refs.map (·.rattr)) = keyNames fc (w.refs.map (·.rattr)) := by
      simp [namesAt, keyNames, attrAt, classOfEnd, endOf, hparts, hfc]
    have hn2 : namesAt d w (.part 0) (w.refs.map (·.iattr)) = keyNames pc (w.refs.map (·.iattr)) := by
      simp [namesAt, keyNames, attrAt, classOfEnd, endOf, hparts, hpc]
    have hi1 := findClass_id hfc
    have hi2 := findClass_id hpc
    by_cases hs : f.cls = p.cls
    · have hfp : fc = pc := by
        have h := hfc; rw [hs, hpc] at h; exact (Option.some.inj h).symm
      subst hfp
      have hb1 : (f.cls != p.cls) = false := by simp [hs]
      have hb2 : (f.cls == p.cls) = true := by simp [hs]
      xs1 [mk_simple_association, hform, hparts, hrel, hfc, hpc, hres, kindOutcome, resolvedRel, RelKind.asRel, pairResolved,
        groupOf, phraseIf, h1, hn1, hn2, hi1, hi2, hb1, hb2]
    · have hb1 : (f.cls != p.cls) = true := by simp [hs]
      have hb2 : (f.cls == p.cls) = false := by simp [hs]
      xs1 [mk_simple_association, hform, hparts, hrel, hfc, hpc, hres, kindOutcome, resolvedRel, RelKind.asRel, pairResolved,
        groupOf, phraseIf, h1, hn1, hn2, hi1, hi2, hb1, hb2]
  case some.some.false fc pc =>
    have h1 : refsResolved fc pc w.refs = false := by
      rw [← hres]; simp [resolvedAt, refsResolved, attrAt, classOfEnd, endOf, hform, hparts, hfc, hpc]
    xs1 [mk_simple_association, hform, hparts, hrel, hfc, hpc, hres, kindOutcome, resolvedRel, RelKind.asRel, pairResolved,
      groupOf, phraseIf, h1]
  all_goals
    xs1 [mk_simple_association, hform, hparts, hrel, hfc, hpc, hres, kindOutcome, resolvedRel, RelKind.asRel, pairResolved,
      groupOf, phraseIf]

/-- `mk_simple_association` without the two ends it needs: AttributeError -/
theorem simple_degenerate (d : ClassDiagram) (numb : Nat) (w : RelRows) (h : w.simpleEnds = none) (Lc : Loc RI) :
    assocsOf (callAt (relWorld d numb w) defs 5 "mk_simple_association" [.opaque, .inst (some .simp)] Lc []) =
      .error .attributeError := by
  have hr0 := fun xo Lc C => relattrs_none_rto d numb w 3 xo Lc C
  have hr1 := fun Lc C => relattrs_none_rgo d numb w 3 (.part 0) Lc C
  simp only [Nat.reduceAdd] at hr0 hr1
  rw [callAt_def _ _ 4 _ _ _ _ _ rfl lookup_mk_simple_association rfl]
  cases hform : w.form with
  | some f =>
    cases hparts : w.parts with
    | cons p rest => simp [RelRows.simpleEnds, hform, hparts] at h
    | nil => cases hfc : findClass d f.cls <;> xs1 [mk_simple_association, hform, hparts, hr0, hfc]
  | none =>
    cases hparts : w.parts with
    | nil => xs1 [mk_simple_association, hform, hparts, hr0]
    | cons p rest =>
      cases rest with
      | cons q rest => simp [RelRows.simpleEnds, hform, hparts] at h
      | nil =>
        cases hrefs : w.refs <;> xs1 [mk_simple_association, hform, hparts, hr1, refsOn, hrefs]

macro "xsM" "[" ts:Lean.Parser.Tactic.simpLemma,* "]" : tactic =>
  `(tactic| xs1 [kindOutcome, resolvedRel, RelKind.asRel, pairResolved, groupOf, phraseIf, callAt_def, foreign,
      lookup_mk_assoc, mk_linked_association_mk_assoc, $ts,*])

/-- `mk_linked_association` on a linked relationship whose classes and O_REF rows resolve -/
theorem linked_resolved (d : ClassDiagram) (numb : Nat) (w : RelRows) (o t : End) (l : Nat)
    (hone : w.aone = some o) (hoth : w.aoth = some t) (hassr : w.assr = some l)
    (hr : resolvedRel d (RelKind.linked o t l w.refsOne w.refsOth).asRel = true) (Lc : Loc RI) :
    assocsOf (callAt (relWorld d numb w) defs 5 "mk_linked_association" [.opaque, .inst (some .assoc)] Lc []) =
      expected numb (kindOutcome d (.linked o t l w.refsOne w.refsOth)) := by
  have hrf1 : refsFor w .assr .aone = w.refsOne := refsFor_tagged w _ _ _ (by simp [refsOn])
  have hrf2 : refsFor w .assr .aoth = w.refsOth := refsFor_tagged w _ _ _ (by simp [refsOn])
  have hrel1 := fun Lc C => relattrs d numb w 2 .assr .aone (.rgo .assr) (by simp [relAttr]) Lc C
  have hrel2 := fun Lc C => relattrs d numb w 2 .assr .aoth (.rgo .assr) (by simp [relAttr]) Lc C
  simp only [Nat.reduceAdd, hrf1, hrf2] at hrel1 hrel2
  rw [callAt_def _ _ 4 _ _ _ _ _ rfl lookup_mk_linked_association rfl]
  simp only [resolvedRel, RelKind.asRel, Bool.and_eq_true] at hr
  obtain ⟨hp1, hp2⟩ := hr
  cases hlc : findClass d l with
  | none => simp [pairResolved, hlc] at hp1
  | some lc =>
  cases hoc : findClass d o.cls with
  | none => simp [pairResolved, hlc, hoc] at hp1
  | some oc =>
  cases htc : findClass d t.cls with
  | none => simp [pairResolved, hlc, htc] at hp2
  | some tc =>
    have h1 : refsResolved lc oc w.refsOne = true := by simpa [pairResolved, hlc, hoc] using hp1
    have h2 : refsResolved lc tc w.refsOth = true := by simpa [pairResolved, hlc, htc] using hp2
    have hres1 : resolvedAt d w .assr .aone w.refsOne = true := by
      rw [← h1]; simp [resolvedAt, refsResolved, attrAt, classOfEnd, endOf, plainEnd, hone, hassr, hlc, hoc]
    have hres2 : resolvedAt d w .assr .aoth w.refsOth = true := by
      rw [← h2]; simp [resolvedAt, refsResolved, attrAt, classOfEnd, endOf, plainEnd, hoth, hassr, hlc, htc]
    have hn1 : namesAt d w .assr (w.refsOne.map (·.rattr)) = keyNames lc (w.refsOne.map (·.rattr)) := by
      simp [namesAt, keyNames, attrAt, classOfEnd, endOf, plainEnd, hassr, hlc]
    have hn2 : namesAt d w .aone (w.refsOne.map (·.iattr)) = keyNames oc (w.refsOne.map (·.iattr)) := by
      simp [namesAt, keyNames, attrAt, classOfEnd, endOf, hone, hoc]
    have hn3 : namesAt d w .assr (w.refsOth.map (·.rattr)) = keyNames lc (w.refsOth.map (·.rattr)) := by
      simp [namesAt, keyNames, attrAt, classOfEnd, endOf, plainEnd, hassr, hlc]
    have hn4 : namesAt d w .aoth (w.refsOth.map (·.iattr)) = keyNames tc (w.refsOth.map (·.iattr)) := by
      simp [namesAt, keyNames, attrAt, classOfEnd, endOf, hoth, htc]
    by_cases hs : o.cls = t.cls
    · have hb1 : (o.cls != t.cls) = false := by simp [hs]
      have hb2 : (o.cls == t.cls) = true := by simp [hs]
      have hb3 : (t.cls != o.cls) = false := by simp [hs]
      xsM [mk_linked_association, hone, hoth, hassr, hrel1, hrel2, hlc, hoc, htc, hres1, hres2, h1, h2, hn1, hn2, hn3, hn4,
        hb1, hb2, hb3, plainEnd]
    · have hb1 : (o.cls != t.cls) = true := by simp [hs]
      have hb2 : (o.cls == t.cls) = false := by simp [hs]
      have hb3 : (t.cls != o.cls) = true := by simp [Ne.symm hs]
      xsM [mk_linked_association, hone, hoth, hassr, hrel1, hrel2, hlc, hoc, htc, hres1, hres2, h1, h2, hn1, hn2, hn3, hn4,
        hb1, hb2, hb3, plainEnd]

theorem assocsOf_ret (r : Except Err (Val RI × Calls RI)) (L : Loc RI) :
    assocsOf (retOf (match r with
      | .error e => .error e
      | .ok (v, C') => .ok (L, C', Sig.ret v))) = assocsOf r := by
  rcases r with e | ⟨v, C⟩ <;> rfl

/-- `mk_association`: the dispatch over the R206 subtype row -/
theorem dispatch_eq (d : ClassDiagram) (numb : Nat) (w : RelRows) :
    iMkAssociation defs d numb w =
      match w.dispatch with
      | .none => .error .typeError
      | .comp => .ok []
      | .simple => assocsOf (callAt (relWorld d numb w) defs 5 "mk_simple_association" [.opaque, .inst (some .simp)]
          (((((Loc.empty.set "m" .opaque).set "r_rel" (.inst (some .rel))).set "handler" (.table [("R_SIMP", "mk_simple_association"), ("R_ASSOC", "mk_linked_association"), ("R_SUBSUP", "mk_subsuper_association"), ("R_COMP", "mk_derived_association")])).set "inst" (.inst (some .simp))).set "fn" (.fn (some "mk_simple_association"))) [])
      | .linked => assocsOf (callAt (relWorld d numb w) defs 5 "mk_linked_association" [.opaque, .inst (some .assoc)]
          (((((Loc.empty.set "m" .opaque).set "r_rel" (.inst (some .rel))).set "handler" (.table [("R_SIMP", "mk_simple_association"), ("R_ASSOC", "mk_linked_association"), ("R_SUBSUP", "mk_subsuper_association"), ("R_COMP", "mk_derived_association")])).set "inst" (.inst (some .assoc))).set "fn" (.fn (some "mk_linked_association"))) [])
      | .subsup => assocsOf (callAt (relWorld d numb w) defs 5 "mk_subsuper_association" [.opaque, .inst (some .subsup)]
          (((((Loc.empty.set "m" .opaque).set "r_rel" (.inst (some .rel))).set "handler" (.table [("R_SIMP", "mk_simple_association"), ("R_ASSOC", "mk_linked_association"), ("R_SUBSUP", "mk_subsuper_association"), ("R_COMP", "mk_derived_association")])).set "inst" (.inst (some .subsup))).set "fn" (.fn (some "mk_subsuper_association"))) []) := by
  unfold iMkAssociation run
  rw [callAt_def _ _ 5 _ _ _ _ _ rfl lookup_mk_association rfl]
  cases hd : w.dispatch
  · simp [mk_association, iStmts, iStmt, thenStep, eExpr, bindAll, Loc.set, Loc.empty, relSubtype, relKind, hd, List.lookup]
    generalize callAt (relWorld d numb w) defs 5 _ _ _ _ = r
    rcases r with e | ⟨v, C⟩ <;> rfl
  · simp [mk_association, iStmts, iStmt, thenStep, eExpr, bindAll, Loc.set, Loc.empty, relSubtype, relKind, hd, List.lookup,
      callAt_def, foreign, lookup_mk_derived_association, mk_derived_association, retOf, assocsOf, decodeAll]
  · simp [mk_association, iStmts, iStmt, thenStep, eExpr, bindAll, Loc.set, Loc.empty, relSubtype, relKind, hd, List.lookup]
    generalize callAt (relWorld d numb w) defs 5 _ _ _ _ = r
    rcases r with e | ⟨v, C⟩ <;> rfl
  · simp [mk_association, iStmts, iStmt, thenStep, eExpr, bindAll, Loc.set, Loc.empty, relSubtype, relKind, hd, List.lookup]
    generalize callAt (relWorld d numb w) defs 5 _ _ _ _ = r
    rcases r with e | ⟨v, C⟩ <;> rfl
  · simp [mk_association, iStmts, iStmt, thenStep, eExpr, bindAll, Loc.set, Loc.empty, relSubtype, relKind, hd, List.lookup,
      retOf, assocsOf]

end Pyx.XShape
