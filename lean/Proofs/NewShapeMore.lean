import Proofs.NewShape

/-!
  Additions to the C19 source tie:

  * the GENERIC id generator of the model (`IdGen`: `_current = stream pos`, the k-th `readfunc()` call returns
    `stream k`, whatever the stream is) against the statement lists of `IdGenerator.__init__ / peek / next`
    (the existing tie covers the integer generator, whose `readfunc` is a function of `_current`);
  * SEQUENCES: any interleaving of `peek` / `next` on a generator (`IntGen.run`, `IdGen.run`), any sequence of
    constructor calls on one metamodel (`newMany`), any history of creations interleaved with the user's own
    `next` / `peek` (`runHist`) — each is the interpretation of the generated statement lists, call after call.
-/
namespace Pyx.NShape
open Pyx.Attr Pyx.NewInst Pyx.Gen.NewShape

/-! ### a generator whose `readfunc` is the k-th value of a stream -/

structure SRegs where
  calls : Nat                        -- number of `readfunc()` calls made so far
  current : Int                      -- self._current
  saved : Option Int                 -- the local `val`
  ret : Option Int
  done : Bool

def iSStmt (stream : Nat → Int) (r : SRegs) : GStmt → SRegs
  | .drawCurrent => { r with current := stream r.calls, calls := r.calls + 1 }
  | .saveCurrent => { r with saved := some r.current }
  | .returnCurrent => { r with ret := some r.current, done := true }
  | .returnSaved => { r with ret := r.saved, done := true }

def iSSteps (stream : Nat → Int) : List GStmt → SRegs → SRegs
  | [], r => r
  | s :: rest, r =>
    let r' := iSStmt stream r s
    if r'.done then r' else iSSteps stream rest r'

def iSRun (stream : Nat → Int) (body : List GStmt) (calls : Nat) (current : Int) : SRegs :=
  iSSteps stream body { calls := calls, current := current, saved := none, ret := none, done := false }

/-- the generator position `pos` of the model stands for: `pos + 1` calls of `readfunc` made, `_current = stream pos` -/
theorem idGen_eq (g : IdGen) (c0 : Int) :
    (iSRun g.stream genInit 0 c0).current = IdGen.peek { g with pos := 0 } ∧
    (iSRun g.stream genInit 0 c0).calls = 1 ∧
    (iSRun g.stream genPeek (g.pos + 1) g.peek).ret = some g.peek ∧
    (iSRun g.stream genPeek (g.pos + 1) g.peek).current = g.peek ∧
    (iSRun g.stream genPeek (g.pos + 1) g.peek).calls = g.pos + 1 ∧
    (iSRun g.stream genNext (g.pos + 1) g.peek).ret = some g.next.1 ∧
    (iSRun g.stream genNext (g.pos + 1) g.peek).current = g.next.2.peek ∧
    (iSRun g.stream genNext (g.pos + 1) g.peek).calls = g.next.2.pos + 1 ∧
    g.next.2.stream = g.stream :=
  ⟨rfl, rfl, rfl, rfl, rfl, rfl, rfl, rfl, rfl⟩

/-! ### interleavings of peek / next -/

def opBody (peekB nextB : List GStmt) : GOp → List GStmt
  | .peek => peekB
  | .next => nextB

/-- the values returned by the calls (`none` = a call returned no value) and the final `_current` -/
def iGOps (readfunc : Int → Int) (peekB nextB : List GStmt) : List GOp → Int → List (Option Int) × Int
  | [], c => ([], c)
  | op :: r, c =>
    let regs := iGRun readfunc (opBody peekB nextB op) c
    let rest := iGOps readfunc peekB nextB r regs.current
    (regs.ret :: rest.1, rest.2)

theorem intGen_run_eq : ∀ (ops : List GOp) (g : IntGen),
    (IntGen.run ops g).1.map some = (iGOps (fun cur => cur + intIncrement) genPeek genNext ops g.current).1 ∧
    (IntGen.run ops g).2.current = (iGOps (fun cur => cur + intIncrement) genPeek genNext ops g.current).2
  | [], _ => ⟨rfl, rfl⟩
  | .peek :: r, g => by
    obtain ⟨h1, h2⟩ := intGen_run_eq r g
    refine ⟨?_, ?_⟩
    · simp only [IntGen.run, List.map_cons, iGOps]
      rw [h1]; rfl
    · simp only [IntGen.run, iGOps]
      rw [h2]; rfl
  | .next :: r, g => by
    obtain ⟨h1, h2⟩ := intGen_run_eq r (IntGen.next g).2
    refine ⟨?_, ?_⟩
    · simp only [IntGen.run, List.map_cons, iGOps]
      rw [h1]; rfl
    · simp only [IntGen.run, iGOps]
      rw [h2]; rfl

/-- the values returned and the final position (= calls made − 1) -/
def iSOps (stream : Nat → Int) (peekB nextB : List GStmt) : List GOp → Nat → List (Option Int) × Nat
  | [], pos => ([], pos)
  | op :: r, pos =>
    let regs := iSRun stream (opBody peekB nextB op) (pos + 1) (stream pos)
    let rest := iSOps stream peekB nextB r (regs.calls - 1)
    (regs.ret :: rest.1, rest.2)

theorem idGen_run_eq (stream : Nat → Int) : ∀ (ops : List GOp) (pos : Nat),
    (IdGen.run ops ⟨stream, pos⟩).1.map some = (iSOps stream genPeek genNext ops pos).1 ∧
    (IdGen.run ops ⟨stream, pos⟩).2.pos = (iSOps stream genPeek genNext ops pos).2 ∧
    (IdGen.run ops ⟨stream, pos⟩).2.stream = stream
  | [], _ => ⟨rfl, rfl, rfl⟩
  | .peek :: r, pos => by
    obtain ⟨h1, h2, h3⟩ := idGen_run_eq stream r pos
    refine ⟨?_, ?_, ?_⟩
    · simp only [IdGen.run, List.map_cons, iSOps]
      rw [h1]; rfl
    · simp only [IdGen.run, iSOps]
      rw [h2]; rfl
    · simp only [IdGen.run]; exact h3
  | .next :: r, pos => by
    obtain ⟨h1, h2, h3⟩ := idGen_run_eq stream r (pos + 1)
    refine ⟨?_, ?_, ?_⟩
    · simp only [IdGen.run, IdGen.next, List.map_cons, iSOps]
      rw [h1]; rfl
    · simp only [IdGen.run, IdGen.next, iSOps]
      rw [h2]; rfl
    · simp only [IdGen.run, IdGen.next]; exact h3

/-! ### sequences of constructor calls and histories -/

def iNewMany (loops : List AssignLoop) (stream : Nat → Int) : List Call → Nat → List Made × Nat
  | [], pos => ([], pos)
  | call :: r, pos =>
    let m := iNewOne loops stream call pos
    let ms := iNewMany loops stream r m.2
    (m.1 :: ms.1, ms.2)

theorem newMany_eq (stream : Nat → Int) : ∀ (calls : List Call) (pos : Nat), (∀ call ∈ calls, WF call.cls) →
    newMany stream calls pos = iNewMany newLoops stream calls pos
  | [], _, _ => rfl
  | call :: r, pos, h => by
    have hc : WF call.cls := h call (by simp)
    have hr : ∀ c ∈ r, WF c.cls := fun c hc' => h c (by simp [hc'])
    simp only [newMany, iNewMany]
    rw [newOne_eq stream call pos hc, newMany_eq stream r _ hr]

/-- a creation runs the interpreted loops at the current position; the user's own `next()` / `peek()` run the
    interpreted method bodies on the generator (`pos + 1` calls of `readfunc` made, `_current = stream pos`) -/
def iRunHist (loops : List AssignLoop) (peekB nextB : List GStmt) (stream : Nat → Int) :
    List HOp → Nat → List (Call × Made) × Nat
  | [], pos => ([], pos)
  | .create c :: r, pos =>
    let m := iNewOne loops stream c pos
    let ms := iRunHist loops peekB nextB stream r m.2
    ((c, m.1) :: ms.1, ms.2)
  | .next :: r, pos => iRunHist loops peekB nextB stream r ((iSRun stream nextB (pos + 1) (stream pos)).calls - 1)
  | .peek :: r, pos => iRunHist loops peekB nextB stream r ((iSRun stream peekB (pos + 1) (stream pos)).calls - 1)

theorem runHist_eq (stream : Nat → Int) : ∀ (h : List HOp) (pos : Nat), (∀ c, HOp.create c ∈ h → WF c.cls) →
    runHist stream h pos = iRunHist newLoops genPeek genNext stream h pos
  | [], _, _ => rfl
  | .create c :: r, pos, hw => by
    have hc : WF c.cls := hw c (by simp)
    have hr : ∀ c', HOp.create c' ∈ r → WF c'.cls := fun c' h' => hw c' (by simp [h'])
    simp only [runHist, iRunHist]
    rw [newOne_eq stream c pos hc, runHist_eq stream r _ hr]
  | .next :: r, pos, hw => by
    have hr : ∀ c', HOp.create c' ∈ r → WF c'.cls := fun c' h' => hw c' (by simp [h'])
    simp only [runHist, iRunHist]
    rw [runHist_eq stream r _ hr]; rfl
  | .peek :: r, pos, hw => by
    have hr : ∀ c', HOp.create c' ∈ r → WF c'.cls := fun c' h' => hw c' (by simp [h'])
    simp only [runHist, iRunHist]
    rw [runHist_eq stream r _ hr]; rfl

end Pyx.NShape
