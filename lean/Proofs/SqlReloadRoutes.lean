import Proofs.SqlReload

set_option linter.unusedSimpArgs false

/-! the database routes of xtuml/persist.py present the metamodel (in the sense of Proofs/SqlReload.lean) -/
namespace Pyx.Sql

/-! ### projections of the blocks a route is made of -/

theorem tablesI_classes (u : UC) (L : List ClassM) : tablesI u (L.map ClassM.item) = L.map (classB0 u) := by
  induction L with
  | nil => rfl
  | cons c cs ih => simp only [List.map_cons, ClassM.item, tablesI, ih, classB0, upAttrs]

theorem tablesI_indexItems (u : UC) (c : ClassM) : tablesI u c.indexItems = [] := by
  unfold ClassM.indexItems
  induction c.indices with
  | nil => rfl
  | cons e es ih => simpa [tablesI] using ih

theorem tablesI_instItems (u : UC) (c : ClassM) : tablesI u c.instItems = [] := by
  unfold ClassM.instItems
  induction c.rows with
  | nil => rfl
  | cons e es ih => simpa [tablesI] using ih

theorem tablesI_assocs (u : UC) (A : List AssocM) : tablesI u (A.map AssocM.item) = [] := by
  induction A with
  | nil => rfl
  | cons a as ih => simpa [AssocM.item, tablesI] using ih

theorem ropsI_classes (L : List ClassM) : ropsI (L.map ClassM.item) = [] := by
  induction L with
  | nil => rfl
  | cons c cs ih => simpa [ClassM.item, ropsI] using ih

theorem ropsI_indexItems (c : ClassM) : ropsI c.indexItems = [] := by
  unfold ClassM.indexItems
  induction c.indices with
  | nil => rfl
  | cons e es ih => simpa [ropsI] using ih

theorem ropsI_instItems (c : ClassM) : ropsI c.instItems = [] := by
  unfold ClassM.instItems
  induction c.rows with
  | nil => rfl
  | cons e es ih => simpa [ropsI] using ih

theorem ropsI_assocs (A : List AssocM) : ropsI (A.map AssocM.item) = A.map assocB0 := by
  induction A with
  | nil => rfl
  | cons a as ih => simp only [List.map_cons, AssocM.item, ropsI, ih, assocB0]

theorem idxI_classes (u : UC) (k : Name) (L : List ClassM) : idxI u k (L.map ClassM.item) = [] := by
  induction L with
  | nil => rfl
  | cons c cs ih => simpa [ClassM.item, idxI] using ih

theorem idxI_instItems (u : UC) (k : Name) (c : ClassM) : idxI u k c.instItems = [] := by
  unfold ClassM.instItems
  induction c.rows with
  | nil => rfl
  | cons e es ih => simpa [idxI] using ih

theorem idxI_assocs (u : UC) (k : Name) (A : List AssocM) : idxI u k (A.map AssocM.item) = [] := by
  induction A with
  | nil => rfl
  | cons a as ih => simpa [AssocM.item, idxI] using ih

theorem idxI_indexItems (u : UC) (k : Name) (c : ClassM) (hne : ∀ e ∈ c.indices, e.2 ≠ []) :
    idxI u k c.indexItems = if sameKind u k c.kind then c.indices else [] := by
  unfold ClassM.indexItems
  generalize c.indices = ixs at hne
  induction ixs with
  | nil => simp [idxI]
  | cons e es ih =>
    have he : e.2.isEmpty = false := by
      have := hne e (by simp); cases h : e.2 with
      | nil => exact absurd h this
      | cons _ _ => rfl
    have := ih (fun x hx => hne x (by simp [hx]))
    by_cases hk : sameKind u k c.kind = true
    · simp only [hk, if_true] at this ⊢
      simp only [List.map_cons, idxI, he, Bool.not_false, Bool.true_and, hk, if_true, this]
    · have hk' := Bool.eq_false_iff.mpr hk
      simp only [hk', Bool.false_eq_true, if_false] at this ⊢
      simp only [List.map_cons, idxI, hk', Bool.and_false, Bool.false_eq_true, if_false, this]

theorem insI_classes (u : UC) (k : Name) (L : List ClassM) : insI u k (L.map ClassM.item) = [] := by
  induction L with
  | nil => rfl
  | cons c cs ih => simpa [ClassM.item, insI] using ih

theorem insI_indexItems (u : UC) (k : Name) (c : ClassM) : insI u k c.indexItems = [] := by
  unfold ClassM.indexItems
  induction c.indices with
  | nil => rfl
  | cons e es ih => simpa [insI] using ih

theorem insI_assocs (u : UC) (k : Name) (A : List AssocM) : insI u k (A.map AssocM.item) = [] := by
  induction A with
  | nil => rfl
  | cons a as ih => simpa [AssocM.item, insI] using ih

theorem insI_instItems (u : UC) (k : Name) (c : ClassM) :
    insI u k c.instItems = if sameKind u k c.kind then c.rows.map (fun r => (c.attrs, r)) else [] := by
  unfold ClassM.instItems
  induction c.rows with
  | nil => simp [insI]
  | cons r rs ih =>
    by_cases hk : sameKind u k c.kind = true
    · simp only [hk, if_true] at ih ⊢
      simp only [List.map_cons, insI, hk, if_true, ih]
    · have hk' := Bool.eq_false_iff.mpr hk
      simp only [hk', Bool.false_eq_true, if_false] at ih ⊢
      simp only [List.map_cons, insI, hk', Bool.false_eq_true, if_false, ih]

/-! ### concatenations over a list of classes with distinct kinds -/

theorem nodup_of_map {α β : Type} (f : α → β) : ∀ (l : List α), (l.map f).Nodup → l.Nodup := by
  intro l
  induction l with
  | nil => intro _; exact List.nodup_nil
  | cons x xs ih =>
    intro h
    simp only [List.map_cons, List.nodup_cons, List.mem_map, not_exists, not_and] at h
    exact List.nodup_cons.mpr ⟨fun hx => h.1 x hx rfl, ih h.2⟩

theorem tablesI_item_cons (u : UC) (c : ClassM) (rest : List Item) : tablesI u (c.item :: rest) = classB0 u c :: tablesI u rest := rfl
theorem ropsI_item_cons (c : ClassM) (rest : List Item) : ropsI (c.item :: rest) = ropsI rest := rfl
theorem insI_item_cons (u : UC) (k : Name) (c : ClassM) (rest : List Item) : insI u k (c.item :: rest) = insI u k rest := rfl

theorem sameKind_false_of_ne (u : UC) (L : List ClassM) (hd : (L.map fun c => u.upper c.kind).Nodup) {c c0 : ClassM}
    (hc : c ∈ L) (hc0 : c0 ∈ L) (hne : c ≠ c0) : sameKind u c0.kind c.kind = false := by
  cases h : sameKind u c0.kind c.kind with
  | false => rfl
  | true =>
    exfalso; apply hne
    simp only [sameKind, beq_iff_eq] at h
    exact eq_of_nodup_map (fun c : ClassM => u.upper c.kind) L hd c hc c0 hc0 h.symm

theorem idxI_flatMap_index (u : UC) (L : List ClassM) (hd : (L.map fun c => u.upper c.kind).Nodup)
    (hne : ∀ c ∈ L, ∀ e ∈ c.indices, e.2 ≠ []) {c0 : ClassM} (hc0 : c0 ∈ L) :
    idxI u c0.kind (L.flatMap ClassM.indexItems) = c0.indices := by
  rw [proj_flatMap (idxI u c0.kind) rfl (idxI_append u c0.kind) ClassM.indexItems L c0 hc0 (nodup_of_map _ L hd) (by
    intro c hc hcne
    rw [idxI_indexItems u c0.kind c (hne c hc), sameKind_false_of_ne u L hd hc hc0 hcne]; rfl)]
  rw [idxI_indexItems u c0.kind c0 (hne c0 hc0), sameKind_refl]; rfl

theorem idxI_flatMap_clsIndex (u : UC) (L : List ClassM) (hd : (L.map fun c => u.upper c.kind).Nodup)
    (hne : ∀ c ∈ L, ∀ e ∈ c.indices, e.2 ≠ []) {c0 : ClassM} (hc0 : c0 ∈ L) :
    idxI u c0.kind (L.flatMap fun c => c.item :: c.indexItems) = c0.indices := by
  have hone : ∀ c : ClassM, idxI u c0.kind (c.item :: c.indexItems) = idxI u c0.kind c.indexItems := fun c => by
    simp only [ClassM.item, idxI]
  rw [proj_flatMap (idxI u c0.kind) rfl (idxI_append u c0.kind) (fun c => c.item :: c.indexItems) L c0 hc0
    (nodup_of_map _ L hd) (by
      intro c hc hcne
      rw [hone, idxI_indexItems u c0.kind c (hne c hc), sameKind_false_of_ne u L hd hc hc0 hcne]; rfl)]
  rw [hone, idxI_indexItems u c0.kind c0 (hne c0 hc0), sameKind_refl]; rfl

theorem insI_flatMap_inst (u : UC) (L : List ClassM) (hd : (L.map fun c => u.upper c.kind).Nodup) {c0 : ClassM} (hc0 : c0 ∈ L) :
    insI u c0.kind (L.flatMap ClassM.instItems) = c0.rows.map (fun r => (c0.attrs, r)) := by
  rw [proj_flatMap (insI u c0.kind) rfl (insI_append u c0.kind) ClassM.instItems L c0 hc0 (nodup_of_map _ L hd) (by
    intro c hc hcne
    rw [insI_instItems, sameKind_false_of_ne u L hd hc hc0 hcne]; rfl)]
  rw [insI_instItems, sameKind_refl]; rfl

theorem tablesI_flatMap_clsIndex (u : UC) (L : List ClassM) :
    tablesI u (L.flatMap fun c => c.item :: c.indexItems) = L.map (classB0 u) := by
  induction L with
  | nil => rfl
  | cons c cs ih =>
    simp only [List.flatMap_cons, List.cons_append, tablesI_item_cons, tablesI_append, tablesI_indexItems, List.nil_append, ih,
      List.map_cons]

theorem ropsI_flatMap_clsIndex (L : List ClassM) : ropsI (L.flatMap fun c => c.item :: c.indexItems) = [] := by
  induction L with
  | nil => rfl
  | cons c cs ih =>
    simp only [List.flatMap_cons, List.cons_append, ropsI_item_cons, ropsI_append, ropsI_indexItems, List.nil_append, ih]

theorem insI_flatMap_clsIndex (u : UC) (k : Name) (L : List ClassM) : insI u k (L.flatMap fun c => c.item :: c.indexItems) = [] := by
  induction L with
  | nil => rfl
  | cons c cs ih =>
    simp only [List.flatMap_cons, List.cons_append, insI_item_cons, insI_append, insI_indexItems, List.nil_append, ih]

/-! ### the two database routes present the metamodel -/

theorem itemOf_class (m : MM) {c : ClassM} (hc : c ∈ m.classes) : ItemOf m c.item := ⟨c, hc, rfl, rfl⟩

theorem itemOf_index (m : MM) {c : ClassM} (hc : c ∈ m.classes) : ∀ it ∈ c.indexItems, ItemOf m it := by
  intro it hit
  simp only [ClassM.indexItems, List.mem_map] at hit
  obtain ⟨e, he, rfl⟩ := hit
  exact ⟨c, hc, rfl, he⟩

theorem itemOf_inst (m : MM) {c : ClassM} (hc : c ∈ m.classes) : ∀ it ∈ c.instItems, ItemOf m it := by
  intro it hit
  simp only [ClassM.instItems, List.mem_map] at hit
  obtain ⟨r, hr, rfl⟩ := hit
  exact ⟨c, hc, rfl, rfl, hr⟩

theorem itemOf_assoc (m : MM) {a : AssocM} (ha : a ∈ m.assocs) : ItemOf m a.item := ⟨a, ha, rfl, rfl, rfl⟩

theorem sorted_kinds_nodup (u : UC) (m : MM) (hm : m.Closed u) : ((m.sortedClasses u).map fun c => u.upper c.kind).Nodup :=
  ((sortBy_perm _ m.classes).map _).nodup_iff.mpr hm.distinct

/-- `serialize_database`: classes sorted, associations sorted by (rel id, source kind), rows, identifiers -/
theorem presents_serializeDatabase (u : UC) (m : MM) (hm : m.Closed u) :
    Presents u m (m.serializeDatabase u) (m.sortedClasses u) m.assocsByIdKind := by
  have hperm : (m.sortedClasses u).Perm m.classes := sortBy_perm _ _
  have hsd := sorted_kinds_nodup u m hm
  have hne : ∀ c ∈ m.sortedClasses u, ∀ e ∈ c.indices, e.2 ≠ [] := fun c hc => (hm.idents c (hperm.mem_iff.mp hc)).2
  refine ⟨hperm, ?_, ?_, ?_, ?_, ?_, ?_⟩
  · intro it hit
    simp only [MM.serializeDatabase, MM.serializeSchema, MM.serializeClasses, MM.serializeAssociations, MM.serializeInstances,
      MM.serializeUniqueIdentifiers, List.mem_append, List.mem_map, List.mem_flatMap] at hit
    rcases hit with ((⟨c, hc, rfl⟩ | ⟨a, ha, rfl⟩) | ⟨c, hc, hin⟩) | ⟨c, hc, hin⟩
    · exact itemOf_class m (hperm.mem_iff.mp hc)
    · exact itemOf_assoc m ((mem_sortBy _ _ _).mp ha)
    · exact itemOf_inst m hc it hin
    · exact itemOf_index m (hperm.mem_iff.mp hc) it hin
  · simp only [MM.serializeDatabase, MM.serializeSchema, MM.serializeClasses, MM.serializeAssociations, MM.serializeInstances,
      MM.serializeUniqueIdentifiers, tablesI_append, tablesI_classes, tablesI_assocs,
      proj_flatMap_nil (tablesI u) rfl (tablesI_append u) ClassM.instItems m.classes (fun c _ => tablesI_instItems u c),
      proj_flatMap_nil (tablesI u) rfl (tablesI_append u) ClassM.indexItems (m.sortedClasses u) (fun c _ => tablesI_indexItems u c),
      List.append_nil]
  · simp only [MM.serializeDatabase, MM.serializeSchema, MM.serializeClasses, MM.serializeAssociations, MM.serializeInstances,
      MM.serializeUniqueIdentifiers, ropsI_append, ropsI_classes, ropsI_assocs,
      proj_flatMap_nil ropsI rfl ropsI_append ClassM.instItems m.classes (fun c _ => ropsI_instItems c),
      proj_flatMap_nil ropsI rfl ropsI_append ClassM.indexItems (m.sortedClasses u) (fun c _ => ropsI_indexItems c),
      List.append_nil, List.nil_append]
  · intro a ha; exact (mem_sortBy _ _ _).mp ha
  · intro c hc
    simp only [MM.serializeDatabase, MM.serializeSchema, MM.serializeClasses, MM.serializeAssociations, MM.serializeInstances,
      MM.serializeUniqueIdentifiers, idxI_append, idxI_classes, idxI_assocs,
      proj_flatMap_nil (idxI u c.kind) rfl (idxI_append u c.kind) ClassM.instItems m.classes (fun c' _ => idxI_instItems u c.kind c'),
      idxI_flatMap_index u (m.sortedClasses u) hsd hne (hperm.mem_iff.mpr hc), List.nil_append]
  · intro c hc
    simp only [MM.serializeDatabase, MM.serializeSchema, MM.serializeClasses, MM.serializeAssociations, MM.serializeInstances,
      MM.serializeUniqueIdentifiers, insI_append, insI_classes, insI_assocs,
      proj_flatMap_nil (insI u c.kind) rfl (insI_append u c.kind) ClassM.indexItems (m.sortedClasses u)
        (fun c' _ => insI_indexItems u c.kind c'),
      insI_flatMap_inst u m.classes hm.distinct hc, List.nil_append, List.append_nil]

/-- `persist_database`: per class in sorted order its table and its identifiers, associations sorted by rel id, rows -/
theorem presents_persistDatabase (u : UC) (m : MM) (hm : m.Closed u) :
    Presents u m (m.persistDatabase u) (m.sortedClasses u) m.assocsById := by
  have hperm : (m.sortedClasses u).Perm m.classes := sortBy_perm _ _
  have hsd := sorted_kinds_nodup u m hm
  have hne : ∀ c ∈ m.sortedClasses u, ∀ e ∈ c.indices, e.2 ≠ [] := fun c hc => (hm.idents c (hperm.mem_iff.mp hc)).2
  refine ⟨hperm, ?_, ?_, ?_, ?_, ?_, ?_⟩
  · intro it hit
    simp only [MM.persistDatabase, List.mem_append, List.mem_map, List.mem_flatMap, List.mem_cons] at hit
    rcases hit with (⟨c, hc, (rfl | hin)⟩ | ⟨a, ha, rfl⟩) | ⟨c, hc, hin⟩
    · exact itemOf_class m (hperm.mem_iff.mp hc)
    · exact itemOf_index m (hperm.mem_iff.mp hc) it hin
    · exact itemOf_assoc m ((mem_sortBy _ _ _).mp ha)
    · exact itemOf_inst m hc it hin
  · simp only [MM.persistDatabase, tablesI_append, tablesI_flatMap_clsIndex, tablesI_assocs,
      proj_flatMap_nil (tablesI u) rfl (tablesI_append u) ClassM.instItems m.classes (fun c _ => tablesI_instItems u c),
      List.append_nil]
  · simp only [MM.persistDatabase, ropsI_append, ropsI_flatMap_clsIndex, ropsI_assocs,
      proj_flatMap_nil ropsI rfl ropsI_append ClassM.instItems m.classes (fun c _ => ropsI_instItems c),
      List.append_nil, List.nil_append]
  · intro a ha; exact (mem_sortBy _ _ _).mp ha
  · intro c hc
    simp only [MM.persistDatabase, idxI_append, idxI_assocs,
      proj_flatMap_nil (idxI u c.kind) rfl (idxI_append u c.kind) ClassM.instItems m.classes (fun c' _ => idxI_instItems u c.kind c'),
      idxI_flatMap_clsIndex u (m.sortedClasses u) hsd hne (hperm.mem_iff.mpr hc), List.append_nil]
  · intro c hc
    simp only [MM.persistDatabase, insI_append, insI_flatMap_clsIndex, insI_assocs,
      insI_flatMap_inst u m.classes hm.distinct hc, List.nil_append]

/-! ### model-level round trip (everything but links) -/

/-- the metamodel as it is after one reload through a route that writes classes in sorted order and associations in
    the order `A` -/
def MM.reloaded (u : UC) (m : MM) (A : List AssocM) : MM := ⟨(m.sortedClasses u).map (canonClass u), A⟩

theorem reload_serializeDatabase_stmts (u : UC) (m : MM) (hm : m.Closed u) (stmts : List Stmt)
    (hs : itemsStmts u (m.serializeDatabase u) = some stmts) :
    ∃ bs, build u stmts = .ok bs ∧ bs.toMM u = m.reloaded u m.assocsByIdKind :=
  reload_of_presents u m hm _ _ _ stmts (presents_serializeDatabase u m hm) hs

theorem reload_persistDatabase_stmts (u : UC) (m : MM) (hm : m.Closed u) (stmts : List Stmt)
    (hs : itemsStmts u (m.persistDatabase u) = some stmts) :
    ∃ bs, build u stmts = .ok bs ∧ bs.toMM u = m.reloaded u m.assocsById :=
  reload_of_presents u m hm _ _ _ stmts (presents_persistDatabase u m hm) hs

/-- text level: what `serialize_database` writes is accepted, builds, and gives the canonical metamodel -/
theorem reload_serializeDatabase (u : UC) (m : MM) (hw : m.WF u) (hm : m.Closed u) (text : Text)
    (hp : printItems u (m.serializeDatabase u) = some text) :
    ∃ stmts bs, classify u text = .accepted stmts ∧ build u stmts = .ok bs ∧ bs.toMM u = m.reloaded u m.assocsByIdKind := by
  obtain ⟨stmts, hs, hc⟩ := route_roundtrip u m hw (m.serializeDatabase u) (by simp [MM.routes]) text hp
  obtain ⟨bs, hb, he⟩ := reload_serializeDatabase_stmts u m hm stmts hs
  exact ⟨stmts, bs, hc, hb, he⟩

theorem reload_persistDatabase (u : UC) (m : MM) (hw : m.WF u) (hm : m.Closed u) (text : Text)
    (hp : printItems u (m.persistDatabase u) = some text) :
    ∃ stmts bs, classify u text = .accepted stmts ∧ build u stmts = .ok bs ∧ bs.toMM u = m.reloaded u m.assocsById := by
  obtain ⟨stmts, hs, hc⟩ := route_roundtrip u m hw (m.persistDatabase u) (by simp [MM.routes]) text hp
  obtain ⟨bs, hb, he⟩ := reload_persistDatabase_stmts u m hm stmts hs
  exact ⟨stmts, bs, hc, hb, he⟩

theorem itemOf_serializeSchema (u : UC) (m : MM) : ∀ it ∈ m.serializeSchema u, ItemOf m it := by
  intro it hit
  simp only [MM.serializeSchema, MM.serializeClasses, MM.serializeAssociations, List.mem_append, List.mem_map] at hit
  rcases hit with ⟨c, hc, rfl⟩ | ⟨a, ha, rfl⟩
  · exact itemOf_class m ((mem_sortBy _ _ _).mp hc)
  · exact itemOf_assoc m ((mem_sortBy _ _ _).mp ha)

theorem itemOf_persistSchema (u : UC) (m : MM) : ∀ it ∈ m.persistSchema u, ItemOf m it := by
  intro it hit
  simp only [MM.persistSchema, List.mem_append, List.mem_map] at hit
  rcases hit with ⟨c, hc, rfl⟩ | ⟨a, ha, rfl⟩
  · exact itemOf_class m ((mem_sortBy _ _ _).mp hc)
  · exact itemOf_assoc m ((mem_sortBy _ _ _).mp ha)

theorem itemOf_instances (m : MM) : ∀ it ∈ m.classes.flatMap ClassM.instItems, ItemOf m it := by
  intro it hit
  simp only [List.mem_flatMap] at hit
  obtain ⟨c, hc, hin⟩ := hit; exact itemOf_inst m hc it hin

theorem itemOf_serializeUniqueIdentifiers (u : UC) (m : MM) : ∀ it ∈ m.serializeUniqueIdentifiers u, ItemOf m it := by
  intro it hit
  simp only [MM.serializeUniqueIdentifiers, List.mem_flatMap] at hit
  obtain ⟨c, hc, hin⟩ := hit; exact itemOf_index m ((mem_sortBy _ _ _).mp hc) it hin

theorem itemOf_persistUniqueIdentifiers (m : MM) : ∀ it ∈ m.persistUniqueIdentifiers, ItemOf m it := by
  intro it hit
  simp only [MM.persistUniqueIdentifiers, List.mem_flatMap] at hit
  obtain ⟨c, hc, hin⟩ := hit; exact itemOf_index m hc it hin

/-! ### the three separately written parts, concatenated in any order -/

theorem presents_serialize_SIX (u : UC) (m : MM) (hm : m.Closed u) :
    Presents u m ((m.serializeSchema u) ++ (m.serializeInstances) ++ (m.serializeUniqueIdentifiers u)) (m.sortedClasses u) m.assocsByIdKind := by
  have hperm : (m.sortedClasses u).Perm m.classes := sortBy_perm _ _
  have hsd := sorted_kinds_nodup u m hm
  have hne : ∀ c ∈ m.sortedClasses u, ∀ e ∈ c.indices, e.2 ≠ [] := fun c hc => (hm.idents c (hperm.mem_iff.mp hc)).2
  have hne' : ∀ c ∈ m.classes, ∀ e ∈ c.indices, e.2 ≠ [] := fun c hc => (hm.idents c hc).2
  refine ⟨hperm, ?_, ?_, ?_, ?_, ?_, ?_⟩
  · intro it hit
    simp only [List.mem_append] at hit
    rcases hit with (h | h) | h <;>
      first
      | exact itemOf_serializeSchema u m it h
      | exact itemOf_persistSchema u m it h
      | exact itemOf_instances m it h
      | exact itemOf_serializeUniqueIdentifiers u m it h
      | exact itemOf_persistUniqueIdentifiers m it h
  · simp only [MM.serializeSchema, MM.serializeClasses, MM.serializeAssociations, MM.serializeInstances, MM.serializeUniqueIdentifiers, tablesI_append, tablesI_classes, tablesI_assocs,
      proj_flatMap_nil (tablesI u) rfl (tablesI_append u) ClassM.instItems m.classes (fun c _ => tablesI_instItems u c),
      proj_flatMap_nil (tablesI u) rfl (tablesI_append u) ClassM.indexItems (m.sortedClasses u) (fun c _ => tablesI_indexItems u c),
      List.append_nil, List.nil_append]
  · simp only [MM.serializeSchema, MM.serializeClasses, MM.serializeAssociations, MM.serializeInstances, MM.serializeUniqueIdentifiers, ropsI_append, ropsI_classes, ropsI_assocs,
      proj_flatMap_nil ropsI rfl ropsI_append ClassM.instItems m.classes (fun c _ => ropsI_instItems c),
      proj_flatMap_nil ropsI rfl ropsI_append ClassM.indexItems (m.sortedClasses u) (fun c _ => ropsI_indexItems c),
      List.append_nil, List.nil_append]
  · intro a ha; exact (mem_sortBy _ _ _).mp ha
  · intro c hc
    simp only [MM.serializeSchema, MM.serializeClasses, MM.serializeAssociations, MM.serializeInstances, MM.serializeUniqueIdentifiers, idxI_append, idxI_classes, idxI_assocs,
      proj_flatMap_nil (idxI u c.kind) rfl (idxI_append u c.kind) ClassM.instItems m.classes (fun c' _ => idxI_instItems u c.kind c'),
      idxI_flatMap_index u (m.sortedClasses u) hsd hne (hperm.mem_iff.mpr hc), List.nil_append, List.append_nil]
  · intro c hc
    simp only [MM.serializeSchema, MM.serializeClasses, MM.serializeAssociations, MM.serializeInstances, MM.serializeUniqueIdentifiers, insI_append, insI_classes, insI_assocs,
      proj_flatMap_nil (insI u c.kind) rfl (insI_append u c.kind) ClassM.indexItems (m.sortedClasses u)
        (fun c' _ => insI_indexItems u c.kind c'),
      insI_flatMap_inst u m.classes hm.distinct hc, List.nil_append, List.append_nil]

theorem presents_persist_SIX (u : UC) (m : MM) (hm : m.Closed u) :
    Presents u m ((m.persistSchema u) ++ (m.persistInstances) ++ (m.persistUniqueIdentifiers)) (m.sortedClasses u) m.assocsById := by
  have hperm : (m.sortedClasses u).Perm m.classes := sortBy_perm _ _
  have hsd := sorted_kinds_nodup u m hm
  have hne : ∀ c ∈ m.sortedClasses u, ∀ e ∈ c.indices, e.2 ≠ [] := fun c hc => (hm.idents c (hperm.mem_iff.mp hc)).2
  have hne' : ∀ c ∈ m.classes, ∀ e ∈ c.indices, e.2 ≠ [] := fun c hc => (hm.idents c hc).2
  refine ⟨hperm, ?_, ?_, ?_, ?_, ?_, ?_⟩
  · intro it hit
    simp only [List.mem_append] at hit
    rcases hit with (h | h) | h <;>
      first
      | exact itemOf_serializeSchema u m it h
      | exact itemOf_persistSchema u m it h
      | exact itemOf_instances m it h
      | exact itemOf_serializeUniqueIdentifiers u m it h
      | exact itemOf_persistUniqueIdentifiers m it h
  · simp only [MM.persistSchema, MM.persistInstances, MM.persistUniqueIdentifiers, tablesI_append, tablesI_classes, tablesI_assocs,
      proj_flatMap_nil (tablesI u) rfl (tablesI_append u) ClassM.instItems m.classes (fun c _ => tablesI_instItems u c),
      proj_flatMap_nil (tablesI u) rfl (tablesI_append u) ClassM.indexItems m.classes (fun c _ => tablesI_indexItems u c),
      List.append_nil, List.nil_append]
  · simp only [MM.persistSchema, MM.persistInstances, MM.persistUniqueIdentifiers, ropsI_append, ropsI_classes, ropsI_assocs,
      proj_flatMap_nil ropsI rfl ropsI_append ClassM.instItems m.classes (fun c _ => ropsI_instItems c),
      proj_flatMap_nil ropsI rfl ropsI_append ClassM.indexItems m.classes (fun c _ => ropsI_indexItems c),
      List.append_nil, List.nil_append]
  · intro a ha; exact (mem_sortBy _ _ _).mp ha
  · intro c hc
    simp only [MM.persistSchema, MM.persistInstances, MM.persistUniqueIdentifiers, idxI_append, idxI_classes, idxI_assocs,
      proj_flatMap_nil (idxI u c.kind) rfl (idxI_append u c.kind) ClassM.instItems m.classes (fun c' _ => idxI_instItems u c.kind c'),
      idxI_flatMap_index u m.classes hm.distinct hne' hc, List.nil_append, List.append_nil]
  · intro c hc
    simp only [MM.persistSchema, MM.persistInstances, MM.persistUniqueIdentifiers, insI_append, insI_classes, insI_assocs,
      proj_flatMap_nil (insI u c.kind) rfl (insI_append u c.kind) ClassM.indexItems m.classes
        (fun c' _ => insI_indexItems u c.kind c'),
      insI_flatMap_inst u m.classes hm.distinct hc, List.nil_append, List.append_nil]

theorem presents_serialize_SXI (u : UC) (m : MM) (hm : m.Closed u) :
    Presents u m ((m.serializeSchema u) ++ (m.serializeUniqueIdentifiers u) ++ (m.serializeInstances)) (m.sortedClasses u) m.assocsByIdKind := by
  have hperm : (m.sortedClasses u).Perm m.classes := sortBy_perm _ _
  have hsd := sorted_kinds_nodup u m hm
  have hne : ∀ c ∈ m.sortedClasses u, ∀ e ∈ c.indices, e.2 ≠ [] := fun c hc => (hm.idents c (hperm.mem_iff.mp hc)).2
  have hne' : ∀ c ∈ m.classes, ∀ e ∈ c.indices, e.2 ≠ [] := fun c hc => (hm.idents c hc).2
  refine ⟨hperm, ?_, ?_, ?_, ?_, ?_, ?_⟩
  · intro it hit
    simp only [List.mem_append] at hit
    rcases hit with (h | h) | h <;>
      first
      | exact itemOf_serializeSchema u m it h
      | exact itemOf_persistSchema u m it h
      | exact itemOf_instances m it h
      | exact itemOf_serializeUniqueIdentifiers u m it h
      | exact itemOf_persistUniqueIdentifiers m it h
  · simp only [MM.serializeSchema, MM.serializeClasses, MM.serializeAssociations, MM.serializeInstances, MM.serializeUniqueIdentifiers, tablesI_append, tablesI_classes, tablesI_assocs,
      proj_flatMap_nil (tablesI u) rfl (tablesI_append u) ClassM.instItems m.classes (fun c _ => tablesI_instItems u c),
      proj_flatMap_nil (tablesI u) rfl (tablesI_append u) ClassM.indexItems (m.sortedClasses u) (fun c _ => tablesI_indexItems u c),
      List.append_nil, List.nil_append]
  · simp only [MM.serializeSchema, MM.serializeClasses, MM.serializeAssociations, MM.serializeInstances, MM.serializeUniqueIdentifiers, ropsI_append, ropsI_classes, ropsI_assocs,
      proj_flatMap_nil ropsI rfl ropsI_append ClassM.instItems m.classes (fun c _ => ropsI_instItems c),
      proj_flatMap_nil ropsI rfl ropsI_append ClassM.indexItems (m.sortedClasses u) (fun c _ => ropsI_indexItems c),
      List.append_nil, List.nil_append]
  · intro a ha; exact (mem_sortBy _ _ _).mp ha
  · intro c hc
    simp only [MM.serializeSchema, MM.serializeClasses, MM.serializeAssociations, MM.serializeInstances, MM.serializeUniqueIdentifiers, idxI_append, idxI_classes, idxI_assocs,
      proj_flatMap_nil (idxI u c.kind) rfl (idxI_append u c.kind) ClassM.instItems m.classes (fun c' _ => idxI_instItems u c.kind c'),
      idxI_flatMap_index u (m.sortedClasses u) hsd hne (hperm.mem_iff.mpr hc), List.nil_append, List.append_nil]
  · intro c hc
    simp only [MM.serializeSchema, MM.serializeClasses, MM.serializeAssociations, MM.serializeInstances, MM.serializeUniqueIdentifiers, insI_append, insI_classes, insI_assocs,
      proj_flatMap_nil (insI u c.kind) rfl (insI_append u c.kind) ClassM.indexItems (m.sortedClasses u)
        (fun c' _ => insI_indexItems u c.kind c'),
      insI_flatMap_inst u m.classes hm.distinct hc, List.nil_append, List.append_nil]

theorem presents_persist_SXI (u : UC) (m : MM) (hm : m.Closed u) :
    Presents u m ((m.persistSchema u) ++ (m.persistUniqueIdentifiers) ++ (m.persistInstances)) (m.sortedClasses u) m.assocsById := by
  have hperm : (m.sortedClasses u).Perm m.classes := sortBy_perm _ _
  have hsd := sorted_kinds_nodup u m hm
  have hne : ∀ c ∈ m.sortedClasses u, ∀ e ∈ c.indices, e.2 ≠ [] := fun c hc => (hm.idents c (hperm.mem_iff.mp hc)).2
  have hne' : ∀ c ∈ m.classes, ∀ e ∈ c.indices, e.2 ≠ [] := fun c hc => (hm.idents c hc).2
  refine ⟨hperm, ?_, ?_, ?_, ?_, ?_, ?_⟩
  · intro it hit
    simp only [List.mem_append] at hit
    rcases hit with (h | h) | h <;>
      first
      | exact itemOf_serializeSchema u m it h
      | exact itemOf_persistSchema u m it h
      | exact itemOf_instances m it h
      | exact itemOf_serializeUniqueIdentifiers u m it h
      | exact itemOf_persistUniqueIdentifiers m it h
  · simp only [MM.persistSchema, MM.persistInstances, MM.persistUniqueIdentifiers, tablesI_append, tablesI_classes, tablesI_assocs,
      proj_flatMap_nil (tablesI u) rfl (tablesI_append u) ClassM.instItems m.classes (fun c _ => tablesI_instItems u c),
      proj_flatMap_nil (tablesI u) rfl (tablesI_append u) ClassM.indexItems m.classes (fun c _ => tablesI_indexItems u c),
      List.append_nil, List.nil_append]
  · simp only [MM.persistSchema, MM.persistInstances, MM.persistUniqueIdentifiers, ropsI_append, ropsI_classes, ropsI_assocs,
      proj_flatMap_nil ropsI rfl ropsI_append ClassM.instItems m.classes (fun c _ => ropsI_instItems c),
      proj_flatMap_nil ropsI rfl ropsI_append ClassM.indexItems m.classes (fun c _ => ropsI_indexItems c),
      List.append_nil, List.nil_append]
  · intro a ha; exact (mem_sortBy _ _ _).mp ha
  · intro c hc
    simp only [MM.persistSchema, MM.persistInstances, MM.persistUniqueIdentifiers, idxI_append, idxI_classes, idxI_assocs,
      proj_flatMap_nil (idxI u c.kind) rfl (idxI_append u c.kind) ClassM.instItems m.classes (fun c' _ => idxI_instItems u c.kind c'),
      idxI_flatMap_index u m.classes hm.distinct hne' hc, List.nil_append, List.append_nil]
  · intro c hc
    simp only [MM.persistSchema, MM.persistInstances, MM.persistUniqueIdentifiers, insI_append, insI_classes, insI_assocs,
      proj_flatMap_nil (insI u c.kind) rfl (insI_append u c.kind) ClassM.indexItems m.classes
        (fun c' _ => insI_indexItems u c.kind c'),
      insI_flatMap_inst u m.classes hm.distinct hc, List.nil_append, List.append_nil]

theorem presents_serialize_ISX (u : UC) (m : MM) (hm : m.Closed u) :
    Presents u m ((m.serializeInstances) ++ (m.serializeSchema u) ++ (m.serializeUniqueIdentifiers u)) (m.sortedClasses u) m.assocsByIdKind := by
  have hperm : (m.sortedClasses u).Perm m.classes := sortBy_perm _ _
  have hsd := sorted_kinds_nodup u m hm
  have hne : ∀ c ∈ m.sortedClasses u, ∀ e ∈ c.indices, e.2 ≠ [] := fun c hc => (hm.idents c (hperm.mem_iff.mp hc)).2
  have hne' : ∀ c ∈ m.classes, ∀ e ∈ c.indices, e.2 ≠ [] := fun c hc => (hm.idents c hc).2
  refine ⟨hperm, ?_, ?_, ?_, ?_, ?_, ?_⟩
  · intro it hit
    simp only [List.mem_append] at hit
    rcases hit with (h | h) | h <;>
      first
      | exact itemOf_serializeSchema u m it h
      | exact itemOf_persistSchema u m it h
      | exact itemOf_instances m it h
      | exact itemOf_serializeUniqueIdentifiers u m it h
      | exact itemOf_persistUniqueIdentifiers m it h
  · simp only [MM.serializeSchema, MM.serializeClasses, MM.serializeAssociations, MM.serializeInstances, MM.serializeUniqueIdentifiers, tablesI_append, tablesI_classes, tablesI_assocs,
      proj_flatMap_nil (tablesI u) rfl (tablesI_append u) ClassM.instItems m.classes (fun c _ => tablesI_instItems u c),
      proj_flatMap_nil (tablesI u) rfl (tablesI_append u) ClassM.indexItems (m.sortedClasses u) (fun c _ => tablesI_indexItems u c),
      List.append_nil, List.nil_append]
  · simp only [MM.serializeSchema, MM.serializeClasses, MM.serializeAssociations, MM.serializeInstances, MM.serializeUniqueIdentifiers, ropsI_append, ropsI_classes, ropsI_assocs,
      proj_flatMap_nil ropsI rfl ropsI_append ClassM.instItems m.classes (fun c _ => ropsI_instItems c),
      proj_flatMap_nil ropsI rfl ropsI_append ClassM.indexItems (m.sortedClasses u) (fun c _ => ropsI_indexItems c),
      List.append_nil, List.nil_append]
  · intro a ha; exact (mem_sortBy _ _ _).mp ha
  · intro c hc
    simp only [MM.serializeSchema, MM.serializeClasses, MM.serializeAssociations, MM.serializeInstances, MM.serializeUniqueIdentifiers, idxI_append, idxI_classes, idxI_assocs,
      proj_flatMap_nil (idxI u c.kind) rfl (idxI_append u c.kind) ClassM.instItems m.classes (fun c' _ => idxI_instItems u c.kind c'),
      idxI_flatMap_index u (m.sortedClasses u) hsd hne (hperm.mem_iff.mpr hc), List.nil_append, List.append_nil]
  · intro c hc
    simp only [MM.serializeSchema, MM.serializeClasses, MM.serializeAssociations, MM.serializeInstances, MM.serializeUniqueIdentifiers, insI_append, insI_classes, insI_assocs,
      proj_flatMap_nil (insI u c.kind) rfl (insI_append u c.kind) ClassM.indexItems (m.sortedClasses u)
        (fun c' _ => insI_indexItems u c.kind c'),
      insI_flatMap_inst u m.classes hm.distinct hc, List.nil_append, List.append_nil]

theorem presents_persist_ISX (u : UC) (m : MM) (hm : m.Closed u) :
    Presents u m ((m.persistInstances) ++ (m.persistSchema u) ++ (m.persistUniqueIdentifiers)) (m.sortedClasses u) m.assocsById := by
  have hperm : (m.sortedClasses u).Perm m.classes := sortBy_perm _ _
  have hsd := sorted_kinds_nodup u m hm
  have hne : ∀ c ∈ m.sortedClasses u, ∀ e ∈ c.indices, e.2 ≠ [] := fun c hc => (hm.idents c (hperm.mem_iff.mp hc)).2
  have hne' : ∀ c ∈ m.classes, ∀ e ∈ c.indices, e.2 ≠ [] := fun c hc => (hm.idents c hc).2
  refine ⟨hperm, ?_, ?_, ?_, ?_, ?_, ?_⟩
  · intro it hit
    simp only [List.mem_append] at hit
    rcases hit with (h | h) | h <;>
      first
      | exact itemOf_serializeSchema u m it h
      | exact itemOf_persistSchema u m it h
      | exact itemOf_instances m it h
      | exact itemOf_serializeUniqueIdentifiers u m it h
      | exact itemOf_persistUniqueIdentifiers m it h
  · simp only [MM.persistSchema, MM.persistInstances, MM.persistUniqueIdentifiers, tablesI_append, tablesI_classes, tablesI_assocs,
      proj_flatMap_nil (tablesI u) rfl (tablesI_append u) ClassM.instItems m.classes (fun c _ => tablesI_instItems u c),
      proj_flatMap_nil (tablesI u) rfl (tablesI_append u) ClassM.indexItems m.classes (fun c _ => tablesI_indexItems u c),
      List.append_nil, List.nil_append]
  · simp only [MM.persistSchema, MM.persistInstances, MM.persistUniqueIdentifiers, ropsI_append, ropsI_classes, ropsI_assocs,
      proj_flatMap_nil ropsI rfl ropsI_append ClassM.instItems m.classes (fun c _ => ropsI_instItems c),
      proj_flatMap_nil ropsI rfl ropsI_append ClassM.indexItems m.classes (fun c _ => ropsI_indexItems c),
      List.append_nil, List.nil_append]
  · intro a ha; exact (mem_sortBy _ _ _).mp ha
  · intro c hc
    simp only [MM.persistSchema, MM.persistInstances, MM.persistUniqueIdentifiers, idxI_append, idxI_classes, idxI_assocs,
      proj_flatMap_nil (idxI u c.kind) rfl (idxI_append u c.kind) ClassM.instItems m.classes (fun c' _ => idxI_instItems u c.kind c'),
      idxI_flatMap_index u m.classes hm.distinct hne' hc, List.nil_append, List.append_nil]
  · intro c hc
    simp only [MM.persistSchema, MM.persistInstances, MM.persistUniqueIdentifiers, insI_append, insI_classes, insI_assocs,
      proj_flatMap_nil (insI u c.kind) rfl (insI_append u c.kind) ClassM.indexItems m.classes
        (fun c' _ => insI_indexItems u c.kind c'),
      insI_flatMap_inst u m.classes hm.distinct hc, List.nil_append, List.append_nil]

theorem presents_serialize_IXS (u : UC) (m : MM) (hm : m.Closed u) :
    Presents u m ((m.serializeInstances) ++ (m.serializeUniqueIdentifiers u) ++ (m.serializeSchema u)) (m.sortedClasses u) m.assocsByIdKind := by
  have hperm : (m.sortedClasses u).Perm m.classes := sortBy_perm _ _
  have hsd := sorted_kinds_nodup u m hm
  have hne : ∀ c ∈ m.sortedClasses u, ∀ e ∈ c.indices, e.2 ≠ [] := fun c hc => (hm.idents c (hperm.mem_iff.mp hc)).2
  have hne' : ∀ c ∈ m.classes, ∀ e ∈ c.indices, e.2 ≠ [] := fun c hc => (hm.idents c hc).2
  refine ⟨hperm, ?_, ?_, ?_, ?_, ?_, ?_⟩
  · intro it hit
    simp only [List.mem_append] at hit
    rcases hit with (h | h) | h <;>
      first
      | exact itemOf_serializeSchema u m it h
      | exact itemOf_persistSchema u m it h
      | exact itemOf_instances m it h
      | exact itemOf_serializeUniqueIdentifiers u m it h
      | exact itemOf_persistUniqueIdentifiers m it h
  · simp only [MM.serializeSchema, MM.serializeClasses, MM.serializeAssociations, MM.serializeInstances, MM.serializeUniqueIdentifiers, tablesI_append, tablesI_classes, tablesI_assocs,
      proj_flatMap_nil (tablesI u) rfl (tablesI_append u) ClassM.instItems m.classes (fun c _ => tablesI_instItems u c),
      proj_flatMap_nil (tablesI u) rfl (tablesI_append u) ClassM.indexItems (m.sortedClasses u) (fun c _ => tablesI_indexItems u c),
      List.append_nil, List.nil_append]
  · simp only [MM.serializeSchema, MM.serializeClasses, MM.serializeAssociations, MM.serializeInstances, MM.serializeUniqueIdentifiers, ropsI_append, ropsI_classes, ropsI_assocs,
      proj_flatMap_nil ropsI rfl ropsI_append ClassM.instItems m.classes (fun c _ => ropsI_instItems c),
      proj_flatMap_nil ropsI rfl ropsI_append ClassM.indexItems (m.sortedClasses u) (fun c _ => ropsI_indexItems c),
      List.append_nil, List.nil_append]
  · intro a ha; exact (mem_sortBy _ _ _).mp ha
  · intro c hc
    simp only [MM.serializeSchema, MM.serializeClasses, MM.serializeAssociations, MM.serializeInstances, MM.serializeUniqueIdentifiers, idxI_append, idxI_classes, idxI_assocs,
      proj_flatMap_nil (idxI u c.kind) rfl (idxI_append u c.kind) ClassM.instItems m.classes (fun c' _ => idxI_instItems u c.kind c'),
      idxI_flatMap_index u (m.sortedClasses u) hsd hne (hperm.mem_iff.mpr hc), List.nil_append, List.append_nil]
  · intro c hc
    simp only [MM.serializeSchema, MM.serializeClasses, MM.serializeAssociations, MM.serializeInstances, MM.serializeUniqueIdentifiers, insI_append, insI_classes, insI_assocs,
      proj_flatMap_nil (insI u c.kind) rfl (insI_append u c.kind) ClassM.indexItems (m.sortedClasses u)
        (fun c' _ => insI_indexItems u c.kind c'),
      insI_flatMap_inst u m.classes hm.distinct hc, List.nil_append, List.append_nil]

theorem presents_persist_IXS (u : UC) (m : MM) (hm : m.Closed u) :
    Presents u m ((m.persistInstances) ++ (m.persistUniqueIdentifiers) ++ (m.persistSchema u)) (m.sortedClasses u) m.assocsById := by
  have hperm : (m.sortedClasses u).Perm m.classes := sortBy_perm _ _
  have hsd := sorted_kinds_nodup u m hm
  have hne : ∀ c ∈ m.sortedClasses u, ∀ e ∈ c.indices, e.2 ≠ [] := fun c hc => (hm.idents c (hperm.mem_iff.mp hc)).2
  have hne' : ∀ c ∈ m.classes, ∀ e ∈ c.indices, e.2 ≠ [] := fun c hc => (hm.idents c hc).2
  refine ⟨hperm, ?_, ?_, ?_, ?_, ?_, ?_⟩
  · intro it hit
    simp only [List.mem_append] at hit
    rcases hit with (h | h) | h <;>
      first
      | exact itemOf_serializeSchema u m it h
      | exact itemOf_persistSchema u m it h
      | exact itemOf_instances m it h
      | exact itemOf_serializeUniqueIdentifiers u m it h
      | exact itemOf_persistUniqueIdentifiers m it h
  · simp only [MM.persistSchema, MM.persistInstances, MM.persistUniqueIdentifiers, tablesI_append, tablesI_classes, tablesI_assocs,
      proj_flatMap_nil (tablesI u) rfl (tablesI_append u) ClassM.instItems m.classes (fun c _ => tablesI_instItems u c),
      proj_flatMap_nil (tablesI u) rfl (tablesI_append u) ClassM.indexItems m.classes (fun c _ => tablesI_indexItems u c),
      List.append_nil, List.nil_append]
  · simp only [MM.persistSchema, MM.persistInstances, MM.persistUniqueIdentifiers, ropsI_append, ropsI_classes, ropsI_assocs,
      proj_flatMap_nil ropsI rfl ropsI_append ClassM.instItems m.classes (fun c _ => ropsI_instItems c),
      proj_flatMap_nil ropsI rfl ropsI_append ClassM.indexItems m.classes (fun c _ => ropsI_indexItems c),
      List.append_nil, List.nil_append]
  · intro a ha; exact (mem_sortBy _ _ _).mp ha
  · intro c hc
    simp only [MM.persistSchema, MM.persistInstances, MM.persistUniqueIdentifiers, idxI_append, idxI_classes, idxI_assocs,
      proj_flatMap_nil (idxI u c.kind) rfl (idxI_append u c.kind) ClassM.instItems m.classes (fun c' _ => idxI_instItems u c.kind c'),
      idxI_flatMap_index u m.classes hm.distinct hne' hc, List.nil_append, List.append_nil]
  · intro c hc
    simp only [MM.persistSchema, MM.persistInstances, MM.persistUniqueIdentifiers, insI_append, insI_classes, insI_assocs,
      proj_flatMap_nil (insI u c.kind) rfl (insI_append u c.kind) ClassM.indexItems m.classes
        (fun c' _ => insI_indexItems u c.kind c'),
      insI_flatMap_inst u m.classes hm.distinct hc, List.nil_append, List.append_nil]

theorem presents_serialize_XSI (u : UC) (m : MM) (hm : m.Closed u) :
    Presents u m ((m.serializeUniqueIdentifiers u) ++ (m.serializeSchema u) ++ (m.serializeInstances)) (m.sortedClasses u) m.assocsByIdKind := by
  have hperm : (m.sortedClasses u).Perm m.classes := sortBy_perm _ _
  have hsd := sorted_kinds_nodup u m hm
  have hne : ∀ c ∈ m.sortedClasses u, ∀ e ∈ c.indices, e.2 ≠ [] := fun c hc => (hm.idents c (hperm.mem_iff.mp hc)).2
  have hne' : ∀ c ∈ m.classes, ∀ e ∈ c.indices, e.2 ≠ [] := fun c hc => (hm.idents c hc).2
  refine ⟨hperm, ?_, ?_, ?_, ?_, ?_, ?_⟩
  · intro it hit
    simp only [List.mem_append] at hit
    rcases hit with (h | h) | h <;>
      first
      | exact itemOf_serializeSchema u m it h
      | exact itemOf_persistSchema u m it h
      | exact itemOf_instances m it h
      | exact itemOf_serializeUniqueIdentifiers u m it h
      | exact itemOf_persistUniqueIdentifiers m it h
  · simp only [MM.serializeSchema, MM.serializeClasses, MM.serializeAssociations, MM.serializeInstances, MM.serializeUniqueIdentifiers, tablesI_append, tablesI_classes, tablesI_assocs,
      proj_flatMap_nil (tablesI u) rfl (tablesI_append u) ClassM.instItems m.classes (fun c _ => tablesI_instItems u c),
      proj_flatMap_nil (tablesI u) rfl (tablesI_append u) ClassM.indexItems (m.sortedClasses u) (fun c _ => tablesI_indexItems u c),
      List.append_nil, List.nil_append]
  · simp only [MM.serializeSchema, MM.serializeClasses, MM.serializeAssociations, MM.serializeInstances, MM.serializeUniqueIdentifiers, ropsI_append, ropsI_classes, ropsI_assocs,
      proj_flatMap_nil ropsI rfl ropsI_append ClassM.instItems m.classes (fun c _ => ropsI_instItems c),
      proj_flatMap_nil ropsI rfl ropsI_append ClassM.indexItems (m.sortedClasses u) (fun c _ => ropsI_indexItems c),
      List.append_nil, List.nil_append]
  · intro a ha; exact (mem_sortBy _ _ _).mp ha
  · intro c hc
    simp only [MM.serializeSchema, MM.serializeClasses, MM.serializeAssociations, MM.serializeInstances, MM.serializeUniqueIdentifiers, idxI_append, idxI_classes, idxI_assocs,
      proj_flatMap_nil (idxI u c.kind) rfl (idxI_append u c.kind) ClassM.instItems m.classes (fun c' _ => idxI_instItems u c.kind c'),
      idxI_flatMap_index u (m.sortedClasses u) hsd hne (hperm.mem_iff.mpr hc), List.nil_append, List.append_nil]
  · intro c hc
    simp only [MM.serializeSchema, MM.serializeClasses, MM.serializeAssociations, MM.serializeInstances, MM.serializeUniqueIdentifiers, insI_append, insI_classes, insI_assocs,
      proj_flatMap_nil (insI u c.kind) rfl (insI_append u c.kind) ClassM.indexItems (m.sortedClasses u)
        (fun c' _ => insI_indexItems u c.kind c'),
      insI_flatMap_inst u m.classes hm.distinct hc, List.nil_append, List.append_nil]

theorem presents_persist_XSI (u : UC) (m : MM) (hm : m.Closed u) :
    Presents u m ((m.persistUniqueIdentifiers) ++ (m.persistSchema u) ++ (m.persistInstances)) (m.sortedClasses u) m.assocsById := by
  have hperm : (m.sortedClasses u).Perm m.classes := sortBy_perm _ _
  have hsd := sorted_kinds_nodup u m hm
  have hne : ∀ c ∈ m.sortedClasses u, ∀ e ∈ c.indices, e.2 ≠ [] := fun c hc => (hm.idents c (hperm.mem_iff.mp hc)).2
  have hne' : ∀ c ∈ m.classes, ∀ e ∈ c.indices, e.2 ≠ [] := fun c hc => (hm.idents c hc).2
  refine ⟨hperm, ?_, ?_, ?_, ?_, ?_, ?_⟩
  · intro it hit
    simp only [List.mem_append] at hit
    rcases hit with (h | h) | h <;>
      first
      | exact itemOf_serializeSchema u m it h
      | exact itemOf_persistSchema u m it h
      | exact itemOf_instances m it h
      | exact itemOf_serializeUniqueIdentifiers u m it h
      | exact itemOf_persistUniqueIdentifiers m it h
  · simp only [MM.persistSchema, MM.persistInstances, MM.persistUniqueIdentifiers, tablesI_append, tablesI_classes, tablesI_assocs,
      proj_flatMap_nil (tablesI u) rfl (tablesI_append u) ClassM.instItems m.classes (fun c _ => tablesI_instItems u c),
      proj_flatMap_nil (tablesI u) rfl (tablesI_append u) ClassM.indexItems m.classes (fun c _ => tablesI_indexItems u c),
      List.append_nil, List.nil_append]
  · simp only [MM.persistSchema, MM.persistInstances, MM.persistUniqueIdentifiers, ropsI_append, ropsI_classes, ropsI_assocs,
      proj_flatMap_nil ropsI rfl ropsI_append ClassM.instItems m.classes (fun c _ => ropsI_instItems c),
      proj_flatMap_nil ropsI rfl ropsI_append ClassM.indexItems m.classes (fun c _ => ropsI_indexItems c),
      List.append_nil, List.nil_append]
  · intro a ha; exact (mem_sortBy _ _ _).mp ha
  · intro c hc
    simp only [MM.persistSchema, MM.persistInstances, MM.persistUniqueIdentifiers, idxI_append, idxI_classes, idxI_assocs,
      proj_flatMap_nil (idxI u c.kind) rfl (idxI_append u c.kind) ClassM.instItems m.classes (fun c' _ => idxI_instItems u c.kind c'),
      idxI_flatMap_index u m.classes hm.distinct hne' hc, List.nil_append, List.append_nil]
  · intro c hc
    simp only [MM.persistSchema, MM.persistInstances, MM.persistUniqueIdentifiers, insI_append, insI_classes, insI_assocs,
      proj_flatMap_nil (insI u c.kind) rfl (insI_append u c.kind) ClassM.indexItems m.classes
        (fun c' _ => insI_indexItems u c.kind c'),
      insI_flatMap_inst u m.classes hm.distinct hc, List.nil_append, List.append_nil]

theorem presents_serialize_XIS (u : UC) (m : MM) (hm : m.Closed u) :
    Presents u m ((m.serializeUniqueIdentifiers u) ++ (m.serializeInstances) ++ (m.serializeSchema u)) (m.sortedClasses u) m.assocsByIdKind := by
  have hperm : (m.sortedClasses u).Perm m.classes := sortBy_perm _ _
  have hsd := sorted_kinds_nodup u m hm
  have hne : ∀ c ∈ m.sortedClasses u, ∀ e ∈ c.indices, e.2 ≠ [] := fun c hc => (hm.idents c (hperm.mem_iff.mp hc)).2
  have hne' : ∀ c ∈ m.classes, ∀ e ∈ c.indices, e.2 ≠ [] := fun c hc => (hm.idents c hc).2
  refine ⟨hperm, ?_, ?_, ?_, ?_, ?_, ?_⟩
  · intro it hit
    simp only [List.mem_append] at hit
    rcases hit with (h | h) | h <;>
      first
      | exact itemOf_serializeSchema u m it h
      | exact itemOf_persistSchema u m it h
      | exact itemOf_instances m it h
      | exact itemOf_serializeUniqueIdentifiers u m it h
      | exact itemOf_persistUniqueIdentifiers m it h
  · simp only [MM.serializeSchema, MM.serializeClasses, MM.serializeAssociations, MM.serializeInstances, MM.serializeUniqueIdentifiers, tablesI_append, tablesI_classes, tablesI_assocs,
      proj_flatMap_nil (tablesI u) rfl (tablesI_append u) ClassM.instItems m.classes (fun c _ => tablesI_instItems u c),
      proj_flatMap_nil (tablesI u) rfl (tablesI_append u) ClassM.indexItems (m.sortedClasses u) (fun c _ => tablesI_indexItems u c),
      List.append_nil, List.nil_append]
  · simp only [MM.serializeSchema, MM.serializeClasses, MM.serializeAssociations, MM.serializeInstances, MM.serializeUniqueIdentifiers, ropsI_append, ropsI_classes, ropsI_assocs,
      proj_flatMap_nil ropsI rfl ropsI_append ClassM.instItems m.classes (fun c _ => ropsI_instItems c),
      proj_flatMap_nil ropsI rfl ropsI_append ClassM.indexItems (m.sortedClasses u) (fun c _ => ropsI_indexItems c),
      List.append_nil, List.nil_append]
  · intro a ha; exact (mem_sortBy _ _ _).mp ha
  · intro c hc
    simp only [MM.serializeSchema, MM.serializeClasses, MM.serializeAssociations, MM.serializeInstances, MM.serializeUniqueIdentifiers, idxI_append, idxI_classes, idxI_assocs,
      proj_flatMap_nil (idxI u c.kind) rfl (idxI_append u c.kind) ClassM.instItems m.classes (fun c' _ => idxI_instItems u c.kind c'),
      idxI_flatMap_index u (m.sortedClasses u) hsd hne (hperm.mem_iff.mpr hc), List.nil_append, List.append_nil]
  · intro c hc
    simp only [MM.serializeSchema, MM.serializeClasses, MM.serializeAssociations, MM.serializeInstances, MM.serializeUniqueIdentifiers, insI_append, insI_classes, insI_assocs,
      proj_flatMap_nil (insI u c.kind) rfl (insI_append u c.kind) ClassM.indexItems (m.sortedClasses u)
        (fun c' _ => insI_indexItems u c.kind c'),
      insI_flatMap_inst u m.classes hm.distinct hc, List.nil_append, List.append_nil]

theorem presents_persist_XIS (u : UC) (m : MM) (hm : m.Closed u) :
    Presents u m ((m.persistUniqueIdentifiers) ++ (m.persistInstances) ++ (m.persistSchema u)) (m.sortedClasses u) m.assocsById := by
  have hperm : (m.sortedClasses u).Perm m.classes := sortBy_perm _ _
  have hsd := sorted_kinds_nodup u m hm
  have hne : ∀ c ∈ m.sortedClasses u, ∀ e ∈ c.indices, e.2 ≠ [] := fun c hc => (hm.idents c (hperm.mem_iff.mp hc)).2
  have hne' : ∀ c ∈ m.classes, ∀ e ∈ c.indices, e.2 ≠ [] := fun c hc => (hm.idents c hc).2
  refine ⟨hperm, ?_, ?_, ?_, ?_, ?_, ?_⟩
  · intro it hit
    simp only [List.mem_append] at hit
    rcases hit with (h | h) | h <;>
      first
      | exact itemOf_serializeSchema u m it h
      | exact itemOf_persistSchema u m it h
      | exact itemOf_instances m it h
      | exact itemOf_serializeUniqueIdentifiers u m it h
      | exact itemOf_persistUniqueIdentifiers m it h
  · simp only [MM.persistSchema, MM.persistInstances, MM.persistUniqueIdentifiers, tablesI_append, tablesI_classes, tablesI_assocs,
      proj_flatMap_nil (tablesI u) rfl (tablesI_append u) ClassM.instItems m.classes (fun c _ => tablesI_instItems u c),
      proj_flatMap_nil (tablesI u) rfl (tablesI_append u) ClassM.indexItems m.classes (fun c _ => tablesI_indexItems u c),
      List.append_nil, List.nil_append]
  · simp only [MM.persistSchema, MM.persistInstances, MM.persistUniqueIdentifiers, ropsI_append, ropsI_classes, ropsI_assocs,
      proj_flatMap_nil ropsI rfl ropsI_append ClassM.instItems m.classes (fun c _ => ropsI_instItems c),
      proj_flatMap_nil ropsI rfl ropsI_append ClassM.indexItems m.classes (fun c _ => ropsI_indexItems c),
      List.append_nil, List.nil_append]
  · intro a ha; exact (mem_sortBy _ _ _).mp ha
  · intro c hc
    simp only [MM.persistSchema, MM.persistInstances, MM.persistUniqueIdentifiers, idxI_append, idxI_classes, idxI_assocs,
      proj_flatMap_nil (idxI u c.kind) rfl (idxI_append u c.kind) ClassM.instItems m.classes (fun c' _ => idxI_instItems u c.kind c'),
      idxI_flatMap_index u m.classes hm.distinct hne' hc, List.nil_append, List.append_nil]
  · intro c hc
    simp only [MM.persistSchema, MM.persistInstances, MM.persistUniqueIdentifiers, insI_append, insI_classes, insI_assocs,
      proj_flatMap_nil (insI u c.kind) rfl (insI_append u c.kind) ClassM.indexItems m.classes
        (fun c' _ => insI_indexItems u c.kind c'),
      insI_flatMap_inst u m.classes hm.distinct hc, List.nil_append, List.append_nil]

/-! ### the three parts in any order -/

/-- the six orders in which the three separately written parts can be concatenated (or fed one after the other) -/
def serializeOrders (u : UC) (m : MM) : List (List Item) :=
  [(m.serializeSchema u) ++ (m.serializeInstances) ++ (m.serializeUniqueIdentifiers u),
   (m.serializeSchema u) ++ (m.serializeUniqueIdentifiers u) ++ (m.serializeInstances),
   (m.serializeInstances) ++ (m.serializeSchema u) ++ (m.serializeUniqueIdentifiers u),
   (m.serializeInstances) ++ (m.serializeUniqueIdentifiers u) ++ (m.serializeSchema u),
   (m.serializeUniqueIdentifiers u) ++ (m.serializeSchema u) ++ (m.serializeInstances),
   (m.serializeUniqueIdentifiers u) ++ (m.serializeInstances) ++ (m.serializeSchema u)]

def persistOrders (u : UC) (m : MM) : List (List Item) :=
  [(m.persistSchema u) ++ (m.persistInstances) ++ (m.persistUniqueIdentifiers),
   (m.persistSchema u) ++ (m.persistUniqueIdentifiers) ++ (m.persistInstances),
   (m.persistInstances) ++ (m.persistSchema u) ++ (m.persistUniqueIdentifiers),
   (m.persistInstances) ++ (m.persistUniqueIdentifiers) ++ (m.persistSchema u),
   (m.persistUniqueIdentifiers) ++ (m.persistSchema u) ++ (m.persistInstances),
   (m.persistUniqueIdentifiers) ++ (m.persistInstances) ++ (m.persistSchema u)]

/-- the three separately written parts, in any of the six orders, build to the reloaded metamodel -/
theorem reload_parts (u : UC) (m : MM) (hm : m.Closed u) (items : List Item) (stmts : List Stmt)
    (hs : itemsStmts u items = some stmts) :
    (items ∈ serializeOrders u m → ∃ bs, build u stmts = .ok bs ∧ bs.toMM u = m.reloaded u m.assocsByIdKind) ∧
    (items ∈ persistOrders u m → ∃ bs, build u stmts = .ok bs ∧ bs.toMM u = m.reloaded u m.assocsById) := by
  constructor
  · intro h
    simp only [serializeOrders, List.mem_cons, List.mem_nil_iff, or_false] at h
    rcases h with rfl | rfl | rfl | rfl | rfl | rfl
    · exact reload_of_presents u m hm _ _ _ stmts (presents_serialize_SIX u m hm) hs
    · exact reload_of_presents u m hm _ _ _ stmts (presents_serialize_SXI u m hm) hs
    · exact reload_of_presents u m hm _ _ _ stmts (presents_serialize_ISX u m hm) hs
    · exact reload_of_presents u m hm _ _ _ stmts (presents_serialize_IXS u m hm) hs
    · exact reload_of_presents u m hm _ _ _ stmts (presents_serialize_XSI u m hm) hs
    · exact reload_of_presents u m hm _ _ _ stmts (presents_serialize_XIS u m hm) hs
  · intro h
    simp only [persistOrders, List.mem_cons, List.mem_nil_iff, or_false] at h
    rcases h with rfl | rfl | rfl | rfl | rfl | rfl
    · exact reload_of_presents u m hm _ _ _ stmts (presents_persist_SIX u m hm) hs
    · exact reload_of_presents u m hm _ _ _ stmts (presents_persist_SXI u m hm) hs
    · exact reload_of_presents u m hm _ _ _ stmts (presents_persist_ISX u m hm) hs
    · exact reload_of_presents u m hm _ _ _ stmts (presents_persist_IXS u m hm) hs
    · exact reload_of_presents u m hm _ _ _ stmts (presents_persist_XSI u m hm) hs
    · exact reload_of_presents u m hm _ _ _ stmts (presents_persist_XIS u m hm) hs


end Pyx.Sql
