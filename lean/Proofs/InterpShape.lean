import PyxModel.Interp.Decode
import Gen.InterpShape
import Proofs.InterpEnvInv

/-!
  C04 source tie, statement structure of the interpreter's handlers: a GENERIC interpreter of the first-order IR that
  translator/gen_interpshape.py extracts from bridgepoint/interpret.py (`ActionWalker.accept_*`, `SymbolTable`), over the
  configurations of the reference semantics (`Pyx.Interp.Cfg`, monad `M`), and the lemmas showing that the clauses of
  `Spec` (PyxModel/Interp/Spec.lean) equal that interpretation of the IR generated from the current source.

  The interpreter is defined once, for ANY IR value (`iCall`, `iStmt`, `iStmts`, `iHandlers`); only the `…_eq` lemmas mention
  the generated constants.  What it fixes, once, is the meaning of the ATOMS (the hand-modelled environment of the handlers):

    self.symtab.find_symbol / install_symbol / enter_block / leave_block   = Spec's lookupVar / install / pushBlock / popBlock
    self.symtab.enter_scope / leave_scope      = the scope head becomes one empty block / no block (a walker runs ONE body)
    self.domain.new / select_many / select_any = newInst / the instances of the class, filtered by the closure: all (QuerySet,
                                                 duplicate-free) / the first
    xtuml.relate / unrelate / delete           = State.relate / unrelate / deleteInst on instance handles
    xtuml.navigate_many / navigate_one, a step, calling the chain = startOf, navStepList, the chain's result (set / first)
    self.accept(node.<child>)                  = what the `Node` says the child does: an expression child delivers a value (a
                                                 property whose fget returns it), a statement child an outcome (a control
                                                 exception that propagates, or normal completion with a truth value returned)
    a control exception                        = an outcome `Out` other than normal; it skips the rest of every statement list
                                                 up to a `try` whose `except` names it
    Python truthiness of a condition           = Spec's asBool (the domain: conditions are booleans)
-/
set_option linter.unusedSimpArgs false
set_option linter.unusedVariables false
namespace Pyx.IShape
open Pyx.Interp Pyx.Interp.M Pyx.Gen.InterpShape

/-! ### the monad of the reference semantics is lawful -/

theorem pure_bnd {α β : Type} (a : α) (f : α → M β) : (pure a >>= f) = f a := rfl

theorem bnd_assoc {α β γ : Type} (m : M α) (f : α → M β) (g : β → M γ) :
    (m >>= f >>= g) = (m >>= fun a => f a >>= g) := by
  funext c
  show M.bnd (M.bnd m f) g c = M.bnd m (fun a => M.bnd (f a) g) c
  unfold M.bnd
  cases m c with
  | none => rfl
  | some r => cases r with
    | error e => rfl
    | ok p => rfl

theorem bnd_pure {α : Type} (m : M α) : (m >>= pure) = m := by
  funext c
  show M.bnd m M.ret' c = m c
  unfold M.bnd
  cases m c with
  | none => rfl
  | some r => cases r with
    | error e => rfl
    | ok p => rfl

instance : LawfulMonad M := LawfulMonad.mk' M
  (id_map := fun x => bnd_pure x)
  (pure_bind := fun a f => pure_bnd a f)
  (bind_assoc := fun m f g => bnd_assoc m f g)

theorem fail_bnd {α β : Type} (msg : String) (f : α → M β) : (M.fail msg >>= f) = M.fail msg := rfl

/-! ### values of Python locals, nodes, signals -/

/-- what an assignable access evaluates to (`accept_VariableAccessNode` / `accept_FieldAccessNode`: a property with a setter) -/
inductive LVal where
  | var (x : String)
  | field (i : Inst) (name : String)

/-- what a Python local of a handler holds -/
inductive PV where
  | val (v : Val)                        -- a value, or a property whose getter returns it
  | lval (l : LVal)                      -- a property with a setter
  | closure (f : Inst → M Val)           -- `def where(selected): …`
  | chain (many : Bool) (l : List Inst)  -- a NavChain (navigate_many) / NavOneChain (navigate_one) and the instances reached
  | child (m : M (Out × Bool))           -- an element of `node.children`
  | step (s : NavStep)                   -- an element of `self.accept(node.navigation_chain)`
  | table (which : String)               -- an operator dict
  | key                                  -- the normalised operator lexeme
  | unset
  | getter (m : M Val)                   -- `partial(find_symbol, name)`: evaluated when called
  | setter (f : Val → M Unit)            -- `partial(install_symbol, name)`
  | lazy (get : M Val) (set : Val → M Unit)   -- a property whose getter / setter run when `fget()` / `fset(v)` is called
  | list (l : List PV)                   -- what a generator has yielded so far
  | pchild (m : M NavStep)               -- an element of `node.children` whose handler RETURNS a navigation step closure

abbrev Locals := List (String × PV)

def Locals.get (L : Locals) (x : String) : PV := (L.lookup x).getD .unset
def Locals.set (L : Locals) (x : String) (v : PV) : Locals := (x, v) :: L

/-- the node a handler is applied to: its string fields, flags, optional fields, and what accepting a child does -/
structure Node where
  str : String → String := fun _ => ""
  flag : String → Bool := fun _ => false
  present : String → Bool := fun _ => false                 -- `node.<f> is not None`
  bop : BinOp := .add                                        -- the operator named by `node.operator.lower()`
  uop : UnOp := .neg
  acceptE : String → Option (M Val) := fun _ => none         -- expression children
  acceptL : String → Option (M LVal) := fun _ => none        -- assignable-access children
  acceptS : String → M (Out × Bool) := fun _ => pure (.normal, false)   -- statement children; `accept(None)` returns None
  children : List (M (Out × Bool)) := []
  pchildren : List (M NavStep) := []                         -- children whose handlers return a step closure (NavigationListNode)
  steps : String → List NavStep := fun _ => []
  again : M Out := pure .normal                              -- `while`: the loop once more (Spec: the oracle, one fuel less)
  getAttr : Inst → String → M Val := fun _ _ => fail "getattr"            -- `getattr(<instance>, name)`
  setAttr : Inst → String → Val → M Unit := fun _ _ _ => fail "setattr"   -- `setattr(<instance>, name, value)`

/-- how a statement list is left -/
inductive Sig where
  | next                    -- fell through
  | exc (o : Out)           -- a control exception propagates
  | ret (v : PV)            -- `return …`
  | cont | brk              -- Python `continue` / `break`

def nameOf (nd : Node) : Name → String
  | .field f => nd.str f
  | .fieldNoTicks f => stripTicks (nd.str f)
  | .lit s => s

def excOf : Out → Option Exc
  | .normal => none
  | .brk => some .breakExc
  | .cont => some .continueExc
  | .ret => some .returnExc
  | .retBare => some .returnExc
  | .stop => some .stopExc

/-- `raise <e>()`; Spec's two return outcomes record whether this handler stored a return value -/
def outOf (L : Locals) : Exc → Out
  | .breakExc => .brk
  | .continueExc => .cont
  | .stopExc => .stop
  | .returnExc => match L.get "return_value" with
    | .unset => .retBare
    | _ => .ret

def pvInst (what : String) : PV → M Inst
  | .val v => asInst v
  | _ => fail (what ++ ": not a value")

/-! ### domain / xtuml atoms -/

def filterAllM (p : Inst → M Bool) : List Inst → M (List Inst)
  | [] => pure []
  | c :: rest => do
    let t ← p c
    let r ← filterAllM p rest
    pure (if t then c :: r else r)

def filterFirstM (p : Inst → M Bool) : List Inst → M (Option Inst)
  | [] => pure none
  | c :: rest => do
    let t ← p c
    if t then pure (some c) else filterFirstM p rest

/-- `QuerySet(filter(where, cands))` / `next(iter(filter(where, cands)), None)`; the closure's result is used as a truth value -/
def selRes (many : Bool) (cands : List Inst) (wh : Option (Inst → M Val)) : M Val :=
  match many, wh with
  | true, none => pure (.set (dedup cands))
  | true, some w => do
    let l ← filterAllM (fun c => do let v ← w c; asBool v) cands
    pure (.set (dedup l))
  | false, none => pure (match cands with | [] => .none | c :: _ => .inst c)
  | false, some w => do
    let r ← filterFirstM (fun c => do let v ← w c; asBool v) cands
    pure (match r with | none => .none | some c => .inst c)

def closureOf (L : Locals) : Option String → M (Option (Inst → M Val))
  | none => pure none
  | some w => match L.get w with
    | .closure f => pure (some f)
    | _ => fail "not a closure"

def poolOf (C : Ctx) (cls : String) : M (List Inst) :=
  querySt (fun st => match findClass C cls with
    | none => .error ⟨"unknown class " ++ cls⟩
    | some _ => .ok (st.instances cls))

/-- calling a local: a navigation step applied to a chain, or a chain called with an optional closure -/
def callLocal (C : Ctx) (L : Locals) (fn : String) (args : List String) : M PV :=
  match L.get fn, args with
  | .step s, [c] => match L.get c with
    | .chain m l => do
      let l' ← querySt (fun st => navStepList C st l s)
      pure (.chain m l')
    | _ => fail "a navigation step is applied to a chain"
  | .chain m l, [] => do
    let r ← selRes m l none
    pure (.val r)
  | .chain m l, [w] => do
    let f ← closureOf L (some w)
    let r ← selRes m l f
    pure (.val r)
  | _, _ => fail "call of a local that is not callable"

def acceptRes (r : Out × Bool) : Except Out PV :=
  match r.1 with
  | .normal => .ok (.val (.bool r.2))
  | o => .error o

/-- one call: `.ok v` = its value, `.error o` = the control exception that left it -/
def iCall (C : Ctx) (nd : Node) (L : Locals) : PyCall → M (Except Out PV)
  | .findSymbol n => do
    let v ← lookupVar C (nameOf nd n)
    pure (.ok (.val v))
  | .installSymbol n v =>
    match L.get v with
    | .val x => do
      install (nameOf nd n) x
      pure (.ok (.val .none))
    | _ => fail "install_symbol: not a value"
  | .installSymbolCall n fn args => do
    let r ← callLocal C L fn args
    match r with
    | .val x => do
      install (nameOf nd n) x
      pure (.ok (.val .none))
    | _ => fail "install_symbol: not a value"
  | .enterScope => do
    setEnv [[]]
    pure (.ok (.val .none))
  | .leaveScope => do
    setEnv []
    pure (.ok (.val .none))
  | .enterBlock => do
    pushBlock
    pure (.ok (.val .none))
  | .leaveBlock => do
    popBlock
    pure (.ok (.val .none))
  | .accept child =>
    match nd.acceptE child with
    | some m => do
      let v ← m
      pure (.ok (.val v))
    | none =>
      match nd.acceptL child with
      | some m => do
        let l ← m
        pure (.ok (.lval l))
      | none => do
        let r ← nd.acceptS child
        pure (acceptRes r)
  | .acceptFget child =>
    match nd.acceptE child with
    | some m => do
      let v ← m
      pure (.ok (.val v))
    | none => fail "fget of something that is not an expression"
  | .acceptLocal v =>
    match L.get v with
    | .child m => do
      let r ← m
      pure (acceptRes r)
    | .pchild m => do
      let s ← m
      pure (.ok (.step s))
    | _ => fail "accept of a local that is not a node"
  | .fget v =>
    match L.get v with
    | .val x => pure (.ok (.val x))
    | .lazy g _ => do
      let x ← g
      pure (.ok (.val x))
    | _ => fail "fget of something that is not a property"
  | .fset v w =>
    match L.get v, L.get w with
    | .lval (.var x), .val y => do
      install x y
      pure (.ok (.val .none))
    | .lval (.field i name), .val y => do
      writeField C i name y
      pure (.ok (.val .none))
    | .lazy _ st, .val y => do
      st y
      pure (.ok (.val .none))
    | _, _ => fail "fset"
  | .domainNew cls => do
    let i ← modifyGet (newInst C (nameOf nd cls))
    pure (.ok (.val (.inst i)))
  | .selectMany cls wh => do
    let cands ← poolOf C (nameOf nd cls)
    let f ← closureOf L wh
    let r ← selRes true cands f
    pure (.ok (.val r))
  | .selectAny cls wh => do
    let cands ← poolOf C (nameOf nd cls)
    let f ← closureOf L wh
    let r ← selRes false cands f
    pure (.ok (.val r))
  | .relate a b rel phrase => do
    let x ← pvInst "relate" (L.get a)
    let y ← pvInst "relate" (L.get b)
    modifySt (relate C x y (nameOf nd rel) (nameOf nd phrase))
    pure (.ok (.val (.bool true)))
  | .unrelate a b rel phrase => do
    let x ← pvInst "unrelate" (L.get a)
    let y ← pvInst "unrelate" (L.get b)
    modifySt (unrelate C x y (nameOf nd rel) (nameOf nd phrase))
    pure (.ok (.val (.bool true)))
  | .delete a => do
    let x ← pvInst "delete" (L.get a)
    modifySt (deleteInst x)
    pure (.ok (.val .none))
  | .navigateMany h =>
    match L.get h with
    | .val v => do
      let l ← startOf v
      pure (.ok (.chain true l))
    | _ => fail "navigate: not a value"
  | .navigateOne h =>
    match L.get h with
    | .val v => do
      let l ← startOf v
      pure (.ok (.chain false l))
    | _ => fail "navigate: not a value"
  | .callLocal fn args => do
    let r ← callLocal C L fn args
    pure (.ok r)
  | .opsTable which => pure (.ok (.table which))
  | .lowerField _ => pure (.ok .key)
  | .applyOp table key args =>
    match L.get table, L.get key, args with
    | .table "binary", .key, [a, b] =>
      match L.get a, L.get b with
      | .val x, .val y => do
        let r ← liftE (binop nd.bop x y)
        pure (.ok (.val r))
      | _, _ => fail "operands"
    | .table "unary", .key, [a] =>
      match L.get a with
      | .val x => do
        let r ← liftE (unop nd.uop x)
        pure (.ok (.val r))
      | _ => fail "operand"
    | _, _, _ => fail "operator table"
  | .property v =>
    match L.get v with
    | .val x => pure (.ok (.val x))
    | _ => fail "property of something that is not a value"
  | .fieldVal f => pure (.ok (.val (.str (nd.str f))))
  | .stripFirstLast f => pure (.ok (.val (.str (String.ofList (((nd.str f).toList.drop 1).dropLast)))))
  | .upperEq f s => pure (.ok (.val (.bool (asciiUpper (nd.str f) == s))))
  | .lowerEq f s => pure (.ok (.val (.bool (asciiLower (nd.str f) == s))))
  | .intOf f =>
    match (nd.str f).toInt? with
    | some i => pure (.ok (.val (.int i)))
    | none => fail "int(): not a numeral"
  | .floatOf _ => fail "reals are not modelled"
  | .propertyAttr gh gn sh sn =>
    pure (.ok (.lazy (do let i ← pvInst "getattr" (L.get gh); nd.getAttr i (nameOf nd gn))
                     (fun v => do let i ← pvInst "setattr" (L.get sh); nd.setAttr i (nameOf nd sn) v)))
  | .partialFind n _ => pure (.ok (.getter (lookupVar C (nameOf nd n))))
  | .partialInstall n => pure (.ok (.setter (fun v => install (nameOf nd n) v)))
  | .property2 g st =>
    match L.get g, L.get st with
    | .getter m, .setter f => pure (.ok (.lazy m f))
    | _, _ => fail "property(fget, fset)"
  | .navClosure args =>
    match args with
    | [kl, rel, ph] => pure (.ok (.step ⟨nameOf nd kl, nameOf nd rel, nameOf nd ph⟩))
    | _ => fail "chain.nav takes a key letter, a rel id and a phrase"

/-! ### statements -/

/-- a Python `for` loop over `items`: `continue` and falling through go on, `break` ends the loop, anything else leaves it -/
def iLoop {α : Type} (body : α → Locals → M (Locals × Sig)) : List α → Locals → M (Locals × Sig)
  | [], L => pure (L, .next)
  | x :: rest, L => do
    let r ← body x L
    match r.2 with
    | .next => iLoop body rest r.1
    | .cont => iLoop body rest r.1
    | .brk => pure (r.1, .next)
    | s => pure (r.1, s)

/-- the value a closure call returns -/
def closureRun (m : M (Locals × Sig)) : M Val := do
  let r ← m
  match r.2 with
  | .ret (.val v) => pure v
  | _ => fail "the closure did not return a value"

def againSig (nd : Node) (L : Locals) : M (Locals × Sig) := do
  let o ← nd.again
  match o with
  | .normal => pure (L, .next)
  | o => pure (L, .exc o)

/-- sequencing: the rest of a statement list runs only if the statement fell through -/
def thenSig (r : Locals × Sig) (k : Locals → M (Locals × Sig)) : M (Locals × Sig) :=
  match r.2 with
  | .next => k r.1
  | s => pure (r.1, s)

mutual
  def iStmt (C : Ctx) (nd : Node) : PyStmt → Locals → M (Locals × Sig)
    | .assign dst c, L => do
      let r ← iCall C nd L c
      match r with
      | .ok v => pure (L.set dst v, .next)
      | .error o => pure (L, .exc o)
    | .expr c, L => do
      let r ← iCall C nd L c
      match r with
      | .ok _ => pure (L, .next)
      | .error o => pure (L, .exc o)
    | .setReturnValue c, L => do
      let r ← iCall C nd L c
      match r with
      | .ok (.val v) => do
        setRet v
        pure (L.set "return_value" (.val v), .next)
      | .ok _ => fail "return_value: not a value"
      | .error o => pure (L, .exc o)
    | .raise e, L => pure (L, .exc (outOf L e))
    | .ret c, L => do
      let r ← iCall C nd L c
      match r with
      | .ok v => pure (L, .ret v)
      | .error o => pure (L, .exc o)
    | .retTrue, L => pure (L, .ret (.val (.bool true)))
    | .pass, L => pure (L, .next)
    | .continue_, L => pure (L, .cont)
    | .break_, L => pure (L, .brk)
    | .ifNode flag thn els, L => if nd.flag flag then iStmts C nd thn L else iStmts C nd els L
    | .ifNodeNotNone fld thn els, L => if nd.present fld then iStmts C nd thn L else iStmts C nd els L
    | .ifCall negated c thn els, L => do
      let r ← iCall C nd L c
      match r with
      | .ok (.val v) => do
        let t ← asBool v
        if t != negated then iStmts C nd thn L else iStmts C nd els L
      | .ok _ => fail "condition: not a value"
      | .error o => pure (L, .exc o)
    | .tryExcept body hs, L => do
      let r ← iStmts C nd body L
      match r.2 with
      | .exc o => iHandlers C nd hs o r.1
      | s => pure (r.1, s)
    | .forIn var iter body, L =>
      match L.get iter with
      | .val (.set items) => iLoop (fun i L' => iStmts C nd body (L'.set var (.val (.inst i)))) items L
      | _ => fail "for each over a value that is not an instance set"
    | .forChildren var body, L =>
      match nd.pchildren with
      | [] => iLoop (fun m L' => iStmts C nd body (L'.set var (.child m))) nd.children L
      | ps => iLoop (fun m L' => iStmts C nd body (L'.set var (.pchild m))) ps L
    | .forAccept var child body, L =>
      iLoop (fun s L' => iStmts C nd body (L'.set var (.step s))) (nd.steps child) L
    | .whileCall c body, L => do
      let r ← iCall C nd L c
      match r with
      | .ok (.val v) => do
        let t ← asBool v
        if t then do
          let r ← iStmts C nd body L
          match r.2 with
          | .next => againSig nd r.1
          | .cont => againSig nd r.1
          | .brk => pure (r.1, .next)
          | s => pure (r.1, s)
        else pure (L, .next)
      | .ok _ => fail "condition: not a value"
      | .error o => pure (L, .exc o)
    | .defClosure name param body, L =>
      pure (L.set name (.closure (fun i => closureRun (iStmts C nd body (L.set param (.val (.inst i)))))), .next)
    | .yield_ c, L => do
      let r ← iCall C nd L c
      match r with
      | .ok v => pure (L.set "$yield" (.list ((match L.get "$yield" with | .list l => l | _ => []) ++ [v])), .next)
      | .error o => pure (L, .exc o)
  def iStmts (C : Ctx) (nd : Node) : List PyStmt → Locals → M (Locals × Sig)
    | [], L => pure (L, .next)
    | s :: rest, L => do
      let r ← iStmt C nd s L
      thenSig r (iStmts C nd rest)
  /-- the `except` clauses in order: the first that names the exception runs -/
  def iHandlers (C : Ctx) (nd : Node) : List (Exc × List PyStmt) → Out → Locals → M (Locals × Sig)
    | [], o, L => pure (L, .exc o)
    | (e, b) :: rest, o, L => if excOf o = some e then iStmts C nd b L else iHandlers C nd rest o L
end

/-! ### handlers: from the signal of the body to what the handler delivers -/

theorem thenSig_next (L : Locals) (k : Locals → M (Locals × Sig)) : thenSig (L, .next) k = k L := rfl
theorem thenSig_exc (L : Locals) (o : Out) (k : Locals → M (Locals × Sig)) : thenSig (L, .exc o) k = pure (L, .exc o) := rfl
theorem thenSig_ret (L : Locals) (v : PV) (k : Locals → M (Locals × Sig)) : thenSig (L, .ret v) k = pure (L, .ret v) := rfl
theorem thenSig_cont (L : Locals) (k : Locals → M (Locals × Sig)) : thenSig (L, .cont) k = pure (L, .cont) := rfl
theorem thenSig_brk (L : Locals) (k : Locals → M (Locals × Sig)) : thenSig (L, .brk) k = pure (L, .brk) := rfl
theorem thenSig_pure (r : Locals × Sig) : thenSig r (fun L => pure (L, .next)) = pure r := by
  cases r with | mk a b => cases b <;> rfl

/-- a statement handler: the outcome (None is returned) -/
def sigOut : Sig → M Out
  | .exc o => pure o
  | .cont => fail "continue outside a Python loop"
  | .brk => fail "break outside a Python loop"
  | _ => pure .normal

def handlerS (C : Ctx) (nd : Node) (body : List PyStmt) : M Out := do
  let r ← iStmts C nd body []
  sigOut r.2

/-- a handler whose return value is used as a truth value (`accept_ElIfListNode`, `accept_ElIfNode`): True, or None -/
def sigT : Sig → M (Out × Bool)
  | .exc o => pure (o, false)
  | .ret (.val (.bool b)) => pure (.normal, b)
  | .ret _ => fail "the handler returned something else than True"
  | .next => pure (.normal, false)
  | .cont => fail "continue outside a Python loop"
  | .brk => fail "break outside a Python loop"

def handlerT (C : Ctx) (nd : Node) (body : List PyStmt) : M (Out × Bool) := do
  let r ← iStmts C nd body []
  sigT r.2

/-- an expression handler: the value of the property it returns -/
def sigE : Sig → M Val
  | .ret (.val v) => pure v
  | _ => fail "the handler did not return a property"

def handlerE (C : Ctx) (nd : Node) (body : List PyStmt) : M Val := do
  let r ← iStmts C nd body []
  sigE r.2

/-! ==========================================================================================================
  the clauses of `Spec` equal the interpretation of the IR generated from the current source
  ========================================================================================================== -/

/-- equality of results up to the TEXT of a domain error (an error result carries no configuration).  Needed only where the
    source looks up all variables before it uses the first (relate / unrelate): `Spec` checks each handle as it is looked up, so
    the two report a different one of two simultaneous errors. -/
def noMsg {α : Type} : Res α → Res α
  | some (.error _) => some (.error ⟨""⟩)
  | r => r

theorem bind_run {α β : Type} (m : M α) (f : α → M β) (c : Cfg) :
    (m >>= f) c = match m c with
      | none => none
      | some (.error e) => some (.error e)
      | some (.ok (a, c')) => f a c' := rfl

theorem asInst_inst (i : Inst) : asInst (.inst i) = pure i := rfl
theorem fail_run {α : Type} (msg : String) (c : Cfg) : (M.fail msg : M α) c = some (.error ⟨msg⟩) := rfl
theorem pure_run {α : Type} (a : α) (c : Cfg) : (pure a : M α) c = some (.ok (a, c)) := rfl
theorem modifySt_run (f : State → Except Err State) (c : Cfg) :
    modifySt f c = match f c.st with
      | .ok st' => some (.ok ((), { c with st := st' }))
      | .error e => some (.error e) := rfl

theorem bnd_ok {α β : Type} {m : M α} {f : α → M β} {c c1 : Cfg} {a : α}
    (h : m c = some (.ok (a, c1))) : (m >>= f) c = f a c1 := by
  show M.bnd m f c = _
  unfold M.bnd; rw [h]

/-- a lookup delivers a value and leaves the configuration alone, or it is a domain error (it never runs out of fuel) -/
theorem lookupVar_run (C : Ctx) (x : String) (c : Cfg) :
    (∃ v, lookupVar C x c = some (.ok (v, c))) ∨ (∃ e, lookupVar C x c = some (.error e)) := by
  unfold lookupVar
  rw [bnd_ok (show getFr c = some (.ok (c.fr, c)) from rfl)]
  cases selfHit c.fr x with
  | true => exact .inl ⟨_, rfl⟩
  | false =>
    simp only [Bool.false_eq_true, ↓reduceIte]
    cases envLookup c.fr.env x with
    | some v => exact .inl ⟨_, rfl⟩
    | none =>
      cases List.lookup x C.consts with
      | some v => exact .inl ⟨_, rfl⟩
      | none => exact .inr ⟨_, rfl⟩

theorem asInst_run (v : Val) : (∃ i, v = .inst i) ∨ (∃ msg, asInst v = M.fail msg) := by
  cases v <;> first | exact .inl ⟨_, rfl⟩ | exact .inr ⟨_, rfl⟩

/-- unfold the generic interpreter on a concrete IR and normalise the monadic expression -/
macro "ishape" "[" ts:Lean.Parser.Tactic.simpLemma,* "]" : tactic =>
  `(tactic| simp only [handlerS, handlerT, handlerE, sigOut, sigT, sigE, iStmts, iStmt, iHandlers, iCall, execStep, evalStep, bind_assoc, pure_bind,
      nameOf, Locals.get, Locals.set, List.lookup, pvInst, acceptRes, thenSig_next, thenSig_exc, thenSig_ret, thenSig_cont,
      thenSig_brk, thenSig_pure, bind_pure, closureOf, excOf, outOf, ↓reduceIte, String.reduceEq,
      String.reduceBEq, Option.getD_some, Option.getD_none, reduceCtorEq, Option.some.injEq, bne_self_eq_false,
      Bool.true_bne, Bool.false_bne, Bool.not_true, Bool.not_false, Bool.false_eq_true, $ts,*])

/-- a node given by its string fields -/
def strNode (fields : List (String × String)) : Node := { str := fun f => (fields.lookup f).getD "" }

/-! ### relate / unrelate (+ using) -/

def relNode (a b rel ph u : String) : Node :=
  strNode [("from_variable_name", a), ("to_variable_name", b), ("rel_id", rel), ("phrase", ph), ("using_variable_name", u)]

theorem relate_eq (C : Ctx) (rec : Oracle) (a b rel ph : String) (c : Cfg) :
    noMsg (execStep C rec (.relate a b rel (stripTicks ph)) c) =
      noMsg (handlerS C (relNode a b rel ph "") accept_RelateNode c) := by
  simp only [handlerS, sigOut, thenSig_next, thenSig_pure, accept_RelateNode, iStmts, iStmt, iCall, execStep, bind_assoc, pure_bind, nameOf, relNode, strNode,
    Locals.get, Locals.set, List.lookup, pvInst, ↓reduceIte, String.reduceEq, String.reduceBEq, Option.getD_some]
  rcases lookupVar_run C a c with ⟨va, ha⟩ | ⟨e, ha⟩ <;>
  rcases lookupVar_run C b c with ⟨vb, hb⟩ | ⟨e, hb⟩ <;>
  (try rcases asInst_run va with ⟨i, rfl⟩ | ⟨e, hi⟩) <;>
  (try rcases asInst_run vb with ⟨j, rfl⟩ | ⟨e, hj⟩) <;>
  simp only [bind_run, asInst_inst, pure_run, fail_run, noMsg, *]

theorem unrelate_eq (C : Ctx) (rec : Oracle) (a b rel ph : String) (c : Cfg) :
    noMsg (execStep C rec (.unrelate a b rel (stripTicks ph)) c) =
      noMsg (handlerS C (relNode a b rel ph "") accept_UnrelateNode c) := by
  simp only [handlerS, sigOut, thenSig_next, thenSig_pure, accept_UnrelateNode, iStmts, iStmt, iCall, execStep, bind_assoc, pure_bind, nameOf, relNode, strNode,
    Locals.get, Locals.set, List.lookup, pvInst, ↓reduceIte, String.reduceEq, String.reduceBEq, Option.getD_some]
  rcases lookupVar_run C a c with ⟨va, ha⟩ | ⟨e, ha⟩ <;>
  rcases lookupVar_run C b c with ⟨vb, hb⟩ | ⟨e, hb⟩ <;>
  (try rcases asInst_run va with ⟨i, rfl⟩ | ⟨e, hi⟩) <;>
  (try rcases asInst_run vb with ⟨j, rfl⟩ | ⟨e, hj⟩) <;>
  simp only [bind_run, asInst_inst, pure_run, fail_run, noMsg, *]

theorem relateUsing_eq (C : Ctx) (rec : Oracle) (a b rel ph u : String) (c : Cfg) :
    noMsg (execStep C rec (.relateUsing a b rel (stripTicks ph) u) c) =
      noMsg (handlerS C (relNode a b rel ph u) accept_RelateUsingNode c) := by
  simp only [handlerS, sigOut, thenSig_next, thenSig_pure, accept_RelateUsingNode, iStmts, iStmt, iCall, execStep, bind_assoc, pure_bind, nameOf, relNode, strNode,
    Locals.get, Locals.set, List.lookup, pvInst, ↓reduceIte, String.reduceEq, String.reduceBEq, Option.getD_some]
  rcases lookupVar_run C a c with ⟨va, ha⟩ | ⟨e, ha⟩ <;>
  rcases lookupVar_run C b c with ⟨vb, hb⟩ | ⟨e, hb⟩ <;>
  rcases lookupVar_run C u c with ⟨vu, hu⟩ | ⟨e, hu⟩ <;>
  (try rcases asInst_run va with ⟨i, rfl⟩ | ⟨e, hi⟩) <;>
  (try rcases asInst_run vb with ⟨j, rfl⟩ | ⟨e, hj⟩) <;>
  (try rcases asInst_run vu with ⟨k, rfl⟩ | ⟨e, hk⟩) <;>
  simp only [bind_run, asInst_inst, pure_run, fail_run, noMsg, modifySt_run, relateUsing, *]
  all_goals
    cases relate C i k rel (stripTicks ph) c.st with
    | error e => rfl
    | ok st1 => first | rfl | (cases relate C k j rel (stripTicks ph) st1 <;> rfl)

theorem unrelateUsing_eq (C : Ctx) (rec : Oracle) (a b rel ph u : String) (c : Cfg) :
    noMsg (execStep C rec (.unrelateUsing a b rel (stripTicks ph) u) c) =
      noMsg (handlerS C (relNode a b rel ph u) accept_UnrelateUsingNode c) := by
  simp only [handlerS, sigOut, thenSig_next, thenSig_pure, accept_UnrelateUsingNode, iStmts, iStmt, iCall, execStep, bind_assoc, pure_bind, nameOf, relNode,
    strNode, Locals.get, Locals.set, List.lookup, pvInst, ↓reduceIte, String.reduceEq, String.reduceBEq, Option.getD_some]
  rcases lookupVar_run C a c with ⟨va, ha⟩ | ⟨e, ha⟩ <;>
  rcases lookupVar_run C b c with ⟨vb, hb⟩ | ⟨e, hb⟩ <;>
  rcases lookupVar_run C u c with ⟨vu, hu⟩ | ⟨e, hu⟩ <;>
  (try rcases asInst_run va with ⟨i, rfl⟩ | ⟨e, hi⟩) <;>
  (try rcases asInst_run vb with ⟨j, rfl⟩ | ⟨e, hj⟩) <;>
  (try rcases asInst_run vu with ⟨k, rfl⟩ | ⟨e, hk⟩) <;>
  simp only [bind_run, asInst_inst, pure_run, fail_run, noMsg, modifySt_run, unrelateUsing, *]
  all_goals
    cases unrelate C i k rel (stripTicks ph) c.st with
    | error e => rfl
    | ok st1 => first | rfl | (cases unrelate C k j rel (stripTicks ph) st1 <;> rfl)

/-! ### create / delete -/

theorem create_eq (C : Ctx) (rec : Oracle) (x cls : String) :
    execStep C rec (.create (some x) cls) =
      handlerS C (strNode [("key_letter", cls), ("variable_name", x)]) accept_CreateObjectNode := by
  simp only [handlerS, sigOut, thenSig_next, thenSig_pure, accept_CreateObjectNode, iStmts, iStmt, iCall, execStep, bind_assoc, pure_bind, nameOf, strNode,
    Locals.get, Locals.set, List.lookup, ↓reduceIte, String.reduceEq, String.reduceBEq, Option.getD_some]

theorem createNoVariable_eq (C : Ctx) (rec : Oracle) (cls : String) :
    execStep C rec (.create none cls) = handlerS C (strNode [("key_letter", cls)]) accept_CreateObjectNoVariableNode := by
  simp only [handlerS, sigOut, thenSig_next, thenSig_pure, accept_CreateObjectNoVariableNode, iStmts, iStmt, iCall, execStep, bind_assoc, pure_bind, nameOf,
    strNode, List.lookup, String.reduceBEq, Option.getD_some]

theorem delete_eq (C : Ctx) (rec : Oracle) (x : String) :
    execStep C rec (.delete x) = handlerS C (strNode [("variable_name", x)]) accept_DeleteNode := by
  simp only [handlerS, sigOut, thenSig_next, thenSig_pure, accept_DeleteNode, iStmts, iStmt, iCall, execStep, bind_assoc, pure_bind, nameOf, strNode,
    Locals.get, Locals.set, List.lookup, pvInst, String.reduceBEq, Option.getD_some]

/-! ### select from (+ where) -/

theorem selRes_none (rec : Oracle) (many : Bool) (cands : List Inst) :
    selRes many cands none = selectResult rec many cands none := by
  cases many <;> rfl

theorem filterAll_eq (rec : Oracle) (wh : Expr) : ∀ l, filterAll rec wh l = filterAllM (evalWhere rec wh) l
  | [] => rfl
  | c :: rest => by
    simp only [filterAll, filterAllM, filterAll_eq rec wh rest]

theorem filterFirst_eq (rec : Oracle) (wh : Expr) : ∀ l, filterFirst rec wh l = filterFirstM (evalWhere rec wh) l
  | [] => rfl
  | c :: rest => by
    simp only [filterFirst, filterFirstM, filterFirst_eq rec wh rest]

/-- the where closure as the source writes it: a block, `selected`, the clause, leave the block, the clause's value -/
def whereClosure (rec : Oracle) (wh : Expr) (c : Inst) : M Val := do
  pushBlock
  install "selected" (.inst c)
  let v ← rec.eval wh
  popBlock
  pure v

theorem selRes_some (rec : Oracle) (many : Bool) (cands : List Inst) (wh : Expr) :
    selRes many cands (some (whereClosure rec wh)) = selectResult rec many cands (some wh) := by
  have h : (fun c => do let v ← whereClosure rec wh c; asBool v) = evalWhere rec wh := by
    funext c
    simp only [whereClosure, evalWhere, bind_assoc, pure_bind]
  cases many
  · simp only [selRes, selectResult, h, filterFirst_eq]; rfl
  · simp only [selRes, selectResult, h, filterAll_eq]

def selectFromNode (many : Bool) (v cls : String) (wh : Option (M Val)) : Node :=
  { str := fun f => ([("variable_name", v), ("key_letter", cls)].lookup f).getD ""
    flag := fun f => f == "many" && many
    acceptE := fun f => if f = "where_clause" then wh else none }

theorem selectFrom_eq (C : Ctx) (rec : Oracle) (many : Bool) (v cls : String) :
    execStep C rec (.selectFrom many v cls none) = handlerS C (selectFromNode many v cls none) accept_SelectFromNode := by
  cases many <;>
  ishape [accept_SelectFromNode, selectFromNode, poolOf, selRes_none rec, Bool.and_true, Bool.and_false, Bool.false_eq_true] <;> rfl

theorem selRes_some' (rec : Oracle) (many : Bool) (cands : List Inst) (wh : Expr) :
    selRes many cands (some fun i => do
      pushBlock
      install "selected" (.inst i)
      let x ← rec.eval wh
      popBlock
      pure x) = selectResult rec many cands (some wh) := selRes_some rec many cands wh

theorem selectFromWhere_eq (C : Ctx) (rec : Oracle) (many : Bool) (v cls : String) (wh : Expr) :
    execStep C rec (.selectFrom many v cls (some wh)) =
      handlerS C (selectFromNode many v cls (some (rec.eval wh))) accept_SelectFromWhereNode := by
  cases many <;>
  ishape [accept_SelectFromWhereNode, closureRun, selectFromNode, poolOf, selRes_some' rec, Bool.and_true, Bool.and_false,
    Bool.false_eq_true] <;> rfl
/-! ### control: break / continue / control stop / return -/

theorem break_eq (C : Ctx) (rec : Oracle) : execStep C rec .brk = handlerS C {} accept_BreakNode := by
  ishape [accept_BreakNode]
theorem continue_eq (C : Ctx) (rec : Oracle) : execStep C rec .cont = handlerS C {} accept_ContinueNode := by
  ishape [accept_ContinueNode]
theorem stop_eq (C : Ctx) (rec : Oracle) : execStep C rec .stop = handlerS C {} accept_ControlNode := by
  ishape [accept_ControlNode]

def returnNode (e : Option (M Val)) : Node :=
  { present := fun f => f == "expression" && e.isSome
    acceptE := fun f => if f = "expression" then e else none }

theorem returnBare_eq (C : Ctx) (rec : Oracle) : execStep C rec (.ret none) = handlerS C (returnNode none) accept_ReturnNode := by
  ishape [accept_ReturnNode, returnNode, Option.isSome, Bool.and_false, Bool.false_eq_true]
theorem return_eq (C : Ctx) (rec : Oracle) (e : Expr) :
    execStep C rec (.ret (some e)) = handlerS C (returnNode (some (rec.eval e))) accept_ReturnNode := by
  ishape [accept_ReturnNode, returnNode, Option.isSome, Bool.and_true, BEq.rfl]

/-! ### statement list, block, body -/

def stmtChild (rec : Oracle) (s : Interp.Stmt) : M (Out × Bool) := do
  let o ← rec.exec s
  pure (o, false)

def sigOfOut : Out → Sig
  | .normal => .next
  | o => .exc o

theorem execList_loop (rec : Oracle) (body : M (Out × Bool) → Locals → M (Locals × Sig)) (g : M (Out × Bool) → Locals → Locals)
    (hb : ∀ m L, body m L = do let x ← m; pure (g m L, sigOfOut x.1)) : ∀ (l : List Interp.Stmt) (L : Locals),
    (do let r ← iLoop body (l.map (stmtChild rec)) L
        sigOut r.2) = execList rec l
  | [], L => rfl
  | s :: rest, L => by
    have ih := execList_loop rec body g hb rest
    simp only [List.map, iLoop, execList, bind_assoc, hb, stmtChild, pure_bind]
    apply bind_congr
    intro o
    cases o <;> simp only [sigOfOut, pure_bind] <;> first | exact ih _ | rfl

theorem execList_eq (C : Ctx) (rec : Oracle) (l : List Interp.Stmt) :
    execList rec l = handlerS C { children := l.map (stmtChild rec) } accept_StatementListNode := by
  simp only [handlerS, accept_StatementListNode, iStmts, iStmt, thenSig_pure, bind_pure]
  refine (execList_loop rec _ (fun m L => ("child", .child m) :: L) ?_ l []).symm
  intro m L
  ishape []
  apply bind_congr
  intro x
  cases x.1 <;> rfl


def listChild (rec : Oracle) (b : Block) : M (Out × Bool) := do
  let o ← execList rec b
  pure (o, false)

def blockNode (rec : Oracle) (b : Block) : Node :=
  { acceptS := fun f => if f = "statement_list" then listChild rec b else pure (.normal, false) }

/-- the block a control exception leaves is not left by the source (`leave_block` is skipped): `Spec` pops it -/
def unwindBlock (m : M Out) : M Out := do
  let o ← m
  match o with
  | .normal => pure .normal
  | o => do
    popBlock
    pure o

theorem execBlock_eq (C : Ctx) (rec : Oracle) (b : Block) :
    execBlock rec b = unwindBlock (handlerS C (blockNode rec b) accept_BlockNode) := by
  ishape [accept_BlockNode, blockNode, execBlock, unwindBlock, listChild]
  apply bind_congr; intro _
  apply bind_congr; intro o
  cases o <;> ishape []


def blockChild (rec : Oracle) (b : Block) : M (Out × Bool) := do
  let o ← execBlock rec b
  pure (o, false)

def bodyNode (rec : Oracle) (body : Block) : Node :=
  { acceptS := fun f => if f = "block" then blockChild rec body else pure (.normal, false) }

/-- `accept_BodyNode`, and what becomes of a break / continue that no loop caught (the exception leaves the walker) -/
def iRunBody (C : Ctx) (rec : Oracle) (body : Block) : M Unit := do
  let o ← handlerS C (bodyNode rec body) accept_BodyNode
  match o with
  | .brk => fail "break outside a loop"
  | .cont => fail "continue outside a loop"
  | _ => pure ()

/-- a callable runs in a NEW walker: its symbol table has no scope yet (`self._scopes = list()`) -/
def iInvoke (C : Ctx) (rec : Oracle) (kind : WalkerKind) (body : Block) (kw : List (String × Val)) (self : Val) : M Val :=
  fun c =>
    match iRunBody C rec body { fr := { mkFrame kind kw self with env := [] }, st := c.st } with
    | none => none
    | some (.error e) => some (.error e)
    | some (.ok (_, c')) => some (.ok (c'.fr.ret, { fr := c.fr, st := c'.st }))

theorem iRunBody_eq (C : Ctx) (rec : Oracle) (body : Block) :
    iRunBody C rec body = (do setEnv [[]]; runBody rec body; setEnv []) := by
  ishape [iRunBody, accept_BodyNode, bodyNode, runBody, blockChild]
  apply bind_congr; intro _
  apply bind_congr; intro o
  cases o <;> ishape [] <;> rfl

theorem invoke_eq (C : Ctx) (rec : Oracle) (kind : WalkerKind) (body : Block) (kw : List (String × Val)) (self : Val) :
    invoke rec kind body kw self = iInvoke C rec kind body kw self := by
  funext c
  simp only [invoke, iInvoke, iRunBody_eq, bind_run]
  have h : setEnv [[]] { fr := { mkFrame kind kw self with env := [] }, st := c.st } =
      some (.ok ((), { fr := mkFrame kind kw self, st := c.st })) := rfl
  simp only [h]
  generalize runBody rec body { fr := mkFrame kind kw self, st := c.st } = r
  cases r with
  | none => rfl
  | some r => cases r with
    | error e => rfl
    | ok p => rfl


/-! ### while, for each -/

def exprChild (f : String) (m : M Val) : String → Option (M Val) := fun g => if g = f then some m else none
def stmtChildAt (f : String) (m : M (Out × Bool)) : String → M (Out × Bool) :=
  fun g => if g = f then m else pure (.normal, false)

def whileNode (rec : Oracle) (c : Expr) (body : Block) : Node :=
  { acceptE := exprChild "expression" (rec.eval c)
    acceptS := stmtChildAt "block" (blockChild rec body)
    again := rec.exec (.whileS c body) }

theorem while_eq (C : Ctx) (rec : Oracle) (c : Expr) (body : Block) :
    execStep C rec (.whileS c body) = handlerS C (whileNode rec c body) accept_WhileNode := by
  ishape [accept_WhileNode, whileNode, exprChild, stmtChildAt, blockChild, againSig]
  apply bind_congr; intro v
  apply bind_congr; intro t
  cases t
  · ishape []
  · ishape []
    apply bind_congr; intro o
    cases o <;> ishape [] <;>
      first | rfl | (refine Eq.trans (bind_pure _).symm ?_; apply bind_congr; intro o'; cases o' <;> rfl)

def forEachNode (rec : Oracle) (v setv : String) (body : Block) : Node :=
  { str := fun f => ([("instance_variable_name", v), ("set_variable_name", setv)].lookup f).getD ""
    acceptS := stmtChildAt "block" (blockChild rec body) }

theorem forItems_loop (rec : Oracle) (v : String) (blk : Block) (body : Inst → Locals → M (Locals × Sig))
    (g : Inst → Locals → Locals)
    (hb : ∀ i L, body i L = do
      install v (.inst i)
      let o ← execBlock rec blk
      pure (g i L, match o with | .normal => Sig.next | .cont => .cont | .brk => .brk | o => .exc o)) :
    ∀ (items : List Inst) (L : Locals),
      (do let r ← iLoop body items L
          sigOut r.2) = forItems rec v blk items
  | [], L => rfl
  | i :: rest, L => by
    have ih := forItems_loop rec v blk body g hb rest
    simp only [iLoop, forItems, bind_assoc, hb, pure_bind]
    apply bind_congr; intro _
    apply bind_congr; intro o
    cases o <;> simp only [pure_bind] <;> first | exact ih _ | rfl

theorem forEach_eq (C : Ctx) (rec : Oracle) (v setv : String) (body : Block) :
    execStep C rec (.forEach v setv body) = handlerS C (forEachNode rec v setv body) accept_ForEachNode := by
  simp only [handlerS, accept_ForEachNode, iStmts, iStmt, thenSig_pure, bind_pure, execStep, bind_assoc]
  ishape [forEachNode]
  apply bind_congr; intro s
  cases s <;> ishape [] <;> try rfl
  rename_i items
  refine (forItems_loop rec v body _ (fun i L => ("handle", .val (.inst i)) :: L) ?_ items _).symm
  intro i L
  ishape [forEachNode, stmtChildAt, blockChild]
  apply bind_congr; intro _
  apply bind_congr; intro o
  cases o <;> ishape []


/-! ### if / elif / else -/

def elifNode (rec : Oracle) (cb : Expr × Block) : Node :=
  { acceptE := exprChild "expression" (rec.eval cb.1)
    acceptS := stmtChildAt "block" (blockChild rec cb.2) }

/-- `accept_ElIfNode`: None when the condition is false; the block's exception; else True -/
def elifSem (rec : Oracle) (cb : Expr × Block) : M (Out × Bool) := do
  let v ← rec.eval cb.1
  let t ← asBool v
  if t then do
    let o ← execBlock rec cb.2
    pure (o, decide (o = .normal))
  else pure (.normal, false)

theorem elif_eq (C : Ctx) (rec : Oracle) (cb : Expr × Block) :
    handlerT C (elifNode rec cb) accept_ElIfNode = elifSem rec cb := by
  ishape [accept_ElIfNode, elifNode, elifSem, exprChild, stmtChildAt, blockChild]
  apply bind_congr; intro v
  apply bind_congr; intro t
  cases t <;> ishape []
  apply bind_congr; intro o
  cases o <;> ishape [] <;> rfl

def elseSem (rec : Oracle) : Option Block → M Out
  | none => pure .normal
  | some b => execBlock rec b

theorem else_eq (C : Ctx) (rec : Oracle) (b : Block) :
    handlerS C { acceptS := stmtChildAt "block" (blockChild rec b) } accept_ElseNode = execBlock rec b := by
  ishape [accept_ElseNode, stmtChildAt, blockChild]
  refine Eq.trans ?_ (bind_pure _)
  apply bind_congr; intro o
  cases o <;> rfl

/-- what `accept_IfNode` does with the result of `self.accept(node.elif_list)` -/
def afterElifs (rec : Oracle) (els : Option Block) (x : Out × Bool) : M Out :=
  match x.1 with
  | .normal => if x.2 then pure .normal else elseSem rec els
  | o => pure o

theorem elifs_loop (rec : Oracle) (els : Option Block) (body : M (Out × Bool) → Locals → M (Locals × Sig))
    (g : M (Out × Bool) → Locals → Locals)
    (hb : ∀ m L, body m L = do
      let x ← m
      pure (g m L, match x.1 with
        | .normal => if x.2 then Sig.ret (.val (.bool true)) else .next
        | o => .exc o)) :
    ∀ (elifs : List (Expr × Block)) (L : Locals),
      (do let r ← iLoop body (elifs.map (elifSem rec)) L
          let x ← sigT r.2
          afterElifs rec els x) = execElifs rec elifs els
  | [], L => by cases els <;> rfl
  | (c, b) :: rest, L => by
    have ih := elifs_loop rec els body g hb rest
    simp only [List.map, iLoop, execElifs, bind_assoc, hb, elifSem, pure_bind]
    apply bind_congr; intro v
    apply bind_congr; intro t
    cases t
    · simp only [Bool.false_eq_true, ↓reduceIte, pure_bind]
      exact ih _
    · simp only [↓reduceIte, bind_assoc, pure_bind]
      refine Eq.trans ?_ (bind_pure _)
      apply bind_congr; intro o
      cases o <;> rfl

def elifListSem (C : Ctx) (rec : Oracle) (elifs : List (Expr × Block)) : M (Out × Bool) :=
  handlerT C { children := elifs.map (fun cb => handlerT C (elifNode rec cb) accept_ElIfNode) } accept_ElIfListNode

def elseClause (C : Ctx) (rec : Oracle) : Option Block → M (Out × Bool)
  | none => pure (.normal, false)          -- `self.accept(None)` returns None
  | some b => do
    let o ← handlerS C { acceptS := stmtChildAt "block" (blockChild rec b) } accept_ElseNode
    pure (o, false)

def ifNode (C : Ctx) (rec : Oracle) (c : Expr) (thn : Block) (elifs : List (Expr × Block)) (els : Option Block) : Node :=
  { acceptE := exprChild "expression" (rec.eval c)
    acceptS := fun f => if f = "block" then blockChild rec thn else if f = "elif_list" then elifListSem C rec elifs
      else if f = "else_clause" then elseClause C rec els else pure (.normal, false) }

theorem elifList_then (C : Ctx) (rec : Oracle) (elifs : List (Expr × Block)) (els : Option Block) :
    (do let x ← elifListSem C rec elifs
        afterElifs rec els x) = execElifs rec elifs els := by
  have hmap : elifs.map (fun cb => handlerT C (elifNode rec cb) accept_ElIfNode) = elifs.map (elifSem rec) := by
    congr 1; funext cb; exact elif_eq C rec cb
  simp only [elifListSem, hmap]
  simp only [handlerT, accept_ElIfListNode, iStmts, iStmt, thenSig_pure, bind_pure, bind_assoc]
  refine elifs_loop rec els _ (fun m L => ("child", .child m) :: L) ?_ elifs []
  intro m L
  ishape []
  apply bind_congr; intro x
  obtain ⟨o, b⟩ := x
  cases o <;> cases b <;> ishape [asBool]

theorem if_eq (C : Ctx) (rec : Oracle) (c : Expr) (thn : Block) (elifs : List (Expr × Block)) (els : Option Block) :
    execStep C rec (.ifS c thn elifs els) = handlerS C (ifNode C rec c thn elifs els) accept_IfNode := by
  ishape [accept_IfNode, ifNode, exprChild, blockChild]
  apply bind_congr; intro v
  apply bind_congr; intro t
  cases t
  · ishape []
    rw [← elifList_then C rec elifs els]
    apply bind_congr; intro x
    obtain ⟨o, b⟩ := x
    cases o <;> cases b <;> cases els <;> simp only [elseClause, else_eq] <;> ishape [afterElifs, elseSem, asBool] <;>
      first | rfl | (refine Eq.trans (bind_pure _).symm ?_; apply bind_congr; intro o; cases o <;> rfl)
  · ishape []
    refine Eq.trans (bind_pure _).symm ?_
    apply bind_congr; intro o
    cases o <;> rfl

/-! ### assignment, operators, `selected` -/

def assignNode (e : M Val) (l : M LVal) : Node :=
  { acceptE := exprChild "expression" e
    acceptL := fun f => if f = "variable_access" then some l else none }

theorem assignVar_eq (C : Ctx) (rec : Oracle) (x : String) (e : Expr) :
    execStep C rec (.assignVar x e) = handlerS C (assignNode (rec.eval e) (pure (.var x))) accept_AssignmentNode := by
  ishape [accept_AssignmentNode, assignNode, exprChild]

/-- `accept_FieldAccessNode` as an assignment target: the handle is evaluated, the attribute is written by `fset` -/
def fieldAccess (rec : Oracle) (h : Expr) (name : String) : M LVal := do
  let hv ← rec.eval h
  let i ← asInst hv
  pure (.field i name)

theorem assignField_eq (C : Ctx) (rec : Oracle) (h : Expr) (name : String) (e : Expr) :
    execStep C rec (.assignField h name e) =
      handlerS C (assignNode (rec.eval e) (fieldAccess rec h name)) accept_AssignmentNode := by
  ishape [accept_AssignmentNode, assignNode, exprChild, fieldAccess]

def binNode (op : BinOp) (l r : M Val) : Node :=
  { bop := op, acceptE := fun f => if f = "left" then some l else if f = "right" then some r else none }

theorem binary_eq (C : Ctx) (rec : Oracle) (op : BinOp) (l r : Expr) :
    evalStep C rec (.bin op l r) = handlerE C (binNode op (rec.eval l) (rec.eval r)) accept_BinaryOperationNode := by
  ishape [accept_BinaryOperationNode, binNode]

def unNode (op : UnOp) (e : M Val) : Node := { uop := op, acceptE := exprChild "operand" e }

theorem unary_eq (C : Ctx) (rec : Oracle) (op : UnOp) (e : Expr) :
    evalStep C rec (.un op e) = handlerE C (unNode op (rec.eval e)) accept_UnaryOperationNode := by
  ishape [accept_UnaryOperationNode, unNode, exprChild]

theorem selected_eq (C : Ctx) (rec : Oracle) : evalStep C rec .selected = handlerE C {} accept_SelectedAccessNode := by
  ishape [accept_SelectedAccessNode]

/-! ### select related by (+ where) -/

theorem querySt_ok {α : Type} (a : α) : querySt (fun _ => (.ok a : Except Err α)) = pure a := rfl

/-- two queries of the unchanged state are one query -/
theorem querySt_bind {α β γ : Type} (f : State → Except Err α) (g : α → State → Except Err β) (K : β → M γ) :
    (querySt f >>= fun a => querySt (g a) >>= K) =
      (querySt (fun st => match f st with | .error e => .error e | .ok a => g a st) >>= K) := by
  funext c
  simp only [bind_run, querySt]
  cases f c.st <;> rfl

/-- the loop `for step in self.accept(node.navigation_chain): chain = step(chain)` is the chain navigation of `Spec`, whatever
    follows it (a continuation that reads the locals `chain` and `where` only) -/
theorem steps_loop {α : Type} (C : Ctx) (body : NavStep → Locals → M (Locals × Sig))
    (hb : ∀ s L m l, L.get "chain" = .chain m l → ∃ g : List Inst → Locals,
      (∀ l', (g l').get "chain" = .chain m l' ∧ (g l').get "where" = L.get "where") ∧
      body s L = do let l' ← querySt (fun st => navStepList C st l s); pure (g l', .next)) :
    ∀ (steps : List NavStep) (L : Locals) (m : Bool) (l : List Inst), L.get "chain" = .chain m l →
    ∀ (K : Locals × Sig → M α) (K0 : List Inst → M α),
      (∀ L' l', L'.get "chain" = .chain m l' → L'.get "where" = L.get "where" → K (L', .next) = K0 l') →
      (iLoop body steps L >>= K) = (querySt (fun st => navChain C st l steps) >>= K0)
  | [], L, m, l, hL, K, K0, hK => by
    simp only [iLoop, pure_bind, navChain, querySt_ok]
    exact hK L l hL rfl
  | s :: rest, L, m, l, hL, K, K0, hK => by
    obtain ⟨g, hg, hbody⟩ := hb s L m l hL
    simp only [iLoop, hbody, bind_assoc, pure_bind, navChain]
    have ih := fun l' => steps_loop C body hb rest (g l') m l' (hg l').1 K K0
      (fun L' l'' h1 h2 => hK L' l'' h1 (h2.trans (hg l').2))
    simp only [ih]
    funext c
    simp only [bind_run, querySt]
    cases navStepList C c.st l s <;> rfl

def selRelNode (many : Bool) (v : String) (h : M Val) (chain : List NavStep) (wh : Option (M Val)) : Node :=
  { str := fun f => ([("variable_name", v)].lookup f).getD ""
    flag := fun f => f == "many" && many
    acceptE := fun f => if f = "handle" then some h else if f = "where_clause" then wh else none
    steps := fun f => if f = "navigation_chain" then chain else [] }

theorem get_cons_ne (L : Locals) (x y : String) (v : PV) (h : (x == y) = false) : Locals.get ((y, v) :: L) x = L.get x := by
  simp only [Locals.get, List.lookup, h]
theorem get_cons_eq (L : Locals) (x : String) (v : PV) : Locals.get ((x, v) :: L) x = v := by
  simp only [Locals.get, List.lookup, BEq.rfl, Option.getD_some]

/-- the body of the step loop, as the generic interpreter unfolds it -/
theorem stepBody_ok (C : Ctx) : ∀ (s : NavStep) (L : Locals) (m : Bool) (l : List Inst), L.get "chain" = .chain m l →
    ∃ g : List Inst → Locals,
      (∀ l', (g l').get "chain" = .chain m l' ∧ (g l').get "where" = L.get "where") ∧
      (callLocal C (("step", PV.step s) :: L) "step" ["chain"] >>= fun v =>
          pure (("chain", v) :: ("step", PV.step s) :: L, Sig.next)) =
        (querySt (fun st => navStepList C st l s) >>= fun l' => pure (g l', Sig.next)) := by
  intro s L m l hL
  refine ⟨fun l' => ("chain", .chain m l') :: ("step", .step s) :: L, fun l' => ⟨get_cons_eq _ _ _, ?_⟩, ?_⟩
  · rw [get_cons_ne _ _ _ _ (by decide), get_cons_ne _ _ _ _ (by decide)]
  · simp only [callLocal, get_cons_eq, get_cons_ne _ "chain" "step" _ (by decide), hL, bind_assoc, pure_bind]

theorem selectRelated_eq (C : Ctx) (rec : Oracle) (many : Bool) (v : String) (h : Expr) (chain : List NavStep) :
    execStep C rec (.selectRelated many v h chain none) =
      handlerS C (selRelNode many v (rec.eval h) chain none) accept_SelectRelatedNode := by
  simp only [handlerS, accept_SelectRelatedNode, iStmts, execStep]
  cases many <;>
  ishape [selRelNode, Bool.and_true, Bool.and_false] <;>
  (apply bind_congr; intro hv; apply bind_congr; intro start; symm) <;>
  (refine steps_loop C _ (stepBody_ok C) chain _ _ start (get_cons_eq _ _ _) _ _ ?_) <;>
  (intro L' l' h1 _; simp only [thenSig_next, callLocal, h1, bind_assoc, pure_bind, selRes_none rec]) <;>
  (apply bind_congr; intro r; ishape [])

theorem selectRelatedWhere_eq (C : Ctx) (rec : Oracle) (many : Bool) (v : String) (h : Expr) (chain : List NavStep) (wh : Expr) :
    execStep C rec (.selectRelated many v h chain (some wh)) =
      handlerS C (selRelNode many v (rec.eval h) chain (some (rec.eval wh))) accept_SelectRelatedWhereNode := by
  simp only [handlerS, accept_SelectRelatedWhereNode, iStmts, execStep]
  cases many <;>
  ishape [selRelNode, closureRun, Bool.and_true, Bool.and_false] <;>
  (apply bind_congr; intro hv; apply bind_congr; intro start; symm) <;>
  (refine steps_loop C _ (stepBody_ok C) chain _ _ start (get_cons_eq _ _ _) _ _ ?_) <;>
  (intro L' l' h1 h2
   rw [get_cons_ne _ _ _ _ (by decide), get_cons_ne _ _ _ _ (by decide), get_cons_eq] at h2
   simp only [thenSig_next, callLocal, closureOf, h1, h2, bind_assoc, pure_bind, selRes_some' rec]) <;>
  (apply bind_congr; intro r; ishape [])
/-! ### the symbol table: the generated `symtab` record, interpreted over the Python scope (blocks in ENTRY order) -/

/-- `scope_head`: the blocks in the order they were entered (Python list; `Spec`'s `Env` is this list reversed) -/
abbrev PScope := List (List (String × Val))

def searchList (o : SearchOrder) (sc : PScope) : PScope :=
  match o with
  | .firstToLast => sc
  | .lastToFirst => sc.reverse

/-- `for block in <order>: if name in block: return block[name]` -/
def pyFind (sh : SymtabShape) (sc : PScope) (x : String) : Option Val :=
  (searchList sh.findSearch sc).findSome? (fun b => b.lookup x)

/-- the first block of the list that holds `x` gets the new value in place (`block[name] = handle; return`) -/
def updFirst (x : String) (v : Val) : PScope → Option PScope
  | [] => none
  | b :: rest => if (b.lookup x).isSome then some (blockSet x v b :: rest) else (updFirst x v rest).map (b :: ·)

/-- `install_symbol`: search, overwrite in place on a hit; on a miss the name is created in the block at `installMissAt`
    (no block at all: Python raises IndexError; here the scope is returned unchanged, the theorems carry the guard) -/
def pyInstall (sh : SymtabShape) (sc : PScope) (x : String) (v : Val) : PScope :=
  let hit := match sh.installSearch, sh.installHit with
    | .firstToLast, .overwriteInPlace => updFirst x v sc
    | .lastToFirst, .overwriteInPlace => (updFirst x v sc.reverse).map List.reverse
  match hit with
  | some sc' => sc'
  | none => match sh.installMissAt with
    | .last => (match sc.reverse with | [] => [] | b :: rest => (((x, v) :: b) :: rest).reverse)
    | .first => (match sc with | [] => [] | b :: rest => ((x, v) :: b) :: rest)

def pyEnterBlock (sh : SymtabShape) (sc : PScope) : PScope :=
  match sh.enterBlockAt with | .last => sc ++ [[]] | .first => [] :: sc
def pyLeaveBlock (sh : SymtabShape) (sc : PScope) : PScope :=
  match sh.leaveBlockAt with | .last => sc.dropLast | .first => sc.tail
def pyNewScope (sh : SymtabShape) : PScope := if sh.scopeStartsWithOneBlock then [[]] else []

/-- `find_symbol` of a walker: self, the scope, then what the record says happens on a miss -/
def pyLookupVar (sh : SymtabShape) (C : Ctx) (x : String) : M Val := do
  let fr ← getFr
  if selfHit fr x then pure fr.self
  else
    match pyFind sh fr.env.reverse x with
    | some v => pure v
    | none =>
      match sh.findMiss with
      | .domainConstant =>
        match C.consts.lookup x with
        | some v => pure v
        | none => fail ("variable " ++ x ++ " is not set")

/-! the invariant: a name is held by at most one block of the scope, once -/

def EnvUnique (env : Env) : Prop := (envNames env).flatten.Nodup

theorem lookup_none_iff (b : List (String × Val)) (x : String) : b.lookup x = none ↔ x ∉ b.map Prod.fst := by
  induction b with
  | nil => simp
  | cons p rest ih =>
    by_cases h : x = p.1
    · subst h; simp [List.lookup]
    · have : (x == p.1) = false := by simpa using h
      simp [List.lookup, this, ih, h]

theorem envLookup_findSome (x : String) : ∀ env, envLookup env x = env.findSome? (fun b => b.lookup x)
  | [] => rfl
  | b :: rest => by
    unfold envLookup
    rw [List.findSome?_cons]
    cases h : b.lookup x with
    | some v => rfl
    | none => exact envLookup_findSome x rest

theorem envLookup_none_iff (x : String) (env : Env) : envLookup env x = none ↔ x ∉ (envNames env).flatten := by
  induction env with
  | nil => simp [envLookup, envNames]
  | cons b rest ih =>
    unfold envLookup
    cases h : b.lookup x with
    | some v =>
      have hx : x ∈ b.map Prod.fst :=
        Classical.byContradiction (fun hn => by rw [(lookup_none_iff b x).2 hn] at h; cases h)
      simp only [envNames, List.map_cons, List.flatten_cons, List.mem_append]
      constructor
      · intro h'; cases h'
      · intro h'; exact absurd (Or.inl hx) h'
    | none =>
      have hb := (lookup_none_iff b x).1 h
      simp only [envNames, List.map_cons, List.flatten_cons, List.mem_append, not_or] at *
      simp [ih, hb]

theorem envUnique_cons (b : List (String × Val)) (rest : Env) :
    EnvUnique (b :: rest) ↔ (b.map Prod.fst).Nodup ∧ EnvUnique rest ∧
      ∀ x, x ∈ b.map Prod.fst → x ∉ (envNames rest).flatten := by
  simp only [EnvUnique, envNames, List.map_cons, List.flatten_cons, List.nodup_append]
  constructor
  · rintro ⟨h1, h2, h3⟩; exact ⟨h1, h2, fun x hx hr => h3 x hx x hr rfl⟩
  · rintro ⟨h1, h2, h3⟩; exact ⟨h1, h2, fun x hx y hy hxy => h3 x hx (hxy ▸ hy)⟩

/-- under the invariant the search order does not matter -/
theorem findSome_reverse (x : String) : ∀ env : Env, EnvUnique env →
    env.findSome? (fun b => b.lookup x) = env.reverse.findSome? (fun b => b.lookup x)
  | [], _ => rfl
  | b :: rest, hu => by
    obtain ⟨_, hr, hd⟩ := (envUnique_cons b rest).1 hu
    have ih := findSome_reverse x rest hr
    rw [List.reverse_cons, List.findSome?_append, List.findSome?_cons, ← ih]
    cases h : b.lookup x with
    | some v =>
      have hx : x ∈ b.map Prod.fst := by
        apply Classical.byContradiction; intro hn; rw [(lookup_none_iff b x).2 hn] at h; cases h
      have := (envLookup_none_iff x rest).2 (hd x hx)
      rw [envLookup_findSome] at this
      simp [this, h]
    | none => simp [h]


theorem envLookup_eq (env : Env) (x : String) (hu : EnvUnique env) : envLookup env x = pyFind symtab env.reverse x := by
  rw [envLookup_findSome, findSome_reverse x env hu]
  rfl

theorem lookupVar_eq (C : Ctx) (x : String) (c : Cfg) (hu : EnvUnique c.fr.env) :
    lookupVar C x c = pyLookupVar symtab C x c := by
  unfold lookupVar pyLookupVar
  rw [bnd_ok (show getFr c = some (.ok (c.fr, c)) from rfl), bnd_ok (show getFr c = some (.ok (c.fr, c)) from rfl)]
  rw [envLookup_eq _ _ hu]
  rfl

/-! install -/

theorem updFirst_none (x : String) (v : Val) : ∀ sc : PScope, (∀ b ∈ sc, b.lookup x = none) → updFirst x v sc = none
  | [], _ => rfl
  | b :: rest, h => by
    have hb := h b (by simp)
    simp only [updFirst, hb, Option.isSome_none, Bool.false_eq_true, ↓reduceIte,
      updFirst_none x v rest (fun b' hb' => h b' (by simp [hb'])), Option.map_none]

theorem updFirst_append (x : String) (v : Val) (l2 : PScope) : ∀ l1 : PScope,
    updFirst x v (l1 ++ l2) = match updFirst x v l1 with
      | some l1' => some (l1' ++ l2)
      | none => (updFirst x v l2).map (l1 ++ ·)
  | [] => by simp [updFirst]
  | b :: rest => by
    simp only [List.cons_append, updFirst]
    by_cases h : (b.lookup x).isSome
    · simp [h]
    · simp only [h, Bool.false_eq_true, ↓reduceIte, updFirst_append x v l2 rest]
      cases updFirst x v rest <;> simp [Option.map]
      cases updFirst x v l2 <;> simp

theorem lookup_none_of_notMem (x : String) (env : Env) (h : x ∉ (envNames env).flatten) : ∀ b ∈ env, b.lookup x = none := by
  intro b hb
  apply (lookup_none_iff b x).2
  intro hx
  apply h
  simp only [envNames, List.mem_flatten, List.mem_map]
  exact ⟨_, ⟨b, hb, rfl⟩, hx⟩

/-- a hit: the block the OUTERMOST-first search of the source updates is the block `Spec` updates -/
theorem updFirst_hit (x : String) (v : Val) : ∀ env : Env, EnvUnique env → (envLookup env x).isSome →
    updFirst x v env.reverse = some (envUpdate x v env).reverse
  | [], _, h => by simp [envLookup] at h
  | b :: rest, hu, h => by
    obtain ⟨_, hr, hd⟩ := (envUnique_cons b rest).1 hu
    rw [List.reverse_cons, updFirst_append]
    unfold envUpdate
    cases hb : b.lookup x with
    | some w =>
      have hx : x ∈ b.map Prod.fst :=
        Classical.byContradiction (fun hn => by rw [(lookup_none_iff b x).2 hn] at hb; cases hb)
      have hnone := updFirst_none x v rest.reverse
        (fun b' hb' => lookup_none_of_notMem x rest (hd x hx) b' (List.mem_reverse.1 hb'))
      simp [hnone, updFirst, hb]
    | none =>
      have h' : (envLookup rest x).isSome := by
        unfold envLookup at h; rw [hb] at h; exact h
      simp [updFirst_hit x v rest hr h']

theorem envInstall_eq (env : Env) (x : String) (v : Val) (hu : EnvUnique env) (hne : env ≠ []) :
    (envInstall env x v).reverse = pyInstall symtab env.reverse x v := by
  unfold envInstall
  cases h : (envLookup env x).isSome with
  | true =>
    simp only [↓reduceIte, pyInstall, symtab, updFirst_hit x v env hu h]
  | false =>
    have hn : envLookup env x = none := by
      cases h' : envLookup env x with
      | none => rfl
      | some w => rw [h'] at h; cases h
    have hnone := updFirst_none x v env.reverse
      (fun b' hb' => lookup_none_of_notMem x env ((envLookup_none_iff x env).1 hn) b' (List.mem_reverse.1 hb'))
    cases env with
    | nil => exact absurd rfl hne
    | cons b rest =>
      simp only [Bool.false_eq_true, ↓reduceIte, pyInstall, symtab, hnone, List.reverse_reverse]

theorem blocks_eq (env : Env) :
    (([] : List (String × Val)) :: env).reverse = pyEnterBlock symtab env.reverse ∧
    env.tail.reverse = pyLeaveBlock symtab env.reverse ∧
    (mkFrame .function [] .none).env.reverse = pyNewScope symtab := by
  refine ⟨by simp [pyEnterBlock, symtab], ?_, rfl⟩
  cases env with
  | nil => rfl
  | cons b rest => simp [pyLeaveBlock, symtab]

/-! the invariant is kept by every step of `Spec` -/

def Ruq (c c' : Cfg) : Prop := EnvUnique c.fr.env → EnvUnique c'.fr.env

theorem envInstall_unique (env : Env) (x : String) (v : Val) (hu : EnvUnique env) : EnvUnique (envInstall env x v) := by
  unfold envInstall
  cases h : (envLookup env x).isSome with
  | true =>
    simp only [↓reduceIte]
    unfold EnvUnique
    rw [envUpdate_names]
    exact hu
  | false =>
    have hn : envLookup env x = none := by
      cases h' : envLookup env x with
      | none => rfl
      | some w => rw [h'] at h; cases h
    have hx := (envLookup_none_iff x env).1 hn
    simp only [Bool.false_eq_true, ↓reduceIte]
    cases env with
    | nil => simp [EnvUnique, envNames]
    | cons b rest =>
      simp only [EnvUnique, envNames, List.map_cons, List.flatten_cons, List.cons_append, List.nodup_cons] at *
      exact ⟨hx, hu⟩

theorem setEnv_inv {c c' : Cfg} {env : Env} {a : Unit} (h : setEnv env c = some (.ok (a, c'))) : c'.fr.env = env := by
  simp [setEnv] at h
  rw [← h]

theorem ruq_rel : EnvRel Ruq where
  po := ⟨fun _ h => h, fun _ _ _ h1 h2 h => h2 (h1 h)⟩
  ofRfr := fun h hu => by unfold Rfr at h; rw [h]; exact hu
  install := fun x v c a c' h hu => by
    unfold install at h
    obtain ⟨fr, c1, h1, h2⟩ := bind_ok_inv h
    simp [getFr] at h1
    obtain ⟨rfl, rfl⟩ := h1
    rw [setEnv_inv h2]
    exact envInstall_unique _ x v hu
  stateOnly := fun hm c a c' h hu => by rw [hm c a c' h]; exact hu
  setRet := fun v c a c' h hu => by
    simp [setRet] at h
    rw [← h]; exact hu
  push := fun c a c' h hu => by
    unfold pushBlock at h
    obtain ⟨fr, c1, h1, h2⟩ := bind_ok_inv h
    simp [getFr] at h1
    obtain ⟨rfl, rfl⟩ := h1
    rw [setEnv_inv h2]
    simpa [EnvUnique, envNames] using hu
  pop := fun c a c' h hu => by
    unfold popBlock at h
    obtain ⟨fr, c1, h1, h2⟩ := bind_ok_inv h
    simp [getFr] at h1
    obtain ⟨rfl, rfl⟩ := h1
    rw [setEnv_inv h2]
    cases he : c.fr.env with
    | nil => simp [EnvUnique, envNames]
    | cons b rest =>
      rw [he] at hu
      exact ((envUnique_cons b rest).1 hu).2.1

/-- every statement, with any amount of fuel, keeps the names of the scope unique; every body starts with them unique -/
theorem unique_run (C : Ctx) (n : Nat) (s : Interp.Stmt) (c : Cfg) (o : Out) (c' : Cfg)
    (h : (run C n).exec s c = some (.ok (o, c'))) (hu : EnvUnique c.fr.env) : EnvUnique c'.fr.env :=
  inv_run ruq_rel C n s c o c' h hu

theorem unique_body (C : Ctx) (n : Nat) (body : Block) (c : Cfg) (c' : Cfg)
    (h : runBody (run C n) body c = some (.ok ((), c'))) (hu : EnvUnique c.fr.env) : EnvUnique c'.fr.env := by
  unfold runBody at h
  obtain ⟨o, c1, h1, h2⟩ := bind_ok_inv h
  have h3 := inv_execBlock ruq_rel (r := run C n) (fun e => rfr_run C n e) (fun s => inv_run ruq_rel C n s) body c o c1 h1 hu
  cases o <;> first
    | (have : c' = c1 := by (have := neutral_pure () c1 () c' h2; exact this)
       rw [this]; exact h3)
    | (simp [M.fail] at h2)

theorem unique_start (kind : WalkerKind) (kw : List (String × Val)) (self : Val) : EnvUnique (mkFrame kind kw self).env := by
  simp [mkFrame, EnvUnique, envNames]

/-! ### literals, variable access, field access, navigation step -/

/-- a handler that returns a property object: the object -/
def sigP : Sig → M PV
  | .ret v => pure v
  | _ => fail "the handler did not return"

def handlerP (C : Ctx) (nd : Node) (body : List PyStmt) : M PV := do
  let r ← iStmts C nd body []
  sigP r.2

/-- `<property>.fget()` / `<property>.fset(v)` -/
def propGet : PV → M Val
  | .val x => pure x
  | .lazy g _ => g
  | _ => fail "fget of something that is not a property"
def propSet (v : Val) : PV → M Unit
  | .lazy _ st => st v
  | _ => fail "fset of something that has no setter"

theorem integer_eq (C : Ctx) (rec : Oracle) (v : String) (i : Int) (h : v.toInt? = some i) :
    evalStep C rec (.int i) = handlerE C (strNode [("value", v)]) accept_IntegerNode := by
  ishape [accept_IntegerNode, strNode, h]

theorem string_eq (C : Ctx) (rec : Oracle) (v : String) :
    evalStep C rec (.str (String.ofList ((v.toList.drop 1).dropLast))) =
      handlerE C (strNode [("value", v)]) accept_StringNode := by
  ishape [accept_StringNode, strNode]

theorem boolean_eq (C : Ctx) (rec : Oracle) (v : String) :
    evalStep C rec (.bool (asciiUpper v == "TRUE")) = handlerE C (strNode [("value", v)]) accept_BooleanNode := by
  ishape [accept_BooleanNode, strNode]

/-- accept_VariableAccessNode touches nothing: it returns a property whose getter is the lookup and whose setter the install -/
theorem variableAccess_eq (C : Ctx) (x : String) :
    handlerP C (strNode [("variable_name", x)]) accept_VariableAccessNode =
      pure (.lazy (lookupVar C x) (fun v => install x v)) := by
  simp only [handlerP, sigP]
  ishape [accept_VariableAccessNode, strNode, sigP]

theorem variableRead_eq (C : Ctx) (rec : Oracle) (x : String) :
    evalStep C rec (.var x) = (handlerP C (strNode [("variable_name", x)]) accept_VariableAccessNode >>= propGet) := by
  rw [variableAccess_eq]; rfl

theorem variableWrite_eq (C : Ctx) (rec : Oracle) (x : String) (e : Expr) :
    execStep C rec (.assignVar x e) = (do
      let v ← rec.eval e
      let p ← handlerP C (strNode [("variable_name", x)]) accept_VariableAccessNode
      propSet v p
      pure .normal) := by
  simp only [variableAccess_eq, pure_bind, propSet, execStep]

def fieldNode (C : Ctx) (rec : Oracle) (h : M Val) (name : String) : Node :=
  { str := fun f => ([("name", name)].lookup f).getD ""
    acceptE := exprChild "handle" h
    getAttr := readField C rec
    setAttr := writeField C }

/-- accept_FieldAccessNode evaluates the handle; reading / writing the attribute happens when fget / fset is called -/
theorem fieldAccess_eq (C : Ctx) (rec : Oracle) (h : M Val) (name : String) :
    handlerP C (fieldNode C rec h name) accept_FieldAccessNode = (do
      let hv ← h
      pure (.lazy (do let i ← asInst hv; readField C rec i name) (fun v => do let i ← asInst hv; writeField C i name v))) := by
  simp only [handlerP]
  ishape [accept_FieldAccessNode, fieldNode, exprChild, sigP]

theorem fieldRead_eq (C : Ctx) (rec : Oracle) (h : Expr) (name : String) :
    evalStep C rec (.field h name) = (handlerP C (fieldNode C rec (rec.eval h) name) accept_FieldAccessNode >>= propGet) := by
  simp only [fieldAccess_eq, bind_assoc, pure_bind, propGet, evalStep]

theorem fieldWrite_eq (C : Ctx) (rec : Oracle) (h : Expr) (name : String) (e : Expr) :
    execStep C rec (.assignField h name e) = (do
      let v ← rec.eval e
      let p ← handlerP C (fieldNode C rec (rec.eval h) name) accept_FieldAccessNode
      propSet v p
      pure .normal) := by
  simp only [fieldAccess_eq, bind_assoc, pure_bind, propSet, execStep]

theorem navigationStep_eq (C : Ctx) (kl rel ph : String) :
    handlerP C (strNode [("key_letter", kl), ("rel_id", rel), ("phrase", ph)]) accept_NavigationStepNode =
      pure (.step ⟨kl, rel, stripTicks ph⟩) := by
  simp only [handlerP]
  ishape [accept_NavigationStepNode, strNode, sigP]

/-! ### the wrapper `ActionWalker.accept` and `default_accept`

  `Spec`'s monad has one kind of failure ("left the domain", no configuration).  To say what the SOURCE does with an
  `xtuml.MetaException` (relate rejected, unknown link / class, second delete, …) the wrapper is interpreted over computations
  that say so explicitly: `WRes.raised` = a MetaException is propagating, the configuration is whatever the handler had done. -/

inductive WRes (α : Type) where
  | ret (a : α)       -- `return a`
  | raised            -- an xtuml.MetaException propagates
  | next              -- fell through (the function returns None)

mutual
  def iW {α : Type} (disp : M (WRes α)) : WStmt → M (WRes α)
    | .returnDispatch => disp
    | .logError => pure .next
    | .tryExcept body exc handler => do
      let r ← iWs disp body
      match r with
      | .raised => if exc = "xtuml.MetaException" then iWs disp handler else pure .raised
      | r => pure r
  def iWs {α : Type} (disp : M (WRes α)) : List WStmt → M (WRes α)
    | [] => pure .next
    | s :: rest => do
      let r ← iW disp s
      match r with
      | .next => iWs disp rest
      | r => pure r
end

/-- a handler that raises no MetaException -/
def inDomain {α : Type} (m : M α) : M (WRes α) := do
  let a ← m
  pure (.ret a)

/-- in the domain (no MetaException) the wrapper is transparent: `self.accept(child)` is the child's handler -/
theorem accept_inDomain {α : Type} (m : M α) : iWs (inDomain m) ActionWalker_accept = inDomain m := by
  simp only [ActionWalker_accept, iWs, iW, inDomain, bind_assoc, pure_bind, bind_pure]

/-- a MetaException is swallowed: the wrapper returns None in the configuration the handler left, and nothing propagates -/
theorem accept_meta {α : Type} (disp : M (WRes α)) (c c' : Cfg) (h : disp c = some (.ok (.raised, c'))) :
    iWs disp ActionWalker_accept c = some (.ok (.next, c')) := by
  simp only [ActionWalker_accept, iWs, iW, bind_assoc, pure_bind]
  rw [bnd_ok h]
  rfl

theorem accept_ret {α : Type} (disp : M (WRes α)) (c c' : Cfg) (a : α) (h : disp c = some (.ok (.ret a, c'))) :
    iWs disp ActionWalker_accept c = some (.ok (.ret a, c')) := by
  simp only [ActionWalker_accept, iWs, iW, bind_assoc, pure_bind]
  rw [bnd_ok h]
  rfl

/-- an unsupported node: only a log line; None, the configuration is untouched -/
theorem default_accept_eq {α : Type} (disp : M (WRes α)) : iWs disp ActionWalker_default_accept = pure .next := by
  simp only [ActionWalker_default_accept, iWs, iW, pure_bind]

/-- `self.accept(child)` for a statement child, through the wrapper: an outcome, or None after a swallowed MetaException -/
def wrappedChild (disp : M (WRes Out)) : M (Out × Bool) := do
  let r ← iWs disp ActionWalker_accept
  match r with
  | .ret o => pure (o, false)
  | .next => pure (.normal, false)
  | .raised => fail "unreachable: the wrapper catches MetaException"

/-- the statement list with the wrapper's behaviour spelled out: a child whose handler raised a MetaException counts as
    completed, the list GOES ON with the next child in the configuration the failed handler left -/
def swallowList : List (M (WRes Out)) → M Out
  | [] => pure .normal
  | d :: rest => do
    let r ← d
    match r with
    | .raised => swallowList rest
    | .next => swallowList rest
    | .ret .normal => swallowList rest
    | .ret o => pure o

theorem wrappedChild_eq (disp : M (WRes Out)) : wrappedChild disp = (do
    let r ← disp
    match r with
    | .ret o => pure (o, false)
    | _ => pure (.normal, false)) := by
  simp only [wrappedChild, ActionWalker_accept, iWs, iW, bind_assoc, pure_bind]
  apply bind_congr; intro r
  cases r <;> simp only [pure_bind, ↓reduceIte, iWs, iW] <;> rfl

theorem swallow_loop (body : M (Out × Bool) → Locals → M (Locals × Sig)) (g : M (Out × Bool) → Locals → Locals)
    (hb : ∀ m L, body m L = do let x ← m; pure (g m L, sigOfOut x.1)) : ∀ (ds : List (M (WRes Out))) (L : Locals),
    (do let r ← iLoop body (ds.map wrappedChild) L
        sigOut r.2) = swallowList ds
  | [], L => rfl
  | d :: rest, L => by
    have ih := swallow_loop body g hb rest
    simp only [List.map, iLoop, swallowList, bind_assoc, hb, wrappedChild_eq, pure_bind]
    apply bind_congr; intro r
    cases r with
    | ret o => cases o <;> simp only [sigOfOut, pure_bind] <;> first | exact ih _ | rfl
    | raised => simp only [sigOfOut, pure_bind]; exact ih _
    | next => simp only [sigOfOut, pure_bind]; exact ih _

theorem statementList_swallows (C : Ctx) (ds : List (M (WRes Out))) :
    handlerS C { children := ds.map wrappedChild } accept_StatementListNode = swallowList ds := by
  simp only [handlerS, accept_StatementListNode, iStmts, iStmt, thenSig_pure, bind_pure]
  refine swallow_loop _ (fun m L => ("child", .child m) :: L) ?_ ds []
  intro m L
  ishape []
  apply bind_congr; intro x
  cases x.1 <;> rfl

/-- in the domain the wrapped child is the child: the statement-list equation of `Spec` is about the source as it is -/
theorem wrappedChild_inDomain (rec : Oracle) (s : Interp.Stmt) : wrappedChild (inDomain (rec.exec s)) = stmtChild rec s := by
  rw [wrappedChild, accept_inDomain]
  simp only [inDomain, stmtChild, bind_assoc, pure_bind]

end Pyx.IShape
