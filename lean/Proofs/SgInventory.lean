import Proofs.SgShape

/-!
  C05 source tie, INVENTORY of the text generator's handlers: which `ActionTextGenWalker.accept_*` of the generated IR
  (Gen/SgShape.lean) the flat-population printer of PyxModel/Prebuild/Flat.lean models, which it does not, and where a
  modelled handler names a class on the other side of that boundary.  Everything here is a statement about the GENERATED
  constants (closed) or holds for every population / row / instance.
-/
set_option linter.unusedSimpArgs false
set_option linter.unusedVariables false
namespace Pyx.SgShape
open Pyx.Prebuild Pyx.Prebuild.Flat Pyx.Gen.SgShape

/-- the ooaofooa classes whose handler the model covers (a Row constructor of Flat.lean, the ACT_ACT, or S_BPARM: the
    parameter a V_PVL row names) in the order of the source -/
def modelledClasses : List String :=
  ["ACT_ACT", "ACT_BLK", "ACT_SMT", "ACT_RET", "ACT_BRK", "ACT_CON", "ACT_CTL", "ACT_CR", "ACT_CNV", "ACT_DEL", "ACT_REL",
   "ACT_RU", "ACT_UNR", "ACT_URU", "ACT_FIO", "ACT_FIW", "ACT_AI", "ACT_WHL", "ACT_IF", "ACT_EL", "ACT_E", "ACT_FOR",
   "V_VAL", "V_TVL", "V_ISR", "V_VAR", "V_IRF", "V_PVL", "V_SLR", "V_AVL", "V_LIN", "V_LRL", "V_LST", "V_LBO", "V_LEN",
   "V_BIN", "V_UNY", "V_SCV", "S_BPARM"]

/-- action homes: the model element an action belongs to; each handler walks `…[69x / 68x].ACT_ACT[698]` -/
def outsideHomes : List String :=
  ["S_BRG", "O_TFR", "S_SYNC", "O_DBATTR", "SM_ACT", "SPR_PO", "SPR_PS", "SPR_RO", "SPR_RS"]
/-- `select … related by`: the statement, its where clause, the chain links -/
def outsideSelectRelated : List String := ["ACT_SEL", "ACT_SRW", "ACT_LNK"]
/-- invocation statements (R603 subtypes) -/
def outsideInvocationStatements : List String := ["ACT_FNC", "ACT_BRG", "ACT_IOP", "ACT_SGN", "ACT_TFM"]
/-- value subtypes (R801) Flat.lean has no row for: member / array element / array length / event datum / the four
    invocation values -/
def outsideValues : List String := ["V_MVL", "V_AER", "V_ALV", "V_EDV", "V_FNV", "V_BRV", "V_TRV", "V_MSV"]
/-- actual parameter chains and what event data / messages name -/
def outsideParameters : List String := ["V_PAR", "V_EPR", "SM_EVTDI", "SPR_PEP", "SPR_REP", "O_TPARM", "S_SPARM", "C_PP"]
/-- the event subsystem: generate / create event statements and their targets -/
def outsideEvents : List String :=
  ["E_GPR", "E_ESS", "E_GES", "E_CES", "SM_EVT", "E_GSME", "E_GAR", "E_GEC", "E_CSME", "E_CEA", "E_CEC"]

/-- the classes with a handler in the source that the model does NOT cover, in the order of the source -/
def outsideClasses : List String :=
  ["S_BRG", "O_TFR", "S_SYNC", "O_DBATTR", "SM_ACT", "SPR_PO", "SPR_PS", "SPR_RO", "SPR_RS",
   "ACT_SEL", "ACT_SRW", "ACT_LNK", "ACT_FNC", "ACT_BRG", "ACT_IOP", "ACT_SGN", "ACT_TFM",
   "V_MVL", "V_AER", "V_ALV", "V_PAR", "V_EDV", "V_EPR", "SM_EVTDI", "V_FNV", "V_BRV", "V_TRV", "V_MSV",
   "SPR_PEP", "SPR_REP", "E_GPR", "E_ESS", "E_GES", "E_CES", "SM_EVT", "E_GSME", "E_GAR", "E_GEC", "E_CSME", "E_CEA",
   "E_CEC", "O_TPARM", "S_SPARM", "C_PP"]

def handlerName (c : String) : String := "accept_" ++ c

/-- the rows of Flat.lean the walker never visits (no handler; nothing navigates to them): the R814 subtypes -/
def unvisitedRowClasses : List String := ["V_INT", "V_INS", "V_TRN"]

/-! ### every hop a handler names -/

def navHops : Nav → List Hop
  | .one _ hops _ => hops
  | .any _ hops _ => hops
  | .many _ hops _ => hops
  | _ => []

def condHops : Cond → List Hop
  | .nav n => navHops n
  | .navNot n => navHops n
  | .navIsNone n => navHops n
  | .navIsNotNone n => navHops n
  | _ => []

def condsHops : List Cond → List Hop
  | [] => []
  | c :: rest => condHops c ++ condsHops rest

def keyHops : List (Nav × String) → List Hop
  | [] => []
  | k :: rest => navHops k.1 ++ keyHops rest

mutual
  /-- every `.<cls>[<rel>…]` written anywhere in a statement -/
  def stmHops : Stm → List Hop
    | .accept n => navHops n
    | .assign _ n => navHops n
    | .defFilter _ _ conj => condsHops conj
    | .defKey _ _ k => keyHops k
    | .ite c thn els => condHops c ++ stmsHops thn ++ stmsHops els
    | .whileLoc _ body => stmsHops body
    | .forSorted _ n _ body => navHops n ++ stmsHops body
    | _ => []
  def stmsHops : List Stm → List Hop
    | [] => []
    | s :: rest => stmHops s ++ stmsHops rest
end

/-- the places where a MODELLED handler names a class whose handler is OUTSIDE the model: (handler, hop) -/
def boundaryCrossings : List (String × Hop) :=
  (handlers.filter (fun h => modelledClasses.any (fun c => handlerName c == h.1))).flatMap
    (fun h => ((stmsHops h.2).filter (fun hop => outsideClasses.contains hop.cls)).map (fun hop => (h.1, hop)))

/-! ### lemmas: the crossings yield nothing, for every population and instance -/

theorem hopMany_foreign (q : FlatPop) (x : Inst) (c : String) (n : Nat)
    (hc : c = "S_SPARM" ∧ n = 832 ∨ c = "O_TPARM" ∧ n = 833 ∨ c = "C_PP" ∧ n = 843) :
    hopMany q x ⟨c, n, ""⟩ = [] := by
  rcases hc with ⟨rfl, rfl⟩ | ⟨rfl, rfl⟩ | ⟨rfl, rfl⟩ <;>
  · cases x with
    | none => rfl
    | act => rfl
    | elem cls r => simp [hopMany, elemHop, Hop.is]
    | sub r => cases r <;> simp [hopMany, subHop, Hop.is]
    | sup cls i => simp [hopMany, supHop, Hop.is]

theorem hopMany_msv (q : FlatPop) (x : Inst) : hopMany q x ⟨"V_MSV", 801, ""⟩ = [] := by
  cases x with
  | none => rfl
  | act => rfl
  | elem cls r => simp [hopMany, elemHop, Hop.is]
  | sub r => cases r <;> simp [hopMany, subHop, Hop.is]
  | sup cls i => simp [hopMany, supHop, Hop.is, subAs_msv]

/-! ### lemmas: the handlers reached through an oracle in the statement tie, on their own -/

theorem accept_ACT_E_eq (q : FlatPop) (f n a eb s : Nat) :
    handler (envN q f n) accept_ACT_E (.sub (.e a eb s)) = [Tok.kw .else_] ++ regenBlk q f eb := by
  sg_simp

theorem accept_ACT_EL_eq (q : FlatPop) (f n a blk v i : Nat) :
    handler (envN q f n) accept_ACT_EL (.sub (.el a blk v i)) = [Tok.kw .elif_] ++ regenVal q f v ++ regenBlk q f blk := by
  sg_simp

theorem accept_S_BPARM_eq (E : Env) (v : Nat) (name : String) :
    handler E accept_S_BPARM (.elem "S_BPARM" (.pvl v name)) = [Tok.ident name] := by
  sg_simp

end Pyx.SgShape
