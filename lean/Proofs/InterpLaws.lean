import PyxModel.Interp.Spec
import Proofs.InterpPres
import Proofs.InterpMono

/-!
  The rules of the action language as theorems about `Spec`.

  Fuel-free judgements: `Evals C e c r` / `Execs C s c r` / `BlockExecs C b c r` / `ItemsExecs …` hold when SOME
  amount of fuel delivers the result `r`; by fuel monotonicity the result is unique (`Evals.det`, …).
  The big-step rules of `if / elif / else`, `while` (break / continue caught at the nearest loop),
  `for each` (sequential composition over the snapshot), abrupt completion (`return`, `control stop`)
  are derived for these judgements, together with their inversions.
-/
set_option linter.unusedSectionVars false
namespace Pyx.Interp
open M

theorem bind_ok {α β : Type} {m : M α} {f : α → M β} {c c1 : Cfg} {a : α}
    (h : m c = some (.ok (a, c1))) : (m >>= f) c = f a c1 := by
  show M.bnd m f c = _
  unfold M.bnd; rw [h]

theorem bind_err {α β : Type} {m : M α} {f : α → M β} {c : Cfg} {e : Err}
    (h : m c = some (.error e)) : (m >>= f) c = some (.error e) := by
  show M.bnd m f c = _
  unfold M.bnd; rw [h]

theorem pure_run {α : Type} (a : α) (c : Cfg) : (pure a : M α) c = some (.ok (a, c)) := rfl

/-! ### fuel-free judgements -/

def Evals (C : Ctx) (e : Expr) (c : Cfg) (r : Except Err (Val × Cfg)) : Prop :=
  ∃ n, (run C n).eval e c = some r

def Execs (C : Ctx) (s : Stmt) (c : Cfg) (r : Except Err (Out × Cfg)) : Prop :=
  ∃ n, (run C n).exec s c = some r

/-- a computation written against the oracle, run with some amount of fuel -/
def Runs {α : Type} (C : Ctx) (F : Oracle → M α) (c : Cfg) (r : Except Err (α × Cfg)) : Prop :=
  ∃ n, F (run C n) c = some r

def BlockExecs (C : Ctx) (b : Block) := Runs C (fun rec => execBlock rec b)
def ListExecs (C : Ctx) (l : List Stmt) := Runs C (fun rec => execList rec l)
def ElifsExecs (C : Ctx) (l : List (Expr × Block)) (els : Option Block) := Runs C (fun rec => execElifs rec l els)
def ItemsExecs (C : Ctx) (v : String) (body : Block) (items : List Inst) := Runs C (fun rec => forItems rec v body items)

/-- monotone in the oracle -/
def MonoF {α : Type} (F : Oracle → M α) : Prop := ∀ r r', Oracle.le r r' → M.le (F r) (F r')

theorem Runs.lift {α : Type} {C : Ctx} {F : Oracle → M α} (hF : MonoF F) {c : Cfg} {r : Except Err (α × Cfg)}
    {n m : Nat} (h : F (run C n) c = some r) (hnm : n ≤ m) : F (run C m) c = some r :=
  hF _ _ (run_mono C hnm) c r h

theorem Runs.det {α : Type} {C : Ctx} {F : Oracle → M α} (hF : MonoF F) {c : Cfg} {r r' : Except Err (α × Cfg)}
    (h : Runs C F c r) (h' : Runs C F c r') : r = r' := by
  obtain ⟨n, hn⟩ := h
  obtain ⟨m, hm⟩ := h'
  have a := Runs.lift hF hn (Nat.le_max_left n m)
  have b := Runs.lift hF hm (Nat.le_max_right n m)
  rw [a] at b
  exact Option.some.inj b

theorem monoF_eval (e : Expr) : MonoF (fun rec => rec.eval e) := fun _ _ h => h.1 e
theorem monoF_exec (s : Stmt) : MonoF (fun rec => rec.exec s) := fun _ _ h => h.2 s
theorem monoF_block (b : Block) : MonoF (fun rec => execBlock rec b) := fun _ _ h => execBlock_le h b
theorem monoF_list (l : List Stmt) : MonoF (fun rec => execList rec l) := fun _ _ h => execList_le h l
theorem monoF_elifs (l : List (Expr × Block)) (els : Option Block) : MonoF (fun rec => execElifs rec l els) :=
  fun _ _ h => execElifs_le h l els
theorem monoF_items (v : String) (body : Block) (items : List Inst) : MonoF (fun rec => forItems rec v body items) :=
  fun _ _ h => forItems_le h v body items

/-- the result of an expression / a statement does not depend on the amount of fuel -/
theorem Evals.det {C : Ctx} {e : Expr} {c : Cfg} {r r' : Except Err (Val × Cfg)}
    (h : Evals C e c r) (h' : Evals C e c r') : r = r' := Runs.det (monoF_eval e) h h'

theorem Execs.det {C : Ctx} {s : Stmt} {c : Cfg} {r r' : Except Err (Out × Cfg)}
    (h : Execs C s c r) (h' : Execs C s c r') : r = r' := Runs.det (monoF_exec s) h h'

/-- a statement runs iff one level of the interpreter runs over some amount of fuel for its parts -/
theorem execs_iff_step {C : Ctx} {s : Stmt} {c : Cfg} {r : Except Err (Out × Cfg)} :
    Execs C s c r ↔ Runs C (fun rec => execStep C rec s) c r := by
  constructor
  · rintro ⟨n, hn⟩
    cases n with
    | zero => simp [run] at hn
    | succ n => exact ⟨n, hn⟩
  · rintro ⟨n, hn⟩; exact ⟨n + 1, hn⟩

theorem evals_iff_step {C : Ctx} {e : Expr} {c : Cfg} {r : Except Err (Val × Cfg)} :
    Evals C e c r ↔ Runs C (fun rec => evalStep C rec e) c r := by
  constructor
  · rintro ⟨n, hn⟩
    cases n with
    | zero => simp [run] at hn
    | succ n => exact ⟨n, hn⟩
  · rintro ⟨n, hn⟩; exact ⟨n + 1, hn⟩

/-! ### if / elif / else -/

theorem asBool_run (b : Bool) (c : Cfg) : asBool (.bool b) c = some (.ok (b, c)) := rfl

theorem ifS_true {C : Ctx} {c : Expr} {thn : Block} {elifs : List (Expr × Block)} {els : Option Block}
    {cfg c1 : Cfg} {r : Except Err (Out × Cfg)}
    (hc : Evals C c cfg (.ok (.bool true, c1))) :
    Execs C (.ifS c thn elifs els) cfg r ↔ BlockExecs C thn c1 r := by
  rw [execs_iff_step]
  constructor
  · rintro ⟨n, hn⟩
    obtain ⟨m, hm⟩ := hc
    have hm' := Runs.lift (monoF_eval c) hm (Nat.le_max_left m n)
    have hn' := Runs.lift (fun _ _ h => execStep_le h C _) hn (Nat.le_max_right m n)
    refine ⟨max m n, ?_⟩
    simp only [execStep] at hn'
    rw [bind_ok hm', bind_ok (asBool_run true c1)] at hn'
    simpa using hn'
  · rintro ⟨n, hn⟩
    obtain ⟨m, hm⟩ := hc
    have hm' := Runs.lift (monoF_eval c) hm (Nat.le_max_left m n)
    have hn' := Runs.lift (monoF_block thn) hn (Nat.le_max_right m n)
    refine ⟨max m n, ?_⟩
    simp only [execStep]
    rw [bind_ok hm', bind_ok (asBool_run true c1)]
    simpa using hn'

theorem ifS_false {C : Ctx} {c : Expr} {thn : Block} {elifs : List (Expr × Block)} {els : Option Block}
    {cfg c1 : Cfg} {r : Except Err (Out × Cfg)}
    (hc : Evals C c cfg (.ok (.bool false, c1))) :
    Execs C (.ifS c thn elifs els) cfg r ↔ ElifsExecs C elifs els c1 r := by
  rw [execs_iff_step]
  constructor
  · rintro ⟨n, hn⟩
    obtain ⟨m, hm⟩ := hc
    have hm' := Runs.lift (monoF_eval c) hm (Nat.le_max_left m n)
    have hn' := Runs.lift (fun _ _ h => execStep_le h C _) hn (Nat.le_max_right m n)
    refine ⟨max m n, ?_⟩
    simp only [execStep] at hn'
    rw [bind_ok hm', bind_ok (asBool_run false c1)] at hn'
    simpa using hn'
  · rintro ⟨n, hn⟩
    obtain ⟨m, hm⟩ := hc
    have hm' := Runs.lift (monoF_eval c) hm (Nat.le_max_left m n)
    have hn' := Runs.lift (monoF_elifs elifs els) hn (Nat.le_max_right m n)
    refine ⟨max m n, ?_⟩
    simp only [execStep]
    rw [bind_ok hm', bind_ok (asBool_run false c1)]
    simpa using hn'

/-- an elif chain is the nested if: `elif (c) B <rest> <else>` behaves as the statement
    `if (c) B <rest> <else> end if` -/
theorem elif_is_nested_if {C : Ctx} {c : Expr} {b : Block} {rest : List (Expr × Block)} {els : Option Block}
    {cfg : Cfg} {r : Except Err (Out × Cfg)} :
    ElifsExecs C ((c, b) :: rest) els cfg r ↔ Execs C (.ifS c b rest els) cfg r := by
  rw [execs_iff_step]
  constructor <;> rintro ⟨n, hn⟩ <;> refine ⟨n, ?_⟩
  · simpa only [execStep, execElifs] using hn
  · simpa only [execStep, execElifs] using hn

theorem elifs_nil_none {C : Ctx} {cfg : Cfg} : ElifsExecs C [] none cfg (.ok (.normal, cfg)) := ⟨0, rfl⟩

theorem elifs_nil_else {C : Ctx} {b : Block} {cfg : Cfg} {r : Except Err (Out × Cfg)} :
    ElifsExecs C [] (some b) cfg r ↔ BlockExecs C b cfg r := by
  constructor <;> rintro ⟨n, hn⟩ <;> exact ⟨n, by simpa only [execElifs] using hn⟩

/-! ### while -/

/-- what one round of `while c body` does after the condition held and the body ended with outcome `o` in `c2` -/
def whileAfter (C : Ctx) (c : Expr) (body : Block) (o : Out) (c2 : Cfg) (r : Except Err (Out × Cfg)) : Prop :=
  match o with
  | .normal => Execs C (.whileS c body) c2 r
  | .cont => Execs C (.whileS c body) c2 r
  | .brk => r = .ok (.normal, c2)
  | o => r = .ok (o, c2)

theorem while_false {C : Ctx} {c : Expr} {body : Block} {cfg c1 : Cfg}
    (hc : Evals C c cfg (.ok (.bool false, c1))) : Execs C (.whileS c body) cfg (.ok (.normal, c1)) := by
  rw [execs_iff_step]
  obtain ⟨m, hm⟩ := hc
  refine ⟨m, ?_⟩
  simp only [execStep]
  rw [bind_ok hm, bind_ok (asBool_run false c1)]
  rfl

/-- `while c B`: if `c` holds, run `B`; continue and normal completion go round again, break ends the loop
    normally, return / control stop end it abruptly -/
theorem while_true {C : Ctx} {c : Expr} {body : Block} {cfg c1 c2 : Cfg} {o : Out} {r : Except Err (Out × Cfg)}
    (hc : Evals C c cfg (.ok (.bool true, c1))) (hb : BlockExecs C body c1 (.ok (o, c2)))
    (hr : whileAfter C c body o c2 r) : Execs C (.whileS c body) cfg r := by
  rw [execs_iff_step]
  obtain ⟨m, hm⟩ := hc
  obtain ⟨k, hk⟩ := hb
  cases o with
  | normal =>
    obtain ⟨j, hj⟩ := hr
    have hm' := Runs.lift (monoF_eval c) hm (Nat.le_trans (Nat.le_max_left m k) (Nat.le_max_left _ j))
    have hk' := Runs.lift (monoF_block body) hk (Nat.le_trans (Nat.le_max_right m k) (Nat.le_max_left _ j))
    have hj' := Runs.lift (monoF_exec (.whileS c body)) hj (Nat.le_max_right (max m k) j)
    refine ⟨max (max m k) j, ?_⟩
    simp only [execStep]
    rw [bind_ok hm', bind_ok (asBool_run true c1)]
    simp only [↓reduceIte]
    rw [bind_ok hk']
    exact hj'
  | cont =>
    obtain ⟨j, hj⟩ := hr
    have hm' := Runs.lift (monoF_eval c) hm (Nat.le_trans (Nat.le_max_left m k) (Nat.le_max_left _ j))
    have hk' := Runs.lift (monoF_block body) hk (Nat.le_trans (Nat.le_max_right m k) (Nat.le_max_left _ j))
    have hj' := Runs.lift (monoF_exec (.whileS c body)) hj (Nat.le_max_right (max m k) j)
    refine ⟨max (max m k) j, ?_⟩
    simp only [execStep]
    rw [bind_ok hm', bind_ok (asBool_run true c1)]
    simp only [↓reduceIte]
    rw [bind_ok hk']
    exact hj'
  | brk =>
    have hr' : r = .ok (.normal, c2) := hr
    subst hr'
    have hm' := Runs.lift (monoF_eval c) hm (Nat.le_max_left m k)
    have hk' := Runs.lift (monoF_block body) hk (Nat.le_max_right m k)
    refine ⟨max m k, ?_⟩
    simp only [execStep]
    rw [bind_ok hm', bind_ok (asBool_run true c1)]
    simp only [↓reduceIte]
    rw [bind_ok hk']
    rfl
  | ret =>
    have hr' : r = .ok (.ret, c2) := hr
    subst hr'
    have hm' := Runs.lift (monoF_eval c) hm (Nat.le_max_left m k)
    have hk' := Runs.lift (monoF_block body) hk (Nat.le_max_right m k)
    refine ⟨max m k, ?_⟩
    simp only [execStep]
    rw [bind_ok hm', bind_ok (asBool_run true c1)]
    simp only [↓reduceIte]
    rw [bind_ok hk']
    rfl
  | stop =>
    have hr' : r = .ok (.stop, c2) := hr
    subst hr'
    have hm' := Runs.lift (monoF_eval c) hm (Nat.le_max_left m k)
    have hk' := Runs.lift (monoF_block body) hk (Nat.le_max_right m k)
    refine ⟨max m k, ?_⟩
    simp only [execStep]
    rw [bind_ok hm', bind_ok (asBool_run true c1)]
    simp only [↓reduceIte]
    rw [bind_ok hk']
    rfl
  | retBare =>
    have hr' : r = .ok (.retBare, c2) := hr
    subst hr'
    have hm' := Runs.lift (monoF_eval c) hm (Nat.le_max_left m k)
    have hk' := Runs.lift (monoF_block body) hk (Nat.le_max_right m k)
    refine ⟨max m k, ?_⟩
    simp only [execStep]
    rw [bind_ok hm', bind_ok (asBool_run true c1)]
    simp only [↓reduceIte]
    rw [bind_ok hk']
    rfl

theorem asBool_ok_inv {v : Val} {c c' : Cfg} {t : Bool} (h : asBool v c = some (.ok (t, c'))) :
    v = .bool t ∧ c' = c := by
  cases v <;> simp [asBool, fail] at h
  · have h' : M.ret' _ c = some (.ok (t, c')) := h
    simp [M.ret'] at h'
    exact ⟨by rw [h'.1], h'.2.symm⟩

/-- inversion: a successful run of `while c B` is one of the rules above -/
theorem while_inv {C : Ctx} {c : Expr} {body : Block} {cfg c' : Cfg} {o' : Out}
    (h : Execs C (.whileS c body) cfg (.ok (o', c'))) :
    (Evals C c cfg (.ok (.bool false, c')) ∧ o' = .normal) ∨
    (∃ c1 c2 o, Evals C c cfg (.ok (.bool true, c1)) ∧ BlockExecs C body c1 (.ok (o, c2)) ∧
      whileAfter C c body o c2 (.ok (o', c'))) := by
  rw [execs_iff_step] at h
  obtain ⟨n, hn⟩ := h
  simp only [execStep] at hn
  obtain ⟨v, c1, h1, hn2⟩ := bind_ok_inv hn
  obtain ⟨t, c1', h2, hn3⟩ := bind_ok_inv hn2
  have hv := asBool_ok_inv h2
  obtain ⟨hv1, hv2⟩ := hv
  subst hv1
  subst hv2
  cases t with
  | false =>
    left
    have : M.ret' Out.normal c1' = some (.ok (o', c')) := hn3
    simp [M.ret'] at this
    obtain ⟨rfl, rfl⟩ := this
    exact ⟨⟨n, h1⟩, rfl⟩
  | true =>
    right
    rw [if_pos rfl] at hn3
    obtain ⟨o, c2, h3, hn4⟩ := bind_ok_inv hn3
    refine ⟨c1', c2, o, ⟨n, h1⟩, ⟨n, h3⟩, ?_⟩
    cases o with
    | normal => exact ⟨n, hn4⟩
    | cont => exact ⟨n, hn4⟩
    | brk =>
      have : M.ret' Out.normal c2 = some (.ok (o', c')) := hn4
      simp [M.ret'] at this
      obtain ⟨rfl, rfl⟩ := this; rfl
    | ret =>
      have : M.ret' Out.ret c2 = some (.ok (o', c')) := hn4
      simp [M.ret'] at this
      obtain ⟨rfl, rfl⟩ := this; rfl
    | stop =>
      have : M.ret' Out.stop c2 = some (.ok (o', c')) := hn4
      simp [M.ret'] at this
      obtain ⟨rfl, rfl⟩ := this; rfl
    | retBare =>
      have : M.ret' Out.retBare c2 = some (.ok (o', c')) := hn4
      simp [M.ret'] at this
      obtain ⟨rfl, rfl⟩ := this; rfl

/-! ### for each: sequential composition of the body over the snapshot -/

def itemsAfter (C : Ctx) (v : String) (body : Block) (rest : List Inst) (o : Out) (c2 : Cfg)
    (r : Except Err (Out × Cfg)) : Prop :=
  match o with
  | .normal => ItemsExecs C v body rest c2 r
  | .cont => ItemsExecs C v body rest c2 r
  | .brk => r = .ok (.normal, c2)
  | o => r = .ok (o, c2)

theorem items_nil {C : Ctx} {v : String} {body : Block} {cfg : Cfg} :
    ItemsExecs C v body [] cfg (.ok (.normal, cfg)) := ⟨0, rfl⟩

theorem install_run (x : String) (v : Val) (c : Cfg) :
    install x v c = some (.ok ((), { c with fr := { c.fr with env := envInstall c.fr.env x v } })) := rfl

/-- one element: bind the loop variable (in the block that holds the loop), run the body in a fresh block, go on
    with the remaining elements of the snapshot — which is a fixed list: nothing the body does changes it -/
theorem items_cons {C : Ctx} {v : String} {body : Block} {i : Inst} {rest : List Inst} {cfg c2 : Cfg} {o : Out}
    {r : Except Err (Out × Cfg)}
    (hb : BlockExecs C body { cfg with fr := { cfg.fr with env := envInstall cfg.fr.env v (.inst i) } } (.ok (o, c2)))
    (hr : itemsAfter C v body rest o c2 r) : ItemsExecs C v body (i :: rest) cfg r := by
  obtain ⟨k, hk⟩ := hb
  cases o with
  | normal =>
    obtain ⟨j, hj⟩ := hr
    have hk' := Runs.lift (monoF_block body) hk (Nat.le_max_left k j)
    have hj' := Runs.lift (monoF_items v body rest) hj (Nat.le_max_right k j)
    refine ⟨max k j, ?_⟩
    simp only [forItems]
    rw [bind_ok (install_run v (.inst i) cfg), bind_ok hk']
    exact hj'
  | cont =>
    obtain ⟨j, hj⟩ := hr
    have hk' := Runs.lift (monoF_block body) hk (Nat.le_max_left k j)
    have hj' := Runs.lift (monoF_items v body rest) hj (Nat.le_max_right k j)
    refine ⟨max k j, ?_⟩
    simp only [forItems]
    rw [bind_ok (install_run v (.inst i) cfg), bind_ok hk']
    exact hj'
  | brk =>
    have hr' : r = .ok (.normal, c2) := hr
    subst hr'
    refine ⟨k, ?_⟩
    simp only [forItems]
    rw [bind_ok (install_run v (.inst i) cfg), bind_ok hk]
    rfl
  | ret =>
    have hr' : r = .ok (.ret, c2) := hr
    subst hr'
    refine ⟨k, ?_⟩
    simp only [forItems]
    rw [bind_ok (install_run v (.inst i) cfg), bind_ok hk]
    rfl
  | stop =>
    have hr' : r = .ok (.stop, c2) := hr
    subst hr'
    refine ⟨k, ?_⟩
    simp only [forItems]
    rw [bind_ok (install_run v (.inst i) cfg), bind_ok hk]
    rfl
  | retBare =>
    have hr' : r = .ok (.retBare, c2) := hr
    subst hr'
    refine ⟨k, ?_⟩
    simp only [forItems]
    rw [bind_ok (install_run v (.inst i) cfg), bind_ok hk]
    rfl

theorem lookupVar_env {C : Ctx} {x : String} {c : Cfg} {v : Val} (hself : selfHit c.fr x = false)
    (h : envLookup c.fr.env x = some v) : lookupVar C x c = some (.ok (v, c)) := by
  unfold lookupVar
  rw [bind_ok (show getFr c = some (.ok (c.fr, c)) from rfl), hself]
  simp only [Bool.false_eq_true, if_false, h]
  rfl

/-- in an operation or a derived attribute the NAME self (any letter case) denotes the receiving instance -/
theorem lookupVar_self {C : Ctx} {x : String} {c : Cfg} (hself : selfHit c.fr x = true) :
    lookupVar C x c = some (.ok (c.fr.self, c)) := by
  unfold lookupVar
  rw [bind_ok (show getFr c = some (.ok (c.fr, c)) from rfl), hself]
  rfl

/-- `for each v in s`: the set variable is read ONCE; the loop runs over that list -/
theorem foreach_is_items {C : Ctx} {v setv : String} {body : Block} {items : List Inst} {cfg : Cfg}
    {r : Except Err (Out × Cfg)} (hself : selfHit cfg.fr setv = false)
    (hs : envLookup cfg.fr.env setv = some (.set items)) :
    Execs C (.forEach v setv body) cfg r ↔ ItemsExecs C v body items cfg r := by
  rw [execs_iff_step]
  constructor <;> rintro ⟨n, hn⟩ <;> refine ⟨n, ?_⟩
  · simp only [execStep] at hn
    rw [bind_ok (lookupVar_env hself hs)] at hn
    exact hn
  · simp only [execStep]
    rw [bind_ok (lookupVar_env hself hs)]
    exact hn

/-! ### statement lists and blocks: abrupt completion -/

theorem list_nil {C : Ctx} {cfg : Cfg} : ListExecs C [] cfg (.ok (.normal, cfg)) := ⟨0, rfl⟩

/-- sequential composition -/
theorem list_cons_normal {C : Ctx} {s : Stmt} {rest : List Stmt} {cfg c1 : Cfg} {r : Except Err (Out × Cfg)}
    (hs : Execs C s cfg (.ok (.normal, c1))) (hr : ListExecs C rest c1 r) : ListExecs C (s :: rest) cfg r := by
  obtain ⟨m, hm⟩ := hs
  obtain ⟨k, hk⟩ := hr
  have hm' := Runs.lift (monoF_exec s) hm (Nat.le_max_left m k)
  have hk' := Runs.lift (monoF_list rest) hk (Nat.le_max_right m k)
  refine ⟨max m k, ?_⟩
  simp only [execList]
  rw [bind_ok hm']
  exact hk'

/-- break, continue, return and control stop end the list at once: the statements after them do not run -/
theorem list_cons_abrupt {C : Ctx} {s : Stmt} {rest : List Stmt} {cfg c1 : Cfg} {o : Out}
    (hs : Execs C s cfg (.ok (o, c1))) (ho : o ≠ .normal) : ListExecs C (s :: rest) cfg (.ok (o, c1)) := by
  obtain ⟨m, hm⟩ := hs
  refine ⟨m, ?_⟩
  simp only [execList]
  rw [bind_ok hm]
  cases o <;> first | exact absurd rfl ho | rfl

theorem pushBlock_run (c : Cfg) :
    pushBlock c = some (.ok ((), { c with fr := { c.fr with env := [] :: c.fr.env } })) := rfl

theorem popBlock_run (c : Cfg) :
    popBlock c = some (.ok ((), { c with fr := { c.fr with env := c.fr.env.tail } })) := rfl

/-- a block is its statement list between `enter_block` and `leave_block`; its outcome is the list's -/
theorem block_iff {C : Ctx} {b : Block} {cfg c' : Cfg} {o : Out} :
    BlockExecs C b cfg (.ok (o, c')) ↔
      ∃ c2, ListExecs C b { cfg with fr := { cfg.fr with env := [] :: cfg.fr.env } } (.ok (o, c2)) ∧
            c' = { c2 with fr := { c2.fr with env := c2.fr.env.tail } } := by
  constructor
  · rintro ⟨n, hn⟩
    simp only [execBlock] at hn
    rw [bind_ok (pushBlock_run cfg)] at hn
    obtain ⟨o2, c2, h2, hn⟩ := bind_ok_inv hn
    rw [bind_ok (popBlock_run c2)] at hn
    have : M.ret' o2 _ = some (.ok (o, c')) := hn
    simp [M.ret'] at this
    obtain ⟨rfl, rfl⟩ := this
    exact ⟨c2, ⟨n, h2⟩, rfl⟩
  · rintro ⟨c2, ⟨n, hn⟩, rfl⟩
    refine ⟨n, ?_⟩
    simp only [execBlock]
    rw [bind_ok (pushBlock_run cfg), bind_ok hn, bind_ok (popBlock_run c2)]
    rfl

/-! ### the simple statements -/

theorem exec_break {C : Ctx} {cfg : Cfg} : Execs C .brk cfg (.ok (.brk, cfg)) := ⟨1, rfl⟩
theorem exec_continue {C : Ctx} {cfg : Cfg} : Execs C .cont cfg (.ok (.cont, cfg)) := ⟨1, rfl⟩
theorem exec_stop {C : Ctx} {cfg : Cfg} : Execs C .stop cfg (.ok (.stop, cfg)) := ⟨1, rfl⟩
theorem exec_return_bare {C : Ctx} {cfg : Cfg} : Execs C (.ret none) cfg (.ok (.retBare, cfg)) := ⟨1, rfl⟩

theorem exec_return_value {C : Ctx} {e : Expr} {cfg c1 : Cfg} {v : Val}
    (he : Evals C e cfg (.ok (v, c1))) :
    Execs C (.ret (some e)) cfg (.ok (.ret, { c1 with fr := { c1.fr with ret := v } })) := by
  rw [execs_iff_step]
  obtain ⟨m, hm⟩ := he
  refine ⟨m, ?_⟩
  simp only [execStep]
  rw [bind_ok hm]
  rfl

theorem exec_assign {C : Ctx} {x : String} {e : Expr} {cfg c1 : Cfg} {v : Val}
    (he : Evals C e cfg (.ok (v, c1))) :
    Execs C (.assignVar x e) cfg (.ok (.normal, { c1 with fr := { c1.fr with env := envInstall c1.fr.env x v } })) := by
  rw [execs_iff_step]
  obtain ⟨m, hm⟩ := he
  refine ⟨m, ?_⟩
  simp only [execStep]
  rw [bind_ok hm]
  rfl

/-! ### the symbol table -/

theorem lookup_cons (y k : String) (w : Val) (rest : List (String × Val)) :
    List.lookup y ((k, w) :: rest) = if y = k then some w else List.lookup y rest := by
  by_cases h : y = k
  · subst h; simp [List.lookup]
  · have : (y == k) = false := by simp [h]
    simp [List.lookup, this, h]

theorem lookup_blockSet_self (x : String) (v : Val) : ∀ b : List (String × Val), (b.lookup x).isSome →
    (blockSet x v b).lookup x = some v
  | [], h => by simp [List.lookup] at h
  | (k, w) :: rest, h => by
    unfold blockSet
    by_cases hp : k = x
    · rw [if_pos hp, lookup_cons, if_pos rfl]
    · rw [if_neg hp, lookup_cons, if_neg (fun h => hp h.symm)]
      rw [lookup_cons, if_neg (fun h => hp h.symm)] at h
      exact lookup_blockSet_self x v rest h

theorem lookup_blockSet_other (x y : String) (v : Val) (hxy : y ≠ x) : ∀ b : List (String × Val),
    (blockSet x v b).lookup y = b.lookup y
  | [] => rfl
  | (k, w) :: rest => by
    unfold blockSet
    by_cases hp : k = x
    · rw [if_pos hp, lookup_cons, lookup_cons, if_neg hxy, if_neg (by rw [hp]; exact hxy)]
    · rw [if_neg hp, lookup_cons, lookup_cons, lookup_blockSet_other x y v hxy rest]

theorem envLookup_cons (b : List (String × Val)) (rest : Env) (x : String) :
    envLookup (b :: rest) x = match b.lookup x with | some v => some v | none => envLookup rest x := rfl

theorem envLookup_update_self (x : String) (v : Val) : ∀ env : Env, (envLookup env x).isSome →
    envLookup (envUpdate x v env) x = some v
  | [], h => by simp [envLookup] at h
  | b :: rest, h => by
    unfold envUpdate
    by_cases hb : (b.lookup x).isSome
    · rw [if_pos hb, envLookup_cons, lookup_blockSet_self x v b hb]
    · rw [if_neg hb, envLookup_cons]
      have hnone : b.lookup x = none := by
        cases hl : b.lookup x with
        | none => rfl
        | some w => rw [hl] at hb; simp at hb
      rw [envLookup_cons, hnone] at h
      rw [hnone]
      exact envLookup_update_self x v rest h

theorem envLookup_update_other (x y : String) (v : Val) (hxy : y ≠ x) : ∀ env : Env,
    envLookup (envUpdate x v env) y = envLookup env y
  | [] => rfl
  | b :: rest => by
    unfold envUpdate
    by_cases hb : (b.lookup x).isSome
    · rw [if_pos hb, envLookup_cons, envLookup_cons, lookup_blockSet_other x y v hxy b]
    · rw [if_neg hb, envLookup_cons, envLookup_cons, envLookup_update_other x y v hxy rest]

/-- after an assignment the variable reads as the assigned value -/
theorem envLookup_install_self (env : Env) (x : String) (v : Val) : envLookup (envInstall env x v) x = some v := by
  unfold envInstall
  by_cases h : (envLookup env x).isSome
  · rw [if_pos h]; exact envLookup_update_self x v env h
  · rw [if_neg h]
    cases env with
    | nil => rw [envLookup_cons, lookup_cons, if_pos rfl]
    | cons b rest => rw [envLookup_cons, lookup_cons, if_pos rfl]

/-- ... and every other variable is untouched -/
theorem envLookup_install_other (env : Env) (x y : String) (v : Val) (hxy : y ≠ x) :
    envLookup (envInstall env x v) y = envLookup env y := by
  unfold envInstall
  by_cases h : (envLookup env x).isSome
  · rw [if_pos h]; exact envLookup_update_other x y v hxy env
  · rw [if_neg h]
    cases env with
    | nil => rw [envLookup_cons, lookup_cons, if_neg hxy]; rfl
    | cons b rest => rw [envLookup_cons, lookup_cons, if_neg hxy, envLookup_cons]

end Pyx.Interp
