import PyxModel.Query
import Proofs.OSet

/-! helper lemmas for C09 -/
namespace Pyx.Query
open Pyx.Meta Pyx.OSet

/-! ### filters -/

def isFilter : QOp → Bool
  | .whereEq _ => true
  | .pred _ => true
  | .orderBy _ _ => false

def opHolds (val : Valuation) (x : Inst) : QOp → Bool
  | .whereEq pairs => pairs.all (fun p => val x p.1 == p.2)
  | .pred p => evalPred val x p
  | .orderBy _ _ => true

theorem applyOp_filter (val : Valuation) (l : List Inst) (op : QOp) (h : isFilter op = true) :
    applyOp val l op = l.filter (fun x => opHolds val x op) := by
  cases op with
  | whereEq ps => rfl
  | pred p => rfl
  | orderBy a r => simp [isFilter] at h

theorem filter_true' {α : Type} (l : List α) : l.filter (fun _ => true) = l :=
  List.filter_eq_self.mpr (fun _ _ => rfl)

theorem applyOps_filters (val : Valuation) : ∀ (ops : List QOp) (l : List Inst), (∀ op ∈ ops, isFilter op = true) →
    applyOps val l ops = l.filter (fun x => ops.all (opHolds val x))
  | [], l, _ => by simp [applyOps, filter_true']
  | op :: ops, l, h => by
    have h1 := applyOp_filter val l op (h op (by simp))
    have ih := applyOps_filters val ops (applyOp val l op) (fun o ho => h o (by simp [ho]))
    unfold applyOps at ih ⊢
    simp only [List.foldl_cons]
    rw [ih, h1, List.filter_filter]
    apply List.filter_congr
    intro x _
    simp [Bool.and_comm]

theorem dedupFirst_of_nodup : ∀ {l : List Nat}, l.Nodup → dedupFirst l = l
  | [], _ => rfl
  | a :: l, h => by
    have ha : a ∉ l := (List.nodup_cons.mp h).1
    have ih := dedupFirst_of_nodup (List.nodup_cons.mp h).2
    show a :: (OSet.dedupFirst l).filter (fun y => y != a) = a :: l
    have ih' : OSet.dedupFirst l = l := ih
    rw [ih']
    congr 1
    apply List.filter_eq_self.mpr
    intro x hx
    simp only [bne_iff_ne, ne_eq]
    intro hxa; subst hxa; exact ha hx

theorem head_dedupFirst : ∀ (l : List Nat), (dedupFirst l).head? = l.head?
  | [] => rfl
  | _ :: _ => rfl

/-! ### stable sorting -/

/-- no later element is strictly smaller than an earlier one -/
def Sorted {α : Type} (lt : α → α → Bool) (l : List α) : Prop := l.Pairwise (fun a b => lt b a = false)

structure StrictOrder {α : Type} (lt : α → α → Bool) : Prop where
  asymm : ∀ a b, lt a b = true → lt b a = false
  trans : ∀ a b c, lt a b = true → lt b c = true → lt a c = true

theorem mem_insertBefore {α : Type} (lt : α → α → Bool) (x : α) : ∀ (l : List α) (z : α),
    z ∈ insertBefore lt x l ↔ z = x ∨ z ∈ l
  | [], z => by simp [insertBefore]
  | y :: ys, z => by
    unfold insertBefore
    split
    · simp
    · simp only [List.mem_cons, mem_insertBefore lt x ys z]
      constructor
      · rintro (h | h | h)
        · exact Or.inr (Or.inl h)
        · exact Or.inl h
        · exact Or.inr (Or.inr h)
      · rintro (h | h | h)
        · exact Or.inr (Or.inl h)
        · exact Or.inl h
        · exact Or.inr (Or.inr h)

theorem insertBefore_perm {α : Type} (lt : α → α → Bool) (x : α) : ∀ (l : List α), (insertBefore lt x l).Perm (x :: l)
  | [] => List.Perm.refl _
  | y :: ys => by
    unfold insertBefore
    split
    · exact List.Perm.refl _
    · exact ((insertBefore_perm lt x ys).cons y).trans (List.Perm.swap x y ys)

theorem insertBefore_sorted {α : Type} {lt : α → α → Bool} (so : StrictOrder lt) (x : α) : ∀ (l : List α),
    Sorted lt l → Sorted lt (insertBefore lt x l)
  | [], _ => by simp [insertBefore, Sorted]
  | y :: ys, h => by
    have hy : ∀ z ∈ ys, lt z y = false := (List.pairwise_cons.mp h).1
    have hys : Sorted lt ys := (List.pairwise_cons.mp h).2
    unfold insertBefore
    split
    · rename_i hxy
      refine List.pairwise_cons.mpr ⟨?_, h⟩
      intro z hz
      rcases List.mem_cons.mp hz with rfl | hz
      · exact so.asymm _ _ hxy
      · cases hzx : lt z x with
        | false => rfl
        | true =>
          have := so.trans _ _ _ hzx hxy
          rw [hy z hz] at this; cases this
    · rename_i hxy
      refine List.pairwise_cons.mpr ⟨?_, insertBefore_sorted so x ys hys⟩
      intro z hz
      rcases (mem_insertBefore lt x ys z).1 hz with rfl | hz
      · simpa using hxy
      · exact hy z hz

theorem sortStable_perm_sorted {α : Type} {lt : α → α → Bool} (so : StrictOrder lt) : ∀ (l acc : List α),
    Sorted lt acc →
    (l.foldl (fun acc x => insertBefore lt x acc) acc).Perm (acc ++ l) ∧
    Sorted lt (l.foldl (fun acc x => insertBefore lt x acc) acc)
  | [], acc, h => by simp [h]
  | x :: xs, acc, h => by
    have ih := sortStable_perm_sorted so xs (insertBefore lt x acc) (insertBefore_sorted so x acc h)
    refine ⟨?_, ih.2⟩
    simp only [List.foldl_cons]
    refine ih.1.trans ?_
    have h1 : (insertBefore lt x acc ++ xs).Perm ((x :: acc) ++ xs) := (insertBefore_perm lt x acc).append_right xs
    refine h1.trans ?_
    simp only [List.cons_append]
    exact (List.perm_middle (l₁ := acc) (l₂ := xs) (a := x)).symm

/-- stability, for an order that compares keys: the elements of any one key keep their order -/
theorem insertBefore_filter_key {α κ : Type} [DecidableEq κ] (key : α → κ) (ltK : κ → κ → Bool)
    (irrefl : ∀ k, ltK k k = false) (k : κ) (x : α) : ∀ (l : List α),
    Sorted (fun a b => ltK (key a) (key b)) l →
    (insertBefore (fun a b => ltK (key a) (key b)) x l).filter (fun a => decide (key a = k)) =
      l.filter (fun a => decide (key a = k)) ++ (if key x = k then [x] else [])
  | [], _ => by
    by_cases hx : key x = k <;> simp [insertBefore, hx]
  | y :: ys, h => by
    have hy : ∀ z ∈ ys, ltK (key z) (key y) = false := (List.pairwise_cons.mp h).1
    have hys := (List.pairwise_cons.mp h).2
    unfold insertBefore
    split
    · rename_i hxy
      by_cases hx : key x = k
      · -- no element of `y :: ys` has key `k`
        have hnone : ∀ z ∈ y :: ys, key z ≠ k := by
          intro z hz hzk
          rcases List.mem_cons.mp hz with rfl | hz
          · rw [hx, hzk, irrefl] at hxy; cases hxy
          · have := hy z hz
            rw [hzk, ← hx, hxy] at this; cases this
        have hfil : (y :: ys).filter (fun a => decide (key a = k)) = [] := by
          apply List.filter_eq_nil_iff.mpr
          intro z hz; simpa using hnone z hz
        rw [List.filter_cons]
        simp only [hx, decide_true, ↓reduceIte, hfil, List.nil_append]
      · rw [List.filter_cons]
        simp [hx]
    · rw [List.filter_cons, List.filter_cons, insertBefore_filter_key key ltK irrefl k x ys hys]
      by_cases hyk : key y = k <;> simp [hyk]

theorem sortStable_filter_key {α κ : Type} [DecidableEq κ] (key : α → κ) (ltK : κ → κ → Bool)
    (so : StrictOrder (fun a b : α => ltK (key a) (key b))) (irrefl : ∀ k, ltK k k = false) (k : κ) :
    ∀ (l acc : List α), Sorted (fun a b => ltK (key a) (key b)) acc →
    (l.foldl (fun acc x => insertBefore (fun a b => ltK (key a) (key b)) x acc) acc).filter (fun a => decide (key a = k)) =
      acc.filter (fun a => decide (key a = k)) ++ l.filter (fun a => decide (key a = k))
  | [], acc, _ => by simp
  | x :: xs, acc, h => by
    simp only [List.foldl_cons]
    rw [sortStable_filter_key key ltK so irrefl k xs _ (insertBefore_sorted so x acc h),
      insertBefore_filter_key key ltK irrefl k x acc h, List.filter_cons]
    by_cases hx : key x = k <;> simp [hx]

/-! ### the lexicographic key order is a strict order -/

theorem keyLt_irrefl : ∀ (k : List Int), keyLt k k = false
  | [] => rfl
  | a :: as => by simp [keyLt, keyLt_irrefl as]

theorem keyLt_asymm : ∀ (a b : List Int), keyLt a b = true → keyLt b a = false
  | [], [], h => by simp [keyLt] at h
  | [], _ :: _, _ => rfl
  | _ :: _, [], h => by simp [keyLt] at h
  | x :: xs, y :: ys, h => by
    unfold keyLt at h ⊢
    by_cases h1 : x < y
    · have : ¬ y < x := by omega
      simp [this, h1]
    · by_cases h2 : y < x
      · simp [h1, h2] at h
      · simp only [h1, h2, ↓reduceIte] at h ⊢
        exact keyLt_asymm xs ys h

theorem keyLt_trans : ∀ (a b c : List Int), keyLt a b = true → keyLt b c = true → keyLt a c = true
  | [], [], _, h, _ => by simp [keyLt] at h
  | [], _ :: _, [], _, h => by simp [keyLt] at h
  | [], _ :: _, _ :: _, _, _ => rfl
  | _ :: _, [], _, h, _ => by simp [keyLt] at h
  | _ :: _, _ :: _, [], _, h => by simp [keyLt] at h
  | x :: xs, y :: ys, z :: zs, h1, h2 => by
    unfold keyLt at h1 h2 ⊢
    by_cases a1 : x < y
    · by_cases b1 : y < z
      · have : x < z := by omega
        simp [this]
      · by_cases b2 : z < y
        · simp [b1, b2] at h2
        · have : y = z := by omega
          subst this; simp [a1]
    · by_cases a2 : y < x
      · simp [a1, a2] at h1
      · have hxy : x = y := by omega
        subst hxy
        simp only [a1, ↓reduceIte] at h1
        by_cases b1 : x < z
        · simp [b1]
        · by_cases b2 : z < x
          · simp [b1, b2] at h2
          · simp only [b1, b2, ↓reduceIte] at h2 ⊢
            exact keyLt_trans xs ys zs h1 h2

theorem keyOrder_strict {α : Type} (key : α → List Int) : StrictOrder (fun a b : α => keyLt (key a) (key b)) :=
  ⟨fun a b => keyLt_asymm _ _, fun a b c => keyLt_trans _ _ _⟩

theorem keyOrder_strict_rev {α : Type} (key : α → List Int) : StrictOrder (fun a b : α => keyLt (key b) (key a)) :=
  ⟨fun a b => keyLt_asymm _ _, fun a b c h1 h2 => keyLt_trans _ _ _ h2 h1⟩

/-! ### navigation chains -/

theorem mem_dedupFirst' {x : Nat} {l : List Nat} : x ∈ dedupFirst l ↔ x ∈ l := OSet.mem_dedupFirst
theorem nodup_dedupFirst' (l : List Nat) : (dedupFirst l).Nodup := OSet.nodup_dedupFirst l

/-- filtering commutes with first-occurrence de-duplication -/
theorem dedupFirst_filter (p : Nat → Bool) : ∀ (l : List Nat), dedupFirst (l.filter p) = (dedupFirst l).filter p
  | [] => rfl
  | a :: l => by
    show OSet.dedupFirst ((a :: l).filter p) = (OSet.dedupFirst (a :: l)).filter p
    have ih : OSet.dedupFirst (l.filter p) = (OSet.dedupFirst l).filter p := dedupFirst_filter p l
    by_cases ha : p a = true
    · simp only [List.filter_cons, ha, ↓reduceIte, OSet.dedupFirst, ih, List.filter_filter]
      congr 1
      apply List.filter_congr
      intro x _; exact Bool.and_comm _ _
    · simp only [List.filter_cons, ha, Bool.false_eq_true, ↓reduceIte, OSet.dedupFirst, ih, List.filter_filter]
      apply List.filter_congr
      intro x hx
      have hxa : x ≠ a ∨ p x = false := by
        by_cases hxa : x = a
        · subst hxa; exact Or.inr (by simpa using ha)
        · exact Or.inl hxa
      rcases hxa with h | h
      · simp [h]
      · simp [h]

/-- de-duplicating a concatenation: the second part only contributes what the first lacks -/
theorem dedupFirst_append : ∀ (l t : List Nat),
    dedupFirst (l ++ t) = dedupFirst l ++ (dedupFirst t).filter (fun x => !(decide (x ∈ l)))
  | [], t => by
    show OSet.dedupFirst t = [] ++ (OSet.dedupFirst t).filter _
    simp [filter_true']
  | a :: l, t => by
    show OSet.dedupFirst (a :: (l ++ t)) = OSet.dedupFirst (a :: l) ++ _
    have ih : OSet.dedupFirst (l ++ t) = OSet.dedupFirst l ++ (OSet.dedupFirst t).filter (fun x => !(decide (x ∈ l))) :=
      dedupFirst_append l t
    simp only [OSet.dedupFirst, ih, List.filter_append, List.filter_filter, List.cons_append]
    congr 2
    apply List.filter_congr
    intro x _
    by_cases hxa : x = a <;> simp [hxa]

end Pyx.Query

namespace Pyx.Query
open Pyx.Meta

/-- when no element raises, one navigation step over a sequence is `flatMap` (duplicates kept) -/
theorem navStep_foldl (sch : Schema) (s : State) (st : Step) (f : Inst → List Inst) : ∀ (l a : List Inst),
    (∀ x ∈ l, navigate sch s x st.toKind st.rel st.phrase = some (f x)) →
    l.foldl (navAcc sch s st) (some a) = some (a ++ l.flatMap f)
  | [], a, _ => by simp
  | x :: xs, a, h => by
    simp only [List.foldl_cons, navAcc, h x (by simp)]
    rw [navStep_foldl sch s st f xs (a ++ f x) (fun y hy => h y (by simp [hy]))]
    simp [List.flatMap_cons]

theorem navStep_eq (sch : Schema) (s : State) (st : Step) (f : Inst → List Inst) (l : List Inst)
    (h : ∀ x ∈ l, navigate sch s x st.toKind st.rel st.phrase = some (f x)) :
    navStep sch s l st = some (l.flatMap f) := by
  unfold navStep
  rw [navStep_foldl sch s st f l [] h]; simp

/-- a chain of steps, each given by a partner function: the sequence is the iterated `flatMap` -/
def chainSeq : List (Inst → List Inst) → List Inst → List Inst
  | [], h => h
  | f :: fs, h => chainSeq fs (h.flatMap f)

/-- `y` is reachable from `x` along the chain: relational composition of the steps' link relations -/
def Reach : List (Inst → List Inst) → Inst → Inst → Prop
  | [], x, y => x = y
  | f :: fs, x, y => ∃ z, z ∈ f x ∧ Reach fs z y

theorem mem_chainSeq : ∀ (fs : List (Inst → List Inst)) (h : List Inst) (y : Inst),
    y ∈ chainSeq fs h ↔ ∃ x ∈ h, Reach fs x y
  | [], h, y => by simp [chainSeq, Reach]
  | f :: fs, h, y => by
    simp only [chainSeq, Reach, mem_chainSeq fs (h.flatMap f) y, List.mem_flatMap]
    constructor
    · rintro ⟨z, ⟨x, hx, hz⟩, hr⟩; exact ⟨x, hx, z, hz, hr⟩
    · rintro ⟨x, hx, z, hz, hr⟩; exact ⟨z, ⟨x, hx, hz⟩, hr⟩

end Pyx.Query

/-! ### extension: de-duplication between steps, key resolution, two-hop navigation, subtypes -/
namespace Pyx.Query
open Pyx.Meta

theorem flatMap_filter_ne {β : Type} (g : Nat → List β) (a : Nat) (ha : g a = []) : ∀ (l : List Nat),
    (l.filter (fun y => y != a)).flatMap g = l.flatMap g
  | [] => rfl
  | x :: l => by
    by_cases hx : x = a
    · subst hx
      simp only [List.filter_cons, bne_self_eq_false, Bool.false_eq_true, ↓reduceIte, List.flatMap_cons, ha,
        List.nil_append]
      exact flatMap_filter_ne g x ha l
    · have : (x != a) = true := by simpa using hx
      simp only [List.filter_cons, this, ↓reduceIte, List.flatMap_cons, flatMap_filter_ne g a ha l]

/-- navigating from a handle with duplicates gives, after the final de-duplication, the same result as
    navigating from the de-duplicated handle -/
theorem dedup_flatMap : ∀ (l : List Nat) (f : Nat → List Nat),
    dedupFirst ((dedupFirst l).flatMap f) = dedupFirst (l.flatMap f)
  | [], _ => rfl
  | a :: l, f => by
    show dedupFirst ((a :: (OSet.dedupFirst l).filter (fun y => y != a)).flatMap f) = _
    simp only [List.flatMap_cons]
    rw [dedupFirst_append, dedupFirst_append]
    congr 1
    rw [← dedupFirst_filter (fun x => !(decide (x ∈ f a))), ← dedupFirst_filter (fun x => !(decide (x ∈ f a))),
      List.filter_flatMap, List.filter_flatMap]
    have hg : (fun x => (f x).filter (fun z => !(decide (z ∈ f a)))) a = [] := by
      apply List.filter_eq_nil_iff.mpr
      intro z hz; simp [hz]
    rw [flatMap_filter_ne _ a hg]
    exact dedup_flatMap l _

theorem dedupFirst_idem (l : List Nat) : dedupFirst (dedupFirst l) = dedupFirst l :=
  dedupFirst_of_nodup (nodup_dedupFirst' l)

theorem dedup_chainSeq : ∀ (fs : List (Inst → List Inst)) (h : List Inst),
    dedupFirst (chainSeq fs (dedupFirst h)) = dedupFirst (chainSeq fs h)
  | [], h => dedupFirst_idem h
  | f :: fs, h => by
    simp only [chainSeq]
    rw [← dedup_chainSeq fs ((dedupFirst h).flatMap f), dedup_flatMap, dedup_chainSeq fs (h.flatMap f)]

/-- the chain with a de-duplication after EVERY step (what a chain of `QuerySet`s would compute) -/
def chainSeqDedup : List (Inst → List Inst) → List Inst → List Inst
  | [], h => dedupFirst h
  | f :: fs, h => chainSeqDedup fs (dedupFirst (h.flatMap f))

theorem chainSeqDedup_eq : ∀ (fs : List (Inst → List Inst)) (h : List Inst),
    chainSeqDedup fs h = dedupFirst (chainSeq fs h)
  | [], _ => rfl
  | f :: fs, h => by
    simp only [chainSeqDedup, chainSeq]
    rw [chainSeqDedup_eq fs, dedup_chainSeq]

/-! #### the links dict -/

theorem sameKey_comm (e f : LinkEntry) : sameKey e f = sameKey f e := by
  unfold sameKey
  rw [BEq.comm (a := e.toKind), BEq.comm (a := e.rel), BEq.comm (a := e.phrase)]

theorem sameKey_refl (e : LinkEntry) : sameKey e e = true := by simp [sameKey]

/-- the link keys `(toKind, rel, phrase)` are pairwise distinct -/
def KeysDistinct (es : List LinkEntry) : Prop := es.Pairwise (fun e f => sameKey e f = false)

theorem foldl_dictInsert_distinct : ∀ (es acc : List LinkEntry), KeysDistinct (acc ++ es) →
    es.foldl dictInsert acc = acc ++ es
  | [], acc, _ => by simp
  | e :: es, acc, h => by
    have hany : acc.any (sameKey e) = false := by
      apply Bool.eq_false_iff.mpr
      intro ht
      obtain ⟨f, hf, hs⟩ := List.any_eq_true.mp ht
      have hp := List.pairwise_append.mp h
      have := hp.2.2 f hf e (by simp)
      rw [sameKey_comm] at this
      rw [this] at hs; cases hs
    have hstep : dictInsert acc e = acc ++ [e] := by simp [dictInsert, hany]
    simp only [List.foldl_cons, hstep]
    rw [foldl_dictInsert_distinct es (acc ++ [e]) (by simpa using h)]
    simp

theorem lookupKey_of_mem : ∀ (es : List LinkEntry) (e : LinkEntry), KeysDistinct es → e ∈ es →
    lookupKey es e.toKind e.rel e.phrase = some e
  | [], _, _, h => by simp at h
  | f :: r, e, hd, hm => by
    have hp := List.pairwise_cons.mp hd
    unfold lookupKey
    rcases List.mem_cons.mp hm with rfl | hm
    · simp
    · have hfe : sameKey f e = false := hp.1 e hm
      have : (f.toKind == e.toKind && f.rel == e.rel && f.phrase == e.phrase) = false := hfe
      rw [List.find?_cons, this]
      exact lookupKey_of_mem r e hp.2 hm

theorem mem_linkEntriesFrom (k : Kind) : ∀ (sch : Schema) (j i : Nat) (a : AssocSpec), sch[i]? = some a →
    (a.tgtKind = k → ({ toKind := a.srcKind, rel := a.rel, phrase := a.tgtPhrase, assoc := j + i, isSrc := true } : LinkEntry)
        ∈ linkEntriesFrom k j sch) ∧
    (a.srcKind = k → ({ toKind := a.tgtKind, rel := a.rel, phrase := a.srcPhrase, assoc := j + i, isSrc := false } : LinkEntry)
        ∈ linkEntriesFrom k j sch)
  | [], _, _, _, h => by simp at h
  | b :: rest, j, 0, a, h => by
    simp only [List.getElem?_cons_zero, Option.some.injEq] at h
    subst h
    constructor <;> intro hk <;> simp [linkEntriesFrom, hk]
  | b :: rest, j, i + 1, a, h => by
    simp only [List.getElem?_cons_succ] at h
    obtain ⟨h1, h2⟩ := mem_linkEntriesFrom k rest (j + 1) i a h
    have e : j + 1 + i = j + (i + 1) := by omega
    rw [e] at h1 h2
    constructor <;> intro hk
    · simp only [linkEntriesFrom, List.mem_append]; exact Or.inr (h1 hk)
    · simp only [linkEntriesFrom, List.mem_append]; exact Or.inr (h2 hk)

theorem linkDict_distinct (sch : Schema) (k : Kind) (hd : KeysDistinct (linkEntriesFrom k 0 sch)) :
    linkDict sch k = linkEntriesFrom k 0 sch := by
  unfold linkDict
  rw [foldl_dictInsert_distinct _ [] (by simpa using hd)]; simp

/-! #### `navigate` -/

/-- the probe `_find_assoc_links` makes on one link of the class -/
def assocHop (sch : Schema) (toKind : Kind) (rel phrase : String) (l1 : LinkEntry) : Option (LinkEntry × LinkEntry) :=
  if l1.rel == rel && l1.phrase == phrase then
    (lookupKey (linkDict sch l1.toKind) toKind rel phrase).map (fun l2 => (l1, l2))
  else none

theorem navigate_direct' (sch : Schema) (s : State) (x : Inst) (toKind : Kind) (rel phrase : String) (e : LinkEntry)
    (h : lookupKey (linkDict sch (s.kindOf x)) toKind rel phrase = some e) :
    navigate sch s x toKind rel phrase = some (followEntry s e x) := by
  unfold navigate
  simp only [h]

theorem navigate_indirect (sch : Schema) (s : State) (x : Inst) (toKind : Kind) (rel phrase : String)
    (h : lookupKey (linkDict sch (s.kindOf x)) toKind rel phrase = none) :
    navigate sch s x toKind rel phrase =
      match (linkDict sch (s.kindOf x)).findSome? (assocHop sch toKind rel phrase) with
      | some (l1, l2) => some (unionAll ((followEntry s l1 x).map (followEntry s l2)))
      | none => none := by
  unfold navigate
  simp only [h]
  rfl

theorem assocHop_some {sch : Schema} {toKind : Kind} {rel phrase : String} {l l1 l2 : LinkEntry}
    (h : assocHop sch toKind rel phrase l = some (l1, l2)) :
    l1 = l ∧ l1.rel = rel ∧ l1.phrase = phrase ∧ lookupKey (linkDict sch l1.toKind) toKind rel phrase = some l2 := by
  unfold assocHop at h
  split at h
  · rename_i hc
    simp only [Bool.and_eq_true, beq_iff_eq] at hc
    cases hl : lookupKey (linkDict sch l.toKind) toKind rel phrase with
    | none => simp [hl] at h
    | some l2' =>
      simp only [hl, Option.map_some, Option.some.injEq, Prod.mk.injEq] at h
      obtain ⟨rfl, rfl⟩ := h
      exact ⟨rfl, hc.1, hc.2, hl⟩
  · cases h

theorem unionAll_map (f : Inst → List Inst) (l : List Inst) : unionAll (l.map f) = dedupFirst (l.flatMap f) := by
  unfold unionAll
  rw [List.flatMap_def]

/-! #### `navigate_subtype` -/

theorem navSubtypeFrom_none (sch : Schema) (s : State) (x : Inst) (rel : String) : ∀ (d : List LinkEntry),
    (∀ e ∈ d, e.rel = rel → navigate sch s x e.toKind rel "" = some []) →
    navSubtypeFrom sch s x rel d = some none
  | [], _ => rfl
  | e :: r, h => by
    unfold navSubtypeFrom
    by_cases he : e.rel = rel
    · simp only [he, beq_self_eq_true, ↓reduceIte]
      have := h e (by simp) he
      simp only [this, List.head?_nil]
      exact navSubtypeFrom_none sch s x rel r (fun e' he' => h e' (by simp [he']))
    · have : (e.rel == rel) = false := by simpa using he
      simp only [this, Bool.false_eq_true, ↓reduceIte]
      exact navSubtypeFrom_none sch s x rel r (fun e' he' => h e' (by simp [he']))

theorem navSubtypeFrom_some (sch : Schema) (s : State) (x : Inst) (rel : String) (y : Inst) :
    ∀ (d : List LinkEntry),
    (∀ e ∈ d, e.rel = rel → ∃ l, navigate sch s x e.toKind rel "" = some l ∧ (l = [] ∨ l.head? = some y)) →
    (∃ e ∈ d, e.rel = rel ∧ ∃ l, navigate sch s x e.toKind rel "" = some l ∧ l.head? = some y) →
    navSubtypeFrom sch s x rel d = some (some y)
  | [], _, h => by obtain ⟨e, he, _⟩ := h; simp at he
  | e :: r, hall, hex => by
    unfold navSubtypeFrom
    by_cases he : e.rel = rel
    · obtain ⟨l, hl, hcase⟩ := hall e (by simp) he
      simp only [he, beq_self_eq_true, ↓reduceIte]
      simp only [hl]
      rcases hcase with rfl | hh
      · simp only [List.head?_nil]
        apply navSubtypeFrom_some sch s x rel y r (fun e' he' => hall e' (by simp [he']))
        obtain ⟨e0, hm, hr, l0, hl0, hh0⟩ := hex
        rcases List.mem_cons.mp hm with rfl | hm
        · rw [hl] at hl0
          cases hl0; simp at hh0
        · exact ⟨e0, hm, hr, l0, hl0, hh0⟩
      · simp only [hh]
    · have : (e.rel == rel) = false := by simpa using he
      simp only [this, Bool.false_eq_true, ↓reduceIte]
      apply navSubtypeFrom_some sch s x rel y r (fun e' he' => hall e' (by simp [he']))
      obtain ⟨e0, hm, hr, rest⟩ := hex
      rcases List.mem_cons.mp hm with rfl | hm
      · exact absurd hr he
      · exact ⟨e0, hm, hr, rest⟩

end Pyx.Query

/-! ### audit round 1: whole chains at state level -/
namespace Pyx.Query
open Pyx.Meta

/-- every step of the chain can be navigated, without UnknownLinkException, from every element reached so far;
    `fs` are the steps' partner functions -/
def ChainOk (sch : Schema) (s : State) : List Step → List (Inst → List Inst) → List Inst → Prop
  | [], [], _ => True
  | st :: r, f :: fs, h =>
    (∀ x ∈ h, navigate sch s x st.toKind st.rel st.phrase = some (f x)) ∧ ChainOk sch s r fs (h.flatMap f)
  | _, _, _ => False

theorem navSeq_foldl_none (sch : Schema) (s : State) : ∀ (steps : List Step),
    steps.foldl (fun acc st => match acc with | some l => navStep sch s l st | none => none) none = none
  | [] => rfl
  | _ :: r => navSeq_foldl_none sch s r

theorem navSeq_chainSeq (sch : Schema) (s : State) : ∀ (steps : List Step) (fs : List (Inst → List Inst)) (h : List Inst),
    ChainOk sch s steps fs h → navSeq sch s h steps = some (chainSeq fs h)
  | [], [], _, _ => rfl
  | [], _ :: _, _, hc => by simp [ChainOk] at hc
  | _ :: _, [], _, hc => by simp [ChainOk] at hc
  | st :: r, f :: fs, h, hc => by
    obtain ⟨h1, h2⟩ := hc
    have ih := navSeq_chainSeq sch s r fs (h.flatMap f) h2
    unfold navSeq at ih ⊢
    simp only [List.foldl_cons, navStep_eq sch s st f h h1, chainSeq]
    exact ih

end Pyx.Query
