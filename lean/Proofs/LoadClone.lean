import Proofs.LoadApiRun

/-! Helper lemmas for C03, part 7: `MetaModel.clone` — reading the attributes of a loaded instance through the
    chain of referential properties, then `new`. -/

namespace Pyx.Load

theorem mem_of_lookup {α β : Type} [BEq α] [LawfulBEq α] {l : List (α × β)} {x : α} {y : β}
    (h : l.lookup x = some y) : (x, y) ∈ l := by
  induction l with
  | nil => simp at h
  | cons p ps ih =>
    obtain ⟨k, v⟩ := p
    by_cases hk : x == k
    · simp only [List.lookup_cons, hk, Option.some.injEq] at h
      have : x = k := by simpa using hk
      subst this; subst h
      exact List.mem_cons_self
    · have hk' : (x == k) = false := by simpa using hk
      simp only [List.lookup_cons, hk'] at h
      exact List.mem_cons_of_mem _ (ih h)

theorem lookup_isSome_of_mem_fst {α β : Type} [BEq α] [LawfulBEq α] {l : List (α × β)} {x : α}
    (h : x ∈ l.map (·.1)) : ∃ y, l.lookup x = some y := by
  induction l with
  | nil => simp at h
  | cons p ps ih =>
    obtain ⟨k, v⟩ := p
    by_cases hk : x == k
    · exact ⟨v, by simp [List.lookup_cons, hk]⟩
    · have hk' : (x == k) = false := by simpa using hk
      simp only [List.map_cons, List.mem_cons] at h
      rcases h with h | h
      · exact absurd (by simpa using h) hk
      · obtain ⟨y, hy⟩ := ih h
        exact ⟨y, by simp [List.lookup_cons, hk', hy]⟩

theorem mapM_some {α β : Type} (l : List α) (f : α → Option β) (g : α → β) (h : ∀ x ∈ l, f x = some (g x)) :
    l.mapM f = some (l.map g) := by
  induction l with
  | nil => rfl
  | cons x xs ih =>
    rw [List.mapM_cons, h x List.mem_cons_self, ih (fun y hy => h y (List.mem_cons_of_mem _ hy))]
    rfl

/-! ### the loaded metamodel the instances are cloned from -/

theorem loaded_cls (ss : List Stmt) (order : List (String × List Val)) (g : ApiGuards ss order) (k : String) (c0 : Cls)
    (h0 : findCls (popClasses ss) k = some c0) :
    ∃ c, findCls (loaded ss order).classes k = some c ∧ c.kind = k ∧ c.attrs = c0.attrs ∧
      c.rows = rawRows ss order k := by
  have hrows := rowsOf_loaded ss order g k
  unfold loaded at hrows ⊢
  have hspec := findCls_buildCore (ss ++ insertsOf order) k
  unfold clsSpec at hspec
  rw [popClasses_append, popClasses_inserts, List.append_nil, h0] at hspec
  simp only at hspec
  refine ⟨_, hspec, ?_, ?_, ?_⟩
  · have := findCls_some_kind hspec
    exact this
  · simp [applyUniqs]
  · unfold rowsOf at hrows
    rw [hspec] at hrows
    exact hrows

/-- the value `getattr(instance, x)` yields on the loaded instance `(k, i)` -/
def readVal (M : Model) (k : String) (i : Nat) (x : String) : Val :=
  (readAttr M (fuelOf M) k i x).getD .none

theorem length_insertStep_ge (cs : List Cls) (k : String) (ns : Option (List String)) (vs : List Val) :
    cs.length ≤ (insertStep cs k ns vs).length := by
  unfold insertStep
  by_cases h : hasKind cs k
  · simp only [h, if_true]
    cases findCls cs k with
    | none => exact Nat.le_refl _
    | some c => simp [addRow]
  · simp only [h, Bool.false_eq_true, if_false]
    cases findCls (cs ++ [⟨k, inferAttrs ns vs, [], []⟩]) k with
    | none => simp
    | some c => simp [addRow]

theorem length_popInstances_ge (ss : List Stmt) (cs : List Cls) : cs.length ≤ (popInstances ss cs).length := by
  unfold popInstances
  induction ss generalizing cs with
  | nil => exact Nat.le_refl _
  | cons s ss ih =>
    simp only [List.foldl_cons]
    cases s with
    | insert k ns vs => exact Nat.le_trans (length_insertStep_ge cs k ns vs) (ih _)
    | cls _ _ => exact ih cs
    | assoc _ => exact ih cs
    | uniq _ _ _ => exact ih cs

theorem attrSum_insertStep_ge (cs : List Cls) (k : String) (ns : Option (List String)) (vs : List Val) :
    attrSum cs ≤ attrSum (insertStep cs k ns vs) := by
  unfold insertStep
  by_cases h : hasKind cs k
  · simp only [h, if_true]
    cases findCls cs k with
    | none => exact Nat.le_refl _
    | some c => simp only; rw [attrSum_addRow]; exact Nat.le_refl _
  · simp only [h, Bool.false_eq_true, if_false]
    cases findCls (cs ++ [⟨k, inferAttrs ns vs, [], []⟩]) k with
    | none => simp only; rw [attrSum_append]; omega
    | some c => simp only; rw [attrSum_addRow, attrSum_append]; omega

theorem attrSum_popInstances_ge (ss : List Stmt) (cs : List Cls) : attrSum cs ≤ attrSum (popInstances ss cs) := by
  unfold popInstances
  induction ss generalizing cs with
  | nil => exact Nat.le_refl _
  | cons s ss ih =>
    simp only [List.foldl_cons]
    cases s with
    | insert k ns vs => exact Nat.le_trans (attrSum_insertStep_ge cs k ns vs) (ih _)
    | cls _ _ => exact ih cs
    | assoc _ => exact ih cs
    | uniq _ _ _ => exact ih cs

/-- the loaded metamodel gives every read more fuel than the depth the guards speak of -/
theorem fuelOf_loaded_ge (ss : List Stmt) (order : List (String × List Val)) :
    readBound ss + 1 ≤ fuelOf (loaded ss order) := by
  have h1 := attrSum_lt_fuelOf (loaded ss order)
  have h2 : readBound ss ≤ attrSum (loaded ss order).classes := by
    unfold loaded buildCore
    simp only
    refine Nat.le_trans ?_ (attrSum_popInstances_ge _ _)
    rw [attrSum_popUniques, popClasses_append, popClasses_inserts, List.append_nil]
    exact Nat.le_refl _
  omega

section read
variable (ss : List Stmt) (order : List (String × List Val)) (g : ApiGuards ss order)
include g

/-- what is read from the loaded instance `(k, i)`, attribute by attribute: the read ends; an attribute that is
    not referential reads its value; a referential one reads its value or `None`, and its value whenever some
    association using it links the row -/
theorem readVal_spec (k : String) (i : Nat) (r : Row) (hr : (rawRows ss order k)[i]? = some r) (x : String) :
    readAttr (loaded ss order) (fuelOf (loaded ss order)) k i x = some (readVal (loaded ss order) k i x) ∧
    (x ∉ referential (popAssocs ss) k → readVal (loaded ss order) k i x = r.get x) ∧
    (readVal (loaded ss order) k i x = r.get x ∨ readVal (loaded ss order) k i x = .none) ∧
    (∀ a ∈ popAssocs ss, a.srcKind = k → x ∈ a.srcKeys →
        (nestedJoin a (rawRows ss order a.srcKind) (rawRows ss order a.tgtKind)).tgt i ≠ [] →
        readVal (loaded ss order) k i x = r.get x) := by
  have hF := fuelOf_loaded_ge ss order
  obtain ⟨f, hf⟩ : ∃ f, fuelOf (loaded ss order) = f + 1 := ⟨fuelOf (loaded ss order) - 1, by omega⟩
  have hDf : readBound ss ≤ f := by omega
  have hi : i < (rawRows ss order k).length := (List.getElem?_eq_some_iff.mp hr).1
  obtain ⟨v0, hv0⟩ := Option.isSome_iff_exists.mp (g.readsTerminate k i x hi)
  have hv : readAttr (loaded ss order) (f + 1) k i x = some v0 :=
    readAttr_mono (loaded ss order) (by omega) k i x v0 hv0
  have hval : readVal (loaded ss order) k i x = v0 := by
    unfold readVal; rw [hf, hv]; rfl
  rw [hf, hv, hval]
  refine ⟨rfl, ?_, readAttr_loaded_value ss order g _ k i x r v0 hr hv, ?_⟩
  · intro hx
    have hst := readAttr_stored (loaded ss order) f k i x (by rw [loaded_assocs_fst ss order g]; exact hx)
    rw [hst, loaded_rows ss order g, hr] at hv
    simp only [Option.getD_some, Option.some.injEq] at hv
    exact hv.symm
  · intro a ha hk hxa hne
    have hxr : (referential ((loaded ss order).assocs.map (·.1)) k).contains x = true := by
      rw [loaded_assocs_fst ss order g, ← hk]
      simpa using mem_referential ha hxa
    simp only [readAttr, hxr, if_true] at hv
    rcases readChain_cases (readAttr (loaded ss order) f) k i x (loaded ss order).assocs.reverse with
      ⟨_, hall⟩ | ⟨p, hp, hpk, tk, j, hmem, hhead, hvalc⟩
    · exfalso
      apply hne
      have hmemA : (a, nestedJoin a (rawRows ss order a.srcKind) (rawRows ss order a.tgtKind)) ∈ (loaded ss order).assocs.reverse := by
        rw [List.mem_reverse, loaded_assocs ss order g]
        exact List.mem_map.mpr ⟨a, ha, rfl⟩
      have hlen := (g.keys a ha).2.1
      exact hall _ hmemA hk (by
        show x ∈ (a.srcKeys.zip a.tgtKeys).map (·.1)
        rw [List.map_fst_zip (by omega)]; exact hxa)
    · rw [List.mem_reverse, loaded_assocs ss order g] at hp
      obtain ⟨b, hb, rfl⟩ := List.mem_map.mp hp
      simp only at hpk hmem hhead hvalc
      have hj : j ∈ (nestedJoin b (rawRows ss order b.srcKind) (rawRows ss order b.tgtKind)).tgt i :=
        List.mem_of_mem_head? hhead
      obtain ⟨s, t, hs, ht, hm⟩ := (mem_nestedJoin_tgt b _ _ i j).mp hj
      have hs' := hs
      rw [hpk, hr] at hs'
      cases hs'
      have hres := g.resolved b hb i j _ t hs ht hm tk (List.of_mem_zip hmem).2
      have hresf := readAttr_mono (loaded ss order) hDf b.tgtKind j tk _ hres
      rw [hvalc, hresf] at hv
      cases hv
      exact (((matchesB_iff b _ t).mp hm (x, tk) hmem).2).symm

theorem readAll_loaded (k : String) (c0 : Cls) (h0 : findCls (popClasses ss) k = some c0) (i : Nat)
    (hi : i < (rawRows ss order k).length) :
    ∃ c, findCls (loaded ss order).classes k = some c ∧
      readAll (loaded ss order) c i = some ((attrsOf ss k).map (fun p => readVal (loaded ss order) k i p.1)) := by
  obtain ⟨c, hc, hck, hca, hrows⟩ := loaded_cls ss order g k c0 h0
  refine ⟨c, hc, ?_⟩
  have hattrs : attrsOf ss k = c.attrs := by simp [attrsOf, h0, hca]
  obtain ⟨r, hr⟩ : ∃ r, (rawRows ss order k)[i]? = some r := ⟨_, List.getElem?_eq_getElem hi⟩
  unfold readAll
  rw [hattrs, hck]
  apply mapM_some
  intro p _
  exact (readVal_spec ss order g k i r hr p.1).1

end read

end Pyx.Load

namespace Pyx.Load

/-! ### the clone order: every loaded instance, named by (kind, position), in the order of the rows -/

def countKind (l : List (String × List Val)) (k : String) : Nat := (l.filter (fun p => p.1 = k)).length

def positionsFrom (pre : List (String × List Val)) : List (String × List Val) → List (String × Nat)
  | [] => []
  | o :: rest => (o.1, countKind pre o.1) :: positionsFrom (pre ++ [o]) rest

/-- the instance the n-th row became: its kind and its position in the class's storage -/
def positions (order : List (String × List Val)) : List (String × Nat) := positionsFrom [] order

/-- the same rows with the values replaced by `f kind position` -/
def relabelFrom (f : String → Nat → List Val) (pre : List (String × List Val)) :
    List (String × List Val) → List (String × List Val)
  | [] => []
  | o :: rest => (o.1, f o.1 (countKind pre o.1)) :: relabelFrom f (pre ++ [o]) rest

/-- the arguments `clone` hands to `new` for the loaded instance `(k, i)` -/
def readArgs (ss : List Stmt) (order : List (String × List Val)) (k : String) (i : Nat) : List Val :=
  (attrsOf ss k).map (fun p => readVal (loaded ss order) k i p.1)

def readOrder (ss : List Stmt) (order : List (String × List Val)) : List (String × List Val) :=
  relabelFrom (readArgs ss order) [] order

theorem countKind_append (l1 l2 : List (String × List Val)) (k : String) :
    countKind (l1 ++ l2) k = countKind l1 k + countKind l2 k := by
  simp [countKind, List.filter_append]

theorem rawRows_length (ss : List Stmt) (l : List (String × List Val)) (k : String) :
    (rawRows ss l k).length = countKind l k := by
  simp [rawRows, countKind]

theorem relabelFrom_map_fst (f : String → Nat → List Val) (rest : List (String × List Val)) :
    ∀ pre, (relabelFrom f pre rest).map (·.1) = rest.map (·.1) := by
  induction rest with
  | nil => intro _; rfl
  | cons o rest ih => intro pre; simp [relabelFrom, ih]

theorem relabelFrom_append (f : String → Nat → List Val) (l1 l2 : List (String × List Val)) :
    ∀ pre, relabelFrom f pre (l1 ++ l2) = relabelFrom f pre l1 ++ relabelFrom f (pre ++ l1) l2 := by
  induction l1 with
  | nil => intro pre; simp [relabelFrom]
  | cons o l1 ih =>
    intro pre
    simp only [List.cons_append, relabelFrom, ih]
    simp

theorem relabelFrom_length (f : String → Nat → List Val) (rest : List (String × List Val)) :
    ∀ pre, (relabelFrom f pre rest).length = rest.length := by
  induction rest with
  | nil => intro _; rfl
  | cons o rest ih => intro pre; simp [relabelFrom, ih]

theorem mem_relabelFrom (f : String → Nat → List Val) (rest : List (String × List Val)) :
    ∀ pre o', o' ∈ relabelFrom f pre rest → ∃ o ∈ rest, ∃ n, o' = (o.1, f o.1 n) := by
  induction rest with
  | nil => intro _ _ h; cases h
  | cons o rest ih =>
    intro pre o' h
    simp only [relabelFrom, List.mem_cons] at h
    rcases h with rfl | h
    · exact ⟨o, List.mem_cons_self, _, rfl⟩
    · obtain ⟨o2, ho2, n, hn⟩ := ih _ _ h
      exact ⟨o2, List.mem_cons_of_mem _ ho2, n, hn⟩

theorem rawRows_cons (ss : List Stmt) (x : String × List Val) (l : List (String × List Val)) (k : String) :
    rawRows ss (x :: l) k = (if x.1 = k then [rawRow ss x] else []) ++ rawRows ss l k := by
  by_cases h : x.1 = k <;> simp [rawRows, List.filter_cons, h]

theorem rawRows_relabelFrom (ss : List Stmt) (f : String → Nat → List Val) (k : String)
    (rest : List (String × List Val)) :
    ∀ pre, rawRows ss (relabelFrom f pre rest) k =
      (List.range (countKind rest k)).map (fun n => rawRow ss (k, f k (countKind pre k + n))) := by
  induction rest with
  | nil => intro _; simp [relabelFrom, rawRows, countKind]
  | cons o rest ih =>
    intro pre
    simp only [relabelFrom, rawRows_cons, ih]
    by_cases h : o.1 = k
    · subst h
      have hc : countKind (o :: rest) o.1 = countKind rest o.1 + 1 := by
        simp [countKind, List.filter_cons]
      have hp : countKind (pre ++ [o]) o.1 = countKind pre o.1 + 1 := by
        simp [countKind_append, countKind, List.filter_cons]
      rw [hc, List.range_succ_eq_map, hp]
      simp only [if_true, List.map_cons, List.map_map, Nat.add_zero, List.singleton_append]
      congr 1
      apply List.map_congr_left
      intro n _
      simp only [Function.comp]
      congr 3
      omega
    · have hc : countKind (o :: rest) k = countKind rest k := by
        simp [countKind, List.filter_cons, h]
      have hp : countKind (pre ++ [o]) k = countKind pre k := by
        simp [countKind_append, countKind, List.filter_cons, h]
      simp only [h, if_false, List.nil_append, hc, hp]

theorem rawRows_readOrder (ss : List Stmt) (order : List (String × List Val)) (k : String) :
    rawRows ss (readOrder ss order) k =
      (List.range (rawRows ss order k).length).map (fun n => rawRow ss (k, readArgs ss order k n)) := by
  unfold readOrder
  rw [rawRows_relabelFrom, rawRows_length]
  simp [countKind]

/-- `clone` of every loaded instance is `new` with the values read from it -/
theorem cloneRun_eq (ss : List Stmt) (order : List (String × List Val)) (g : ApiGuards ss order)
    (rest : List (String × List Val)) :
    ∀ pre m, order = pre ++ rest →
      cloneRun (loaded ss order) (positionsFrom pre rest) m = apiRun (relabelFrom (readArgs ss order) pre rest) m := by
  induction rest with
  | nil => intro _ _ _; rfl
  | cons o rest ih =>
    intro pre m horder
    have ho : o ∈ order := by rw [horder]; simp
    obtain ⟨c0, h0⟩ := Option.isSome_iff_exists.mp (g.declared o ho).1
    have hi : countKind pre o.1 < (rawRows ss order o.1).length := by
      rw [rawRows_length, horder, countKind_append]
      have : countKind (o :: rest) o.1 ≥ 1 := by simp [countKind, List.filter_cons]
      omega
    obtain ⟨c, hc, hread⟩ := readAll_loaded ss order g o.1 c0 h0 _ hi
    simp only [positionsFrom, relabelFrom, cloneRun, apiRun, hc, hread]
    rw [ih (pre ++ [o]) _ (by rw [horder]; simp)]
    rfl

end Pyx.Load

namespace Pyx.Load

/-! ### the read rows match exactly where the raw rows match -/

theorem get_mkRow_map (attrs : List (String × Ty)) (f : String → Val) (x : String) :
    Row.get (mkRow attrs none (attrs.map (fun p => f p.1))) x = if x ∈ attrs.map (·.1) then f x else .none := by
  unfold Row.get mkRow
  induction attrs with
  | nil => simp
  | cons p ps ih =>
    by_cases hx : x = p.1
    · subst hx
      simp [List.lookup_cons]
    · have hb : (x == p.1) = false := by simpa using hx
      simp only [List.map_cons, List.zip_cons_cons, List.lookup_cons, hb, List.mem_cons, hx, false_or]
      exact ih

section me
variable (ss : List Stmt) (order : List (String × List Val)) (g : ApiGuards ss order)
include g

/-- a read referring row matches a read referred row exactly when the rows as written match -/
theorem matches_read (a : AssocStmt) (ha : a ∈ popAssocs ss) (i j : Nat) (s t : Row)
    (hs : (rawRows ss order a.srcKind)[i]? = some s) (ht : (rawRows ss order a.tgtKind)[j]? = some t) :
    matchesB a (rawRow ss (a.srcKind, readArgs ss order a.srcKind i)) (rawRow ss (a.tgtKind, readArgs ss order a.tgtKind j))
      = matchesB a s t := by
  have hsget : ∀ x ∈ a.srcKeys,
      (rawRow ss (a.srcKind, readArgs ss order a.srcKind i)).get x = readVal (loaded ss order) a.srcKind i x := by
    intro x hx
    simp only [rawRow, readArgs]
    rw [get_mkRow_map, if_pos (g.srcDeclared a ha x hx)]
  have htget : ∀ tk ∈ a.tgtKeys,
      (rawRow ss (a.tgtKind, readArgs ss order a.tgtKind j)).get tk = readVal (loaded ss order) a.tgtKind j tk := by
    intro tk htk
    simp only [rawRow, readArgs]
    rw [get_mkRow_map, if_pos (tgtKeys_declared ss g.accepted a ha tk htk)]
  rw [Bool.eq_iff_iff, matchesB_iff, matchesB_iff]
  constructor
  · intro h p hp
    have hp1 := (List.of_mem_zip hp).1
    have hp2 := (List.of_mem_zip hp).2
    obtain ⟨hnn, heq⟩ := h p hp
    rw [hsget p.1 hp1] at hnn heq
    rw [htget p.2 hp2] at heq
    rcases (readVal_spec ss order g a.srcKind i s hs p.1).2.2.1 with hv | hv
    · rw [hv] at hnn heq
      rcases (readVal_spec ss order g a.tgtKind j t ht p.2).2.2.1 with hw | hw
      · rw [hw] at heq; exact ⟨hnn, heq⟩
      · rw [hw] at heq; rw [heq] at hnn; simp [isNull] at hnn
    · rw [hv] at hnn; simp [isNull] at hnn
  · intro h p hp
    have hp1 := (List.of_mem_zip hp).1
    have hp2 := (List.of_mem_zip hp).2
    have hm : matchesB a s t = true := (matchesB_iff a s t).mpr h
    have hne : (nestedJoin a (rawRows ss order a.srcKind) (rawRows ss order a.tgtKind)).tgt i ≠ [] := by
      have : j ∈ (nestedJoin a (rawRows ss order a.srcKind) (rawRows ss order a.tgtKind)).tgt i :=
        (mem_nestedJoin_tgt a _ _ i j).mpr ⟨s, t, hs, ht, hm⟩
      exact List.ne_nil_of_mem this
    have hv := (readVal_spec ss order g a.srcKind i s hs p.1).2.2.2 a ha rfl hp1 hne
    -- the referred row's identifying value can be read back
    have hres := g.resolved a ha i j s t hs ht hm p.2 hp2
    have hF := fuelOf_loaded_ge ss order
    have hresF := readAttr_mono (loaded ss order) (show readBound ss ≤ fuelOf (loaded ss order) by omega)
      a.tgtKind j p.2 _ hres
    have hw : readVal (loaded ss order) a.tgtKind j p.2 = t.get p.2 := by
      unfold readVal; rw [hresF]; rfl
    rw [hsget p.1 hp1, htget p.2 hp2, hv, hw]
    exact h p hp

end me

theorem selectIdx_congr_idx {α : Type} (l1 l2 : List α) (c1 c2 : α → Bool) :
    ∀ n, l1.length = l2.length → (∀ (i : Nat) x y, l1[i]? = some x → l2[i]? = some y → c1 x = c2 y) →
      selectIdx n l1 c1 = selectIdx n l2 c2 := by
  induction l1 generalizing l2 with
  | nil =>
    intro n hlen _
    cases l2 with
    | nil => rfl
    | cons _ _ => simp at hlen
  | cons x xs ih =>
    intro n hlen h
    cases l2 with
    | nil => simp at hlen
    | cons y ys =>
      simp only [List.length_cons, Nat.add_right_cancel_iff] at hlen
      have h0 := h 0 x y rfl rfl
      have := ih ys (n + 1) hlen (fun i a b ha hb => h (i + 1) a b (by simpa using ha) (by simpa using hb))
      unfold selectIdx at this ⊢
      simp only [enumFrom, List.filterMap_cons, h0, this]

/-- the join only looks at which pairs of positions match -/
theorem nestedJoin_congr (a : AssocStmt) (S S' T T' : List Row) (hS : S'.length = S.length) (hT : T'.length = T.length)
    (h : ∀ (i j : Nat) s s' t t', S[i]? = some s → S'[i]? = some s' → T[j]? = some t → T'[j]? = some t' →
      matchesB a s' t' = matchesB a s t) :
    nestedJoin a S' T' = nestedJoin a S T := by
  apply Links.ext'
  · intro j
    simp only [nestedJoin]
    cases ht' : T'[j]? with
    | none =>
      have : T[j]? = none := by
        rw [List.getElem?_eq_none_iff] at ht' ⊢; omega
      simp [this]
    | some t' =>
      have hj : j < T.length := by
        have := (List.getElem?_eq_some_iff.mp ht').1; omega
      have ht : T[j]? = some T[j] := List.getElem?_eq_getElem hj
      simp only [ht]
      exact selectIdx_congr_idx S' S _ _ 0 hS (fun i x y hx hy => h i j y x T[j] t' hy hx ht ht')
  · intro i
    simp only [nestedJoin]
    cases hs' : S'[i]? with
    | none =>
      have : S[i]? = none := by
        rw [List.getElem?_eq_none_iff] at hs' ⊢; omega
      simp [this]
    | some s' =>
      have hi : i < S.length := by
        have := (List.getElem?_eq_some_iff.mp hs').1; omega
      have hs : S[i]? = some S[i] := List.getElem?_eq_getElem hi
      simp only [hs]
      exact selectIdx_congr_idx T' T _ _ 0 hT (fun j x y hx hy => h i j S[i] s' y x hs hs' hy hx)

end Pyx.Load

namespace Pyx.Load

/-! ### the guards hold for the read rows, and the clone route reduces to the API route -/

theorem getElem?_readOrder (ss : List Stmt) (order : List (String × List Val)) (k : String) (n : Nat) (r' : Row)
    (h : (rawRows ss (readOrder ss order) k)[n]? = some r') :
    r' = rawRow ss (k, readArgs ss order k n) ∧ n < (rawRows ss order k).length := by
  rw [rawRows_readOrder, List.getElem?_map] at h
  cases hr : (List.range (rawRows ss order k).length)[n]? with
  | none => simp [hr] at h
  | some m =>
    have := List.getElem?_eq_some_iff.mp hr
    obtain ⟨hlt, hm⟩ := this
    simp only [List.length_range] at hlt
    simp only [List.getElem_range] at hm
    subst hm
    simp only [hr, Option.map_some, Option.some.injEq] at h
    exact ⟨h.symm, hlt⟩

theorem rawRows_readOrder_length (ss : List Stmt) (order : List (String × List Val)) (k : String) :
    (rawRows ss (readOrder ss order) k).length = (rawRows ss order k).length := by
  rw [rawRows_readOrder]; simp

section transfer
variable (ss : List Stmt) (order : List (String × List Val)) (g : ApiGuards ss order)
include g

theorem matches_readOrder (a : AssocStmt) (ha : a ∈ popAssocs ss) (i j : Nat) (s s' t t' : Row)
    (hs : (rawRows ss order a.srcKind)[i]? = some s) (hs' : (rawRows ss (readOrder ss order) a.srcKind)[i]? = some s')
    (ht : (rawRows ss order a.tgtKind)[j]? = some t) (ht' : (rawRows ss (readOrder ss order) a.tgtKind)[j]? = some t') :
    matchesB a s' t' = matchesB a s t := by
  rw [(getElem?_readOrder ss order _ i s' hs').1, (getElem?_readOrder ss order _ j t' ht').1]
  exact matches_read ss order g a ha i j s t hs ht

theorem nestedJoin_readOrder (a : AssocStmt) (ha : a ∈ popAssocs ss) :
    nestedJoin a (rawRows ss (readOrder ss order) a.srcKind) (rawRows ss (readOrder ss order) a.tgtKind) =
      nestedJoin a (rawRows ss order a.srcKind) (rawRows ss order a.tgtKind) :=
  nestedJoin_congr a _ _ _ _ (rawRows_readOrder_length ss order _) (rawRows_readOrder_length ss order _)
    (fun i j s s' t t' hs hs' ht ht' => matches_readOrder ss order g a ha i j s s' t t' hs hs' ht ht')

theorem referredFirst_read (a : AssocStmt) (ha : a ∈ popAssocs ss) (pre : List (String × List Val))
    (o : String × List Val) (suf : List (String × List Val)) (horder : order = pre ++ o :: suf)
    (pre' : List (String × List Val)) (o' : String × List Val)
    (hpre : pre' = relabelFrom (readArgs ss order) [] pre)
    (ho' : o' = (o.1, readArgs ss order o.1 (countKind pre o.1))) (hk : o'.1 = a.tgtKind) :
    ∀ s' ∈ rawRows ss pre' a.srcKind, matchesB a s' (rawRow ss o') = false := by
  intro s' hs'
  have hko : o.1 = a.tgtKind := by rw [← hk, ho']
  rw [hpre, rawRows_relabelFrom] at hs'
  obtain ⟨m, hm, rfl⟩ := List.mem_map.mp hs'
  have hmlt : m < (rawRows ss pre a.srcKind).length := by
    rw [rawRows_length]; simpa using hm
  have hsraw : (rawRows ss order a.srcKind)[m]? = some (rawRows ss pre a.srcKind)[m] := by
    have e : rawRows ss order a.srcKind = rawRows ss pre a.srcKind ++ rawRows ss (o :: suf) a.srcKind := by
      rw [horder, rawRows_append]
    rw [e, List.getElem?_append_left hmlt]
    exact List.getElem?_eq_getElem hmlt
  have htraw : (rawRows ss order a.tgtKind)[countKind pre a.tgtKind]? = some (rawRow ss o) := by
    have e : rawRows ss order a.tgtKind = rawRows ss pre a.tgtKind ++ (rawRow ss o :: rawRows ss suf a.tgtKind) := by
      rw [horder, rawRows_append, rawRows_cons, if_pos hko]; rfl
    rw [e, List.getElem?_append_right (by rw [rawRows_length]; exact Nat.le_refl _)]
    simp [rawRows_length]
  have hmr := matches_read ss order g a ha m _ _ _ hsraw htraw
  have hc0 : countKind ([] : List (String × List Val)) a.srcKind = 0 := rfl
  rw [ho', hko, hc0, Nat.zero_add, hmr]
  exact g.referredFirst a ha pre o suf horder hko _ (List.getElem_mem hmlt)

theorem declared_readOrder : ∀ o' ∈ readOrder ss order,
    (findCls (popClasses ss) o'.1).isSome = true ∧ o'.2.length = (attrsOf ss o'.1).length := by
  intro o' ho'
  obtain ⟨o, ho, n, rfl⟩ := mem_relabelFrom _ _ _ _ ho'
  exact ⟨(g.declared o ho).1, by simp [readArgs]⟩

theorem get_rawRow_not_declared (o : String × List Val) (x : String) (hlen : o.2.length = (attrsOf ss o.1).length)
    (hx : x ∉ (attrsOf ss o.1).map (·.1)) : (rawRow ss o).get x = .none := by
  have hn := names_mkRow_none (attrsOf ss o.1) o.2 hlen
  unfold Row.get rawRow
  cases hl : (mkRow (attrsOf ss o.1) none o.2).lookup x with
  | none => rfl
  | some v =>
    exfalso
    apply hx
    rw [← hn]
    have := mem_of_lookup hl
    exact List.mem_map.mpr ⟨(x, v), this, rfl⟩

/-- the metamodel loaded from the read rows has the links of the one loaded from the rows as written -/
theorem loaded_assocs_readOrder : (loaded ss (readOrder ss order)).assocs = (loaded ss order).assocs := by
  rw [loaded_assocs' ss (readOrder ss order) g.schemaOnly (fun a ha => (g.keys a ha).1) (declared_readOrder ss order g),
    loaded_assocs ss order g]
  apply List.map_congr_left
  intro a ha
  rw [nestedJoin_readOrder ss order g a ha]

/-- ... and every attribute of every row reads on it as on the one loaded from the rows as written -/
theorem readAttr_readOrder : ∀ (f : Nat) (k : String) (u : Nat) (x : String), u < (rawRows ss order k).length →
    readAttr (loaded ss (readOrder ss order)) f k u x = readAttr (loaded ss order) f k u x := by
  intro f
  induction f with
  | zero => intro _ _ _ _; rfl
  | succ f ih =>
    intro k u x hu
    simp only [readAttr, loaded_assocs_readOrder ss order g]
    by_cases hx : (referential ((loaded ss order).assocs.map (·.1)) k).contains x
    · simp only [hx, if_true]
      apply readChain_congr
      · rfl
      · intro q p p' hq hq' _
        rw [hq] at hq'; cases hq'; rfl
      · intro q p j tk hq hk hhead
        have hp : p ∈ (loaded ss order).assocs := List.mem_reverse.mp (List.mem_of_getElem? hq)
        rw [loaded_assocs ss order g] at hp
        obtain ⟨a, ha, rfl⟩ := List.mem_map.mp hp
        simp only at hk hhead ⊢
        apply ih
        have hj : j ∈ (nestedJoin a (rawRows ss order a.srcKind) (rawRows ss order a.tgtKind)).tgt u :=
          List.mem_of_mem_head? hhead
        obtain ⟨_, t, _, ht, _⟩ := (mem_nestedJoin_tgt a _ _ u j).mp hj
        exact (List.getElem?_eq_some_iff.mp ht).1
    · simp only [hx, Bool.false_eq_true, if_false, Option.some.injEq]
      have hxn : x ∉ referential (popAssocs ss) k := by
        rw [loaded_assocs_fst ss order g] at hx; simpa using hx
      rw [loaded_rows' ss (readOrder ss order) g.schemaOnly (declared_readOrder ss order g), loaded_rows ss order g]
      have hr : (rawRows ss order k)[u]? = some (rawRows ss order k)[u] := List.getElem?_eq_getElem hu
      have hr' : (rawRows ss (readOrder ss order) k)[u]? = some (rawRow ss (k, readArgs ss order k u)) := by
        rw [rawRows_readOrder, List.getElem?_map, List.getElem?_range hu]
        rfl
      rw [hr, hr']
      simp only [Option.getD_some, rawRow, readArgs]
      rw [get_mkRow_map]
      by_cases hd : x ∈ (attrsOf ss k).map (·.1)
      · rw [if_pos hd]
        exact (readVal_spec ss order g k u _ hr x).2.1 hxn
      · rw [if_neg hd]
        -- an attribute the class does not declare reads `None` on both
        have hmem : (rawRows ss order k)[u] ∈ rawRows ss order k := List.getElem_mem hu
        obtain ⟨o, ho, hoe⟩ := List.mem_map.mp
          (show (rawRows ss order k)[u] ∈ (order.filter (fun o => o.1 = k)).map (rawRow ss) from hmem)
        obtain ⟨hom, hok⟩ := List.mem_filter.mp ho
        have hk' : o.1 = k := by simpa using hok
        have := get_rawRow_not_declared ss order g o x (g.declared o hom).2 (by rw [hk']; exact hd)
        rw [← hoe, this]

theorem apiGuards_readOrder : ApiGuards ss (readOrder ss order) := by
  have hfst : (readOrder ss order).map (·.1) = order.map (·.1) := relabelFrom_map_fst _ _ _
  refine ⟨g.schemaOnly, g.accepted, g.keys, ?_, ?_, g.srcDeclared, g.resolves, declared_readOrder ss order g, ?_, ?_, ?_⟩
  · -- reads on the metamodel loaded from the read rows are the reads on the one loaded from the rows as written
    intro k i x hi
    rw [rawRows_readOrder_length] at hi
    rw [readAttr_readOrder ss order g _ k i x hi]
    exact g.readsTerminate k i x hi
  · intro a ha i j s' t' hs' ht' hm tk htk
    have hilt := (getElem?_readOrder ss order _ i s' hs').2
    have hjlt := (getElem?_readOrder ss order _ j t' ht').2
    have hsi : (rawRows ss order a.srcKind)[i]? = some (rawRows ss order a.srcKind)[i] := List.getElem?_eq_getElem hilt
    have htj : (rawRows ss order a.tgtKind)[j]? = some (rawRows ss order a.tgtKind)[j] := List.getElem?_eq_getElem hjlt
    have hmr : matchesB a (rawRows ss order a.srcKind)[i] (rawRows ss order a.tgtKind)[j] = true := by
      rw [← matches_readOrder ss order g a ha i j _ s' _ t' hsi hs' htj ht']; exact hm
    have hres := g.resolved a ha i j _ _ hsi htj hmr tk htk
    rw [readAttr_readOrder ss order g _ a.tgtKind j tk hjlt, hres]
    -- the read row carries the value read back
    rw [(getElem?_readOrder ss order _ j t' ht').1]
    simp only [rawRow, readArgs]
    rw [get_mkRow_map, if_pos (tgtKeys_declared ss g.accepted a ha tk htk)]
    have hF := fuelOf_loaded_ge ss order
    have hresF := readAttr_mono (loaded ss order) (show readBound ss ≤ fuelOf (loaded ss order) by omega)
      a.tgtKind j tk _ hres
    unfold readVal
    rw [hresF]
    rfl
  · intro a ha pre' o' suf' hord hk s' hs'
    -- align the decomposition of the read rows with one of the rows as written
    have hlen : (readOrder ss order).length = order.length := relabelFrom_length _ _ _
    have hn : pre'.length ≤ order.length := by
      rw [← hlen, hord]; simp
    have hsplit : readOrder ss order = relabelFrom (readArgs ss order) [] (order.take pre'.length) ++
        relabelFrom (readArgs ss order) (order.take pre'.length) (order.drop pre'.length) := by
      have := relabelFrom_append (readArgs ss order) (order.take pre'.length) (order.drop pre'.length) []
      rw [List.take_append_drop, List.nil_append] at this
      exact this
    rw [hsplit] at hord
    obtain ⟨hpre, hrest⟩ := List.append_inj hord (by rw [relabelFrom_length, List.length_take]; omega)
    cases hdrop : order.drop pre'.length with
    | nil => rw [hdrop] at hrest; simp [relabelFrom] at hrest
    | cons o suf =>
      rw [hdrop] at hrest
      simp only [relabelFrom, List.cons.injEq] at hrest
      obtain ⟨ho', _⟩ := hrest
      have horder : order = order.take pre'.length ++ o :: suf := by
        rw [← hdrop, List.take_append_drop]
      exact referredFirst_read ss order g a ha (order.take pre'.length) o suf horder pre' o' hpre.symm ho'.symm hk s' hs'
  · intro a ha hsm t' ht'
    obtain ⟨j, hj⟩ := List.getElem?_of_mem ht'
    have hjlt := (getElem?_readOrder ss order _ j t' hj).2
    have htj : (rawRows ss order a.tgtKind)[j]? = some (rawRows ss order a.tgtKind)[j] := List.getElem?_eq_getElem hjlt
    rw [selectIdx_congr_idx _ (rawRows ss order a.srcKind) _ (fun s => matchesB a s (rawRows ss order a.tgtKind)[j]) 0
      (rawRows_readOrder_length ss order _)
      (fun i s' s hs' hs => matches_readOrder ss order g a ha i j s s' _ t' hs hs' htj hj)]
    exact g.cardSrc a ha hsm _ (List.getElem_mem hjlt)
  · intro a ha htm s' hs'
    obtain ⟨i, hi⟩ := List.getElem?_of_mem hs'
    have hilt := (getElem?_readOrder ss order _ i s' hi).2
    have hsi : (rawRows ss order a.srcKind)[i]? = some (rawRows ss order a.srcKind)[i] := List.getElem?_eq_getElem hilt
    rw [selectIdx_congr_idx _ (rawRows ss order a.tgtKind) _ (fun t => matchesB a (rawRows ss order a.srcKind)[i] t) 0
      (rawRows_readOrder_length ss order _)
      (fun j t' t ht' ht => matches_readOrder ss order g a ha i j _ s' t t' hsi hi ht ht')]
    exact g.cardTgt a ha htm _ (List.getElem_mem hilt)

end transfer

theorem popUniques_inserts (order : List (String × List Val)) (cs : List Cls) : popUniques (insertsOf order) cs = cs := by
  unfold popUniques insertsOf
  induction order generalizing cs with
  | nil => rfl
  | cons o os ih => simpa [List.foldl_cons] using ih cs

theorem schemaModel_append_inserts (ss : List Stmt) (order : List (String × List Val)) :
    schemaModel (ss ++ insertsOf order) = schemaModel ss := by
  unfold schemaModel
  rw [popClasses_append, popClasses_inserts, List.append_nil, popAssocs_append, popAssocs_inserts, List.append_nil]
  congr 1
  unfold popUniques
  rw [List.foldl_append]
  exact popUniques_inserts order _

end Pyx.Load
