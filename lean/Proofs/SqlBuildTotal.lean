import Proofs.SqlBuildOk

set_option linter.unusedSimpArgs false

/-!
  The places of `build` where Python could raise a built-in exception (`BuildErr.builtinErr`, PyxModel/Sql/Build.lean)
  cannot be reached.  This file: the fifth phase.  Every state that phases 1–4 reach keeps two invariants — class
  names distinct after upper-casing, and every stored value of an attribute whose type is STRING is a string (it was
  produced by `deserialize_value` for that type) — and under them `_is_null` never calls `len` on a non-string.
-/
namespace Pyx.Sql

/-! ### typed rows -/

def cellTyped (u : UC) (ty : Name) : Cell → Bool
  | .val x => !(tyOfName u ty == some .STRING) || x.isStr
  | _ => true

/-- every value stored for an attribute of type STRING is a string -/
def rowTyped (u : UC) : List (Name × Name) → List Cell → Bool
  | a :: as, c :: cs => cellTyped u a.2 c && rowTyped u as cs
  | _, _ => true

theorem deserialize_str (u : UC) (ty v : Text) (x : Val) (h : deserialize u ty v = some x)
    (ht : tyOfName u ty = some .STRING) : x.isStr = true := by
  unfold deserialize at h
  rw [ht] at h
  simp only [Option.some.injEq] at h
  subst h; rfl

theorem cellTyped_of_deserialize (u : UC) (ty v : Text) (x : Val) (h : deserialize u ty v = some x) :
    cellTyped u ty (.val x) = true := by
  unfold cellTyped
  cases ht : tyOfName u ty == some .STRING with
  | false => rfl
  | true => simp [deserialize_str u ty v x h (by simpa using ht)]

theorem rowTyped_initial (u : UC) (c : ClassB) : ∀ (attrs : List (Name × Name)),
    rowTyped u attrs (attrs.map (fun a => initialCell c a.1)) = true := by
  intro attrs
  induction attrs with
  | nil => rfl
  | cons a as ih =>
    simp only [List.map_cons, rowTyped, ih, Bool.and_true]
    unfold initialCell
    split <;> rfl

theorem positionalCells_typed (u : UC) (c : ClassB) : ∀ (attrs : List (Name × Name)) (values : List Text) (cells : List Cell),
    positionalCells u c attrs values = .ok cells → rowTyped u attrs cells = true := by
  intro attrs
  induction attrs with
  | nil => intro values cells h; simp only [positionalCells, Except.ok.injEq] at h; subst h; rfl
  | cons a as ih =>
    intro values cells h
    obtain ⟨nm, ty⟩ := a
    cases values with
    | nil =>
      simp only [positionalCells, Except.ok.injEq] at h; subst h
      exact rowTyped_initial u c _
    | cons v vs =>
      simp only [positionalCells] at h
      cases hd : deserialize u ty v with
      | none => rw [hd] at h; cases h
      | some x =>
        rw [hd] at h; simp only at h
        cases hr : positionalCells u c as vs with
        | error e => rw [hr] at h; cases h
        | ok cells' =>
          rw [hr] at h; simp only [Except.ok.injEq] at h; subst h
          simp only [rowTyped, cellTyped_of_deserialize u ty v x hd, ih vs cells' hr, Bool.and_self]

theorem namedCells_typed (u : UC) (names : List Name) (values : List Text) : ∀ (attrs : List (Name × Name)) (cells : List Cell),
    namedCells u names values attrs = .ok cells → rowTyped u attrs cells = true := by
  intro attrs
  induction attrs with
  | nil => intro cells h; simp only [namedCells, Except.ok.injEq] at h; subst h; rfl
  | cons a as ih =>
    intro cells h
    obtain ⟨nm, ty⟩ := a
    simp only [namedCells] at h
    cases hi : indexOfUpper u (u.upper nm) names 0 with
    | none =>
      rw [hi] at h; simp only at h
      cases hr : namedCells u names values as with
      | error e => rw [hr] at h; cases h
      | ok cells' =>
        rw [hr] at h; simp only [Except.ok.injEq] at h; subst h
        simp only [rowTyped, cellTyped, ih cells' hr, Bool.and_self]
    | some idx =>
      rw [hi] at h; simp only at h
      cases hv : values[idx]? with
      | none => rw [hv] at h; cases h
      | some v =>
        rw [hv] at h; simp only at h
        cases hd : deserialize u ty v with
        | none => rw [hd] at h; cases h
        | some x =>
          rw [hd] at h; simp only at h
          cases hr : namedCells u names values as with
          | error e => rw [hr] at h; cases h
          | ok cells' =>
            rw [hr] at h; simp only [Except.ok.injEq] at h; subst h
            simp only [rowTyped, cellTyped_of_deserialize u ty v x hd, ih cells' hr, Bool.and_self]

theorem rowTyped_tail (u : UC) (a : Name × Name) (as : List (Name × Name)) (row : List Cell)
    (h : rowTyped u (a :: as) row = true) : rowTyped u as row.tail = true := by
  cases row with
  | nil => cases as <;> rfl
  | cons c cs => simp only [rowTyped, Bool.and_eq_true] at h; exact h.2

/-- the value `_is_null` finds for a STRING attribute is a string -/
theorem nullCell_typed (u : UC) (uname : Text) : ∀ (attrs : List (Name × Name)) (row : List Cell) (ty : Name) (x : Val),
    rowTyped u attrs row = true → nullCell u uname attrs row = some (ty, some (.val x)) →
    tyOfName u ty = some .STRING → x.isStr = true := by
  intro attrs
  induction attrs with
  | nil => intro row ty x _ h; simp [nullCell] at h
  | cons a as ih =>
    intro row ty x hr h ht
    obtain ⟨nm, ty'⟩ := a
    simp only [nullCell] at h
    by_cases hn : u.upper nm = uname
    · simp only [hn, if_true, Option.some.injEq, Prod.mk.injEq] at h
      obtain ⟨rfl, hh⟩ := h
      cases row with
      | nil => simp at hh
      | cons c cs =>
        simp only [List.head?_cons, Option.some.injEq] at hh; subst hh
        simp only [rowTyped, cellTyped, Bool.and_eq_true, Bool.or_eq_true, Bool.not_eq_true'] at hr
        rcases hr.1 with h1 | h1
        · rw [ht] at h1; simp at h1
        · exact h1
    · simp only [hn, if_false] at h
      exact ih row.tail ty x (rowTyped_tail u _ as row hr) h ht

theorem isNullRaises_typed (u : UC) (c : ClassB) (row : List Cell) (key : Name) (hr : rowTyped u c.attrs row = true) :
    isNullRaises u c row key = false := by
  unfold isNullRaises
  split
  · rename_i ty x hk
    cases ht : tyOfName u ty == some .STRING with
    | false => simp
    | true =>
      have := nullCell_typed u _ c.attrs row ty x hr hk (by simpa using ht)
      simp [this]
  · rfl

/-! ### the invariant of the states that phases 1–4 reach -/

/-- class names distinct after upper-casing, rows typed -/
structure Inv (u : UC) (s : BState) : Prop where
  distinct : KindsDistinct u s.classes
  typed : ∀ c ∈ s.classes, ∀ row ∈ c.rows, rowTyped u c.attrs row = true

theorem inv_empty (u : UC) : Inv u BState.empty := ⟨by simp [KindsDistinct, BState.empty], by simp [BState.empty]⟩

theorem kindsDistinct_snoc (u : UC) (s : BState) (c : ClassB) (hd : KindsDistinct u s.classes)
    (hf : s.find? u c.kind = none) : KindsDistinct u (s.classes ++ [c]) := by
  have hnone : ∀ d ∈ s.classes, u.upper d.kind ≠ u.upper c.kind := by
    intro d hdm
    simp only [BState.find?, List.find?_eq_none] at hf
    have := hf d hdm
    simpa using this
  unfold KindsDistinct at hd ⊢
  simp only [List.map_append, List.map_cons, List.map_nil]
  rw [List.nodup_append]
  refine ⟨hd, by simp, ?_⟩
  intro a ha b hb
  simp only [List.mem_singleton] at hb; subst hb
  obtain ⟨d, hdm, rfl⟩ := List.mem_map.mp ha
  exact hnone d hdm

/-- a new class without rows, under a name not yet taken -/
theorem inv_snoc (u : UC) (s : BState) (c : ClassB) (h : Inv u s) (hf : s.find? u c.kind = none) (hr : c.rows = []) :
    Inv u { s with classes := s.classes ++ [c] } := by
  refine ⟨kindsDistinct_snoc u s c h.distinct hf, ?_⟩
  intro d hd row hrow
  simp only [List.mem_append, List.mem_singleton] at hd
  rcases hd with hd | rfl
  · exact h.typed d hd row hrow
  · rw [hr] at hrow; simp at hrow

/-- a change of every class that keeps kind, attributes and rows -/
theorem inv_map (u : UC) (s : BState) (g : ClassB → ClassB) (as : List AssocB) (h : Inv u s) (hk : ∀ c, (g c).kind = c.kind)
    (ha : ∀ c, (g c).attrs = c.attrs) (hr : ∀ c, (g c).rows = c.rows) : Inv u ⟨s.classes.map g, as⟩ := by
  refine ⟨?_, ?_⟩
  · have := h.distinct
    unfold KindsDistinct at this ⊢
    rw [List.map_map]
    have e : (fun c => u.upper c.kind) ∘ g = fun c : ClassB => u.upper c.kind := by
      funext c; simp only [Function.comp, hk]
    rw [e]; exact this
  · intro c' hc' row hrow
    obtain ⟨c, hc, rfl⟩ := List.mem_map.mp hc'
    rw [hr] at hrow; rw [ha]
    exact h.typed c hc row hrow

theorem popClasses_inv (u : UC) : ∀ (stmts : List Stmt) (s s' : BState), Inv u s → popClasses u stmts s = .ok s' → Inv u s' := by
  intro stmts
  induction stmts with
  | nil => intro s s' h he; simp only [popClasses, Except.ok.injEq] at he; subst he; exact h
  | cons st rest ih =>
    intro s s' h he
    cases st with
    | createTable kind attrs =>
      simp only [popClasses, defineClass] at he
      cases hf : s.find? u kind with
      | some c => rw [hf] at he; cases he
      | none =>
        rw [hf] at he; simp only at he
        by_cases hn : attrNamesOk u attrs = true
        · simp only [hn, if_true] at he
          exact ih _ s' (inv_snoc u s ⟨kind, attrs, [], [], []⟩ h hf rfl) he
        · simp only [hn, Bool.false_eq_true, if_false] at he; cases he
    | createRop _ _ _ _ _ _ _ _ _ => exact ih s s' h (by simpa [popClasses] using he)
    | createIndex _ _ _ => exact ih s s' h (by simpa [popClasses] using he)
    | insert _ _ _ => exact ih s s' h (by simpa [popClasses] using he)

theorem inv_update (u : UC) (s : BState) (kind : Name) (f : ClassB → ClassB) (h : Inv u s) (hk : ∀ c, (f c).kind = c.kind)
    (ha : ∀ c, (f c).attrs = c.attrs) (hr : ∀ c, (f c).rows = c.rows) : Inv u (s.update u kind f) := by
  have := inv_map u s (fun c => if u.upper c.kind == u.upper kind then f c else c) s.assocs h
    (fun c => by split <;> simp [hk]) (fun c => by split <;> simp [ha]) (fun c => by split <;> simp [hr])
  exact this

theorem popIdents_inv (u : UC) : ∀ (stmts : List Stmt) (s s' : BState), Inv u s → popIdents u stmts s = .ok s' → Inv u s' := by
  intro stmts
  induction stmts with
  | nil => intro s s' h he; simp only [popIdents, Except.ok.injEq] at he; subst he; exact h
  | cons st rest ih =>
    intro s s' h he
    cases st with
    | createIndex kind name attrs =>
      simp only [popIdents] at he
      by_cases hem : attrs.isEmpty = true
      · simp only [hem, if_true] at he; exact ih s s' h he
      · simp only [hem, Bool.false_eq_true, if_false] at he
        cases hf : s.find? u kind with
        | none => rw [hf] at he; cases he
        | some c =>
          rw [hf] at he; simp only at he
          exact ih _ s' (inv_update u s kind (fun c => { c with indices := dictSet name attrs c.indices }) h
            (fun _ => rfl) (fun _ => rfl) (fun _ => rfl)) he
    | createTable _ _ => exact ih s s' h (by simpa [popIdents] using he)
    | createRop _ _ _ _ _ _ _ _ _ => exact ih s s' h (by simpa [popIdents] using he)
    | insert _ _ _ => exact ih s s' h (by simpa [popIdents] using he)

theorem popAssocs_inv (u : UC) : ∀ (stmts : List Stmt) (s s' : BState), Inv u s → popAssocs u stmts s = .ok s' → Inv u s' := by
  intro stmts
  induction stmts with
  | nil => intro s s' h he; simp only [popAssocs, Except.ok.injEq] at he; subst he; exact h
  | cons st rest ih =>
    intro s s' h he
    cases st with
    | createRop rel sk sc skeys sp tk tc tkeys tp =>
      simp only [popAssocs] at he
      cases h1 : s.find? u sk with
      | none => rw [h1] at he; cases he
      | some c1 =>
        cases h2 : s.find? u tk with
        | none => rw [h1, h2] at he; cases he
        | some c2 =>
          rw [h1, h2] at he; simp only at he
          by_cases hdu : skeys.any isDunder = true
          · simp only [hdu, if_true] at he; cases he
          simp only [hdu, Bool.false_eq_true, if_false] at he
          by_cases hl : (skeys.length != tkeys.length) = true
          · simp only [hl, if_true] at he; cases he
          · simp only [hl, Bool.false_eq_true, if_false] at he
            by_cases hk : tkeys.all (fun k => (c2.attrs.map (fun a => u.upper a.1)).contains (u.upper k)) = true
            · simp only [hk, if_true] at he
              have hi := inv_update u s sk (fun c => { c with referential := c.referential ++ skeys }) h
                (fun _ => rfl) (fun _ => rfl) (fun _ => rfl)
              refine ih _ s' ?_ he
              exact ⟨hi.distinct, hi.typed⟩
            · simp only [hk, Bool.false_eq_true, if_false] at he; cases he
    | createTable _ _ => exact ih s s' h (by simpa [popAssocs] using he)
    | createIndex _ _ _ => exact ih s s' h (by simpa [popAssocs] using he)
    | insert _ _ _ => exact ih s s' h (by simpa [popAssocs] using he)

theorem ensureClass_inv (u : UC) (s : BState) (kind : Name) (named : Bool) (ns : List Name) (values : List Text) (h : Inv u s) :
    Inv u (ensureClass u s kind named ns values) := by
  unfold ensureClass
  cases hf : s.find? u kind with
  | some c => exact h
  | none => exact inv_snoc u s ⟨kind, inferredFor u named ns values, [], [], []⟩ h hf rfl

theorem cellsOf_typed (u : UC) (c : ClassB) (named : Bool) (ns : List Name) (values : List Text) (cells : List Cell)
    (h : cellsOf u c named ns values = .ok cells) : rowTyped u c.attrs cells = true := by
  unfold cellsOf at h
  cases named with
  | true => exact namedCells_typed u ns values c.attrs cells (by simpa using h)
  | false => exact positionalCells_typed u c c.attrs values cells (by simpa using h)

theorem popInstance_inv (u : UC) (s s' : BState) (kind : Name) (values : List Text) (names : Option (List Name))
    (h : Inv u s) (he : popInstance u s kind values names = .ok s') : Inv u s' := by
  unfold popInstance at he
  split at he
  · cases he
  split at he
  · cases he
  split at he
  · cases he
  have h1 := ensureClass_inv u s kind (isNamed names) (names.getD []) values h
  generalize ensureClass u s kind (isNamed names) (names.getD []) values = s1 at he h1
  cases hf : s1.find? u kind with
  | none => rw [hf] at he; cases he
  | some c =>
    rw [hf] at he; simp only at he
    split at he
    · cases he
    cases hc : cellsOf u c (isNamed names) (names.getD []) values with
    | error e => rw [hc] at he; cases he
    | ok cells =>
      rw [hc] at he
      simp only [Except.ok.injEq] at he; subst he
      have hcm : c ∈ s1.classes := List.mem_of_find?_eq_some hf
      have hck : sameKind u c.kind kind = true := by
        have := List.find?_some (show s1.classes.find? (fun c => u.upper c.kind == u.upper kind) = some c from hf)
        exact this
      refine ⟨?_, ?_⟩
      · have := h1.distinct
        unfold KindsDistinct at this ⊢
        rw [update_eq_map, List.map_map]
        have e : (fun c => u.upper c.kind) ∘ (fun c : ClassB => if sameKind u c.kind kind then { c with rows := c.rows ++ [cells] } else c) =
            fun c : ClassB => u.upper c.kind := by
          funext d; simp only [Function.comp]; split <;> rfl
        rw [e]; exact this
      · intro d' hd' row hrow
        rw [update_eq_map] at hd'
        obtain ⟨d, hd, rfl⟩ := List.mem_map.mp hd'
        by_cases hk : sameKind u d.kind kind = true
        · have : d = c := eq_of_sameKind u h1.distinct hd hcm hk hck
          subst this
          simp only [hk, if_true, List.mem_append, List.mem_singleton] at hrow ⊢
          rcases hrow with hrow | rfl
          · exact h1.typed d hd row hrow
          · exact cellsOf_typed u d _ _ values row hc
        · simp only [hk, Bool.false_eq_true, if_false] at hrow ⊢
          exact h1.typed d hd row hrow

theorem popInstances_inv (u : UC) : ∀ (stmts : List Stmt) (s s' : BState), Inv u s → popInstances u stmts s = .ok s' → Inv u s' := by
  intro stmts
  induction stmts with
  | nil => intro s s' h he; simp only [popInstances, Except.ok.injEq] at he; subst he; exact h
  | cons st rest ih =>
    intro s s' h he
    cases st with
    | insert kind values names =>
      simp only [popInstances] at he
      cases hp : popInstance u s kind values names with
      | error e => rw [hp] at he; cases he
      | ok s1 => rw [hp] at he; exact ih s1 s' (popInstance_inv u s s1 kind values names h hp) he
    | createTable _ _ => exact ih s s' h (by simpa [popInstances] using he)
    | createIndex _ _ _ => exact ih s s' h (by simpa [popInstances] using he)
    | createRop _ _ _ _ _ _ _ _ _ => exact ih s s' h (by simpa [popInstances] using he)

/-- every state that phases 1–4 reach satisfies the invariant -/
theorem buildCore_inv (u : UC) (stmts : List Stmt) (s : BState) (h : buildCore u stmts = .ok s) : Inv u s := by
  unfold buildCore at h
  cases h1 : popClasses u stmts BState.empty with
  | error e => rw [h1] at h; cases h
  | ok s1 =>
    rw [h1] at h; simp only at h
    cases h2 : popIdents u stmts s1 with
    | error e => rw [h2] at h; cases h
    | ok s2 =>
      rw [h2] at h; simp only at h
      cases h3 : popAssocs u stmts s2 with
      | error e => rw [h3] at h; cases h
      | ok s3 =>
        rw [h3] at h; simp only at h
        exact popInstances_inv u stmts s3 s
          (popAssocs_inv u stmts s2 s3 (popIdents_inv u stmts s1 s2 (popClasses_inv u stmts _ s1 (inv_empty u) h1) h2) h3) h

/-! ### phase 5 raises nothing -/

theorem connRaises_of_inv (u : UC) (s : BState) (h : Inv u s) : connRaises u s = false := by
  have hk : ∀ kind keys, classKeysRaise u s kind keys = false := by
    intro kind keys
    unfold classKeysRaise
    cases hf : s.find? u kind with
    | none => rfl
    | some c =>
      simp only
      rw [List.any_eq_false]
      intro row hrow
      rw [Bool.not_eq_true, List.any_eq_false]
      intro k _
      rw [Bool.not_eq_true]
      exact isNullRaises_typed u c row k (h.typed c (List.mem_of_find?_eq_some hf) row hrow)
  unfold connRaises
  rw [List.any_eq_false]
  intro a _
  simp [hk]

/-- `populate_connections` never raises after phases 1–4: `_is_null` calls `len` on strings only -/
theorem popConnections_ok (u : UC) (stmts : List Stmt) (s : BState) (h : buildCore u stmts = .ok s) :
    popConnections u s = .ok s := by
  simp [popConnections, connRaises_of_inv u s (buildCore_inv u stmts s h)]

theorem buildPhases_eq_core (u : UC) (stmts : List Stmt) : buildPhases u stmts = buildCore u stmts := by
  unfold buildPhases
  cases h : buildCore u stmts with
  | error e => rfl
  | ok s => exact popConnections_ok u stmts s h

/-- the build is its first four phases: the fifth never raises -/
theorem build_eq_core (u : UC) (stmts : List Stmt) : build u stmts = buildCore u stmts := by
  simp [build, buildPhases_eq_core]

/-- BUILD SUCCESS: a well-formed statement list builds, and the built state holds exactly the declared classes in
    statement order (attributes as declared), each with the identifiers, referential attributes and rows its statements
    give it in statement order, and the associations in statement order -/
theorem build_ok (u : UC) (stmts : List Stmt) (h : BuildOk u stmts) :
    build u stmts = .ok { classes := (newTables stmts).map (builtClass u stmts), assocs := ropsOf stmts } := by
  rw [build_eq_core u stmts]; exact buildCore_ok u stmts h

end Pyx.Sql
