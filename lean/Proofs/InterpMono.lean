import PyxModel.Interp.Spec

/-!
  Fuel monotonicity of the reference interpreter `Spec`.

  `M.le m m'`: every result `m` delivers (a value or an error — anything but "out of fuel") is
  delivered by `m'` too.  Each level of the interpreter is monotone in its oracle, hence
  `run C n ≤ run C (n + k)`.
-/
namespace Pyx.Interp
open M

def M.le {α : Type} (m m' : M α) : Prop := ∀ c r, m c = some r → m' c = some r

def Oracle.le (r r' : Oracle) : Prop :=
  (∀ e, M.le (r.eval e) (r'.eval e)) ∧ (∀ s, M.le (r.exec s) (r'.exec s))

theorem M.le_refl {α : Type} (m : M α) : M.le m m := fun _ _ h => h

theorem M.le_trans {α : Type} {a b c : M α} (h1 : M.le a b) (h2 : M.le b c) : M.le a c :=
  fun x r h => h2 x r (h1 x r h)

theorem Oracle.le_refl (r : Oracle) : Oracle.le r r := ⟨fun _ => M.le_refl _, fun _ => M.le_refl _⟩

theorem Oracle.le_trans {a b c : Oracle} (h1 : Oracle.le a b) (h2 : Oracle.le b c) : Oracle.le a c :=
  ⟨fun e => M.le_trans (h1.1 e) (h2.1 e), fun s => M.le_trans (h1.2 s) (h2.2 s)⟩

theorem M.bind_le {α β : Type} {m m' : M α} {f f' : α → M β}
    (hm : M.le m m') (hf : ∀ a, M.le (f a) (f' a)) : M.le (m >>= f) (m' >>= f') := by
  intro c r h
  show M.bnd m' f' c = some r
  have h' : M.bnd m f c = some r := h
  unfold M.bnd at h' ⊢
  cases hmc : m c with
  | none => rw [hmc] at h'; cases h'
  | some x =>
    rw [hmc] at h'
    rw [hm c x hmc]
    cases x with
    | error e => exact h'
    | ok p => obtain ⟨a, c'⟩ := p; exact hf a c' r h'

theorem M.bind_le_right {α β : Type} (m : M α) {f f' : α → M β}
    (hf : ∀ a, M.le (f a) (f' a)) : M.le (m >>= f) (m >>= f') := M.bind_le (M.le_refl m) hf

/-- close a `M.le` goal between two terms of the same shape that differ only in the oracle -/
syntax "mono_tac" : tactic
macro_rules
  | `(tactic| mono_tac) => `(tactic|
      repeat (first
        | exact M.le_refl _
        | assumption
        | apply M.bind_le
        | intro _
        | split))

section
variable {r r' : Oracle} (h : Oracle.le r r')
include h

theorem execList_le : ∀ l, M.le (execList r l) (execList r' l)
  | [] => M.le_refl _
  | s :: rest => by
    unfold execList
    apply M.bind_le (h.2 s)
    intro o
    cases o <;> first | exact execList_le rest | exact M.le_refl _

theorem execBlock_le (b : Block) : M.le (execBlock r b) (execBlock r' b) := by
  unfold execBlock
  apply M.bind_le_right; intro _
  apply M.bind_le (execList_le h b); intro _
  exact M.le_refl _

theorem execElifs_le : ∀ l els, M.le (execElifs r l els) (execElifs r' l els)
  | [], none => M.le_refl _
  | [], some b => execBlock_le h b
  | (c, b) :: rest, els => by
    unfold execElifs
    apply M.bind_le (h.1 c); intro v
    apply M.bind_le_right; intro t
    cases t
    · exact execElifs_le rest els
    · exact execBlock_le h b

theorem forItems_le (v : String) (body : Block) : ∀ l, M.le (forItems r v body l) (forItems r' v body l)
  | [] => M.le_refl _
  | i :: rest => by
    unfold forItems
    apply M.bind_le_right; intro _
    apply M.bind_le (execBlock_le h body); intro o
    cases o <;> first | exact forItems_le v body rest | exact M.le_refl _

theorem evalWhere_le (wh : Expr) (c : Inst) : M.le (evalWhere r wh c) (evalWhere r' wh c) := by
  unfold evalWhere
  apply M.bind_le_right; intro _
  apply M.bind_le_right; intro _
  apply M.bind_le (h.1 wh); intro _
  exact M.le_refl _

theorem filterAll_le (wh : Expr) : ∀ l, M.le (filterAll r wh l) (filterAll r' wh l)
  | [] => M.le_refl _
  | c :: rest => by
    unfold filterAll
    apply M.bind_le (evalWhere_le h wh c); intro t
    apply M.bind_le (filterAll_le wh rest); intro _
    exact M.le_refl _

theorem filterFirst_le (wh : Expr) : ∀ l, M.le (filterFirst r wh l) (filterFirst r' wh l)
  | [] => M.le_refl _
  | c :: rest => by
    unfold filterFirst
    apply M.bind_le (evalWhere_le h wh c); intro t
    cases t
    · exact filterFirst_le wh rest
    · exact M.le_refl _

theorem selectResult_le (many : Bool) (cands : List Inst) (wh : Option Expr) :
    M.le (selectResult r many cands wh) (selectResult r' many cands wh) := by
  unfold selectResult
  cases many <;> cases wh <;> simp only
  · exact M.le_refl _
  · apply M.bind_le (filterFirst_le h _ _); intro _; exact M.le_refl _
  · exact M.le_refl _
  · apply M.bind_le (filterAll_le h _ _); intro _; exact M.le_refl _

theorem evalArgs_le : ∀ l, M.le (evalArgs r l) (evalArgs r' l)
  | [] => M.le_refl _
  | (n, e) :: rest => by
    unfold evalArgs
    apply M.bind_le (h.1 e); intro _
    apply M.bind_le (evalArgs_le rest); intro _
    exact M.le_refl _

theorem runBody_le (body : Block) : M.le (runBody r body) (runBody r' body) := by
  unfold runBody
  apply M.bind_le (execBlock_le h body); intro _
  exact M.le_refl _

theorem invoke_le (kind : WalkerKind) (body : Block) (kw : List (String × Val)) (self : Val) :
    M.le (invoke r kind body kw self) (invoke r' kind body kw self) := by
  intro c res hres
  unfold invoke at hres ⊢
  cases hb : runBody r body { fr := mkFrame kind kw self, st := c.st } with
  | none => rw [hb] at hres; cases hres
  | some x => rw [hb] at hres; rw [runBody_le h body _ _ hb]; exact hres

theorem readField_le (C : Ctx) (i : Inst) (name : String) :
    M.le (readField C r i name) (readField C r' i name) := by
  unfold readField
  apply M.bind_le_right; intro fr
  cases regHit fr i name
  · simp only [Bool.false_eq_true, if_false]
    split
    · exact invoke_le h _ _ _ _
    · exact M.le_refl _
  · exact M.le_refl _

theorem evalStep_le (C : Ctx) (e : Expr) : M.le (evalStep C r e) (evalStep C r' e) := by
  cases e with
  | field hx name =>
    unfold evalStep
    apply M.bind_le (h.1 hx); intro _
    apply M.bind_le_right; intro _
    exact readField_le h C _ _
  | bin op l rr =>
    unfold evalStep
    apply M.bind_le (h.1 l); intro _
    apply M.bind_le (h.1 rr); intro _
    exact M.le_refl _
  | un op e =>
    unfold evalStep
    apply M.bind_le (h.1 e); intro _
    exact M.le_refl _
  | call k name args =>
    cases k with
    | function =>
      simp only [evalStep]
      apply M.bind_le (evalArgs_le h args); intro kw
      split
      · exact invoke_le h _ _ _ _
      · exact M.le_refl _
    | implicit ns =>
      simp only [evalStep]
      apply M.bind_le (evalArgs_le h args); intro kw
      split
      · split <;> exact invoke_le h _ _ _ _
      · exact M.le_refl _
    | classOp ns =>
      simp only [evalStep]
      split
      · apply M.bind_le (evalArgs_le h args); intro kw
        exact invoke_le h _ _ _ _
      · exact M.le_refl _
    | bridge ns =>
      simp only [evalStep]
      apply M.bind_le (evalArgs_le h args); intro kw
      split
      · split <;> exact invoke_le h _ _ _ _
      · exact M.le_refl _
  | callInst hx name args =>
    unfold evalStep
    apply M.bind_le (h.1 hx); intro _
    apply M.bind_le_right; intro i
    split
    · apply M.bind_le (evalArgs_le h args); intro _
      exact invoke_le h _ _ _ _
    · exact M.le_refl _
  | _ => unfold evalStep; exact M.le_refl _

theorem execStep_le (C : Ctx) (s : Stmt) : M.le (execStep C r s) (execStep C r' s) := by
  cases s with
  | assignVar x e =>
    unfold execStep
    apply M.bind_le (h.1 e); intro _
    exact M.le_refl _
  | assignField hx name e =>
    unfold execStep
    apply M.bind_le (h.1 e); intro _
    apply M.bind_le (h.1 hx); intro _
    exact M.le_refl _
  | ifS c thn elifs els =>
    unfold execStep
    apply M.bind_le (h.1 c); intro _
    apply M.bind_le_right; intro t
    cases t
    · exact execElifs_le h _ _
    · exact execBlock_le h _
  | whileS c body =>
    unfold execStep
    apply M.bind_le (h.1 c); intro _
    apply M.bind_le_right; intro t
    cases t
    · exact M.le_refl _
    · simp only [if_true]
      apply M.bind_le (execBlock_le h body); intro o
      cases o <;> first | exact h.2 _ | exact M.le_refl _
  | forEach v setv body =>
    unfold execStep
    apply M.bind_le_right; intro s
    cases s <;> first | exact forItems_le h _ _ _ | exact M.le_refl _
  | ret e =>
    cases e with
    | none => unfold execStep; exact M.le_refl _
    | some e =>
      unfold execStep
      apply M.bind_le (h.1 e); intro _
      exact M.le_refl _
  | selectFrom many v cls wh =>
    unfold execStep
    apply M.bind_le_right; intro _
    apply M.bind_le (selectResult_le h _ _ _); intro _
    exact M.le_refl _
  | selectRelated many v hx chain wh =>
    unfold execStep
    apply M.bind_le (h.1 hx); intro _
    apply M.bind_le_right; intro _
    apply M.bind_le_right; intro _
    apply M.bind_le (selectResult_le h _ _ _); intro _
    exact M.le_refl _
  | invoke e =>
    unfold execStep
    apply M.bind_le (h.1 e); intro _
    exact M.le_refl _
  | _ => unfold execStep; exact M.le_refl _

end

theorem run_le_succ (C : Ctx) : ∀ n, Oracle.le (run C n) (run C (n + 1))
  | 0 => ⟨fun _ _ _ h => by simp [run] at h, fun _ _ _ h => by simp [run] at h⟩
  | n + 1 =>
    have ih := run_le_succ C n
    ⟨fun e => by show M.le (evalStep C (run C n) e) (evalStep C (run C (n + 1)) e); exact evalStep_le ih C e,
     fun s => by show M.le (execStep C (run C n) s) (execStep C (run C (n + 1)) s); exact execStep_le ih C s⟩

theorem run_le_add (C : Ctx) (n : Nat) : ∀ k, Oracle.le (run C n) (run C (n + k))
  | 0 => Oracle.le_refl _
  | k + 1 => Oracle.le_trans (run_le_add C n k) (run_le_succ C (n + k))

theorem run_mono (C : Ctx) {n m : Nat} (hnm : n ≤ m) : Oracle.le (run C n) (run C m) := by
  obtain ⟨k, rfl⟩ := Nat.exists_eq_add_of_le hnm
  exact run_le_add C n k

end Pyx.Interp
