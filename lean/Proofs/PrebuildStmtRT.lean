import Proofs.PrebuildExprRT

/-
  C05 helper lemmas, statement level: `parseStmt` / `parseBlock` read back what `genStmt` / `genBlock` print,
  for every supported statement / block of any size and nesting depth.
-/
namespace Pyx.Prebuild
open Tok Kw Pn

mutual
  def szS : Stmt → Nat
    | .assign l r => szE l + szE r + 1
    | .ret none => 1
    | .ret (some e) => szE e + 1
    | .brk | .cont | .ctl => 1
    | .create _ _ | .createNV _ | .delete _ => 1
    | .relate _ _ _ _ | .relateU _ _ _ _ _ | .unrelate _ _ _ _ | .unrelateU _ _ _ _ _ => 1
    | .selFrom _ _ _ => 1
    | .selFromW _ _ _ w => szE w + 1
    | .selRel _ _ h chain => szE h + chain.length + 2
    | .selRelW _ _ h chain w => szE h + chain.length + szE w + 2
    | .forEach _ _ b => szB b + 1
    | .while_ e b => szE e + szB b + 1
    | .if_ e b elifs els => szE e + szB b + szEl elifs + szElse els + 1
    | .invoke e => szE e + 1
    | .genEvt _ _ d _ => szP d + 1
    | .createEvt _ _ _ d _ => szP d + 1
    | .genPre e => szE e + 1
  def szB : Block → Nat
    | .nil => 1
    | .cons s rest => szS s + szB rest + 1
  def szEl : Elifs → Nat
    | .nil => 1
    | .cons e b rest => szE e + szB b + szEl rest + 1
  def szElse : Else → Nat
    | .none => 1
    | .some b => szB b + 1
end

/-! ### small readers -/

theorem parseName_nameTok (v : String) (r : List Tok) : parseName (nameTok v :: r) = some (v, r) := by
  unfold nameTok
  split
  · rename_i h; subst h; rfl
  · rfl

theorem parsePhrase_phraseToks (ph : String) (rest : List Tok) (h : ∀ r, rest ≠ p dot :: r) :
    parsePhrase (phraseToks ph ++ rest) = (ph, rest) := by
  unfold phraseToks
  split
  · rename_i he; subst he
    simp only [List.nil_append]
    unfold parsePhrase
    split
    · rename_i r1 _ _; exact absurd rfl (h _)
    · rfl
  · rfl

theorem parseChain_genChain : ∀ (chain : List Step) (rest : List Tok) (f : Nat),
    (∀ r, rest ≠ p arrow :: r) → chain.length + 1 ≤ f →
    parseChain f (genChain chain ++ rest) = some (chain, rest)
  | [], rest, f, hr, hf => by
      obtain ⟨g, rfl, _⟩ := succ_of_le (a := 0) (by simpa using hf)
      simp only [genChain, List.nil_append]
      rw [parseChain.eq_def]; simp only
      split
      · rename_i h; exact absurd rfl (hr _)
      · rfl
  | s :: more, rest, f, hr, hf => by
      obtain ⟨g, rfl, hg⟩ := succ_of_le (a := more.length + 1) (by simpa using hf)
      have ih := parseChain_genChain more rest g hr hg
      simp only [genChain, genStep, List.append_assoc, List.cons_append, List.nil_append]
      rw [parseChain.eq_def]; simp only
      rw [parsePhrase_phraseToks s.phrase _ (by intro r e; cases e)]
      simp only [ih]

/-! ### first tokens -/

theorem stmtStart_stop : ∀ t, stmtStart t = true → stopTok t = true := by
  intro t h
  cases t with
  | kw k => rfl
  | p x => cases x <;> first | rfl | (simp [stmtStart] at h)
  | _ => rfl

theorem genStmt_invoke_func (a b : String) (c : Params) :
    genStmt (.invoke (.call .func a b c)) = genExpr (.call .func a b c) := by
  rw [genStmt] <;> (intro _ _ _ h; cases h)

theorem genStmt_invoke_classop (a b : String) (c : Params) :
    genStmt (.invoke (.call .classop a b c)) = genExpr (.call .classop a b c) := by
  rw [genStmt] <;> (intro _ _ _ h; cases h)

theorem genStmt_head (ctx : Ctx) : ∀ s : Stmt, wfStmt ctx s = true →
    ∃ t r, genStmt s = t :: r ∧ stmtStart t = true
  | .assign _ _, _ => ⟨_, _, by rw [genStmt]; rfl, rfl⟩
  | .ret none, _ => ⟨_, _, by rw [genStmt], rfl⟩
  | .ret (some _), _ => ⟨_, _, by rw [genStmt]; rfl, rfl⟩
  | .brk, _ => ⟨_, _, by rw [genStmt], rfl⟩
  | .cont, _ => ⟨_, _, by rw [genStmt], rfl⟩
  | .ctl, _ => ⟨_, _, by rw [genStmt], rfl⟩
  | .create _ _, _ => ⟨_, _, by rw [genStmt], rfl⟩
  | .createNV _, _ => ⟨_, _, by rw [genStmt], rfl⟩
  | .delete _, _ => ⟨_, _, by rw [genStmt], rfl⟩
  | .relate _ _ _ _, _ => ⟨_, _, by rw [genStmt]; rfl, rfl⟩
  | .relateU _ _ _ _ _, _ => ⟨_, _, by rw [genStmt]; rfl, rfl⟩
  | .unrelate _ _ _ _, _ => ⟨_, _, by rw [genStmt]; rfl, rfl⟩
  | .unrelateU _ _ _ _ _, _ => ⟨_, _, by rw [genStmt]; rfl, rfl⟩
  | .selFrom _ _ _, _ => ⟨_, _, by rw [genStmt], rfl⟩
  | .selFromW _ _ _ _, _ => ⟨_, _, by rw [genStmt]; rfl, rfl⟩
  | .selRel _ _ _ _, _ => ⟨_, _, by rw [genStmt]; rfl, rfl⟩
  | .selRelW _ _ _ _ _, _ => ⟨_, _, by rw [genStmt]; rfl, rfl⟩
  | .forEach _ _ _, _ => ⟨_, _, by rw [genStmt]; rfl, rfl⟩
  | .while_ _ _, _ => ⟨_, _, by rw [genStmt]; rfl, rfl⟩
  | .if_ _ _ _ _, _ => ⟨_, _, by rw [genStmt]; rfl, rfl⟩
  | .invoke e, hw => by
      have hw' : isInvocation e = true ∧ wfExpr ctx e = true := by simpa [wfStmt] using hw
      cases e with
      | call k a b c =>
        cases k with
        | func => exact ⟨_, _, by rw [genStmt_invoke_func, genExpr]; rfl, rfl⟩
        | bridge => exact ⟨_, _, by rw [genStmt], rfl⟩
        | classop => exact ⟨_, _, by rw [genStmt_invoke_classop, genExpr]; rfl, rfl⟩
        | implicit => simp [isInvocation] at hw'
        | port => simp [isInvocation] at hw'
      | icall h n ps => exact ⟨_, _, by rw [genStmt], rfl⟩
      | _ => simp [isInvocation] at hw'
  | .genEvt _ _ _ _, _ => ⟨_, _, by rw [genStmt]; rfl, rfl⟩
  | .createEvt _ _ _ _ _, _ => ⟨_, _, by rw [genStmt]; rfl, rfl⟩
  | .genPre _, _ => ⟨_, _, by rw [genStmt]; rfl, rfl⟩

theorem parseTo_genTo (tgt : EvtTo) (hw : wfTo tgt = true) (rest : List Tok) :
    parseTo (genTo tgt ++ p semi :: rest) = some (tgt, p semi :: rest) := by
  cases tgt with
  | cls kl => rfl
  | creator kl => rfl
  | inst h =>
    cases h with
    | var v => simp [genTo, parseTo]
    | self => rfl
    | _ => simp [wfTo, isVarOrSelf] at hw

theorem stops_block (ctx : Ctx) (b : Block) (hw : wfBlock ctx b = true) (rest : List Tok) (hr : Stops rest) :
    Stops (genBlock b ++ rest) := by
  cases b with
  | nil => simpa [genBlock] using hr
  | cons s more =>
    have hw' : wfStmt ctx s = true ∧ wfBlock ctx more = true := by simpa [wfBlock] using hw
    obtain ⟨t, r, e, hs⟩ := genStmt_head ctx s hw'.1
    simp only [genBlock, e, List.append_assoc, List.cons_append]
    exact Stops.cons (stmtStart_stop t hs)

/-- what follows the `if` block: elif clauses, else clause, `end if` -/
theorem ifTail_noStmt (el : Elifs) (els : Else) (r : List Tok) :
    startsStmt (genElifs el ++ (genElse els ++ endIf :: r)) = false := by
  cases el <;> cases els <;> simp [genElifs, genElse, startsStmt, stmtStart]

theorem ifTail_stops (el : Elifs) (els : Else) (r : List Tok) :
    Stops (genElifs el ++ (genElse els ++ endIf :: r)) := by
  cases el <;> cases els <;> simp only [genElifs, genElse, List.nil_append, List.cons_append] <;>
    exact Stops.cons rfl

theorem elseTail_noStmt (els : Else) (r : List Tok) : startsStmt (genElse els ++ endIf :: r) = false := by
  cases els <;> simp [genElse, startsStmt, stmtStart]

theorem elseTail_stops (els : Else) (r : List Tok) : Stops (genElse els ++ endIf :: r) := by
  cases els <;> simp only [genElse, List.nil_append, List.cons_append] <;> exact Stops.cons rfl

theorem elseTail_noElif (els : Else) (r : List Tok) : ∀ r', genElse els ++ endIf :: r ≠ kw elif_ :: r' := by
  cases els <;> simp [genElse]

/-! ### one-step unfoldings of `parseStmt` -/

theorem parseStmt_assign (ctx : Ctx) (f : Nat) (l rr : Expr) (r r1 r2 : List Tok)
    (h1 : parseExpr ctx f r = some (l, p eq :: r1)) (h2 : parseExpr ctx f r1 = some (rr, r2)) :
    parseStmt ctx (f+1) (kw assign :: r) = some (.assign l rr, r2) := by
  rw [parseStmt.eq_def]; simp only [h1, h2]

theorem parseStmt_ret_none (ctx : Ctx) (f : Nat) (r : List Tok) :
    parseStmt ctx (f+1) (kw return_ :: p semi :: r) = some (.ret none, p semi :: r) := by
  rw [parseStmt.eq_def]

theorem parseStmt_ret_some (ctx : Ctx) (f : Nat) (e : Expr) (r r1 : List Tok) (hne : ∀ x, r ≠ p semi :: x)
    (h : parseExpr ctx f r = some (e, r1)) :
    parseStmt ctx (f+1) (kw return_ :: r) = some (.ret (some e), r1) := by
  rw [parseStmt.eq_def]; simp only [h]

theorem parseStmt_brk (ctx : Ctx) (f : Nat) (r : List Tok) :
    parseStmt ctx (f+1) (kw break_ :: r) = some (.brk, r) := by rw [parseStmt.eq_def]
theorem parseStmt_cont (ctx : Ctx) (f : Nat) (r : List Tok) :
    parseStmt ctx (f+1) (kw continue_ :: r) = some (.cont, r) := by rw [parseStmt.eq_def]
theorem parseStmt_ctl (ctx : Ctx) (f : Nat) (r : List Tok) :
    parseStmt ctx (f+1) (kw control_ :: kw stop :: r) = some (.ctl, r) := by rw [parseStmt.eq_def]
theorem parseStmt_create (ctx : Ctx) (f : Nat) (v kl : String) (r : List Tok) :
    parseStmt ctx (f+1) (kw create :: kw object :: kw instance_ :: ident v :: kw of_ :: ident kl :: r) =
      some (.create v kl, r) := by rw [parseStmt.eq_def]
theorem parseStmt_createNV (ctx : Ctx) (f : Nat) (kl : String) (r : List Tok) :
    parseStmt ctx (f+1) (kw create :: kw object :: kw instance_ :: kw of_ :: ident kl :: r) =
      some (.createNV kl, r) := by rw [parseStmt.eq_def]
theorem parseStmt_delete (ctx : Ctx) (f : Nat) (v : String) (r : List Tok) :
    parseStmt ctx (f+1) (kw delete :: kw object :: kw instance_ :: nameTok v :: r) = some (.delete v, r) := by
  rw [parseStmt.eq_def]; simp only [parseName_nameTok]

theorem parseRelTail_plain (rel ph : String) (rest : List Tok) :
    parseRelTail (kw across :: ident rel :: (phraseToks ph ++ p semi :: rest)) =
      some (rel, ph, none, p semi :: rest) := by
  unfold parseRelTail
  simp only [parsePhrase_phraseToks ph (p semi :: rest) (by intro r e; cases e)]

theorem parseRelTail_using (rel ph u : String) (rest : List Tok) :
    parseRelTail (kw across :: ident rel :: (phraseToks ph ++ kw using_ :: nameTok u :: rest)) =
      some (rel, ph, some u, rest) := by
  unfold parseRelTail
  simp only [parsePhrase_phraseToks ph (kw using_ :: nameTok u :: rest) (by intro r e; cases e), parseName_nameTok]

theorem parseStmt_relate (ctx : Ctx) (f : Nat) (a b rel ph : String) (rest : List Tok) :
    parseStmt ctx (f+1) (kw relate :: nameTok a :: kw to :: nameTok b :: kw across :: ident rel ::
        (phraseToks ph ++ p semi :: rest)) = some (.relate a b rel ph, p semi :: rest) := by
  rw [parseStmt.eq_def]; simp only [parseName_nameTok, parseRelTail_plain]

theorem parseStmt_relateU (ctx : Ctx) (f : Nat) (a b rel ph u : String) (rest : List Tok) :
    parseStmt ctx (f+1) (kw relate :: nameTok a :: kw to :: nameTok b :: kw across :: ident rel ::
        (phraseToks ph ++ kw using_ :: nameTok u :: rest)) = some (.relateU a b rel ph u, rest) := by
  rw [parseStmt.eq_def]; simp only [parseName_nameTok, parseRelTail_using]

theorem parseStmt_unrelate (ctx : Ctx) (f : Nat) (a b rel ph : String) (rest : List Tok) :
    parseStmt ctx (f+1) (kw unrelate :: nameTok a :: kw from_ :: nameTok b :: kw across :: ident rel ::
        (phraseToks ph ++ p semi :: rest)) = some (.unrelate a b rel ph, p semi :: rest) := by
  rw [parseStmt.eq_def]; simp only [parseName_nameTok, parseRelTail_plain]

theorem parseStmt_unrelateU (ctx : Ctx) (f : Nat) (a b rel ph u : String) (rest : List Tok) :
    parseStmt ctx (f+1) (kw unrelate :: nameTok a :: kw from_ :: nameTok b :: kw across :: ident rel ::
        (phraseToks ph ++ kw using_ :: nameTok u :: rest)) = some (.unrelateU a b rel ph u, rest) := by
  rw [parseStmt.eq_def]; simp only [parseName_nameTok, parseRelTail_using]

theorem parseStmt_selFrom (ctx : Ctx) (f : Nat) (c : Tok) (card v kl : String) (rest : List Tok)
    (hc : nameOf cards c = some card) :
    parseStmt ctx (f+1) (kw select :: c :: ident v :: kw from_ :: kw instances :: kw of_ :: ident kl ::
        p semi :: rest) = some (.selFrom card v kl, p semi :: rest) := by
  rw [parseStmt.eq_def]; simp only [hc]

theorem parseStmt_selFromW (ctx : Ctx) (f : Nat) (c : Tok) (card v kl : String) (w : Expr) (r r1 : List Tok)
    (hc : nameOf cards c = some card) (h : parseExpr ctx f r = some (w, r1)) :
    parseStmt ctx (f+1) (kw select :: c :: ident v :: kw from_ :: kw instances :: kw of_ :: ident kl ::
        kw where_ :: r) = some (.selFromW card v kl w, r1) := by
  rw [parseStmt.eq_def]; simp only [hc, h]

theorem parseStmt_selRel (ctx : Ctx) (f : Nat) (c : Tok) (card v : String) (h : Expr) (chain : List Step)
    (r r1 rest : List Tok) (hc : nameOf cards c = some card) (h1 : parseExpr ctx f r = some (h, r1))
    (h2 : parseChain f r1 = some (chain, p semi :: rest)) :
    parseStmt ctx (f+1) (kw select :: c :: ident v :: kw related :: kw by_ :: r) =
      some (.selRel card v h chain, p semi :: rest) := by
  rw [parseStmt.eq_def]; simp only [hc, h1, h2]

theorem parseStmt_selRelW (ctx : Ctx) (f : Nat) (c : Tok) (card v : String) (h w : Expr) (chain : List Step)
    (r r1 r2 r3 : List Tok) (hc : nameOf cards c = some card) (h1 : parseExpr ctx f r = some (h, r1))
    (h2 : parseChain f r1 = some (chain, kw where_ :: r2)) (h3 : parseExpr ctx f r2 = some (w, r3)) :
    parseStmt ctx (f+1) (kw select :: c :: ident v :: kw related :: kw by_ :: r) =
      some (.selRelW card v h chain w, r3) := by
  rw [parseStmt.eq_def]; simp only [hc, h1, h2, h3]

theorem parseStmt_forEach (ctx : Ctx) (f : Nat) (v s : String) (b : Block) (r r1 : List Tok)
    (h : parseBlock ctx f r = some (b, endFor :: r1)) :
    parseStmt ctx (f+1) (kw for_ :: kw each :: ident v :: kw in_ :: ident s :: r) = some (.forEach v s b, r1) := by
  rw [parseStmt.eq_def]; simp only [h]

theorem parseStmt_while (ctx : Ctx) (f : Nat) (e : Expr) (b : Block) (r r1 r2 : List Tok)
    (h1 : parseExpr ctx f r = some (e, r1)) (h2 : parseBlock ctx f r1 = some (b, endWhile :: r2)) :
    parseStmt ctx (f+1) (kw while_ :: r) = some (.while_ e b, r2) := by
  rw [parseStmt.eq_def]; simp only [h1, h2]

theorem parseStmt_if (ctx : Ctx) (f : Nat) (e : Expr) (b : Block) (el : Elifs) (els : Else)
    (r r1 r2 r3 r4 : List Tok)
    (h1 : parseExpr ctx f r = some (e, r1)) (h2 : parseBlock ctx f r1 = some (b, r2))
    (h3 : parseElifs ctx f r2 = some (el, r3)) (h4 : parseElse ctx f r3 = some (els, endIf :: r4)) :
    parseStmt ctx (f+1) (kw if_ :: r) = some (.if_ e b el els, r4) := by
  rw [parseStmt.eq_def]; simp only [h1, h2, h3, h4]

theorem parseStmt_bridge (ctx : Ctx) (f : Nat) (nsp n : String) (ps : Params) (r r1 : List Tok)
    (h : parseParams ctx f r = some (ps, p rpar :: r1)) :
    parseStmt ctx (f+1) (kw bridge :: ns nsp :: p dcolon :: ident n :: p lpar :: r) =
      some (.invoke (.call .bridge nsp n ps), r1) := by
  rw [parseStmt.eq_def]; simp only [h]

theorem parseStmt_transform (ctx : Ctx) (f : Nat) (h : Expr) (n : String) (ps : Params) (r r1 : List Tok)
    (he : parseExpr ctx f r = some (.icall h n ps, r1)) :
    parseStmt ctx (f+1) (kw transform :: r) = some (.invoke (.icall h n ps), r1) := by
  rw [parseStmt.eq_def]; simp only [he]

theorem parseStmt_ns (ctx : Ctx) (f : Nat) (nsp : String) (k : CallKind) (a b : String) (c : Params)
    (r r1 : List Tok) (he : parseExpr ctx f (ns nsp :: r) = some (.call k a b c, r1)) :
    parseStmt ctx (f+1) (ns nsp :: r) = some (.invoke (.call k a b c), r1) := by
  rw [parseStmt.eq_def]; simp only [he]

theorem parseStmt_dcolon (ctx : Ctx) (f : Nat) (k : CallKind) (a b : String) (c : Params)
    (r r1 : List Tok) (he : parseExpr ctx f (p dcolon :: r) = some (.call k a b c, r1)) :
    parseStmt ctx (f+1) (p dcolon :: r) = some (.invoke (.call k a b c), r1) := by
  rw [parseStmt.eq_def]; simp only [he]

theorem parseStmt_genEvt (ctx : Ctx) (f : Nat) (l m : String) (d : Params) (tgt : EvtTo) (r r1 r2 : List Tok)
    (h1 : parseParams ctx f r = some (d, p rpar :: kw to :: r1)) (h2 : parseTo r1 = some (tgt, r2)) :
    parseStmt ctx (f+1) (kw generate :: ident l :: p colon :: phrase m :: p lpar :: r) =
      some (.genEvt l (some m) d tgt, r2) := by
  rw [parseStmt.eq_def]; simp only [h1, h2]

theorem parseStmt_createEvt (ctx : Ctx) (f : Nat) (v l m : String) (d : Params) (tgt : EvtTo)
    (r r1 r2 : List Tok)
    (h1 : parseParams ctx f r = some (d, p rpar :: kw to :: r1)) (h2 : parseTo r1 = some (tgt, r2)) :
    parseStmt ctx (f+1) (kw create :: kw event :: kw instance_ :: ident v :: kw of_ :: ident l :: p colon ::
        phrase m :: p lpar :: r) = some (.createEvt v l (some m) d tgt, r2) := by
  rw [parseStmt.eq_def]; simp only [h1, h2]

theorem parseStmt_genPre (ctx : Ctx) (f : Nat) (v : String) (rest : List Tok) :
    parseStmt ctx (f+3) (kw generate :: ident v :: p semi :: rest) = some (.genPre (.var v), p semi :: rest) := by
  rw [parseStmt.eq_def]
  simp only [parseExpr_var, parsePostfix_stop ctx f (.var v) (p semi :: rest) (Stops.cons rfl)]

theorem parseBlock_nil (ctx : Ctx) (f : Nat) (ts : List Tok) (h : startsStmt ts = false) :
    parseBlock ctx (f+1) ts = some (.nil, ts) := by
  rw [parseBlock.eq_def]; simp only [h]; rfl

theorem parseBlock_cons (ctx : Ctx) (f : Nat) (s : Stmt) (more : Block) (ts r r1 : List Tok)
    (h0 : startsStmt ts = true) (h1 : parseStmt ctx f ts = some (s, p semi :: r))
    (h2 : parseBlock ctx f r = some (more, r1)) :
    parseBlock ctx (f+1) ts = some (.cons s more, r1) := by
  rw [parseBlock.eq_def]; simp only [h0, h1, h2]; rfl

theorem parseElifs_nil (ctx : Ctx) (f : Nat) (ts : List Tok) (h : ∀ r, ts ≠ kw elif_ :: r) :
    parseElifs ctx (f+1) ts = some (.nil, ts) := by
  rw [parseElifs.eq_def]; simp only

theorem parseElifs_cons (ctx : Ctx) (f : Nat) (e : Expr) (b : Block) (more : Elifs) (r r1 r2 r3 : List Tok)
    (h1 : parseExpr ctx f r = some (e, r1)) (h2 : parseBlock ctx f r1 = some (b, r2))
    (h3 : parseElifs ctx f r2 = some (more, r3)) :
    parseElifs ctx (f+1) (kw elif_ :: r) = some (.cons e b more, r3) := by
  rw [parseElifs.eq_def]; simp only [h1, h2, h3]

theorem parseElse_none (ctx : Ctx) (f : Nat) (r : List Tok) :
    parseElse ctx (f+1) (endIf :: r) = some (.none, endIf :: r) := by
  rw [parseElse.eq_def]

theorem parseElse_some (ctx : Ctx) (f : Nat) (b : Block) (r r1 : List Tok)
    (h : parseBlock ctx f r = some (b, r1)) :
    parseElse ctx (f+1) (kw else_ :: r) = some (.some b, r1) := by
  rw [parseElse.eq_def]; simp only [h]

/-! ### the round trip -/

theorem semi_stops (rest : List Tok) : Stops (p semi :: rest) := Stops.cons rfl

theorem genExpr_not_semi (e : Expr) (rest : List Tok) : ∀ x, genExpr e ++ rest ≠ p semi :: x := by
  intro x h
  obtain ⟨t, r, he, hs⟩ := genExpr_head e
  rw [he] at h
  simp only [List.cons_append, List.cons.injEq] at h
  rw [h.1] at hs; simp [exprStart] at hs

theorem tokOf_cards_back {card : String} (h : inTable cards card = true) :
    nameOf cards (tokOf cards card) = some card := tokOf_back cards_back h

theorem anyMany_inTable {card : String} (h : card = "any" ∨ card = "many") : inTable cards card = true := by
  rcases h with rfl | rfl <;> decide

mutual
  theorem stmtRT (ctx : Ctx) : ∀ (s : Stmt), wfStmt ctx s = true → ∀ rest f, szS s ≤ f →
      parseStmt ctx f (genStmt s ++ p semi :: rest) = some (s, p semi :: rest)
    | .assign l r, hw => fun rest f hf => by
        have hw' : wfExpr ctx l = true ∧ wfExpr ctx r = true := by simpa [wfStmt] using hw
        obtain ⟨g, rfl, hg⟩ := succ_of_le (a := szE l + szE r) (by simpa [szS] using hf)
        simp only [genStmt, List.append_assoc, List.cons_append, List.nil_append]
        exact parseStmt_assign ctx g l r _ _ _
          ((exprRT ctx l hw'.1).1 _ g (Stops.cons rfl) (by omega))
          ((exprRT ctx r hw'.2).1 _ g (semi_stops rest) (by omega))
    | .ret none, _ => fun rest f hf => by
        obtain ⟨g, rfl, _⟩ := succ_of_le (a := 0) (by simpa [szS] using hf)
        simp only [genStmt, List.cons_append, List.nil_append, parseStmt_ret_none]
    | .ret (some e), hw => fun rest f hf => by
        have hw' : wfExpr ctx e = true := by simpa [wfStmt] using hw
        obtain ⟨g, rfl, hg⟩ := succ_of_le (a := szE e) (by simpa [szS] using hf)
        simp only [genStmt, List.cons_append, List.nil_append]
        exact parseStmt_ret_some ctx g e _ _ (genExpr_not_semi e _)
          ((exprRT ctx e hw').1 _ g (semi_stops rest) hg)
    | .brk, _ => fun rest f hf => by
        obtain ⟨g, rfl, _⟩ := succ_of_le (a := 0) (by simpa [szS] using hf)
        simp only [genStmt, List.cons_append, List.nil_append, parseStmt_brk]
    | .cont, _ => fun rest f hf => by
        obtain ⟨g, rfl, _⟩ := succ_of_le (a := 0) (by simpa [szS] using hf)
        simp only [genStmt, List.cons_append, List.nil_append, parseStmt_cont]
    | .ctl, _ => fun rest f hf => by
        obtain ⟨g, rfl, _⟩ := succ_of_le (a := 0) (by simpa [szS] using hf)
        simp only [genStmt, List.cons_append, List.nil_append, parseStmt_ctl]
    | .create v kl, _ => fun rest f hf => by
        obtain ⟨g, rfl, _⟩ := succ_of_le (a := 0) (by simpa [szS] using hf)
        simp only [genStmt, List.cons_append, List.nil_append, parseStmt_create]
    | .createNV kl, _ => fun rest f hf => by
        obtain ⟨g, rfl, _⟩ := succ_of_le (a := 0) (by simpa [szS] using hf)
        simp only [genStmt, List.cons_append, List.nil_append, parseStmt_createNV]
    | .delete v, _ => fun rest f hf => by
        obtain ⟨g, rfl, _⟩ := succ_of_le (a := 0) (by simpa [szS] using hf)
        simp only [genStmt, List.cons_append, List.nil_append, parseStmt_delete]
    | .relate a b rel ph, _ => fun rest f hf => by
        obtain ⟨g, rfl, _⟩ := succ_of_le (a := 0) (by simpa [szS] using hf)
        simp only [genStmt, List.cons_append, List.nil_append, parseStmt_relate]
    | .relateU a b rel ph u, _ => fun rest f hf => by
        obtain ⟨g, rfl, _⟩ := succ_of_le (a := 0) (by simpa [szS] using hf)
        simp only [genStmt, List.append_assoc, List.cons_append, List.nil_append, parseStmt_relateU]
    | .unrelate a b rel ph, _ => fun rest f hf => by
        obtain ⟨g, rfl, _⟩ := succ_of_le (a := 0) (by simpa [szS] using hf)
        simp only [genStmt, List.cons_append, List.nil_append, parseStmt_unrelate]
    | .unrelateU a b rel ph u, _ => fun rest f hf => by
        obtain ⟨g, rfl, _⟩ := succ_of_le (a := 0) (by simpa [szS] using hf)
        simp only [genStmt, List.append_assoc, List.cons_append, List.nil_append, parseStmt_unrelateU]
    | .selFrom card v kl, hw => fun rest f hf => by
        have hw' : card = "any" ∨ card = "many" := by simpa [wfStmt] using hw
        obtain ⟨g, rfl, _⟩ := succ_of_le (a := 0) (by simpa [szS] using hf)
        simp only [genStmt, List.cons_append, List.nil_append]
        exact parseStmt_selFrom ctx g _ card v kl rest (tokOf_cards_back (anyMany_inTable hw'))
    | .selFromW card v kl w, hw => fun rest f hf => by
        have hw' : (card = "any" ∨ card = "many") ∧ wfExpr ctx w = true := by simpa [wfStmt] using hw
        obtain ⟨g, rfl, hg⟩ := succ_of_le (a := szE w) (by simpa [szS] using hf)
        simp only [genStmt, List.cons_append, List.nil_append]
        exact parseStmt_selFromW ctx g _ card v kl w _ _ (tokOf_cards_back (anyMany_inTable hw'.1))
          ((exprRT ctx w hw'.2).1 _ g (semi_stops rest) hg)
    | .selRel card v h chain, hw => fun rest f hf => by
        have hw' : (inTable cards card = true ∧ wfExpr ctx h = true) ∧ chain ≠ [] := by
          simpa [wfStmt] using hw
        simp only [szS] at hf
        obtain ⟨g, rfl, hg⟩ := succ_of_le (a := szE h + chain.length + 1) (f := f) (by omega)
        simp only [genStmt, List.append_assoc, List.cons_append, List.nil_append]
        have hstop : Stops (genChain chain ++ p semi :: rest) := by
          cases chain with
          | nil => exact absurd rfl hw'.2
          | cons s more => simp only [genChain, genStep, List.append_assoc, List.cons_append]; exact Stops.cons rfl
        exact parseStmt_selRel ctx g _ card v h chain _ _ rest (tokOf_cards_back hw'.1.1)
          ((exprRT ctx h hw'.1.2).1 _ g hstop (by omega))
          (parseChain_genChain chain _ g (by intro r e; cases e) (by omega))
    | .selRelW card v h chain w, hw => fun rest f hf => by
        have hw' : ((inTable cards card = true ∧ wfExpr ctx h = true) ∧ chain ≠ []) ∧ wfExpr ctx w = true := by
          simpa [wfStmt] using hw
        simp only [szS] at hf
        obtain ⟨g, rfl, hg⟩ := succ_of_le (a := szE h + chain.length + szE w + 1) (f := f) (by omega)
        simp only [genStmt, List.append_assoc, List.cons_append, List.nil_append]
        have hstop : Stops (genChain chain ++ kw where_ :: (genExpr w ++ p semi :: rest)) := by
          cases chain with
          | nil => exact absurd rfl hw'.1.2
          | cons s more => simp only [genChain, genStep, List.append_assoc, List.cons_append]; exact Stops.cons rfl
        exact parseStmt_selRelW ctx g _ card v h w chain _ _ _ _ (tokOf_cards_back hw'.1.1.1)
          ((exprRT ctx h hw'.1.1.2).1 _ g hstop (by omega))
          (parseChain_genChain chain _ g (by intro r e; cases e) (by omega))
          ((exprRT ctx w hw'.2).1 _ g (semi_stops rest) (by omega))
    | .forEach v s b, hw => fun rest f hf => by
        have hw' : wfBlock ctx b = true := by simpa [wfStmt] using hw
        obtain ⟨g, rfl, hg⟩ := succ_of_le (a := szB b) (by simpa [szS] using hf)
        simp only [genStmt, List.append_assoc, List.cons_append, List.nil_append]
        exact parseStmt_forEach ctx g v s b _ _ (blockRT ctx b hw' _ g rfl hg)
    | .while_ e b, hw => fun rest f hf => by
        have hw' : wfExpr ctx e = true ∧ wfBlock ctx b = true := by simpa [wfStmt] using hw
        obtain ⟨g, rfl, hg⟩ := succ_of_le (a := szE e + szB b) (by simpa [szS] using hf)
        simp only [genStmt, List.append_assoc, List.cons_append, List.nil_append]
        exact parseStmt_while ctx g e b _ _ _
          ((exprRT ctx e hw'.1).1 _ g (stops_block ctx b hw'.2 _ (Stops.cons rfl)) (by omega))
          (blockRT ctx b hw'.2 _ g rfl (by omega))
    | .if_ e b el els, hw => fun rest f hf => by
        have hw' : ((wfExpr ctx e = true ∧ wfBlock ctx b = true) ∧ wfElifs ctx el = true) ∧
            wfElse ctx els = true := by simpa [wfStmt] using hw
        simp only [szS] at hf
        obtain ⟨g, rfl, hg⟩ := succ_of_le (a := szE e + szB b + szEl el + szElse els) (f := f) (by omega)
        simp only [genStmt, List.append_assoc, List.cons_append, List.nil_append]
        exact parseStmt_if ctx g e b el els _ _ _ _ _
          ((exprRT ctx e hw'.1.1.1).1 _ g (stops_block ctx b hw'.1.1.2 _ (ifTail_stops el els _)) (by omega))
          (blockRT ctx b hw'.1.1.2 _ g (ifTail_noStmt el els _) (by omega))
          (elifsRT ctx el hw'.1.2 _ g (elseTail_noElif els _) (elseTail_noStmt els _) (elseTail_stops els _)
            (by omega))
          (elseRT ctx els hw'.2 _ g (by omega))
    | .invoke e, hw => fun rest f hf => by
        have hw' : isInvocation e = true ∧ wfExpr ctx e = true := by simpa [wfStmt] using hw
        obtain ⟨g, rfl, hg⟩ := succ_of_le (a := szE e) (by simpa [szS] using hf)
        have he := (exprRT ctx e hw'.2).1 (p semi :: rest) g (semi_stops rest) hg
        cases e with
        | call k a b c =>
          cases k with
          | func =>
            rw [genStmt_invoke_func]
            rw [genExpr] at he ⊢
            simp only [List.append_assoc, List.cons_append, List.nil_append] at he ⊢
            exact parseStmt_dcolon ctx g _ _ _ _ _ _ he
          | bridge =>
            have hb : resolve ctx a = .bridge ∧ wfParams ctx c = true := by simpa [wfExpr] using hw'.2
            rw [genStmt, genExpr]
            simp only [List.append_assoc, List.cons_append, List.nil_append]
            exact parseStmt_bridge ctx g a b c _ _ (paramsRT ctx c hb.2 (p semi :: rest) g (by simp only [szE] at hg; omega))
          | classop =>
            rw [genStmt_invoke_classop]
            rw [genExpr] at he ⊢
            simp only [List.append_assoc, List.cons_append, List.nil_append] at he ⊢
            exact parseStmt_ns ctx g _ _ _ _ _ _ _ he
          | implicit => simp [isInvocation] at hw'
          | port => simp [isInvocation] at hw'
        | icall h n ps =>
          rw [genStmt]
          simp only [List.cons_append]
          exact parseStmt_transform ctx g h n ps _ _ he
        | _ => simp [isInvocation] at hw'
    | .genEvt l m d tgt, hw => fun rest f hf => by
        have hw' : (m.isSome = true ∧ wfParams ctx d = true) ∧ wfTo tgt = true := by simpa [wfStmt] using hw
        obtain ⟨mm, rfl⟩ := Option.isSome_iff_exists.mp hw'.1.1
        obtain ⟨g, rfl, hg⟩ := succ_of_le (a := szP d) (by simpa [szS] using hf)
        simp only [genStmt, genEvtSpec, List.append_assoc, List.cons_append, List.nil_append]
        exact parseStmt_genEvt ctx g l mm d tgt _ _ _ (paramsRT ctx d hw'.1.2 _ g hg)
          (parseTo_genTo tgt hw'.2 rest)
    | .createEvt v l m d tgt, hw => fun rest f hf => by
        have hw' : (m.isSome = true ∧ wfParams ctx d = true) ∧ wfTo tgt = true := by simpa [wfStmt] using hw
        obtain ⟨mm, rfl⟩ := Option.isSome_iff_exists.mp hw'.1.1
        obtain ⟨g, rfl, hg⟩ := succ_of_le (a := szP d) (by simpa [szS] using hf)
        simp only [genStmt, genEvtSpec, List.append_assoc, List.cons_append, List.nil_append]
        exact parseStmt_createEvt ctx g v l mm d tgt _ _ _ (paramsRT ctx d hw'.1.2 _ g hg)
          (parseTo_genTo tgt hw'.2 rest)
    | .genPre e, hw => fun rest f hf => by
        cases e with
        | var v =>
          simp only [szS, szE] at hf
          obtain ⟨g, rfl, hg⟩ := succ_of_le (a := 2) (f := f) (by omega)
          obtain ⟨g', rfl, hg'⟩ := succ_of_le (a := 1) hg
          obtain ⟨g'', rfl, _⟩ := succ_of_le (a := 0) hg'
          simp only [genStmt, genExpr, List.cons_append, List.nil_append]
          exact parseStmt_genPre ctx g'' v rest
        | _ => simp [wfStmt] at hw
  theorem blockRT (ctx : Ctx) : ∀ (b : Block), wfBlock ctx b = true → ∀ rest f, startsStmt rest = false →
      szB b ≤ f → parseBlock ctx f (genBlock b ++ rest) = some (b, rest)
    | .nil, _ => fun rest f hr hf => by
        obtain ⟨g, rfl, _⟩ := succ_of_le (a := 0) (by simpa [szB] using hf)
        simp only [genBlock, List.nil_append]
        exact parseBlock_nil ctx g rest hr
    | .cons s more, hw => fun rest f hr hf => by
        have hw' : wfStmt ctx s = true ∧ wfBlock ctx more = true := by simpa [wfBlock] using hw
        simp only [szB] at hf
        obtain ⟨g, rfl, hg⟩ := succ_of_le (a := szS s + szB more) (f := f) (by omega)
        obtain ⟨t, r, e, hs⟩ := genStmt_head ctx s hw'.1
        have h1 := stmtRT ctx s hw'.1 (genBlock more ++ rest) g (by omega)
        simp only [genBlock, List.append_assoc, List.cons_append, List.nil_append]
        refine parseBlock_cons ctx g s more _ _ rest ?_ h1 (blockRT ctx more hw'.2 rest g hr (by omega))
        rw [e]; simpa [startsStmt] using hs
  theorem elifsRT (ctx : Ctx) : ∀ (el : Elifs), wfElifs ctx el = true → ∀ rest f,
      (∀ r, rest ≠ kw elif_ :: r) → startsStmt rest = false → Stops rest → szEl el ≤ f →
      parseElifs ctx f (genElifs el ++ rest) = some (el, rest)
    | .nil, _ => fun rest f hne _ _ hf => by
        obtain ⟨g, rfl, _⟩ := succ_of_le (a := 0) (by simpa [szEl] using hf)
        simp only [genElifs, List.nil_append]
        exact parseElifs_nil ctx g rest hne
    | .cons e b more, hw => fun rest f hne hns hst hf => by
        have hw' : (wfExpr ctx e = true ∧ wfBlock ctx b = true) ∧ wfElifs ctx more = true := by
          simpa [wfElifs] using hw
        simp only [szEl] at hf
        obtain ⟨g, rfl, hg⟩ := succ_of_le (a := szE e + szB b + szEl more) (f := f) (by omega)
        simp only [genElifs, List.append_assoc, List.cons_append, List.nil_append]
        have hns2 : startsStmt (genElifs more ++ rest) = false := by
          cases more with
          | nil => simpa [genElifs] using hns
          | cons _ _ _ => simp [genElifs, startsStmt, stmtStart]
        have hst2 : Stops (genElifs more ++ rest) := by
          cases more with
          | nil => simpa [genElifs] using hst
          | cons _ _ _ => simp only [genElifs, List.append_assoc, List.cons_append, List.nil_append]; exact Stops.cons rfl
        exact parseElifs_cons ctx g e b more _ _ _ _
          ((exprRT ctx e hw'.1.1).1 _ g (stops_block ctx b hw'.1.2 _ hst2) (by omega))
          (blockRT ctx b hw'.1.2 _ g hns2 (by omega))
          (elifsRT ctx more hw'.2 rest g hne hns hst (by omega))
  theorem elseRT (ctx : Ctx) : ∀ (els : Else), wfElse ctx els = true → ∀ rest f, szElse els ≤ f →
      parseElse ctx f (genElse els ++ endIf :: rest) = some (els, endIf :: rest)
    | .none, _ => fun rest f hf => by
        obtain ⟨g, rfl, _⟩ := succ_of_le (a := 0) (by simpa [szElse] using hf)
        simp only [genElse, List.nil_append, parseElse_none]
    | .some b, hw => fun rest f hf => by
        have hw' : wfBlock ctx b = true := by simpa [wfElse] using hw
        obtain ⟨g, rfl, hg⟩ := succ_of_le (a := szB b) (by simpa [szElse] using hf)
        simp only [genElse, List.cons_append, List.nil_append]
        exact parseElse_some ctx g b _ _ (blockRT ctx b hw' _ g rfl hg)
end

end Pyx.Prebuild
