import PyxModel.Check
import Gen.CheckShape
import Gen.CheckCond
import Proofs.Check

/-!
  C11 source tie, loop structure of xtuml/consistency_check.py: a GENERIC interpreter of the first-order IR that
  translator/gen_checkshape.py extracts (`Pyx.Gen.CheckShape`), over the worlds of PyxModel/Check.lean, and the lemmas showing
  that the counting functions of the model equal that interpretation of the IR generated from the current source.

  The interpreter (`evalE`, `evalC`, `iStmt`, `iStmts`, `run`) is defined once, for ANY IR value; only the `…_eq` lemmas mention
  the generated constants.  What it fixes, once, is the meaning of the ATOMS:

    m.select_many(kind), cls.select_many(), link.from_metaclass.select_many()   = the pool of the class (of the link's FROM class)
    m.associations, ass.rel_id / source_link / target_link                       = the schema rows by index
    m.metaclasses.values(), [m.find_metaclass(kind)]                             = all class indices / the one class
    cls.attributes / indices / indices[id] / identifying_attributes              = the `ClassInfo` of the class
    list(link.navigate(inst))                                                    = the link map of that end
    xtuml.navigate_subtype(inst, rel)                                            = `Query.navSubtype` (an exception = stuck)
    getattr(inst, name)                                                          = `World.val`
    dict(), d[k] = v, frozenset(d.items())                                       = an assignment log; items = keys in first-insertion
                                                                                   order with their LAST value
    id_map[k] = dict(), key in id_map[k], id_map[k][key] = inst                  = a two-level dictionary as the set of (k, key)
                                                                                   pairs + the initialised k (another k: KeyError = stuck)
    the counting condition / the null test                                       = `Gen.CheckCond.violates` / `isNull`
                                                                                   (translated from the same statements)
    a call of check_link_integrity                                               = what the model says it returns (`oracle`)
-/
set_option linter.unusedSimpArgs false
set_option linter.unusedVariables false
namespace Pyx.CShape
open Pyx.Meta Pyx.Check Pyx.Gen.CheckShape

abbrev Key := List (String × Option Int)

inductive V where
  | none
  | nat (n : Nat)
  | bool (b : Bool)
  | str (s : String)
  | oint (v : Option Int)
  | inst (x : Inst)
  | insts (l : List Inst)
  | model
  | cls (k : Kind)
  | clss (l : List Kind)
  | assoc (i : Nat)
  | assocs (l : List Nat)
  | link (i : Nat) (isSrc : Bool)
  | attrs (l : List (String × Bool))
  | idents (l : List (String × List String))
  | strs (l : List String)
  | strSet (l : List String)
  | emptyDict
  | dict (log : List (String × Option Int))
  | key (k : Key)
  | idmap (inits : List String) (seen : List (String × Key))
  | text

abbrev Locals := List (String × V)

/-- `dict.items()` of an assignment log: keys in first-insertion order, each with its last value -/
def itemsOf (log : List (String × Option Int)) : Key :=
  (log.map (·.1)).eraseDups.map (fun a => (a, (log.reverse.lookup a).getD none))

/-- `str.upper()` on the ASCII letters, over the character list so that it can be evaluated -/
def up (s : String) : String := String.ofList (s.toList.map Char.toUpper)

def fieldOf (w : World) : V → String → Option V
  | .model, f => if f = "associations" then some (.assocs (List.range w.sch.length)) else none
  | .assoc i, f =>
    if f = "rel_id" then some (.str (specAt w.sch i).rel)
    else if f = "source_link" then some (.link i true)
    else if f = "target_link" then some (.link i false)
    else none
  | .cls k, f =>
    match w.classes[k]? with
    | some ci =>
      if f = "indices" then some (.idents ci.idents)
      else if f = "attributes" then some (.attrs ci.attrs)
      else if f = "identifying_attributes" then some (.strs ci.identifying)
      else none
    | none => none
  | _, _ => none

def veq : V → V → Option Bool
  | .none, .none => some true
  | .none, .str _ => some false
  | .str _, .none => some false
  | .str a, .str b => some (a == b)
  | _, _ => none

def evalE (w : World) (calls : String → List V → Option V) (L : Locals) : Expr → Option V
  | .var x => L.lookup x
  | .none => some .none
  | .nat n => some (.nat n)
  | .field x f =>
    match L.lookup x with
    | some v => fieldOf w v f
    | none => none
  | .fieldAt x f k =>
    match (L.lookup x).bind (fun v => fieldOf w v f), L.lookup k with
    | some (.idents l), some (.str s) => (l.lookup s).map V.strs
    | _, _ => none
  | .selectMany m kind =>
    match L.lookup m, L.lookup kind with
    | some .model, some (.cls k) => some (.insts (w.pool k))
    | _, _ => none
  | .poolOf c =>
    match L.lookup c with
    | some (.cls k) => some (.insts (w.pool k))
    | _ => none
  | .fromPool l =>
    match L.lookup l with
    | some (.link i isSrc) => some (.insts (w.pool (if isSrc then (specAt w.sch i).tgtKind else (specAt w.sch i).srcKind)))
    | _ => none
  | .allMetaclasses m =>
    match L.lookup m with
    | some .model => some (.clss (List.range w.classes.length))
    | _ => none
  | .oneMetaclass m kind =>
    match L.lookup m, L.lookup kind with
    | some .model, some (.cls k) => some (.clss [k])
    | _, _ => none
  | .navigateSubtype i r =>
    match L.lookup i, L.lookup r with
    | some (.inst x), some (.str rel) =>
      match Query.navSubtype w.sch w.toState x rel with
      | some (some y) => some (.inst y)
      | some none => some .none
      | none => none
    | _, _ => none
  | .listNavigate l i =>
    match L.lookup l, L.lookup i with
    | some (.link j isSrc), some (.inst x) => some (.insts (if isSrc then (w.links j).src x else (w.links j).tgt x))
    | _, _ => none
  | .getattr i n =>
    match L.lookup i, L.lookup n with
    | some (.inst x), some (.str a) => some (.oint (w.val x a))
    | _, _ => none
  | .newDict => some .emptyDict
  | .frozensetItems d =>
    match L.lookup d with
    | some (.dict log) => some (.key (itemsOf log))
    | some .emptyDict => some (.key [])
    | _ => none
  | .upperSet x f =>
    match (L.lookup x).bind (fun v => fieldOf w v f) with
    | some (.strs l) => some (.strSet (l.map up))
    | _ => none
  | .callOn fn m x f =>
    match L.lookup m, (L.lookup x).bind (fun v => fieldOf w v f) with
    | some vm, some vx => calls fn [vm, vx]
    | _, _ => none
  | .pretty _ => some .text

def evalAlts (w : World) (calls : String → List V → Option V) (L : Locals) (v : V) : List Expr → Option Bool
  | [] => some false
  | e :: rest =>
    match (evalE w calls L e).bind (veq v), evalAlts w calls L v rest with
    | some b, some r => some (b || r)
    | _, _ => none

def evalC (w : World) (calls : String → List V → Option V) (L : Locals) : Cond → Option Bool
  | .truthy x =>
    match L.lookup x with
    | some (.bool b) => some b
    | _ => none
  | .notE e =>
    match evalE w calls L e with
    | some .none => some true
    | some (.inst _) => some false
    | _ => none
  | .isNone x =>
    match L.lookup x with
    | some .none => some true
    | some (.cls _) => some false
    | some (.str _) => some false
    | _ => none
  | .inList x alts =>
    match L.lookup x with
    | some v => evalAlts w calls L v alts
    | none => none
  | .upperNotIn x s =>
    match L.lookup x, L.lookup s with
    | some (.str a), some (.strSet l) => some (!l.contains (up a))
    | _, _ => none
  | .inDictAt key d k =>
    match L.lookup key, L.lookup d, L.lookup k with
    | some (.key ky), some (.idmap inits seen), some (.str s) => if inits.contains s then some (seen.contains (s, ky)) else none
    | _, _, _ => none
  | .linkCond q l =>
    match L.lookup q, L.lookup l with
    | some (.insts qs), some (.link i isSrc) =>
      some (Pyx.Gen.CheckCond.violates (if isSrc then (specAt w.sch i).srcCond else (specAt w.sch i).tgtCond)
        (if isSrc then (specAt w.sch i).srcMany else (specAt w.sch i).tgtMany) qs.length)
    | _, _ => none

inductive Sig where
  | next
  | cont
  | ret (v : V)

/-- what a `for` binds per iteration -/
def rowsOf : V → Option (List (List V))
  | .insts l => some (l.map (fun x => [V.inst x]))
  | .clss l => some (l.map (fun k => [V.cls k]))
  | .assocs l => some (l.map (fun i => [V.assoc i]))
  | .attrs l => some (l.map (fun a => [V.str a.1, V.bool a.2]))
  | .idents l => some (l.map (fun p => [V.str p.1]))
  | .strs l => some (l.map (fun s => [V.str s]))
  | _ => none

def bindRow : List String → List V → Locals → Option Locals
  | [], [], L => some L
  | x :: xs, v :: vs, L => bindRow xs vs ((x, v) :: L)
  | _, _, _ => none

def forLoop (body : List V → Locals → Option (Locals × Sig)) : List (List V) → Locals → Option (Locals × Sig)
  | [], L => some (L, .next)
  | r :: rest, L =>
    match body r L with
    | some (L', .next) => forLoop body rest L'
    | some (L', .cont) => forLoop body rest L'
    | some (L', .ret v) => some (L', .ret v)
    | none => none

mutual
  def iStmt (w : World) (calls : String → List V → Option V) (L : Locals) : Stmt → Option (Locals × Sig)
    | .assign dst e =>
      match evalE w calls L e with
      | some v => some ((dst, v) :: L, .next)
      | none => none
    | .normRel x =>
      match L.lookup x with
      | some (.nat n) => some ((x, .str ("R" ++ toString n)) :: L, .next)
      | some (.str _) => some (L, .next)
      | some .none => some (L, .next)
      | _ => none
    | .incr x =>
      match L.lookup x with
      | some (.nat n) => some ((x, .nat (n + 1)) :: L, .next)
      | _ => none
    | .addTo x e =>
      match L.lookup x, evalE w calls L e with
      | some (.nat n), some (.nat k) => some ((x, .nat (n + k)) :: L, .next)
      | _, _ => none
    | .nullTest dst v ty =>
      match L.lookup v, L.lookup ty with
      | some (.oint o), some (.bool isUid) => some ((dst, .bool (Pyx.Gen.CheckCond.isNull o isUid)) :: L, .next)
      | _, _ => none
    | .dictSet d k e =>
      match L.lookup d, L.lookup k, evalE w calls L e with
      | some .emptyDict, some (.str s), some .emptyDict => some ((d, .idmap [s] []) :: L, .next)
      | some (.idmap inits seen), some (.str s), some .emptyDict => some ((d, .idmap (inits ++ [s]) seen) :: L, .next)
      | some .emptyDict, some (.str s), some (.oint o) => some ((d, .dict [(s, o)]) :: L, .next)
      | some (.dict log), some (.str s), some (.oint o) => some ((d, .dict (log ++ [(s, o)])) :: L, .next)
      | _, _, _ => none
    | .dictSet2 d k1 k2 e =>
      match L.lookup d, L.lookup k1, L.lookup k2, evalE w calls L e with
      | some (.idmap inits seen), some (.str s), some (.key ky), some _ =>
        if inits.contains s then some ((d, .idmap inits ((s, ky) :: seen)) :: L, .next) else none
      | _, _, _, _ => none
    | .log => some (L, .next)
    | .continue_ => some (L, .cont)
    | .ifC c thn els =>
      match evalC w calls L c with
      | some true => iStmts w calls L thn
      | some false => iStmts w calls L els
      | none => none
    | .forIn vars e body =>
      match (evalE w calls L e).bind rowsOf with
      | some rows =>
        forLoop (fun r L' => match bindRow vars r L' with
          | some L'' => iStmts w calls L'' body
          | none => none) rows L
      | none => none
    | .ret x =>
      match L.lookup x with
      | some v => some (L, .ret v)
      | none => none
  def iStmts (w : World) (calls : String → List V → Option V) (L : Locals) : List Stmt → Option (Locals × Sig)
    | [] => some (L, .next)
    | s :: rest =>
      match iStmt w calls L s with
      | some (L', .next) => iStmts w calls L' rest
      | some (L', .cont) => some (L', .cont)
      | some (L', .ret v) => some (L', .ret v)
      | none => none
end

def bindParams : List String → List V → Option Locals
  | [], [] => some []
  | p :: ps, v :: vs => (bindParams ps vs).map (fun L => (p, v) :: L)
  | _, _ => none

def run (w : World) (calls : String → List V → Option V) (f : Fn) (args : List V) : Option V :=
  match bindParams f.params args with
  | some L =>
    match iStmts w calls L f.body with
    | some (_, .ret v) => some v
    | some (_, _) => some .none
    | none => none
  | none => none

/-- what the model says a callee returns -/
def oracle (w : World) (fn : String) (args : List V) : Option V :=
  if fn = "check_link_integrity" then
    (match args with
     | [.model, .link i isSrc] => some (.nat (checkLink w i isSrc))
     | _ => none)
  else none

def interp (w : World) (f : Fn) (args : List V) : Option V := run w (oracle w) f args

/-! ### loops -/

theorem forLoop_inv {α : Type} (Inv : List α → Locals → Prop) (f : List V → List α)
    (body : List V → Locals → Option (Locals × Sig)) :
    ∀ (l : List (List V)), (∀ r ∈ l, ∀ acc L, Inv acc L →
        ∃ L', (body r L = some (L', .next) ∨ body r L = some (L', .cont)) ∧ Inv (acc ++ f r) L') →
    ∀ acc L, Inv acc L → ∃ L', forLoop body l L = some (L', .next) ∧ Inv (acc ++ l.flatMap f) L'
  | [], _, acc, L, hi => ⟨L, rfl, by simpa using hi⟩
  | r :: rest, h, acc, L, hi => by
    obtain ⟨L1, h1, hi1⟩ := h r (List.mem_cons_self ..) acc L hi
    obtain ⟨L2, h2, hi2⟩ := forLoop_inv Inv f body rest (fun x hx => h x (List.mem_cons_of_mem _ hx)) _ L1 hi1
    refine ⟨L2, ?_, ?_⟩
    · rcases h1 with h1 | h1 <;> simp only [forLoop, h1, h2]
    · simpa [List.flatMap_cons, List.append_assoc] using hi2

theorem iStmts_step {w : World} {calls : String → List V → Option V} {L L' : Locals} {s : Stmt} {rest : List Stmt}
    (h : iStmt w calls L s = some (L', .next)) : iStmts w calls L (s :: rest) = iStmts w calls L' rest := by
  simp only [iStmts, h]

theorem iStmts_for {w : World} {calls : String → List V → Option V} {L L' : Locals} {vars : List String} {e : Expr}
    {rows : List (List V)} {body rest : List Stmt} (he : (evalE w calls L e).bind rowsOf = some rows)
    (h : forLoop (fun r L' => match bindRow vars r L' with
          | some L'' => iStmts w calls L'' body
          | none => none) rows L = some (L', .next)) :
    iStmts w calls L (.forIn vars e body :: rest) = iStmts w calls L' rest := by
  simp only [iStmts, iStmt, he, h]

/-- the counter invariant: `res` holds the start value plus one unit per counted row -/
def ResInv (x : String) (n0 : Nat) (keep : List (String × V)) (acc : List Unit) (L : Locals) : Prop :=
  L.lookup x = some (.nat (n0 + acc.length)) ∧ ∀ p ∈ keep, L.lookup p.1 = some p.2

theorem countP_flatMap {α : Type} (p : α → Bool) : ∀ (l : List α),
    (l.flatMap (fun a => if p a then [()] else [])).length = l.countP p
  | [] => rfl
  | a :: rest => by
    simp only [List.flatMap_cons, List.length_append, countP_flatMap p rest, List.countP_cons]
    cases p a <;> simp <;> omega

macro "cshape" "[" ts:Lean.Parser.Tactic.simpLemma,* "]" : tactic =>
  `(tactic| simp only [interp, run, bindParams, iStmts, iStmt, evalE, evalC, evalAlts, veq, fieldOf, rowsOf, bindRow, oracle,
      List.lookup, Option.map_some, Option.map_none, Option.bind_some, Option.bind_none,
      ↓reduceIte, String.reduceEq, String.reduceBEq, String.reduceBNe, reduceCtorEq, $ts,*])

/-! ### check_subtype_integrity -/

def subBody : List Stmt :=
  match check_subtype_integrity.body with
  | [_, _, .forIn _ _ b, _] => b
  | _ => []

def subOut (w : World) (rel : String) : List V → List Unit
  | [.inst x] => if (match Query.navSubtype w.sch w.toState x rel with | some (some _) => false | _ => true) then [()] else []
  | _ => []

theorem sub_body (w : World) (rel : String) (x : Inst) (hx : Query.navSubtype w.sch w.toState x rel ≠ none)
    (acc : List Unit) (L : Locals) (hi : ResInv "res" 0 [("rel_id", .str rel)] acc L) :
    ∃ L', ((match bindRow ["inst"] [V.inst x] L with
        | some L'' => iStmts w (oracle w) L'' subBody
        | none => none) = some (L', .next) ∨ False) ∧
      ResInv "res" 0 [("rel_id", .str rel)] (acc ++ subOut w rel [V.inst x]) L' := by
  have hrel : L.lookup "rel_id" = some (.str rel) := hi.2 _ (List.mem_cons_self ..)
  simp only [subBody, check_subtype_integrity, subOut]
  cases hn : Query.navSubtype w.sch w.toState x rel with
  | none => exact absurd hn hx
  | some o =>
    cases o with
    | some y =>
      cshape [hrel, hn]
      exact ⟨_, Or.inl rfl, by simpa [ResInv, List.lookup] using hi⟩
    | none =>
      cshape [hrel, hn, hi.1]
      refine ⟨_, Or.inl rfl, ?_, ?_⟩
      · simp [List.lookup, Nat.add_assoc]
      · intro p hp
        simp only [List.mem_cons, List.not_mem_nil, or_false] at hp
        subst hp
        simp only [List.lookup, String.reduceBEq]
        exact hrel

theorem check_subtype_eq (w : World) (k : Kind) (rel : String)
    (hnav : ∀ x ∈ w.pool k, Query.navSubtype w.sch w.toState x rel ≠ none) :
    interp w check_subtype_integrity [.model, .cls k, .str rel] = some (.nat (checkSubtype w k rel)) := by
  obtain ⟨L', hrun, hinv⟩ := forLoop_inv (ResInv "res" 0 [("rel_id", .str rel)]) (subOut w rel)
    (fun r L' => match bindRow ["inst"] r L' with
      | some L'' => iStmts w (oracle w) L'' subBody
      | none => none)
    ((w.pool k).map (fun x => [V.inst x]))
    (by
      intro r hr acc L hi
      obtain ⟨x, hx, rfl⟩ := List.mem_map.mp hr
      obtain ⟨L', h, hi'⟩ := sub_body w rel x (hnav x hx) acc L hi
      exact ⟨L', Or.inl (h.resolve_right id), hi'⟩)
    [] [("res", .nat 0), ("m", .model), ("super_kind", .cls k), ("rel_id", .str rel)]
    ⟨by simp [List.lookup], by intro p hp; simp only [List.mem_cons, List.not_mem_nil, or_false] at hp; subst hp; simp [List.lookup]⟩
  simp only [subBody, check_subtype_integrity] at hrun
  simp only [interp, run, check_subtype_integrity, bindParams, Option.map_some]
  rw [iStmts_step (L' := [("m", .model), ("super_kind", .cls k), ("rel_id", .str rel)]) (by cshape [])]
  rw [iStmts_step (L' := [("res", .nat 0), ("m", .model), ("super_kind", .cls k), ("rel_id", .str rel)]) (by cshape [])]
  rw [iStmts_for (rows := (w.pool k).map (fun x => [V.inst x])) (by cshape []) hrun]
  simp only [iStmts, iStmt, hinv.1]
  simp only [List.nil_append, List.flatMap_map, Nat.zero_add, checkSubtype]
  congr 2
  exact countP_flatMap _ _

/-! ### check_link_integrity -/

theorem violates_gen (cond many : Bool) (n : Nat) : Pyx.Gen.CheckCond.violates cond many n = violates cond many n := by
  unfold Pyx.Gen.CheckCond.violates violates
  cases cond <;> cases many <;> simp

def linkBody : List Stmt :=
  match check_link_integrity.body with
  | [_, .forIn _ _ b, _] => b
  | _ => []

def linkP (w : World) (i : Nat) (isSrc : Bool) (x : Inst) : Bool :=
  violates (if isSrc then (specAt w.sch i).srcCond else (specAt w.sch i).tgtCond)
    (if isSrc then (specAt w.sch i).srcMany else (specAt w.sch i).tgtMany)
    (if isSrc then (w.links i).src x else (w.links i).tgt x).length

def linkOut (w : World) (i : Nat) (isSrc : Bool) : List V → List Unit
  | [.inst x] => if linkP w i isSrc x then [()] else []
  | _ => []

theorem link_body (w : World) (i : Nat) (isSrc : Bool) (x : Inst) (acc : List Unit) (L : Locals)
    (hi : ResInv "res" 0 [("link", .link i isSrc)] acc L) :
    ∃ L', ((match bindRow ["inst"] [V.inst x] L with
        | some L'' => iStmts w (oracle w) L'' linkBody
        | none => none) = some (L', .next) ∨ False) ∧
      ResInv "res" 0 [("link", .link i isSrc)] (acc ++ linkOut w i isSrc [V.inst x]) L' := by
  have hl : L.lookup "link" = some (.link i isSrc) := hi.2 _ (List.mem_cons_self ..)
  simp only [linkBody, check_link_integrity, linkOut, linkP]
  cshape [hl, violates_gen]
  by_cases hv : violates (if isSrc = true then (specAt w.sch i).srcCond else (specAt w.sch i).tgtCond)
      (if isSrc = true then (specAt w.sch i).srcMany else (specAt w.sch i).tgtMany)
      (if isSrc = true then (w.links i).src x else (w.links i).tgt x).length = true
  · simp only [hv, hi.1, ↓reduceIte]
    refine ⟨_, Or.inl rfl, ?_, ?_⟩
    · simp [List.lookup, Nat.add_assoc]
    · intro p hp
      simp only [List.mem_cons, List.not_mem_nil, or_false] at hp
      subst hp
      simp only [List.lookup, String.reduceBEq]
      exact hl
  · have hv' := Bool.eq_false_iff.mpr hv
    simp only [hv', Bool.false_eq_true, ↓reduceIte]
    exact ⟨_, Or.inl rfl, by simpa [ResInv, List.lookup] using hi⟩

theorem check_link_eq (w : World) (i : Nat) (isSrc : Bool) :
    interp w check_link_integrity [.model, .link i isSrc] = some (.nat (checkLink w i isSrc)) := by
  obtain ⟨L', hrun, hinv⟩ := forLoop_inv (ResInv "res" 0 [("link", .link i isSrc)]) (linkOut w i isSrc)
    (fun r L' => match bindRow ["inst"] r L' with
      | some L'' => iStmts w (oracle w) L'' linkBody
      | none => none)
    ((w.pool (if isSrc then (specAt w.sch i).tgtKind else (specAt w.sch i).srcKind)).map (fun x => [V.inst x]))
    (by
      intro r hr acc L hi
      obtain ⟨x, hx, rfl⟩ := List.mem_map.mp hr
      obtain ⟨L', h, hi'⟩ := link_body w i isSrc x acc L hi
      exact ⟨L', Or.inl (h.resolve_right id), hi'⟩)
    [] [("res", .nat 0), ("m", .model), ("link", .link i isSrc)]
    ⟨by simp [List.lookup], by intro p hp; simp only [List.mem_cons, List.not_mem_nil, or_false] at hp; subst hp; simp [List.lookup]⟩
  simp only [linkBody, check_link_integrity] at hrun
  simp only [interp, run, check_link_integrity, bindParams, Option.map_some]
  rw [iStmts_step (L' := [("res", .nat 0), ("m", .model), ("link", .link i isSrc)]) (by cshape [])]
  rw [iStmts_for (rows := (w.pool (if isSrc then (specAt w.sch i).tgtKind else (specAt w.sch i).srcKind)).map (fun x => [V.inst x]))
    (by cshape []) hrun]
  simp only [iStmts, iStmt, hinv.1]
  simp only [List.nil_append, List.flatMap_map, Nat.zero_add, checkLink]
  congr 2
  cases isSrc
  · exact countP_flatMap (linkP w i false) _
  · exact countP_flatMap (linkP w i true) _

/-! ### check_association_integrity -/

def relV : Option String → V
  | some r => .str r
  | none => .none

def assocBody : List Stmt :=
  match check_association_integrity.body with
  | [_, _, .forIn _ _ b, _] => b
  | _ => []

def assocTerm (w : World) (rel : Option String) (j : Nat) : Nat :=
  if rel = none ∨ rel = some (specAt w.sch j).rel then checkLink w j true + checkLink w j false else 0

def SumInv (x : String) (keep : List (String × V)) (acc : List Nat) (L : Locals) : Prop :=
  L.lookup x = some (.nat acc.sum) ∧ ∀ p ∈ keep, L.lookup p.1 = some p.2

theorem assoc_body (w : World) (rel : Option String) (j : Nat) (acc : List Nat) (L : Locals)
    (hi : SumInv "res" [("rel_id", relV rel), ("m", .model)] acc L) :
    ∃ L', ((match bindRow ["ass"] [V.assoc j] L with
        | some L'' => iStmts w (oracle w) L'' assocBody
        | none => none) = some (L', .next) ∨ False) ∧
      SumInv "res" [("rel_id", relV rel), ("m", .model)] (acc ++ [assocTerm w rel j]) L' := by
  have hr : L.lookup "rel_id" = some (relV rel) := hi.2 _ (List.mem_cons_self ..)
  have hm : L.lookup "m" = some .model := hi.2 _ (List.mem_cons_of_mem _ (List.mem_cons_self ..))
  simp only [assocBody, check_association_integrity, assocTerm]
  cases rel with
  | none =>
    cshape [hr, hm, relV, hi.1, Bool.or_true, Bool.or_false, true_or]
    refine ⟨_, Or.inl rfl, ?_, ?_⟩
    · simp [List.lookup, Nat.add_assoc]
    · intro p hp
      simp only [List.mem_cons, List.not_mem_nil, or_false] at hp
      rcases hp with rfl | rfl <;> simp only [List.lookup, String.reduceBEq] <;> first | exact hr | exact hm
  | some r =>
    by_cases h : r = (specAt w.sch j).rel
    · have hb : (r == (specAt w.sch j).rel) = true := by simp [h]
      cshape [hr, hm, relV, hi.1, hb, Bool.or_true, Bool.or_false, Bool.true_or]
      refine ⟨_, Or.inl rfl, ?_, ?_⟩
      · simp [List.lookup, Nat.add_assoc, h]
      · intro p hp
        simp only [List.mem_cons, List.not_mem_nil, or_false] at hp
        rcases hp with rfl | rfl <;> simp only [List.lookup, String.reduceBEq] <;> first | exact hr | exact hm
    · have hb : (r == (specAt w.sch j).rel) = false := by simp [h]
      cshape [hr, hm, relV, hb, Bool.or_true, Bool.or_false, Bool.or_self]
      refine ⟨_, Or.inl rfl, ?_, ?_⟩
      · simp [List.lookup, h, hi.1]
      · intro p hp
        simp only [List.mem_cons, List.not_mem_nil, or_false] at hp
        rcases hp with rfl | rfl <;> simp only [List.lookup, String.reduceBEq] <;> first | exact hr | exact hm

theorem check_association_eq (w : World) (rel : Option String) :
    interp w check_association_integrity [.model, relV rel] = some (.nat (checkAssoc w rel)) := by
  obtain ⟨L', hrun, hinv⟩ := forLoop_inv (SumInv "res" [("rel_id", relV rel), ("m", .model)])
    (fun r => match r with | [.assoc j] => [assocTerm w rel j] | _ => [])
    (fun r L' => match bindRow ["ass"] r L' with
      | some L'' => iStmts w (oracle w) L'' assocBody
      | none => none)
    ((List.range w.sch.length).map (fun j => [V.assoc j]))
    (by
      intro r hr acc L hi
      obtain ⟨j, hj, rfl⟩ := List.mem_map.mp hr
      obtain ⟨L', h, hi'⟩ := assoc_body w rel j acc L hi
      exact ⟨L', Or.inl (h.resolve_right id), hi'⟩)
    [] [("res", .nat 0), ("m", .model), ("rel_id", relV rel)]
    ⟨by simp [List.lookup], by intro p hp; simp only [List.mem_cons, List.not_mem_nil, or_false] at hp; rcases hp with rfl | rfl <;> simp [List.lookup]⟩
  simp only [assocBody, check_association_integrity] at hrun
  simp only [interp, run, check_association_integrity, bindParams, Option.map_some]
  rw [iStmts_step (L' := [("m", .model), ("rel_id", relV rel)]) (by cases rel <;> cshape [relV])]
  rw [iStmts_step (L' := [("res", .nat 0), ("m", .model), ("rel_id", relV rel)]) (by cshape [])]
  rw [iStmts_for (rows := (List.range w.sch.length).map (fun j => [V.assoc j])) (by cshape []) hrun]
  simp only [iStmts, iStmt, hinv.1]
  simp only [List.nil_append, List.flatMap_map, checkAssoc]
  rw [checkAssocFrom_eq]
  congr 2
  have hfm : ∀ (l : List Nat) (f : Nat → Nat), (l.flatMap (fun j => [f j])).sum = (l.map f).sum := by
    intro l f
    induction l with
    | nil => rfl
    | cons a r ih => simp [List.flatMap_cons, ih]
  rw [hfm]
  congr 1
  apply List.map_congr_left
  intro j _
  simp [assocTerm, specAt, List.getD]
  split <;> rename_i h1 <;> simp [h1]

end Pyx.CShape
