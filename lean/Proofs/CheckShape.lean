import PyxModel.Check
import Gen.CheckShape
import Gen.CheckCond
import Proofs.Check

/-!
  C11 source tie, loop structure of xtuml/consistency_check.py: a GENERIC interpreter of the first-order IR that
  translator/gen_checkshape.py extracts (`Pyx.Gen.CheckShape`), over the worlds of PyxModel/Check.lean, and the lemmas showing
  that the counting functions of the model equal that interpretation of the IR generated from the current source.

  The interpreter (`evalE`, `evalC`, `iStmt`, `iStmts`, `run`) is defined once, for ANY IR value; only the `…_eq` lemmas mention
  the generated constants.  What it fixes, once, is the meaning of the ATOMS:

    m.select_many(kind), cls.select_many(), link.from_metaclass.select_many()   = the pool of the class (of the link's FROM class)
    m.associations, ass.rel_id / source_link / target_link                       = the schema rows by index
    m.metaclasses.values(), [m.find_metaclass(kind)]                             = all class indices / the one class
    cls.attributes / indices / indices[id] / identifying_attributes              = the `ClassInfo` of the class
    list(link.navigate(inst))                                                    = the link map of that end
    xtuml.navigate_subtype(inst, rel)                                            = `Query.navSubtype` (an exception = stuck)
    getattr(inst, name)                                                          = `World.val`
    dict(), d[k] = v, frozenset(d.items())                                       = an assignment log; items = keys in first-insertion
                                                                                   order with their LAST value
    id_map[k] = dict(), key in id_map[k], id_map[k][key] = inst                  = a two-level dictionary as the set of (k, key)
                                                                                   pairs + the initialised k (another k: KeyError = stuck)
    the counting condition / the null test                                       = `Gen.CheckCond.violates` / `isNull`
                                                                                   (translated from the same statements)
    a call of check_link_integrity                                               = what the model says it returns (`oracle`)
-/
set_option linter.unusedSimpArgs false
set_option linter.unusedVariables false
namespace Pyx.CShape
open Pyx.Meta Pyx.Check Pyx.Gen.CheckShape

abbrev Key := List (String × Option Int)

inductive V where
  | none
  | nat (n : Nat)
  | bool (b : Bool)
  | str (s : String)
  | oint (v : Option Int)
  | inst (x : Inst)
  | insts (l : List Inst)
  | model
  | cls (k : Kind)
  | clss (l : List Kind)
  | assoc (i : Nat)
  | assocs (l : List Nat)
  | link (i : Nat) (isSrc : Bool)
  | attrs (l : List (String × Bool))
  | idents (l : List (String × List String))
  | strs (l : List String)
  | strSet (l : List String)
  | emptyDict
  | dict (log : List (String × Option Int))
  | key (k : Key)
  | idmap (inits : List String) (seen : List (String × Key))
  | text

abbrev Locals := List (String × V)

/-- `dict.items()` of an assignment log: keys in first-insertion order, each with its last value -/
def itemsOf (log : List (String × Option Int)) : Key :=
  (log.map (·.1)).eraseDups.map (fun a => (a, (log.reverse.lookup a).getD none))

/-- `str.upper()` on the ASCII letters, over the character list so that it can be evaluated -/
def up (s : String) : String := String.ofList (s.toList.map Char.toUpper)

def fieldOf (w : World) : V → String → Option V
  | .model, f => if f = "associations" then some (.assocs (List.range w.sch.length)) else none
  | .assoc i, f =>
    if f = "rel_id" then some (.str (specAt w.sch i).rel)
    else if f = "source_link" then some (.link i true)
    else if f = "target_link" then some (.link i false)
    else none
  | .cls k, f =>
    match w.classes[k]? with
    | some ci =>
      if f = "indices" then some (.idents ci.idents)
      else if f = "attributes" then some (.attrs ci.attrs)
      else if f = "identifying_attributes" then some (.strs ci.identifying)
      else none
    | none => none
  | _, _ => none

def veq : V → V → Option Bool
  | .none, .none => some true
  | .none, .str _ => some false
  | .str _, .none => some false
  | .str a, .str b => some (a == b)
  | _, _ => none

def evalE (w : World) (calls : String → List V → Option V) (L : Locals) : Expr → Option V
  | .var x => L.lookup x
  | .none => some .none
  | .nat n => some (.nat n)
  | .field x f =>
    match L.lookup x with
    | some v => fieldOf w v f
    | none => none
  | .fieldAt x f k =>
    match (L.lookup x).bind (fun v => fieldOf w v f), L.lookup k with
    | some (.idents l), some (.str s) => (l.lookup s).map V.strs
    | _, _ => none
  | .selectMany m kind =>
    match L.lookup m, L.lookup kind with
    | some .model, some (.cls k) => some (.insts (w.pool k))
    | _, _ => none
  | .poolOf c =>
    match L.lookup c with
    | some (.cls k) => some (.insts (w.pool k))
    | _ => none
  | .fromPool l =>
    match L.lookup l with
    | some (.link i isSrc) => some (.insts (w.pool (if isSrc then (specAt w.sch i).tgtKind else (specAt w.sch i).srcKind)))
    | _ => none
  | .allMetaclasses m =>
    match L.lookup m with
    | some .model => some (.clss (List.range w.classes.length))
    | _ => none
  | .oneMetaclass m kind =>
    match L.lookup m, L.lookup kind with
    | some .model, some (.cls k) => some (.clss [k])
    | _, _ => none
  | .navigateSubtype i r =>
    match L.lookup i, L.lookup r with
    | some (.inst x), some (.str rel) =>
      match Query.navSubtype w.sch w.toState x rel with
      | some (some y) => some (.inst y)
      | some none => some .none
      | none => none
    | _, _ => none
  | .listNavigate l i =>
    match L.lookup l, L.lookup i with
    | some (.link j isSrc), some (.inst x) => some (.insts (if isSrc then (w.links j).src x else (w.links j).tgt x))
    | _, _ => none
  | .getattr i n =>
    match L.lookup i, L.lookup n with
    | some (.inst x), some (.str a) => some (.oint (w.val x a))
    | _, _ => none
  | .newDict => some .emptyDict
  | .frozensetItems d =>
    match L.lookup d with
    | some (.dict log) => some (.key (itemsOf log))
    | some .emptyDict => some (.key [])
    | _ => none
  | .upperSet x f =>
    match (L.lookup x).bind (fun v => fieldOf w v f) with
    | some (.strs l) => some (.strSet (l.map up))
    | _ => none
  | .callOn fn m x f =>
    match L.lookup m, (L.lookup x).bind (fun v => fieldOf w v f) with
    | some vm, some vx => calls fn [vm, vx]
    | _, _ => none
  | .pretty _ => some .text

def evalAlts (w : World) (calls : String → List V → Option V) (L : Locals) (v : V) : List Expr → Option Bool
  | [] => some false
  | e :: rest =>
    match (evalE w calls L e).bind (veq v), evalAlts w calls L v rest with
    | some b, some r => some (b || r)
    | _, _ => none

def evalC (w : World) (calls : String → List V → Option V) (L : Locals) : Cond → Option Bool
  | .truthy x =>
    match L.lookup x with
    | some (.bool b) => some b
    | _ => none
  | .notE e =>
    match evalE w calls L e with
    | some .none => some true
    | some (.inst _) => some false
    | _ => none
  | .isNone x =>
    match L.lookup x with
    | some .none => some true
    | some (.cls _) => some false
    | some (.str _) => some false
    | _ => none
  | .inList x alts =>
    match L.lookup x with
    | some v => evalAlts w calls L v alts
    | none => none
  | .upperNotIn x s =>
    match L.lookup x, L.lookup s with
    | some (.str a), some (.strSet l) => some (!l.contains (up a))
    | _, _ => none
  | .inDictAt key d k =>
    match L.lookup key, L.lookup d, L.lookup k with
    | some (.key ky), some (.idmap inits seen), some (.str s) => if inits.contains s then some (seen.contains (s, ky)) else none
    | _, _, _ => none
  | .linkCond q l =>
    match L.lookup q, L.lookup l with
    | some (.insts qs), some (.link i isSrc) =>
      some (Pyx.Gen.CheckCond.violates (if isSrc then (specAt w.sch i).srcCond else (specAt w.sch i).tgtCond)
        (if isSrc then (specAt w.sch i).srcMany else (specAt w.sch i).tgtMany) qs.length)
    | _, _ => none

inductive Sig where
  | next
  | cont
  | ret (v : V)

/-- what a `for` binds per iteration -/
def rowsOf : V → Option (List (List V))
  | .insts l => some (l.map (fun x => [V.inst x]))
  | .clss l => some (l.map (fun k => [V.cls k]))
  | .assocs l => some (l.map (fun i => [V.assoc i]))
  | .attrs l => some (l.map (fun a => [V.str a.1, V.bool a.2]))
  | .idents l => some (l.map (fun p => [V.str p.1]))
  | .strs l => some (l.map (fun s => [V.str s]))
  | _ => none

def bindRow : List String → List V → Locals → Option Locals
  | [], [], L => some L
  | x :: xs, v :: vs, L => bindRow xs vs ((x, v) :: L)
  | _, _, _ => none

def forLoop (body : List V → Locals → Option (Locals × Sig)) : List (List V) → Locals → Option (Locals × Sig)
  | [], L => some (L, .next)
  | r :: rest, L =>
    match body r L with
    | some (L', .next) => forLoop body rest L'
    | some (L', .cont) => forLoop body rest L'
    | some (L', .ret v) => some (L', .ret v)
    | none => none

mutual
  def iStmt (w : World) (calls : String → List V → Option V) (L : Locals) : Stmt → Option (Locals × Sig)
    | .assign dst e =>
      match evalE w calls L e with
      | some v => some ((dst, v) :: L, .next)
      | none => none
    | .normRel x =>
      match L.lookup x with
      | some (.nat n) => some ((x, .str ("R" ++ toString n)) :: L, .next)
      | some (.str _) => some (L, .next)
      | some .none => some (L, .next)
      | _ => none
    | .incr x =>
      match L.lookup x with
      | some (.nat n) => some ((x, .nat (n + 1)) :: L, .next)
      | _ => none
    | .addTo x e =>
      match L.lookup x, evalE w calls L e with
      | some (.nat n), some (.nat k) => some ((x, .nat (n + k)) :: L, .next)
      | _, _ => none
    | .nullTest dst v ty =>
      match L.lookup v, L.lookup ty with
      | some (.oint o), some (.bool isUid) => some ((dst, .bool (Pyx.Gen.CheckCond.isNull o isUid)) :: L, .next)
      | _, _ => none
    | .dictSet d k e =>
      match L.lookup d, L.lookup k, evalE w calls L e with
      | some .emptyDict, some (.str s), some .emptyDict => some ((d, .idmap [s] []) :: L, .next)
      | some (.idmap inits seen), some (.str s), some .emptyDict => some ((d, .idmap (inits ++ [s]) seen) :: L, .next)
      | some .emptyDict, some (.str s), some (.oint o) => some ((d, .dict [(s, o)]) :: L, .next)
      | some (.dict log), some (.str s), some (.oint o) => some ((d, .dict (log ++ [(s, o)])) :: L, .next)
      | _, _, _ => none
    | .dictSet2 d k1 k2 e =>
      match L.lookup d, L.lookup k1, L.lookup k2, evalE w calls L e with
      | some (.idmap inits seen), some (.str s), some (.key ky), some _ =>
        if inits.contains s then some ((d, .idmap inits ((s, ky) :: seen)) :: L, .next) else none
      | _, _, _, _ => none
    | .log => some (L, .next)
    | .continue_ => some (L, .cont)
    | .ifC c thn els =>
      match evalC w calls L c with
      | some true => iStmts w calls L thn
      | some false => iStmts w calls L els
      | none => none
    | .forIn vars e body =>
      match (evalE w calls L e).bind rowsOf with
      | some rows =>
        forLoop (fun r L' => match bindRow vars r L' with
          | some L'' => iStmts w calls L'' body
          | none => none) rows L
      | none => none
    | .ret x =>
      match L.lookup x with
      | some v => some (L, .ret v)
      | none => none
  def iStmts (w : World) (calls : String → List V → Option V) (L : Locals) : List Stmt → Option (Locals × Sig)
    | [] => some (L, .next)
    | s :: rest =>
      match iStmt w calls L s with
      | some (L', .next) => iStmts w calls L' rest
      | some (L', .cont) => some (L', .cont)
      | some (L', .ret v) => some (L', .ret v)
      | none => none
end

def bindParams : List String → List V → Option Locals
  | [], [] => some []
  | p :: ps, v :: vs => (bindParams ps vs).map (fun L => (p, v) :: L)
  | _, _ => none

def run (w : World) (calls : String → List V → Option V) (f : Fn) (args : List V) : Option V :=
  match bindParams f.params args with
  | some L =>
    match iStmts w calls L f.body with
    | some (_, .ret v) => some v
    | some (_, _) => some .none
    | none => none
  | none => none

/-- what the model says a callee returns -/
def oracle (w : World) (fn : String) (args : List V) : Option V :=
  if fn = "check_link_integrity" then
    (match args with
     | [.model, .link i isSrc] => some (.nat (checkLink w i isSrc))
     | _ => none)
  else none

def interp (w : World) (f : Fn) (args : List V) : Option V := run w (oracle w) f args

/-! ### loops -/

theorem forLoop_inv {α : Type} (Inv : List α → Locals → Prop) (f : List V → List α)
    (body : List V → Locals → Option (Locals × Sig)) :
    ∀ (l : List (List V)), (∀ r ∈ l, ∀ acc L, Inv acc L →
        ∃ L', (body r L = some (L', .next) ∨ body r L = some (L', .cont)) ∧ Inv (acc ++ f r) L') →
    ∀ acc L, Inv acc L → ∃ L', forLoop body l L = some (L', .next) ∧ Inv (acc ++ l.flatMap f) L'
  | [], _, acc, L, hi => ⟨L, rfl, by simpa using hi⟩
  | r :: rest, h, acc, L, hi => by
    obtain ⟨L1, h1, hi1⟩ := h r (List.mem_cons_self ..) acc L hi
    obtain ⟨L2, h2, hi2⟩ := forLoop_inv Inv f body rest (fun x hx => h x (List.mem_cons_of_mem _ hx)) _ L1 hi1
    refine ⟨L2, ?_, ?_⟩
    · rcases h1 with h1 | h1 <;> simp only [forLoop, h1, h2]
    · simpa [List.flatMap_cons, List.append_assoc] using hi2

theorem iStmts_step {w : World} {calls : String → List V → Option V} {L L' : Locals} {s : Stmt} {rest : List Stmt}
    (h : iStmt w calls L s = some (L', .next)) : iStmts w calls L (s :: rest) = iStmts w calls L' rest := by
  simp only [iStmts, h]

theorem iStmts_for {w : World} {calls : String → List V → Option V} {L L' : Locals} {vars : List String} {e : Expr}
    {rows : List (List V)} {body rest : List Stmt} (he : (evalE w calls L e).bind rowsOf = some rows)
    (h : forLoop (fun r L' => match bindRow vars r L' with
          | some L'' => iStmts w calls L'' body
          | none => none) rows L = some (L', .next)) :
    iStmts w calls L (.forIn vars e body :: rest) = iStmts w calls L' rest := by
  simp only [iStmts, iStmt, he, h]

/-- the counter invariant: `res` holds the start value plus one unit per counted row -/
def ResInv (x : String) (n0 : Nat) (keep : List (String × V)) (acc : List Unit) (L : Locals) : Prop :=
  L.lookup x = some (.nat (n0 + acc.length)) ∧ ∀ p ∈ keep, L.lookup p.1 = some p.2

theorem countP_flatMap {α : Type} (p : α → Bool) : ∀ (l : List α),
    (l.flatMap (fun a => if p a then [()] else [])).length = l.countP p
  | [] => rfl
  | a :: rest => by
    simp only [List.flatMap_cons, List.length_append, countP_flatMap p rest, List.countP_cons]
    cases p a <;> simp <;> omega

macro "cshape" "[" ts:Lean.Parser.Tactic.simpLemma,* "]" : tactic =>
  `(tactic| simp only [interp, run, bindParams, iStmts, iStmt, evalE, evalC, evalAlts, veq, fieldOf, rowsOf, bindRow, oracle,
      List.lookup, Option.map_some, Option.map_none, Option.bind_some, Option.bind_none,
      ↓reduceIte, String.reduceEq, String.reduceBEq, String.reduceBNe, reduceCtorEq, $ts,*])

/-! ### check_subtype_integrity -/

def subBody : List Stmt :=
  match check_subtype_integrity.body with
  | [_, _, .forIn _ _ b, _] => b
  | _ => []

def subOut (w : World) (rel : String) : List V → List Unit
  | [.inst x] => if (match Query.navSubtype w.sch w.toState x rel with | some (some _) => false | _ => true) then [()] else []
  | _ => []

theorem sub_body (w : World) (rel : String) (x : Inst) (hx : Query.navSubtype w.sch w.toState x rel ≠ none)
    (acc : List Unit) (L : Locals) (hi : ResInv "res" 0 [("rel_id", .str rel)] acc L) :
    ∃ L', ((match bindRow ["inst"] [V.inst x] L with
        | some L'' => iStmts w (oracle w) L'' subBody
        | none => none) = some (L', .next) ∨ False) ∧
      ResInv "res" 0 [("rel_id", .str rel)] (acc ++ subOut w rel [V.inst x]) L' := by
  have hrel : L.lookup "rel_id" = some (.str rel) := hi.2 _ (List.mem_cons_self ..)
  simp only [subBody, check_subtype_integrity, subOut]
  cases hn : Query.navSubtype w.sch w.toState x rel with
  | none => exact absurd hn hx
  | some o =>
    cases o with
    | some y =>
      cshape [hrel, hn]
      exact ⟨_, Or.inl rfl, by simpa [ResInv, List.lookup] using hi⟩
    | none =>
      cshape [hrel, hn, hi.1]
      refine ⟨_, Or.inl rfl, ?_, ?_⟩
      · simp [List.lookup, Nat.add_assoc]
      · intro p hp
        simp only [List.mem_cons, List.not_mem_nil, or_false] at hp
        subst hp
        simp only [List.lookup, String.reduceBEq]
        exact hrel

theorem check_subtype_eq (w : World) (k : Kind) (rel : String)
    (hnav : ∀ x ∈ w.pool k, Query.navSubtype w.sch w.toState x rel ≠ none) :
    interp w check_subtype_integrity [.model, .cls k, .str rel] = some (.nat (checkSubtype w k rel)) := by
  obtain ⟨L', hrun, hinv⟩ := forLoop_inv (ResInv "res" 0 [("rel_id", .str rel)]) (subOut w rel)
    (fun r L' => match bindRow ["inst"] r L' with
      | some L'' => iStmts w (oracle w) L'' subBody
      | none => none)
    ((w.pool k).map (fun x => [V.inst x]))
    (by
      intro r hr acc L hi
      obtain ⟨x, hx, rfl⟩ := List.mem_map.mp hr
      obtain ⟨L', h, hi'⟩ := sub_body w rel x (hnav x hx) acc L hi
      exact ⟨L', Or.inl (h.resolve_right id), hi'⟩)
    [] [("res", .nat 0), ("m", .model), ("super_kind", .cls k), ("rel_id", .str rel)]
    ⟨by simp [List.lookup], by intro p hp; simp only [List.mem_cons, List.not_mem_nil, or_false] at hp; subst hp; simp [List.lookup]⟩
  simp only [subBody, check_subtype_integrity] at hrun
  simp only [interp, run, check_subtype_integrity, bindParams, Option.map_some]
  rw [iStmts_step (L' := [("m", .model), ("super_kind", .cls k), ("rel_id", .str rel)]) (by cshape [])]
  rw [iStmts_step (L' := [("res", .nat 0), ("m", .model), ("super_kind", .cls k), ("rel_id", .str rel)]) (by cshape [])]
  rw [iStmts_for (rows := (w.pool k).map (fun x => [V.inst x])) (by cshape []) hrun]
  simp only [iStmts, iStmt, hinv.1]
  simp only [List.nil_append, List.flatMap_map, Nat.zero_add, checkSubtype]
  congr 2
  exact countP_flatMap _ _

/-! ### check_link_integrity -/

theorem violates_gen (cond many : Bool) (n : Nat) : Pyx.Gen.CheckCond.violates cond many n = violates cond many n := by
  unfold Pyx.Gen.CheckCond.violates violates
  cases cond <;> cases many <;> simp

def linkBody : List Stmt :=
  match check_link_integrity.body with
  | [_, .forIn _ _ b, _] => b
  | _ => []

def linkP (w : World) (i : Nat) (isSrc : Bool) (x : Inst) : Bool :=
  violates (if isSrc then (specAt w.sch i).srcCond else (specAt w.sch i).tgtCond)
    (if isSrc then (specAt w.sch i).srcMany else (specAt w.sch i).tgtMany)
    (if isSrc then (w.links i).src x else (w.links i).tgt x).length

def linkOut (w : World) (i : Nat) (isSrc : Bool) : List V → List Unit
  | [.inst x] => if linkP w i isSrc x then [()] else []
  | _ => []

theorem link_body (w : World) (i : Nat) (isSrc : Bool) (x : Inst) (acc : List Unit) (L : Locals)
    (hi : ResInv "res" 0 [("link", .link i isSrc)] acc L) :
    ∃ L', ((match bindRow ["inst"] [V.inst x] L with
        | some L'' => iStmts w (oracle w) L'' linkBody
        | none => none) = some (L', .next) ∨ False) ∧
      ResInv "res" 0 [("link", .link i isSrc)] (acc ++ linkOut w i isSrc [V.inst x]) L' := by
  have hl : L.lookup "link" = some (.link i isSrc) := hi.2 _ (List.mem_cons_self ..)
  simp only [linkBody, check_link_integrity, linkOut, linkP]
  cshape [hl, violates_gen]
  by_cases hv : violates (if isSrc = true then (specAt w.sch i).srcCond else (specAt w.sch i).tgtCond)
      (if isSrc = true then (specAt w.sch i).srcMany else (specAt w.sch i).tgtMany)
      (if isSrc = true then (w.links i).src x else (w.links i).tgt x).length = true
  · simp only [hv, hi.1, ↓reduceIte]
    refine ⟨_, Or.inl rfl, ?_, ?_⟩
    · simp [List.lookup, Nat.add_assoc]
    · intro p hp
      simp only [List.mem_cons, List.not_mem_nil, or_false] at hp
      subst hp
      simp only [List.lookup, String.reduceBEq]
      exact hl
  · have hv' := Bool.eq_false_iff.mpr hv
    simp only [hv', Bool.false_eq_true, ↓reduceIte]
    exact ⟨_, Or.inl rfl, by simpa [ResInv, List.lookup] using hi⟩

theorem check_link_eq (w : World) (i : Nat) (isSrc : Bool) :
    interp w check_link_integrity [.model, .link i isSrc] = some (.nat (checkLink w i isSrc)) := by
  obtain ⟨L', hrun, hinv⟩ := forLoop_inv (ResInv "res" 0 [("link", .link i isSrc)]) (linkOut w i isSrc)
    (fun r L' => match bindRow ["inst"] r L' with
      | some L'' => iStmts w (oracle w) L'' linkBody
      | none => none)
    ((w.pool (if isSrc then (specAt w.sch i).tgtKind else (specAt w.sch i).srcKind)).map (fun x => [V.inst x]))
    (by
      intro r hr acc L hi
      obtain ⟨x, hx, rfl⟩ := List.mem_map.mp hr
      obtain ⟨L', h, hi'⟩ := link_body w i isSrc x acc L hi
      exact ⟨L', Or.inl (h.resolve_right id), hi'⟩)
    [] [("res", .nat 0), ("m", .model), ("link", .link i isSrc)]
    ⟨by simp [List.lookup], by intro p hp; simp only [List.mem_cons, List.not_mem_nil, or_false] at hp; subst hp; simp [List.lookup]⟩
  simp only [linkBody, check_link_integrity] at hrun
  simp only [interp, run, check_link_integrity, bindParams, Option.map_some]
  rw [iStmts_step (L' := [("res", .nat 0), ("m", .model), ("link", .link i isSrc)]) (by cshape [])]
  rw [iStmts_for (rows := (w.pool (if isSrc then (specAt w.sch i).tgtKind else (specAt w.sch i).srcKind)).map (fun x => [V.inst x]))
    (by cshape []) hrun]
  simp only [iStmts, iStmt, hinv.1]
  simp only [List.nil_append, List.flatMap_map, Nat.zero_add, checkLink]
  congr 2
  cases isSrc
  · exact countP_flatMap (linkP w i false) _
  · exact countP_flatMap (linkP w i true) _

/-! ### check_association_integrity -/

def relV : Option String → V
  | some r => .str r
  | none => .none

def assocBody : List Stmt :=
  match check_association_integrity.body with
  | [_, _, .forIn _ _ b, _] => b
  | _ => []

def assocTerm (w : World) (rel : Option String) (j : Nat) : Nat :=
  if rel = none ∨ rel = some (specAt w.sch j).rel then checkLink w j true + checkLink w j false else 0

def SumInv (x : String) (keep : List (String × V)) (acc : List Nat) (L : Locals) : Prop :=
  L.lookup x = some (.nat acc.sum) ∧ ∀ p ∈ keep, L.lookup p.1 = some p.2

theorem assoc_body (w : World) (rel : Option String) (j : Nat) (acc : List Nat) (L : Locals)
    (hi : SumInv "res" [("rel_id", relV rel), ("m", .model)] acc L) :
    ∃ L', ((match bindRow ["ass"] [V.assoc j] L with
        | some L'' => iStmts w (oracle w) L'' assocBody
        | none => none) = some (L', .next) ∨ False) ∧
      SumInv "res" [("rel_id", relV rel), ("m", .model)] (acc ++ [assocTerm w rel j]) L' := by
  have hr : L.lookup "rel_id" = some (relV rel) := hi.2 _ (List.mem_cons_self ..)
  have hm : L.lookup "m" = some .model := hi.2 _ (List.mem_cons_of_mem _ (List.mem_cons_self ..))
  simp only [assocBody, check_association_integrity, assocTerm]
  cases rel with
  | none =>
    cshape [hr, hm, relV, hi.1, Bool.or_true, Bool.or_false, true_or]
    refine ⟨_, Or.inl rfl, ?_, ?_⟩
    · simp [List.lookup, Nat.add_assoc]
    · intro p hp
      simp only [List.mem_cons, List.not_mem_nil, or_false] at hp
      rcases hp with rfl | rfl <;> simp only [List.lookup, String.reduceBEq] <;> first | exact hr | exact hm
  | some r =>
    by_cases h : r = (specAt w.sch j).rel
    · have hb : (r == (specAt w.sch j).rel) = true := by simp [h]
      cshape [hr, hm, relV, hi.1, hb, Bool.or_true, Bool.or_false, Bool.true_or]
      refine ⟨_, Or.inl rfl, ?_, ?_⟩
      · simp [List.lookup, Nat.add_assoc, h]
      · intro p hp
        simp only [List.mem_cons, List.not_mem_nil, or_false] at hp
        rcases hp with rfl | rfl <;> simp only [List.lookup, String.reduceBEq] <;> first | exact hr | exact hm
    · have hb : (r == (specAt w.sch j).rel) = false := by simp [h]
      cshape [hr, hm, relV, hb, Bool.or_true, Bool.or_false, Bool.or_self]
      refine ⟨_, Or.inl rfl, ?_, ?_⟩
      · simp [List.lookup, h, hi.1]
      · intro p hp
        simp only [List.mem_cons, List.not_mem_nil, or_false] at hp
        rcases hp with rfl | rfl <;> simp only [List.lookup, String.reduceBEq] <;> first | exact hr | exact hm

theorem check_association_eq (w : World) (rel : Option String) :
    interp w check_association_integrity [.model, relV rel] = some (.nat (checkAssoc w rel)) := by
  obtain ⟨L', hrun, hinv⟩ := forLoop_inv (SumInv "res" [("rel_id", relV rel), ("m", .model)])
    (fun r => match r with | [.assoc j] => [assocTerm w rel j] | _ => [])
    (fun r L' => match bindRow ["ass"] r L' with
      | some L'' => iStmts w (oracle w) L'' assocBody
      | none => none)
    ((List.range w.sch.length).map (fun j => [V.assoc j]))
    (by
      intro r hr acc L hi
      obtain ⟨j, hj, rfl⟩ := List.mem_map.mp hr
      obtain ⟨L', h, hi'⟩ := assoc_body w rel j acc L hi
      exact ⟨L', Or.inl (h.resolve_right id), hi'⟩)
    [] [("res", .nat 0), ("m", .model), ("rel_id", relV rel)]
    ⟨by simp [List.lookup], by intro p hp; simp only [List.mem_cons, List.not_mem_nil, or_false] at hp; rcases hp with rfl | rfl <;> simp [List.lookup]⟩
  simp only [assocBody, check_association_integrity] at hrun
  simp only [interp, run, check_association_integrity, bindParams, Option.map_some]
  rw [iStmts_step (L' := [("m", .model), ("rel_id", relV rel)]) (by cases rel <;> cshape [relV])]
  rw [iStmts_step (L' := [("res", .nat 0), ("m", .model), ("rel_id", relV rel)]) (by cshape [])]
  rw [iStmts_for (rows := (List.range w.sch.length).map (fun j => [V.assoc j])) (by cshape []) hrun]
  simp only [iStmts, iStmt, hinv.1]
  simp only [List.nil_append, List.flatMap_map, checkAssoc]
  rw [checkAssocFrom_eq]
  congr 2
  have hfm : ∀ (l : List Nat) (f : Nat → Nat), (l.flatMap (fun j => [f j])).sum = (l.map f).sum := by
    intro l f
    induction l with
    | nil => rfl
    | cons a r ih => simp [List.flatMap_cons, ih]
  rw [hfm]
  congr 1
  apply List.map_congr_left
  intro j _
  simp [assocTerm, specAt, List.getD]
  split <;> rename_i h1 <;> simp [h1]

/-! ### check_uniqueness_constraint -/

def Frame (A : List String) (L0 L : Locals) : Prop := ∀ x, x ∉ A → L.lookup x = L0.lookup x

theorem Frame.refl (A : List String) (L : Locals) : Frame A L L := fun _ _ => rfl

theorem Frame.push {A : List String} {L0 L : Locals} {a : String} (v : V) (h : a ∈ A) (f : Frame A L0 L) :
    Frame A L0 ((a, v) :: L) := by
  intro x hx
  have : (x == a) = false := by
    simp only [beq_eq_false_iff_ne, ne_eq]
    intro e; subst e; exact hx h
  simp only [List.lookup, this]
  exact f x hx

theorem Frame.trans {A : List String} {L0 L1 L2 : Locals} (f : Frame A L0 L1) (g : Frame A L1 L2) : Frame A L0 L2 :=
  fun x hx => (g x hx).trans (f x hx)

theorem Frame.mono {A B : List String} {L0 L : Locals} (h : ∀ x ∈ A, x ∈ B) (f : Frame A L0 L) : Frame B L0 L :=
  fun x hx => f x (fun hA => hx (h x hA))

theorem forLoop_fold {σ : Type} (Abs : σ → Locals → Prop) (step : List V → σ → σ)
    (body : List V → Locals → Option (Locals × Sig)) :
    ∀ (l : List (List V)), (∀ r ∈ l, ∀ s L, Abs s L →
        ∃ L', (body r L = some (L', .next) ∨ body r L = some (L', .cont)) ∧ Abs (step r s) L') →
    ∀ s L, Abs s L → ∃ L', forLoop body l L = some (L', .next) ∧ Abs (l.foldl (fun s r => step r s) s) L'
  | [], _, s, L, hi => ⟨L, rfl, hi⟩
  | r :: rest, h, s, L, hi => by
    obtain ⟨L1, h1, hi1⟩ := h r (List.mem_cons_self ..) s L hi
    obtain ⟨L2, h2, hi2⟩ := forLoop_fold Abs step body rest (fun x hx => h x (List.mem_cons_of_mem _ hx)) _ L1 hi1
    refine ⟨L2, ?_, hi2⟩
    rcases h1 with h1 | h1 <;> simp only [forLoop, h1, h2]

def A1 : List String :=
  ["name", "ty", "value", "isnull", "identifier", "kwargs", "index_key", "id_string", "res", "id_map"]

def kwV : List (String × Option Int) → V
  | [] => .emptyDict
  | log => .dict log

def uniqBodyInst : List Stmt :=
  match check_uniqueness_constraint.body with
  | [_, _, .forIn _ _ [_, _, _, .forIn _ _ b], _] => b
  | _ => []

def identBody : List Stmt :=
  match uniqBodyInst with
  | [_, .forIn _ _ b] => b
  | _ => []

def kwBody : List Stmt :=
  match identBody with
  | [_, .forIn _ _ b, _, _, _] => b
  | _ => []

def A0 : List String := ["name", "kwargs"]

theorem kw_body (w : World) (x : Inst) (L0 : Locals) (h0 : L0.lookup "inst" = some (.inst x)) (a : String)
    (log : List (String × Option Int)) (L : Locals) (hi : Frame A0 L0 L ∧ L.lookup "kwargs" = some (kwV log)) :
    ∃ L', ((match bindRow ["name"] [V.str a] L with
        | some L'' => iStmts w (oracle w) L'' kwBody
        | none => none) = some (L', .next) ∨ False) ∧
      (Frame A0 L0 L' ∧ L'.lookup "kwargs" = some (kwV (log ++ [(a, w.val x a)]))) := by
  have hinst : L.lookup "inst" = some (.inst x) := (hi.1 "inst" (by decide)).trans h0
  simp only [kwBody, identBody, uniqBodyInst, check_uniqueness_constraint]
  cases log with
  | nil =>
    cshape [hinst, hi.2, kwV]
    exact ⟨_, Or.inl rfl, Frame.push _ (by decide) (Frame.push _ (by decide) hi.1), by simp [List.lookup, kwV]⟩
  | cons p rest =>
    cshape [hinst, hi.2, kwV]
    exact ⟨_, Or.inl rfl, Frame.push _ (by decide) (Frame.push _ (by decide) hi.1), by simp [List.lookup, kwV]⟩

theorem kw_loop (w : World) (x : Inst) (L0 : Locals) (h0 : L0.lookup "inst" = some (.inst x)) (attrs : List String)
    (L : Locals) (hi : Frame A0 L0 L ∧ L.lookup "kwargs" = some (kwV [])) :
    ∃ L', forLoop (fun r L' => match bindRow ["name"] r L' with
        | some L'' => iStmts w (oracle w) L'' kwBody
        | none => none) (attrs.map (fun a => [V.str a])) L = some (L', .next) ∧
      Frame A0 L0 L' ∧ L'.lookup "kwargs" = some (kwV (attrs.map (fun a => (a, w.val x a)))) := by
  obtain ⟨L', hrun, hinv⟩ := forLoop_fold (fun log L => Frame A0 L0 L ∧ L.lookup "kwargs" = some (kwV log))
    (fun r log => match r with | [.str a] => log ++ [(a, w.val x a)] | _ => log)
    (fun r L' => match bindRow ["name"] r L' with
        | some L'' => iStmts w (oracle w) L'' kwBody
        | none => none) (attrs.map (fun a => [V.str a]))
    (by
      intro r hr log L hi
      obtain ⟨a, _, rfl⟩ := List.mem_map.mp hr
      obtain ⟨L', h, hi'⟩ := kw_body w x L0 h0 a log L hi
      exact ⟨L', Or.inl (h.resolve_right id), hi'⟩) [] L hi
  refine ⟨L', hrun, ?_⟩
  have hf : ∀ (l : List String) (log : List (String × Option Int)),
      (l.map (fun a => [V.str a])).foldl (fun s r => match r with | [.str a] => s ++ [(a, w.val x a)] | _ => s) log =
        log ++ l.map (fun a => (a, w.val x a)) := by
    intro l
    induction l with
    | nil => intro log; simp
    | cons a rest ih => intro log; simp only [List.map_cons, List.foldl_cons, ih, List.append_assoc, List.cons_append, List.nil_append]
  rw [hf] at hinv
  simpa using hinv

theorem lookup_map_self {β : Type} (f : String → β) : ∀ (l : List String) (a : String), a ∈ l →
    (l.map (fun a => (a, f a))).lookup a = some (f a)
  | [], _, h => by cases h
  | b :: rest, a, h => by
    simp only [List.map_cons, List.lookup]
    by_cases e : a = b
    · subst e; simp
    · have : (a == b) = false := by simp [e]
      simp only [this]
      exact lookup_map_self f rest a (by cases h with | head => exact absurd rfl e | tail _ h' => exact h')

theorem itemsOf_map (val : Inst → String → Option Int) (x : Inst) (attrs : List String) :
    itemsOf (attrs.map (fun a => (a, val x a))) = identKey val x attrs := by
  unfold itemsOf identKey
  simp only [List.map_map, Function.comp_def, List.map_id']
  apply List.map_congr_left
  intro a ha
  have hm : a ∈ attrs.reverse := List.mem_reverse.mpr (List.mem_eraseDups.mp ha)
  rw [← List.map_reverse, lookup_map_self (val x) attrs.reverse a hm]
  rfl

theorem lookup_nodup {β : Type} : ∀ (l : List (String × β)) (p : String × β), (l.map (·.1)).Nodup → p ∈ l →
    l.lookup p.1 = some p.2
  | [], _, _, h => by cases h
  | q :: rest, p, hnd, h => by
    simp only [List.map_cons, List.nodup_cons] at hnd
    cases h with
    | head => simp [List.lookup]
    | tail _ h' =>
      have hne : (p.1 == q.1) = false := by
        simp only [beq_eq_false_iff_ne, ne_eq]
        intro e
        exact hnd.1 (e ▸ List.mem_map_of_mem h')
      simp only [List.lookup, hne]
      exact lookup_nodup rest p hnd.2 h'

/-- one identifier of one instance: the step of the model's `uniqStep` fold -/
def imV (inits : List String) (seen : List (String × Key)) : V :=
  match inits with
  | [] => .emptyDict
  | _ => .idmap inits seen

def uStepFn (val : Inst → String → Option Int) (x : Inst) (acc : Nat × List (String × Key)) (idn : String × List String) :
    Nat × List (String × Key) :=
  ((if acc.2.contains (idn.1, identKey val x idn.2) then acc.1 + 1 else acc.1), (idn.1, identKey val x idn.2) :: acc.2)

theorem ident_body (w : World) (k : Kind) (ci : ClassInfo) (hk : w.classes[k]? = some ci) (hnd : (ci.idents.map (·.1)).Nodup)
    (x : Inst) (L0 : Locals) (h0 : L0.lookup "inst" = some (.inst x)) (hm : L0.lookup "metaclass" = some (.cls k))
    (idn : String × List String) (hidn : idn ∈ ci.idents) (s : Nat × List (String × Key)) (L : Locals)
    (hi : Frame A1 L0 L ∧ L.lookup "res" = some (.nat s.1) ∧ L.lookup "id_map" = some (imV (ci.idents.map (·.1)) s.2)) :
    ∃ L', ((match bindRow ["identifier"] [V.str idn.1] L with
        | some L'' => iStmts w (oracle w) L'' identBody
        | none => none) = some (L', .next) ∨ False) ∧
      (Frame A1 L0 L' ∧ L'.lookup "res" = some (.nat (uStepFn w.val x s idn).1) ∧
        L'.lookup "id_map" = some (imV (ci.idents.map (·.1)) (uStepFn w.val x s idn).2)) := by
  have himv : ∀ sn, imV (ci.idents.map (·.1)) sn = .idmap (ci.idents.map (·.1)) sn := by
    intro sn
    cases hl : ci.idents.map (·.1) with
    | nil => have := List.mem_map_of_mem (f := (·.1)) hidn; rw [hl] at this; cases this
    | cons q r => rfl
  simp only [himv] at hi ⊢
  have hmc : L.lookup "metaclass" = some (.cls k) := (hi.1 "metaclass" (by decide)).trans hm
  have hlk : ci.idents.lookup idn.1 = some idn.2 := lookup_nodup ci.idents idn hnd hidn
  have hin : (ci.idents.map (·.1)).contains idn.1 = true := by
    simp only [List.contains_iff_mem]; exact List.mem_map_of_mem hidn
  have hinst : L.lookup "inst" = some (.inst x) := (hi.1 "inst" (by decide)).trans h0
  obtain ⟨L1, hrun, hf1, hkw⟩ := kw_loop w x (("kwargs", .emptyDict) :: ("identifier", .str idn.1) :: L)
    (by simp only [List.lookup, String.reduceBEq]; exact hinst) idn.2
    (("kwargs", .emptyDict) :: ("identifier", .str idn.1) :: L)
    ⟨Frame.refl _ _, by simp [List.lookup, kwV]⟩
  simp only [kwBody, identBody, uniqBodyInst, check_uniqueness_constraint] at hrun
  simp only [identBody, uniqBodyInst, check_uniqueness_constraint, bindRow]
  rw [iStmts_step (L' := ("kwargs", .emptyDict) :: ("identifier", .str idn.1) :: L) (by cshape [])]
  rw [iStmts_for (rows := idn.2.map (fun a => [V.str a])) (by cshape [hmc, hk, hlk]) hrun]
  have hid1 : L1.lookup "identifier" = some (.str idn.1) := by
    rw [hf1 "identifier" (by decide)]; simp [List.lookup]
  have hres1 : L1.lookup "res" = some (.nat s.1) := by
    rw [hf1 "res" (by decide)]; simp only [List.lookup, String.reduceBEq]; exact hi.2.1
  have him1 : L1.lookup "id_map" = some (.idmap (ci.idents.map (·.1)) s.2) := by
    rw [hf1 "id_map" (by decide)]; simp only [List.lookup, String.reduceBEq]; exact hi.2.2
  have hin1 : L1.lookup "inst" = some (.inst x) := by
    rw [hf1 "inst" (by decide)]; simp only [List.lookup, String.reduceBEq]; exact hinst
  have hfr1 : Frame A1 L0 L1 :=
    Frame.trans (Frame.push _ (by decide) (Frame.push _ (by decide) hi.1)) (Frame.mono (by decide) hf1)
  have hkey : evalE w (oracle w) L1 (.frozensetItems "kwargs") = some (.key (identKey w.val x idn.2)) := by
    rw [← itemsOf_map]
    cases hl : idn.2.map (fun a => (a, w.val x a)) with
    | nil => rw [hl] at hkw; simp only [evalE, hkw, kwV]; rfl
    | cons q r => rw [hl] at hkw; simp only [evalE, hkw, kwV]
  rw [iStmts_step (L' := ("index_key", .key (identKey w.val x idn.2)) :: L1) (by simp only [iStmt, hkey])]
  by_cases hc : s.2.contains (idn.1, identKey w.val x idn.2) = true
  · cshape [hid1, hres1, him1, hin1, hin, hc, uStepFn]
    refine ⟨_, Or.inl rfl, ?_, by simp [List.lookup], by simp [List.lookup]⟩
    exact Frame.push _ (by decide) (Frame.push _ (by decide) (Frame.push _ (by decide) (Frame.push _ (by decide) hfr1)))
  · have hc' := Bool.eq_false_iff.mpr hc
    cshape [hid1, hres1, him1, hin1, hin, hc', uStepFn, Bool.false_eq_true]
    refine ⟨_, Or.inl rfl, ?_, by simp only [List.lookup, String.reduceBEq]; exact hres1, by simp [List.lookup]⟩
    exact Frame.push _ (by decide) (Frame.push _ (by decide) hfr1)

theorem uStep_shift (val : Inst → String → Option Int) (x : Inst) : ∀ (l : List (String × List String)) (r : Nat)
    (seen : List (String × Key)),
    l.foldl (uStepFn val x) (r, seen) = (r + (l.foldl (uStepFn val x) (0, seen)).1, (l.foldl (uStepFn val x) (0, seen)).2)
  | [], r, seen => by simp
  | idn :: rest, r, seen => by
    simp only [List.foldl_cons, uStepFn]
    by_cases hc : seen.contains (idn.1, identKey val x idn.2) = true
    · simp only [hc, if_true]
      rw [uStep_shift val x rest (r + 1), uStep_shift val x rest (0 + 1)]
      simp only [Prod.mk.injEq, and_true]
      omega
    · simp only [hc, if_false]
      exact uStep_shift val x rest r _

theorem uniqStep_fold (ci : ClassInfo) (val : Inst → String → Option Int) (x : Inst) (seen : List (String × Key)) :
    uniqStep ci val x seen = ci.idents.foldl (uStepFn val x) (0, seen) := rfl

theorem ident_loop (w : World) (k : Kind) (ci : ClassInfo) (hk : w.classes[k]? = some ci) (hnd : (ci.idents.map (·.1)).Nodup)
    (x : Inst) (L0 : Locals) (h0 : L0.lookup "inst" = some (.inst x)) (hm : L0.lookup "metaclass" = some (.cls k))
    (s : Nat × List (String × Key)) (L : Locals)
    (hi : Frame A1 L0 L ∧ L.lookup "res" = some (.nat s.1) ∧ L.lookup "id_map" = some (imV (ci.idents.map (·.1)) s.2)) :
    ∃ L', forLoop (fun r L' => match bindRow ["identifier"] r L' with
        | some L'' => iStmts w (oracle w) L'' identBody
        | none => none) (ci.idents.map (fun p => [V.str p.1])) L = some (L', .next) ∧
      Frame A1 L0 L' ∧ L'.lookup "res" = some (.nat (s.1 + (uniqStep ci w.val x s.2).1)) ∧
        L'.lookup "id_map" = some (imV (ci.idents.map (·.1)) (uniqStep ci w.val x s.2).2) := by
  obtain ⟨L', hrun, hinv⟩ := forLoop_fold
    (fun (s : Nat × List (String × Key)) L => Frame A1 L0 L ∧ L.lookup "res" = some (.nat s.1) ∧
      L.lookup "id_map" = some (imV (ci.idents.map (·.1)) s.2))
    (fun r s => match r with
      | [.str n] => (match ci.idents.lookup n with | some as => uStepFn w.val x s (n, as) | none => s)
      | _ => s)
    (fun r L' => match bindRow ["identifier"] r L' with
        | some L'' => iStmts w (oracle w) L'' identBody
        | none => none) (ci.idents.map (fun p => [V.str p.1]))
    (by
      intro r hr s L hi
      obtain ⟨idn, hidn, rfl⟩ := List.mem_map.mp hr
      obtain ⟨L', h, hi'⟩ := ident_body w k ci hk hnd x L0 h0 hm idn hidn s L hi
      refine ⟨L', Or.inl (h.resolve_right id), ?_⟩
      simp only [lookup_nodup ci.idents idn hnd hidn]
      exact hi') s L hi
  refine ⟨L', hrun, ?_⟩
  have hf : ∀ (l : List (String × List String)), (∀ p ∈ l, p ∈ ci.idents) → ∀ s,
      (l.map (fun p => [V.str p.1])).foldl (fun s r => match r with
        | [.str n] => (match ci.idents.lookup n with | some as => uStepFn w.val x s (n, as) | none => s)
        | _ => s) s = l.foldl (uStepFn w.val x) s := by
    intro l
    induction l with
    | nil => intro _ s; rfl
    | cons p rest ih =>
      intro hsub s
      simp only [List.map_cons, List.foldl_cons, lookup_nodup ci.idents p hnd (hsub p (List.mem_cons_self ..))]
      exact ih (fun q hq => hsub q (List.mem_cons_of_mem _ hq)) _
  rw [hf _ (fun p hp => hp)] at hinv
  have hs : s = (s.1, s.2) := rfl
  rw [hs, uStep_shift, ← uniqStep_fold] at hinv
  exact hinv

theorem isNull_gen (v : Option Int) (isUid : Bool) : Pyx.Gen.CheckCond.isNull v isUid = isNull v isUid := by
  unfold Pyx.Gen.CheckCond.isNull isNull
  cases v with
  | none => simp
  | some x =>
    cases isUid <;> simp
    by_cases hx : x = 0 <;> simp [hx]

def nullBody : List Stmt :=
  match uniqBodyInst with
  | [.forIn _ _ b, _] => b
  | _ => []

def nullTerm (w : World) (ci : ClassInfo) (x : Inst) (a : String × Bool) : Nat :=
  if (ci.identifying.map up).contains (up a.1) && isNull (w.val x a.1) a.2 then 1 else 0

theorem null_body (w : World) (ci : ClassInfo) (x : Inst) (im : V) (L0 : Locals) (h0 : L0.lookup "inst" = some (.inst x))
    (hid : L0.lookup "identifying" = some (.strSet (ci.identifying.map up))) (a : String × Bool) (r : Nat) (L : Locals)
    (hi : Frame A1 L0 L ∧ L.lookup "res" = some (.nat r) ∧ L.lookup "id_map" = some im) :
    ∃ L', ((match bindRow ["name", "ty"] [V.str a.1, V.bool a.2] L with
        | some L'' => iStmts w (oracle w) L'' nullBody
        | none => none) = some (L', .next) ∨
        (match bindRow ["name", "ty"] [V.str a.1, V.bool a.2] L with
        | some L'' => iStmts w (oracle w) L'' nullBody
        | none => none) = some (L', .cont)) ∧
      (Frame A1 L0 L' ∧ L'.lookup "res" = some (.nat (r + nullTerm w ci x a)) ∧ L'.lookup "id_map" = some im) := by
  have hinst : L.lookup "inst" = some (.inst x) := (hi.1 "inst" (by decide)).trans h0
  have hidf : L.lookup "identifying" = some (.strSet (ci.identifying.map up)) := (hi.1 "identifying" (by decide)).trans hid
  simp only [nullBody, uniqBodyInst, check_uniqueness_constraint, nullTerm]
  by_cases hc : (ci.identifying.map up).contains (up a.1) = true
  · by_cases hn : isNull (w.val x a.1) a.2 = true
    · cshape [hinst, hidf, hc, hn, isNull_gen, hi.2.1, Bool.not_true, Bool.false_eq_true, Bool.and_self]
      refine ⟨_, Or.inl rfl, ?_, by simp [List.lookup], by simp only [List.lookup, String.reduceBEq]; exact hi.2.2⟩
      exact Frame.push _ (by decide) (Frame.push _ (by decide) (Frame.push _ (by decide) (Frame.push _ (by decide)
        (Frame.push _ (by decide) hi.1))))
    · have hn' := Bool.eq_false_iff.mpr hn
      cshape [hinst, hidf, hc, hn', isNull_gen, Bool.not_true, Bool.false_eq_true, Bool.and_false, Nat.add_zero]
      refine ⟨_, Or.inl rfl, ?_, by simp only [List.lookup, String.reduceBEq]; exact hi.2.1,
        by simp only [List.lookup, String.reduceBEq]; exact hi.2.2⟩
      exact Frame.push _ (by decide) (Frame.push _ (by decide) (Frame.push _ (by decide) (Frame.push _ (by decide) hi.1)))
  · have hc' := Bool.eq_false_iff.mpr hc
    cshape [hinst, hidf, hc', Bool.not_false, Bool.false_and, Bool.false_eq_true, Nat.add_zero]
    refine ⟨_, Or.inr rfl, ?_, by simp only [List.lookup, String.reduceBEq]; exact hi.2.1,
      by simp only [List.lookup, String.reduceBEq]; exact hi.2.2⟩
    exact Frame.push _ (by decide) (Frame.push _ (by decide) hi.1)

theorem null_fold (w : World) (ci : ClassInfo) (x : Inst)
    (hcase : ∀ a ∈ ci.attrs, (ci.identifying.map up).contains (up a.1) = ci.identifying.contains a.1) :
    ∀ (l : List (String × Bool)), (∀ a ∈ l, a ∈ ci.attrs) → ∀ r,
      (l.map (fun a => [V.str a.1, V.bool a.2])).foldl (fun r row => match row with
        | [.str n, .bool b] => r + nullTerm w ci x (n, b) | _ => r) r =
      r + ((l.filter (fun a => ci.identifying.contains a.1)).countP (fun a => isNull (w.val x a.1) a.2))
  | [], _, r => by simp
  | a :: rest, hsub, r => by
    simp only [List.map_cons, List.foldl_cons]
    rw [null_fold w ci x hcase rest (fun b hb => hsub b (List.mem_cons_of_mem _ hb))]
    simp only [nullTerm, hcase a (hsub a (List.mem_cons_self ..)), List.filter_cons]
    cases h1 : ci.identifying.contains a.1 <;> cases h2 : isNull (w.val x a.1) a.2 <;>
      simp [h1, h2, List.countP_cons] <;> omega

theorem null_loop (w : World) (ci : ClassInfo) (x : Inst) (im : V) (L0 : Locals) (h0 : L0.lookup "inst" = some (.inst x))
    (hid : L0.lookup "identifying" = some (.strSet (ci.identifying.map up)))
    (hcase : ∀ a ∈ ci.attrs, (ci.identifying.map up).contains (up a.1) = ci.identifying.contains a.1)
    (r : Nat) (L : Locals) (hi : Frame A1 L0 L ∧ L.lookup "res" = some (.nat r) ∧ L.lookup "id_map" = some im) :
    ∃ L', forLoop (fun row L' => match bindRow ["name", "ty"] row L' with
        | some L'' => iStmts w (oracle w) L'' nullBody
        | none => none) (ci.attrs.map (fun a => [V.str a.1, V.bool a.2])) L = some (L', .next) ∧
      Frame A1 L0 L' ∧ L'.lookup "res" = some (.nat (r + nullCount ci w.val x)) ∧ L'.lookup "id_map" = some im := by
  obtain ⟨L', hrun, hinv⟩ := forLoop_fold
    (fun (r : Nat) L => Frame A1 L0 L ∧ L.lookup "res" = some (.nat r) ∧ L.lookup "id_map" = some im)
    (fun row r => match row with | [.str n, .bool b] => r + nullTerm w ci x (n, b) | _ => r)
    (fun row L' => match bindRow ["name", "ty"] row L' with
        | some L'' => iStmts w (oracle w) L'' nullBody
        | none => none) (ci.attrs.map (fun a => [V.str a.1, V.bool a.2]))
    (by
      intro row hr r L hi
      obtain ⟨a, _, rfl⟩ := List.mem_map.mp hr
      exact null_body w ci x im L0 h0 hid a r L hi) r L hi
  refine ⟨L', hrun, ?_⟩
  rw [null_fold w ci x hcase ci.attrs (fun a ha => ha)] at hinv
  exact hinv

def A2 : List String := "inst" :: A1

def iStepFn (ci : ClassInfo) (val : Inst → String → Option Int) (s : Nat × List (String × Key)) (x : Inst) :
    Nat × List (String × Key) :=
  (s.1 + nullCount ci val x + (uniqStep ci val x s.2).1, (uniqStep ci val x s.2).2)

theorem inst_body (w : World) (k : Kind) (ci : ClassInfo) (hk : w.classes[k]? = some ci) (hnd : (ci.idents.map (·.1)).Nodup)
    (hcase : ∀ a ∈ ci.attrs, (ci.identifying.map up).contains (up a.1) = ci.identifying.contains a.1)
    (L0 : Locals) (hm : L0.lookup "metaclass" = some (.cls k))
    (hid : L0.lookup "identifying" = some (.strSet (ci.identifying.map up)))
    (x : Inst) (s : Nat × List (String × Key)) (L : Locals)
    (hi : Frame A2 L0 L ∧ L.lookup "res" = some (.nat s.1) ∧ L.lookup "id_map" = some (imV (ci.idents.map (·.1)) s.2)) :
    ∃ L', ((match bindRow ["inst"] [V.inst x] L with
        | some L'' => iStmts w (oracle w) L'' uniqBodyInst
        | none => none) = some (L', .next) ∨ False) ∧
      (Frame A2 L0 L' ∧ L'.lookup "res" = some (.nat (iStepFn ci w.val s x).1) ∧
        L'.lookup "id_map" = some (imV (ci.idents.map (·.1)) (iStepFn ci w.val s x).2)) := by
  have hb0 : List.lookup "inst" (("inst", V.inst x) :: L) = some (.inst x) := by simp [List.lookup]
  have hbm : List.lookup "metaclass" (("inst", V.inst x) :: L) = some (.cls k) := by
    simp only [List.lookup, String.reduceBEq]; exact (hi.1 "metaclass" (by decide)).trans hm
  have hbi : List.lookup "identifying" (("inst", V.inst x) :: L) = some (.strSet (ci.identifying.map up)) := by
    simp only [List.lookup, String.reduceBEq]; exact (hi.1 "identifying" (by decide)).trans hid
  obtain ⟨L1, hrun1, hf1, hr1, him1⟩ := null_loop w ci x (imV (ci.idents.map (·.1)) s.2) (("inst", V.inst x) :: L) hb0 hbi hcase
    s.1 (("inst", V.inst x) :: L)
    ⟨Frame.refl _ _, by simp only [List.lookup, String.reduceBEq]; exact hi.2.1,
      by simp only [List.lookup, String.reduceBEq]; exact hi.2.2⟩
  obtain ⟨L2, hrun2, hf2, hr2, him2⟩ := ident_loop w k ci hk hnd x (("inst", V.inst x) :: L) hb0 hbm
    (s.1 + nullCount ci w.val x, s.2) L1 ⟨hf1, hr1, him1⟩
  simp only [nullBody, uniqBodyInst, check_uniqueness_constraint] at hrun1
  simp only [identBody, uniqBodyInst, check_uniqueness_constraint] at hrun2
  have hm1 : L1.lookup "metaclass" = some (.cls k) := (hf1 "metaclass" (by decide)).trans hbm
  simp only [uniqBodyInst, check_uniqueness_constraint, bindRow]
  have hLm : L.lookup "metaclass" = some (.cls k) := (hi.1 "metaclass" (by decide)).trans hm
  rw [iStmts_for (rows := ci.attrs.map (fun a => [V.str a.1, V.bool a.2])) (by cshape [hLm, hk]) hrun1]
  rw [iStmts_for (rows := ci.idents.map (fun p => [V.str p.1])) (by cshape [hm1, hk]) hrun2]
  refine ⟨L2, Or.inl (by simp only [iStmts]), ?_, hr2, him2⟩
  exact Frame.trans (Frame.push _ (by decide) hi.1) (Frame.mono (by decide) hf2)

theorem iStep_fold (ci : ClassInfo) (val : Inst → String → Option Int) : ∀ (pool : List Inst) (s : Nat × List (String × Key)),
    (pool.foldl (iStepFn ci val) s).1 = s.1 + uniqLoop ci val pool s.2
  | [], s => by simp [uniqLoop]
  | x :: xs, s => by
    simp only [List.foldl_cons, iStep_fold ci val xs, iStepFn, uniqLoop]
    omega

theorem inst_loop (w : World) (k : Kind) (ci : ClassInfo) (hk : w.classes[k]? = some ci) (hnd : (ci.idents.map (·.1)).Nodup)
    (hcase : ∀ a ∈ ci.attrs, (ci.identifying.map up).contains (up a.1) = ci.identifying.contains a.1)
    (L0 : Locals) (hm : L0.lookup "metaclass" = some (.cls k))
    (hid : L0.lookup "identifying" = some (.strSet (ci.identifying.map up)))
    (pool : List Inst) (s : Nat × List (String × Key)) (L : Locals)
    (hi : Frame A2 L0 L ∧ L.lookup "res" = some (.nat s.1) ∧ L.lookup "id_map" = some (imV (ci.idents.map (·.1)) s.2)) :
    ∃ L', forLoop (fun r L' => match bindRow ["inst"] r L' with
        | some L'' => iStmts w (oracle w) L'' uniqBodyInst
        | none => none) (pool.map (fun x => [V.inst x])) L = some (L', .next) ∧
      Frame A2 L0 L' ∧ L'.lookup "res" = some (.nat (s.1 + uniqLoop ci w.val pool s.2)) := by
  obtain ⟨L', hrun, hinv⟩ := forLoop_fold
    (fun (s : Nat × List (String × Key)) L => Frame A2 L0 L ∧ L.lookup "res" = some (.nat s.1) ∧
      L.lookup "id_map" = some (imV (ci.idents.map (·.1)) s.2))
    (fun r s => match r with | [.inst x] => iStepFn ci w.val s x | _ => s)
    (fun r L' => match bindRow ["inst"] r L' with
        | some L'' => iStmts w (oracle w) L'' uniqBodyInst
        | none => none) (pool.map (fun x => [V.inst x]))
    (by
      intro r hr s L hi
      obtain ⟨x, _, rfl⟩ := List.mem_map.mp hr
      obtain ⟨L', h, hi'⟩ := inst_body w k ci hk hnd hcase L0 hm hid x s L hi
      exact ⟨L', Or.inl (h.resolve_right id), hi'⟩) s L hi
  refine ⟨L', hrun, hinv.1, ?_⟩
  have hf : ∀ (l : List Inst) s, (l.map (fun x => [V.inst x])).foldl (fun s r => match r with
      | [.inst x] => iStepFn ci w.val s x | _ => s) s = l.foldl (iStepFn ci w.val) s := by
    intro l
    induction l with
    | nil => intro s; rfl
    | cons x rest ih => intro s; simp only [List.map_cons, List.foldl_cons, ih]
  rw [hf, iStep_fold] at hinv
  exact hinv.2.1

def A3 : List String := "metaclass" :: "identifying" :: A2

def classBody : List Stmt :=
  match check_uniqueness_constraint.body with
  | [_, _, .forIn _ _ b, _] => b
  | _ => []

def initBody : List Stmt :=
  match classBody with
  | [_, .forIn _ _ b, _, _] => b
  | _ => []

theorem init_loop (w : World) (r : Nat) (L0 : Locals) : ∀ (names : List String) (inits : List String) (L : Locals),
    (Frame A1 L0 L ∧ L.lookup "res" = some (.nat r) ∧ L.lookup "id_map" = some (imV inits [])) →
    ∃ L', forLoop (fun row L' => match bindRow ["identifier"] row L' with
        | some L'' => iStmts w (oracle w) L'' initBody
        | none => none) (names.map (fun n => [V.str n])) L = some (L', .next) ∧
      Frame A1 L0 L' ∧ L'.lookup "res" = some (.nat r) ∧ L'.lookup "id_map" = some (imV (inits ++ names) [])
  | [], inits, L, hi => ⟨L, rfl, by simpa using hi⟩
  | n :: rest, inits, L, hi => by
    have hstep : ∃ L1, (match bindRow ["identifier"] [V.str n] L with
        | some L'' => iStmts w (oracle w) L'' initBody
        | none => none) = some (L1, .next) ∧
        Frame A1 L0 L1 ∧ L1.lookup "res" = some (.nat r) ∧ L1.lookup "id_map" = some (imV (inits ++ [n]) []) := by
      simp only [initBody, classBody, check_uniqueness_constraint]
      cases inits with
      | nil =>
        cshape [hi.2.2, imV]
        exact ⟨_, rfl, Frame.push _ (by decide) (Frame.push _ (by decide) hi.1),
          by simp only [List.lookup, String.reduceBEq]; exact hi.2.1, by simp [List.lookup, imV]⟩
      | cons q qs =>
        cshape [hi.2.2, imV]
        exact ⟨_, rfl, Frame.push _ (by decide) (Frame.push _ (by decide) hi.1),
          by simp only [List.lookup, String.reduceBEq]; exact hi.2.1, by simp [List.lookup, imV]⟩
    obtain ⟨L1, h1, hi1⟩ := hstep
    obtain ⟨L2, h2, hi2⟩ := init_loop w r L0 rest (inits ++ [n]) L1 hi1
    refine ⟨L2, ?_, ?_⟩
    · simp only [List.map_cons, forLoop, h1, h2]
    · simpa [List.append_assoc] using hi2

def UniqOK (ci : ClassInfo) : Prop :=
  (ci.idents.map (·.1)).Nodup ∧ ∀ a ∈ ci.attrs, (ci.identifying.map up).contains (up a.1) = ci.identifying.contains a.1

theorem class_body (w : World) (k : Kind) (ci : ClassInfo) (hk : w.classes[k]? = some ci) (hok : UniqOK ci)
    (L0 : Locals) (r : Nat) (L : Locals) (hi : Frame A3 L0 L ∧ L.lookup "res" = some (.nat r)) :
    ∃ L', ((match bindRow ["metaclass"] [V.cls k] L with
        | some L'' => iStmts w (oracle w) L'' classBody
        | none => none) = some (L', .next) ∨ False) ∧
      (Frame A3 L0 L' ∧ L'.lookup "res" = some (.nat (r + checkUniqClass w k))) := by
  obtain ⟨L1, hrun1, hf1, hr1, him1⟩ := init_loop w r (("id_map", .emptyDict) :: ("metaclass", .cls k) :: L)
    (ci.idents.map (·.1)) [] (("id_map", .emptyDict) :: ("metaclass", .cls k) :: L)
    ⟨Frame.refl _ _, by simp only [List.lookup, String.reduceBEq]; exact hi.2, by simp [List.lookup, imV]⟩
  have hm1 : L1.lookup "metaclass" = some (.cls k) := by rw [hf1 "metaclass" (by decide)]; simp [List.lookup]
  obtain ⟨L2, hrun2, hf2, hr2⟩ := inst_loop w k ci hk hok.1 hok.2
    (("identifying", .strSet (ci.identifying.map up)) :: L1)
    (by simp only [List.lookup, String.reduceBEq]; exact hm1) (by simp [List.lookup]) (w.pool k) (r, [])
    (("identifying", .strSet (ci.identifying.map up)) :: L1)
    ⟨Frame.refl _ _, by simp only [List.lookup, String.reduceBEq]; exact hr1,
      by simp only [List.lookup, String.reduceBEq]; simpa using him1⟩
  simp only [initBody, classBody, check_uniqueness_constraint, List.map_map, Function.comp_def] at hrun1
  simp only [uniqBodyInst, check_uniqueness_constraint] at hrun2
  simp only [classBody, check_uniqueness_constraint, bindRow]
  rw [iStmts_step (L' := ("id_map", .emptyDict) :: ("metaclass", .cls k) :: L) (by cshape [])]
  rw [iStmts_for (rows := ci.idents.map (fun p => [V.str p.1])) (by cshape [hk]) hrun1]
  rw [iStmts_step (L' := ("identifying", .strSet (ci.identifying.map up)) :: L1) (by cshape [hm1, hk])]
  rw [iStmts_for (rows := (w.pool k).map (fun x => [V.inst x])) (by cshape [hm1]) hrun2]
  refine ⟨L2, Or.inl (by simp only [iStmts]), ?_, ?_⟩
  · refine Frame.trans (Frame.trans (Frame.push _ (by decide) (Frame.push _ (by decide) hi.1)) (Frame.mono (by decide) hf1)) ?_
    exact Frame.trans (Frame.push _ (by decide) (Frame.refl _ _)) (Frame.mono (by decide) hf2)
  · simp only [checkUniqClass, hk]; exact hr2

def kindV : Option Kind → V
  | some k => .cls k
  | none => .none

theorem class_loop (w : World) (hok : ∀ ci ∈ w.classes, UniqOK ci) (ks : List Kind) (hks : ∀ k ∈ ks, k < w.classes.length)
    (L : Locals) (hi : L.lookup "res" = some (.nat 0)) :
    ∃ L', forLoop (fun r L' => match bindRow ["metaclass"] r L' with
        | some L'' => iStmts w (oracle w) L'' classBody
        | none => none) (ks.map (fun k => [V.cls k])) L = some (L', .next) ∧
      L'.lookup "res" = some (.nat ((ks.map (checkUniqClass w)).sum)) := by
  obtain ⟨L', hrun, hinv⟩ := forLoop_fold
    (fun (r : Nat) L' => Frame A3 L L' ∧ L'.lookup "res" = some (.nat r))
    (fun r n => match r with | [.cls k] => n + checkUniqClass w k | _ => n)
    (fun r L' => match bindRow ["metaclass"] r L' with
        | some L'' => iStmts w (oracle w) L'' classBody
        | none => none) (ks.map (fun k => [V.cls k]))
    (by
      intro r hr n L1 hi1
      obtain ⟨k, hkm, rfl⟩ := List.mem_map.mp hr
      have hlt := hks k hkm
      have hk : w.classes[k]? = some w.classes[k] := List.getElem?_eq_getElem hlt
      obtain ⟨L', h, hi'⟩ := class_body w k _ hk (hok _ (List.getElem_mem hlt)) L n L1 hi1
      exact ⟨L', Or.inl (h.resolve_right id), hi'⟩) 0 L ⟨Frame.refl _ _, hi⟩
  refine ⟨L', hrun, ?_⟩
  have hf : ∀ (l : List Kind) (n : Nat), (l.map (fun k => [V.cls k])).foldl (fun n r => match r with
      | [.cls k] => n + checkUniqClass w k | _ => n) n = n + (l.map (checkUniqClass w)).sum := by
    intro l
    induction l with
    | nil => intro n; simp
    | cons k rest ih => intro n; simp only [List.map_cons, List.foldl_cons, ih, List.sum_cons]; omega
  rw [hf] at hinv
  simpa using hinv.2

/-- check_uniqueness_constraint = checkUniq, for every world whose classes satisfy `UniqOK` -/
theorem check_uniqueness_eq (w : World) (kind : Option Kind) (hk : ∀ k, kind = some k → k < w.classes.length)
    (hok : ∀ ci ∈ w.classes, UniqOK ci) :
    interp w check_uniqueness_constraint [.model, kindV kind] = some (.nat (checkUniq w kind)) := by
  cases kind with
  | none =>
    obtain ⟨L', hrun, hres⟩ := class_loop w hok (List.range w.classes.length) (fun k hk => List.mem_range.mp hk)
      [("res", .nat 0), ("metaclasses", .clss (List.range w.classes.length)), ("m", .model), ("kind", .none)]
      (by simp [List.lookup])
    simp only [classBody, check_uniqueness_constraint] at hrun
    simp only [interp, run, check_uniqueness_constraint, bindParams, Option.map_some, kindV]
    rw [iStmts_step (L' := [("metaclasses", .clss (List.range w.classes.length)), ("m", .model), ("kind", .none)]) (by cshape [])]
    rw [iStmts_step (L' := [("res", .nat 0), ("metaclasses", .clss (List.range w.classes.length)), ("m", .model), ("kind", .none)])
      (by cshape [])]
    rw [iStmts_for (rows := (List.range w.classes.length).map (fun k => [V.cls k])) (by cshape []) hrun]
    simp only [iStmts, iStmt, hres]
    rfl
  | some k =>
    obtain ⟨L', hrun, hres⟩ := class_loop w hok [k] (by intro j hj; simp only [List.mem_singleton] at hj; subst hj; exact hk _ rfl)
      [("res", .nat 0), ("metaclasses", .clss [k]), ("m", .model), ("kind", .cls k)]
      (by simp [List.lookup])
    simp only [classBody, check_uniqueness_constraint] at hrun
    simp only [interp, run, check_uniqueness_constraint, bindParams, Option.map_some, kindV]
    rw [iStmts_step (L' := [("metaclasses", .clss [k]), ("m", .model), ("kind", .cls k)]) (by cshape [])]
    rw [iStmts_step (L' := [("res", .nat 0), ("metaclasses", .clss [k]), ("m", .model), ("kind", .cls k)]) (by cshape [])]
    rw [iStmts_for (rows := [k].map (fun k => [V.cls k])) (by cshape []) hrun]
    simp only [iStmts, iStmt, hres]
    simp [checkUniq]

end Pyx.CShape
