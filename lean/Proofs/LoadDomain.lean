import Proofs.LoadBuild
import Proofs.LoadPerm

/-! Helper lemmas for C03, part 8: the model's domain predicate is invariant under permutations. -/

namespace Pyx.Load

theorem assocInDomain_congr (cs1 cs2 : List Cls) (h : ∀ k, findCls cs1 k = findCls cs2 k) (a : AssocStmt) :
    assocInDomain cs1 a = assocInDomain cs2 a := by
  unfold assocInDomain attrNames attrTy
  simp only [h]

theorem insertInDomain_congr (cs1 cs2 : List Cls) (h : ∀ k, findCls cs1 k = findCls cs2 k)
    (s1 s2 : List Stmt) (hp : s1.Perm s2) (s : Stmt) :
    insertInDomain cs1 s1 s = insertInDomain cs2 s2 s := by
  unfold insertInDomain
  cases s with
  | insert k ns vs =>
    simp only [h]
    have href : ∀ x, (referential (popAssocs s1) k).contains x = (referential (popAssocs s2) k).contains x := by
      intro x
      have hperm : (referential (popAssocs s1) k).Perm (referential (popAssocs s2) k) := by
        unfold referential
        exact ((popAssocs_perm hp).filter _).flatMap_right _
      rw [Bool.eq_iff_iff]
      simp only [List.contains_iff_mem]
      exact hperm.mem_iff
    cases findCls cs2 k with
    | some c => simp only [href]
    | none =>
      simp only
      congr 1
      exact all_perm hp _ _ (fun _ => rfl)
  | cls _ _ => rfl
  | assoc _ => rfl
  | uniq _ _ _ => rfl

/-- the domain on which the model is claimed faithful is closed under permutations of the statements -/
theorem inDomain_perm {s1 s2 : List Stmt} (hp : s1.Perm s2) : inDomain s1 = inDomain s2 := by
  unfold inDomain
  have hacc := accepted_perm hp
  by_cases ha : accepted s1
  · have ha2 : accepted s2 = true := by rw [← hacc]; exact ha
    have hc := popClasses_perm hp
    have hn := by
      unfold accepted at ha
      simp only [Bool.and_eq_true, decide_eq_true_eq] at ha
      exact ha.1
    have hfind : ∀ k, findCls (popClasses s1) k = findCls (popClasses s2) k := fun k => findCls_perm hc hn k
    have has := popAssocs_perm hp
    simp only [ha, ha2, Bool.true_and]
    congr 1
    · congr 1
      · congr 1
        · congr 1
          · exact all_perm hc _ _ (fun _ => rfl)
          · exact all_perm has _ _ (assocInDomain_congr _ _ hfind)
        · rw [decide_eq_decide]
          exact (has.flatMap_right linkKeys).nodup_iff
      · rw [decide_eq_decide]
        exact (hp.filterMap uniqKey).nodup_iff
    · exact all_perm hp _ _ (insertInDomain_congr _ _ hfind s1 s2 hp)
  · have ha2 : accepted s2 = false := by rw [← hacc]; simpa using ha
    have ha1 : accepted s1 = false := by simpa using ha
    simp [ha1, ha2]

/-! ### the domain predicate implies the hypotheses of the permutation theorems -/

theorem mem_insOf {ss : List Stmt} {k : String} {x : Option (List String) × List Val} (h : x ∈ insOf ss k) :
    Stmt.insert k x.1 x.2 ∈ ss := by
  unfold insOf at h
  obtain ⟨s, hs, hsx⟩ := List.mem_filterMap.mp h
  cases s with
  | insert k' ns vs =>
    by_cases hk : k' = k
    · simp only [hk, if_true, Option.some.injEq] at hsx
      subst hsx; subst hk; exact hs
    · simp [hk] at hsx
  | cls _ _ => simp at hsx
  | assoc _ => simp at hsx
  | uniq _ _ _ => simp at hsx

theorem uniqOf_cons_other (s : Stmt) (ss : List Stmt) (k : String) (h : ∀ k' n as, s ≠ .uniq k' n as) :
    uniqOf (s :: ss) k = uniqOf ss k := by
  unfold uniqOf
  rw [List.filterMap_cons]
  cases s with
  | uniq k' n as => exact absurd rfl (h k' n as)
  | cls _ _ => rfl
  | assoc _ => rfl
  | insert _ _ _ => rfl

theorem uniqKeys_cons_other (s : Stmt) (ss : List Stmt) (h : ∀ k' n as, s ≠ .uniq k' n as) :
    (s :: ss).filterMap uniqKey = ss.filterMap uniqKey := by
  rw [List.filterMap_cons]
  cases s with
  | uniq k' n as => exact absurd rfl (h k' n as)
  | cls _ _ => rfl
  | assoc _ => rfl
  | insert _ _ _ => rfl

theorem mem_uniqKeys_of_uniqOf {ss : List Stmt} {k n : String} (h : n ∈ (uniqOf ss k).map (·.1)) :
    (k, n) ∈ ss.filterMap uniqKey := by
  induction ss with
  | nil => simp [uniqOf] at h
  | cons s ss ih =>
    cases s with
    | uniq k' n' as =>
      rw [uniqOf_cons_uniq] at h
      rw [List.filterMap_cons]
      by_cases hc : k' = k ∧ as.isEmpty = false
      · rw [if_pos hc, List.map_cons, List.mem_cons] at h
        have hk : uniqKey (.uniq k' n' as) = some (k, n') := by simp [uniqKey, hc.2, hc.1]
        rw [hk]
        rcases h with rfl | h
        · exact List.mem_cons_self
        · exact List.mem_cons_of_mem _ (ih h)
      · rw [if_neg hc] at h
        cases uniqKey (.uniq k' n' as) with
        | none => exact ih h
        | some q => exact List.mem_cons_of_mem _ (ih h)
    | cls c as =>
      rw [uniqOf_cons_other _ _ _ (by intro _ _ _ he; cases he)] at h
      rw [uniqKeys_cons_other _ _ (by intro _ _ _ he; cases he)]
      exact ih h
    | assoc a =>
      rw [uniqOf_cons_other _ _ _ (by intro _ _ _ he; cases he)] at h
      rw [uniqKeys_cons_other _ _ (by intro _ _ _ he; cases he)]
      exact ih h
    | insert c ns vs =>
      rw [uniqOf_cons_other _ _ _ (by intro _ _ _ he; cases he)] at h
      rw [uniqKeys_cons_other _ _ (by intro _ _ _ he; cases he)]
      exact ih h

theorem uniqNames_nodup_of_keys (ss : List Stmt) (k : String) (h : (ss.filterMap uniqKey).Nodup) :
    ((uniqOf ss k).map (·.1)).Nodup := by
  induction ss with
  | nil => simp [uniqOf]
  | cons s ss ih =>
    cases s with
    | uniq k' n as =>
      rw [uniqOf_cons_uniq]
      rw [List.filterMap_cons] at h
      by_cases hc : k' = k ∧ as.isEmpty = false
      · have hk : uniqKey (.uniq k' n as) = some (k, n) := by simp [uniqKey, hc.2, hc.1]
        rw [hk] at h
        obtain ⟨hnot, hrest⟩ := List.nodup_cons.mp h
        rw [if_pos hc, List.map_cons, List.nodup_cons]
        exact ⟨fun hin => hnot (mem_uniqKeys_of_uniqOf hin), ih hrest⟩
      · rw [if_neg hc]
        cases hk : uniqKey (.uniq k' n as) with
        | none => rw [hk] at h; exact ih h
        | some q => rw [hk] at h; exact ih (List.nodup_cons.mp h).2
    | cls c as =>
      rw [uniqOf_cons_other _ _ _ (by intro _ _ _ he; cases he)]
      rw [uniqKeys_cons_other _ _ (by intro _ _ _ he; cases he)] at h
      exact ih h
    | assoc a =>
      rw [uniqOf_cons_other _ _ _ (by intro _ _ _ he; cases he)]
      rw [uniqKeys_cons_other _ _ (by intro _ _ _ he; cases he)] at h
      exact ih h
    | insert c ns vs =>
      rw [uniqOf_cons_other _ _ _ (by intro _ _ _ he; cases he)]
      rw [uniqKeys_cons_other _ _ (by intro _ _ _ he; cases he)] at h
      exact ih h

/-- **the model's domain implies the hypotheses of `build_perm`**: identifier names are unique per class, the
    INSERTs of a kind without CREATE TABLE infer the same class, no key list repeats an attribute name -/
theorem guards_of_inDomain (ss : List Stmt) (h : inDomain ss = true) :
    UniqNamesOk ss ∧ InferAgree ss ∧ (∀ a ∈ popAssocs ss, KeysOk a) ∧ accepted ss = true := by
  unfold inDomain at h
  simp only [Bool.and_eq_true, decide_eq_true_eq, List.all_eq_true] at h
  obtain ⟨⟨⟨⟨⟨hacc, _⟩, hassoc⟩, _⟩, huniq⟩, hins⟩ := h
  refine ⟨fun k => uniqNames_nodup_of_keys ss k huniq, ?_, ?_, hacc⟩
  · intro k hnone x hx y hy
    have hxs := hins _ (mem_insOf hx)
    simp only [insertInDomain, hnone, Bool.and_eq_true, List.all_eq_true] at hxs
    have := hxs.2 _ (mem_insOf hy)
    simp only [bne_self_eq_false, Bool.false_or, beq_iff_eq] at this
    exact this.symm
  · intro a ha
    have := hassoc a ha
    simp only [assocInDomain, Bool.and_eq_true, decide_eq_true_eq] at this
    exact ⟨this.1.1.1.1, this.1.1.1.2⟩

end Pyx.Load
