import Proofs.LoadBuild

/-! Helper lemmas for C03, part 8: the model's domain predicate is invariant under permutations. -/

namespace Pyx.Load

theorem assocInDomain_congr (cs1 cs2 : List Cls) (h : ∀ k, findCls cs1 k = findCls cs2 k) (a : AssocStmt) :
    assocInDomain cs1 a = assocInDomain cs2 a := by
  unfold assocInDomain attrNames attrTy
  simp only [h]

theorem insertInDomain_congr (cs1 cs2 : List Cls) (h : ∀ k, findCls cs1 k = findCls cs2 k)
    (s1 s2 : List Stmt) (hp : s1.Perm s2) (s : Stmt) :
    insertInDomain cs1 s1 s = insertInDomain cs2 s2 s := by
  unfold insertInDomain
  cases s with
  | insert k ns vs =>
    simp only [h]
    cases findCls cs2 k with
    | some c => rfl
    | none =>
      simp only
      congr 1
      exact all_perm hp _ _ (fun _ => rfl)
  | cls _ _ => rfl
  | assoc _ => rfl
  | uniq _ _ _ => rfl

/-- the domain on which the model is claimed faithful is closed under permutations of the statements -/
theorem inDomain_perm {s1 s2 : List Stmt} (hp : s1.Perm s2) : inDomain s1 = inDomain s2 := by
  unfold inDomain
  have hacc := accepted_perm hp
  by_cases ha : accepted s1
  · have ha2 : accepted s2 = true := by rw [← hacc]; exact ha
    have hc := popClasses_perm hp
    have hn := by
      unfold accepted at ha
      simp only [Bool.and_eq_true, decide_eq_true_eq] at ha
      exact ha.1
    have hfind : ∀ k, findCls (popClasses s1) k = findCls (popClasses s2) k := fun k => findCls_perm hc hn k
    have has := popAssocs_perm hp
    simp only [ha, ha2, Bool.true_and]
    congr 1
    · congr 1
      · congr 1
        · congr 1
          · exact all_perm hc _ _ (fun _ => rfl)
          · exact all_perm has _ _ (assocInDomain_congr _ _ hfind)
        · rw [decide_eq_decide]
          exact (has.flatMap_right linkKeys).nodup_iff
      · rw [decide_eq_decide]
        exact (hp.filterMap uniqKey).nodup_iff
    · exact all_perm hp _ _ (insertInDomain_congr _ _ hfind s1 s2 hp)
  · have ha2 : accepted s2 = false := by rw [← hacc]; simpa using ha
    have ha1 : accepted s1 = false := by simpa using ha
    simp [ha1, ha2]

end Pyx.Load
