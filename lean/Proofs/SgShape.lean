import PyxModel.Prebuild.Flat
import Gen.SgShape

/-!
  C05 source tie, statement structure of the text generator's handlers: a GENERIC interpreter of the first-order IR that
  translator/gen_sgshape.py extracts from bridgepoint/sourcegen.py (`ActionTextGenWalker.accept_*`), over the flat population
  of PyxModel/Prebuild/Flat.lean, producing TOKENS, and the lemmas showing that the clauses of the hand-written printer
  (`regenVar`, `regenVal`, `regenSmt`, `regenChain`, `regenBlk`, `regenElifs`, `regenFlat`) equal that interpretation of the IR
  generated from the current source.

  The interpreter is defined once, for ANY IR value (`navWith`, `condWith`, `runStm`, `runStms`, `forStep`); only the lemmas
  at the end mention the generated constants.  What it fixes, once, is the meaning of the ATOMS:

    instances           `Inst`: a supertype instance by its row index (`sup "V_VAL" i`: ACT_BLK, ACT_SMT, V_VAL, V_VAR — the
                        classes other rows refer to), a subtype row by content (`sub r`), a model element that is no row, named
                        by what is printed of it, by the row it is reached from (`elem "O_OBJ" r`), the ACT_ACT (`act`), None
    `.<KL>[<n>(, 'ph')]` `hopMany`: how FlatPop stores each association (the referential in the row that holds it); from a
                        supertype instance the subtype classes of R603 / R801 yield THE subtype row (the first row naming the
                        supertype) when it is of the class asked for; R661 'precedes' = `succStmt`, 'succeeds' = the stored
                        Previous_Statement_ID; R602 = the ACT_SMT rows of the block in creation order; R682 = `elifsOf`,
                        R683 = `elseOf`, R666 = `outerBlk`; a V_PVL names its parameter whatever its class (recorded under
                        S_BPARM[831]; R832 / R833 / R843 yield nothing)
    one / any / many    the instances reached by the chain of hops that pass the filter closure: the first / all
    `<v>.<attr>`        `attrOf`: the class that owns the attribute and its value
    text → tokens       `toksOf` over the evaluated arguments of ONE buf call.  A literal is looked up VERBATIM in `litTable`
                        (unknown literal ↦ `bad`); an attribute value becomes the token of its (class, attribute, way of
                        printing) by `valTok`; two context rules of the lexer: the literal ' across R' directly followed by
                        str(R_REL.Numb) is the keyword and ONE identifier (FlatPop names an association 'R' + Numb), and a
                        data type / constant specification name directly followed by '::' is a NAMESPACE token.
                        Layout (`buf_linebreak`'s newline and indentation, `self._lvl`) has no tokens.
    self.accept(x)      an oracle `acc` (as `rec` in Proofs/InterpShape.lean): for a supertype instance the hand-written
                        printer ONE UNIT OF FUEL LOWER (`accHead`), for a subtype row / a model element the generic
                        interpretation of the handler `getattr(self, 'accept_' + class, default_accept)` (`accN`, two levels:
                        ACT_IF → ACT_E → ACT_BLK, V_PVL → S_BPARM); None prints nothing
    while / for         one round, then an oracle for the rounds that follow (`again` on the locals after the round, `loop` on
                        the remaining instances): the fuel of `regenChain` / `regenElifs` goes down by one per round
    sorted(…, key)      LineNumber / StartPosition are not part of FlatPop: the elif rows are taken in creation order (the key
                        closure must be bound; that creation order is source order is C06)
-/
set_option linter.unusedSimpArgs false
set_option linter.unusedVariables false
namespace Pyx.SgShape
open Pyx.Prebuild Pyx.Prebuild.Flat Pyx.Gen.SgShape

/-! ### instances, locals -/

inductive Inst where
  | none
  | sup (cls : String) (i : Nat)
  | sub (r : Row)
  | elem (cls : String) (r : Row)
  | act
  deriving DecidableEq, Repr

/-- what a Python local of a handler holds -/
inductive PV where
  | inst (x : Inst)
  | insts (l : List Inst)
  | filter (param : String) (conj : List Cond)
  | key
  | unset

abbrev Locals := List (String × PV)

def Locals.get (L : Locals) (x : String) : PV := (L.lookup x).getD .unset
def Locals.set (L : Locals) (x : String) (v : PV) : Locals := (x, v) :: L

def instOf : PV → Inst
  | .inst x => x
  | _ => .none

def truthy : PV → Bool
  | .inst .none => false
  | .inst _ => true
  | .insts l => !l.isEmpty
  | _ => false

/-! ### atoms: associations -/

def _root_.Pyx.Gen.SgShape.Hop.is (h : Hop) (c : String) (r : Nat) (p : String) : Bool := h.cls == c && h.rel == r && h.phrase == p

def optSup (cls : String) : Option Nat → List Inst
  | some i => [.sup cls i]
  | none => []

def optSub : Option Row → List Inst
  | some r => [.sub r]
  | none => []

/-- the subtype row of a supertype instance, when it is of class `cls` -/
def subAs (cls : String) : Option Row → List Inst
  | some r => if r.cls == cls then [.sub r] else []
  | none => []

def supHop (q : FlatPop) (cls : String) (i : Nat) (h : Hop) : List Inst :=
  if cls == "ACT_BLK" then
    if h.is "ACT_SMT" 602 "" then
      ((List.range q.length).filter (fun j => match (q[j]? : Option Row) with
        | some (Row.smt b _) => b == i
        | _ => false)).map (Inst.sup "ACT_SMT")
    else []
  else if cls == "ACT_SMT" then
    if h.is "ACT_SMT" 661 "succeeds" then
      (match q[i]? with
       | some (.smt _ p) => optSup "ACT_SMT" p
       | _ => [])
    else if h.is "ACT_SMT" 661 "precedes" then optSup "ACT_SMT" (succStmt q i)
    else if h.rel == 603 && h.phrase == "" then subAs h.cls (smtSub q i)
    else []
  else if cls == "V_VAL" then
    if h.rel == 801 && h.phrase == "" then subAs h.cls (valSub q i) else []
  else []

def subHop (q : FlatPop) (r : Row) (h : Hop) : List Inst :=
  match r with
  | .ai _ rv lv => if h.is "V_VAL" 609 "" then [.sup "V_VAL" rv] else if h.is "V_VAL" 689 "" then [.sup "V_VAL" lv] else []
  | .ret _ v => if h.is "V_VAL" 668 "" then optSup "V_VAL" v else []
  | .cr _ v _ => if h.is "V_VAR" 633 "" then [.sup "V_VAR" v] else if h.is "O_OBJ" 671 "" then [.elem "O_OBJ" r] else []
  | .cnv _ _ => if h.is "O_OBJ" 672 "" then [.elem "O_OBJ" r] else []
  | .del _ v => if h.is "V_VAR" 634 "" then [.sup "V_VAR" v] else []
  | .rel _ a b _ _ =>
    if h.is "V_VAR" 615 "" then [.sup "V_VAR" a] else if h.is "V_VAR" 616 "" then [.sup "V_VAR" b]
    else if h.is "R_REL" 653 "" then [.elem "R_REL" r] else []
  | .ru _ a b u _ _ =>
    if h.is "V_VAR" 617 "" then [.sup "V_VAR" a] else if h.is "V_VAR" 618 "" then [.sup "V_VAR" b]
    else if h.is "V_VAR" 619 "" then [.sup "V_VAR" u] else if h.is "R_REL" 654 "" then [.elem "R_REL" r] else []
  | .unr _ a b _ _ =>
    if h.is "V_VAR" 620 "" then [.sup "V_VAR" a] else if h.is "V_VAR" 621 "" then [.sup "V_VAR" b]
    else if h.is "R_REL" 655 "" then [.elem "R_REL" r] else []
  | .uru _ a b u _ _ =>
    if h.is "V_VAR" 622 "" then [.sup "V_VAR" a] else if h.is "V_VAR" 623 "" then [.sup "V_VAR" b]
    else if h.is "V_VAR" 624 "" then [.sup "V_VAR" u] else if h.is "R_REL" 656 "" then [.elem "R_REL" r] else []
  | .fio _ v _ _ => if h.is "V_VAR" 639 "" then [.sup "V_VAR" v] else if h.is "O_OBJ" 677 "" then [.elem "O_OBJ" r] else []
  | .fiw _ v _ _ w =>
    if h.is "V_VAR" 665 "" then [.sup "V_VAR" v] else if h.is "O_OBJ" 676 "" then [.elem "O_OBJ" r]
    else if h.is "V_VAL" 610 "" then [.sup "V_VAL" w] else []
  | .for_ _ blk v sv _ =>
    if h.is "V_VAR" 614 "" then [.sup "V_VAR" v] else if h.is "V_VAR" 652 "" then [.sup "V_VAR" sv]
    else if h.is "ACT_BLK" 605 "" then [.sup "ACT_BLK" blk] else []
  | .whl _ blk v => if h.is "V_VAL" 626 "" then [.sup "V_VAL" v] else if h.is "ACT_BLK" 608 "" then [.sup "ACT_BLK" blk] else []
  | .if_ s blk v =>
    if h.is "V_VAL" 625 "" then [.sup "V_VAL" v] else if h.is "ACT_BLK" 607 "" then [.sup "ACT_BLK" blk]
    else if h.is "ACT_EL" 682 "" then (elifsOf q s).map .sub else if h.is "ACT_E" 683 "" then optSub (elseOf q s) else []
  | .el _ blk v _ => if h.is "V_VAL" 659 "" then [.sup "V_VAL" v] else if h.is "ACT_BLK" 658 "" then [.sup "ACT_BLK" blk] else []
  | .e _ blk _ => if h.is "ACT_BLK" 606 "" then [.sup "ACT_BLK" blk] else []
  | .tvl _ var => if h.is "V_VAR" 805 "" then [.sup "V_VAR" var] else []
  | .irf _ var => if h.is "V_VAR" 808 "" then [.sup "V_VAR" var] else []
  | .isr _ var => if h.is "V_VAR" 809 "" then [.sup "V_VAR" var] else []
  | .uny _ _ o => if h.is "V_VAL" 804 "" then [.sup "V_VAL" o] else []
  | .bin _ _ l rr => if h.is "V_VAL" 802 "" then [.sup "V_VAL" l] else if h.is "V_VAL" 803 "" then [.sup "V_VAL" rr] else []
  | .avl _ root _ => if h.is "V_VAL" 807 "" then [.sup "V_VAL" root] else if h.is "O_ATTR" 806 "" then [.elem "O_ATTR" r] else []
  | .pvl _ _ => if h.is "S_BPARM" 831 "" then [.elem "S_BPARM" r] else []
  | .len _ _ _ => if h.is "S_ENUM" 824 "" then [.elem "S_ENUM" r] else []
  | .scv _ _ _ => if h.is "CNST_SYC" 850 "" then [.elem "CNST_SYC" r] else []
  | _ => []

def elemHop (cls : String) (r : Row) (h : Hop) : List Inst :=
  if cls == "S_ENUM" && h.is "S_EDT" 27 "" then [.elem "S_EDT" r]
  else if cls == "S_EDT" && h.is "S_DT" 17 "" then [.elem "S_DT" r]
  else if cls == "CNST_SYC" && h.is "CNST_CSP" 1504 "" then [.elem "CNST_CSP" r]
  else []

def hopMany (q : FlatPop) (x : Inst) (h : Hop) : List Inst :=
  match x with
  | .none => []
  | .sup cls i => supHop q cls i h
  | .sub r => subHop q r h
  | .elem cls r => elemHop cls r h
  | .act => if h.is "ACT_BLK" 666 "" then optSup "ACT_BLK" (outerBlk q) else []

def follow (q : FlatPop) : List Inst → List Hop → List Inst
  | xs, [] => xs
  | xs, h :: rest => follow q (xs.flatMap (fun x => hopMany q x h)) rest

/-- `subtype(inst, 603)` / `subtype(inst, 801)` -/
def subtypeOf (q : FlatPop) (x : Inst) (rel : Nat) : Inst :=
  match x with
  | .sup cls i =>
    if cls == "ACT_SMT" && rel == 603 then (match smtSub q i with | some r => .sub r | none => .none)
    else if cls == "V_VAL" && rel == 801 then (match valSub q i with | some r => .sub r | none => .none)
    else .none
  | _ => .none

/-! ### atoms: attributes -/

def subAttr (r : Row) (a : String) : Option (String × String) :=
  match r with
  | .lin _ x => if a == "Value" then some ("V_LIN", x) else none
  | .lrl _ x => if a == "Value" then some ("V_LRL", x) else none
  | .lst _ x => if a == "Value" then some ("V_LST", x) else none
  | .lbo _ x => if a == "Value" then some ("V_LBO", x) else none
  | .uny _ op _ => if a == "Operator" then some ("V_UNY", op) else none
  | .bin _ op _ _ => if a == "Operator" then some ("V_BIN", op) else none
  | .fio _ _ _ c => if a == "cardinality" then some ("ACT_FIO", c) else none
  | .fiw _ _ _ c _ => if a == "cardinality" then some ("ACT_FIW", c) else none
  | .rel _ _ _ _ ph => if a == "relationship_phrase" then some ("ACT_REL", ph) else none
  | .ru _ _ _ _ _ ph => if a == "relationship_phrase" then some ("ACT_RU", ph) else none
  | .unr _ _ _ _ ph => if a == "relationship_phrase" then some ("ACT_UNR", ph) else none
  | .uru _ _ _ _ _ ph => if a == "relationship_phrase" then some ("ACT_URU", ph) else none
  | _ => none

def elemAttr (cls : String) (r : Row) (a : String) : Option (String × String) :=
  match r with
  | .cr _ _ kl => if cls == "O_OBJ" && a == "Key_Lett" then some (cls, kl) else none
  | .cnv _ kl => if cls == "O_OBJ" && a == "Key_Lett" then some (cls, kl) else none
  | .fio _ _ kl _ => if cls == "O_OBJ" && a == "Key_Lett" then some (cls, kl) else none
  | .fiw _ _ kl _ _ => if cls == "O_OBJ" && a == "Key_Lett" then some (cls, kl) else none
  | .rel _ _ _ n _ => if cls == "R_REL" && a == "Numb" then some (cls, n) else none
  | .ru _ _ _ _ n _ => if cls == "R_REL" && a == "Numb" then some (cls, n) else none
  | .unr _ _ _ n _ => if cls == "R_REL" && a == "Numb" then some (cls, n) else none
  | .uru _ _ _ _ n _ => if cls == "R_REL" && a == "Numb" then some (cls, n) else none
  | .avl _ _ n => if cls == "O_ATTR" && a == "Name" then some (cls, n) else none
  | .pvl _ n => if cls == "S_BPARM" && a == "Name" then some (cls, n) else none
  | .len _ nsp n =>
    if cls == "S_ENUM" && a == "Name" then some (cls, n) else if cls == "S_DT" && a == "Name" then some (cls, nsp) else none
  | .scv _ nsp n =>
    if cls == "CNST_SYC" && a == "Name" then some (cls, n)
    else if cls == "CNST_CSP" && a == "InformalGroupName" then some (cls, nsp) else none
  | _ => none

/-- `<v>.<attr>`: the class that owns the attribute and its value -/
def attrOf (q : FlatPop) (x : Inst) (a : String) : Option (String × String) :=
  match x with
  | .sup cls i =>
    if cls == "V_VAR" && a == "Name" then
      (match q[i]? with
       | some (.var n _) => some ("V_VAR", n)
       | _ => none)
    else none
  | .sub r => subAttr r a
  | .elem cls r => elemAttr cls r a
  | _ => none

/-! ### text pieces → tokens -/

inductive How where
  | plain | lower | str
  | fmt (f : String)
  deriving DecidableEq, Repr

/-- an evaluated argument of buf -/
inductive EP where
  | lit (s : String)
  | val (cls attr : String) (how : How) (s : String)
  | missing (v a : String)
  deriving Repr

/-- THE TABLE: every literal the modelled handlers write, verbatim, and the tokens the lexer makes of it -/
def litTable : List (String × List Tok) :=
  [("return ", [.kw .return_]), ("break", [.kw .break_]), ("continue", [.kw .continue_]),
   ("control stop", [.kw .control_, .kw .stop]),
   ("create object instance ", [.kw .create, .kw .object, .kw .instance_]), (" of ", [.kw .of_]),
   ("create object instance of ", [.kw .create, .kw .object, .kw .instance_, .kw .of_]),
   ("delete object instance ", [.kw .delete, .kw .object, .kw .instance_]),
   ("relate ", [.kw .relate]), (" to ", [.kw .to]), (".", [.p .dot]), (" using ", [.kw .using_]),
   ("unrelate ", [.kw .unrelate]), (" from ", [.kw .from_]),
   ("select ", [.kw .select]), (" ", []), (" from instances of ", [.kw .from_, .kw .instances, .kw .of_]),
   (" where ", [.kw .where_]), ("assign ", [.kw .assign]), (" = ", [.p .eq]),
   ("while ", [.kw .while_]), ("end while", [.endWhile]), ("if ", [.kw .if_]), ("end if", [.endIf]),
   ("elif ", [.kw .elif_]), ("else", [.kw .else_]), ("for each ", [.kw .for_, .kw .each]), (" in ", [.kw .in_]),
   ("end for", [.endFor]), ("param.", [.kw .param, .p .dot]), ("selected", [.kw .selected]),
   ("(", [.p .lpar]), (")", [.p .rpar]), ("::", [.p .dcolon]), (";", [.p .semi])]

def litToks (s : String) : List Tok :=
  if s == " across R" then [.kw .across, .bad "R"] else
  match litTable.lookup s with
  | some t => t
  | none => [.bad s]

/-- the token of an attribute value by (owner class, attribute, way of printing) -/
def valTok (cls attr : String) (how : How) (s : String) : Tok :=
  match how with
  | .plain =>
    if cls == "V_VAR" && attr == "Name" then nameTok s
    else if cls == "V_LIN" && attr == "Value" then .num s
    else if cls == "V_LRL" && attr == "Value" then .frac s
    else if cls == "V_BIN" && attr == "Operator" then tokOf binOps s
    else if cls == "V_UNY" && attr == "Operator" then tokOf unOps s
    else if (cls == "ACT_FIO" || cls == "ACT_FIW") && attr == "cardinality" then tokOf cards s
    else if attr == "relationship_phrase" then .phrase s
    else if cls == "O_OBJ" && attr == "Key_Lett" then .ident s
    else if attr == "Name" && (cls == "O_ATTR" || cls == "S_BPARM" || cls == "S_ENUM" || cls == "CNST_SYC" || cls == "S_DT")
      then .ident s
    else if cls == "CNST_CSP" && attr == "InformalGroupName" then .ident s
    else .bad (cls ++ "." ++ attr)
  | .lower => if cls == "V_LBO" && attr == "Value" then boolTok (lowerStr s) else .bad (cls ++ "." ++ attr)
  | .fmt f =>
    if cls == "V_LST" && attr == "Value" && f == "\"%s\"" then .str ("\"" ++ s ++ "\"") else .bad (cls ++ "." ++ attr)
  | .str => .bad (cls ++ "." ++ attr)

def isNs (cls attr : String) : Bool :=
  (cls == "S_DT" && attr == "Name") || (cls == "CNST_CSP" && attr == "InformalGroupName")

def nextIsDcolon : List EP → Bool
  | .lit s :: _ => s == "::"
  | _ => false

/-- tokens of the arguments of one buf call; `prev` = the literal written directly before -/
def toksOf (prev : Option String) : List EP → List Tok
  | [] => []
  | .lit s :: rest => (if s == " across R" then [Tok.kw .across] else litToks s) ++ toksOf (some s) rest
  | .val c a h v :: rest =>
    (if c == "R_REL" && a == "Numb" then
       (if prev == some " across R" && h == .str then Tok.ident v else .bad "R_REL.Numb")
     else if isNs c a && h == .plain && nextIsDcolon rest then .ns v
     else valTok c a h v) :: toksOf none rest
  | .missing v a :: rest => .bad (v ++ "." ++ a) :: toksOf none rest

/-! ### the generic interpreter -/

def navWith (q : FlatPop) (L : Locals) (filt : Option String → Inst → Bool) : Nav → PV
  | .loc v => L.get v
  | .subtype v rel => .inst (subtypeOf q (instOf (L.get v)) rel)
  | .one v hops f => .inst (((follow q [instOf (L.get v)] hops).filter (filt f)).head?.getD .none)
  | .any v hops f => .inst (((follow q [instOf (L.get v)] hops).filter (filt f)).head?.getD .none)
  | .many v hops f => .insts ((follow q [instOf (L.get v)] hops).filter (filt f))

def condWith (q : FlatPop) (L : Locals) (filt : Option String → Inst → Bool) : Cond → Bool
  | .nav n => truthy (navWith q L filt n)
  | .navNot n => !truthy (navWith q L filt n)
  | .navIsNone n => !truthy (navWith q L filt n)
  | .navIsNotNone n => truthy (navWith q L filt n)
  | .attr v a =>
    (match attrOf q (instOf (L.get v)) a with
     | some (_, s) => s != ""
     | none => false)
  | .lvl => false          -- layout only (the translator admits nothing but a bare line break under it)

/-- inside a filter closure no further closure applies -/
def filt0 : Option String → Inst → Bool := fun o _ => o.isNone

def filt1 (q : FlatPop) (L : Locals) : Option String → Inst → Bool
  | none, _ => true
  | some name, x =>
    match L.get name with
    | .filter p conj => conj.all (condWith q (L.set p (.inst x)) filt0)
    | _ => false

def evalNav (q : FlatPop) (L : Locals) : Nav → PV := navWith q L (filt1 q L)
def evalCond (q : FlatPop) (L : Locals) : Cond → Bool := condWith q L (filt1 q L)

def epOf (q : FlatPop) (L : Locals) (v a : String) (how : How) : EP :=
  match attrOf q (instOf (L.get v)) a with
  | some (c, s) => .val c a how s
  | none => .missing v a

def evalPiece (q : FlatPop) (L : Locals) : Piece → EP
  | .lit s => .lit s
  | .attr v a => epOf q L v a .plain
  | .attrLower v a => epOf q L v a .lower
  | .attrStr v a => epOf q L v a .str
  | .fmt f v a => epOf q L v a (.fmt f)

structure Env where
  q : FlatPop
  acc : Inst → List Tok                                       -- self.accept(<instance>)
  again : Locals → List Tok := fun _ => [.bad "again"]       -- while: the rounds after this one
  loop : List Inst → List Tok := fun _ => [.bad "loop"]      -- for: the rounds over these instances

mutual
  def runStm (E : Env) : Stm → Locals → Locals × List Tok
    | .buf ps, L => (L, toksOf none (ps.map (evalPiece E.q L)))
    | .bufLinebreak ps, L => (L, toksOf none (ps.map (evalPiece E.q L)))
    | .accept n, L =>
      (L, match evalNav E.q L n with
          | .inst x => E.acc x
          | _ => [.bad "accept"])
    | .assign v n, L => (L.set v (evalNav E.q L n), [])
    | .defFilter name p conj, L => (L.set name (.filter p conj), [])
    | .defKey name _ _, L => (L.set name .key, [])
    | .lvlAdd _, L => (L, [])
    | .printClassName, L => (L, [])
    | .ite c thn els, L => if evalCond E.q L c then runStms E thn L else runStms E els L
    | .whileLoc v body, L =>
      if truthy (L.get v) then
        let r := runStms E body L
        (r.1, r.2 ++ E.again r.1)
      else (L, [])
    | .forSorted _ n key _, L =>
      (L, match evalNav E.q L n, L.get key with
          | .insts l, .key => E.loop l
          | _, _ => [.bad "for"])
  def runStms (E : Env) : List Stm → Locals → Locals × List Tok
    | [], L => (L, [])
    | s :: rest, L =>
      let r := runStm E s L
      let r2 := runStms E rest r.1
      (r2.1, r.2 ++ r2.2)
end

/-- one round of `for <v> in …: <body>` and the rounds that follow -/
def forStep (E : Env) (v : String) (body : List Stm) (L : Locals) : List Inst → List Tok
  | [] => []
  | x :: rest => (runStms E body (L.set v (.inst x))).2 ++ E.loop rest

/-- a handler applied to an instance -/
def handler (E : Env) (body : List Stm) (x : Inst) : List Tok := (runStms E body [("inst", .inst x)]).2

/-- `getattr(self, 'accept_' + inst.__class__.__name__, self.default_accept)` -/
def handlerOf (cls : String) : List Stm := (handlers.lookup ("accept_" ++ cls)).getD default_accept

/-! ### the accept oracle -/

def rowOf : Inst → Option Row
  | .sub r => some r
  | _ => none

def optOf : PV → Option Nat
  | .inst (.sup _ i) => some i
  | _ => none

/-- accepting a supertype instance: the hand-written printer with fuel `f` -/
def accHead (q : FlatPop) (f : Nat) : Inst → List Tok
  | .none => []
  | .sup cls i =>
    if cls == "V_VAL" then regenVal q f i
    else if cls == "ACT_BLK" then regenBlk q f i
    else if cls == "ACT_SMT" then regenSmt q f i ++ [Tok.p .semi]
    else if cls == "V_VAR" then regenVar q i
    else [.bad cls]
  | _ => [.bad "accept"]

def loopN (q : FlatPop) (f : Nat) : List Inst → List Tok := fun l => regenElifs q f (l.filterMap rowOf)

/-- a subtype row / a model element: the generic interpretation of its class's handler, `n` levels deep -/
def accN (q : FlatPop) (f : Nat) : Nat → Inst → List Tok
  | 0 => accHead q f
  | n + 1 => fun x =>
    match x with
    | .sub r => handler { q := q, acc := accN q f n, loop := loopN q f } (handlerOf r.cls) (.sub r)
    | .elem cls r => handler { q := q, acc := accN q f n, loop := loopN q f } (handlerOf cls) (.elem cls r)
    | x => accHead q f x

def envN (q : FlatPop) (f : Nat) (n : Nat) : Env := { q := q, acc := accN q f n, loop := loopN q f }

/-! ### lemmas -/

theorem valSub_valOf {q : FlatPop} {v : Nat} {r : Row} (h : valSub q v = some r) : r.valOf = some v := by
  have := List.find?_some h
  simpa using this

theorem smtSub_smtOf {q : FlatPop} {s : Nat} {r : Row} (h : smtSub q s = some r) : r.smtOf = some s := by
  have := List.find?_some h
  simpa using this

theorem elseOf_isE {q : FlatPop} {s : Nat} {r : Row} (h : elseOf q s = some r) : ∃ a eb, r = .e a eb s := by
  have := List.find?_some h
  cases r <;> simp at this
  exact ⟨_, _, by rw [this]⟩

theorem elifsOf_isEl (q : FlatPop) (s : Nat) : ∀ r ∈ elifsOf q s, ∃ a blk v i, r = .el a blk v i := by
  intro r hr
  have := (List.mem_filter.mp hr).2
  cases r <;> simp at this
  exact ⟨_, _, _, _, rfl⟩

theorem handlerOf_V_VAL : handlerOf "V_VAL" = accept_V_VAL := by rfl
theorem handlerOf_V_LIN : handlerOf "V_LIN" = accept_V_LIN := by rfl
theorem handlerOf_V_LRL : handlerOf "V_LRL" = accept_V_LRL := by rfl
theorem handlerOf_V_LST : handlerOf "V_LST" = accept_V_LST := by rfl
theorem handlerOf_V_LBO : handlerOf "V_LBO" = accept_V_LBO := by rfl
theorem handlerOf_V_TVL : handlerOf "V_TVL" = accept_V_TVL := by rfl
theorem handlerOf_V_IRF : handlerOf "V_IRF" = accept_V_IRF := by rfl
theorem handlerOf_V_ISR : handlerOf "V_ISR" = accept_V_ISR := by rfl
theorem handlerOf_V_UNY : handlerOf "V_UNY" = accept_V_UNY := by rfl
theorem handlerOf_V_BIN : handlerOf "V_BIN" = accept_V_BIN := by rfl
theorem handlerOf_V_SLR : handlerOf "V_SLR" = accept_V_SLR := by rfl
theorem handlerOf_V_AVL : handlerOf "V_AVL" = accept_V_AVL := by rfl
theorem handlerOf_V_PVL : handlerOf "V_PVL" = accept_V_PVL := by rfl
theorem handlerOf_V_LEN : handlerOf "V_LEN" = accept_V_LEN := by rfl
theorem handlerOf_V_SCV : handlerOf "V_SCV" = accept_V_SCV := by rfl
theorem handlerOf_S_BPARM : handlerOf "S_BPARM" = accept_S_BPARM := by rfl
theorem handlerOf_ACT_SMT : handlerOf "ACT_SMT" = accept_ACT_SMT := by rfl
theorem handlerOf_ACT_AI : handlerOf "ACT_AI" = accept_ACT_AI := by rfl
theorem handlerOf_ACT_RET : handlerOf "ACT_RET" = accept_ACT_RET := by rfl
theorem handlerOf_ACT_BRK : handlerOf "ACT_BRK" = accept_ACT_BRK := by rfl
theorem handlerOf_ACT_CON : handlerOf "ACT_CON" = accept_ACT_CON := by rfl
theorem handlerOf_ACT_CTL : handlerOf "ACT_CTL" = accept_ACT_CTL := by rfl
theorem handlerOf_ACT_CR : handlerOf "ACT_CR" = accept_ACT_CR := by rfl
theorem handlerOf_ACT_CNV : handlerOf "ACT_CNV" = accept_ACT_CNV := by rfl
theorem handlerOf_ACT_DEL : handlerOf "ACT_DEL" = accept_ACT_DEL := by rfl
theorem handlerOf_ACT_REL : handlerOf "ACT_REL" = accept_ACT_REL := by rfl
theorem handlerOf_ACT_RU : handlerOf "ACT_RU" = accept_ACT_RU := by rfl
theorem handlerOf_ACT_UNR : handlerOf "ACT_UNR" = accept_ACT_UNR := by rfl
theorem handlerOf_ACT_URU : handlerOf "ACT_URU" = accept_ACT_URU := by rfl
theorem handlerOf_ACT_FIO : handlerOf "ACT_FIO" = accept_ACT_FIO := by rfl
theorem handlerOf_ACT_FIW : handlerOf "ACT_FIW" = accept_ACT_FIW := by rfl
theorem handlerOf_ACT_FOR : handlerOf "ACT_FOR" = accept_ACT_FOR := by rfl
theorem handlerOf_ACT_WHL : handlerOf "ACT_WHL" = accept_ACT_WHL := by rfl
theorem handlerOf_ACT_IF : handlerOf "ACT_IF" = accept_ACT_IF := by rfl
theorem handlerOf_ACT_EL : handlerOf "ACT_EL" = accept_ACT_EL := by rfl
theorem handlerOf_ACT_E : handlerOf "ACT_E" = accept_ACT_E := by rfl
theorem handlerOf_ACT_BLK : handlerOf "ACT_BLK" = accept_ACT_BLK := by rfl
theorem handlerOf_ACT_ACT : handlerOf "ACT_ACT" = accept_ACT_ACT := by rfl
theorem handlerOf_V_VAR : handlerOf "V_VAR" = accept_V_VAR := by rfl

theorem cls_ne_msv (r : Row) : (r.cls == "V_MSV") = false := by cases r <;> rfl

theorem subAs_msv (o : Option Row) : subAs "V_MSV" o = [] := by
  cases o with
  | none => rfl
  | some r => simp only [subAs, cls_ne_msv]; rfl

theorem filter_filt0_none (l : List Inst) : l.filter (filt0 none) = l := by
  simp [filt0]

theorem filter_filt1_none (q : FlatPop) (L : Locals) (l : List Inst) : l.filter (filt1 q L none) = l := by
  simp [filt1]

theorem filterMap_rowOf_sub (l : List Row) : (l.map Inst.sub).filterMap rowOf = l := by
  induction l with
  | nil => rfl
  | cons r rest ih => simp only [List.map, List.filterMap_cons, rowOf, ih]

theorem accN_succ_sub (q : FlatPop) (f n : Nat) (r : Row) :
    accN q f (n + 1) (.sub r) = handler { q := q, acc := accN q f n, loop := loopN q f } (handlerOf r.cls) (.sub r) := rfl
theorem accN_succ_elem (q : FlatPop) (f n : Nat) (cls : String) (r : Row) :
    accN q f (n + 1) (.elem cls r) = handler { q := q, acc := accN q f n, loop := loopN q f } (handlerOf cls) (.elem cls r) := rfl
theorem accN_sup (q : FlatPop) (f n : Nat) (cls : String) (i : Nat) : accN q f n (.sup cls i) = accHead q f (.sup cls i) := by
  cases n <;> rfl
theorem accN_none (q : FlatPop) (f n : Nat) : accN q f n .none = [] := by
  cases n <;> rfl

syntax "sg_simp" : tactic
macro_rules
  | `(tactic| sg_simp) => `(tactic| simp only [handler, runStms, runStm, evalNav, evalCond, navWith, condWith, subtypeOf, follow,
      hopMany, subHop, supHop, elemHop, Hop.is, attrOf, subAttr, elemAttr, evalPiece, epOf, toksOf, litToks, litTable, valTok,
      isNs, nextIsDcolon, Locals.get, Locals.set, List.lookup, instOf, truthy, optSup, optSub, subAs_msv,
      filter_filt0_none, filter_filt1_none, filterMap_rowOf_sub, envN,
      accN_succ_sub, accN_succ_elem, accN_sup, accN_none, accHead, loopN, rowOf, optOf, Row.cls, handlerOf_V_VAL, accept_V_VAL, handlerOf_V_LIN, accept_V_LIN, handlerOf_V_LRL, accept_V_LRL, handlerOf_V_LST, accept_V_LST, handlerOf_V_LBO, accept_V_LBO, handlerOf_V_TVL, accept_V_TVL, handlerOf_V_IRF, accept_V_IRF, handlerOf_V_ISR, accept_V_ISR, handlerOf_V_UNY, accept_V_UNY, handlerOf_V_BIN, accept_V_BIN, handlerOf_V_SLR, accept_V_SLR, handlerOf_V_AVL, accept_V_AVL, handlerOf_V_PVL, accept_V_PVL, handlerOf_V_LEN, accept_V_LEN, handlerOf_V_SCV, accept_V_SCV, handlerOf_S_BPARM, accept_S_BPARM, handlerOf_ACT_SMT, accept_ACT_SMT, handlerOf_ACT_AI, accept_ACT_AI, handlerOf_ACT_RET, accept_ACT_RET, handlerOf_ACT_BRK, accept_ACT_BRK, handlerOf_ACT_CON, accept_ACT_CON, handlerOf_ACT_CTL, accept_ACT_CTL, handlerOf_ACT_CR, accept_ACT_CR, handlerOf_ACT_CNV, accept_ACT_CNV, handlerOf_ACT_DEL, accept_ACT_DEL, handlerOf_ACT_REL, accept_ACT_REL, handlerOf_ACT_RU, accept_ACT_RU, handlerOf_ACT_UNR, accept_ACT_UNR, handlerOf_ACT_URU, accept_ACT_URU, handlerOf_ACT_FIO, accept_ACT_FIO, handlerOf_ACT_FIW, accept_ACT_FIW, handlerOf_ACT_FOR, accept_ACT_FOR, handlerOf_ACT_WHL, accept_ACT_WHL, handlerOf_ACT_IF, accept_ACT_IF, handlerOf_ACT_EL, accept_ACT_EL, handlerOf_ACT_E, accept_ACT_E, handlerOf_ACT_BLK, accept_ACT_BLK, handlerOf_ACT_ACT, accept_ACT_ACT, handlerOf_V_VAR, accept_V_VAR,
      List.map, List.flatMap_cons, List.flatMap_nil, List.append_nil, List.nil_append, List.filter, List.head?, Option.getD,
      List.cons_append, List.append_assoc, Option.isNone, Option.isSome, phraseOf,
      ↓reduceIte, String.reduceEq, String.reduceBEq, String.reduceBNe, String.reduceAppend, Nat.reduceBEq, Nat.reduceEqDiff,
      Nat.reduceAdd, Nat.reduceSucc,
      Bool.and_true, Bool.true_and, Bool.and_false, Bool.false_and, Bool.or_true, Bool.or_false, Bool.true_or, Bool.false_or,
      Bool.not_true, Bool.not_false, beq_self_eq_true, Option.getD_some, Option.getD_none, Bool.false_eq_true,
      List.all_cons, List.all_nil, reduceCtorEq, and_true, and_false, true_and, false_and, if_true, if_false])

/-! ### the equalities -/

def isVar (q : FlatPop) (v : Nat) : Bool :=
  match q[v]? with
  | some (.var _ _) => true
  | _ => false

theorem regenVar_eq (q : FlatPop) (E : Env) (hE : E.q = q) (v : Nat) :
    regenVar q v = if isVar q v then handler E accept_V_VAR (.sup "V_VAR" v) else [Tok.bad "V_VAR"] := by
  subst hE
  unfold regenVar isVar
  cases h : E.q[v]? with
  | none => simp
  | some r => cases r <;> simp only [↓reduceIte, Bool.false_eq_true] <;> (sg_simp; simp only [h]; try sg_simp)

theorem regenVal_eq (q : FlatPop) (f v : Nat) :
    regenVal q (f + 1) v =
      if (valSub q v).isSome then handler (envN q f 2) accept_V_VAL (.sup "V_VAL" v) else [Tok.bad "V_VAL"] := by
  rw [regenVal]
  cases h : valSub q v with
  | none => simp
  | some r =>
    have hv := valSub_valOf h
    have hh : handler (envN q f 2) accept_V_VAL (.sup "V_VAL" v) = accN q f 2 (.sub r) := by
      simp only [handler, runStms, runStm, accept_V_VAL, evalNav, navWith, subtypeOf, Locals.get, List.lookup, instOf, envN,
        Option.getD_some, beq_self_eq_true, String.reduceBEq, Nat.reduceBEq, Bool.and_true, Bool.false_and, ↓reduceIte, h,
        List.append_nil, Bool.false_eq_true]
    simp only [Option.isSome, ↓reduceIte, hh]
    cases r <;> simp only [Row.valOf, reduceCtorEq] at hv <;> sg_simp

theorem regenSmt_eq (q : FlatPop) (f s : Nat) :
    regenSmt q (f + 1) s ++ [Tok.p .semi] =
      if (smtSub q s).isSome && !isElifOrElse q s then handler (envN q f 2) accept_ACT_SMT (.sup "ACT_SMT" s)
      else [Tok.bad "ACT_SMT", Tok.p .semi] := by
  rw [regenSmt, isElifOrElse]
  cases h : smtSub q s with
  | none => simp
  | some r =>
    have hv := smtSub_smtOf h
    have hh : handler (envN q f 2) accept_ACT_SMT (.sup "ACT_SMT" s) = accN q f 2 (.sub r) ++ [Tok.p .semi] := by
      simp only [handler, runStms, runStm, accept_ACT_SMT, evalNav, navWith, subtypeOf, Locals.get, List.lookup, instOf, envN,
        Option.getD_some, beq_self_eq_true, String.reduceBEq, Nat.reduceBEq, Bool.and_true, Bool.false_and, ↓reduceIte, h,
        List.append_nil, Bool.false_eq_true, List.map, evalPiece, toksOf, litToks, litTable, String.reduceEq]
    simp only [Option.isSome, hh]
    cases r <;> simp only [Row.smtOf, reduceCtorEq, Option.some.injEq] at hv <;> (try subst hv) <;>
      simp only [Bool.not_false, Bool.not_true, Bool.and_true, Bool.and_false, ↓reduceIte, Bool.false_eq_true, List.cons_append,
        List.nil_append]
    case ret a v => cases v <;> sg_simp
    case rel a b c d ph =>
      by_cases hp : ph = ""
      · subst hp; sg_simp
      · have hb : (ph != "") = true := by simpa using hp
        sg_simp; simp only [hb, hp, ↓reduceIte]; try sg_simp
    case ru a b c u d ph =>
      by_cases hp : ph = ""
      · subst hp; sg_simp
      · have hb : (ph != "") = true := by simpa using hp
        sg_simp; simp only [hb, hp, ↓reduceIte]; try sg_simp
    case unr a b c d ph =>
      by_cases hp : ph = ""
      · subst hp; sg_simp
      · have hb : (ph != "") = true := by simpa using hp
        sg_simp; simp only [hb, hp, ↓reduceIte]; try sg_simp
    case uru a b c u d ph =>
      by_cases hp : ph = ""
      · subst hp; sg_simp
      · have hb : (ph != "") = true := by simpa using hp
        sg_simp; simp only [hb, hp, ↓reduceIte]; try sg_simp
    case if_ s0 blk v =>
      sg_simp
      cases he : elseOf q s0 with
      | none => simp [accN_none]
      | some e =>
        obtain ⟨a, eb, rfl⟩ := elseOf_isE he
        sg_simp
    all_goals sg_simp

/-! ### loops, blocks, the action -/

/-- the `while` statement of a handler -/
def whileOf : List Stm → Option (String × List Stm)
  | [] => none
  | .whileLoc v b :: _ => some (v, b)
  | _ :: rest => whileOf rest

/-- the `for` statement of a handler -/
def forOf : List Stm → Option (String × Nav × String × List Stm)
  | [] => none
  | .forSorted v n k b :: _ => some (v, n, k, b)
  | _ :: rest => forOf rest

/-- the filter closure of a handler -/
def filterOf : List Stm → Option (String × String × List Cond)
  | [] => none
  | .defFilter n p c :: _ => some (n, p, c)
  | _ :: rest => filterOf rest

/-- the sort key of a handler -/
def keyOf : List Stm → Option (String × String × List (Nav × String))
  | [] => none
  | .defKey n p k :: _ => some (n, p, k)
  | _ :: rest => keyOf rest

/-- accepting inside a block: statements with fuel `f`; the rounds of the successor loop that follow: `regenChain` with fuel
    `f` on the loop variable -/
def chainEnv (q : FlatPop) (f : Nat) (v : String) : Env :=
  { q := q, acc := accHead q f, again := fun L => regenChain q f (optOf (L.get v)) }

def curPV : Option Nat → PV
  | some s => .inst (.sup "ACT_SMT" s)
  | none => .inst .none

theorem regenChain_eq (q : FlatPop) (f : Nat) (cur : Option Nat) :
    (whileOf accept_ACT_BLK).map (fun vb => (runStm (chainEnv q f vb.1) (.whileLoc vb.1 vb.2) [(vb.1, curPV cur)]).2) =
      some (regenChain q (f + 1) cur) := by
  simp only [accept_ACT_BLK, whileOf, Option.map, Option.some.injEq]
  cases cur with
  | none => rw [regenChain]; simp only [curPV, chainEnv]; sg_simp
  | some s =>
    rw [regenChain]
    simp only [curPV, chainEnv]
    cases hs : succStmt q s <;> (sg_simp; simp only [hs]; try sg_simp)

def firstFilterConj : List Cond :=
  [(.navNot (.one "sel" [⟨"ACT_SMT", 661, "succeeds"⟩] none)), (.navNot (.one "sel" [⟨"ACT_EL", 603, ""⟩] none)),
   (.navNot (.one "sel" [⟨"ACT_E", 603, ""⟩] none))]

theorem elif_nav (q : FlatPop) (j : Nat) :
    (!truthy (.inst ((subAs "ACT_EL" (smtSub q j)).head?.getD .none)) &&
      !truthy (.inst ((subAs "ACT_E" (smtSub q j)).head?.getD .none))) = !isElifOrElse q j := by
  unfold isElifOrElse
  cases smtSub q j with
  | none => rfl
  | some r => cases r <;> rfl

theorem first_pred (q : FlatPop) (b j : Nat) (L : Locals) (hf : L.get "first_filter" = .filter "sel" firstFilterConj) :
    ((match (q[j]? : Option Row) with
      | some (Row.smt b' _) => b' == b
      | _ => false) && filt1 q L (some "first_filter") (.sup "ACT_SMT" j)) =
    (match q[j]? with
     | some (.smt b' none) => b' == b && !isElifOrElse q j
     | _ => false) := by
  have he := elif_nav q j
  simp only [filt1, hf]
  simp only [firstFilterConj, List.all_cons, List.all_nil, condWith, navWith, Locals.set, Locals.get, List.lookup,
    beq_self_eq_true, Option.getD_some, instOf, follow, List.flatMap_cons, List.flatMap_nil, List.append_nil, hopMany, supHop,
    Hop.is, String.reduceBEq, Nat.reduceBEq, ↓reduceIte, Bool.and_true, Bool.true_and, Bool.and_false, Bool.false_and,
    Bool.false_eq_true, filter_filt0_none]
  cases hq : q[j]? with
  | none => simp
  | some r =>
    cases r <;> simp only [Bool.false_and]
    case smt b' prev =>
      cases prev with
      | none => simp only [optSup, List.head?, Option.getD, truthy, Bool.not_false, Bool.true_and] at he ⊢; rw [he]
      | some p => simp [optSup, truthy]

theorem head_filter_map_filter (l : List Nat) (A : Nat → Bool) (g : Nat → Inst) (p : Inst → Bool) :
    (((l.filter A).map g).filter p).head? = (l.find? (fun j => A j && p (g j))).map g := by
  induction l with
  | nil => rfl
  | cons a t ih =>
    by_cases hA : A a <;> by_cases hp : p (g a) <;> simp [List.filter_cons, List.find?_cons, hA, hp, ih]

def blkLocals (b : Nat) : Locals :=
  [("first_filter", .filter "sel" firstFilterConj), ("inst", .inst (.sup "ACT_BLK" b))]

theorem first_nav (q : FlatPop) (b : Nat) :
    evalNav q (blkLocals b) (.one "inst" [⟨"ACT_SMT", 602, ""⟩] (some "first_filter")) = curPV (firstStmt q b) := by
  simp only [evalNav, navWith, blkLocals, Locals.get, List.lookup, String.reduceBEq, Option.getD_some, instOf, follow,
    List.flatMap_cons, List.flatMap_nil, List.append_nil, hopMany, supHop, Hop.is, Nat.reduceBEq, beq_self_eq_true,
    Bool.and_true, ↓reduceIte]
  rw [head_filter_map_filter]
  have : (fun j => (match (q[j]? : Option Row) with
      | some (Row.smt b' _) => b' == b
      | _ => false) && filt1 q (blkLocals b) (some "first_filter") (.sup "ACT_SMT" j)) =
    (fun j => match q[j]? with
     | some (.smt b' none) => b' == b && !isElifOrElse q j
     | _ => false) := funext (fun j => first_pred q b j (blkLocals b) rfl)
  simp only [blkLocals] at this
  rw [this]
  unfold firstStmt
  cases List.find? _ (List.range q.length) <;> rfl

theorem regenBlk_eq (q : FlatPop) (f b : Nat) :
    regenBlk q (f + 2) b = handler (chainEnv q f "act_smt") accept_ACT_BLK (.sup "ACT_BLK" b) := by
  have hn := first_nav q b
  simp only [blkLocals] at hn
  rw [regenBlk]
  simp only [handler, accept_ACT_BLK, runStms, runStm, evalCond, condWith, Locals.set, ↓reduceIte, Bool.false_eq_true,
    List.nil_append, List.append_nil, List.map, toksOf, firstFilterConj, chainEnv] at hn ⊢
  rw [hn]
  cases hfs : firstStmt q b with
  | none => rw [regenChain]; simp only [curPV, chainEnv]; sg_simp
  | some s =>
    rw [regenChain]
    simp only [curPV, chainEnv]
    cases hs : succStmt q s <;> (sg_simp; simp only [hs]; try sg_simp)

theorem regenElifs_eq (q : FlatPop) (f : Nat) (l : List Row) (hl : ∀ r ∈ l, ∃ a blk v i, r = Row.el a blk v i) :
    (forOf accept_ACT_IF).map (fun x => forStep (envN q f 1) x.1 x.2.2.2 [] (l.map .sub)) = some (regenElifs q (f + 1) l) := by
  simp only [accept_ACT_IF, forOf, Option.map, Option.some.injEq]
  cases l with
  | nil => rw [regenElifs]; rfl
  | cons r rest =>
    obtain ⟨a, blk, v, i, rfl⟩ := hl r (List.mem_cons_self ..)
    rw [regenElifs]
    simp only [List.map, forStep]
    sg_simp

theorem regenFlat_eq (q : FlatPop) :
    regenFlat q = if (outerBlk q).isSome then handler { q := q, acc := accHead q (q.length + 1) } accept_ACT_ACT .act
      else [Tok.bad "ACT_BLK"] := by
  unfold regenFlat
  cases h : outerBlk q <;> (sg_simp <;> simp only [h] <;> try sg_simp)

end Pyx.SgShape
