import PyxModel.Sql.Build
import Proofs.SqlChars

/-! the attribute-name comparison of `define_class` (`attrNamesOk`): what it decides, and why the names `_0`, `_1`, …
    that the loader invents for a positional INSERT into an undeclared class always pass it -/
namespace Pyx.Sql

theorem distinctB_iff : ∀ (l : List Text), distinctB l = true ↔ l.Nodup := by
  intro l
  induction l with
  | nil => simp [distinctB]
  | cons x xs ih =>
    simp only [distinctB, Bool.and_eq_true, Bool.not_eq_true', List.nodup_cons, ih]
    constructor
    · intro ⟨h1, h2⟩
      refine ⟨?_, h2⟩
      intro hm
      have : xs.contains x = true := List.contains_iff_mem.mpr hm
      rw [this] at h1; cases h1
    · intro ⟨h1, h2⟩
      refine ⟨?_, h2⟩
      cases hc : xs.contains x with
      | false => rfl
      | true => exact absurd (List.contains_iff_mem.mp hc) h1

/-- `attrNamesOk` holds exactly when the upper-cased attribute names are pairwise different and none has the form `__x__` -/
theorem attrNamesOk_iff (u : UC) (attrs : List (Name × Name)) :
    attrNamesOk u attrs = true ↔ ((attrs.map fun a => u.upper a.1).Nodup ∧ ∀ a ∈ attrs, isDunder a.1 = false) := by
  unfold attrNamesOk
  rw [Bool.and_eq_true, distinctB_iff, List.all_eq_true]
  simp only [Bool.not_eq_true']

theorem isDunder_positional (i : Nat) : isDunder ('_' :: natText i) = false := by
  cases h : natText i with
  | nil => exact absurd h (natText_ne_nil i)
  | cons d ds =>
    have hd : d ≠ '_' := ne_of_isAsciiDigit (natText_all_digit i d (by rw [h]; simp)) (by decide)
    simp [isDunder, hd]

theorem upper_digits (u : UC) : ∀ (ds : Text), (∀ c ∈ ds, isAsciiDigit c = true) → u.upper ds = ds := by
  intro ds
  induction ds with
  | nil => intro _; rfl
  | cons c rest ih =>
    intro h
    have hc := h c (by simp)
    have hlt : c.toNat < 128 := isAsciiDigit_lt_128 hc
    have hlow : isAsciiLower c = false := by
      simp only [isAsciiDigit, Bool.and_eq_true, decide_eq_true_eq] at hc
      simp only [isAsciiLower, Bool.and_eq_false_iff, decide_eq_false_iff_not]; omega
    have ih' := ih (fun x hx => h x (by simp [hx]))
    simp only [UC.upper, List.flatMap_cons, UC.up, hlt, if_true, List.singleton_append, asciiUpper, hlow,
      Bool.false_eq_true, if_false] at ih' ⊢
    rw [ih']

theorem upper_positional (u : UC) (i : Nat) : u.upper ('_' :: natText i) = '_' :: natText i := by
  have h := upper_digits u (natText i) (natText_all_digit i)
  simp only [UC.upper, List.flatMap_cons] at h ⊢
  rw [h]
  rfl

theorem natText_injective {a b : Nat} (h : natText a = natText b) : a = b := by
  rw [← natOfText_natText a, ← natOfText_natText b, h]

theorem positionalNames_upper_nodup (u : UC) (n : Nat) : ((positionalNames n).map u.upper).Nodup := by
  simp only [positionalNames, List.map_map]
  unfold List.Nodup
  rw [List.pairwise_map]
  apply List.Pairwise.imp _ (List.nodup_range (n := n))
  intro a b hab he
  simp only [Function.comp, upper_positional] at he
  exact hab (natText_injective (List.cons.inj he).2)

theorem inferredAttrs_names (u : UC) : ∀ (names : List Name) (values : List Text), names.length = values.length →
    (inferredAttrs u names values).map (fun a => a.1) = names := by
  intro names
  induction names with
  | nil => intro values _; simp [inferredAttrs]
  | cons n ns ih =>
    intro values h
    cases values with
    | nil => simp at h
    | cons v vs =>
      have := ih vs (by simpa using h)
      simp only [inferredAttrs, List.zip_cons_cons, List.map_cons, List.map_map] at this ⊢
      rw [this]

/-- the invented names `_0`, `_1`, … never make `define_class` raise -/
theorem attrNamesOk_positional (u : UC) (values : List Text) :
    attrNamesOk u (inferredAttrs u (positionalNames values.length) values) = true := by
  rw [attrNamesOk_iff]
  have h := inferredAttrs_names u (positionalNames values.length) values (by simp [positionalNames])
  have : (inferredAttrs u (positionalNames values.length) values).map (fun a => u.upper a.1) =
      ((inferredAttrs u (positionalNames values.length) values).map (fun a => a.1)).map u.upper := by
    rw [List.map_map]; rfl
  refine ⟨by rw [this, h]; exact positionalNames_upper_nodup u values.length, ?_⟩
  intro a ha
  have : a.1 ∈ positionalNames values.length := by rw [← h]; exact List.mem_map.mpr ⟨a, ha, rfl⟩
  simp only [positionalNames, List.mem_map] at this
  obtain ⟨i, _, hi⟩ := this
  rw [← hi]; exact isDunder_positional i

/-- an INSERT into an undeclared class makes `define_class` raise only if it is a named one -/
theorem inferOk_positional (u : UC) (s : BState) (kind : Name) (ns : List Name) (values : List Text) :
    inferOk u s kind false ns values = true := by
  unfold inferOk
  split
  · rfl
  · simp only [inferredFor, Bool.false_eq_true, if_false]; exact attrNamesOk_positional u values

end Pyx.Sql
