import PyxModel.Meta
import Gen.RelateShape

/-!
  C02 source tie, one level above Link.connect/disconnect: a GENERIC interpreter of the first-order IR that
  translator/gen_relateshape.py extracts from xtuml/meta.py (define_association, _find_link, relate, unrelate,
  MetaClass.delete, MetaClass.new, Association.formalize's getter), and the lemmas showing that the model of
  PyxModel/Meta.lean equals that interpretation of the IR generated from the current source.

  The interpreter is defined once, for ANY IR value; only the `…_eq` lemmas mention the generated constants.
-/
namespace Pyx.Shape
open Pyx.Meta Pyx.Gen.RelateShape

def evalB {α : Type} (v : α → Bool) : BExp α → Bool
  | .atom a => v a
  | .and l r => evalB v l && evalB v r
  | .or l r => evalB v l || evalB v r
  | .not e => !(evalB v e)

/-! ### define_association: which argument each link receives -/

def endKind (a : AssocSpec) : End → Kind
  | .source => a.srcKind
  | .target => a.tgtKind

def endMany (a : AssocSpec) : End → Bool
  | .source => a.srcMany
  | .target => a.tgtMany

def endPhrase (a : AssocSpec) : End → String
  | .source => a.srcPhrase
  | .target => a.tgtPhrase

def endKeys (a : AssocSpec) : End → List String
  | .source => a.srcKeys
  | .target => a.tgtKeys

def linkDefOf (defs : List LinkDef) (isSrc : Bool) : Option LinkDef := defs.find? (fun d => d.isSourceLink == isSrc)

/-- `metaclass.links.values()` of class `k`: every association contributes, in the order of its add_link calls,
    the links that start at `k`: (association index, is it the source_link?, phrase of the link) -/
def iLinksOfFrom (defs : List LinkDef) (k : Kind) : Nat → Schema → List (Nat × Bool × String)
  | _, [] => []
  | i, a :: rest =>
    defs.flatMap (fun d => if endKind a d.fromCls = k then [(i, d.isSourceLink, endPhrase a d.phrase)] else []) ++
      iLinksOfFrom defs k (i + 1) rest

/-! ### _find_link -/

def evalFindAtom (defs : List LinkDef) (a : AssocSpec) (k1 k2 : Kind) (rel phrase : String) : FindAtom → Bool
  | .relDiffers => decide (a.rel ≠ rel)
  | .srcFrom1 => match linkDefOf defs true with | some d => decide (endKind a d.fromCls = k1) | none => false
  | .srcTo2 => match linkDefOf defs true with | some d => decide (endKind a d.toCls = k2) | none => false
  | .srcPhrase => match linkDefOf defs true with | some d => decide (endPhrase a d.phrase = phrase) | none => false
  | .tgtFrom1 => match linkDefOf defs false with | some d => decide (endKind a d.fromCls = k1) | none => false
  | .tgtTo2 => match linkDefOf defs false with | some d => decide (endKind a d.toCls = k2) | none => false
  | .tgtPhrase => match linkDefOf defs false with | some d => decide (endPhrase a d.phrase = phrase) | none => false

/-- the first guard of the loop body that fires decides; none firing = fall through to the next association -/
def firstAct (body : List (BExp FindAtom × FindAct)) (v : FindAtom → Bool) : Option FindAct :=
  (body.find? (fun g => evalB v g.1)).map (·.2)

/-- `some (i, swapped)`; `none` = the exception after the loop -/
def iFindFrom (defs : List LinkDef) (body : List (BExp FindAtom × FindAct)) (k1 k2 : Kind) (rel phrase : String) :
    Nat → Schema → Option (Nat × Bool)
  | _, [] => none
  | i, a :: rest =>
    match firstAct body (evalFindAtom defs a k1 k2 rel phrase) with
    | some (.found sw) => some (i, sw)
    | _ => iFindFrom defs body k1 k2 rel phrase (i + 1) rest

/-! ### relate / unrelate: a list of guarded link calls -/

structure Env where
  inst1 : Inst
  inst2 : Inst
  fromI : Inst
  toI : Inst

def Env.get (e : Env) : Arg → Inst
  | .inst1 => e.inst1
  | .inst2 => e.inst2
  | .fromInst => e.fromI
  | .toInst => e.toI

def linkMany (defs : List LinkDef) (a : AssocSpec) (isSrc : Bool) : Bool :=
  match linkDefOf defs isSrc with
  | some d => endMany a d.many
  | none => false

/-- one `ass.<link>.<op>(a1, a2)`; `none` = it returned False -/
def applyCall (defs : List LinkDef) (a : AssocSpec) (env : Env) (l : ALinks) (c : Call) : Option ALinks :=
  match c.link, c.op with
  | .sourceLink, .connect => (connect (linkMany defs a true) l.src (env.get c.a1) (env.get c.a2)).map (fun m => { l with src := m })
  | .sourceLink, .disconnect => (disconnect l.src (env.get c.a1) (env.get c.a2)).map (fun m => { l with src := m })
  | .targetLink, .connect => (connect (linkMany defs a false) l.tgt (env.get c.a1) (env.get c.a2)).map (fun m => { l with tgt := m })
  | .targetLink, .disconnect => (disconnect l.tgt (env.get c.a1) (env.get c.a2)).map (fun m => { l with tgt := m })

/-- an undo call is an expression statement: its result is ignored -/
def applyUndo (defs : List LinkDef) (a : AssocSpec) (env : Env) (l : ALinks) (c : Call) : ALinks :=
  (applyCall defs a env l c).getD l

def excOut : Exc → Out
  | .relateExc => .relateExc
  | .unrelateExc => .unrelateExc
  | .unknownLink => .unknownLink
  | .deleteExc => .deleteExc

def iSteps (defs : List LinkDef) (a : AssocSpec) (env : Env) : List GuardedCall → ALinks → ALinks × Out
  | [], l => (l, .ok)
  | g :: rest, l =>
    match applyCall defs a env l g.call with
    | some l' => iSteps defs a env rest l'
    | none => (g.undo.foldl (applyUndo defs a env) l, excOut g.raises)

/-- does `MetaClass.delete` add the instance it removes from `storage` to `self.deleted`? -/
def marksDeleted : List DStmt → Bool
  | [] => false
  | .removeFromStorageElseRaise _ adds :: rest => adds || marksDeleted rest
  | _ :: rest => marksDeleted rest

/-- `inst in get_metaclass(inst).deleted`, given the body of `MetaClass.delete`: the set `deleted` of a metaclass
    receives exactly the instances `delete` removes from `storage` (if `delete` adds them at all: `marksDeleted`), and
    `MetaClass.new` appends every instance it creates to `storage`; so a handle is in `deleted` iff it is not (no
    longer) in the pool of its class.  (A handle that was never created is in no pool either.) -/
def inDeleted (dbody : List DStmt) (s : State) (x : Inst) : Bool := marksDeleted dbody && !decide (live s x)

/-- `relate` / `unrelate`: `_find_link` on the program's arguments, then the guards
    `for inst in (…): if inst in get_metaclass(inst).deleted: raise …`, then the guarded calls on the association found -/
def iPair (defs : List LinkDef) (body : List (BExp FindAtom × FindAct)) (els : Exc) (dbody : List DStmt) (prog : PairProg)
    (sch : Schema) (s : State) (fromI toI : Inst) (rel phrase : String) : State × Out :=
  let env0 : Env := { inst1 := fromI, inst2 := toI, fromI := fromI, toI := toI }
  let a1 := env0.get prog.findArgs.1
  let a2 := env0.get prog.findArgs.2
  match iFindFrom defs body (s.kindOf a1) (s.kindOf a2) rel phrase 0 sch with
  | none => (s, excOut els)
  | some (i, sw) =>
    let env : Env := { inst1 := if sw then a2 else a1, inst2 := if sw then a1 else a2, fromI := fromI, toI := toI }
    match prog.guards.find? (fun g => g.over.any (fun a => inDeleted dbody s (env.get a))) with
    | some g => (s, excOut g.raises)
    | none =>
      let r := iSteps defs (specAt sch i) env prog.steps (s.links i)
      ({ s with links := upd s.links i r.1 }, r.2)

/-! ### MetaClass.delete -/

def dArg (x other : Inst) : DArg → Inst
  | .instance => x
  | .other => other

/-- `for other in link[instance]: unrelate(a1, a2, rel, phrase)` over the snapshot of the partner list -/
def iPartners (unrel : State → Inst → Inst → String → String → State × Out) (a1 a2 : DArg) (x : Inst)
    (rel phrase : String) : List Inst → State → State × Out
  | [], s => (s, .ok)
  | y :: ys, s =>
    let r := unrel s (dArg x y a1) (dArg x y a2) rel phrase
    if r.2 = .ok then iPartners unrel a1 a2 x rel phrase ys r.1 else r

def iLinkLoop (unrel : State → Inst → Inst → String → String → State × Out) (sch : Schema) (skipAbsent : Bool)
    (a1 a2 : DArg) (x : Inst) : List (Nat × Bool × String) → State → State × Out
  | [], s => (s, .ok)
  | (i, isSrc, phrase) :: rest, s =>
    let partners := if isSrc then (s.links i).src x else (s.links i).tgt x
    if skipAbsent && partners.isEmpty then iLinkLoop unrel sch skipAbsent a1 a2 x rest s
    else
      let r := iPartners unrel a1 a2 x (specAt sch i).rel phrase partners s
      if r.2 = .ok then iLinkLoop unrel sch skipAbsent a1 a2 x rest r.1 else r

def iDelete (defs : List LinkDef) (unrel : State → Inst → Inst → String → String → State × Out) (sch : Schema)
    (x : Inst) (disconnectFlag : Bool) : List DStmt → State → State × Out
  | [], s => (s, .ok)
  | .removeFromStorageElseRaise e _ :: rest, s =>
    if x ∈ s.pool (s.kindOf x) ∧ x < s.count then
      iDelete defs unrel sch x disconnectFlag rest
        { s with pool := upd s.pool (s.kindOf x) ((s.pool (s.kindOf x)).erase x) }
    else (s, excOut e)
  | .returnUnlessDisconnect :: rest, s =>
    if disconnectFlag then iDelete defs unrel sch x disconnectFlag rest s else (s, .ok)
  | .forLinksUnrelate skip a1 a2 :: rest, s =>
    let r := iLinkLoop unrel sch skip a1 a2 x (iLinksOfFrom defs (s.kindOf x) 0 sch) s
    if r.2 = .ok then iDelete defs unrel sch x disconnectFlag rest r.1 else r

/-! ### MetaClass.new (the part C02's model has: allocation, storage, generated id) -/

def iNewPhase (k : Kind) (hasId : Bool) (x : Inst) (s : State) : NewPhase → State
  | .construct => { s with kindOf := upd s.kindOf x k, count := x + 1 }
  | .appendStorage => { s with pool := upd s.pool k (s.pool k ++ [x]) }
  | .defaults => { s with idOf := upd s.idOf x (if hasId then s.nextId else 0),
                          nextId := if hasId then s.nextId + 1 else s.nextId }
  | _ => s

def iNew (phases : List NewPhase) (s : State) (k : Kind) (hasId : Bool) : State × Inst :=
  (phases.foldl (iNewPhase k hasId s.count) s, s.count)

/-! ### the referential getter -/

def iKeyPairs (z : End × End) (a : AssocSpec) : List (String × String) := (endKeys a z.1).zip (endKeys a z.2)

mutual
  def iGetAttr (lk : LinkSel) (fb : BExp FgetAtom) (sch : Schema) (at_ : Attrs) (s : State) : Nat → Inst → String → Option Nat
    | 0, _, _ => none
    | fuel + 1, x, name =>
      let layers := (formalFrom (s.kindOf x) name 0 sch).reverse
      match layers with
      | [] => if at_.idName (s.kindOf x) = some name then some (s.idOf x) else none
      | _ => iReadLayers lk fb sch at_ s fuel x layers
  /-- `fget`: `other = <link>.navigate_one(inst)`; `if <fallback>: return alt_prop.fget(inst)`;
      `return getattr(other, ref_name, None)` -/
  def iReadLayers (lk : LinkSel) (fb : BExp FgetAtom) (sch : Schema) (at_ : Attrs) (s : State) :
      Nat → Inst → List (Nat × String) → Option Nat
    | 0, _, _ => none
    | _, _, [] => none
    | fuel + 1, x, (i, pk) :: rest =>
      let other := (match lk with
        | .targetLink => (s.links i).tgt x
        | .sourceLink => (s.links i).src x).head?
      if evalB (fun at' => match at' with
          | .otherIsNone => other.isNone
          | .hasAlt => !rest.isEmpty) fb
      then iReadLayers lk fb sch at_ s fuel x rest
      else
        match other with
        | some o => iGetAttr lk fb sch at_ s fuel o pk
        | none => none
end

/-! ### the model equals the interpretation of the IR generated from the current source -/

def dirOf (sw : Bool) : Dir := if sw then .rev else .fwd

theorem firstAct_eq (a : AssocSpec) (k1 k2 : Kind) (rel phrase : String) :
    firstAct findBody (evalFindAtom linkDefs a k1 k2 rel phrase) =
      if decide (a.rel ≠ rel) then some .next
      else if decide (a.tgtKind = k1 ∧ a.srcKind = k2 ∧ a.tgtPhrase = phrase) then some (.found false)
      else if decide (a.srcKind = k1 ∧ a.tgtKind = k2 ∧ a.srcPhrase = phrase) then some (.found true)
      else none := by
  have e1 : evalFindAtom linkDefs a k1 k2 rel phrase .relDiffers = decide (a.rel ≠ rel) := rfl
  have e2 : evalFindAtom linkDefs a k1 k2 rel phrase .srcFrom1 = decide (a.tgtKind = k1) := rfl
  have e3 : evalFindAtom linkDefs a k1 k2 rel phrase .srcTo2 = decide (a.srcKind = k2) := rfl
  have e4 : evalFindAtom linkDefs a k1 k2 rel phrase .srcPhrase = decide (a.tgtPhrase = phrase) := rfl
  have e5 : evalFindAtom linkDefs a k1 k2 rel phrase .tgtFrom1 = decide (a.srcKind = k1) := rfl
  have e6 : evalFindAtom linkDefs a k1 k2 rel phrase .tgtTo2 = decide (a.tgtKind = k2) := rfl
  have e7 : evalFindAtom linkDefs a k1 k2 rel phrase .tgtPhrase = decide (a.srcPhrase = phrase) := rfl
  simp only [firstAct, findBody, List.find?_cons, List.find?_nil, evalB, e1, e2, e3, e4, e5, e6, e7, Bool.decide_and]
  generalize decide (a.rel ≠ rel) = b0
  generalize (decide (a.tgtKind = k1) && (decide (a.srcKind = k2) && decide (a.tgtPhrase = phrase))) = b1
  generalize (decide (a.srcKind = k1) && (decide (a.tgtKind = k2) && decide (a.srcPhrase = phrase))) = b2
  cases b0 <;> cases b1 <;> cases b2 <;> rfl

theorem findLinkFrom_eq (k1 k2 : Kind) (rel phrase : String) : ∀ (sch : Schema) (i : Nat),
    findLinkFrom k1 k2 rel phrase i sch =
      (iFindFrom linkDefs findBody k1 k2 rel phrase i sch).map (fun r => (r.1, dirOf r.2))
  | [], _ => rfl
  | a :: rest, i => by
    have ih := findLinkFrom_eq k1 k2 rel phrase rest (i + 1)
    unfold findLinkFrom iFindFrom
    rw [firstAct_eq]
    have dn : ∀ {p : Prop} [Decidable p], ¬ p → ¬ (decide p = true) := fun hp hd => hp (of_decide_eq_true hd)
    by_cases h0 : a.rel ≠ rel
    · rw [if_pos h0, if_pos (decide_eq_true h0)]
      exact ih
    · rw [if_neg h0, if_neg (dn h0)]
      by_cases h1 : a.tgtKind = k1 ∧ a.srcKind = k2 ∧ a.tgtPhrase = phrase
      · rw [if_pos h1, if_pos (decide_eq_true h1)]
        rfl
      · rw [if_neg h1, if_neg (dn h1)]
        by_cases h2 : a.srcKind = k1 ∧ a.tgtKind = k2 ∧ a.srcPhrase = phrase
        · rw [if_pos h2, if_pos (decide_eq_true h2)]
          rfl
        · rw [if_neg h2, if_neg (dn h2)]
          exact ih

theorem findLink_eq (sch : Schema) (k1 k2 : Kind) (rel phrase : String) :
    findLink sch k1 k2 rel phrase = (iFindFrom linkDefs findBody k1 k2 rel phrase 0 sch).map (fun r => (r.1, dirOf r.2)) :=
  findLinkFrom_eq k1 k2 rel phrase sch 0

theorem linkDefs_flatMap (k : Kind) (i : Nat) (a : AssocSpec) :
    linkDefs.flatMap (fun d => if endKind a d.fromCls = k then [(i, d.isSourceLink, endPhrase a d.phrase)] else []) =
      (if a.tgtKind = k then [(i, true, a.tgtPhrase)] else []) ++ (if a.srcKind = k then [(i, false, a.srcPhrase)] else []) := by
  by_cases h1 : a.tgtKind = k <;> by_cases h2 : a.srcKind = k <;> simp [linkDefs, endKind, endPhrase, h1, h2]

theorem linksOfFrom_eq (k : Kind) : ∀ (sch : Schema) (i : Nat), linksOfFrom k i sch = iLinksOfFrom linkDefs k i sch
  | [], _ => rfl
  | a :: rest, i => by
    unfold linksOfFrom iLinksOfFrom
    rw [linksOfFrom_eq k rest (i + 1), linkDefs_flatMap]

theorem linkMany_src (a : AssocSpec) : linkMany linkDefs a true = a.srcMany := rfl
theorem linkMany_tgt (a : AssocSpec) : linkMany linkDefs a false = a.tgtMany := rfl

theorem relateOn_eq (a : AssocSpec) (l : ALinks) (x y : Inst) (fromI toI : Inst) :
    relateOn a l x y = iSteps linkDefs a { inst1 := x, inst2 := y, fromI := fromI, toI := toI } relateProg.steps l := by
  unfold relateOn
  simp only [relateProg, iSteps, applyCall, Env.get, linkMany_src, linkMany_tgt]
  cases h1 : connect a.srcMany l.src x y with
  | none => simp [excOut]
  | some s' =>
    simp only [Option.map_some]
    cases h2 : connect a.tgtMany l.tgt y x with
    | none =>
      simp only [Option.map_none, List.foldl_cons, List.foldl_nil, applyUndo, applyCall, Env.get, excOut]
      cases h3 : disconnect s' x y <;> simp
    | some t' => simp

theorem unrelateOn_eq (a : AssocSpec) (l : ALinks) (x y : Inst) (fromI toI : Inst) :
    unrelateOn l x y = iSteps linkDefs a { inst1 := x, inst2 := y, fromI := fromI, toI := toI } unrelateProg.steps l := by
  unfold unrelateOn
  simp only [unrelateProg, iSteps, applyCall, Env.get]
  cases h1 : disconnect l.src x y with
  | none => simp [excOut]
  | some s' =>
    simp only [Option.map_some]
    cases h2 : disconnect l.tgt y x with
    | none => simp [excOut]
    | some t' => simp

theorem inDeleted_eq (s : State) (x : Inst) : inDeleted deleteBody s x = !decide (live s x) := by
  simp [inDeleted, deleteBody, marksDeleted]

theorem relate_eq (sch : Schema) (s : State) (i1 i2 : Inst) (rel phrase : String) :
    relate sch s i1 i2 rel phrase = iPair linkDefs findBody findElse deleteBody relateProg sch s i1 i2 rel phrase := by
  unfold relate iPair
  rw [findLink_eq]
  simp only [relateProg, Env.get]
  cases h : iFindFrom linkDefs findBody (s.kindOf i1) (s.kindOf i2) rel phrase 0 sch with
  | none => simp [findElse, excOut]
  | some r =>
    obtain ⟨i, sw⟩ := r
    by_cases hl : live s i1 ∧ live s i2
    · have h1 : inDeleted deleteBody s i1 = false := by rw [inDeleted_eq]; simp [hl.1]
      have h2 : inDeleted deleteBody s i2 = false := by rw [inDeleted_eq]; simp [hl.2]
      cases sw
      · simp only [Option.map_some, dirOf, Bool.false_eq_true, ↓reduceIte, orient, hl, and_self,
          List.find?_cons, List.find?_nil, List.any_cons, List.any_nil, Env.get, h1, h2, Bool.or_self]
        rw [relateOn_eq (specAt sch i) (s.links i) i1 i2 i1 i2]; rfl
      · simp only [Option.map_some, dirOf, ↓reduceIte, orient, hl, and_self,
          List.find?_cons, List.find?_nil, List.any_cons, List.any_nil, Env.get, h1, h2, Bool.or_self]
        rw [relateOn_eq (specAt sch i) (s.links i) i2 i1 i1 i2]; rfl
    · have hd : (inDeleted deleteBody s i1 || inDeleted deleteBody s i2) = true := by
        rw [inDeleted_eq, inDeleted_eq]
        by_cases h1 : live s i1
        · have h2 : ¬ live s i2 := fun h2 => hl ⟨h1, h2⟩
          simp [h2]
        · simp [h1]
      have hd' : (inDeleted deleteBody s i2 || inDeleted deleteBody s i1) = true := by rw [Bool.or_comm]; exact hd
      cases sw
      · simp only [Option.map_some, hl, ↓reduceIte, Bool.false_eq_true, List.find?_cons, List.any_cons, List.any_nil,
          Env.get, Bool.or_false, hd, excOut]
      · simp only [Option.map_some, hl, ↓reduceIte, List.find?_cons, List.any_cons, List.any_nil,
          Env.get, Bool.or_false, hd', excOut]

theorem unrelate_eq (sch : Schema) (s : State) (i1 i2 : Inst) (rel phrase : String) :
    unrelate sch s i1 i2 rel phrase = iPair linkDefs findBody findElse deleteBody unrelateProg sch s i1 i2 rel phrase := by
  unfold unrelate iPair
  rw [findLink_eq]
  simp only [unrelateProg, Env.get, List.find?_nil]
  cases h : iFindFrom linkDefs findBody (s.kindOf i1) (s.kindOf i2) rel phrase 0 sch with
  | none => simp [findElse, excOut]
  | some r =>
    obtain ⟨i, sw⟩ := r
    cases sw
    · simp only [Option.map_some, dirOf, Bool.false_eq_true, ↓reduceIte, orient]
      rw [unrelateOn_eq (specAt sch i) (s.links i) i1 i2 i1 i2]; rfl
    · simp only [Option.map_some, dirOf, ↓reduceIte, orient]
      rw [unrelateOn_eq (specAt sch i) (s.links i) i2 i1 i1 i2]; rfl

theorem unrelateAll_eq (sch : Schema) (x : Inst) (rel phrase : String) : ∀ (ys : List Inst) (s : State),
    unrelateAll sch x rel phrase ys s = iPartners (unrelate sch) .instance .other x rel phrase ys s
  | [], _ => rfl
  | y :: ys, s => by
    unfold unrelateAll iPartners
    have hx : dArg x y .instance = x := rfl
    have hy : dArg x y .other = y := rfl
    rw [hx, hy]
    by_cases hr : (unrelate sch s x y rel phrase).2 = .ok
    · simp only [hr, ↓reduceIte]
      exact unrelateAll_eq sch x rel phrase ys _
    · simp only [hr, ↓reduceIte]

theorem deleteLinks_eq (sch : Schema) (x : Inst) (skip : Bool) : ∀ (ls : List (Nat × Bool × String)) (s : State),
    deleteLinks sch x ls s = iLinkLoop (unrelate sch) sch skip .instance .other x ls s
  | [], _ => rfl
  | (i, isSrc, phrase) :: rest, s => by
    unfold deleteLinks iLinkLoop
    rw [unrelateAll_eq]
    by_cases hskip : (skip && (if isSrc then (s.links i).src x else (s.links i).tgt x).isEmpty) = true
    · rw [if_pos hskip]
      have hemp : (if isSrc then (s.links i).src x else (s.links i).tgt x) = [] := by
        simp only [Bool.and_eq_true, List.isEmpty_iff] at hskip; exact hskip.2
      rw [hemp]
      simp only [iPartners, ↓reduceIte]
      exact deleteLinks_eq sch x skip rest s
    · rw [if_neg hskip]
      by_cases hr : (iPartners (unrelate sch) .instance .other x (specAt sch i).rel phrase
          (if isSrc then (s.links i).src x else (s.links i).tgt x) s).2 = .ok
      · simp only [hr, ↓reduceIte]
        exact deleteLinks_eq sch x skip rest _
      · simp only [hr, ↓reduceIte]

theorem delete_eq (sch : Schema) (s : State) (x : Inst) :
    delete sch s x = iDelete linkDefs (iPair linkDefs findBody findElse deleteBody unrelateProg sch) sch x true deleteBody s := by
  have hun : iPair linkDefs findBody findElse deleteBody unrelateProg sch = unrelate sch := by
    funext s' a b r p; exact (unrelate_eq sch s' a b r p).symm
  rw [hun]
  unfold delete
  simp only [deleteBody, iDelete]
  by_cases h : x ∈ s.pool (s.kindOf x) ∧ x < s.count
  · simp only [h, and_self, ↓reduceIte]
    rw [deleteLinks_eq sch x true, linksOf, linksOfFrom_eq]
    by_cases hr : (iLinkLoop (unrelate sch) sch true .instance .other x (iLinksOfFrom linkDefs (s.kindOf x) 0 sch)
        { s with pool := upd s.pool (s.kindOf x) ((s.pool (s.kindOf x)).erase x) }).2 = .ok
    · simp only [hr, ↓reduceIte]
      exact Prod.ext rfl hr
    · simp only [hr, ↓reduceIte]
  · simp only [h, ↓reduceIte, excOut]

theorem new_eq (s : State) (k : Kind) (hasId : Bool) : new s k hasId = iNew newPhases s k hasId := by
  unfold new iNew
  simp only [newPhases, List.foldl_cons, List.foldl_nil, iNewPhase]

theorem keyPairs_eq (a : AssocSpec) : keyPairs a = iKeyPairs fgetZip a := rfl

theorem getAttr_readLayers_eq (sch : Schema) (at_ : Attrs) (s : State) : ∀ (fuel : Nat),
    (∀ x name, getAttr sch at_ s fuel x name = iGetAttr fgetLink fgetFallback sch at_ s fuel x name) ∧
    (∀ x layers, readLayers sch at_ s fuel x layers = iReadLayers fgetLink fgetFallback sch at_ s fuel x layers)
  | 0 => by
    constructor
    · intro x name; simp [getAttr, iGetAttr]
    · intro x layers; simp [readLayers, iReadLayers]
  | fuel + 1 => by
    obtain ⟨ih1, ih2⟩ := getAttr_readLayers_eq sch at_ s fuel
    simp only [fgetLink, fgetFallback] at ih1 ih2 ⊢
    constructor
    · intro x name
      unfold getAttr iGetAttr
      cases hl : (formalFrom (s.kindOf x) name 0 sch).reverse with
      | nil => rfl
      | cons p ps => simp only; exact ih2 x _
    · intro x layers
      cases layers with
      | nil => simp [readLayers, iReadLayers]
      | cons p rest =>
        obtain ⟨i, pk⟩ := p
        unfold readLayers iReadLayers
        simp only [evalB]
        cases ho : ((s.links i).tgt x).head? with
        | some o => simp [ih1]
        | none =>
          cases rest with
          | nil => simp
          | cons q qs => simp [ih2]

end Pyx.Shape
