import Proofs.ExtractScript

/-!
  C14 — shape of the extracted schema, frame lemmas of the schema edits.
-/

namespace Pyx.Extract

/-- the attribute is kept by `mk_class`: not a left-out derived attribute, and of a supported type -/
def Attr.kept (d : ClassDiagram) (drv : Bool) (a : Attr) : Bool := (drv || !a.isDerived) && (attrTy d a).isSome

theorem sattr_isSome (d : ClassDiagram) (drv : Bool) (a : Attr) : (sattr d drv a).isSome = a.kept d drv := by
  unfold sattr Attr.kept
  cases drv <;> cases a.isDerived <;> cases attrTy d a <;> rfl

theorem sattr_eq_some {d : ClassDiagram} {drv : Bool} {a : Attr} {s : SAttr} :
    sattr d drv a = some s ↔ (drv = true ∨ a.isDerived = false) ∧ s.name = a.name ∧ attrTy d a = some s.ty := by
  unfold sattr
  cases s with
  | mk n t =>
    cases drv <;> cases a.isDerived <;> cases attrTy d a <;> simp [eq_comm]

theorem classOf_attr_names (d : ClassDiagram) (drv : Bool) (c : Class) :
    (classOf d drv c).attrs.map (·.name) = (c.attrs.filter (Attr.kept d drv)).map (·.name) := by
  unfold classOf
  simp only
  induction c.attrs with
  | nil => rfl
  | cons a t ih =>
    simp only [List.filterMap_cons, List.filter_cons]
    have hk := sattr_isSome d drv a
    cases hs : sattr d drv a with
    | none =>
      rw [hs] at hk
      have : a.kept d drv = false := by simpa using hk.symm
      simp [this, ih]
    | some s =>
      rw [hs] at hk
      have : a.kept d drv = true := by simpa using hk.symm
      simp [this, ih, sattr_name hs]

theorem classOf_attr_mem {d : ClassDiagram} {drv : Bool} {c : Class} {s : SAttr} :
    s ∈ (classOf d drv c).attrs ↔
      ∃ a ∈ c.attrs, a.name = s.name ∧ (drv = true ∨ a.isDerived = false) ∧ attrTy d a = some s.ty := by
  unfold classOf
  simp only [List.mem_filterMap]
  constructor
  · rintro ⟨a, ha, hs⟩
    have := sattr_eq_some.mp hs
    exact ⟨a, ha, this.2.1.symm, this.1, this.2.2⟩
  · rintro ⟨a, ha, hn, hd, ht⟩
    exact ⟨a, ha, sattr_eq_some.mpr ⟨hd, hn.symm, ht⟩⟩

theorem classOf_ident_mem {drv : Bool} {d : ClassDiagram} {c : Class} {si : SIdent} :
    si ∈ (classOf d drv c).idents ↔
      ∃ i ∈ c.idents, si.num = i.num + 1 ∧ si.names = (i.attrs.filterMap c.findAttr).map (·.name) ∧
        (i.attrs.filterMap c.findAttr) ≠ [] ∧
        (drv = true ∨ ∀ a ∈ i.attrs.filterMap c.findAttr, a.isDerived = false) := by
  unfold classOf
  constructor
  · intro h
    obtain ⟨i, hi, hs⟩ := List.mem_filterMap.mp h
    refine ⟨i, hi, ?_⟩
    unfold identOf at hs
    generalize i.attrs.filterMap c.findAttr = as at hs ⊢
    simp only at hs
    split at hs
    · cases hs
    · rename_i hcond
      cases hs
      have hc1 : (!drv && as.any Attr.isDerived) = false := by
        cases h1 : (!drv && as.any Attr.isDerived) <;> simp_all
      have hc2 : as.isEmpty = false := by
        cases h2 : as.isEmpty <;> simp_all
      refine ⟨rfl, rfl, ?_, ?_⟩
      · intro he; subst he; cases hc2
      · cases drv
        · right
          intro a ha
          cases hda : a.isDerived with
          | false => rfl
          | true =>
            have : as.any Attr.isDerived = true := List.any_eq_true.mpr ⟨a, ha, hda⟩
            simp [this] at hc1
        · left; rfl
  · rintro ⟨i, hi, hnum, hnames, hne, hd⟩
    apply List.mem_filterMap.mpr
    refine ⟨i, hi, ?_⟩
    unfold identOf
    generalize i.attrs.filterMap c.findAttr = as at hnames hne hd ⊢
    simp only
    have hcond : ((!drv && as.any Attr.isDerived) || as.isEmpty) = false := by
      have h2 : as.isEmpty = false := by
        cases as with
        | nil => exact absurd rfl hne
        | cons _ _ => rfl
      rw [h2, Bool.or_false]
      rcases hd with hd | hd
      · simp [hd]
      · have : as.any Attr.isDerived = false := by
          apply Bool.eq_false_iff.mpr
          intro hany
          obtain ⟨a, ha, hda⟩ := List.any_eq_true.mp hany
          rw [hd a ha] at hda
          cases hda
        simp [this]
    rw [hcond]
    cases si
    simp_all

/-! ### frame lemmas: what a schema edit leaves alone -/

theorem frame_nop (s : Schema) : schemaEdit .nop s = s := rfl

/-- renaming touches names only: same classes, same attribute types in the same order, same
    identifier numbers; associations keep kinds, multiplicity, conditionality and phrases -/
theorem frame_rename (kl old new : String) (s : Schema) :
    (schemaEdit (.renameAttr kl old new) s).classes.map (·.kl) = s.classes.map (·.kl) ∧
    (schemaEdit (.renameAttr kl old new) s).classes.map (fun c => c.attrs.map (·.ty)) =
      s.classes.map (fun c => c.attrs.map (·.ty)) ∧
    (∀ c ∈ s.classes, c.kl ≠ kl → c ∈ (schemaEdit (.renameAttr kl old new) s).classes) ∧
    (schemaEdit (.renameAttr kl old new) s).groups.map
        (fun g => (g.rel, g.items.map (fun a => (a.src.kind, a.src.many, a.src.cond, a.src.phrase,
          a.tgt.kind, a.tgt.many, a.tgt.cond, a.tgt.phrase)))) =
      s.groups.map (fun g => (g.rel, g.items.map (fun a => (a.src.kind, a.src.many, a.src.cond, a.src.phrase,
          a.tgt.kind, a.tgt.many, a.tgt.cond, a.tgt.phrase)))) := by
  unfold schemaEdit
  refine ⟨?_, ?_, ?_, ?_⟩
  · simp only [List.map_map]
    apply List.map_congr_left
    intro c _
    simp only [Function.comp]
    split <;> rfl
  · simp only [List.map_map]
    apply List.map_congr_left
    intro c _
    simp only [Function.comp]
    split
    · simp [SClass.rename, List.map_map, Function.comp]
    · rfl
  · intro c hc hne
    apply List.mem_map.mpr
    refine ⟨c, hc, ?_⟩
    have : (c.kl == kl) = false := by simp [hne]
    simp [this]
  · simp only [List.map_map]
    apply List.map_congr_left
    intro g _
    simp only [Function.comp, List.map_map, Prod.mk.injEq, true_and]
    apply List.map_congr_left
    intro a _
    simp only [Function.comp, SEnd.renameIn]
    split <;> split <;> rfl

/-- retyping touches the type of the listed attributes only -/
theorem frame_retype (sites : List (String × String)) (ty : String) (s : Schema) :
    (schemaEdit (.retype sites ty) s).groups = s.groups ∧
    (schemaEdit (.retype sites ty) s).classes.map (fun c => (c.kl, c.attrs.map (·.name), c.idents)) =
      s.classes.map (fun c => (c.kl, c.attrs.map (·.name), c.idents)) ∧
    (∀ c ∈ (schemaEdit (.retype sites ty) s).classes, ∀ a ∈ c.attrs,
      (c.kl, a.name) ∉ sites → ∃ c' ∈ s.classes, c'.kl = c.kl ∧ a ∈ c'.attrs) := by
  unfold schemaEdit
  refine ⟨rfl, ?_, ?_⟩
  · simp only [List.map_map]
    apply List.map_congr_left
    intro c _
    simp only [Function.comp, SClass.retype, List.map_map, Prod.mk.injEq, true_and, and_true]
    apply List.map_congr_left
    intro a _
    simp only [Function.comp]
    split <;> rfl
  · intro c hc a ha hns
    simp only at hc
    obtain ⟨c', hc', rfl⟩ := List.mem_map.mp hc
    refine ⟨c', hc', rfl, ?_⟩
    have hkl : (SClass.retype sites ty c').kl = c'.kl := rfl
    rw [hkl] at hns
    simp only [SClass.retype] at ha
    obtain ⟨a', ha', rfl⟩ := List.mem_map.mp ha
    by_cases hin : sites.contains (c'.kl, a'.name) = true
    · simp only [hin, if_true] at hns
      exact absurd (by simpa using hin) hns
    · simp only [hin]
      exact ha'

/-- reordering touches the attribute order of one class only -/
theorem frame_reorder (kl : String) (names : List String) (s : Schema) :
    (schemaEdit (.reorder kl names) s).groups = s.groups ∧
    (schemaEdit (.reorder kl names) s).classes.map (fun c => (c.kl, c.idents)) =
      s.classes.map (fun c => (c.kl, c.idents)) ∧
    (∀ c ∈ s.classes, c.kl ≠ kl → c ∈ (schemaEdit (.reorder kl names) s).classes) ∧
    (∀ c ∈ (schemaEdit (.reorder kl names) s).classes, ∀ a ∈ c.attrs, ∃ c' ∈ s.classes, c'.kl = c.kl ∧ a ∈ c'.attrs) := by
  unfold schemaEdit mapSClass
  refine ⟨rfl, ?_, ?_, ?_⟩
  · simp only [List.map_map]
    apply List.map_congr_left
    intro c _
    simp only [Function.comp]
    split <;> rfl
  · intro c hc hne
    apply List.mem_map.mpr
    refine ⟨c, hc, ?_⟩
    have : (c.kl == kl) = false := by simp [hne]
    simp [this]
  · intro c hc a ha
    simp only at hc
    obtain ⟨c', hc', rfl⟩ := List.mem_map.mp hc
    refine ⟨c', hc', ?_, ?_⟩
    · split <;> rfl
    · split at ha
      · simp only [SClass.reorder] at ha
        obtain ⟨n, _, hn⟩ := List.mem_filterMap.mp ha
        exact List.mem_of_find?_eq_some hn
      · exact ha

/-- an edit of one end touches the associations of that relationship only, and there only the
    edited field: kinds and keys stay; `setMult` moreover keeps cond and phrase, etc. -/
theorem frame_setMult (rel : Nat) (sel : EndSel) (v : Bool) (s : Schema) :
    (schemaEdit (.setMult rel sel v) s).classes = s.classes ∧
    (∀ g ∈ s.groups, g.rel ≠ rel → g ∈ (schemaEdit (.setMult rel sel v) s).groups) ∧
    (schemaEdit (.setMult rel sel v) s).groups.map
        (fun g => (g.rel, g.items.map (fun a => (a.src.kind, a.src.keys, a.src.cond, a.src.phrase,
          a.tgt.kind, a.tgt.keys, a.tgt.cond, a.tgt.phrase)))) =
      s.groups.map (fun g => (g.rel, g.items.map (fun a => (a.src.kind, a.src.keys, a.src.cond, a.src.phrase,
          a.tgt.kind, a.tgt.keys, a.tgt.cond, a.tgt.phrase)))) := by
  unfold schemaEdit mapGroup
  refine ⟨rfl, ?_, ?_⟩
  · intro g hg hne
    apply List.mem_map.mpr
    refine ⟨g, hg, ?_⟩
    have : (g.rel == rel) = false := by simp [hne]
    simp [this]
  · simp only [List.map_map]
    apply List.map_congr_left
    intro g _
    simp only [Function.comp]
    split
    · simp only [Prod.mk.injEq, true_and]
      generalize g.items = l
      unfold itemsSetMult
      split
      · cases sel <;> simp [SAssoc.mapSrc, SAssoc.mapTgt]
      · cases sel <;> simp [SAssoc.mapSrc, SAssoc.mapTgt]
      · rfl
    · rfl

theorem frame_setCond (rel : Nat) (sel : EndSel) (v : Bool) (s : Schema) :
    (schemaEdit (.setCond rel sel v) s).classes = s.classes ∧
    (∀ g ∈ s.groups, g.rel ≠ rel → g ∈ (schemaEdit (.setCond rel sel v) s).groups) ∧
    (schemaEdit (.setCond rel sel v) s).groups.map
        (fun g => (g.rel, g.items.map (fun a => (a.src.kind, a.src.keys, a.src.many, a.src.phrase,
          a.tgt.kind, a.tgt.keys, a.tgt.many, a.tgt.phrase)))) =
      s.groups.map (fun g => (g.rel, g.items.map (fun a => (a.src.kind, a.src.keys, a.src.many, a.src.phrase,
          a.tgt.kind, a.tgt.keys, a.tgt.many, a.tgt.phrase)))) := by
  unfold schemaEdit mapGroup
  refine ⟨rfl, ?_, ?_⟩
  · intro g hg hne
    apply List.mem_map.mpr
    refine ⟨g, hg, ?_⟩
    have : (g.rel == rel) = false := by simp [hne]
    simp [this]
  · simp only [List.map_map]
    apply List.map_congr_left
    intro g _
    simp only [Function.comp]
    split
    · simp only [Prod.mk.injEq, true_and]
      generalize g.items = l
      unfold itemsSetCond
      split
      · cases sel <;> simp [SAssoc.mapSrc, SAssoc.mapTgt]
      · cases sel <;> simp [SAssoc.mapSrc, SAssoc.mapTgt]
      · rfl
    · rfl

theorem frame_setPhrase (rel : Nat) (sel : EndSel) (v : String) (s : Schema) :
    (schemaEdit (.setPhrase rel sel v) s).classes = s.classes ∧
    (∀ g ∈ s.groups, g.rel ≠ rel → g ∈ (schemaEdit (.setPhrase rel sel v) s).groups) ∧
    (schemaEdit (.setPhrase rel sel v) s).groups.map
        (fun g => (g.rel, g.items.map (fun a => (a.src.kind, a.src.keys, a.src.many, a.src.cond,
          a.tgt.kind, a.tgt.keys, a.tgt.many, a.tgt.cond)))) =
      s.groups.map (fun g => (g.rel, g.items.map (fun a => (a.src.kind, a.src.keys, a.src.many, a.src.cond,
          a.tgt.kind, a.tgt.keys, a.tgt.many, a.tgt.cond)))) := by
  unfold schemaEdit mapGroup
  refine ⟨rfl, ?_, ?_⟩
  · intro g hg hne
    apply List.mem_map.mpr
    refine ⟨g, hg, ?_⟩
    have : (g.rel == rel) = false := by simp [hne]
    simp [this]
  · simp only [List.map_map]
    apply List.map_congr_left
    intro g _
    simp only [Function.comp]
    split
    · simp only [Prod.mk.injEq, true_and]
      generalize g.items = l
      unfold itemsSetPhrase
      split
      · split
        · cases sel <;> simp [SAssoc.mapSrc, SAssoc.mapTgt]
        · rfl
      · split
        · cases sel <;> simp [SAssoc.mapSrc, SAssoc.mapTgt]
        · rfl
      · rfl
    · rfl

/-- moving a class out / in touches that class only -/
theorem frame_dropClass (kl : String) (s : Schema) :
    (schemaEdit (.dropClass kl) s).groups = s.groups ∧
    (schemaEdit (.dropClass kl) s).classes = s.classes.filter (fun c => c.kl != kl) := ⟨rfl, rfl⟩

theorem frame_insertClass (pos : Nat) (c : SClass) (s : Schema) :
    (schemaEdit (.insertClass pos c) s).groups = s.groups ∧
    (schemaEdit (.insertClass pos c) s).classes.Perm (c :: s.classes) := by
  refine ⟨rfl, ?_⟩
  unfold schemaEdit insertAt
  simp only
  have h1 : (List.take pos s.classes ++ c :: List.drop pos s.classes).Perm
      (c :: (List.take pos s.classes ++ List.drop pos s.classes)) := List.perm_middle
  rw [List.take_append_drop] at h1
  exact h1

theorem frame_dropGroup (rel : Nat) (s : Schema) :
    (schemaEdit (.dropGroup rel) s).classes = s.classes ∧
    (schemaEdit (.dropGroup rel) s).groups = s.groups.filter (fun g => g.rel != rel) := ⟨rfl, rfl⟩

theorem frame_insertGroup (pos : Nat) (g : SGroup) (s : Schema) :
    (schemaEdit (.insertGroup pos g) s).classes = s.classes ∧
    (schemaEdit (.insertGroup pos g) s).groups.Perm (g :: s.groups) := by
  refine ⟨rfl, ?_⟩
  unfold schemaEdit insertAt
  simp only
  have h1 : (List.take pos s.groups ++ g :: List.drop pos s.groups).Perm
      (g :: (List.take pos s.groups ++ List.drop pos s.groups)) := List.perm_middle
  rw [List.take_append_drop] at h1
  exact h1

end Pyx.Extract
