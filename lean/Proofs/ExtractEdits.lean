import Proofs.Extract

/-!
  C14 — every edit of the class diagram commutes with extraction:
  `extract (applyEdit e d) = schemaEdit (resolve d e) (extract d)`.
-/

namespace Pyx.Extract

/-! ### the type of an attribute depends on the diagram only through `attrKindAt` and the data types -/

/-- kind of the attribute (class c, attribute b), the only thing `get_attribute_type` reads over R113 -/
def attrKindAt (d : ClassDiagram) (c b : Nat) : Option AttrKind :=
  ((findClass d c).bind (fun k => k.findAttr b)).map (·.kind)

theorem attrDt_eq (d : ClassDiagram) (a : Attr) :
    attrDt d a =
      match a.kind with
      | .base dt => some dt
      | .derived dt => some dt
      | .ref c b =>
        match attrKindAt d c b with
        | some (.base dt) => some dt
        | some (.derived dt) => some dt
        | _ => none := by
  unfold attrDt attrKindAt
  cases hk : a.kind with
  | base dt => rfl
  | derived dt => rfl
  | ref c b =>
    simp only
    cases hl : (findClass d c).bind (fun k => k.findAttr b) with
    | none => rfl
    | some ba => cases hb : ba.kind <;> simp [hb]

theorem attrDt_congr {d d' : ClassDiagram} {a a' : Attr} (hk : a'.kind = a.kind)
    (h : ∀ c b, attrKindAt d' c b = attrKindAt d c b) : attrDt d' a' = attrDt d a := by
  rw [attrDt_eq, attrDt_eq, hk]
  cases a.kind with
  | base dt => rfl
  | derived dt => rfl
  | ref c b => simp only [h c b]

theorem attrTy_congr {d d' : ClassDiagram} {a a' : Attr} (hk : a'.kind = a.kind) (hd : d'.dts = d.dts)
    (h : ∀ c b, attrKindAt d' c b = attrKindAt d c b) : attrTy d' a' = attrTy d a := by
  unfold attrTy; rw [attrDt_congr hk h, hd]

theorem attrKindAt_map {d : ClassDiagram} {g : Class → Class} (hg : KeepsId g)
    (hk : ∀ k ∈ d.classes, ∀ b, ((g k).findAttr b).map (·.kind) = (k.findAttr b).map (·.kind)) (c b : Nat) :
    attrKindAt { d with classes := d.classes.map g } c b = attrKindAt d c b := by
  unfold attrKindAt
  rw [findClass_map hg]
  cases hf : findClass d c with
  | none => rfl
  | some k => simpa using hk k (findClass_mem hf) b

theorem isDerived_congr {a a' : Attr} (hk : a'.kind = a.kind) : a'.isDerived = a.isDerived := by
  unfold Attr.isDerived; rw [hk]

end Pyx.Extract

namespace Pyx.Extract

theorem sattr_of_kind {d d' : ClassDiagram} {drv : Bool} {x x' : Attr} (hk : x'.kind = x.kind)
    (ht : attrTy d' x' = attrTy d x) :
    sattr d' drv x' = (sattr d drv x).map (fun s => { s with name := x'.name }) := by
  unfold sattr
  rw [isDerived_congr hk, ht]
  by_cases h : (!drv && x.isDerived) = true
  · simp [h]
  · simp only [h]
    cases attrTy d x <;> simp

theorem mapClass_self {d : ClassDiagram} {c : Nat} {f : Class → Class}
    (h : ∀ k ∈ d.classes, k.id = c → f k = k) : mapClass d c f = d := by
  unfold mapClass
  have : d.classes.map (fun k => if k.id == c then f k else k) = d.classes := by
    conv => rhs; rw [← List.map_id d.classes]
    apply List.map_congr_left
    intro k hk
    by_cases he : k.id = c
    · simp [he, h k hk he]
    · simp [he]
  rw [this]

theorem mapRel_self {d : ClassDiagram} {r : Nat} {f : Rel → Rel}
    (h : ∀ k ∈ d.rels, k.id = r → f k = k) : mapRel d r f = d := by
  unfold mapRel
  have : d.rels.map (fun k => if k.id == r then f k else k) = d.rels := by
    conv => rhs; rw [← List.map_id d.rels]
    apply List.map_congr_left
    intro k hk
    by_cases he : k.id = r
    · simp [he, h k hk he]
    · simp [he]
  rw [this]

theorem findClass_none_ne {d : ClassDiagram} {c : Nat} (h : findClass d c = none) :
    ∀ k ∈ d.classes, k.id ≠ c := by
  intro k hk he
  have := List.find?_eq_none.mp h k hk
  simp [he] at this

theorem findAttr_none_ne {k : Class} {a : Nat} (h : k.findAttr a = none) : ∀ x ∈ k.attrs, x.id ≠ a := by
  intro x hx he
  have := List.find?_eq_none.mp h x hx
  simp [he] at this

theorem findRel_none_ne {d : ClassDiagram} {r : Nat} (h : findRel d r = none) :
    ∀ k ∈ d.rels, k.id ≠ r := by
  intro k hk he
  have := List.find?_eq_none.mp h k hk
  simp [he] at this

theorem mapAttr_self {k : Class} {a : Nat} {f : Attr → Attr} (h : ∀ x ∈ k.attrs, x.id ≠ a) :
    k.mapAttr a f = k := by
  unfold Class.mapAttr
  have : k.attrs.map (fun x => if x.id == a then f x else x) = k.attrs := by
    conv => rhs; rw [← List.map_id k.attrs]
    apply List.map_congr_left
    intro x hx
    simp [h x hx]
  rw [this]

/-! ### rename -/

section rename
variable {d : ClassDiagram} (wf : WF d) {c a : Nat} {new : String} {kc : Class} {xa : Attr}
  (hc : findClass d c = some kc) (ha : kc.findAttr a = some xa)

/-- the class update a rename makes -/
def rnG (c a : Nat) (new : String) (k : Class) : Class :=
  if k.id == c then k.mapAttr a (fun x => { x with name := new }) else k

theorem rnG_keepsId : KeepsId (rnG c a new) := by
  intro k; unfold rnG Class.mapAttr; by_cases h : (k.id == c) = true <;> simp [h]

include wf hc in
theorem id_eq_iff_kl_eq {k : Class} (hk : k ∈ d.classes) : (k.id == c) = (k.kl == kc.kl) := by
  have hkc := findClass_mem hc
  have hid := findClass_id hc
  by_cases h : k.id = c
  · have : k = kc := wf.id_inj hk hkc (by rw [h, hid])
    subst this
    simp [hid]
  · have : k.kl ≠ kc.kl := by
      intro he; exact h (by rw [wf.kl_inj hk hkc he, hid])
    have h1 : (k.id == c) = false := by simp [h]
    have h2 : (k.kl == kc.kl) = false := by simp [this]
    rw [h1, h2]

include wf hc ha in
theorem attr_id_eq_iff_name_eq {x : Attr} (hx : x ∈ kc.attrs) : (x.id == a) = (x.name == xa.name) := by
  have hkc := findClass_mem hc
  have hxa := findAttr_mem ha
  have hid := findAttr_id ha
  by_cases h : x.id = a
  · have : x = xa := eq_of_key_eq (fun (y : Attr) => y.id) (wf.attrIds kc hkc) hx hxa (by rw [h, hid])
    subst this
    simp [hid]
  · have : x.name ≠ xa.name := by
      intro he
      have : x = xa := eq_of_key_eq (fun (y : Attr) => y.name) (wf.attrNames kc hkc) hx hxa he
      exact h (by rw [this, hid])
    have h1 : (x.id == a) = false := by simp [h]
    have h2 : (x.name == xa.name) = false := by simp [this]
    rw [h1, h2]

theorem rnG_findAttr (k : Class) (b : Nat) :
    (rnG c a new k).findAttr b =
      (k.findAttr b).map (fun x => if k.id == c && x.id == a then { x with name := new } else x) := by
  unfold rnG
  by_cases h : (k.id == c) = true
  · simp only [h, if_true, Bool.true_and]
    unfold Class.mapAttr
    rw [findAttr_map (by intro x; by_cases hx : (x.id == a) = true <;> simp [hx])]
  · simp only [h, Bool.false_and]
    simp

theorem rn_attrKindAt (c' b : Nat) :
    attrKindAt { d with classes := d.classes.map (rnG c a new) } c' b = attrKindAt d c' b := by
  apply attrKindAt_map rnG_keepsId
  intro k _ b
  rw [rnG_findAttr]
  cases k.findAttr b with
  | none => rfl
  | some x =>
    simp only [Option.map_some, Option.some.injEq]
    split <;> rfl

end rename
end Pyx.Extract

namespace Pyx.Extract

theorem sattr_name {d : ClassDiagram} {drv : Bool} {x : Attr} {s : SAttr} (h : sattr d drv x = some s) :
    s.name = x.name := by
  unfold sattr at h
  by_cases hd : (!drv && x.isDerived) = true
  · simp [hd] at h
  · simp only [hd] at h
    cases ht : attrTy d x with
    | none => simp [ht] at h
    | some ty => simp [ht] at h; rw [← h]

theorem sattr_same {d d' : ClassDiagram} {drv : Bool} {x : Attr}
    (ht : attrTy d' x = attrTy d x) : sattr d' drv x = sattr d drv x := by
  unfold sattr; rw [ht]

section rename
variable {d : ClassDiagram} (wf : WF d) {c a : Nat} {new : String} {kc : Class} {xa : Attr}
  (hc : findClass d c = some kc) (ha : kc.findAttr a = some xa)

/-- the attribute update a rename makes -/
def rnH (a : Nat) (new : String) (x : Attr) : Attr := if x.id == a then { x with name := new } else x

theorem rnH_kind (x : Attr) : (rnH a new x).kind = x.kind := by
  unfold rnH; split <;> rfl

theorem rnH_id (x : Attr) : (rnH a new x).id = x.id := by
  unfold rnH; split <;> rfl

include wf hc ha in
theorem rnH_name {x : Attr} (hx : x ∈ kc.attrs) : (rnH a new x).name = renameKey xa.name new x.name := by
  unfold rnH renameKey
  rw [attr_id_eq_iff_name_eq wf hc ha hx]
  split <;> rfl

theorem rn_attrTy (x x' : Attr) (hk : x'.kind = x.kind) :
    attrTy { d with classes := d.classes.map (rnG c a new) } x' = attrTy d x :=
  attrTy_congr hk rfl (fun c' b => rn_attrKindAt c' b)

include wf hc ha in
theorem rn_sattr {drv : Bool} {x : Attr} (hx : x ∈ kc.attrs) :
    sattr { d with classes := d.classes.map (rnG c a new) } drv (rnH a new x) =
      (sattr d drv x).map (fun s => { s with name := renameKey xa.name new s.name }) := by
  rw [sattr_of_kind (d := d) (x := x) (rnH_kind x) (rn_attrTy x _ (rnH_kind x))]
  cases hs : sattr d drv x with
  | none => rfl
  | some s =>
    simp only [Option.map_some, Option.some.injEq]
    rw [rnH_name wf hc ha hx, sattr_name hs]

include wf hc ha in
theorem rn_ident {drv : Bool} (i : Ident) :
    identOf drv { kc with attrs := kc.attrs.map (rnH a new) } i =
      (identOf drv kc i).map (fun si => { si with names := si.names.map (renameKey xa.name new) }) := by
  unfold identOf
  have has : i.attrs.filterMap ({ kc with attrs := kc.attrs.map (rnH a new) } : Class).findAttr =
      (i.attrs.filterMap kc.findAttr).map (rnH a new) := by
    rw [List.map_filterMap]
    apply filterMap_congr'
    intro j _
    exact findAttr_map rnH_id j
  simp only [has]
  have hany : ((i.attrs.filterMap kc.findAttr).map (rnH a new)).any Attr.isDerived =
      (i.attrs.filterMap kc.findAttr).any Attr.isDerived := by
    rw [List.any_map]
    congr 1
    funext x
    exact isDerived_congr (rnH_kind x)
  have hemp : ((i.attrs.filterMap kc.findAttr).map (rnH a new)).isEmpty = (i.attrs.filterMap kc.findAttr).isEmpty := by
    simp
  rw [hany, hemp]
  split
  · rfl
  · simp only [Option.map_some, Option.some.injEq, SIdent.mk.injEq, true_and, List.map_map]
    apply List.map_congr_left
    intro x hx
    have hxm : x ∈ kc.attrs := by
      obtain ⟨j, _, hj⟩ := List.mem_filterMap.mp hx
      exact findAttr_mem hj
    simp only [Function.comp]
    exact rnH_name wf hc ha hxm

include wf hc ha in
theorem rn_classOf {drv : Bool} {k : Class} (hk : k ∈ d.classes) :
    classOf { d with classes := d.classes.map (rnG c a new) } drv (rnG c a new k) =
      (fun (s : SClass) => if s.kl == kc.kl then s.rename xa.name new else s) (classOf d drv k) := by
  have hkl : (classOf d drv k).kl = k.kl := rfl
  simp only [hkl]
  rw [← id_eq_iff_kl_eq wf hc hk]
  by_cases h : k.id = c
  · have hkk : k = kc := wf.id_inj hk (findClass_mem hc) (by rw [h, findClass_id hc])
    subst hkk
    have hg : rnG c a new k = { k with attrs := k.attrs.map (rnH a new) } := by
      unfold rnG Class.mapAttr rnH; simp [h]
    rw [hg]
    simp only [h, beq_self_eq_true, if_true]
    unfold classOf SClass.rename
    simp only [SClass.mk.injEq, true_and]
    constructor
    · rw [List.filterMap_map, List.map_filterMap]
      apply filterMap_congr'
      intro x hx
      exact rn_sattr wf hc ha hx
    · rw [List.map_filterMap]
      apply filterMap_congr'
      intro i _
      exact rn_ident wf hc ha i
  · have hg : rnG c a new k = k := by unfold rnG; simp [h]
    rw [hg]
    have : (k.id == c) = false := by simp [h]
    simp only [this]
    unfold classOf
    simp only [Bool.false_eq_true, if_false, SClass.mk.injEq, true_and, and_true]
    apply filterMap_congr'
    intro x _
    exact sattr_same (rn_attrTy x x rfl)

end rename
end Pyx.Extract

namespace Pyx.Extract

/-! ### associations under an update of the classes -/

/-- one side of `define_association` as `groupOf` builds it -/
def mkEnd (k : Class) (ids : List Nat) (many cond : Bool) (phrase : String) : SEnd :=
  { kind := k.kl, keys := keyNames k ids, many := many, cond := cond, phrase := phrase }

def SGroup.mapEnds (T : SEnd → SEnd) (g : SGroup) : SGroup :=
  { g with items := g.items.map (fun a => { src := T a.src, tgt := T a.tgt }) }

theorem groupOf_map {d : ClassDiagram} {g : Class → Class} (hg : KeepsId g) (T : SEnd → SEnd)
    (hT : ∀ k ∈ d.classes, ∀ ids m cd ph, mkEnd (g k) ids m cd ph = T (mkEnd k ids m cd ph)) (r : Rel) :
    groupOf { d with classes := d.classes.map g } r = (groupOf d r).map (SGroup.mapEnds T) := by
  unfold groupOf
  cases hk : r.kind with
  | simple form part refs =>
    simp only [findClass_map hg]
    cases hf : findClass d form.cls with
    | none => simp
    | some fc =>
      cases hp : findClass d part.cls with
      | none => simp
      | some pc =>
        have h1 := hT fc (findClass_mem hf)
        have h2 := hT pc (findClass_mem hp)
        simp only [mkEnd] at h1 h2
        simp [SGroup.mapEnds, h1, h2]
  | linked one oth link r1 r2 =>
    simp only [findClass_map hg]
    cases hl : findClass d link with
    | none => simp
    | some lc =>
      cases ho : findClass d one.cls with
      | none => simp
      | some oc =>
        cases ht : findClass d oth.cls with
        | none => simp
        | some tc =>
          have h1 := hT lc (findClass_mem hl)
          have h2 := hT oc (findClass_mem ho)
          have h3 := hT tc (findClass_mem ht)
          simp only [mkEnd] at h1 h2 h3
          simp [SGroup.mapEnds, h1, h2, h3]
  | subsup sup subs =>
    simp only [findClass_map hg]
    cases hs : findClass d sup with
    | none => simp
    | some pc =>
      have h1 := hT pc (findClass_mem hs)
      simp only [mkEnd] at h1
      simp only [Option.map_some, SGroup.mapEnds, Option.some.injEq, SGroup.mk.injEq, true_and]
      rw [List.map_filterMap]
      apply filterMap_congr'
      intro s _
      cases hb : findClass d s.1 with
      | none => simp
      | some sc =>
        have h2 := hT sc (findClass_mem hb)
        simp only [mkEnd] at h2
        simp [h1, h2]
  | derived => simp [SGroup.mapEnds]

end Pyx.Extract

namespace Pyx.Extract

section rename
variable {d : ClassDiagram} (wf : WF d) {c a : Nat} {new : String} {kc : Class} {xa : Attr}
  (hc : findClass d c = some kc) (ha : kc.findAttr a = some xa)

include wf hc ha in
theorem rn_mkEnd {k : Class} (hk : k ∈ d.classes) (ids : List Nat) (m cd : Bool) (ph : String) :
    mkEnd (rnG c a new k) ids m cd ph = (mkEnd k ids m cd ph).renameIn kc.kl xa.name new := by
  unfold SEnd.renameIn mkEnd
  simp only
  rw [← id_eq_iff_kl_eq wf hc hk]
  have hkl : (rnG c a new k).kl = k.kl := by unfold rnG Class.mapAttr; split <;> rfl
  rw [hkl]
  by_cases h : k.id = c
  · have hkk : k = kc := wf.id_inj hk (findClass_mem hc) (by rw [h, findClass_id hc])
    subst hkk
    simp only [h, beq_self_eq_true, if_true, SEnd.mk.injEq, true_and, and_true]
    unfold keyNames
    rw [List.map_filterMap]
    apply filterMap_congr'
    intro i _
    rw [rnG_findAttr]
    cases hf : k.findAttr i with
    | none => rfl
    | some x =>
      simp only [Option.map_some, Option.some.injEq, h, beq_self_eq_true, Bool.true_and]
      exact rnH_name wf hc ha (findAttr_mem hf)
  · have hg : rnG c a new k = k := by unfold rnG; simp [h]
    have : (k.id == c) = false := by simp [h]
    rw [hg, this]
    simp

include wf in
theorem rename_commutes (c a : Nat) (new : String) (comp : Option Nat) (drv : Bool) :
    extract (applyEdit (.renameAttr c a new) d) comp drv =
      schemaEdit (resolve d comp drv (.renameAttr c a new)) (extract d comp drv) := by
  simp only [resolve]
  cases hc : findClass d c with
  | none =>
    have : applyEdit (.renameAttr c a new) d = d := by
      unfold applyEdit
      exact mapClass_self (fun k hk he => absurd he (findClass_none_ne hc k hk))
    rw [this]; rfl
  | some kc =>
    dsimp only
    cases ha : kc.findAttr a with
    | none =>
      have : applyEdit (.renameAttr c a new) d = d := by
        unfold applyEdit
        apply mapClass_self
        intro k hk he
        have hkk : k = kc := wf.id_inj hk (findClass_mem hc) (by rw [he, findClass_id hc])
        subst hkk
        exact mapAttr_self (findAttr_none_ne ha)
      rw [this]; rfl
    | some xa =>
      have happ : applyEdit (.renameAttr c a new) d = { d with classes := d.classes.map (rnG c a new) } := rfl
      rw [happ]
      dsimp only
      unfold extract schemaEdit
      simp only [Schema.mk.injEq]
      constructor
      · rw [List.filter_map, List.map_map, List.map_map]
        have hpar : ((fun (c_1 : Class) => inScope d.containers d.pkgrefs comp c_1.parent) ∘ rnG c a new) =
            (fun (c_1 : Class) => inScope d.containers d.pkgrefs comp c_1.parent) := by
          funext k; simp only [Function.comp]; unfold rnG Class.mapAttr; split <;> rfl
        rw [hpar]
        apply List.map_congr_left
        intro k hk
        exact rn_classOf wf hc ha (List.mem_filter.mp hk).1
      · have hgr : ∀ r, groupOf { d with classes := d.classes.map (rnG c a new) } r =
            (groupOf d r).map (SGroup.mapEnds (fun e => e.renameIn kc.kl xa.name new)) :=
          groupOf_map rnG_keepsId _ (fun k hk ids m cd ph => rn_mkEnd wf hc ha hk ids m cd ph)
        rw [funext hgr, List.map_filterMap]
        rfl

end rename
end Pyx.Extract

namespace Pyx.Extract

/-! ### updates that leave names, kinds and key letters alone -/

theorem SGroup.mapEnds_id (g : SGroup) : SGroup.mapEnds (fun e => e) g = g := by
  unfold SGroup.mapEnds
  cases g with
  | mk rel items =>
    simp only [SGroup.mk.injEq, true_and]
    conv => rhs; rw [← List.map_id items]
    apply List.map_congr_left
    intro a _
    rfl

theorem groupOf_map_same {d : ClassDiagram} {g : Class → Class} (hg : KeepsId g)
    (hT : ∀ k ∈ d.classes, ∀ ids m cd ph, mkEnd (g k) ids m cd ph = mkEnd k ids m cd ph) (r : Rel) :
    groupOf { d with classes := d.classes.map g } r = groupOf d r := by
  rw [groupOf_map hg (fun e => e) hT]
  cases groupOf d r with
  | none => rfl
  | some g => simp [SGroup.mapEnds_id]

theorem mkEnd_congr {k k' : Class} (hkl : k'.kl = k.kl) (hf : ∀ i, (k'.findAttr i).map (·.name) = (k.findAttr i).map (·.name))
    (ids : List Nat) (m cd : Bool) (ph : String) : mkEnd k' ids m cd ph = mkEnd k ids m cd ph := by
  unfold mkEnd keyNames
  simp only [hkl, hf]

theorem classOf_congr {d d' : ClassDiagram} {drv : Bool} {k k' : Class} (hkl : k'.kl = k.kl)
    (hat : k'.attrs = k.attrs) (hid : k'.idents = k.idents) (ht : ∀ x, attrTy d' x = attrTy d x) :
    classOf d' drv k' = classOf d drv k := by
  unfold classOf
  have hfa : k'.findAttr = k.findAttr := by funext i; unfold Class.findAttr; rw [hat]
  have hio : identOf drv k' = identOf drv k := by funext i; unfold identOf; rw [hfa]
  rw [hkl, hat, hid, hio]
  simp only [SClass.mk.injEq, true_and, and_true]
  apply filterMap_congr'
  intro x _
  exact sattr_same (ht x)

theorem takeWhile_split {α : Type} (key : α → Nat) (k : Nat) (l1 l2 : List α) (x : α)
    (h1 : ∀ y ∈ l1, key y ≠ k) (hx : key x = k) :
    (l1 ++ x :: l2).takeWhile (fun y => key y != k) = l1 := by
  induction l1 with
  | nil => simp [hx]
  | cons a t ih =>
    have ha : key a ≠ k := h1 a (by simp)
    simp only [List.cons_append, List.takeWhile_cons]
    have : (key a != k) = true := by simp [ha]
    rw [this]
    simp only [if_true, List.cons.injEq, true_and]
    exact ih (fun y hy => h1 y (by simp [hy]))

theorem insertAt_length {α : Type} (x : α) (l1 l2 : List α) : insertAt l1.length x (l1 ++ l2) = l1 ++ x :: l2 := by
  unfold insertAt
  simp

/-! ### move a class -/

section moveClass
variable {d : ClassDiagram} (wf : WF d) {c : Nat} {p : Parent}

def mvG (c : Nat) (p : Parent) (k : Class) : Class := if k.id == c then { k with parent := p } else k

theorem mvG_keepsId : KeepsId (mvG c p) := by
  intro k; unfold mvG; split <;> rfl

theorem mvG_kl (k : Class) : (mvG c p k).kl = k.kl := by unfold mvG; split <;> rfl
theorem mvG_attrs (k : Class) : (mvG c p k).attrs = k.attrs := by unfold mvG; split <;> rfl
theorem mvG_idents (k : Class) : (mvG c p k).idents = k.idents := by unfold mvG; split <;> rfl
theorem mvG_findAttr (k : Class) (i : Nat) : (mvG c p k).findAttr i = k.findAttr i := by
  unfold Class.findAttr; rw [mvG_attrs]

theorem mv_attrTy (x : Attr) :
    attrTy { d with classes := d.classes.map (mvG c p) } x = attrTy d x :=
  attrTy_congr rfl rfl (attrKindAt_map mvG_keepsId (fun k _ b => by rw [mvG_findAttr]))

theorem mv_classOf {drv : Bool} (k : Class) :
    classOf { d with classes := d.classes.map (mvG c p) } drv (mvG c p k) = classOf d drv k :=
  classOf_congr (mvG_kl k) (mvG_attrs k) (mvG_idents k) mv_attrTy

theorem mv_groupOf (r : Rel) :
    groupOf { d with classes := d.classes.map (mvG c p) } r = groupOf d r :=
  groupOf_map_same mvG_keepsId
    (fun k _ ids m cd ph => mkEnd_congr (mvG_kl k) (fun i => by rw [mvG_findAttr]) ids m cd ph) r

include wf in
theorem moveClass_commutes (c : Nat) (p : Parent) (comp : Option Nat) (drv : Bool) :
    extract (applyEdit (.moveClass c p) d) comp drv =
      schemaEdit (resolve d comp drv (.moveClass c p)) (extract d comp drv) := by
  simp only [resolve]
  cases hc : findClass d c with
  | none =>
    have : applyEdit (.moveClass c p) d = d := by
      unfold applyEdit
      exact mapClass_self (fun k hk he => absurd he (findClass_none_ne hc k hk))
    rw [this]; rfl
  | some kc =>
    dsimp only
    have happ : applyEdit (.moveClass c p) d = { d with classes := d.classes.map (mvG c p) } := rfl
    rw [happ]
    obtain ⟨l1, l2, hl, hkc, h1, h2⟩ := split_at_key (fun (k : Class) => k.id) wf.clsIds hc
    -- the groups do not change
    have hgroups : (extract { d with classes := d.classes.map (mvG c p) } comp drv).groups =
        (extract d comp drv).groups := by
      unfold extract
      simp only
      rw [funext (mv_groupOf (d := d) (c := c) (p := p))]
    -- the classes, with the scope predicate q that differs from the old one at kc only
    have hclasses : (extract { d with classes := d.classes.map (mvG c p) } comp drv).classes =
        ((l1.filter (fun k => inScope d.containers d.pkgrefs comp k.parent)).map (classOf d drv)) ++
        (if inScope d.containers d.pkgrefs comp p then [classOf d drv kc] else []) ++
        ((l2.filter (fun k => inScope d.containers d.pkgrefs comp k.parent)).map (classOf d drv)) := by
      unfold extract
      simp only
      rw [List.filter_map, List.map_map]
      have : (classOf { d with classes := d.classes.map (mvG c p) } drv ∘ mvG c p) = classOf d drv := by
        funext k; exact mv_classOf k
      rw [this, hl]
      simp only [List.filter_append, List.filter_cons, List.map_append]
      have e1 : l1.filter ((fun (k : Class) => inScope d.containers d.pkgrefs comp k.parent) ∘ mvG c p) =
          l1.filter (fun k => inScope d.containers d.pkgrefs comp k.parent) := by
        apply filter_congr'
        intro k hk
        have : (k.id == c) = false := by simp [h1 k hk]
        simp [mvG, this]
      have e2 : l2.filter ((fun (k : Class) => inScope d.containers d.pkgrefs comp k.parent) ∘ mvG c p) =
          l2.filter (fun k => inScope d.containers d.pkgrefs comp k.parent) := by
        apply filter_congr'
        intro k hk
        have : (k.id == c) = false := by simp [h2 k hk]
        simp [mvG, this]
      have e3 : ((fun (k : Class) => inScope d.containers d.pkgrefs comp k.parent) ∘ mvG c p) kc =
          inScope d.containers d.pkgrefs comp p := by
        simp [mvG, hkc]
      rw [e1, e2, e3]
      split <;> simp
    have hold : (extract d comp drv).classes =
        ((l1.filter (fun k => inScope d.containers d.pkgrefs comp k.parent)).map (classOf d drv)) ++
        (if inScope d.containers d.pkgrefs comp kc.parent then [classOf d drv kc] else []) ++
        ((l2.filter (fun k => inScope d.containers d.pkgrefs comp k.parent)).map (classOf d drv)) := by
      unfold extract
      simp only
      conv => lhs; rw [hl]
      simp only [List.filter_append, List.filter_cons, List.map_append]
      split <;> simp
    have hkl1 : ∀ k ∈ l1, k.kl ≠ kc.kl := by
      intro k hk he
      have hm : k ∈ d.classes := by rw [hl]; simp [hk]
      exact h1 k hk (by rw [wf.kl_inj hm (findClass_mem hc) he, hkc])
    have hkl2 : ∀ k ∈ l2, k.kl ≠ kc.kl := by
      intro k hk he
      have hm : k ∈ d.classes := by rw [hl]; simp [hk]
      exact h2 k hk (by rw [wf.kl_inj hm (findClass_mem hc) he, hkc])
    have hschema : ∀ (s s' : Schema), s.classes = s'.classes → s.groups = s'.groups → s = s' := by
      intro s s' a b; cases s; cases s'; simp_all
    cases hin : inScope d.containers d.pkgrefs comp kc.parent <;> cases hout : inScope d.containers d.pkgrefs comp p
    · -- out, out
      dsimp only
      apply hschema
      · rw [hclasses, hout]
        show _ = (extract d comp drv).classes
        rw [hold, hin]
      · rw [hgroups]; rfl
    · -- out, in: the class appears
      dsimp only
      apply hschema
      · rw [hclasses, hout]
        unfold schemaEdit
        simp only
        rw [hold, hin]
        have htw : d.classes.takeWhile (fun x => x.id != c) = l1 := by
          rw [hl]; exact takeWhile_split (fun (k : Class) => k.id) c l1 l2 kc h1 hkc
        have hpos : countInScope d.containers d.pkgrefs comp Class.parent (d.classes.takeWhile (fun x => x.id != c)) =
            ((l1.filter (fun k => inScope d.containers d.pkgrefs comp k.parent)).map (classOf d drv)).length := by
          rw [htw]; unfold countInScope; simp
        rw [hpos]
        simp only [if_true, Bool.false_eq_true, if_false, List.append_nil, List.append_assoc, List.singleton_append]
        rw [insertAt_length]
      · rw [hgroups]; rfl
    · -- in, out: the class disappears
      dsimp only
      apply hschema
      · rw [hclasses, hout]
        unfold schemaEdit
        simp only
        rw [hold, hin]
        simp only [if_true, Bool.false_eq_true, if_false, List.append_nil, List.filter_append, List.filter_cons,
          List.append_assoc, List.singleton_append]
        have f1 : ((l1.filter (fun k => inScope d.containers d.pkgrefs comp k.parent)).map (classOf d drv)).filter
            (fun s => s.kl != kc.kl) = (l1.filter (fun k => inScope d.containers d.pkgrefs comp k.parent)).map (classOf d drv) := by
          apply List.filter_eq_self.mpr
          intro s hs
          obtain ⟨k, hk, rfl⟩ := List.mem_map.mp hs
          have := hkl1 k (List.mem_filter.mp hk).1
          simpa [classOf] using this
        have f2 : ((l2.filter (fun k => inScope d.containers d.pkgrefs comp k.parent)).map (classOf d drv)).filter
            (fun s => s.kl != kc.kl) = (l2.filter (fun k => inScope d.containers d.pkgrefs comp k.parent)).map (classOf d drv) := by
          apply List.filter_eq_self.mpr
          intro s hs
          obtain ⟨k, hk, rfl⟩ := List.mem_map.mp hs
          have := hkl2 k (List.mem_filter.mp hk).1
          simpa [classOf] using this
        rw [f1, f2]
        simp [classOf]
      · rw [hgroups]; rfl
    · -- in, in
      dsimp only
      apply hschema
      · rw [hclasses, hout]
        show _ = (extract d comp drv).classes
        rw [hold, hin]
      · rw [hgroups]; rfl

end moveClass
end Pyx.Extract
