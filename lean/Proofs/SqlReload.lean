import Proofs.SqlBuildProj
import Proofs.SqlFixedPoint
import Proofs.SqlAttrNames
import Proofs.SqlBuildTotal

set_option linter.unusedSimpArgs false

/-! model level: building the statements of a writer route gives the canonical form of the metamodel (everything but
    links) -/
namespace Pyx.Sql
open Gen.Persist (Ty)

/-! ### projections of an item list -/

def tablesI (u : UC) : List Item → List ClassB
  | [] => []
  | .cls kind attrs :: rest => ⟨kind, attrs.map (fun a => (a.1, u.upper a.2)), [], [], []⟩ :: tablesI u rest
  | _ :: rest => tablesI u rest

def idxI (u : UC) (k : Name) : List Item → List (Name × List Name)
  | [] => []
  | .index name kind attrs :: rest =>
    if !attrs.isEmpty && sameKind u k kind then (name, attrs) :: idxI u k rest else idxI u k rest
  | _ :: rest => idxI u k rest

def refsI (u : UC) (k : Name) : List Item → List Name
  | [] => []
  | .assoc _ s _ :: rest => if sameKind u k s.kind then s.keys ++ refsI u k rest else refsI u k rest
  | _ :: rest => refsI u k rest

/-- attribute lists and value lists of the rows printed for a class kind -/
def insI (u : UC) (k : Name) : List Item → List (List (Name × Name) × List (Option Val))
  | [] => []
  | .inst kind attrs vals :: rest => if sameKind u k kind then (attrs, vals) :: insI u k rest else insI u k rest
  | _ :: rest => insI u k rest

def ropsI : List Item → List AssocB
  | [] => []
  | .assoc rel s t :: rest =>
    ⟨rel, s.kind, cardText s.many s.cond, s.keys, s.phrase, t.kind, cardText t.many t.cond, t.keys, t.phrase⟩ :: ropsI rest
  | _ :: rest => ropsI rest

theorem itemsStmts_cons (u : UC) (it : Item) (items : List Item) (stmts : List Stmt) (h : itemsStmts u (it :: items) = some stmts) :
    ∃ st rest, it.stmt u = some st ∧ itemsStmts u items = some rest ∧ stmts = st :: rest := by
  simp only [itemsStmts] at h
  cases h1 : it.stmt u with
  | none => simp [h1] at h
  | some st =>
    cases h2 : itemsStmts u items with
    | none => simp [h1, h2] at h
    | some rest => simp only [h1, h2, Option.some.injEq] at h; exact ⟨st, rest, rfl, rfl, h.symm⟩

/-- the projections of the statements are the projections of the items -/
theorem proj_items (u : UC) : ∀ (items : List Item) (stmts : List Stmt), itemsStmts u items = some stmts →
    newTables stmts = tablesI u items ∧ ropsOf stmts = ropsI items ∧
    (∀ k, idxOf u k stmts = idxI u k items) ∧ (∀ k, refsOf u k stmts = refsI u k items) ∧
    (∀ k, (insOf u k stmts).map some = (insI u k items).map (fun av => rowTexts u av.1 av.2)) := by
  intro items
  induction items with
  | nil =>
    intro stmts h
    simp only [itemsStmts, Option.some.injEq] at h; subst h
    exact ⟨rfl, rfl, fun _ => rfl, fun _ => rfl, fun _ => rfl⟩
  | cons it items ih =>
    intro stmts h
    obtain ⟨st, rest, hst, hrest, rfl⟩ := itemsStmts_cons u it items stmts h
    obtain ⟨i1, i2, i3, i4, i5⟩ := ih rest hrest
    cases it with
    | cls kind attrs =>
      simp only [Item.stmt, Option.some.injEq] at hst; subst hst
      exact ⟨by simp only [newTables, tablesI, i1], by simp only [ropsOf, ropsI, i2], fun k => by simp only [idxOf, idxI, i3],
        fun k => by simp only [refsOf, refsI, i4], fun k => by simp only [insOf, insI, i5]⟩
    | assoc rel s t =>
      simp only [Item.stmt, Option.some.injEq] at hst; subst hst
      exact ⟨by simp only [newTables, tablesI, i1], by simp only [ropsOf, ropsI, i2], fun k => by simp only [idxOf, idxI, i3],
        fun k => by simp only [refsOf, refsI, i4], fun k => by simp only [insOf, insI, i5]⟩
    | index name kind attrs =>
      simp only [Item.stmt, Option.some.injEq] at hst; subst hst
      exact ⟨by simp only [newTables, tablesI, i1], by simp only [ropsOf, ropsI, i2], fun k => by simp only [idxOf, idxI, i3],
        fun k => by simp only [refsOf, refsI, i4], fun k => by simp only [insOf, insI, i5]⟩
    | inst kind attrs vals =>
      simp only [Item.stmt] at hst
      cases hr : rowTexts u attrs vals with
      | none => simp [hr] at hst
      | some texts =>
        simp only [hr, Option.some.injEq] at hst; subst hst
        refine ⟨by simp only [newTables, tablesI, i1], by simp only [ropsOf, ropsI, i2], fun k => by simp only [idxOf, idxI, i3],
          fun k => by simp only [refsOf, refsI, i4], fun k => ?_⟩
        simp only [insOf, insI]
        by_cases hk : sameKind u k kind = true
        · simp only [hk, if_true, List.map_cons, hr, i5]
        · have hk' := Bool.eq_false_iff.mpr hk
          simp only [hk', Bool.false_eq_true, if_false, i5]

/-! ### projections are additive -/

theorem tablesI_append (u : UC) (a b : List Item) : tablesI u (a ++ b) = tablesI u a ++ tablesI u b := by
  induction a with
  | nil => rfl
  | cons x xs ih => cases x <;> simp [tablesI, ih]

theorem ropsI_append (a b : List Item) : ropsI (a ++ b) = ropsI a ++ ropsI b := by
  induction a with
  | nil => rfl
  | cons x xs ih => cases x <;> simp [ropsI, ih]

theorem idxI_append (u : UC) (k : Name) (a b : List Item) : idxI u k (a ++ b) = idxI u k a ++ idxI u k b := by
  induction a with
  | nil => rfl
  | cons x xs ih =>
    cases x <;> simp only [List.cons_append, idxI, ih]
    split <;> simp

theorem refsI_append (u : UC) (k : Name) (a b : List Item) : refsI u k (a ++ b) = refsI u k a ++ refsI u k b := by
  induction a with
  | nil => rfl
  | cons x xs ih =>
    cases x <;> simp only [List.cons_append, refsI, ih]
    split <;> simp

theorem insI_append (u : UC) (k : Name) (a b : List Item) : insI u k (a ++ b) = insI u k a ++ insI u k b := by
  induction a with
  | nil => rfl
  | cons x xs ih =>
    cases x <;> simp only [List.cons_append, insI, ih]
    split <;> simp

/-- an additive projection of a concatenation over classes, when only one class contributes -/
theorem proj_flatMap {β : Type} (P : List Item → List β) (hnil : P [] = []) (happ : ∀ a b, P (a ++ b) = P a ++ P b)
    (f : ClassM → List Item) : ∀ (L : List ClassM) (c0 : ClassM), c0 ∈ L → L.Nodup → (∀ c ∈ L, c ≠ c0 → P (f c) = []) →
    P (L.flatMap f) = P (f c0) := by
  intro L
  induction L with
  | nil => intro c0 h; simp at h
  | cons x xs ih =>
    intro c0 hc0 hn hother
    simp only [List.flatMap_cons, happ]
    simp only [List.nodup_cons] at hn
    by_cases hx : x = c0
    · subst hx
      have hrest : P (xs.flatMap f) = [] := by
        have : ∀ (ys : List ClassM), (∀ c ∈ ys, P (f c) = []) → P (ys.flatMap f) = [] := by
          intro ys
          induction ys with
          | nil => intro _; simpa using hnil
          | cons y ys ihy =>
            intro h
            simp only [List.flatMap_cons, happ, h y (by simp), ihy (fun c hc => h c (by simp [hc])), List.append_nil]
        exact this xs (fun c hc => hother c (by simp [hc]) (fun e => hn.1 (e ▸ hc)))
      rw [hrest, List.append_nil]
    · have hmem : c0 ∈ xs := by
        simp only [List.mem_cons] at hc0
        rcases hc0 with h | h
        · exact absurd h.symm hx
        · exact h
      rw [hother x (by simp) hx, List.nil_append]
      exact ih c0 hmem hn.2 (fun c hc => hother c (by simp [hc]))

theorem proj_flatMap_nil {β : Type} (P : List Item → List β) (hnil : P [] = []) (happ : ∀ a b, P (a ++ b) = P a ++ P b)
    (f : ClassM → List Item) : ∀ (L : List ClassM), (∀ c ∈ L, P (f c) = []) → P (L.flatMap f) = [] := by
  intro L
  induction L with
  | nil => intro _; simpa using hnil
  | cons y ys ih =>
    intro h
    simp only [List.flatMap_cons, happ, h y (by simp), ih (fun c hc => h c (by simp [hc])), List.append_nil]

/-! ### sorting permutes -/

theorem insertBy_perm {α : Type} (le : α → α → Bool) (x : α) : ∀ (l : List α), (insertBy le x l).Perm (x :: l) := by
  intro l
  induction l with
  | nil => exact List.Perm.refl _
  | cons y ys ih =>
    simp only [insertBy]
    split
    · exact (List.Perm.cons y ih).trans (List.Perm.swap x y ys)
    · exact List.Perm.refl _

theorem foldl_insertBy_perm {α : Type} (le : α → α → Bool) : ∀ (xs acc : List α),
    (xs.foldl (fun acc x => insertBy le x acc) acc).Perm (xs ++ acc) := by
  intro xs
  induction xs with
  | nil => intro acc; exact List.Perm.refl _
  | cons x xs ih =>
    intro acc
    rw [List.foldl_cons]
    refine (ih _).trans ?_
    refine (List.Perm.append_left xs (insertBy_perm le x acc)).trans ?_
    exact (List.perm_middle).trans (List.Perm.refl _)

theorem sortBy_perm {α : Type} (le : α → α → Bool) (xs : List α) : (sortBy le xs).Perm xs := by
  have := foldl_insertBy_perm le xs []
  simpa [sortBy] using this

/-! ### values -/

/-- every well-typed value is read back from its printed text -/
theorem deserialize_fmt (u : UC) (t : Ty) (v : Val) (txt : Text) (ty : Text) (hty : tyOfName u ty = some t)
    (h : fmtValue t v = some txt) : deserialize u ty txt = some v := by
  cases t <;> cases v <;> simp only [fmtValue] at h <;> (first | (exfalso; simp at h; done) | skip)
  · simp only [Option.some.injEq] at h; subst h; exact deserialize_boolean u ty hty _
  · simp only [Option.some.injEq] at h; subst h; exact deserialize_integer u ty hty _
  · simp only [Option.some.injEq] at h; subst h; exact deserialize_real u ty hty _ _
  · simp only [Option.some.injEq] at h; subst h; exact deserialize_string u ty hty _
  · split at h
    · rename_i hn; simp only [Option.some.injEq] at h; subst h; exact deserialize_unique_id u ty hty _ hn
    · simp at h

/-- a type name that selects a core type still selects it after upper-casing -/
theorem tyOfName_upper_of_some (u : UC) (ty : Name) (t : Ty) (h : tyOfName u ty = some t) : tyOfName u (u.upper ty) = some t := by
  have hc : t.chars = u.upper ty := by
    have := List.find?_some h
    simpa using this
  rw [← hc]; exact tyOfName_chars u t

/-- reading a printed cell under the upper-cased type name gives the canonical value of the cell -/
theorem deserialize_cellText (u : UC) (ty : Name) (v : Option Val) (txt : Text) (h : cellText u ty v = some txt) :
    ∃ x, deserialize u (u.upper ty) txt = some x ∧ canonVal u ty v = some x := by
  unfold cellText at h
  cases ht : tyOfName u ty with
  | none => simp [ht] at h
  | some t =>
    simp only [ht, printValue_eq] at h
    cases hx : resolveVal t v with
    | none => simp [hx] at h
    | some x =>
      simp only [hx, Option.bind_some] at h
      exact ⟨x, deserialize_fmt u t x txt _ (tyOfName_upper_of_some u ty t ht) h, by simp only [canonVal, ht, hx]⟩

def upAttrs (u : UC) (attrs : List (Name × Name)) : List (Name × Name) := attrs.map fun a => (a.1, u.upper a.2)

theorem attrNamesOk_upAttrs (u : UC) (attrs : List (Name × Name)) : attrNamesOk u (upAttrs u attrs) = attrNamesOk u attrs := by
  simp only [attrNamesOk, upAttrs, List.map_map, List.all_map]; rfl

/-- the cells stored for a printed row are the canonical values of the row -/
theorem specCells_row (u : UC) (c : ClassB) : ∀ (attrs : List (Name × Name)) (vals : List (Option Val)) (texts : List Text),
    rowTexts u attrs vals = some texts → vals.length = attrs.length →
    CellsOk u (upAttrs u attrs) texts ∧ (specCells u c (upAttrs u attrs) texts).map cellVal = canonVals u attrs vals := by
  intro attrs
  induction attrs with
  | nil =>
    intro vals texts h hl
    simp only [rowTexts, Option.some.injEq] at h; subst h
    cases vals with
    | nil => exact ⟨trivial, rfl⟩
    | cons v vs => simp at hl
  | cons a attrs ih =>
    intro vals texts h hl
    obtain ⟨nm, ty⟩ := a
    cases vals with
    | nil => simp at hl
    | cons v vs =>
      simp only [rowTexts] at h
      cases hc : cellText u ty v with
      | none => simp [hc] at h
      | some txt =>
        cases hr : rowTexts u attrs vs with
        | none => simp [hc, hr] at h
        | some rest =>
          simp only [hc, hr, Option.some.injEq] at h; subst h
          obtain ⟨x, hd, hcv⟩ := deserialize_cellText u ty v txt hc
          obtain ⟨ih1, ih2⟩ := ih vs rest hr (by simpa using hl)
          refine ⟨⟨by simp [hd], ih1⟩, ?_⟩
          simp only [upAttrs, List.map_cons, specCells, hd, cellVal, canonVals, hcv]
          exact congrArg _ ih2

/-! ### statements come from items -/

theorem mem_itemsStmts (u : UC) : ∀ (items : List Item) (stmts : List Stmt), itemsStmts u items = some stmts →
    ∀ st ∈ stmts, ∃ it ∈ items, it.stmt u = some st := by
  intro items
  induction items with
  | nil => intro stmts h st hst; simp only [itemsStmts, Option.some.injEq] at h; subst h; simp at hst
  | cons it items ih =>
    intro stmts h st hst
    obtain ⟨s0, rest, h0, hrest, rfl⟩ := itemsStmts_cons u it items stmts h
    simp only [List.mem_cons] at hst
    rcases hst with rfl | hst
    · exact ⟨it, by simp, h0⟩
    · obtain ⟨it', hm, hs⟩ := ih rest hrest st hst
      exact ⟨it', by simp [hm], hs⟩

/-! ### a metamodel and an item list that presents it -/

def classB0 (u : UC) (c : ClassM) : ClassB := ⟨c.kind, upAttrs u c.attrs, [], [], []⟩

def assocB0 (a : AssocM) : AssocB :=
  ⟨a.relId, a.src.kind, cardText a.src.many a.src.cond, a.src.keys, a.src.phrase,
   a.tgt.kind, cardText a.tgt.many a.tgt.cond, a.tgt.keys, a.tgt.phrase⟩

/-- the class as the reloaded metamodel holds it: type names upper-cased, unset values replaced by null values -/
def canonClass (u : UC) (c : ClassM) : ClassM := ⟨c.kind, upAttrs u c.attrs, c.indices, c.rows.map (canonVals u c.attrs)⟩

/-- the item is printed from the metamodel -/
def ItemOf (m : MM) : Item → Prop
  | .cls kind attrs => ∃ c ∈ m.classes, c.kind = kind ∧ c.attrs = attrs
  | .index name kind attrs => ∃ c ∈ m.classes, c.kind = kind ∧ (name, attrs) ∈ c.indices
  | .inst kind attrs vals => ∃ c ∈ m.classes, c.kind = kind ∧ c.attrs = attrs ∧ vals ∈ c.rows
  | .assoc rel s t => ∃ a ∈ m.assocs, a.relId = rel ∧ a.src = s ∧ a.tgt = t

/-- the model-level part of the persistable domain that `build` checks -/
structure MM.Closed (u : UC) (m : MM) : Prop where
  distinct : (m.classes.map fun c => u.upper c.kind).Nodup
  types : ∀ c ∈ m.classes, ∀ a ∈ c.attrs, (tyOfName u a.2).isSome = true
  idents : ∀ c ∈ m.classes, (c.indices.map fun e => e.1).Nodup ∧ ∀ e ∈ c.indices, e.2 ≠ []
  ends : ∀ a ∈ m.assocs, (∃ c ∈ m.classes, c.kind = a.src.kind) ∧ a.src.keys.length = a.tgt.keys.length ∧
    ∃ c ∈ m.classes, c.kind = a.tgt.kind ∧ ∀ k ∈ a.tgt.keys, (c.attrs.map fun x => u.upper x.1).contains (u.upper k) = true
  rows : ∀ c ∈ m.classes, ∀ r ∈ c.rows, r.length = c.attrs.length
  /-- within a class no two attribute names coincide after upper-casing (`define_class` accepts no other class) -/
  attrNames : ∀ c ∈ m.classes, attrNamesOk u c.attrs = true
  /-- no attribute name and no association key has the form `__x__`: `define_class` / `define_association` raise
      MetaModelException for such names (`_is_reserved`, since 7fb506e), so no metamodel has them; for attribute names this
      is part of `attrNames` already, the field is kept for the users of the structure -/
  plainAttrs : ∀ c ∈ m.classes, ∀ a ∈ c.attrs, isDunder a.1 = false
  plainKeys : ∀ a ∈ m.assocs, ∀ k ∈ a.src.keys ++ a.tgt.keys, isDunder k = false

/-- `items` writes every class of `m` once (in the order `S`), its associations (in the order `A`), and for each class
    its identifiers and rows in their own order -/
structure Presents (u : UC) (m : MM) (items : List Item) (S : List ClassM) (A : List AssocM) : Prop where
  permS : S.Perm m.classes
  fromModel : ∀ it ∈ items, ItemOf m it
  tables : tablesI u items = S.map (classB0 u)
  rops : ropsI items = A.map assocB0
  memA : ∀ a ∈ A, a ∈ m.assocs
  idx : ∀ c ∈ m.classes, idxI u c.kind items = c.indices
  ins : ∀ c ∈ m.classes, insI u c.kind items = c.rows.map (fun r => (c.attrs, r))

theorem map_of_map_some {α β γ : Type} (f : β → Option α) (h : α → γ) (k : β → γ) :
    ∀ (L : List α) (R : List β), L.map some = R.map f → (∀ r ∈ R, ∀ t, f r = some t → h t = k r) → L.map h = R.map k := by
  intro L
  induction L with
  | nil => intro R he _; cases R with
    | nil => rfl
    | cons r rs => simp at he
  | cons t ts ih =>
    intro R he hp
    cases R with
    | nil => simp at he
    | cons r rs =>
      simp only [List.map_cons, List.cons.injEq] at he ⊢
      exact ⟨hp r (by simp) t he.1.symm, ih rs he.2 (fun r' hr' => hp r' (by simp [hr']))⟩

theorem cardText_M (many cond : Bool) : (cardText many cond).contains 'M' = many := by
  cases many <;> cases cond <;> decide
theorem cardText_C (many cond : Bool) : (cardText many cond).contains 'C' = cond := by
  cases many <;> cases cond <;> decide

theorem sameKind_refl (u : UC) (k : Name) : sameKind u k k = true := by simp [sameKind]

theorem class_unique (u : UC) (m : MM) (hd : (m.classes.map fun c => u.upper c.kind).Nodup) {c d : ClassM}
    (hc : c ∈ m.classes) (hdm : d ∈ m.classes) (h : sameKind u c.kind d.kind = true) : c = d := by
  simp only [sameKind, beq_iff_eq] at h
  exact eq_of_nodup_map (fun c : ClassM => u.upper c.kind) m.classes hd c hc d hdm h

/-! ### the statements of a presentation satisfy `BuildOk` -/

theorem declared_of_class (u : UC) (m : MM) (items : List Item) (S : List ClassM) (A : List AssocM) (stmts : List Stmt)
    (hp : Presents u m items S A) (hs : itemsStmts u items = some stmts) {c : ClassM} (hc : c ∈ m.classes) :
    classB0 u c ∈ newTables stmts := by
  rw [(proj_items u items stmts hs).1, hp.tables]
  exact List.mem_map.mpr ⟨c, hp.permS.mem_iff.mpr hc, rfl⟩

theorem class_of_declared (u : UC) (m : MM) (items : List Item) (S : List ClassM) (A : List AssocM) (stmts : List Stmt)
    (hp : Presents u m items S A) (hs : itemsStmts u items = some stmts) {b : ClassB} (hb : b ∈ newTables stmts) :
    ∃ c ∈ m.classes, b = classB0 u c := by
  rw [(proj_items u items stmts hs).1, hp.tables] at hb
  obtain ⟨c, hc, rfl⟩ := List.mem_map.mp hb
  exact ⟨c, hp.permS.mem_iff.mp hc, rfl⟩

theorem buildOk_of_presents (u : UC) (m : MM) (hm : m.Closed u) (items : List Item) (S : List ClassM) (A : List AssocM)
    (stmts : List Stmt) (hp : Presents u m items S A) (hs : itemsStmts u items = some stmts) : BuildOk u stmts := by
  have hdecl := fun {c : ClassM} (hc : c ∈ m.classes) => declared_of_class u m items S A stmts hp hs hc
  have hcls := fun {b : ClassB} (hb : b ∈ newTables stmts) => class_of_declared u m items S A stmts hp hs hb
  refine ⟨?_, ?_, ?_, ?_, ?_⟩
  · -- distinct kinds
    unfold KindsDistinct
    rw [(proj_items u items stmts hs).1, hp.tables, List.map_map]
    have : (S.map ((fun c : ClassB => u.upper c.kind) ∘ classB0 u)).Perm (m.classes.map fun c => u.upper c.kind) :=
      hp.permS.map _
    exact this.nodup_iff.mpr hm.distinct
  · -- attribute names
    intro b hb
    obtain ⟨c, hc, rfl⟩ := hcls hb
    simp only [classB0, attrNamesOk_upAttrs]
    exact hm.attrNames c hc
  · -- identifiers
    intro kind name attrs hmem _
    obtain ⟨it, hit, hst⟩ := mem_itemsStmts u items stmts hs _ hmem
    have hof := hp.fromModel it hit
    cases it with
    | index n k a =>
      simp only [Item.stmt, Option.some.injEq, Stmt.createIndex.injEq] at hst
      obtain ⟨rfl, rfl, rfl⟩ := hst
      obtain ⟨c, hc, hk, _⟩ := hof
      exact ⟨classB0 u c, hdecl hc, by simp only [classB0, hk, sameKind_refl]⟩
    | cls _ _ => simp [Item.stmt] at hst
    | assoc _ _ _ => simp [Item.stmt] at hst
    | inst k a v => simp only [Item.stmt] at hst; split at hst <;> simp at hst
  · -- associations
    intro rel sk sc skeys sp tk tc tkeys tp hmem
    obtain ⟨it, hit, hst⟩ := mem_itemsStmts u items stmts hs _ hmem
    have hof := hp.fromModel it hit
    cases it with
    | assoc r s t =>
      simp only [Item.stmt, Option.some.injEq, Stmt.createRop.injEq] at hst
      obtain ⟨rfl, rfl, rfl, rfl, rfl, rfl, rfl, rfl, rfl⟩ := hst
      obtain ⟨a, ha, _, rfl, rfl⟩ := hof
      obtain ⟨⟨c1, hc1, hk1⟩, hlen, c2, hc2, hk2, hkeys⟩ := hm.ends a ha
      have hplain : a.src.keys.any isDunder = false := by
        rw [List.any_eq_false]
        intro k hk
        rw [Bool.not_eq_true]
        exact hm.plainKeys a ha k (by simp [hk])
      refine ⟨⟨classB0 u c1, hdecl hc1, by simp only [classB0, hk1, sameKind_refl]⟩,
        ⟨classB0 u c2, hdecl hc2, by simp only [classB0, hk2, sameKind_refl]⟩, hplain, hlen, ?_⟩
      intro b hb hsame k hk
      obtain ⟨c, hc, rfl⟩ := hcls hb
      have : c = c2 := class_unique u m hm.distinct hc hc2 (by simpa only [classB0, hk2] using hsame)
      subst this
      have := hkeys k hk
      have e : (classB0 u c).attrs.map (fun a => u.upper a.1) = c.attrs.map (fun x => u.upper x.1) := by
        simp only [classB0, upAttrs, List.map_map]; rfl
      rw [e]; exact this
    | cls _ _ => simp [Item.stmt] at hst
    | index _ _ _ => simp [Item.stmt] at hst
    | inst k a v => simp only [Item.stmt] at hst; split at hst <;> simp at hst
  · -- instances
    intro kind values names hmem
    obtain ⟨it, hit, hst⟩ := mem_itemsStmts u items stmts hs _ hmem
    have hof := hp.fromModel it hit
    cases it with
    | inst k a v =>
      simp only [Item.stmt] at hst
      cases hr : rowTexts u a v with
      | none => simp [hr] at hst
      | some texts =>
        simp only [hr, Option.some.injEq, Stmt.insert.injEq] at hst
        obtain ⟨rfl, rfl, rfl⟩ := hst
        obtain ⟨c, hc, hk, hattrs, hrow⟩ := hof
        subst hattrs
        refine ⟨rfl, ⟨classB0 u c, hdecl hc, by simp only [classB0, hk, sameKind_refl]⟩, ?_⟩
        intro b hb hsame
        obtain ⟨c', hc', rfl⟩ := hcls hb
        have : c' = c := class_unique u m hm.distinct hc' hc (by simpa only [classB0, hk] using hsame)
        subst this
        refine ⟨?_, (specCells_row u (classB0 u c') c'.attrs v texts hr (hm.rows c' hc' v hrow)).1⟩
        intro x hx
        simp only [classB0, upAttrs, List.mem_map] at hx
        obtain ⟨a0, ha0, rfl⟩ := hx
        have hsome := hm.types c' hc' a0 ha0
        cases ht : tyOfName u a0.2 with
        | none => rw [ht] at hsome; simp at hsome
        | some t => simp only [tyOfName_upper_of_some u a0.2 t ht, Option.isSome_some]
    | cls _ _ => simp [Item.stmt] at hst
    | index _ _ _ => simp [Item.stmt] at hst
    | assoc _ _ _ => simp [Item.stmt] at hst

/-! ### the built state is the canonical metamodel -/

theorem built_class_canon (u : UC) (m : MM) (hm : m.Closed u) (items : List Item) (S : List ClassM) (A : List AssocM)
    (stmts : List Stmt) (hp : Presents u m items S A) (hs : itemsStmts u items = some stmts) {c : ClassM} (hc : c ∈ m.classes) :
    (builtClass u stmts (classB0 u c)).toM = canonClass u c := by
  obtain ⟨_, _, pidx, _, pins⟩ := proj_items u items stmts hs
  unfold classB0
  rw [builtClass_eq]
  simp only [ClassB.toM, canonClass, ClassM.mk.injEq, true_and]
  refine ⟨?_, ?_⟩
  · rw [pidx, hp.idx c hc]
    have := foldl_dictSet_nodup c.indices [] (by simpa using (hm.idents c hc).1)
    simpa using this
  · rw [List.map_map]
    have hL := pins c.kind
    rw [hp.ins c hc, List.map_map] at hL
    have := map_of_map_some (fun r : List (Option Val) => rowTexts u c.attrs r)
      ((fun r => r.map cellVal) ∘ specCells u ⟨c.kind, upAttrs u c.attrs, [], refsOf u c.kind stmts, []⟩ (upAttrs u c.attrs))
      (canonVals u c.attrs) (insOf u c.kind stmts) c.rows hL (by
        intro r hr t ht
        exact (specCells_row u _ c.attrs r t ht (hm.rows c hc r hr)).2)
    exact this

theorem kindOf_built (u : UC) (m : MM) (hm : m.Closed u) (items : List Item) (S : List ClassM) (A : List AssocM)
    (stmts : List Stmt) (hp : Presents u m items S A) (hs : itemsStmts u items = some stmts) {c : ClassM} (hc : c ∈ m.classes)
    (as : List AssocB) : BState.kindOf u ⟨(newTables stmts).map (builtClass u stmts), as⟩ c.kind = c.kind := by
  unfold BState.kindOf
  have hex : ∃ b ∈ (newTables stmts).map (builtClass u stmts), sameKind u b.kind c.kind = true :=
    ⟨builtClass u stmts (classB0 u c), List.mem_map.mpr ⟨_, declared_of_class u m items S A stmts hp hs hc, rfl⟩,
      by rw [builtClass_kind]; exact sameKind_refl u _⟩
  obtain ⟨b, hf, hb, hk⟩ := find?_some_of_mem u ⟨(newTables stmts).map (builtClass u stmts), as⟩ c.kind hex
  rw [hf]
  obtain ⟨b0, hb0, rfl⟩ := List.mem_map.mp hb
  obtain ⟨c', hc', rfl⟩ := class_of_declared u m items S A stmts hp hs hb0
  rw [builtClass_kind] at hk
  have : c' = c := class_unique u m hm.distinct hc' hc hk
  subst this
  show (builtClass u stmts (classB0 u c')).kind = c'.kind
  rw [builtClass_kind]; rfl

/-- MODEL LEVEL: an item list that presents a closed metamodel builds, and the built state, seen as the writers see
    it, is the canonical metamodel: the classes in the order written (type names upper-cased, identifiers as they are,
    rows in order with unset values replaced by null values) and the associations in the order written -/
theorem reload_of_presents (u : UC) (m : MM) (hm : m.Closed u) (items : List Item) (S : List ClassM) (A : List AssocM)
    (stmts : List Stmt) (hp : Presents u m items S A) (hs : itemsStmts u items = some stmts) :
    ∃ bs, build u stmts = .ok bs ∧ bs.toMM u = ⟨S.map (canonClass u), A⟩ := by
  refine ⟨_, build_ok u stmts (buildOk_of_presents u m hm items S A stmts hp hs), ?_⟩
  obtain ⟨ptab, prop, _, _, _⟩ := proj_items u items stmts hs
  simp only [BState.toMM, MM.mk.injEq]
  refine ⟨?_, ?_⟩
  · rw [ptab, hp.tables, List.map_map, List.map_map]
    apply List.map_congr_left
    intro c hc
    exact built_class_canon u m hm items S A stmts hp hs (hp.permS.mem_iff.mp hc)
  · rw [prop, hp.rops, List.map_map]
    conv => rhs; rw [← List.map_id A]
    apply List.map_congr_left
    intro a ha
    have ham := hp.memA a ha
    obtain ⟨⟨c1, hc1, hk1⟩, _, c2, hc2, hk2, _⟩ := hm.ends a ham
    have e1 := kindOf_built u m hm items S A stmts hp hs hc1 (A.map assocB0)
    have e2 := kindOf_built u m hm items S A stmts hp hs hc2 (A.map assocB0)
    rw [hk1] at e1; rw [hk2] at e2
    simp only [Function.comp, assocB0, AssocB.toM, cardText_M, cardText_C, e1, e2, id]

end Pyx.Sql
