import Proofs.QueryShape
import Proofs.RelateShape

/-!
  Additions to the source tie of the QUERY side (C09, C16):

  * the `links` dict of a class (`linkEntriesFrom` / `linkDict`, what `MetaClass.navigate`, `_find_assoc_links`,
    `navigate_subtype` and `sort_reflexive` iterate) as the generic interpretation of the `add_link` calls of
    `define_association` (Gen/RelateShape.lean `linkDefs`: which class a link starts at, which class it leads to,
    which phrase it is stored under, in which order the two links are added);
  * `sort_reflexive` on a metamodel state as a whole (`sortReflexiveSt`): empty-set guard, the other-phrase search,
    the first-instance filter whose navigation raises on an unknown key, the two partner functions read through
    the interpreted `MetaClass.navigate` and the `navigate_one` result form, the generator.
-/
namespace Pyx.QShape
open Pyx.Meta Pyx.Query Pyx.Reflexive

/-! ### the `links` dict of a class from the `add_link` calls -/

/-- `metaclass.links` of class `k` before dict semantics: every association contributes, in the order of its
    `add_link` calls, the links that start at `k`, stored under the key (class led to, rel id, phrase) -/
def iLinkEntriesFrom (defs : List Pyx.Gen.RelateShape.LinkDef) (k : Kind) : Nat → Schema → List LinkEntry
  | _, [] => []
  | i, a :: rest =>
    defs.flatMap (fun d =>
      if Pyx.Shape.endKind a d.fromCls = k then
        [{ toKind := Pyx.Shape.endKind a d.toCls, rel := a.rel, phrase := Pyx.Shape.endPhrase a d.phrase,
           assoc := i, isSrc := d.isSourceLink }]
      else []) ++ iLinkEntriesFrom defs k (i + 1) rest

def iLinkDict (defs : List Pyx.Gen.RelateShape.LinkDef) (sch : Schema) (k : Kind) : List LinkEntry :=
  (iLinkEntriesFrom defs k 0 sch).foldl dictInsert []

theorem linkEntriesFrom_eq (k : Kind) : ∀ (sch : Schema) (i : Nat),
    linkEntriesFrom k i sch = iLinkEntriesFrom Pyx.Gen.RelateShape.linkDefs k i sch
  | [], _ => rfl
  | a :: rest, i => by
    unfold linkEntriesFrom iLinkEntriesFrom
    rw [linkEntriesFrom_eq k rest (i + 1)]
    by_cases h1 : a.tgtKind = k <;> by_cases h2 : a.srcKind = k <;>
      simp [Pyx.Gen.RelateShape.linkDefs, Pyx.Shape.endKind, Pyx.Shape.endPhrase, h1, h2]

theorem linkDict_eq (sch : Schema) (k : Kind) : linkDict sch k = iLinkDict Pyx.Gen.RelateShape.linkDefs sch k := by
  unfold linkDict iLinkDict
  rw [linkEntriesFrom_eq]

/-! ### sort_reflexive on a state -/

open Pyx.Gen.QueryShape

/-- `navigate_one(x).nav(kind, rel_id, phrase)()`: the interpreted `MetaClass.navigate`, then the result form of the
    `navigate_one` chain; an UnknownLinkException inside the generator is seen as "no partner" by the walk -/
def iPartner (skip : BExp AssocAtom) (one : ResultForm) (sch : Schema) (s : State) (k : Kind) (rel phrase : String)
    (x : Inst) : Option Inst :=
  match iNavigate skip sch s x k rel phrase with
  | some l => iOne one l
  | none => none

/-- `sort_reflexive(set, rel_id, phrase)`: `if not set.first: return QuerySet()`; the class is that of the first
    member; the other-phrase search (`none` = its `else: raise UnknownLinkException`); the first-instance filter
    navigates across the GIVEN phrase (raising when the class has no such key); then the generator -/
def iSortSt (skips : List (BExp OtherAtom)) (skip : BExp AssocAtom) (one : ResultForm) (neg : Bool) (p : PhraseSel)
    (body : List WStmt) (sch : Schema) (s : State) (set : List Inst) (rel phrase : String) : Option (List Inst) :=
  match set.head? with
  | none => some []
  | some f =>
    let k := s.kindOf f
    match iOtherPhrase skips sch k rel phrase with
    | none => none
    | some other =>
      match iNavigate skip sch s f k rel phrase with
      | none => none
      | some _ =>
        some (iSort neg p body (iPartner skip one sch s k rel phrase) (iPartner skip one sch s k rel other) set
          (s.count + 1))

theorem partner_eq (sch : Schema) (s : State) (k : Kind) (rel phrase : String) :
    partner sch s k rel phrase = iPartner assocSkip navOneResult sch s k rel phrase := by
  funext x
  unfold partner iPartner
  rw [navigate_eq]
  rfl

theorem sortReflexiveSt_eq (sch : Schema) (s : State) (set : List Inst) (rel phrase : String) :
    sortReflexiveSt sch s set rel phrase =
      iSortSt otherSkips assocSkip navOneResult firstFiltNegated firstFiltPhrase walkBody sch s set rel phrase := by
  unfold sortReflexiveSt iSortSt
  cases set.head? with
  | none => rfl
  | some f =>
    simp only
    rw [otherPhrase_eq]
    cases iOtherPhrase otherSkips sch (s.kindOf f) rel phrase with
    | none => rfl
    | some other =>
      simp only
      rw [navigate_eq]
      cases iNavigate assocSkip sch s f (s.kindOf f) rel phrase with
      | none => rfl
      | some l =>
        simp only
        rw [sortReflexive_eq, partner_eq, partner_eq]

end Pyx.QShape
