import PyxModel.Prebuild.Parse
import PyxModel.Prebuild.Supported

/-
  C05 helper lemmas, expression level: `parseExpr` reads back what `genExpr` prints, for every supported
  expression of any nesting depth, given enough fuel and a following token that cannot continue an access
  path (`.`, `[`, `(`).
-/
namespace Pyx.Prebuild
open Tok Kw Pn

/-! ### sizes (fuel bounds) -/
mutual
  def szE : Expr → Nat
    | .int _ | .real _ | .str _ | .bool _ | .enum _ _ => 1
    | .var _ | .self | .selected | .param _ => 2
    | .field h _ => szE h + 1
    | .index h i => szE h + szE i + 1
    | .un _ e => szE e + 1
    | .bin l _ r => szE l + szE r + 1
    | .call _ _ _ ps => szP ps + 1
    | .icall h _ ps => szE h + szP ps + 1
  def szP : Params → Nat
    | .nil => 1
    | .cons _ e rest => szE e + szP rest + 1
end

/-- fuel steps spent on the way from the head of an access path to its outermost postfix -/
def cE : Expr → Nat
  | .var _ | .self | .selected | .param _ => 1
  | .field h _ => cE h + 1
  | .index h _ => cE h + 1
  | _ => 0

theorem cE_lt_szE : ∀ e, isAccess e = true → cE e + 1 ≤ szE e
  | .var _, _ => by simp [cE, szE]
  | .self, _ => by simp [cE, szE]
  | .selected, _ => by simp [cE, szE]
  | .param _, _ => by simp [cE, szE]
  | .field h _, _ => by
      have := fun hh => cE_lt_szE h hh
      simp only [cE, szE]
      cases h <;> simp [isAccess, cE, szE] at this ⊢ <;> omega
  | .index h i, _ => by
      have := fun hh => cE_lt_szE h hh
      simp only [cE, szE]
      cases h <;> simp [isAccess, cE, szE] at this ⊢ <;> omega
  | .int _, h | .real _, h | .str _, h | .bool _, h | .enum _ _, h | .un _ _, h | .bin _ _ _, h
  | .call _ _ _ _, h | .icall _ _ _, h => by simp [isAccess] at h

theorem szE_pos (e : Expr) : 1 ≤ szE e := by cases e <;> simp [szE] <;> omega
theorem szP_pos (ps : Params) : 1 ≤ szP ps := by cases ps <;> simp [szP] <;> omega

/-! ### what may follow an expression -/

/-- a token that cannot continue an access path -/
def stopTok : Tok → Bool
  | p dot | p lsq | p lpar => false
  | _ => true

def Stops (ts : List Tok) : Prop := ∀ t r, ts = t :: r → stopTok t = true

theorem Stops.nil : Stops [] := by intro t r h; cases h
theorem Stops.cons {t : Tok} {r : List Tok} (h : stopTok t = true) : Stops (t :: r) := by
  intro t' r' e; cases e; exact h

/-- the first token of a printed expression -/
def exprStart : Tok → Bool
  | num _ | frac _ | str _ | bad _ | ident _ | ns _ => true
  | kw true_ | kw false_ | kw self_ | kw selected | kw param => true
  | p dcolon | p lpar => true
  | _ => false

theorem boolTok_start (v : String) : exprStart (boolTok v) = true := by
  unfold boolTok; split
  · rfl
  · split <;> rfl

theorem genExpr_head : ∀ e : Expr, ∃ t r, genExpr e = t :: r ∧ exprStart t = true
  | .int _ => ⟨_, _, by rw [genExpr], rfl⟩
  | .real _ => ⟨_, _, by rw [genExpr], rfl⟩
  | .str _ => ⟨_, _, by rw [genExpr], rfl⟩
  | .bool v => ⟨_, _, by rw [genExpr], boolTok_start v⟩
  | .enum _ _ => ⟨_, _, by rw [genExpr], rfl⟩
  | .var _ => ⟨_, _, by rw [genExpr], rfl⟩
  | .self => ⟨_, _, by rw [genExpr], rfl⟩
  | .selected => ⟨_, _, by rw [genExpr], rfl⟩
  | .param _ => ⟨_, _, by rw [genExpr], rfl⟩
  | .field h _ => by
      obtain ⟨t, r, e, s⟩ := genExpr_head h
      rw [genExpr, e]; exact ⟨t, _, rfl, s⟩
  | .index h _ => by
      obtain ⟨t, r, e, s⟩ := genExpr_head h
      rw [genExpr, e]; exact ⟨t, _, rfl, s⟩
  | .un _ _ => ⟨_, _, by rw [genExpr]; rfl, rfl⟩
  | .bin _ _ _ => ⟨_, _, by rw [genExpr]; rfl, rfl⟩
  | .call .func _ _ _ => ⟨_, _, by rw [genExpr]; rfl, rfl⟩
  | .call .bridge _ _ _ => ⟨_, _, by rw [genExpr]; rfl, rfl⟩
  | .call .classop _ _ _ => ⟨_, _, by rw [genExpr]; rfl, rfl⟩
  | .call .implicit _ _ _ => ⟨_, _, by rw [genExpr], rfl⟩
  | .call .port _ _ _ => ⟨_, _, by rw [genExpr], rfl⟩
  | .icall h _ _ => by
      obtain ⟨t, r, e, s⟩ := genExpr_head h
      rw [genExpr, e]; exact ⟨t, _, rfl, s⟩

/-! ### the operator tables are injective both ways (finite checks over the tables) -/

theorem unOps_back : ∀ x ∈ unOps, nameOf unOps x.2 = some x.1 := by decide
theorem binOps_back : ∀ x ∈ binOps, nameOf binOps x.2 = some x.1 := by decide
theorem cards_back : ∀ x ∈ cards, nameOf cards x.2 = some x.1 := by decide
theorem binOps_stop : ∀ x ∈ binOps, stopTok x.2 = true := by decide

theorem lookup_mem {tbl : List (String × Tok)} {s : String} {t : Tok} (h : tbl.lookup s = some t) :
    (s, t) ∈ tbl := by
  induction tbl with
  | nil => simp [List.lookup] at h
  | cons x xs ih =>
    obtain ⟨k, v⟩ := x
    simp only [List.lookup] at h
    split at h
    · rename_i heq
      have : s = k := by simpa using heq
      cases h; subst this; exact List.mem_cons_self
    · exact List.mem_cons_of_mem _ (ih h)

theorem tokOf_back {tbl : List (String × Tok)} (hb : ∀ x ∈ tbl, nameOf tbl x.2 = some x.1) {s : String}
    (h : inTable tbl s = true) : nameOf tbl (tokOf tbl s) = some s := by
  unfold inTable at h
  cases hl : tbl.lookup s with
  | none => simp [hl] at h
  | some t =>
    have := hb _ (lookup_mem hl)
    simpa [tokOf, hl] using this

theorem tokOf_binStop {s : String} (h : inTable binOps s = true) : stopTok (tokOf binOps s) = true := by
  unfold inTable at h
  cases hl : binOps.lookup s with
  | none => simp [hl] at h
  | some t =>
    have := binOps_stop _ (lookup_mem hl)
    simpa [tokOf, hl] using this

/-- no expression starts with a unary-operator token, so `( op …` is unambiguous -/
theorem exprStart_not_unop : ∀ t, exprStart t = true → nameOf unOps t = none := by
  intro t h
  cases t with
  | kw k => cases k <;> first | (simp [exprStart] at h; done) | decide
  | p x => cases x <;> first | (simp [exprStart] at h; done) | decide
  | ident s => simp [nameOf, unOps]
  | ns s => simp [nameOf, unOps]
  | num s => simp [nameOf, unOps]
  | frac s => simp [nameOf, unOps]
  | str s => simp [nameOf, unOps]
  | phrase s => simp [exprStart] at h
  | endIf => simp [exprStart] at h
  | endFor => simp [exprStart] at h
  | endWhile => simp [exprStart] at h
  | bad s => simp [nameOf, unOps]

end Pyx.Prebuild
