import Proofs.SqlParserTotal
import PyxModel.Sql.Loader
import Proofs.SqlAttrNames

set_option linter.unusedSimpArgs false

/-! the loader as a state machine, and the documented outcomes of a build -/
namespace Pyx.Sql

def isAccepted (u : UC) (t : Text) : Bool :=
  match classify u t with
  | .accepted _ => true
  | .parsing => false

def acceptedStmts (u : UC) (t : Text) : List Stmt :=
  match classify u t with
  | .accepted s => s
  | .parsing => []

theorem input_rejected (u : UC) (l : Loader) (t : Text) (h : isAccepted u t = false) : (l.input u t).1 = l := by
  unfold isAccepted at h
  unfold Loader.input
  cases hc : classify u t with
  | accepted s => rw [hc] at h; simp at h
  | parsing => rfl

theorem input_statements (u : UC) (l : Loader) (t : Text) :
    (l.input u t).1.statements = l.statements ++ acceptedStmts u t := by
  unfold Loader.input acceptedStmts
  cases classify u t <;> simp

theorem acceptedStmts_rejected (u : UC) (t : Text) (h : isAccepted u t = false) : acceptedStmts u t = [] := by
  unfold isAccepted at h
  unfold acceptedStmts
  cases hc : classify u t with
  | accepted s => rw [hc] at h; simp at h
  | parsing => rfl

theorem inputs_statements (u : UC) : ∀ (texts : List Text) (l : Loader),
    (Loader.inputs u l texts).statements = l.statements ++ texts.flatMap (acceptedStmts u) := by
  intro texts
  induction texts with
  | nil => intro l; simp [Loader.inputs]
  | cons t ts ih =>
    intro l
    rw [Loader.inputs, ih, input_statements]; simp

theorem inputs_filter (u : UC) : ∀ (texts : List Text) (l : Loader),
    Loader.inputs u l texts = Loader.inputs u l (texts.filter (isAccepted u)) := by
  intro texts
  induction texts with
  | nil => intro l; rfl
  | cons t ts ih =>
    intro l
    cases h : isAccepted u t with
    | true => simp only [List.filter_cons, h, if_true, Loader.inputs]; exact ih _
    | false =>
      simp only [List.filter_cons, h, Bool.false_eq_true, if_false, Loader.inputs, input_rejected u l t h]
      exact ih _

/-! ### documented outcomes of the build phases -/

/-- phase 1 fails only with the metamodel exception, and only on a CREATE TABLE statement -/
theorem popClasses_error (u : UC) : ∀ (stmts : List Stmt) (s : BState) (e : BuildErr),
    popClasses u stmts s = .error e → e = .metaErr ∧ ∃ kind attrs, Stmt.createTable kind attrs ∈ stmts := by
  intro stmts
  induction stmts with
  | nil => intro s e h; simp [popClasses] at h
  | cons st rest ih =>
    intro s e h
    cases st with
    | createTable kind attrs =>
      simp only [popClasses] at h
      cases hd : defineClass u s kind attrs with
      | error e' =>
        rw [hd] at h
        simp only [Except.error.injEq] at h; subst h
        have he : e' = .metaErr := by
          unfold defineClass at hd
          split at hd
          · simp only [Except.error.injEq] at hd; exact hd.symm
          · split at hd
            · simp at hd
            · simp only [Except.error.injEq] at hd; exact hd.symm
        exact ⟨he, kind, attrs, by simp⟩
      | ok s' =>
        rw [hd] at h
        obtain ⟨h1, k, a, hm⟩ := ih s' e h
        exact ⟨h1, k, a, by simp [hm]⟩
    | createRop _ _ _ _ _ _ _ _ _ =>
      simp only [popClasses] at h
      obtain ⟨h1, k, a, hm⟩ := ih s e h
      exact ⟨h1, k, a, by simp [hm]⟩
    | createIndex _ _ _ =>
      simp only [popClasses] at h
      obtain ⟨h1, k, a, hm⟩ := ih s e h
      exact ⟨h1, k, a, by simp [hm]⟩
    | insert _ _ _ =>
      simp only [popClasses] at h
      obtain ⟨h1, k, a, hm⟩ := ih s e h
      exact ⟨h1, k, a, by simp [hm]⟩

/-- phase 2 fails only with the metamodel exception, and only on a CREATE UNIQUE INDEX with attributes -/
theorem popIdents_error (u : UC) : ∀ (stmts : List Stmt) (s : BState) (e : BuildErr),
    popIdents u stmts s = .error e →
      e = .metaErr ∧ ∃ kind name attrs, Stmt.createIndex kind name attrs ∈ stmts ∧ attrs ≠ [] := by
  intro stmts
  induction stmts with
  | nil => intro s e h; simp [popIdents] at h
  | cons st rest ih =>
    intro s e h
    cases st with
    | createIndex kind name attrs =>
      simp only [popIdents] at h
      split at h
      · obtain ⟨h1, k, n, a, hm, hne⟩ := ih s e h
        exact ⟨h1, k, n, a, by simp [hm], hne⟩
      · rename_i hne
        split at h
        · simp only [Except.error.injEq] at h; subst h
          exact ⟨rfl, kind, name, attrs, by simp, by intro ha; subst ha; simp at hne⟩
        · obtain ⟨h1, k, n, a, hm, hne'⟩ := ih _ e h
          exact ⟨h1, k, n, a, by simp [hm], hne'⟩
    | createTable _ _ =>
      simp only [popIdents] at h
      obtain ⟨h1, k, n, a, hm, hne⟩ := ih s e h
      exact ⟨h1, k, n, a, by simp [hm], hne⟩
    | createRop _ _ _ _ _ _ _ _ _ =>
      simp only [popIdents] at h
      obtain ⟨h1, k, n, a, hm, hne⟩ := ih s e h
      exact ⟨h1, k, n, a, by simp [hm], hne⟩
    | insert _ _ _ =>
      simp only [popIdents] at h
      obtain ⟨h1, k, n, a, hm, hne⟩ := ih s e h
      exact ⟨h1, k, n, a, by simp [hm], hne⟩

/-- phase 3 fails only with the metamodel exception, and only on a CREATE ROP statement -/
theorem popAssocs_error (u : UC) : ∀ (stmts : List Stmt) (s : BState) (e : BuildErr),
    popAssocs u stmts s = .error e →
      e = .metaErr ∧ ∃ rel sk sc sks sp tk tc tks tp, Stmt.createRop rel sk sc sks sp tk tc tks tp ∈ stmts := by
  intro stmts
  induction stmts with
  | nil => intro s e h; simp [popAssocs] at h
  | cons st rest ih =>
    intro s e h
    cases st with
    | createRop rel sk sc sks sp tk tc tks tp =>
      simp only [popAssocs] at h
      split at h
      · split at h
        · simp only [Except.error.injEq] at h; subst h
          exact ⟨rfl, rel, sk, sc, sks, sp, tk, tc, tks, tp, by simp⟩
        · split at h
          · obtain ⟨h1, hm⟩ := ih _ e h
            obtain ⟨a, b, c, d, e', f, g, i, j, hm⟩ := hm
            exact ⟨h1, a, b, c, d, e', f, g, i, j, by simp [hm]⟩
          · simp only [Except.error.injEq] at h; subst h
            exact ⟨rfl, rel, sk, sc, sks, sp, tk, tc, tks, tp, by simp⟩
      · simp only [Except.error.injEq] at h; subst h
        exact ⟨rfl, rel, sk, sc, sks, sp, tk, tc, tks, tp, by simp⟩
    | createTable _ _ =>
      simp only [popAssocs] at h
      obtain ⟨h1, a, b, c, d, e', f, g, i, j, hm⟩ := ih s e h
      exact ⟨h1, a, b, c, d, e', f, g, i, j, by simp [hm]⟩
    | createIndex _ _ _ =>
      simp only [popAssocs] at h
      obtain ⟨h1, a, b, c, d, e', f, g, i, j, hm⟩ := ih s e h
      exact ⟨h1, a, b, c, d, e', f, g, i, j, by simp [hm]⟩
    | insert _ _ _ =>
      simp only [popAssocs] at h
      obtain ⟨h1, a, b, c, d, e', f, g, i, j, hm⟩ := ih s e h
      exact ⟨h1, a, b, c, d, e', f, g, i, j, by simp [hm]⟩

/-- phase 4 fails only on an INSERT statement -/
theorem popInstances_error (u : UC) : ∀ (stmts : List Stmt) (s : BState) (e : BuildErr),
    popInstances u stmts s = .error e → ∃ kind values names, Stmt.insert kind values names ∈ stmts := by
  intro stmts
  induction stmts with
  | nil => intro s e h; simp [popInstances] at h
  | cons st rest ih =>
    intro s e h
    cases st with
    | insert kind values names => exact ⟨kind, values, names, by simp⟩
    | createTable _ _ =>
      simp only [popInstances] at h
      obtain ⟨a, b, c, hm⟩ := ih s e h; exact ⟨a, b, c, by simp [hm]⟩
    | createIndex _ _ _ =>
      simp only [popInstances] at h
      obtain ⟨a, b, c, hm⟩ := ih s e h; exact ⟨a, b, c, by simp [hm]⟩
    | createRop _ _ _ _ _ _ _ _ _ =>
      simp only [popInstances] at h
      obtain ⟨a, b, c, hm⟩ := ih s e h; exact ⟨a, b, c, by simp [hm]⟩

theorem positionalCells_error (u : UC) (c : ClassB) : ∀ (attrs : List (Name × Name)) (values : List Text) (e : BuildErr),
    positionalCells u c attrs values = .error e →
      e = .parseErr ∧ ∃ a ∈ attrs, ∃ v ∈ values, deserialize u a.2 v = none := by
  intro attrs
  induction attrs with
  | nil => intro values e h; simp [positionalCells] at h
  | cons a attrs ih =>
    intro values e h
    cases values with
    | nil => simp [positionalCells] at h
    | cons v vs =>
      obtain ⟨nm, ty⟩ := a
      simp only [positionalCells] at h
      cases hd : deserialize u ty v with
      | none =>
        rw [hd] at h; simp only [Except.error.injEq] at h; subst h
        exact ⟨rfl, (nm, ty), by simp, v, by simp, hd⟩
      | some x =>
        rw [hd] at h
        simp only at h
        cases hr : positionalCells u c attrs vs with
        | ok cells => rw [hr] at h; simp at h
        | error e' =>
          rw [hr] at h; simp only [Except.error.injEq] at h; subst h
          obtain ⟨h1, a', ha', v', hv', hd'⟩ := ih vs e' hr
          exact ⟨h1, a', by simp [ha'], v', by simp [hv'], hd'⟩

theorem getElem?_mem {α : Type} (l : List α) (i : Nat) (x : α) (h : l[i]? = some x) : x ∈ l :=
  List.mem_of_getElem? h

theorem indexOfUpper_lt (u : UC) (x : Text) : ∀ (names : List Name) (i idx : Nat),
    indexOfUpper u x names i = some idx → idx < i + names.length := by
  intro names
  induction names with
  | nil => intro i idx h; simp [indexOfUpper] at h
  | cons n ns ih =>
    intro i idx h
    simp only [indexOfUpper] at h
    split at h
    · simp only [Option.some.injEq] at h; subst h; simp
    · have := ih (i + 1) idx h; simp; omega

theorem namedCells_error (u : UC) (names : List Name) (values : List Text) (hlen : names.length = values.length) :
    ∀ (attrs : List (Name × Name)) (e : BuildErr), namedCells u names values attrs = .error e →
      e = .parseErr ∧ ∃ a ∈ attrs, ∃ v ∈ values, deserialize u a.2 v = none := by
  intro attrs
  induction attrs with
  | nil => intro e h; simp [namedCells] at h
  | cons a attrs ih =>
    intro e h
    obtain ⟨nm, ty⟩ := a
    simp only [namedCells] at h
    cases hi : indexOfUpper u (u.upper nm) names 0 with
    | none =>
      rw [hi] at h
      simp only at h
      cases hr : namedCells u names values attrs with
      | ok cells => rw [hr] at h; simp at h
      | error e' =>
        rw [hr] at h; simp only [Except.error.injEq] at h; subst h
        obtain ⟨h1, a', ha', v', hv', hd'⟩ := ih e' hr
        exact ⟨h1, a', by simp [ha'], v', hv', hd'⟩
    | some idx =>
      rw [hi] at h
      simp only at h
      have hlt := indexOfUpper_lt u _ names 0 idx hi
      cases hv : values[idx]? with
      | none =>
        exfalso
        rw [List.getElem?_eq_none_iff] at hv
        omega
      | some v =>
        rw [hv] at h
        simp only at h
        cases hd : deserialize u ty v with
        | none =>
          rw [hd] at h; simp only [Except.error.injEq] at h; subst h
          exact ⟨rfl, (nm, ty), by simp, v, List.mem_of_getElem? hv, hd⟩
        | some x =>
          rw [hd] at h
          simp only at h
          cases hr : namedCells u names values attrs with
          | ok cells => rw [hr] at h; simp at h
          | error e' =>
            rw [hr] at h; simp only [Except.error.injEq] at h; subst h
            obtain ⟨h1, a', ha', v', hv', hd'⟩ := ih e' hr
            exact ⟨h1, a', by simp [ha'], v', hv', hd'⟩

theorem newRowOk_false (u : UC) (c : ClassB) (h : newRowOk u c = false) :
    ∃ a ∈ c.attrs, c.referential.contains a.1 = false ∧ tyOfName u a.2 = none := by
  unfold newRowOk at h
  rw [List.all_eq_false] at h
  obtain ⟨a, ha, hx⟩ := h
  refine ⟨a, ha, ?_⟩
  simp only [Bool.or_eq_true, not_or, Bool.not_eq_true, Option.isSome_eq_false_iff, Option.isNone_iff_eq_none] at hx
  exact hx

/-- why one INSERT statement fails: the parsing exception for an arity mismatch of a named INSERT or a value that
    `deserialize_value` cannot read for the type of its column; the metamodel exception for a (non-referential)
    attribute whose type `default_value` does not know, or for a named INSERT into an undeclared class two of whose
    names coincide after upper-casing.  `c` is the class of the statement's kind, declared or inferred. -/
theorem popInstance_error (u : UC) (s : BState) (kind : Name) (values : List Text) (names : Option (List Name)) (e : BuildErr)
    (h : popInstance u s kind values names = .error e) :
    (e = .parseErr ∧ ((∃ ns, names = some ns ∧ ns ≠ [] ∧ ns.length ≠ values.length) ∨
        ∃ c : ClassB, ∃ a ∈ c.attrs, ∃ v ∈ values, deserialize u a.2 v = none)) ∨
    (e = .metaErr ∧ ((∃ c : ClassB, ∃ a ∈ c.attrs, c.referential.contains a.1 = false ∧ tyOfName u a.2 = none) ∨
        (∃ ns, names = some ns ∧ ns ≠ [] ∧ s.find? u kind = none ∧ attrNamesOk u (inferredAttrs u ns values) = false))) := by
  unfold popInstance at h
  by_cases hmis : (isNamed names && (names.getD []).length != values.length) = true
  · simp only [hmis, if_true, Except.error.injEq] at h; subst h
    left; refine ⟨rfl, Or.inl ?_⟩
    simp only [Bool.and_eq_true, bne_iff_ne, ne_eq] at hmis
    obtain ⟨hnamed, hne⟩ := hmis
    cases names with
    | none => simp [isNamed] at hnamed
    | some ns =>
      cases ns with
      | nil => simp [isNamed] at hnamed
      | cons n ns' => exact ⟨n :: ns', rfl, by simp, by simpa using hne⟩
  · simp only [hmis, Bool.false_eq_true, if_false] at h
    by_cases hinf : inferOk u s kind (isNamed names) (names.getD []) values = true
    case neg =>
      simp only [hinf, Bool.not_false, if_true, Except.error.injEq] at h; subst h
      right; refine ⟨rfl, Or.inr ?_⟩
      cases names with
      | none => exact absurd (inferOk_positional u s kind _ values) (by simpa [isNamed] using hinf)
      | some ns =>
        cases ns with
        | nil => exact absurd (inferOk_positional u s kind _ values) (by simpa [isNamed] using hinf)
        | cons n ns' =>
          refine ⟨n :: ns', rfl, by simp, ?_⟩
          simp only [isNamed, Option.getD_some] at hinf
          unfold inferOk at hinf
          cases hs : s.find? u kind with
          | some c => simp [hs] at hinf
          | none =>
            rw [hs] at hinf
            simp only [inferredFor, if_true] at hinf
            exact ⟨rfl, by simpa using hinf⟩
    simp only [hinf, Bool.not_true, Bool.false_eq_true, if_false] at h
    cases hfind : (ensureClass u s kind (isNamed names) (names.getD []) values).find? u kind with
    | none =>
      exfalso
      unfold ensureClass at hfind
      cases hs : s.find? u kind with
      | some c => simp [hs] at hfind
      | none =>
        rw [hs] at hfind
        simp only [BState.find?, List.find?_append] at hfind
        simp at hfind
    | some c =>
      rw [hfind] at h
      simp only at h
      by_cases hrow : (!newRowOk u c) = true
      · simp only [hrow, if_true, Except.error.injEq] at h; subst h
        right
        obtain ⟨a, ha, h1, h2⟩ := newRowOk_false u c (by simpa using hrow)
        exact ⟨rfl, Or.inl ⟨c, a, ha, h1, h2⟩⟩
      · simp only [hrow, Bool.false_eq_true, if_false] at h
        cases hcells : cellsOf u c (isNamed names) (names.getD []) values with
        | ok cells => rw [hcells] at h; simp at h
        | error e' =>
          rw [hcells] at h
          simp only [Except.error.injEq] at h; subst h
          left
          unfold cellsOf at hcells
          by_cases hnamed : isNamed names = true
          · simp only [hnamed, if_true] at hcells
            have hlen : (names.getD []).length = values.length := by
              simp only [hnamed, Bool.true_and, bne_iff_ne, ne_eq, Decidable.not_not] at hmis
              exact hmis
            obtain ⟨h1, a, ha, v, hv, hd⟩ := namedCells_error u _ values hlen c.attrs e' hcells
            exact ⟨h1, Or.inr ⟨c, a, ha, v, hv, hd⟩⟩
          · simp only [hnamed, Bool.false_eq_true, if_false] at hcells
            obtain ⟨h1, a, ha, v, hv, hd⟩ := positionalCells_error u c c.attrs values e' hcells
            exact ⟨h1, Or.inr ⟨c, a, ha, v, hv, hd⟩⟩

/-- phase 4 fails on some INSERT statement, in some state reached before it -/
theorem popInstances_witness (u : UC) : ∀ (stmts : List Stmt) (s : BState) (e : BuildErr),
    popInstances u stmts s = .error e →
      ∃ kind values names s', Stmt.insert kind values names ∈ stmts ∧ popInstance u s' kind values names = .error e := by
  intro stmts
  induction stmts with
  | nil => intro s e h; simp [popInstances] at h
  | cons st rest ih =>
    intro s e h
    cases st with
    | insert kind values names =>
      simp only [popInstances] at h
      cases hp : popInstance u s kind values names with
      | error e' =>
        rw [hp] at h; simp only [Except.error.injEq] at h; subst h
        exact ⟨kind, values, names, s, by simp, hp⟩
      | ok s' =>
        rw [hp] at h
        obtain ⟨k, v, n, s'', hm, hq⟩ := ih s' e h
        exact ⟨k, v, n, s'', by simp [hm], hq⟩
    | createTable _ _ =>
      simp only [popInstances] at h
      obtain ⟨k, v, n, s'', hm, hq⟩ := ih s e h; exact ⟨k, v, n, s'', by simp [hm], hq⟩
    | createIndex _ _ _ =>
      simp only [popInstances] at h
      obtain ⟨k, v, n, s'', hm, hq⟩ := ih s e h; exact ⟨k, v, n, s'', by simp [hm], hq⟩
    | createRop _ _ _ _ _ _ _ _ _ =>
      simp only [popInstances] at h
      obtain ⟨k, v, n, s'', hm, hq⟩ := ih s e h; exact ⟨k, v, n, s'', by simp [hm], hq⟩

/-- the documented causes of the metamodel exception -/
def MetaCause (u : UC) (stmts : List Stmt) : Prop :=
  (∃ kind attrs, Stmt.createTable kind attrs ∈ stmts) ∨
  (∃ kind name attrs, Stmt.createIndex kind name attrs ∈ stmts ∧ attrs ≠ []) ∨
  (∃ rel sk sc sks sp tk tc tks tp, Stmt.createRop rel sk sc sks sp tk tc tks tp ∈ stmts) ∨
  (∃ kind values names, Stmt.insert kind values names ∈ stmts ∧
    ((∃ c : ClassB, ∃ a ∈ c.attrs, c.referential.contains a.1 = false ∧ tyOfName u a.2 = none) ∨
     (∃ ns, names = some ns ∧ ns ≠ [] ∧ attrNamesOk u (inferredAttrs u ns values) = false)))

/-- the documented causes of the parsing exception during a build -/
def ParseCause (u : UC) (stmts : List Stmt) : Prop :=
  ∃ kind values names, Stmt.insert kind values names ∈ stmts ∧
    ((∃ ns, names = some ns ∧ ns ≠ [] ∧ ns.length ≠ values.length) ∨
      ∃ c : ClassB, ∃ a ∈ c.attrs, ∃ v ∈ values, deserialize u a.2 v = none)

theorem build_error_cause (u : UC) (stmts : List Stmt) (e : BuildErr) (h : build u stmts = .error e) :
    (e = .metaErr ∧ MetaCause u stmts) ∨ (e = .parseErr ∧ ParseCause u stmts) := by
  unfold build at h
  cases h1 : popClasses u stmts BState.empty with
  | error e1 =>
    rw [h1] at h; simp only [Except.error.injEq] at h; subst h
    obtain ⟨he, k, a, hm⟩ := popClasses_error u stmts _ e1 h1
    exact Or.inl ⟨he, Or.inl ⟨k, a, hm⟩⟩
  | ok s1 =>
    rw [h1] at h; simp only at h
    cases h2 : popIdents u stmts s1 with
    | error e2 =>
      rw [h2] at h; simp only [Except.error.injEq] at h; subst h
      obtain ⟨he, k, n, a, hm, hne⟩ := popIdents_error u stmts _ e2 h2
      exact Or.inl ⟨he, Or.inr (Or.inl ⟨k, n, a, hm, hne⟩)⟩
    | ok s2 =>
      rw [h2] at h; simp only at h
      cases h3 : popAssocs u stmts s2 with
      | error e3 =>
        rw [h3] at h; simp only [Except.error.injEq] at h; subst h
        obtain ⟨he, hw⟩ := popAssocs_error u stmts _ e3 h3
        exact Or.inl ⟨he, Or.inr (Or.inr (Or.inl hw))⟩
      | ok s3 =>
        rw [h3] at h; simp only at h
        obtain ⟨k, v, n, s', hm, hp⟩ := popInstances_witness u stmts s3 e h
        rcases popInstance_error u s' k v n e hp with ⟨he, hc⟩ | ⟨he, hc⟩
        · exact Or.inr ⟨he, k, v, n, hm, hc⟩
        · refine Or.inl ⟨he, Or.inr (Or.inr (Or.inr ⟨k, v, n, hm, ?_⟩))⟩
          rcases hc with hc | ⟨ns, h1, h2, _, h4⟩
          · exact Or.inl hc
          · exact Or.inr ⟨ns, h1, h2, h4⟩

end Pyx.Sql
