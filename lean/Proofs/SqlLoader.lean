import Proofs.SqlParserTotal
import PyxModel.Sql.Loader
import Proofs.SqlAttrNames

set_option linter.unusedSimpArgs false

/-! the loader as a state machine, and the documented outcomes of a build -/
namespace Pyx.Sql

def isAccepted (u : UC) (t : Text) : Bool :=
  match classify u t with
  | .accepted _ => true
  | .parsing => false

def acceptedStmts (u : UC) (t : Text) : List Stmt :=
  match classify u t with
  | .accepted s => s
  | .parsing => []

theorem input_rejected (u : UC) (l : Loader) (t : Text) (h : isAccepted u t = false) : (l.input u t).1 = l := by
  unfold isAccepted at h
  unfold Loader.input
  cases hc : classify u t with
  | accepted s => rw [hc] at h; simp at h
  | parsing => rfl

theorem input_statements (u : UC) (l : Loader) (t : Text) :
    (l.input u t).1.statements = l.statements ++ acceptedStmts u t := by
  unfold Loader.input acceptedStmts
  cases classify u t <;> simp

theorem acceptedStmts_rejected (u : UC) (t : Text) (h : isAccepted u t = false) : acceptedStmts u t = [] := by
  unfold isAccepted at h
  unfold acceptedStmts
  cases hc : classify u t with
  | accepted s => rw [hc] at h; simp at h
  | parsing => rfl

theorem inputs_statements (u : UC) : ∀ (texts : List Text) (l : Loader),
    (Loader.inputs u l texts).statements = l.statements ++ texts.flatMap (acceptedStmts u) := by
  intro texts
  induction texts with
  | nil => intro l; simp [Loader.inputs]
  | cons t ts ih =>
    intro l
    rw [Loader.inputs, ih, input_statements]; simp

theorem inputs_filter (u : UC) : ∀ (texts : List Text) (l : Loader),
    Loader.inputs u l texts = Loader.inputs u l (texts.filter (isAccepted u)) := by
  intro texts
  induction texts with
  | nil => intro l; rfl
  | cons t ts ih =>
    intro l
    cases h : isAccepted u t with
    | true => simp only [List.filter_cons, h, if_true, Loader.inputs]; exact ih _
    | false =>
      simp only [List.filter_cons, h, Bool.false_eq_true, if_false, Loader.inputs, input_rejected u l t h]
      exact ih _

/-! ### why the cells of one INSERT cannot be read (the phase-level causes: Proofs/SqlBuildCause.lean) -/

theorem positionalCells_error (u : UC) (c : ClassB) : ∀ (attrs : List (Name × Name)) (values : List Text) (e : BuildErr),
    positionalCells u c attrs values = .error e →
      e = .parseErr ∧ ∃ a ∈ attrs, ∃ v ∈ values, deserialize u a.2 v = none := by
  intro attrs
  induction attrs with
  | nil => intro values e h; simp [positionalCells] at h
  | cons a attrs ih =>
    intro values e h
    cases values with
    | nil => simp [positionalCells] at h
    | cons v vs =>
      obtain ⟨nm, ty⟩ := a
      simp only [positionalCells] at h
      cases hd : deserialize u ty v with
      | none =>
        rw [hd] at h; simp only [Except.error.injEq] at h; subst h
        exact ⟨rfl, (nm, ty), by simp, v, by simp, hd⟩
      | some x =>
        rw [hd] at h
        simp only at h
        cases hr : positionalCells u c attrs vs with
        | ok cells => rw [hr] at h; simp at h
        | error e' =>
          rw [hr] at h; simp only [Except.error.injEq] at h; subst h
          obtain ⟨h1, a', ha', v', hv', hd'⟩ := ih vs e' hr
          exact ⟨h1, a', by simp [ha'], v', by simp [hv'], hd'⟩

theorem getElem?_mem {α : Type} (l : List α) (i : Nat) (x : α) (h : l[i]? = some x) : x ∈ l :=
  List.mem_of_getElem? h

theorem indexOfUpper_lt (u : UC) (x : Text) : ∀ (names : List Name) (i idx : Nat),
    indexOfUpper u x names i = some idx → idx < i + names.length := by
  intro names
  induction names with
  | nil => intro i idx h; simp [indexOfUpper] at h
  | cons n ns ih =>
    intro i idx h
    simp only [indexOfUpper] at h
    split at h
    · simp only [Option.some.injEq] at h; subst h; simp
    · have := ih (i + 1) idx h; simp; omega

theorem namedCells_error (u : UC) (names : List Name) (values : List Text) (hlen : names.length = values.length) :
    ∀ (attrs : List (Name × Name)) (e : BuildErr), namedCells u names values attrs = .error e →
      e = .parseErr ∧ ∃ a ∈ attrs, ∃ v ∈ values, deserialize u a.2 v = none := by
  intro attrs
  induction attrs with
  | nil => intro e h; simp [namedCells] at h
  | cons a attrs ih =>
    intro e h
    obtain ⟨nm, ty⟩ := a
    simp only [namedCells] at h
    cases hi : indexOfUpper u (u.upper nm) names 0 with
    | none =>
      rw [hi] at h
      simp only at h
      cases hr : namedCells u names values attrs with
      | ok cells => rw [hr] at h; simp at h
      | error e' =>
        rw [hr] at h; simp only [Except.error.injEq] at h; subst h
        obtain ⟨h1, a', ha', v', hv', hd'⟩ := ih e' hr
        exact ⟨h1, a', by simp [ha'], v', hv', hd'⟩
    | some idx =>
      rw [hi] at h
      simp only at h
      have hlt := indexOfUpper_lt u _ names 0 idx hi
      cases hv : values[idx]? with
      | none =>
        exfalso
        rw [List.getElem?_eq_none_iff] at hv
        omega
      | some v =>
        rw [hv] at h
        simp only at h
        cases hd : deserialize u ty v with
        | none =>
          rw [hd] at h; simp only [Except.error.injEq] at h; subst h
          exact ⟨rfl, (nm, ty), by simp, v, List.mem_of_getElem? hv, hd⟩
        | some x =>
          rw [hd] at h
          simp only at h
          cases hr : namedCells u names values attrs with
          | ok cells => rw [hr] at h; simp at h
          | error e' =>
            rw [hr] at h; simp only [Except.error.injEq] at h; subst h
            obtain ⟨h1, a', ha', v', hv', hd'⟩ := ih e' hr
            exact ⟨h1, a', by simp [ha'], v', hv', hd'⟩

theorem newRowOk_false (u : UC) (c : ClassB) (h : newRowOk u c = false) :
    ∃ a ∈ c.attrs, c.referential.contains a.1 = false ∧ tyOfName u a.2 = none := by
  unfold newRowOk at h
  rw [List.all_eq_false] at h
  obtain ⟨a, ha, hx⟩ := h
  refine ⟨a, ha, ?_⟩
  simp only [Bool.or_eq_true, not_or, Bool.not_eq_true, Option.isSome_eq_false_iff, Option.isNone_iff_eq_none] at hx
  exact hx

end Pyx.Sql
