import Proofs.ExtractShapeLinked

/-!
  C14 — `mk_subsuper_association` of the generated IR (Gen/ExtractShape.lean) on ANY rows of a subtype / supertype relationship,
  the loop over the R_SUB rows included (induction over the row list), every AttributeError ending included, in the order in
  which the IR evaluates:

    r_rto = one(r_subsup).R_SUPER[212].R_RTO[204]()        None without R_SUPER
    target_o_obj = one(r_rto).R_OIR[203].O_OBJ[201]()      None without R_SUPER / supertype class
    for r_sub in many(r_subsup).R_SUB[213]():              no R_SUB row: nothing is dereferenced, nothing is defined
      r_rgo = one(r_sub).R_RGO[205]()
      source_o_obj = one(r_rgo).R_OIR[203].O_OBJ[201]()    None without the subtype class
      _get_related_attributes(r_rgo, r_rto)                ([], []) when r_rto is None; `o_attr.Name` raises on an unresolved O_REF
      source_o_obj.Key_Lett, target_o_obj.Key_Lett         raise when the subtype class / the supertype (class) is missing
-/

namespace Pyx.XShape
open Pyx.Extract Pyx.Gen.ExtractShape

/-- the loop body of `mk_subsuper_association` (named, so that symbolic evaluation does not enter it) -/
def subBody : List Stmt :=
  [ .assign "r_rgo" (.nav { card := .one, start := "r_sub", hops := [{ cls := "R_RGO", rel := 205, phrase := "" }], filter := .all }),
    .assign "source_o_obj" (.nav { card := .one, start := "r_rgo", hops := [{ cls := "R_OIR", rel := 203, phrase := "" }, { cls := "O_OBJ", rel := 201, phrase := "" }], filter := .all }),
    .unpack "source_ids" "target_ids" (.call "_get_related_attributes" ["r_rgo", "r_rto"]),
    .define "define_association" [("rel_id", (.attr "r_rel" "Numb")), ("source_kind", (.attr "source_o_obj" "Key_Lett")), ("target_kind", (.attr "target_o_obj" "Key_Lett")), ("source_keys", (.var "source_ids")), ("target_keys", (.var "target_ids")), ("source_conditional", (.bool true)), ("target_conditional", (.bool false)), ("source_phrase", (.str "")), ("target_phrase", (.str "")), ("source_many", (.bool false)), ("target_many", (.bool false))] none none ]

def subNav : Nav :=
  { card := .many, start := "r_subsup", hops := [{ cls := "R_SUB", rel := 213, phrase := "" }], filter := .all }

/-- the statements of `mk_subsuper_association` ahead of its loop -/
def subHead : List Stmt :=
  [ .assign "r_rel" (.nav { card := .one, start := "r_subsup", hops := [{ cls := "R_REL", rel := 206, phrase := "" }], filter := .all }),
    .assign "r_rto" (.nav { card := .one, start := "r_subsup", hops := [{ cls := "R_SUPER", rel := 212, phrase := "" }, { cls := "R_RTO", rel := 204, phrase := "" }], filter := .all }),
    .assign "target_o_obj" (.nav { card := .one, start := "r_rto", hops := [{ cls := "R_OIR", rel := 203, phrase := "" }, { cls := "O_OBJ", rel := 201, phrase := "" }], filter := .all }) ]

/-- the generated `mk_subsuper_association` IS this (breaks when the source changes) -/
theorem mk_subsuper_association_eq : mk_subsuper_association =
    { params := ["m", "r_subsup"], nested := false, body := subHead ++ [.forNav "r_sub" subNav subBody] } := rfl

/-! the O_REF rows of the pair (subtype j, supertype): the OIR_ID filter separates the subtypes' rows -/

theorem subRefs_lt : ∀ (l : List (Nat × List Ref)) (k j : Nat), j < k →
    (subRefs k l).filter (fun p => oirId p.1 == oirId (.sub j)) = [] := by
  intro l
  induction l with
  | nil => intro k j _; rfl
  | cons a rest ih =>
    intro k j h
    simp only [subRefs, List.filter_append, ih (k + 1) j (by omega), List.append_nil]
    apply List.filter_eq_nil_iff.mpr
    intro p hp
    obtain ⟨r, _, rfl⟩ := List.mem_map.mp hp
    simp [oirId]
    omega

theorem subRefs_at : ∀ (l : List (Nat × List Ref)) (k i : Nat) (s : Nat × List Ref), l[i]? = some s →
    ((subRefs k l).filter (fun p => oirId p.1 == oirId (.sub (k + i)))).map (·.2) = s.2 := by
  intro l
  induction l with
  | nil => intro k i s h; simp at h
  | cons a rest ih =>
    intro k i s h
    cases i with
    | zero =>
      simp only [List.getElem?_cons_zero, Option.some.injEq] at h
      subst h
      simp only [subRefs, List.filter_append, Nat.add_zero, subRefs_lt rest (k + 1) k (by omega), List.append_nil]
      generalize a.2 = refs
      induction refs with
      | nil => rfl
      | cons r t iht => simpa using iht
    | succ i =>
      simp only [List.getElem?_cons_succ] at h
      have h1 : (a.2.map (fun r => (EndId.sub k, r))).filter (fun p => oirId p.1 == oirId (.sub (k + (i + 1)))) = [] := by
        apply List.filter_eq_nil_iff.mpr
        intro p hp
        obtain ⟨r, _, rfl⟩ := List.mem_map.mp hp
        simp [oirId]
        omega
      have h2 := ih (k + 1) i s h
      have h3 : k + 1 + i = k + (i + 1) := by omega
      rw [h3] at h2
      simp only [subRefs, List.filter_append, h1, List.nil_append, h2]

theorem refsFor_sub (w : RelRows) (j : Nat) (s : Nat × List Ref) (h : w.subs[j]? = some s) :
    refsFor w (.sub j) .super = s.2 := by
  have := subRefs_at w.subs 0 j s h
  simpa [refsFor, refsOn] using this

/-! ### one pass through the loop body -/

/-- the `define_association` call of one subtype row -/
def subCall (numb : Nat) (sc pc : Class) (refs : List Ref) : Call RI :=
  { fn := "define_association",
    args := [("rel_id", .nat numb), ("source_kind", .str sc.kl), ("target_kind", .str pc.kl),
      ("source_keys", .strs (keyNames sc (refs.map (·.rattr)))), ("target_keys", .strs (keyNames pc (refs.map (·.iattr)))),
      ("source_conditional", .bool true), ("target_conditional", .bool false), ("source_phrase", .str ""),
      ("target_phrase", .str ""), ("source_many", .bool false), ("target_many", .bool false)],
    star := [] }

def subItem (sc pc : Class) (refs : List Ref) : SAssoc :=
  { src := { kind := sc.kl, keys := keyNames sc (refs.map (·.rattr)), many := false, cond := true, phrase := "" },
    tgt := { kind := pc.kl, keys := keyNames pc (refs.map (·.iattr)), many := false, cond := false, phrase := "" } }

theorem decode_subCall (numb : Nat) (sc pc : Class) (refs : List Ref) :
    decodeAssoc (subCall numb sc pc refs) = some (numb, subItem sc pc refs) := by
  simp [decodeAssoc, subCall, subItem, argNat, argStr, argStrs, argBool, List.lookup]

/-- one pass through the loop body with the R_SUPER row in place: the subtype's association, or AttributeError when the
    subtype class, the supertype class or an attribute of an O_REF row of the pair is missing -/
theorem subStep (d : ClassDiagram) (numb : Nat) (w : RelRows) (sup : Nat) (hsup : w.super = some sup) (j : Nat)
    (s : Nat × List Ref) (hs : w.subs[j]? = some s) (L : Loc RI) (C : Calls RI)
    (h1 : L "r_rel" = .inst (some .rel)) (h2 : L "r_rto" = .inst (some (.rto .super)))
    (h3 : L "target_o_obj" = .inst ((findClass d sup).map RI.obj)) :
    iStmts (relWorld d numb w) (callAt (relWorld d numb w) defs 4) 4 subBody (L.set "r_sub" (.inst (some (RI.row (.sub j))))) C =
      match findClass d s.1, findClass d sup with
      | some sc, some pc =>
        if refsResolved sc pc s.2 then
          .ok (((((L.set "r_sub" (.inst (some (RI.row (.sub j))))).set "r_rgo" (.inst (some (RI.rgo (.sub j))))).set
            "source_o_obj" (.inst (some (RI.obj sc)))).set "source_ids" (.strs (keyNames sc (s.2.map (·.rattr))))).set
            "target_ids" (.strs (keyNames pc (s.2.map (·.iattr)))), C ++ [subCall numb sc pc s.2], .next)
        else .error .attributeError
      | _, _ => .error .attributeError := by
  have hrf : refsFor w (.sub j) .super = s.2 := refsFor_sub w j s hs
  have hrel := fun Lc C => relattrs d numb w 3 (.sub j) .super (.rgo (.sub j)) (by simp [relAttr]) Lc C
  simp only [Nat.reduceAdd, hrf] at hrel
  cases hsc : findClass d s.1 <;> cases hpc : findClass d sup <;> cases hres : resolvedAt d w (.sub j) .super s.2
  case some.some.true sc pc =>
    have hr : refsResolved sc pc s.2 = true := by
      simpa [resolvedAt, refsResolved, attrAt, classOfEnd, endOf, hs, hsup, plainEnd, hsc, hpc] using hres
    have hn1 : namesAt d w (.sub j) (s.2.map (·.rattr)) = keyNames sc (s.2.map (·.rattr)) := by
      simp [namesAt, keyNames, attrAt, classOfEnd, endOf, hs, plainEnd, hsc]
    have hn2 : namesAt d w .super (s.2.map (·.iattr)) = keyNames pc (s.2.map (·.iattr)) := by
      simp [namesAt, keyNames, attrAt, classOfEnd, endOf, hsup, plainEnd, hpc]
    xs1 [subBody, subCall, hrel, hres, hr, hn1, hn2, hs, hsup, hsc, hpc, h1, h2, h3, plainEnd]
  case some.some.false sc pc =>
    have hr : refsResolved sc pc s.2 = false := by
      rw [← hres]; simp [resolvedAt, refsResolved, attrAt, classOfEnd, endOf, hs, hsup, plainEnd, hsc, hpc]
    xs1 [subBody, hrel, hres, hr, hs, hsup, hsc, hpc, h1, h2, h3, plainEnd]
  all_goals
    xs1 [subBody, hrel, hres, hs, hsup, hsc, hpc, h1, h2, h3, plainEnd]

/-- one pass through the loop body without the R_SUPER row: `source_o_obj.Key_Lett` or `target_o_obj.Key_Lett` raises
    (`_get_related_attributes(r_rgo, None)` has returned two empty lists) -/
theorem subStep_no_super (d : ClassDiagram) (numb : Nat) (w : RelRows) (j : Nat)
    (s : Nat × List Ref) (hs : w.subs[j]? = some s) (L : Loc RI) (C : Calls RI)
    (h1 : L "r_rel" = .inst (some .rel)) (h2 : L "r_rto" = .inst none) (h3 : L "target_o_obj" = .inst none) :
    iStmts (relWorld d numb w) (callAt (relWorld d numb w) defs 4) 4 subBody (L.set "r_sub" (.inst (some (RI.row (.sub j))))) C =
      .error .attributeError := by
  have hr0 := fun xo Lc C => relattrs_none_rto d numb w 3 xo Lc C
  simp only [Nat.reduceAdd] at hr0
  cases hsc : findClass d s.1 <;> xs1 [subBody, hr0, hs, hsc, h1, h2, h3, plainEnd]

/-! ### the loop over the R_SUB rows -/

/-- the `define_association` calls of the subtype rows `rest` -/
def subCalls (d : ClassDiagram) (numb : Nat) (pc : Class) (rest : List (Nat × List Ref)) : List (Call RI) :=
  rest.filterMap (fun s => (findClass d s.1).map (fun sc => subCall numb sc pc s.2))

/-- the loop of `mk_subsuper_association` over the R_SUB rows `rest` = the rows of `w` from position `j` on: one
    `define_association` per row, in row order, or AttributeError at the first row whose pair does not resolve (the calls
    already made are lost with the exception) -/
theorem subLoop (d : ClassDiagram) (numb : Nat) (w : RelRows) (sup : Nat) (hsup : w.super = some sup) :
    ∀ (rest : List (Nat × List Ref)) (j : Nat), (∀ i, rest[i]? = w.subs[j + i]?) → ∀ (L : Loc RI) (C : Calls RI),
      L "r_rel" = .inst (some .rel) → L "r_rto" = .inst (some (.rto .super)) →
      L "target_o_obj" = .inst ((findClass d sup).map RI.obj) →
      (rest.all (fun s => pairResolved d s.1 sup s.2) = true → ∀ pc, findClass d sup = some pc →
        ∃ L', forLoop (fun x L' C' => iStmts (relWorld d numb w) (callAt (relWorld d numb w) defs 4) 4 subBody
            (L'.set "r_sub" (.inst (some x))) C') (rowsFrom EndId.sub j rest) L C = .ok (L', C ++ subCalls d numb pc rest, .next)) ∧
      (rest.all (fun s => pairResolved d s.1 sup s.2) = false →
        forLoop (fun x L' C' => iStmts (relWorld d numb w) (callAt (relWorld d numb w) defs 4) 4 subBody
            (L'.set "r_sub" (.inst (some x))) C') (rowsFrom EndId.sub j rest) L C = .error .attributeError) := by
  intro rest
  induction rest with
  | nil =>
    intro j _ L C _ _ _
    exact ⟨fun _ pc _ => ⟨L, by simp [rowsFrom, forLoop, subCalls]⟩, fun h => by simp at h⟩
  | cons s rest ih =>
    intro j hsuf L C h1 h2 h3
    have hs : w.subs[j]? = some s := by simpa using (hsuf 0).symm
    have hsuf' : ∀ i, rest[i]? = w.subs[j + 1 + i]? := by
      intro i
      have := hsuf (i + 1)
      have h4 : j + (i + 1) = j + 1 + i := by omega
      simpa [h4] using this
    have hstep := subStep d numb w sup hsup j s hs L C h1 h2 h3
    simp only [rowsFrom, forLoop, hstep]
    cases hsc : findClass d s.1 with
    | none => simp [pairResolved, hsc]
    | some sc =>
      cases hpc : findClass d sup with
      | none => simp [pairResolved, hpc]
      | some pc =>
        cases hr : refsResolved sc pc s.2 with
        | false => simp [pairResolved, hsc, hpc, hr]
        | true =>
          obtain ⟨ihT, ihF⟩ := ih (j + 1) hsuf'
            (((((L.set "r_sub" (.inst (some (RI.row (.sub j))))).set "r_rgo" (.inst (some (RI.rgo (.sub j))))).set
              "source_o_obj" (.inst (some (RI.obj sc)))).set "source_ids" (.strs (keyNames sc (s.2.map (·.rattr))))).set
              "target_ids" (.strs (keyNames pc (s.2.map (·.iattr)))))
            (C ++ [subCall numb sc pc s.2]) (by simp [Loc.set, h1]) (by simp [Loc.set, h2]) (by simp [Loc.set, h3, hpc])
          have hall : (s :: rest).all (fun s => pairResolved d s.1 sup s.2) = rest.all (fun s => pairResolved d s.1 sup s.2) := by
            simp [pairResolved, hsc, hpc, hr]
          rw [hall]
          simp only [hr, ↓reduceIte]
          refine ⟨fun h pc' hpc' => ?_, fun h => ihF h⟩
          have : pc' = pc := by simpa using hpc'.symm
          subst this
          obtain ⟨L', hL⟩ := ihT h pc' hpc
          refine ⟨L', ?_⟩
          rw [hL]
          simp [subCalls, hsc]

theorem decode_subCalls (d : ClassDiagram) (numb : Nat) (pc : Class) (rest : List (Nat × List Ref)) :
    decodeAll (subCalls d numb pc rest) =
      some (rest.filterMap (fun s => (findClass d s.1).map (fun sc => (numb, subItem sc pc s.2)))) := by
  induction rest with
  | nil => rfl
  | cons s rest ih =>
    cases hsc : findClass d s.1 with
    | none => simpa [subCalls, hsc] using ih
    | some sc =>
      have ih' : decodeAll (List.filterMap (fun s => (findClass d s.1).map (fun sc => subCall numb sc pc s.2)) rest) = _ := ih
      simp [subCalls, hsc, decodeAll, decode_subCall, ih']

/-! ### the function as a whole -/

/-- the statements ahead of the loop, and the candidates of the loop -/
theorem subsup_head (d : ClassDiagram) (numb : Nat) (w : RelRows) (C : Calls RI) :
    iStmts (relWorld d numb w) (callAt (relWorld d numb w) defs 4) 4 (subHead ++ [.forNav "r_sub" subNav subBody])
        ((Loc.empty.set "m" .opaque).set "r_subsup" (.inst (some .subsup))) C =
      thenStep (forLoop (fun x L' C' => iStmts (relWorld d numb w) (callAt (relWorld d numb w) defs 4) 4 subBody
          (L'.set "r_sub" (.inst (some x))) C') (rowsFrom EndId.sub 0 w.subs)
        (((((Loc.empty.set "m" .opaque).set "r_subsup" (.inst (some .subsup))).set "r_rel" (.inst (some .rel))).set
          "r_rto" (.inst (w.super.map (fun _ => RI.rto .super)))).set
          "target_o_obj" (.inst (w.super.bind (fun sup => (findClass d sup).map RI.obj)))) C)
        (fun L C => .ok (L, C, .next)) := by
  cases hsup : w.super with
  | none => simp [subHead, subNav, iStmts, iStmt, thenStep, eExpr, eNav, startSet, evalHops, Loc.set,
      Except.map, relHop, hp, hsup]
  | some sup =>
    cases hpc : findClass d sup <;>
    simp [subHead, subNav, iStmts, iStmt, thenStep, eExpr, eNav, startSet, evalHops, Loc.set,
      Except.map, relHop, hp, hsup, hpc, classOfEnd, endOf, plainEnd]

/-- `mk_subsuper_association` on ANY rows: one association per R_SUB row in row order, nothing without R_SUB rows, AttributeError
    when (with at least one R_SUB row) the R_SUPER row, a class or an attribute of an O_REF row is missing -/
theorem subsup_eq (d : ClassDiagram) (numb : Nat) (w : RelRows) (Lc : Loc RI) :
    assocsOf (callAt (relWorld d numb w) defs 5 "mk_subsuper_association" [.opaque, .inst (some .subsup)] Lc []) =
      expected numb (match w.subs, w.super with
        | [], _ => .defined []
        | _ :: _, some s => kindOutcome d (.subsup s w.subs)
        | _ :: _, none => .attributeError) := by
  rw [callAt_def _ _ 4 _ _ _ _ _ rfl lookup_mk_subsuper_association rfl, mk_subsuper_association_eq]
  simp only [bindAll, Bool.false_eq_true, ↓reduceIte]
  rw [subsup_head]
  have hcases : w.subs = [] ∨ ∃ s rest, w.subs = s :: rest := by cases w.subs <;> simp
  rcases hcases with hsubs | ⟨s, rest, hsubs⟩
  · simp [hsubs, rowsFrom, forLoop, thenStep, retOf, assocsOf, decodeAll, expected]
  · have hs : w.subs[0]? = some s := by simp [hsubs]
    cases hsup : w.super with
    | none =>
      have hexp : (match w.subs, (none : Option Nat) with
          | [], _ => AssocOutcome.defined []
          | _ :: _, some s => kindOutcome d (.subsup s w.subs)
          | _ :: _, none => .attributeError) = .attributeError := by rw [hsubs]
      have hstep := fun L C h1 h2 h3 => subStep_no_super d numb w 0 s hs L C h1 h2 h3
      rw [hexp]
      have hrows : rowsFrom EndId.sub 0 w.subs = RI.row (.sub 0) :: rowsFrom EndId.sub 1 rest := by rw [hsubs]; rfl
      simp only [hrows, forLoop, Option.map, Option.bind]
      rw [hstep _ _ (by simp [Loc.set]) (by simp [Loc.set]) (by simp [Loc.set])]
      rfl
    | some sup =>
      have hexp : (match w.subs, some sup with
          | [], _ => AssocOutcome.defined []
          | _ :: _, some s => kindOutcome d (.subsup s w.subs)
          | _ :: _, none => .attributeError) = kindOutcome d (.subsup sup w.subs) := by rw [hsubs]
      rw [hexp]
      obtain ⟨hT, hF⟩ := subLoop d numb w sup hsup w.subs 0 (fun i => by simp)
        (((((Loc.empty.set "m" .opaque).set "r_subsup" (.inst (some .subsup))).set "r_rel" (.inst (some .rel))).set
          "r_rto" (.inst ((some sup).map (fun _ => RI.rto .super)))).set
          "target_o_obj" (.inst ((some sup).bind (fun sup => (findClass d sup).map RI.obj)))) []
        (by simp [Loc.set]) (by simp [Loc.set]) (by simp [Loc.set])
      cases hall : w.subs.all (fun s => pairResolved d s.1 sup s.2) with
      | false =>
        rw [hF hall]
        simp [thenStep, retOf, assocsOf, kindOutcome, resolvedRel, RelKind.asRel, hall, expected]
      | true =>
        cases hpc : findClass d sup with
        | none =>
          exfalso
          rw [hsubs] at hall
          simp [pairResolved, hpc] at hall
        | some pc =>
          obtain ⟨L', hL⟩ := hT hall pc hpc
          rw [hL]
          simp [thenStep, retOf, assocsOf, decode_subCalls, kindOutcome, resolvedRel, RelKind.asRel, hall, hpc, groupOf,
            expected, subItem, List.map_filterMap]
          rfl

end Pyx.XShape
