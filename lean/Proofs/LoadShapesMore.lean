import Proofs.LoadShapes
import Proofs.LoadDecisions

/-!
  Additions to the C03 source tie of the API route (`MetaClass.new` with referential values):

  * `relate` of the API model AS A WHOLE (the arguments handed to `_find_link`, the orientation of the pair it returns,
    the guarded link calls, the outcome) as the interpretation of `findBody`, `linkDefs`, `relateProg`;
  * the query loop of the batch relate (`relateQuery`): each instance of the other class tested by the translated
    `WhereEqual` loop, each hit related with the argument order `newRelateArgs` read from the source;
  * the links the batch relate iterates (`linksOfKind`) from the `add_link` calls `linkDefs`;
  * the tail of `new` (`apiNew`): the early return when no referential value was given BEFORE the batch relate, as
    the phases `newPhases` say.
-/
namespace Pyx.Load
open Pyx.Gen.RelateShape

/-! ### `relate` as a whole -/

/-- an argument of the program before `_find_link` has answered: the caller's pair -/
def callerKind (k1 k2 : String) : Arg → String
  | .inst1 => k1 | .fromInst => k1
  | .inst2 => k2 | .toInst => k2

def callerIdx (i1 i2 : Nat) : Arg → Nat
  | .inst1 => i1 | .fromInst => i1
  | .inst2 => i2 | .toInst => i2

/-- `relate(from_instance, to_instance, rel_id, phrase)`: `_find_link(<findArgs>)`, the pair as returned (swapped or
    not), then the guarded calls; the program's guards on `deleted` are vacuous here: this model has no `delete` -/
def iRelateApi (body : List (BExp FindAtom × FindAct)) (sd td : LinkDef) (prog : PairProg) (m : Model)
    (k1 : String) (i1 : Nat) (k2 : String) (i2 : Nat) (rel phrase : String) : Model × Outcome :=
  let ka := callerKind k1 k2 prog.findArgs.1
  let kb := callerKind k1 k2 prog.findArgs.2
  let ia := callerIdx i1 i2 prog.findArgs.1
  let ib := callerIdx i1 i2 prog.findArgs.2
  match findLinkBy body sd td ka kb rel phrase 0 (m.assocs.map (·.1)) with
  | none => (m, .unknownLink)
  | some (n, swapped) =>
    match m.assocs[n]? with
    | none => (m, .unknownLink)
    | some (a, L) =>
      let r := runSteps' a sd td prog.steps L (if swapped then ib else ia) (if swapped then ia else ib)
      ({ m with assocs := updateAt m.assocs n (fun p => (p.1, r.1)) }, if r.2 then .ok else .relateError)

theorem relate_eq_generated (m : Model) (k1 : String) (i1 : Nat) (k2 : String) (i2 : Nat) (rel phrase : String)
    (sd td : LinkDef) (hd : linkDefs = [sd, td]) :
    relate m k1 i1 k2 i2 rel phrase = iRelateApi findBody sd td relateProg m k1 i1 k2 i2 rel phrase := by
  unfold relate iRelateApi findLink
  rw [findLinkFrom_eq_generated k1 k2 rel phrase sd td hd]
  simp only [relateProg, callerKind, callerIdx]
  cases findLinkBy findBody sd td k1 k2 rel phrase 0 (m.assocs.map (·.1)) with
  | none => rfl
  | some r =>
    obtain ⟨n, sw⟩ := r
    simp only
    cases m.assocs[n]? with
    | none => rfl
    | some p =>
      obtain ⟨a, L⟩ := p
      have h := fun t s => relateAt_eq_generated a L t s sd td hd
      simp only [relateProg] at h
      cases sw <;> simp [h]

/-! ### the query loop of the batch relate -/

def newArgKind (okind kind : String) : NewArg → String
  | .other => okind
  | .newInst => kind

def newArgIdx (j i : Nat) : NewArg → Nat
  | .other => j
  | .newInst => i

/-- `for other_inst in to_metaclass.query(kwargs): relate(<args.1>, <args.2>, link.rel_id, link.phrase)`; `rel8` is
    the `relate` that is called -/
def iRelateQuery (w : Pyx.Gen.QueryShape.WhereShape) (args : NewArg × NewArg)
    (rel8 : Model → String → Nat → String → Nat → String → String → Model × Outcome)
    (fuel : Nat) (kwargs : List (String × Val)) (okind kind : String) (i : Nat) (rel phrase : String) :
    List Nat → Model → Model × Outcome
  | [], m => (m, .ok)
  | j :: js, m =>
    match rowMatchesBy w m fuel okind j kwargs with
    | none => (m, .recursionError)
    | some false => iRelateQuery w args rel8 fuel kwargs okind kind i rel phrase js m
    | some true =>
      match rel8 m (newArgKind okind kind args.1) (newArgIdx j i args.1) (newArgKind okind kind args.2)
          (newArgIdx j i args.2) rel phrase with
      | (m', .ok) => iRelateQuery w args rel8 fuel kwargs okind kind i rel phrase js m'
      | r => r

theorem relateQuery_eq_generated (sd td : LinkDef) (hd : linkDefs = [sd, td]) (fuel : Nat)
    (kwargs : List (String × Val)) (okind kind : String) (i : Nat) (rel phrase : String) :
    ∀ (js : List Nat) (m : Model),
      relateQuery fuel kwargs okind kind i rel phrase js m =
        iRelateQuery Pyx.Gen.QueryShape.whereShape newRelateArgs (iRelateApi findBody sd td relateProg)
          fuel kwargs okind kind i rel phrase js m
  | [], _ => rfl
  | j :: js, m => by
    unfold relateQuery iRelateQuery
    rw [rowMatches_eq_generated]
    cases rowMatchesBy Pyx.Gen.QueryShape.whereShape m fuel okind j kwargs with
    | none => rfl
    | some b =>
      cases b with
      | false => exact relateQuery_eq_generated sd td hd fuel kwargs okind kind i rel phrase js m
      | true =>
        simp only [newRelateArgs, newArgKind, newArgIdx]
        rw [← relate_eq_generated m okind j kind i rel phrase sd td hd]
        cases hr : relate m okind j kind i rel phrase with
        | mk m' o =>
          cases o <;> simp only
          exact relateQuery_eq_generated sd td hd fuel kwargs okind kind i rel phrase js m'

/-! ### the links the batch relate iterates -/

def endKeys (a : AssocStmt) : End → List String
  | .source => a.srcKeys
  | .target => a.tgtKeys

/-- `self.links.values()` of class `kind`: per association the links that start at the class, in the order of the
    `add_link` calls; each with its key map (`source_keys ↦ target_keys` on the source link, the reverse on the target
    link), the class it leads to, the rel id and the phrase it is stored under -/
def iLinksOfKind (defs : List LinkDef) (all : List AssocStmt) (kind : String) :
    List (List (String × String) × String × String × String) :=
  all.flatMap (fun a => defs.flatMap (fun d =>
    if endKind a d.fromCls = kind then
      [(dictOfPairs ((endKeys a d.toCls).zip (endKeys a d.fromCls)), endKind a d.toCls, a.rel, endPhrase a d.phrase)]
    else []))

theorem linksOfKind_eq_generated (all : List AssocStmt) (kind : String) :
    linksOfKind all kind = iLinksOfKind linkDefs all kind := by
  unfold linksOfKind iLinksOfKind
  congr 1
  funext a
  by_cases h1 : a.tgtKind = kind <;> by_cases h2 : a.srcKind = kind <;>
    simp [linkDefs, endKind, endPhrase, endKeys, keyMap, revKeyMap, h1, h2]

/-! ### the tail of `new` -/

/-- the phases of `MetaClass.new` after the instance exists and the given values are stored: return at once when no
    referential value was given, the batch relate (an exception ends the call), return the instance; the other phases
    do not touch links -/
def iNewTail (refsEmpty : Bool) (batch : Model → Model × Outcome) : List NewPhase → Model → Model × Outcome
  | [], m => (m, .ok)
  | .returnIfNoReferentials :: rest, m => if refsEmpty then (m, .ok) else iNewTail refsEmpty batch rest m
  | .batchRelate :: rest, m =>
    match batch m with
    | (m', .ok) => iNewTail refsEmpty batch rest m'
    | r => r
  | .returnInst :: _, m => (m, .ok)
  | _ :: rest, m => iNewTail refsEmpty batch rest m

theorem apiNew_eq_generated (m : Model) (kind : String) (args : List Val) :
    apiNew m kind args =
      match findCls m.classes kind with
      | none => (m, .unmodelled)
      | some c =>
        let all := m.assocs.map (·.1)
        let refNames := referential all kind
        let given : Row := (c.attrs.zip args).map (fun p => (p.1.1, p.2))
        let refs := given.filter (fun p => refNames.contains p.1)
        iNewTail refs.isEmpty (relateLinks refs kind c.rows.length (iLinksOfKind linkDefs all kind)) newPhases
          { m with classes := addRow m.classes kind (stripRow refNames given) } := by
  unfold apiNew
  cases findCls m.classes kind with
  | none => rfl
  | some c =>
    simp only [newPhases, iNewTail, linksOfKind_eq_generated]
    split
    · rfl
    · generalize relateLinks _ kind c.rows.length _ _ = r
      obtain ⟨m', o⟩ := r
      cases o <;> rfl

end Pyx.Load
