import PyxModel.Load
import PyxModel.LoadApi
import Gen.LoadDecisions
import Gen.LinkDecisions

/-! C03: the model's decisions equal the ones translated from the source (Gen/LoadDecisions.lean):
    the null rule, the two key computations, the direction and the unchecked connects of the batch relate. -/

namespace Pyx.Load
open Pyx.Gen.LoadDecisions

/-! ### Python-level views of a model value (what `_is_null` asks of it) -/

/-- `bool(value)` -/
def Val.truthy : Val → Bool
  | .int i => decide (i ≠ 0)
  | .str s => decide (s ≠ "")
  | .bool b => b
  | .id n => decide (n ≠ 0)
  | .real r => decide (r ≠ 0)
  | .none => false

/-- `value is None` -/
def Val.isNone : Val → Bool
  | .none => true
  | _ => false

/-- `value == 0` (False == 0 and 0.0 == 0 hold in Python) -/
def Val.eqZero : Val → Bool
  | .int i => decide (i = 0)
  | .id n => decide (n = 0)
  | .real r => decide (r = 0)
  | .bool b => !b
  | _ => false

/-- `len(value) == 0` (asked of strings only) -/
def Val.lenZero : Val → Bool
  | .str s => decide (s = "")
  | _ => false

/-- the declared type name as the source compares it: upper-cased -/
def Ty.upperChars : Ty → List Char
  | .boolean => ['B', 'O', 'O', 'L', 'E', 'A', 'N']
  | .integer => ['I', 'N', 'T', 'E', 'G', 'E', 'R']
  | .real => ['R', 'E', 'A', 'L']
  | .string => ['S', 'T', 'R', 'I', 'N', 'G']
  | .uniqueId => ['U', 'N', 'I', 'Q', 'U', 'E', '_', 'I', 'D']

theorem ofUpper_upperChars (ty : Ty) : Ty.ofUpper ty.upperChars = some ty := by
  cases ty <;> decide

/-- the null rule of the model is the rule translated from `_is_null`, on every value that has the declared type
    of its attribute (or is `None`) -/
theorem isNull_eq_generated (ty : Ty) (v : Val) (h : v.hasTy ty = true ∨ v = .none) :
    Pyx.Gen.LoadDecisions.isNull v.truthy v.isNone ty.upperChars v.eqZero v.lenZero = isNull v := by
  rcases h with h | rfl
  · cases ty <;> cases v <;> simp [Val.hasTy] at h <;>
      simp [Pyx.Gen.LoadDecisions.isNull, isNull, Val.truthy, Val.isNone, Val.eqZero, Val.lenZero, Ty.upperChars] <;>
      (rw [Bool.eq_iff_iff]; simp)
  · cases ty <;> simp [Pyx.Gen.LoadDecisions.isNull, isNull, Val.truthy, Val.isNone]

/-! ### the key computations -/

def pickVar (v : Var) (e : String × String) : String :=
  match v with
  | .fst => e.1
  | .snd => e.2

/-- the loop entries: `items()` gives (key, value), `keys()` / `values()` one variable -/
def keyEntries (it : Iter) (km : List (String × String)) : List (String × String) :=
  match it with
  | .items => km
  | .keys => km.map (fun p => (p.1, p.1))
  | .values => km.map (fun p => (p.2, p.2))

/-- what a `KeySpec` computes on a key map and an instance -/
def evalKey (spec : KeySpec) (km : List (String × String)) (r : Row) : Option Key :=
  let entries := keyEntries spec.iter km
  if entries.any (fun e => isNull (r.get (pickVar spec.nullOn e))) then none
  else
    match spec.result with
    | .frozensetOfItems =>
      some (dictOfPairs (entries.map (fun e => (pickVar spec.name e, r.get (pickVar spec.valueFrom e)))))

theorem lookupKey_eq_generated (a : AssocStmt) (s : Row) :
    lookupKey a s = evalKey Pyx.Gen.LoadDecisions.lookupKey (keyMap a) s := rfl

theorem indexKey_eq_generated (a : AssocStmt) (t : Row) :
    indexKey (keyNames a) t = evalKey Pyx.Gen.LoadDecisions.indexKey (keyMap a) t := by
  simp only [indexKey, keyNames, evalKey, Pyx.Gen.LoadDecisions.indexKey, keyEntries, pickVar, List.any_map, List.map_map]
  rfl

/-! ### the batch relate -/

/-- `Link.connect(x, y, check)` driven by the decision translated from the source (Gen/LinkDecisions.lean) -/
def connectBy (m : Nat → List Nat) (many check : Bool) (x y : Nat) : Nat → List Nat :=
  match Pyx.Gen.LinkDecisions.connect (decide (y ∈ m x)) (decide (m x ≠ [])) many check with
  | .mutate => fun z => if z = x then m x ++ [y] else m z
  | _ => m

/-- with `check=False` the cardinality plays no role: the model's unchecked `connect` -/
theorem connectBy_unchecked (m : Nat → List Nat) (many : Bool) (x y : Nat) :
    connectBy m many false x y = connect m x y := by
  funext z
  by_cases h : y ∈ m x <;> by_cases hz : z = x <;>
    simp [connectBy, Pyx.Gen.LinkDecisions.connect, connect, osetAdd, h, hz]

/-- one generated `connect` call for the probing instance `i` and the indexed instance `j` -/
def applyConnect (a : AssocStmt) (c : LinkName × ArgOrder × Bool) (L : Links) (i j : Nat) : Links :=
  let x := match c.2.1 with | .indexedThenProbing => j | .probingThenIndexed => i
  let y := match c.2.1 with | .indexedThenProbing => i | .probingThenIndexed => j
  match c.1 with
  | .sourceLink => ⟨connectBy L.src a.srcMany c.2.2 x y, L.tgt⟩
  | .targetLink => ⟨L.src, connectBy L.tgt a.tgtMany c.2.2 x y⟩

/-- the model's step for one (source row, referred row in its bucket) is the sequence of `connect` calls of the source -/
theorem connectStep_eq_generated (a : AssocStmt) (L : Links) (i j : Nat) :
    (⟨connect L.src j i, connect L.tgt i j⟩ : Links) =
      Pyx.Gen.LoadDecisions.connects.foldl (fun L c => applyConnect a c L i j) L := by
  simp only [Pyx.Gen.LoadDecisions.connects, List.foldl_cons, List.foldl_nil, applyConnect, connectBy_unchecked]

/-- which class is indexed, which probes, and per what the index is shared: as the model's `hashJoin` /
    `connectAll` have it (index over the rows of `tgtKind` keyed by `keyNames a` = the values of the source link's
    key map; the rows of `srcKind` probe with `lookupKey`) -/
theorem direction_eq_generated :
    indexedSide = .target ∧ probingSide = .source ∧ cacheLink = .sourceLink ∧ cacheNames = .values ∧
    indexKeyLink = .sourceLink ∧ lookupKeyLink = .sourceLink := by decide

/-! ### the batch relate of `MetaClass.new` -/

/-- the null test that `new` applies to a referential value is the model's `isNull`, on every value that has the
    declared type of its attribute (or is `None`) -/
theorem newIsNull_eq_generated (ty : Ty) (v : Val) (h : v.hasTy ty = true ∨ v = .none) :
    Pyx.Gen.LoadDecisions.newIsNull v.isNone ty.upperChars v.eqZero v.lenZero = isNull v := by
  rcases h with h | rfl
  · cases ty <;> cases v <;> simp [Val.hasTy] at h <;>
      simp [Pyx.Gen.LoadDecisions.newIsNull, isNull, Val.isNone, Val.eqZero, Val.lenZero, Ty.upperChars] <;>
      (rw [Bool.eq_iff_iff]; simp)
  · cases ty <;> simp [Pyx.Gen.LoadDecisions.newIsNull, isNull, Val.isNone]

/-- one entry of `self.links.values()` in `new`, driven by the translated decisions: which names must have been given,
    what a null value does, which loop variable names the query attribute / the given value -/
def relateLinkBy (given : Iter) (onNull : OnNull) (qn vf : Var)
    (refs : List (String × Val)) (km : List (String × String))
    (okind kind : String) (i : Nat) (rel phrase : String) (m : Model) : Model × Outcome :=
  let names := (keyEntries given km).map (·.2)
  let nullAt : String × String → Bool := fun p => isNull ((refs.lookup (pickVar vf p)).getD .none)
  let query : List (String × String) → Model × Outcome := fun km' =>
    if km'.isEmpty then (m, .ok)                                          -- `if not kwargs: continue`
    else relateQuery (fuelOf m) (km'.map (fun p => (pickVar qn p, (refs.lookup (pickVar vf p)).getD .none)))
      okind kind i rel phrase (List.range (rowsOf m.classes okind).length) m
  if !(names.all (fun x => (refs.map (·.1)).contains x)) then (m, .ok)
  else match onNull with
    | .skipLink => if km.any nullAt then (m, .ok) else query km
    | .skipValue => query (km.filter (fun p => !nullAt p))

theorem relateLink_eq_generated (refs : List (String × Val)) (km : List (String × String))
    (okind kind : String) (i : Nat) (rel phrase : String) (m : Model) :
    relateLink refs km okind kind i rel phrase m =
      relateLinkBy newGivenNames newOnNull newQueryName newValueFrom refs km okind kind i rel phrase m := by
  simp only [relateLink, relateLinkBy, newGivenNames, newOnNull, newQueryName, newValueFrom, keyEntries, pickVar,
    List.map_map, List.all_map]
  rfl

/-- the `relate` call of `new`: the instance found by the query first, the new instance second, the link's own
    relationship number and phrase — as `relateQuery` calls `relate m okind j kind i rel phrase` -/
theorem newRelateArgs_eq_generated : newRelateArgs = [.other, .inst, .relId, .phrase] := by decide

end Pyx.Load
